/-
  C15 — Results are deterministic and independent of earlier calls.
  Only property theorems, non-vacuity examples and witnesses live here.
  (a) holds for ALL operand lists / graphs; (b) `reuse_eq_fresh` holds for ALL field-write histories and is instantiated
  with the field lists extracted from the source on this run (Generated/C15.lean); the instantiation premises are finite
  tables decided completely by `decide`.
-/
import SqlglotModel.Proofs.Determinism
import SqlglotModel.Generated.C15

namespace SqlglotModel.Properties.C15
open SqlglotModel.Determinism
open SqlglotModel.Generated.C15

/-! ### (a) the order in which a set / dict hands out its elements is irrelevant -/

/-- `sorted(...)` imposes a canonical order: any two enumerations of the same multiset sort to the same list -/
theorem sorted_perm_invariant {xs ys : List Nat} (h : xs.Perm ys) : isort xs = isort ys := isort_perm h

/-- **uniq_sort**: whatever order the operands arrive in (AND / OR / XOR), the connector it leaves has the same operands
    in the same order -/
theorem uniq_sort_perm_invariant (xor : Bool) {xs ys : List Nat} (h : xs.Perm ys) :
    uniqSort xor xs = uniqSort xor ys := uniqSort_perm xor h

/-- what that canonical form is: the distinct keys in ascending order (a single repeated operand `A AND A` becomes
    `A AND TRUE`); the "already sorted" / "only duplicates" fast paths do not change it -/
theorem uniq_sort_canonical (xs : List Nat) :
    uniqSort false xs =
      (if (dedupFirst xs).length = 1 ∧ 1 < xs.length then ⟨dedupFirst xs, true⟩ else ⟨isort (dedupFirst xs), false⟩) ∧
    uniqSort true xs = ⟨isort xs, false⟩ ∧
    (isort (dedupFirst xs)).Pairwise (· < ·) ∧ ∀ a, a ∈ isort (dedupFirst xs) ↔ a ∈ xs :=
  ⟨uniqSort_spec xs, uniqSort_xor xs, strict_isort (nodup_dedupFirst xs), fun a => by rw [mem_isort, mem_dedupFirst]⟩

/-- **tsort**: the result (or the cycle error) does not depend on the dict's iteration order -/
theorem tsort_order_independent {d d' : Dag} (h : d.Perm d') : tsort d = tsort d' := tsort_perm h

/-- **remove_complements**: whether `A AND NOT A` is found does not depend on the order the operand set is walked in -/
theorem remove_complements_perm_invariant {xs ys : List Opnd} (h : xs.Perm ys) :
    removeComplements xs = removeComplements ys := removeComplements_perm h

example : uniqSort false [2, 0, 1, 0] = ⟨[0, 1, 2], false⟩ ∧ uniqSort false [0, 1, 2, 0] = ⟨[0, 1, 2], false⟩ ∧
    uniqSort false [3, 3] = ⟨[3], true⟩ ∧ uniqSort true [1, 0, 1] = ⟨[0, 1, 1], false⟩ := by decide
example : tsort [(2, [1]), (1, [0, 5]), (0, [])] = some [0, 5, 1, 2] ∧ tsort [(0, []), (1, [0, 5]), (2, [1])] = some [0, 5, 1, 2] ∧
    tsort [(0, [1]), (1, [0])] = none := by decide
example : removeComplements [.atom 1, .not (.atom 2), .atom 2] = true ∧ removeComplements [.atom 2, .atom 1, .not (.atom 3)] = false := by
  decide

/-! ### (b) a reused component starts every call from the state a new one has -/

/-- **reuse = fresh** for every history: `dirty` is ANY state reached by calls that only wrote fields in `written` -/
theorem reuse_eq_fresh (init reset : Assigns) (written exempt : List String)
    (h1 : resetRepeatsInit init reset = true) (h2 : writesCovered reset written exempt = true)
    (dirty : State) (hd : ∀ f, f ∉ written → dirty f = fresh init f) :
    ∀ f, f ∉ exempt → setAll reset dirty f = fresh init f :=
  reuse_eq_fresh_general init reset written exempt h1 h2 dirty hd

/-- Parser: `reset()` re-assigns `__init__`'s default to every per-call field, every field any parser method (base or
    dialect) writes is among them — except `error_level`, which `_try_parse` hands back itself (C14) — and `_parse`
    begins with `self.reset()` (finite tables from the current source, decided completely) -/
theorem parser_reset_eq_init :
    resetRepeatsInit parserInit parserReset = true ∧ writesCovered parserReset parserWritten ["error_level"] = true ∧
    entryResets.lookup "Parser._parse" = some "true" := by decide +kernel

theorem parser_reuse_eq_fresh (dirty : State) (hd : ∀ f, f ∉ parserWritten → dirty f = fresh parserInit f) :
    ∀ f, f ≠ "error_level" → setAll parserReset dirty f = fresh parserInit f := by
  intro f hf
  exact reuse_eq_fresh parserInit parserReset parserWritten ["error_level"] parser_reset_eq_init.1 parser_reset_eq_init.2.1
    dirty hd f (by simpa using hf)

/-- TokenizerCore: the same, with no exemption; `tokenize` begins with `self.reset()` -/
theorem tokenizer_reset_eq_init :
    resetRepeatsInit tokenizerInit tokenizerReset = true ∧ writesCovered tokenizerReset tokenizerWritten [] = true ∧
    entryResets.lookup "TokenizerCore.tokenize" = some "true" := by decide +kernel

theorem tokenizer_reuse_eq_fresh (dirty : State) (hd : ∀ f, f ∉ tokenizerWritten → dirty f = fresh tokenizerInit f) :
    ∀ f, setAll tokenizerReset dirty f = fresh tokenizerInit f := by
  intro f
  exact reuse_eq_fresh tokenizerInit tokenizerReset tokenizerWritten [] tokenizer_reset_eq_init.1 tokenizer_reset_eq_init.2.1
    dirty hd f (by simp)

/-- Generator: `generate()` re-assigns `unsupported_messages` and the alias counter `_next_name` to `__init__`'s values.
    The only other fields generation writes are `identify` (`no_identify`) and `_quote_json_path_key_using_brackets`
    (BigQuery's JSON path helper): both are toggled and put back by the writer itself, on the normal path only (no
    `finally`) — hence PARTIAL: the statement below is for every field except those two. -/
theorem generator_reset_eq_init_partial :
    resetRepeatsInit generatorInit generatorReset = true ∧
    writesCovered generatorReset generatorWritten ["identify", "_quote_json_path_key_using_brackets"] = true := by
  decide +kernel

theorem generator_reuse_eq_fresh_partial (dirty : State) (hd : ∀ f, f ∉ generatorWritten → dirty f = fresh generatorInit f) :
    ∀ f, f ∉ ["identify", "_quote_json_path_key_using_brackets"] →
      setAll generatorReset dirty f = fresh generatorInit f :=
  reuse_eq_fresh generatorInit generatorReset generatorWritten _ generator_reset_eq_init_partial.1
    generator_reset_eq_init_partial.2 dirty hd

/-- in particular the alias counter: whatever an earlier call left in `_next_name`, `generate()` starts from the
    constructor's `name_sequence('_t')` (current source; this is the repaired behaviour) -/
theorem generator_next_name_restarts (dirty : State) :
    setAll generatorReset dirty "_next_name" = fresh generatorInit "_next_name" := by
  rw [setAll_eq, fresh, setAll_eq]
  have h1 : lastVal generatorReset "_next_name" = some "name_sequence('_t')" := by decide +kernel
  have h2 : lastVal generatorInit "_next_name" = some "name_sequence('_t')" := by decide +kernel
  rw [h1, h2]

/-- **why that reset is needed** (witness on an explicit snapshot of the pre-repair source, not on the regenerated lists):
    with a reset block that assigns only `unsupported_messages`, an advanced alias counter survives `generate()` while a new
    Generator starts at `name_sequence('_t')`.  Real-code instance before the repair:
    `g.generate(parse_one("SELECT * FROM t AS (a, b)"))` twice gave `_t0`, then `_t1`. -/
theorem generator_next_name_snapshot_witness :
    setAll preFixGeneratorReset (update (fresh preFixGeneratorInit) "_next_name" "<advanced>") "_next_name" = some "<advanced>" ∧
    fresh preFixGeneratorInit "_next_name" = some "name_sequence('_t')" ∧
    writesCovered preFixGeneratorReset ["_next_name", "unsupported_messages"] [] = false := by decide +kernel

/-! ### (c) process-wide state -/

/-- the places where code running after import writes state shared by the whole process (module-level containers mutated in
    functions, class attributes written through `cls` / `type(self)`, `globals()`, functools caches, `*_CACHE` names), as
    extracted from the current source, are exactly the audited ones (finite table, decided completely).  What the audited
    ones do to results is covered by the fresh-process / call-order sweep, not by this theorem. -/
theorem process_wide_state_ok : processWideState = expectedProcessWideState := by decide +kernel

end SqlglotModel.Properties.C15
