/-
  C14 — Error levels change how problems are reported, never what is produced.
  Only property theorems, non-vacuity examples and witnesses live here.  Every theorem quantifies over ALL rule tables,
  programs of the combinator language, chunked token inputs, fuel, max_errors and max_nodes (Model/Levels.lean).
  `run cfg fuel p L` = the parse of program `p` started from `Parser.reset()` at level `L`.
  Premises of the form `run … .warn = .ok t sw` say "the WARN run terminates" (termination is C05's subject):
  the RAISE / IMMEDIATE runs stop earlier, the WARN run carries on, so it is the one that may run out of fuel.
-/
import SqlglotModel.Proofs.Levels
import SqlglotModel.Generated.C14

namespace SqlglotModel.Properties.C14
open SqlglotModel.Levels

/-- **IGNORE and WARN never raise and return the same trees**, for every rule table, program, chunked input,
    fuel, max_errors and max_nodes. (`ctl` = tokens, position, chunk index, node counter.) -/
theorem ignore_warn_same (cfg : Cfg) (fuel : Nat) (p : Comb) :
    (∀ e s, run cfg fuel p .ignore ≠ .exc e s) ∧ (∀ e s, run cfg fuel p .warn ≠ .exc e s) ∧
    (∀ t s, run cfg fuel p .warn = .ok t s → ∃ s', run cfg fuel p .ignore = .ok t s' ∧ s'.ctl = s.ctl) ∧
    (∀ t s, run cfg fuel p .ignore = .ok t s → ∃ s', run cfg fuel p .warn = .ok t s' ∧ s'.ctl = s.ctl) ∧
    (run cfg fuel p .ignore = .diverge ↔ run cfg fuel p .warn = .diverge) := by
  have h := exec_L cfg fuel p init_L
  have f1 := exec_frame cfg fuel p (init .ignore)
  have f2 := exec_frame cfg fuel p (init .warn)
  simp only [run]
  generalize exec cfg fuel p (init .ignore) = r1 at h f1
  generalize exec cfg fuel p (init .warn) = r2 at h f2
  cases r1 <;> cases r2 <;> simp only [ResL] at h <;> try contradiction
  · obtain ⟨rfl, hc, _⟩ := h
    refine ⟨by simp, by simp, ?_, ?_, by simp⟩
    · intro t s e; cases e; exact ⟨_, rfl, hc⟩
    · intro t s e; cases e; exact ⟨_, rfl, hc.symm⟩
  · have h1 : _ = Level.immediate := h.2.2
    have h2 : _ = (init .ignore).level := f1.level
    rw [h1] at h2; cases h2
  · simp


/-- the RAISE run against the WARN run, whatever they do -/
theorem raise_vs_warn (cfg : Cfg) (fuel : Nat) (p : Comb) :
    ResW cfg (run cfg fuel p .raise) (run cfg fuel p .warn) := exec_W cfg fuel p init_W

/-- **RAISE raises exactly when WARN logged at least one error** (WARN run terminating with state `sw`);
    when RAISE returns it returns WARN's tree. -/
theorem raise_iff_warn_logs (cfg : Cfg) (fuel : Nat) (p : Comb) (t : Tree) (sw : St)
    (hw : run cfg fuel p .warn = .ok t sw) :
    ((∃ e s, run cfg fuel p .raise = .exc e s) ↔ ∃ b ∈ sw.log, b ≠ []) ∧
    (∀ t' s, run cfg fuel p .raise = .ok t' s → t' = t ∧ s.ctl = sw.ctl) ∧
    run cfg fuel p .raise ≠ .diverge := by
  have h := raise_vs_warn cfg fuel p
  have f1 := exec_frame cfg fuel p (init .raise)
  rw [hw] at h
  simp only [run] at *
  generalize exec cfg fuel p (init .raise) = r1 at h f1
  cases r1 with
  | ok t1 s1 =>
    simp only [ResW] at h
    obtain ⟨rfl, hc, _, hn, _⟩ := h
    refine ⟨Iff.intro (fun h => by obtain ⟨e, s, h⟩ := h; cases h) (fun h => by obtain ⟨b, hb, hne⟩ := h; exact (hne (firstNonempty_none_all hn b hb)).elim), ?_, by simp⟩
    intro t' s e; cases e; exact ⟨rfl, hc⟩
  | exc e1 s1 =>
    simp only [ResW] at h
    obtain ⟨_, _, _, _, hb⟩ := h
    have := firstNonempty_some_mem hb
    exact ⟨⟨fun _ => ⟨_, this.1, this.2⟩, fun _ => ⟨_, _, rfl⟩⟩, by simp, by simp⟩
  | diverge => simp [ResW] at h

/-- **RAISE reports all collected errors**: the exception carries exactly the batch WARN logged at that
    `check_errors` call (the first non-empty batch), it is non-empty, and the message is `concat_messages` of it. -/
theorem raise_reports_all (cfg : Cfg) (fuel : Nat) (p : Comb) (t : Tree) (sw : St) (e : Exn) (s : St)
    (hw : run cfg fuel p .warn = .ok t sw) (hr : run cfg fuel p .raise = .exc e s) :
    firstNonempty sw.log = some e.errors ∧ e.errors ≠ [] ∧ e = Exn.collected e.errors cfg.maxErrors := by
  have h := raise_vs_warn cfg fuel p
  rw [hw, hr] at h
  simp only [ResW] at h
  exact ⟨h.2.2.2.2, h.2.1, h.2.2.1⟩

/-- **the message renders at most `max_errors` errors** (no termination premise): whenever the RAISE run
    raises, the exception is `ParseError(concat_messages(errors, max_errors), errors)`. -/
theorem message_at_most_max (cfg : Cfg) (fuel : Nat) (p : Comb) (e : Exn) (s : St)
    (hr : run cfg fuel p .raise = .exc e s) :
    e.rendered = e.errors.take cfg.maxErrors ∧ e.rendered.length ≤ cfg.maxErrors ∧
    e.more = e.errors.length - cfg.maxErrors := by
  have h := raise_vs_warn cfg fuel p
  have f1 := exec_frame cfg fuel p (init .raise)
  simp only [run] at *
  rw [hr] at h f1
  have hl : s.level = .raise := f1.level
  have key : e = Exn.collected e.errors cfg.maxErrors := by
    generalize exec cfg fuel p (init .warn) = r2 at h
    cases r2 with
    | ok _ _ => exact h.2.2.1
    | exc _ _ => simp only [ResW] at h; rw [hl] at h; exact absurd h.2.2 (by simp)
    | diverge => exact h.2.2.1
  rw [key]
  simp [Exn.collected, concatMessages, List.length_take, Nat.min_le_left]

/-- the IMMEDIATE run against the WARN run, whatever they do -/
theorem immediate_vs_warn (cfg : Cfg) (fuel : Nat) (p : Comb) :
    ResI (run cfg fuel p .immediate) (run cfg fuel p .warn) := exec_I cfg fuel p init_I

/-- **IMMEDIATE raises the first error**: it raises iff the WARN run collected an error, the exception is that
    first error alone, and when it returns it returns WARN's tree. -/
theorem immediate_is_first (cfg : Cfg) (fuel : Nat) (p : Comb) (t : Tree) (sw : St)
    (hw : run cfg fuel p .warn = .ok t sw) :
    ((∃ e s, run cfg fuel p .immediate = .exc e s) ↔ sw.errors ≠ []) ∧
    (∀ e s, run cfg fuel p .immediate = .exc e s → ∃ m, sw.errors.head? = some m ∧ e = Exn.single m) ∧
    (∀ t' s, run cfg fuel p .immediate = .ok t' s → t' = t ∧ s.ctl = sw.ctl) ∧
    run cfg fuel p .immediate ≠ .diverge := by
  have h := immediate_vs_warn cfg fuel p
  rw [hw] at h
  simp only [run] at *
  generalize exec cfg fuel p (init .immediate) = r1 at h
  cases r1 with
  | ok t1 s1 =>
    simp only [ResI] at h
    obtain ⟨rfl, hc, he, _⟩ := h
    refine ⟨Iff.intro (fun h => by obtain ⟨e, s, h⟩ := h; cases h) (fun hne => (hne he).elim), (fun e s h => by cases h), ?_, by simp⟩
    intro t' s e; cases e; exact ⟨rfl, hc⟩
  | exc e1 s1 =>
    simp only [ResI] at h
    obtain ⟨m, rfl, _, hm⟩ := h
    simp only [FirstErr] at hm
    refine ⟨⟨fun _ => ?_, fun _ => ⟨_, _, rfl⟩⟩, ?_, by simp, by simp⟩
    · intro h0; rw [h0] at hm; simp at hm
    · intro e s h; cases h; exact ⟨m, hm, rfl⟩
  | diverge => simp [ResI] at h

/-- **`_try_parse` restores the level — also on the exception path — never raises, and leaves `errors`
    and the log alone**, whatever the body does and whatever the level at entry. -/
theorem try_parse_restores_level (cfg : Cfg) (fuel : Nat) (c : Comb) (retreat : Bool) (s : St) :
    match exec cfg fuel (.tryParse c retreat) s with
    | .ok _ s' => s'.level = s.level ∧ s'.errors = s.errors ∧ s'.log = s.log
    | .exc _ _ => False
    | .diverge => True := by
  cases fuel with
  | zero => simp [exec]
  | succ n =>
    simp only [exec]
    have f := exec_frame cfg n c { s with level := .immediate }
    generalize exec cfg n c { s with level := .immediate } = r at f
    cases r with
    | ok t a =>
      have := f.imm rfl
      simp only [Levels.tryCatch, tryFinish]
      split <;> simp [this.1, this.2]
    | exc e a =>
      have := f.imm rfl
      simp only [Levels.tryCatch, tryFinish]
      split <;> simp [this.1, this.2]
    | diverge => trivial

/-- every program — not only `_try_parse` — hands the level back unchanged, on both paths -/
theorem level_preserved (cfg : Cfg) (fuel : Nat) (c : Comb) (s : St) :
    (∀ t s', exec cfg fuel c s = .ok t s' → s'.level = s.level) ∧
    (∀ e s', exec cfg fuel c s = .exc e s' → s'.level = s.level) := by
  have f := exec_frame cfg fuel c s
  constructor
  · intro t s' h; rw [h] at f; exact f.level
  · intro e s' h; rw [h] at f; exact f.level

/-- **inside `_try_parse` the outer level is irrelevant**: from two states that agree on what the parser can
    see (tokens, position, chunk, node counter) but carry ANY two levels / error lists, `_try_parse` gives the
    same result and the same control state. -/
theorem try_parse_level_independent (cfg : Cfg) (fuel : Nat) (c : Comb) (retreat : Bool) (s1 s2 : St)
    (h : s1.ctl = s2.ctl) :
    match exec cfg fuel (.tryParse c retreat) s1, exec cfg fuel (.tryParse c retreat) s2 with
    | .ok t1 a, .ok t2 b => t1 = t2 ∧ a.ctl = b.ctl
    | .diverge, .diverge => True
    | _, _ => False := by
  cases fuel with
  | zero => simp [exec]
  | succ n =>
    simp only [exec]
    have l := exec_L cfg n c (s1 := { s1 with level := .immediate }) (s2 := { s2 with level := .immediate })
      ⟨by simpa [St.ctl] using h, Or.inr ⟨rfl, rfl⟩⟩
    obtain ⟨_, hp, _, _⟩ := ctl_eq h
    generalize exec cfg n c { s1 with level := .immediate } = r1 at l
    generalize exec cfg n c { s2 with level := .immediate } = r2 at l
    cases r1 <;> cases r2 <;> simp only [ResL] at l <;> try contradiction
    · obtain ⟨rfl, hc, _⟩ := l
      obtain ⟨a1, a2, a3, a4⟩ := ctl_eq hc
      simp only [Levels.tryCatch, tryFinish, true_and]
      split <;> simp [St.ctl, *]
    · obtain ⟨_, ⟨hc, _⟩, _⟩ := l
      obtain ⟨a1, a2, a3, a4⟩ := ctl_eq hc
      simp [Levels.tryCatch, tryFinish, St.ctl, Tree.truthy, *]
    · trivial


/-- **IMMEDIATE raises the first of the errors RAISE reports**: if RAISE raises `e`, IMMEDIATE raises exactly
    the head of `e.errors` (needs the WARN run to terminate, through which the two are related). -/
theorem immediate_first_of_raise (cfg : Cfg) (fuel : Nat) (p : Comb) (t : Tree) (sw : St) (e : Exn) (s : St)
    (hw : run cfg fuel p .warn = .ok t sw) (hr : run cfg fuel p .raise = .exc e s) :
    ∃ m s', e.errors.head? = some m ∧ run cfg fuel p .immediate = .exc (Exn.single m) s' := by
  obtain ⟨hfb, hne, _⟩ := raise_reports_all cfg fuel p t sw e s hw hr
  have inv : LogInv sw := by
    have := exec_inv cfg fuel p (init_inv .warn)
    simp only [run] at hw
    rw [hw] at this
    exact this
  obtain ⟨r, hr'⟩ := inv _ (firstNonempty_some_mem hfb).1
  obtain ⟨hiff, hfirst, _, _⟩ := immediate_is_first cfg fuel p t sw hw
  have hsw : sw.errors ≠ [] := by
    intro h0; rw [h0] at hr'
    cases he : e.errors with
    | nil => exact hne he
    | cons x xs => rw [he] at hr'; simp at hr'
  obtain ⟨e', s', hi⟩ := hiff.mpr hsw
  obtain ⟨m, hm, rfl⟩ := hfirst e' s' hi
  refine ⟨m, s', ?_, hi⟩
  cases he : e.errors with
  | nil => exact (hne he).elim
  | cons x xs => rw [hr', he] at hm; simpa using hm

/-! ### multi-statement scripts: what RAISE reports relative to the whole WARN run -/

/-- every batch WARN logs (one per `check_errors`, i.e. per statement) is a prefix of the errors collected in the end:
    errors are never removed, each later statement's batch repeats the earlier ones and appends its own -/
theorem warn_batches_are_prefixes (cfg : Cfg) (fuel : Nat) (p : Comb) (t : Tree) (sw : St)
    (hw : run cfg fuel p .warn = .ok t sw) : ∀ b ∈ sw.log, ∃ rest, sw.errors = b ++ rest := by
  have := exec_inv cfg fuel p (init_inv .warn)
  simp only [run] at hw
  rw [hw] at this
  exact this

/-- **`raise_reports_all` across chunks**: in a script, RAISE stops at the first statement that leaves errors behind and reports
    ALL errors collected up to and including that statement, in order — they are an initial segment of what the WARN run
    collects over the whole script (`rest` = the errors of the later statements, which RAISE never reaches). -/
theorem raise_errors_prefix_of_warn (cfg : Cfg) (fuel : Nat) (p : Comb) (t : Tree) (sw : St) (e : Exn) (s : St)
    (hw : run cfg fuel p .warn = .ok t sw) (hr : run cfg fuel p .raise = .exc e s) :
    ∃ rest, sw.errors = e.errors ++ rest :=
  warn_batches_are_prefixes cfg fuel p t sw hw _
    (firstNonempty_some_mem (raise_reports_all cfg fuel p t sw e s hw hr).1).1

/-- `merge_errors` over errors produced by `raise_error` (one dict each) neither drops nor reorders anything, and the
    rendered part of the message is a prefix of it of length min(max_errors, n) -/
theorem merge_errors_singletons (es : List Msg) (mx : Nat) :
    mergeErrors (es.map fun m => [m]) = es ∧
    (concatMessages es mx).1 = es.take mx ∧ (concatMessages es mx).1.length = min mx es.length ∧
    (concatMessages es mx).2 + (concatMessages es mx).1.length = es.length := by
  refine ⟨?_, rfl, by simp [concatMessages, List.length_take], ?_⟩
  · induction es with
    | nil => rfl
    | cons m ms ih => simpa [mergeErrors] using ih
  · simp only [concatMessages, List.length_take]; omega

/-! ### sub-parsers and direct raises -/

/-- programs that use no propagating sub-parser and no direct `raise ParseError` behave exactly as their `Comb` image,
    so every theorem above holds for them -/
theorem xrun_confined (cfg : Cfg) (fuel : Nat) (x : XComb) (l : Level) (h : x.confined = true) :
    xrun cfg fuel x l = run cfg fuel x.toComb l := xexec_confined cfg fuel x (init l) h

/-- PARTIAL (side condition: `x.confined` — no direct-raising builder reached, sub-parser errors confined):
    IGNORE and WARN never raise and return the same trees -/
theorem x_ignore_warn_same_partial (cfg : Cfg) (fuel : Nat) (x : XComb) (h : x.confined = true) :
    (∀ e s, xrun cfg fuel x .ignore ≠ .exc e s) ∧ (∀ e s, xrun cfg fuel x .warn ≠ .exc e s) ∧
    (∀ t s, xrun cfg fuel x .warn = .ok t s → ∃ s', xrun cfg fuel x .ignore = .ok t s' ∧ s'.ctl = s.ctl) := by
  rw [xrun_confined cfg fuel x _ h, xrun_confined cfg fuel x _ h]
  have := ignore_warn_same cfg fuel x.toComb
  exact ⟨this.1, this.2.1, this.2.2.1⟩

/-- PARTIAL (same side condition): RAISE raises iff WARN logged an error; IMMEDIATE raises iff WARN collected one -/
theorem x_strict_iff_warn_partial (cfg : Cfg) (fuel : Nat) (x : XComb) (h : x.confined = true) (t : Tree) (sw : St)
    (hw : xrun cfg fuel x .warn = .ok t sw) :
    ((∃ e s, xrun cfg fuel x .raise = .exc e s) ↔ ∃ b ∈ sw.log, b ≠ []) ∧
    ((∃ e s, xrun cfg fuel x .immediate = .exc e s) ↔ sw.errors ≠ []) := by
  rw [xrun_confined cfg fuel x _ h] at hw ⊢
  rw [xrun_confined cfg fuel x _ h]
  exact ⟨(raise_iff_warn_logs cfg fuel x.toComb t sw hw).1, (immediate_is_first cfg fuel x.toComb t sw hw).1⟩

/-- a direct raise and a propagating sub-parser are blind to the outer level and to the errors collected so far -/
theorem hard_error_level_blind (cfg : Cfg) (n : Nat) (m : Msg) (l : Level) (toks : List Nat) (body : XComb) (s1 s2 : St) :
    xexec cfg (n + 1) (.hardRaise m) s1 = .exc (Exn.single m) s1 ∧
    (xexec cfg (n + 1) (.subParse l toks body) s1).tree? = (xexec cfg (n + 1) (.subParse l toks body) s2).tree? ∧
    ((∃ e, (xexec cfg (n + 1) (.subParse l toks body) s1).obs = .raised e s1.level) ↔
      ∃ e, (xexec cfg (n + 1) (.subParse l toks body) s2).obs = .raised e s2.level) := by
  refine ⟨rfl, ?_, ?_⟩ <;> simp only [xexec] <;>
    generalize xexec cfg n body { level := l, toks := toks } = r <;> cases r <;> simp [subPropagate, Res.tree?, Res.obs]

def xCfg : Cfg := { rules := [], chunks := [], maxErrors := 3, maxNodes := none }

/-- **counter-example to the full statement (known finding C14-hint-subparser-raises)**: `SELECT /*+ */ 1`.  `_parse_hint`
    re-parses the hint comment in a sub-parser at the default level IMMEDIATE; the sub-parser's error (message 7) is not routed
    through the outer `raise_error`, so the IGNORE and the WARN run RAISE it, WARN logs nothing, and yet RAISE raises too. -/
theorem hint_subparser_counterexample :
    let x : XComb := .seq 0 (.subParse .immediate [] (.core (.raiseError 7))) (.core .checkErrors)
    (xrun xCfg 9 x .ignore).obs = .raised (Exn.single 7) .ignore ∧
    (xrun xCfg 9 x .warn).obs = .raised (Exn.single 7) .warn ∧
    (xrun xCfg 9 x .raise).obs = .raised (Exn.single 7) .raise ∧ x.confined = false := by decide +kernel

/-- the same sub-parser with its error confined (what `to_json_path` does, and what a repair of `_parse_hint` would do):
    all four levels return, nothing is logged -/
theorem hint_subparser_confined_ok :
    let c : Comb := .node 0 (.subConfined .immediate [] (.raiseError 7)) .checkErrors
    (run xCfg 9 c .ignore).obs = .returned [] [] .ignore ∧ (run xCfg 9 c .warn).obs = .returned [] [[]] .warn ∧
    (run xCfg 9 c .raise).obs = .returned [] [] .raise ∧ (run xCfg 9 c .immediate).obs = .returned [] [] .immediate := by
  decide +kernel

/-- **counter-example to the full statement (known finding C14-builder-raises-parseerror; also `alias_(None)`)**: a builder
    that raises ParseError directly (message 9) after an ordinary error (message 4, collected): the lenient runs raise 9;
    RAISE raises 9 alone although it had collected 4; IMMEDIATE raises 4, which is not what the others report. -/
theorem builder_direct_raise_counterexample :
    let x : XComb := .seq 0 (.core (.raiseError 4)) (.seq 0 (.hardRaise 9) (.core .checkErrors))
    (xrun xCfg 9 x .ignore).obs = .raised (Exn.single 9) .ignore ∧
    (xrun xCfg 9 x .warn).obs = .raised (Exn.single 9) .warn ∧
    (xrun xCfg 9 x .raise).obs = .raised (Exn.single 9) .raise ∧
    (xrun xCfg 9 x .immediate).obs = .raised (Exn.single 4) .immediate := by decide +kernel

/-! ### generator -/

/-- PARTIAL (side condition `gNoHard p`: no direct `raise UnsupportedError` is reached):
    **IGNORE, WARN and RAISE yield the same SQL text whenever they return**; IGNORE and WARN always return,
    IGNORE logs nothing, WARN logs every message in order. -/
theorem unsupported_levels_partial (mx : Nat) (p : GComb) (hn : gNoHard p = true) :
    generate .ignore mx p = .returned (gtext p) [] ∧
    generate .warn mx p = .returned (gtext p) (gmsgs p) ∧
    (∀ sql lg, generate .raise mx p = .returned sql lg → sql = gtext p ∧ lg = []) ∧
    (∀ sql lg, generate .immediate mx p = .returned sql lg → sql = gtext p ∧ lg = []) := by
  have hi := gexec_soft p ⟨.ignore, []⟩ (by simp) hn
  have hw := gexec_soft p ⟨.warn, []⟩ (by simp) hn
  have hr := gexec_soft p ⟨.raise, []⟩ (by simp) hn
  have hm := gexec_imm p ⟨.immediate, []⟩ rfl hn
  refine ⟨by simp [generate, hi], by simp [generate, hw], ?_, ?_⟩
  · intro sql lg h
    simp only [generate, hr, List.nil_append, reduceCtorEq, if_false, true_and] at h
    split at h
    · cases h
    · cases h; exact ⟨rfl, rfl⟩
  · intro sql lg h
    simp only [generate, hm] at h
    cases hg : gmsgs p with
    | nil => simp only [hg, reduceCtorEq, if_false, false_and] at h; cases h; exact ⟨rfl, rfl⟩
    | cons m ms => simp [hg] at h

/-- PARTIAL (same side condition): **RAISE raises exactly when WARN logs an unsupported message**, and its message is
    `concat_messages` of all of them: at most `max_unsupported` rendered, then "... and k more". -/
theorem unsupported_raise_iff_warn_logs_partial (mx : Nat) (p : GComb) (hn : gNoHard p = true) :
    ((∃ r k, generate .raise mx p = .raised r k) ↔ gmsgs p ≠ []) ∧
    (∀ r k, generate .raise mx p = .raised r k →
      r = (gmsgs p).take mx ∧ r.length ≤ mx ∧ k = (gmsgs p).length - mx) := by
  have hr := gexec_soft p ⟨.raise, []⟩ (by simp) hn
  constructor
  · constructor
    · intro ⟨r, k, h⟩ h0
      simp [generate, hr, h0] at h
    · intro h0
      exact ⟨(concatMessages (gmsgs p) mx).1, (concatMessages (gmsgs p) mx).2, by simp [generate, hr, h0]⟩
  · intro r k h
    simp only [generate, hr, List.nil_append, reduceCtorEq, if_false, true_and] at h
    split at h
    · cases h; simp [concatMessages, List.length_take, Nat.min_le_left]
    · cases h

/-- PARTIAL (same side condition): **IMMEDIATE raises exactly when WARN logs a message, and raises the first one** -/
theorem immediate_raises_first_partial (mx : Nat) (p : GComb) (hn : gNoHard p = true) :
    ((∃ r k, generate .immediate mx p = .raised r k) ↔ gmsgs p ≠ []) ∧
    (∀ r k, generate .immediate mx p = .raised r k → ∃ m, (gmsgs p).head? = some m ∧ r = [m] ∧ k = 0) := by
  have hm := gexec_imm p ⟨.immediate, []⟩ rfl hn
  cases hg : gmsgs p with
  | nil => simp [generate, hm, hg]
  | cons m ms => simp [generate, hm, hg]

/-- **counter-example to the full statement (known findings C14-hard-unsupported-1..3)**: a direct
    `raise UnsupportedError` (exasol GROUP BY ALL, `unnest_to_explode`): IGNORE and WARN raise as well, WARN logs nothing,
    and the one `self.unsupported` message collected before it (1) is lost under RAISE. -/
theorem hard_unsupported_counterexample :
    let p : GComb := .seq (.unsupported 1) (.seq (.hard 5) (.text "x"))
    generate .ignore 3 p = .raised [5] 0 ∧ generate .warn 3 p = .raised [5] 0 ∧
    generate .raise 3 p = .raised [5] 0 ∧ generate .immediate 3 p = .raised [1] 0 ∧ gNoHard p = false := by decide +kernel

/-- **without a return in `finally`, `preprocess` is exactly "report the transform's message, then go on"**: the direct
    `raise UnsupportedError` of a transform is routed through `self.unsupported`, so every level theorem above applies to it
    (under IMMEDIATE the raise propagates) -/
theorem preprocess_propagates (raised : Option Msg) (rest : GComb) (s : GSt) :
    preprocessStep false raised rest s =
      match raised with
      | none => gexec rest s
      | some m => (unsupported m s).bind fun _ s1 => gexec rest s1 := by
  cases raised with
  | none => rfl
  | some m => simp only [preprocessStep, GRes.bind]; cases unsupported m s <;> rfl

theorem preprocess_immediate_raises (mx : Nat) (m : Msg) (rest : GComb) :
    generatePre .immediate mx false (some m) rest = .raised [m] 0 ∧
    (gNoHard rest = true → generatePre .warn mx false (some m) rest = .returned (gtext rest) (m :: gmsgs rest)) := by
  refine ⟨by simp [generatePre, preprocessStep, unsupported], fun hn => ?_⟩
  have := gexec_soft rest ⟨.warn, [m]⟩ (by simp) hn
  simp [generatePre, preprocessStep, unsupported, this]

/-- **witness: `finally: return expression` swallows the IMMEDIATE raise** (seeded regression C14-6): WARN logs the message,
    RAISE raises, IMMEDIATE returns the SQL without raising — the contract "IMMEDIATE raises exactly when WARN logs" is broken -/
theorem return_in_finally_swallows_immediate :
    generatePre .warn 3 true (some 7) (.text "x") = .returned "x" [7] ∧
    generatePre .raise 3 true (some 7) (.text "x") = .raised [7] 0 ∧
    generatePre .immediate 3 true (some 7) (.text "x") = .returned "x" [] ∧
    generatePre .immediate 3 false (some 7) (.text "x") = .raised [7] 0 := by decide +kernel

/-- the source fact behind `preprocess_propagates`: nowhere between a raise site and its caller does a `return` / `break` /
    `continue` sit in a `finally:` block, and the handlers that could swallow a sqlglot error are the audited ones -/
theorem no_exception_swallowing_on_unsupported_path :
    SqlglotModel.Generated.C14.exceptionFlowSites = expectedExceptionFlowSites ∧
    (SqlglotModel.Generated.C14.exceptionFlowSites.filter fun e => e.2.2.1 == "jump-in-finally") = [] := by decide +kernel

/-- `generate` starts from an empty message list: what an earlier call on the same Generator left behind is irrelevant -/
theorem generate_resets_messages (l : Level) (mx : Nat) (p : GComb) (stale : List Msg) :
    generate l mx p stale = generate l mx p [] := rfl

/-! ### the tie to the source: the level-dependent places are exactly the ones the lemmas account for -/

/-- every read/write site of `error_level` / `errors` / `unsupported_level` / `unsupported_messages`, every handler that
    could swallow a ParseError / UnsupportedError and every caller of `check_errors`, as extracted from the current
    source, is the list the model was written against (finite table, decided completely) -/
theorem level_sites_ok : SqlglotModel.Generated.C14.sites = expectedSites := by decide +kernel

/-- the level-relevant statement skeletons of raise_error, validate_expression, _try_parse (incl. the `finally` restore),
    check_errors, concat_messages, Generator.unsupported and Generator.generate are the mirrored ones -/
theorem level_skeletons_ok : SqlglotModel.Generated.C14.skeletons = expectedSkeletons := by decide +kernel

/-- the `raise ParseError(…)` statements on the parsing side are the audited ones: a NEW direct raise breaks the build -/
theorem direct_raise_sites_ok :
    SqlglotModel.Generated.C14.parseErrorRaiseSites = expectedParseErrorRaiseSites ∧
    SqlglotModel.Generated.C14.unsupportedRaiseSites = expectedUnsupportedRaiseSites := by decide +kernel

/-- the nested parser / tokenizer constructions reachable from parsing (with the error_level they pass) are the audited ones -/
theorem nested_parser_sites_ok : SqlglotModel.Generated.C14.nestedParserSites = expectedNestedParserSites := by decide +kernel

/-! ### non-vacuity: a program that fails inside a speculative branch, then collects two errors -/

def demoCfg : Cfg := { rules := [], chunks := [[7, 8], [9]], maxErrors := 1, maxNodes := none }
/-- per chunk: `_try_parse(raise_error 5)`; `validate` a node with a missing slot (message 6); `raise_error 4` -/
def demoStmt : Comb :=
  .node 0 (.tryParse (.node 0 (.tok 7) (.raiseError 5)) false)
    (.node 0 (.validate [(1, 6)] (.node 3 (.tok 7) .eps)) (.raiseError 4))
def demo : Comb := batch demoStmt 99

example : (run demoCfg 50 demo .warn).obs = .returned [6, 4, 99, 6, 4, 99] [[6, 4, 99], [6, 4, 99, 6, 4, 99]] .warn := by decide +kernel
example : (run demoCfg 50 demo .ignore).obs = .returned [4, 99, 4, 99] [] .ignore := by decide +kernel
example : (run demoCfg 50 demo .ignore).tree? = (run demoCfg 50 demo .warn).tree? := by decide +kernel
example : (run demoCfg 50 demo .raise).obs = .raised ⟨[6, 4, 99], [6], 2⟩ .raise := by decide +kernel
example : (run demoCfg 50 demo .immediate).obs = .raised (Exn.single 6) .immediate := by decide +kernel

/-- **why the restore must sit in `finally`**: with the level restored, an error after a failed speculative branch is
    collected under WARN; had `_try_parse` left the level at IMMEDIATE (restore only on the normal path) the same
    `raise_error` would escape from the WARN run — the witness the failing-input search replays on the real code. -/
theorem unrestored_level_witness :
    (exec demoCfg 9 (.node 0 (.tryParse (.raiseError 5) false) (.raiseError 4)) (init .warn)).obs = .returned [4] [] .warn ∧
    (raiseError 4 { level := .immediate }).obs = .raised (Exn.single 4) .immediate := by decide +kernel

example : generate .raise 1 (.seq (.unsupported 1) (.unsupportedArgs [(true, 2), (false, 3)] (.text "x"))) = .raised [1] 1 := by
  decide +kernel
example : generate .warn 1 (.seq (.unsupported 1) (.unsupportedArgs [(true, 2), (false, 3)] (.text "x"))) = .returned "x" [1, 2] := by
  decide +kernel

end SqlglotModel.Properties.C14
