/-
  C18 — Schema lookups always reflect the current registrations.
  Only property theorems, non-vacuity examples and counter-example witnesses live here.
-/
import SqlglotModel.Proofs.Schema
import SqlglotModel.Proofs.SchemaMemo
import SqlglotModel.Proofs.SchemaFull
import SqlglotModel.Proofs.SchemaHash
import SqlglotModel.Generated.C18

namespace SqlglotModel.Properties.C18
open SqlglotModel.Schema SqlglotModel.Ident

/-- one API call (on normalised arguments) keeps the invariant, with today's eviction (clear everything) -/
theorem stepN_inv (E : Env) (S : St) (hS : Inv E S) (op : NOp) : Inv E (stepN E .all S op).1 := by
  cases op with
  | addTable nt ncols =>
    simp only [stepN]
    split
    · exact hS
    · have hI := find_inv E S hS nt false false
      have hM := find_mapping E S nt false false
      generalize hf : find E S nt false false = fr at hI hM
      obtain ⟨S1, r⟩ := fr
      simp only at hI hM ⊢
      split
      · exact hI
      · refine ⟨?_, ?_⟩
        · simp only
          rw [trie_after_set, hI.trie_eq]
        · intro k v h; simp [evict, lookup] at h
  | columnNames nt ov =>
    simp only [stepN, columnNames]
    exact find_inv E S hS nt true false
  | columnType nt nc d =>
    simp only [stepN]
    exact find_inv E S hS nt false false
  | hasColumn nt nc =>
    simp only [stepN]
    exact find_inv E S hS nt false false
  | find table raise ensure =>
    simp only [stepN]
    exact find_inv E S hS table raise ensure

/-- one API call keeps the invariant (with the eviction the source performs today: clear everything) -/
theorem step_inv (E : Env) (S : St) (hS : Inv E S) (op : Op) : Inv E (step E .all S op).1 :=
  stepN_inv E S hS (normOp E op)

/-- every reachable state (any history, any length) satisfies the invariant -/
theorem run_inv (E : Env) (S : St) (hS : Inv E S) (ops : List Op) : Inv E (run E .all S ops) := by
  induction ops generalizing S with
  | nil => simpa [run] using hS
  | cons op ops ih => simpa [run] using ih _ (step_inv E S hS op)

theorem answerN_eq_of_same_mapping (E : Env) (ev : Evict) (S T : St) (hS : Inv E S) (hT : Inv E T)
    (hm : S.mapping = T.mapping) (q : NOp) : (stepN E ev S q).2 = (stepN E ev T q).2 := by
  have ht : S.trie = T.trie := by rw [hS.trie_eq, hT.trie_eq, hm]
  have hU : ∀ t r, findUncached S t r = findUncached T t r := by
    intro t r; simp [findUncached, hm, ht]
  have hF : ∀ t r e, (find E S t r e).2 = (find E T t r e).2 := by
    intro t r e; rw [find_snd E S hS, find_snd E T hT, hU]
  have hd : depth S = depth T := by simp [depth, hm]
  cases q with
  | addTable nt ncols =>
    simp only [stepN, hm, hd]
    split
    · rfl
    · have := hF nt false false
      generalize find E S nt false false = a at this
      generalize find E T nt false false = b at this
      obtain ⟨a1, a2⟩ := a; obtain ⟨b1, b2⟩ := b
      simp only at this; subst this
      simp only
      split <;> rfl
  | columnNames nt ov =>
    simp only [stepN, columnNames]
    rw [hF, hd]
  | columnType nt nc d =>
    simp only [stepN]
    rw [hF]
  | hasColumn nt nc =>
    simp only [stepN]
    rw [hF]
  | find table raise ensure =>
    simp only [stepN]
    rw [hF]

/-- what a call answers depends only on mapping and trie once the cache is coherent -/
theorem answer_eq_of_same_mapping (E : Env) (ev : Evict) (S T : St) (hS : Inv E S) (hT : Inv E T)
    (hm : S.mapping = T.mapping) (q : Op) : (step E ev S q).2 = (step E ev T q).2 :=
  answerN_eq_of_same_mapping E ev S T hS hT hm (normOp E q)

/-- **C18 (refinement).** After any history of `add_table`s and lookups, every call answers exactly as a
    schema freshly built from the final mapping (empty caches, trie rebuilt) answers. -/
theorem schema_refines_fresh (E : Env) (S0 : St) (h0 : Inv E S0) (ops : List Op) (q : Op) :
    (step E .all (run E .all S0 ops) q).2 = (step E .all (fresh (run E .all S0 ops)) q).2 :=
  answer_eq_of_same_mapping E .all _ _ (run_inv E S0 h0 ops) (fresh_inv E _) rfl q

/-- a concrete history (non-vacuity of the hypotheses, and the template the failing-input search replays):
    schema {db: {t: {a: INT}}}; `column_names("t")`; `add_table("db2.t", {b: INT})`; `column_names("t")`. -/
def witnessStart : St := fresh ⟨[(["db", "t"], [("a", "INT")])], [], []⟩
def dflt : DialectRef := ⟨"", ⟨.lowercase, false⟩⟩
def envA : Env := ⟨asciiFns, fun _ t => t, dflt, true, fun _ => none⟩
def witnessOps : List Op :=
  [ .columnNames dflt true [⟨"t", false⟩] false,
    .addTable dflt true [⟨"db2", false⟩, ⟨"t", false⟩] [(⟨"b", false⟩, "INT")] ]
def witnessQuery : Op := .columnNames dflt true [⟨"t", false⟩] false

example : Inv envA witnessStart := fresh_inv _ _

/-- with today's eviction the late lookup reports the ambiguity, exactly like a fresh schema -/
theorem witness_ok_with_clear :
    (step envA .all (run envA .all witnessStart witnessOps) witnessQuery).2 = .err .ambiguous := by decide +kernel

/-- **why the eviction must be total**: with the pre-repair policy (evict only the added table's own two
    keys) the same history answers with the stale column list, while a fresh schema reports the ambiguity. -/
theorem stale_partial_lookup_witness :
    (step envA .exactKeys (run envA .exactKeys witnessStart witnessOps) witnessQuery).2 = .names ["a"] ∧
    (step envA .exactKeys (fresh (run envA .exactKeys witnessStart witnessOps)) witnessQuery).2 = .err .ambiguous := by
  decide +kernel

/-- the constructor's state is a legal start: any mapping with its trie and empty caches -/
theorem init_inv (E : Env) (m : List (Path × Cols)) : Inv E (fresh ⟨m, [], []⟩) := fresh_inv _ _

/-- the source's eviction policy, as extracted by the translator on this run, is the one the theorem is about -/
theorem generated_policy_ok : SqlglotModel.Generated.C18.evictionPolicy = Evict.all := by decide +kernel

/-! ## The memo tables in front of the normalisation and type-parsing functions -/

section Memo
open SqlglotModel.Generated.C18

/-- **memo_transparent.** A memo table never changes any answer, for every history of calls, as soon as every
    input that maps to the key an entry is stored under has the stored value (`hstore`; for an ordinary cache
    `storeKey x _ = key x` and this says: the key determines the result). -/
theorem memo_transparent {ι κ β : Type} [DecidableEq κ] (key : ι → κ) (storeKey : ι → β → κ) (consult : ι → Bool)
    (g : ι → β) (truthy : β → Bool) (hstore : ∀ x y, key y = storeKey x (g x) → g y = g x)
    (m : List (κ × β)) (hm : MemoInv key g m) (xs : List ι) (x : ι) :
    (memoCall key storeKey consult g truthy (memoRun key storeKey consult g truthy m xs) x).2 = g x :=
  memoCall_snd key storeKey consult g truthy _ (memoRun_inv key storeKey consult g truthy hstore m hm xs) x

example : MemoInv (fun (n : Nat) => n % 2) (fun n => n % 2 == 0) [] := memoInv_nil _ _

/-- the model's name normalisation reads nothing beyond what the translator found the source passing to
    `normalize_name` (a model-side obligation: it fails if the source stops passing one of them) -/
theorem name_compute_reads_only (f : CaseFns) (x y : NameIn)
    (h : ∀ fld ∈ nameCacheReads, NameIn.proj fld x = NameIn.proj fld y) : nameCompute f x = nameCompute f y := by
  have h1 := h .name (by decide)
  have h2 := h .quoted (by decide)
  have h3 := h .dialect (by decide)
  have h4 := h .isTable (by decide)
  have h5 := h .normalize (by decide)
  obtain ⟨a1, a2, a3, a4, a5⟩ := x
  obtain ⟨b1, b2, b3, b4, b5⟩ := y
  simp only [NameIn.proj, FVal.s.injEq, FVal.b.injEq, FVal.d.injEq] at h1 h2 h3 h4 h5
  subst h1 h2 h3 h4 h5
  rfl

/-- a key layout that covers the inputs read determines the result -/
theorem name_key_determines (f : CaseFns) (layout : List NField) (hc : covers layout nameCacheReads = true)
    (x y : NameIn) (hk : nameKey layout x = nameKey layout y) : nameCompute f x = nameCompute f y :=
  name_compute_reads_only f x y (fun fld hf => key_fields NameIn.proj layout x y hk fld (covers_mem hc fld hf))

/-- `_normalized_name_cache` is transparent for every history, for every covering key layout -/
theorem name_cache_transparent (f : CaseFns) (layout : List NField) (hc : covers layout nameCacheReads = true)
    (xs : List NameIn) (x : NameIn) : (nameCall f layout (nameRun f layout [] xs) x).2 = nameCompute f x :=
  memo_transparent (nameKey layout) (fun x _ => nameKey layout x) (fun _ => true) (nameCompute f) (fun r => r != "")
    (fun x y hk => name_key_determines f layout hc y x hk) [] (memoInv_nil _ _) xs x

/-- the key tuple the source builds today covers every input of the computation (finite check, decided completely) -/
theorem generated_name_cache_key_ok : covers nameCacheKey nameCacheReads = true := by decide

def bq : DialectRef := ⟨"bigquery", ⟨.caseInsensitive, true⟩⟩
def pg : DialectRef := ⟨"postgres", ⟨.lowercase, false⟩⟩

/-- why `quoted` must be in the key: `"Foo"` (quoted Identifier) then `Foo` (unquoted) answers `Foo`, not `foo` -/
theorem name_cache_key_needs_quoted :
    (nameCall asciiFns [.name, .dialect, .isTable, .normalize]
      (nameRun asciiFns [.name, .dialect, .isTable, .normalize] [] [⟨"Foo", true, pg, false, true⟩])
      ⟨"Foo", false, pg, false, true⟩).2 = "Foo" ∧
    nameCompute asciiFns ⟨"Foo", false, pg, false, true⟩ = "foo" := by decide +kernel

/-- why `is_table` must be in the key (BigQuery): table key `Foo` then column `Foo` answers `Foo`, not `foo` -/
theorem name_cache_key_needs_is_table :
    (nameCall asciiFns [.name, .quoted, .dialect, .normalize]
      (nameRun asciiFns [.name, .quoted, .dialect, .normalize] [] [⟨"Foo", false, bq, true, true⟩])
      ⟨"Foo", false, bq, false, true⟩).2 = "Foo" ∧
    nameCompute asciiFns ⟨"Foo", false, bq, false, true⟩ = "foo" := by decide +kernel

theorem table_compute_reads_only (f : CaseFns) (x y : TableIn)
    (h : ∀ fld ∈ tableCacheReads, TableIn.proj fld x = TableIn.proj fld y) : tableCompute f x = tableCompute f y := by
  have h1 := h .table (by decide)
  have h2 := h .dialect (by decide)
  have h3 := h .normalize (by decide)
  simp only [TableIn.proj, FVal.t.injEq, FVal.b.injEq, FVal.d.injEq] at h1 h2 h3
  simp [tableCompute, h1, h2, h3]

/-- an entry stored under the NORMALISED table is right for every input that hits it: the key covers the inputs
    and normalisation is idempotent -/
theorem table_store_key_determines (f : CaseFns) (hf : f.Ok) (layout : List TField)
    (hc : covers layout tableCacheReads = true) (x y : TableIn)
    (hk : tableKey layout y = tableKey layout { x with table := tableCompute f x }) :
    tableCompute f y = tableCompute f x := by
  have h := table_compute_reads_only f y { x with table := tableCompute f x }
    (fun fld hfld => key_fields TableIn.proj layout _ _ hk fld (covers_mem hc fld hfld))
  rw [h]
  simp [tableCompute, normTable_idem f hf]

/-- `_normalized_table_cache` (entries stored under the NORMALISED table) is transparent for every history -/
theorem table_cache_transparent (f : CaseFns) (hf : f.Ok) (layout : List TField)
    (hc : covers layout tableCacheReads = true) (xs : List TableIn) (x : TableIn) :
    (tableCall f layout (tableRun f layout [] xs) x).2 = tableCompute f x :=
  memo_transparent (tableKey layout) _ _ (tableCompute f) _
    (fun x y hk => table_store_key_determines f hf layout hc x y hk) [] (memoInv_nil _ _) xs x

example : CaseFns.Ok ⟨id, id⟩ := ⟨fun _ => rfl, fun _ => rfl⟩

theorem generated_table_cache_key_ok : covers tableCacheKey tableCacheReads = true := by decide

theorem type_parse_reads_only (tbl : String → String → String) (x y : TypeIn)
    (h : ∀ fld ∈ typeCacheReads, TypeIn.proj fld x = TypeIn.proj fld y) : tyParse tbl x = tyParse tbl y := by
  have h1 := h .tyStr (by decide)
  have h2 := h .dialect (by decide)
  obtain ⟨a1, a2⟩ := x
  obtain ⟨b1, b2⟩ := y
  simp only [TypeIn.proj, FVal.s.injEq, FVal.d.injEq] at h1 h2
  subst h1 h2
  rfl

/-- `_type_mapping_cache` is transparent for every history IF its key covers (type text, dialect) -/
theorem type_cache_transparent (tbl : String → String → String) (layout : List YField) (hc : covers layout typeCacheReads = true)
    (xs : List TypeIn) (x : TypeIn) : (typeCall tbl layout (typeRun tbl layout [] xs) x).2 = tyParse tbl x :=
  memo_transparent (typeKey layout) (fun x _ => typeKey layout x) (fun _ => true) (tyParse tbl) (fun _ => true)
    (fun x y hk => type_parse_reads_only tbl y x
      (fun fld hfld => key_fields TypeIn.proj layout _ _ hk fld (covers_mem hc fld hfld))) [] (memoInv_nil _ _) xs x

/-- **the key the source uses today (type text only) is NOT enough**: `FLOAT` asked under BigQuery, then under
    Postgres, answers BigQuery's type (known finding C18-type-cache-dialect; the repair adds the dialect) -/
theorem type_cache_stale_witness :
    let tbl := tyOfTable [(("bigquery", "FLOAT"), "FLOAT"), (("postgres", "FLOAT"), "DOUBLE")]
    (typeCall tbl [.tyStr] (typeRun tbl [.tyStr] [] [⟨"FLOAT", bq⟩]) ⟨"FLOAT", pg⟩).2 = "FLOAT" ∧
    tyParse tbl ⟨"FLOAT", pg⟩ = "DOUBLE" := by decide +kernel

/-- the layout found in the source is either the known-defective one (reported through the known finding) or a
    covering one (after the repair); any other key breaks the build -/
theorem generated_type_cache_key_known :
    typeCacheKey = [.tyStr] ∨ covers typeCacheKey typeCacheReads = true := by decide

/-- `_find_cache` (key `(table, ensure_data_types)`): the key covers everything `find` reads except
    `raise_on_missing` … (finite check on the extracted layout, decided completely) -/
theorem generated_find_cache_key_ok :
    covers findCacheKey (findCacheReads.filter (fun x => x != FField.raise)) = true := by decide

/-- … and `raise_on_missing` cannot matter for a CACHED answer: only non-`None` results are served from the cache
    (a cached `None` counts as a miss, an exception stores nothing) and a found result does not depend on it -/
theorem find_cache_raise_irrelevant {m : List (Path × Cols)} {tr : List (List Name)} {t : List Ident} {r : Bool}
    {v : Cols} (h : findU m tr t r = .found v) (r' : Bool) : findU m tr t r' = .found v :=
  findU_found_raise h r'

/-! ### `find`'s outcomes and the cache policy "store hits only" -/

/-- **the three outcomes of `find`** on every reachable state: the table's columns, `None`, or (only with
    `raise_on_missing=True`) the "Ambiguous mapping" SchemaError — never a leaked ValueError from `nested_get` -/
theorem find_three_outcomes (E : Env) (S : St) (hS : Inv E S) (t : List Ident) (r e : Bool) :
    (∃ c, (find E S t r e).2 = .found c) ∨ (find E S t r e).2 = .notFound ∨
    (r = true ∧ (find E S t r e).2 = .err .ambiguous) := by
  rw [find_snd E S hS]
  have hni := findUncached_no_internal hS t r
  cases r with
  | false =>
    have hne := findU_noraise S.mapping S.trie t
    cases h : findUncached S t false with
    | found c => exact Or.inl ⟨_, rfl⟩
    | notFound => exact Or.inr (Or.inl rfl)
    | err x => exact absurd h (hne x)
  | true =>
    cases h : findUncached S t true with
    | found c => exact Or.inl ⟨_, rfl⟩
    | notFound => exact Or.inr (Or.inl rfl)
    | err x =>
      rcases findU_err_kinds _ _ _ _ _ h with hx | hx
      · subst hx; exact Or.inr (Or.inr ⟨rfl, rfl⟩)
      · subst hx; exact absurd h hni

/-- **how the answer depends on `raise_on_missing`** (through the cache, on every reachable state): a found table is
    found either way; the flag only turns the ambiguous `None` into the error -/
theorem find_raise_dependence (E : Env) (S : St) (hS : Inv E S) (t : List Ident) (e : Bool) :
    (∀ c, (find E S t true e).2 = .found c ↔ (find E S t false e).2 = .found c) ∧
    ((find E S t true e).2 = .err .ambiguous → (find E S t false e).2 = .notFound) ∧
    ((find E S t true e).2 = .notFound → (find E S t false e).2 = .notFound) := by
  rw [find_snd E S hS, find_snd E S hS]
  obtain ⟨h1, h2, h3, _⟩ := findU_raise_cases S.mapping S.trie t
  unfold findUncached
  refine ⟨?_, ?_, ?_⟩
  · intro c
    cases ha : findU S.mapping S.trie t true <;> cases hb : findU S.mapping S.trie t false <;>
      simp only [convR, reduceCtorEq, FindR.found.injEq] <;>
      first
        | (have := (h1 _).mp ha; rw [hb] at this; simp at this; subst this; rfl)
        | (have := (h1 _).mpr hb; rw [ha] at this; simp at this)
        | (have := (h1 _).mp ha; rw [hb] at this; simp at this)
        | rfl
  · intro h
    cases ha : findU S.mapping S.trie t true with
    | found c => rw [ha] at h; simp [convR] at h
    | notFound => rw [ha] at h; simp [convR] at h
    | err x =>
      rw [ha] at h; simp only [convR, FindR.err.injEq] at h; subst h
      rw [h2 ha]; rfl
  · intro h
    cases ha : findU S.mapping S.trie t true with
    | found c => rw [ha] at h; simp [convR] at h
    | err x => rw [ha] at h; simp [convR] at h
    | notFound => rw [h3 ha]; rfl

/-- **why the policy must be "store hits only"**: with "store misses" (the C15 round-6 regression) the `None` computed
    for the ambiguous `t` under `raise_on_missing=False` is replayed to a later `raise_on_missing=True` call, which
    must raise "Ambiguous mapping" -/
theorem store_misses_hides_ambiguity_witness :
    let S : St := fresh ⟨[(["db", "t"], [("a", "INT")]), (["db2", "t"], [("b", "INT")])], [], []⟩
    let t : List Ident := [⟨"t", false⟩]
    (findStoreMisses envA (findStoreMisses envA S [] t false false).1.1 (findStoreMisses envA S [] t false false).1.2
        t true false).2 = .notFound ∧
    (find envA (find envA S t false false).1 t true false).2 = .err .ambiguous := by decide +kernel

/-- the source's `find` recomputes when the cached value is `None` (ast fact: the guard is `if schema is None`) -/
theorem generated_find_cache_policy_ok : findServesCachedNone = false := by decide

/-- **every reader of a schema is an operation of this model**: the call-site table (which `Schema` members the
    optimizer / lineage / executor modules touch, re-extracted by ast on every run) only lists `column_names`,
    `get_column_type`, `has_column`, `find`, `empty`, `dialect`, `supported_table_args` (+ `add_table`, `copy`) — so
    "every lookup reflects the current registrations" covers every reader.  Finite check, decided completely. -/
theorem generated_schema_readers_are_model_operations :
    schemaCallSites.all (fun ms => ms.2.all (fun m => m.modelled)) = true := by decide +kernel

/-- which per-call overrides the computation behind each cache reads / which are part of its key, from the
    layouts extracted on this run (`find` takes an already normalised table: it has no per-call option) -/
def optRead : CacheId → CallOpt → Bool
  | .names, o => nameHas nameCacheReads o
  | .tables, o => tableHas tableCacheReads o
  | .types, o => typeHas typeCacheReads o
  | .finds, _ => false

def optInKey : CacheId → CallOpt → Bool
  | .names, o => nameHas nameCacheKey o
  | .tables, o => tableHas tableCacheKey o
  | .types, o => typeHas typeCacheKey o
  | .finds, _ => false

/-- **every per-call `dialect=` / `normalize=` override that a cached computation reads is part of that cache's
    key** — complete decision over the 4 caches × 2 options with the regenerated layouts -/
theorem generated_option_overrides_in_every_key :
    ∀ (c : CacheId) (o : CallOpt), optRead c o = true → optInKey c o = true := by
  intro c o; cases c <;> cases o <;> decide

/-- which inputs of the identifier normalisation the two caches that store its results read / key on -/
def normRead : CacheId → NormInput → Bool
  | .names, i => nameHasInput nameCacheReads i
  | .tables, i => tableHasInput tableCacheReads i
  | _, _ => false

def normInKey : CacheId → NormInput → Bool
  | .names, i => nameHasInput nameCacheKey i
  | .tables, i => tableHasInput tableCacheKey i
  | _, _ => false

/-- **every input of the identifier normalisation — spelling, quoting, dialect, `normalize` AND the identifier's
    role (`is_table`) — is part of the key of every cache that stores its result**: complete decision over
    4 caches × 5 inputs with the regenerated layouts (the seeded C10-7 / C18-1 "key without is_table" fails here) -/
theorem generated_normalisation_inputs_in_every_key :
    ∀ (c : CacheId) (i : NormInput), normRead c i = true → normInKey c i = true := by
  intro c i; cases c <;> cases i <;> decide

/-- the role really is an input: `normalize_name` stores `is_table` in `identifier.meta` before calling
    `Dialect.normalize_identifier` (ast fact), so `_normalize_name` must pass it on and key on it -/
theorem generated_role_is_read_and_keyed :
    roleReachesNormalizeIdentifier = true →
      nameCacheReads.contains NField.isTable = true ∧ nameCacheKey.contains NField.isTable = true := by decide

end Memo

/-! ## Expression-keyed caches: the keys' cached hashes must be fresh -/

section Hash
open SqlglotModel.Generated.C18

/-- **under the assumption "every key's cached hash is the hash of its current content"** a dict keyed by
    expressions (`_find_cache`, `_normalized_table_cache`) IS the content-keyed dict of the model: same lookups,
    same updates, and the assumption is kept.  (Who provides the assumption: C08, `cached_hash_is_recomputed`,
    for nodes mutated through the `set/append/replace/pop` API.) -/
theorem expression_keys_are_content_keys {β} (m : List (HKey × β)) (hm : AllFresh m) (k : HKey) (hk : k.Fresh) (v : β) :
    hLookup m k = lookup (contentView m) k.content ∧
    contentView (hSet m k v) = dictSet (contentView m) k.content v ∧ AllFresh (hSet m k v) :=
  ⟨hLookup_fresh m hm k hk, hSet_fresh m hm k hk v⟩

example : AllFresh ([] : List (HKey × Cols)) := by intro kv h; cases h

/-- renaming the parts of the private copy through the API leaves a key whose hash will be recomputed -/
theorem rename_via_api_fresh (f : Ident → Ident) (t : HKey) : (renameParts true f t).Fresh := rfl

/-- with API renames, `find` behind an expression-keyed cache answers the uncached lookup of the (normalised or
    verbatim) table, for every history (invariant `Coh`: keys fresh, entries = uncached answers) -/
theorem find_via_api_transparent (look : List Ident → Option Cols) (cache : List (HKey × Cols)) (hc : Coh look cache)
    (f : Ident → Ident) (norm : Bool) (t : HKey) (ht : t.Fresh) :
    (findVia true look cache f norm t).2 = look (if norm then t.content.map f else t.content) ∧
    Coh look (findVia true look cache f norm t).1 := findVia_api_spec look cache hc f norm t ht

example (look : List Ident → Option Cols) : Coh look [] := by intro kv h; cases h

def lookOrders : List Ident → Option Cols := fun p => if p = [⟨"orders", false⟩] then some [("id", "INT")] else none

/-- **the stale-hash regression (seeded C18-5)**: `part.args["this"] = …` on the deep copy keeps the `_hash` the
    caller's `Orders` table got when it was probed; the normalised table `orders` is stored under the hash of
    `Orders`, and a later `find(Orders, normalize=False)` replays its columns.  With API renames it answers `None`. -/
theorem stale_hash_witness :
    let lower : Ident → Ident := normalize asciiFns .lowercase
    let orders : HKey := ⟨[⟨"Orders", false⟩], none⟩
    (findVia false lookOrders (findVia false lookOrders [] lower true orders).1 lower false orders).2
      = some [("id", "INT")] ∧
    (findVia true lookOrders (findVia true lookOrders [] lower true orders).1 lower false orders).2 = none := by
  decide +kernel

/-- the source renames table parts through the hash-invalidating API (ast fact re-extracted on every run) -/
theorem generated_rename_invalidates_hash : tableRenameKeepsHash = false := by decide

end Hash

/-! ## The nested dict, the nested trie and the lazily cached depth refine the flat view -/

section Tree

/-- `nested_get` on a uniform-depth nested dict = lookup in the flat view -/
theorem nested_get_refines (d : Nat) (m : Tree) (path : Path) (hs : Shape d m) (hl : path.length = d) :
    nestedGet m path = match lookup (flatView d m) path with
      | some c => .found (.leaf c)
      | none => .missing := nestedGet_flatView d m path hs hl

/-- `flatView (nested_set m path cols) = dictSet (flatView m) path cols` as finite maps (the nested dict groups a
    new table under its existing parents, the flat list appends it: the ORDER differs, nothing observable does) -/
theorem nested_set_refines (d : Nat) (m : Tree) (path : Path) (c : Cols) (hs : Shape (d + 1) m)
    (hl : path.length = d + 1) (q : Path) :
    lookup (flatView (d + 1) (nestedSet m path (.leaf c))) q = lookup (dictSet (flatView (d + 1) m) path c) q := by
  rw [(flatView_nestedSet d m path c hs hl).2 q, lookup_dictSet]

example : Shape 2 (.node [("d", .node [("t", .leaf [("a", "INT")])])]) :=
  ⟨_, rfl, by simp, by simp [Shape]⟩

theorem nested_set_keeps_uniform (d : Nat) (m : Tree) (path : Path) (c : Cols)
    (h : Uniform (d + 1) m ∨ m = .node []) (hl : path.length = d + 1) :
    Uniform (d + 1) (nestedSet m path (.leaf c)) := uniform_nestedSet d m path c h hl

/-- get-after-set on the nested dict: the path just set holds the new column dict … -/
theorem nested_get_set_same (d : Nat) (m : Tree) (path : Path) (c : Cols) (hs : Shape (d + 1) m)
    (hl : path.length = d + 1) : nestedGet (nestedSet m path (.leaf c)) path = .found (.leaf c) := by
  obtain ⟨s1, s2⟩ := flatView_nestedSet d m path c hs hl
  rw [nestedGet_flatView (d + 1) _ path s1 hl, s2 path]
  simp

/-- … and every other table path is untouched -/
theorem nested_get_set_other (d : Nat) (m : Tree) (path q : Path) (c : Cols) (hs : Shape (d + 1) m)
    (hl : path.length = d + 1) (hq : q.length = d + 1) (hne : path ≠ q) :
    nestedGet (nestedSet m path (.leaf c)) q = nestedGet m q := by
  obtain ⟨s1, s2⟩ := flatView_nestedSet d m path c hs hl
  rw [nestedGet_flatView (d + 1) _ q s1 hq, nestedGet_flatView (d + 1) m q hs hq, s2 q]
  simp [hne]

/-- `nested_set` with a full-depth path never changes `dict_depth` (so a cached `_depth` stays right) -/
theorem dict_depth_nested_set (d : Nat) (m : Tree) (path : Path) (c : Cols) (h : Uniform (d + 1) m)
    (hl : path.length = d + 1) : dictDepth (nestedSet m path (.leaf c)) = dictDepth m := by
  rw [dictDepth_uniform _ _ (uniform_nestedSet d m path c (Or.inl h) hl), dictDepth_uniform _ _ h]

/-- the paths `flatten_schema` lists after a `nested_set`: the old ones and the new one -/
theorem flatten_after_set_mem (d : Nat) (m : Tree) (path : Path) (c : Cols) (hs : Shape (d + 1) m)
    (hl : path.length = d + 1) (q : Path) :
    q ∈ flatten (d + 1) [] (nestedSet m path (.leaf c)) ↔ (q = path ∨ q ∈ flatten (d + 1) [] m) := by
  obtain ⟨s1, s2⟩ := flatView_nestedSet d m path c hs hl
  rw [flatten_flatView d _ [] s1, flatten_flatView d m [] hs]
  simp only [List.nil_append]
  have key : ∀ (l : List (Path × Cols)), q ∈ l.map (fun pc => pc.1) ↔ lookup l q ≠ none := by
    intro l
    constructor
    · intro h e; exact (lookup_none_iff.mp e) h
    · intro h; exact Classical.byContradiction fun hn => h (lookup_none_iff.mpr hn)
  rw [key, key, s2 q]
  by_cases e : path = q
  · simp [e]
  · simp only [e, if_false]
    constructor
    · exact Or.inr
    · rintro (h | h)
      · exact absurd h.symm e
      · exact h

/-- `flatten_schema(mapping, depth)` lists exactly the paths of the flat view -/
theorem flatten_schema_refines (d : Nat) (m : Tree) (keys : List Name) (hs : Shape (d + 1) m) :
    flatten (d + 1) keys m = (flatView (d + 1) m).map (fun pc => keys ++ pc.1) := flatten_flatView d m keys hs

/-- `dict_depth` of a uniform mapping (so `MappingSchema.depth() = dict_depth - 1 = d`) -/
theorem dict_depth_uniform (d : Nat) (m : Tree) (h : Uniform d m) : dictDepth m = d + 1 := dictDepth_uniform d m h

/-- `new_trie([key], trie)` adds exactly `key` to the key list (as a set) and keeps the trie uniform -/
theorem new_trie_refines (key : List Name) (d : Nat) (t : Trie) (ht : UniformT d t ∨ t = Trie.empty)
    (hl : key.length = d) :
    UniformT d (trieInsert t key) ∧ ∀ q, q ∈ keysAt d (trieInsert t key) ↔ (q = key ∨ q ∈ keysAt d t) :=
  trieInsert_spec key d t ht hl

/-- **`in_trie` on the nested trie = `inTrie` on its key list**, including the possibilities
    `flatten_schema(subtrie)` of a PREFIX hit -/
theorem in_trie_refines (d : Nat) (t : Trie) (ht : UniformT (d + 1) t ∨ t = Trie.empty) (key : List Name)
    (hl : key.length ≤ d + 1) : inTrieT t key = inTrie (keysAt (d + 1) t) key := inTrieT_refines d t ht key hl

example : UniformT 2 (trieInsert Trie.empty ["t", "d"]) :=
  (trieInsert_spec ["t", "d"] 2 Trie.empty (Or.inr rfl) rfl).1

/-- the flat specification looks at the key list only as a SET -/
theorem find_in_trie_set_congr {l1 l2 : List (List Name)} (h : SameKeys l1 l2) (parts : List Name) (raise : Bool) :
    findInTrie l1 parts raise = findInTrie l2 parts raise := findInTrie_congr h parts raise

/-- … and at the mapping only as a finite map: equivalent flat states answer alike and stay equivalent -/
theorem step_equiv_congr (E : Env) (ev : Evict) {S T : St} (h : Equiv S T) (op : Op) :
    (step E ev S op).2 = (step E ev T op).2 ∧ Equiv (step E ev S op).1 (step E ev T op).1 :=
  stepN_congr E ev h (normOp E op)

/-- **`depth()`'s cache**: on every admissible state the value returned (cached `_depth` or freshly computed)
    equals the recomputed depth, and filling the cache changes nothing else -/
theorem depth_cache_correct {C : Core} {d : Nat} (h : CShape C d) :
    (cDepth C).2 = d ∧ CShape (cDepth C).1 d ∧ SameData C (cDepth C).1 := cDepth_spec h

/-- **`supported_table_args`' cache** likewise -/
theorem supported_args_cache_correct {C : Core} {d : Nat} (h : CShape C d) :
    (cArgs C).2 = d ∧ CShape (cArgs C).1 d ∧ SameData C (cArgs C).1 := cArgs_spec h

def L0 : Layouts := ⟨[.name, .quoted, .dialect, .isTable, .normalize], [.table, .dialect, .normalize], [.tyStr, .dialect], .all⟩
def core2 : Core := coreOfMapping (.node [("d", .node [("t", .leaf [("a", "INT")])])])

/-- **the role-less key on a whole history** (seeded C10-7): BigQuery, `MappingSchema({"ds": {"Tbl": {"Tbl": "int",
    "x": "int"}}})` then `column_names("ds.Tbl")`: with `is_table` in the key the column is folded to `tbl`; without
    it the constructor replays the table key's cached spelling `Tbl` -/
theorem role_less_key_history_witness :
    let raw : Tree := .node [("ds", .node [("Tbl", .leaf [("Tbl", "int"), ("x", "int")])])]
    let E : Env := ⟨asciiFns, fun _ t => t, bq, true, fun _ => none⟩
    let q : FOp := .columnNames bq true ⟨[⟨"ds", false⟩, ⟨"Tbl", false⟩], true⟩ false
    let Lbad : Layouts := ⟨[.name, .quoted, .dialect, .normalize], [.table, .dialect, .normalize], [.tyStr, .dialect], .all⟩
    (match fInit E L0 raw true with | .ok F => (fStep E L0 F q).2 | .error e => .err e) = .names ["tbl", "x"] ∧
    (match fInit E Lbad raw true with | .ok F => (fStep E Lbad F q).2 | .error e => .err e) = .names ["Tbl", "x"] := by
  decide +kernel


example : CShape core2 2 := (coreOfMapping_spec 1 _ ⟨_, rfl, by simp, by simp, by
  intro kv hkv; simp at hkv; subst hkv; exact ⟨_, rfl, by simp, by simp, by
    intro kv hkv; simp at hkv; subst hkv; exact ⟨_, rfl⟩⟩⟩).1

/-- **the `match_depth` error**: a table whose number of parts differs from the schema depth is rejected and
    nothing but the depth cache is touched -/
theorem match_depth_error (E : Env) (L : Layouts) {C : Core} {d : Nat} (h : CShape C (d + 1)) (nt : List Ident)
    (ncols : Cols) (hl : nt.length ≠ d + 1) :
    (coreStep E L C (.addTable nt ncols)).2 = .err .depthMismatch ∧ SameData C (coreStep E L C (.addTable nt ncols)).1 := by
  obtain ⟨c1, _, c3⟩ := cDepth_spec h
  cases h with
  | full _ hu ht hdc hac =>
    have hne := uniform_not_empty hu
    have hb : (nt.length != d + 1) = true := by simp [hl]
    have hcond : (!C.mapping.isEmptyDict && nt.length != (cDepth C).2) = true := by simp [hne, c1, hb]
    simp only [coreStep, hcond, if_true]
    exact ⟨trivial, c3⟩

/-- **why the cached depth must equal the recomputed one**: with a stale `_depth` (1 instead of 2) a correctly
    qualified `add_table("d.u", …)` is rejected, while the same call on the admissible state succeeds -/
theorem stale_depth_witness :
    (coreStep envA L0 { core2 with depthC := 1 } (.addTable [⟨"d", false⟩, ⟨"u", false⟩] [("b", "INT")])).2
      = .err .depthMismatch ∧
    (coreStep envA L0 core2 (.addTable [⟨"d", false⟩, ⟨"u", false⟩] [("b", "INT")])).2 = .unit := by
  decide +kernel

/-- **`add_table(match_depth=False)`, partial.**  Specified (inside the refinement): every call whose table has exactly
    the schema's depth, and every call on an empty schema — they answer and continue like `match_depth=True`.
    NOT specified: a call with another number of parts; it leaves the uniform-depth states the refinement is about
    (`match_depth_false_nonuniform_witness`), and from then on no answer of that schema is covered. -/
theorem match_depth_false_partial {L : Layouts} {E : Env} (hk : TypeKeyOK L E) {C : Core} {d : Nat} (h : CShape C d)
    (hT : TInv L E C) (nt : List Ident) (ncols : Cols) (hnt : nt ≠ []) (hd : d = 0 ∨ nt.length = d) :
    (coreAddNoCheck E L C nt ncols).2 = (stepN E L.evict (absC C d) (.addTable nt ncols)).2 ∧
    ∃ d', CShape (coreAddNoCheck E L C nt ncols).1 d' ∧ TInv L E (coreAddNoCheck E L C nt ncols).1 ∧
      Equiv (absC (coreAddNoCheck E L C nt ncols).1 d') (stepN E L.evict (absC C d) (.addTable nt ncols)).1 :=
  coreAddNoCheck_spec hk h hT nt ncols hnt hd

/-- why the rest is not specified: on `{d: {t: …}}` (depth 2, `_depth` cached), `add_table("d", {z: INT},
    match_depth=False)` replaces the namespace `d` by a column dict; the cached `_depth` keeps saying 2 while a
    schema rebuilt from the mapping computes 1 -/
theorem match_depth_false_nonuniform_witness :
    let C' := (coreAddNoCheck envA L0 core2 [⟨"d", false⟩] [("z", "INT")]).1
    (cDepth C').2 = 2 ∧ dictDepth C'.mapping - 1 = 1 := by decide +kernel

/-- one public method on the full core (nested structures + caches) = the same method on the flat view -/
theorem core_step_refines {L : Layouts} {E : Env} (hk : TypeKeyOK L E) {C : Core} {d : Nat} (h : CShape C d)
    (hT : TInv L E C) (op : NOp) (hop : NAdm op) :
    (coreStep E L C op).2 = (stepN E L.evict (absC C d) op).2 ∧
    ∃ d', CShape (coreStep E L C op).1 d' ∧ TInv L E (coreStep E L C op).1 ∧
      Equiv (absC (coreStep E L C op).1 d') (stepN E L.evict (absC C d) op).1 := coreStep_spec hk h hT op hop

end Tree

/-! ## The full model (what the driver executes against the real code) refines the specification -/

section Full
open SqlglotModel.Generated.C18

/-- the key layouts and eviction policy extracted from the source on this run -/
def genL : Layouts := ⟨nameCacheKey, tableCacheKey, typeCacheKey, evictionPolicy⟩

/-- a covering type-cache key is fine in every environment … -/
theorem type_key_ok_of_covers (L : Layouts) (E : Env) (hc : covers L.ty typeCacheReads = true) : TypeKeyOK L E :=
  fun x y hk => type_parse_reads_only E.ty x y
    (fun fld hfld => key_fields TypeIn.proj L.ty _ _ hk fld (covers_mem hc fld hfld))

/-- … today's text-only key is fine exactly in environments where the dialects in play parse type texts alike
    (otherwise: `type_cache_stale_witness`, known finding C18-type-cache-dialect) -/
theorem type_key_ok_of_dialect_insensitive (L : Layouts) (E : Env) (hL : L.ty = [.tyStr])
    (hE : ∀ a b s, E.ty a s = E.ty b s) : TypeKeyOK L E := by
  intro x y hk
  simp only [typeKey, hL, List.map_cons, List.map_nil, TypeIn.proj, List.cons.injEq, FVal.s.injEq, and_true] at hk
  simp only [tyParse, hk]
  exact hE _ _ _

/-- with the layouts found in the source, the name and table caches are sound in every environment whose case maps
    are idempotent; the type cache under the stated hypothesis -/
theorem generated_keys_ok (E : Env) (hf : E.f.Ok) (hty : TypeKeyOK genL E) : KeysOK genL E :=
  ⟨hty, fun x y hk => name_key_determines E.f nameCacheKey generated_name_cache_key_ok x y hk,
   fun x y hk => table_store_key_determines E.f hf tableCacheKey generated_table_cache_key_ok x y hk⟩

/-- **one call**: the full model answers like the flat specification and the simulation is kept -/
theorem full_step_refines {L : Layouts} {E : Env} (hk : KeysOK L E) {F : FSt} {d : Nat} {S : St}
    (hF : FInv L E F d) (hEq : Equiv (absC F.core d) S) (op : FOp) (hop : FAdm op) :
    (fStep E L F op).2 = (step E L.evict S op.toOp).2 ∧
    ∃ d', FInv L E (fStep E L F op).1 d' ∧ Equiv (absC (fStep E L F op).1.core d') (step E L.evict S op.toOp).1 :=
  fStep_refines hk hF hEq op hop

/-- **every history** -/
theorem full_run_refines {L : Layouts} {E : Env} (hk : KeysOK L E) (ops : List FOp) {F : FSt} {d : Nat} {S : St}
    (hF : FInv L E F d) (hEq : Equiv (absC F.core d) S) (hadm : ∀ op ∈ ops, FAdm op) :
    ∃ d', FInv L E (fRun E L F ops) d' ∧ Equiv (absC (fRun E L F ops).core d') (run E L.evict S (ops.map FOp.toOp)) :=
  fRun_refines hk ops hF hEq hadm

/-- **C18 for the full model.** After any history on the full model (nested dict, nested trie, all five caches,
    key layouts and eviction as found in the source), every call answers exactly as the flat specification of a
    schema freshly built from the final mapping. -/
theorem full_schema_refines_fresh (E : Env) (hf : E.f.Ok) (hty : TypeKeyOK genL E) (F0 : FSt) (d : Nat) (S0 : St)
    (hF : FInv genL E F0 d) (hS : Inv E S0) (hEq : Equiv (absC F0.core d) S0) (ops : List FOp)
    (hadm : ∀ op ∈ ops, FAdm op) (q : FOp) (hq : FAdm q) :
    (fStep E genL (fRun E genL F0 ops) q).2 =
      (step E .all (fresh (run E .all S0 (ops.map FOp.toOp))) q.toOp).2 := by
  have hk := generated_keys_ok E hf hty
  have hev : genL.evict = .all := generated_policy_ok
  obtain ⟨d', h1, h2⟩ := fRun_refines hk ops hF hEq hadm
  obtain ⟨h3, _⟩ := fStep_refines hk h1 h2 q hq
  rw [h3, hev]
  exact schema_refines_fresh E S0 hS (ops.map FOp.toOp) q.toOp

/-- the state `MappingSchema(mapping, normalize=False)` builds is admissible and stands for the fresh flat state -/
theorem constructor_state_ok (d : Nat) (m : Tree) (hu : Uniform (d + 1) m) :
    CShape (coreOfMapping m) (d + 1) ∧
    Equiv (absC (coreOfMapping m) (d + 1)) (fresh ⟨flatView (d + 1) m, [], []⟩) := coreOfMapping_spec d m hu

/-- … so the refinement applies to every schema constructed from a uniform nested mapping (or from nothing) -/
theorem full_refines_fresh_from_mapping (E : Env) (hf : E.f.Ok) (hty : TypeKeyOK genL E) (d : Nat) (m : Tree)
    (hu : Uniform (d + 1) m) (ops : List FOp) (hadm : ∀ op ∈ ops, FAdm op) (q : FOp) (hq : FAdm q) :
    (fStep E genL (fRun E genL ⟨coreOfMapping m, [], []⟩ ops) q).2 =
      (step E .all (fresh (run E .all (fresh ⟨flatView (d + 1) m, [], []⟩) (ops.map FOp.toOp))) q.toOp).2 := by
  obtain ⟨h1, h2⟩ := coreOfMapping_spec d m hu
  have ht : TInv genL E (coreOfMapping m) := by
    intro k v h; simp [coreOfMapping, cDepth, lookup] at h; split at h <;> simp [lookup] at h
  exact full_schema_refines_fresh E hf hty ⟨coreOfMapping m, [], []⟩ (d + 1) _
    ⟨h1, ht, (memoInv_nil _ _ : NamesInv genL E []), (memoInv_nil _ _ : TablesInv genL E [])⟩
    (fresh_inv E _) h2 ops hadm q hq

theorem full_refines_fresh_from_empty (E : Env) (hf : E.f.Ok) (hty : TypeKeyOK genL E)
    (ops : List FOp) (hadm : ∀ op ∈ ops, FAdm op) (q : FOp) (hq : FAdm q) :
    (fStep E genL (fRun E genL ⟨coreOfMapping (.node []), [], []⟩ ops) q).2 =
      (step E .all (fresh (run E .all empty (ops.map FOp.toOp))) q.toOp).2 := by
  obtain ⟨h1, h2⟩ := coreOfMapping_empty
  have ht : TInv genL E (coreOfMapping (.node [])) := by
    intro k v h; simp [coreOfMapping, cDepth, Tree.isEmptyDict, lookup] at h
  exact full_schema_refines_fresh E hf hty ⟨coreOfMapping (.node []), [], []⟩ 0 _
    ⟨h1, ht, (memoInv_nil _ _ : NamesInv genL E []), (memoInv_nil _ _ : TablesInv genL E [])⟩ ⟨rfl, by intro k v h; simp [empty, lookup] at h⟩
    (by rw [h2]; exact Equiv.refl _) ops hadm q hq

end Full

/-! ## The constructor path `__init__ -> _normalize(raw mapping)` -/

section Ctor

/-- **constructor_eq_incremental.** On the flat view, the mapping `_normalize` builds from a raw mapping (flatten
    order, per-table key normalisation with `is_table=True`, per-column normalisation, column-by-column
    `nested_set`) is the mapping of the empty schema after `add_table` of each raw table in the same order —
    provided every table has a column, the depth is uniform and no two raw tables normalise to the same path. -/
theorem constructor_eq_incremental (E : Env) (n : Nat) (raw : List (List Name × Cols)) (h : CtorOK E n raw) :
    ctorFlat E raw = (run E .all empty (raw.map (addOpOf E))).mapping :=
  ctor_run E .all n raw empty (by intro pc h; cases h) h (by intro kc _ h; cases h)

/-- … hence a schema built by the constructor answers every query like the incrementally built one -/
theorem constructor_answers_eq_incremental (E : Env) (n : Nat) (raw : List (List Name × Cols))
    (h : CtorOK E n raw) (q : Op) :
    (step E .all (fresh ⟨ctorFlat E raw, [], []⟩) q).2 =
      (step E .all (run E .all empty (raw.map (addOpOf E))) q).2 :=
  answer_eq_of_same_mapping E .all (fresh ⟨ctorFlat E raw, [], []⟩) _ (fresh_inv E _)
    (run_inv E empty ⟨rfl, by intro k v h; simp [empty, lookup] at h⟩ _) (constructor_eq_incremental E n raw h) q

example : CtorOK envA 0 [(["T"], [("A", "INT")]), (["u"], [("b", "TEXT")])] :=
  ⟨by decide, by decide, by decide +kernel⟩

/-- **why the no-collision precondition**: raw tables `T` and `t` normalise to the same path; the constructor
    MERGES their columns, `add_table` replaces the first table by the second -/
theorem constructor_merge_witness :
    ctorFlat envA [(["T"], [("a", "INT")]), (["t"], [("b", "TEXT")])] = [(["t"], [("a", "INT"), ("b", "TEXT")])] ∧
    (run envA .all empty ([(["T"], [("a", "INT")]), (["t"], [("b", "TEXT")])].map (addOpOf envA))).mapping
      = [(["t"], [("b", "TEXT")])] := by decide +kernel

/-- one `nested_set(normalized_mapping, keys + [col], type)` of the real inner loop refines the flat column set -/
theorem nested_set_col_refines (d : Nat) (m : Tree) (path : Path) (col : Name) (ty : String)
    (hs : Shape (d + 1) m) (hl : path.length = d + 1) :
    Shape (d + 1) (nestedSetCol m path col ty) ∧
    ∀ q, lookup (flatView (d + 1) (nestedSetCol m path col ty)) q =
      if path = q then
        some (dictSet (match lookup (flatView (d + 1) m) path with | some c => c | none => []) col ty)
      else lookup (flatView (d + 1) m) q := nestedSetCol_refines d m path col ty hs hl

/-- **the real constructor refines `ctorFlat`**: `MappingSchema(raw, normalize=True)` on a uniform raw mapping whose
    tables all have a column succeeds, its state is admissible (cached `_depth` correct, trie uniform, name cache
    sound) and stands for the fresh flat state over `ctorFlat (flatView raw)` -/
theorem constructor_refines_flat {L : Layouts} {E : Env} (hk : NameKeyOK L E) (n : Nat) (raw : Tree)
    (hu : Uniform (n + 1) raw) (hc : ∀ kc ∈ flatView (n + 1) raw, kc.2 ≠ []) :
    ∃ F, fInit E L raw true = .ok F ∧ CShape F.core (n + 1) ∧ NamesInv L E F.names ∧ F.tables = [] ∧
      F.core.types = [] ∧
      Equiv (absC F.core (n + 1)) (fresh ⟨ctorFlat E (flatView (n + 1) raw), [], []⟩) :=
  fInit_normalize_spec hk n raw hu hc

open SqlglotModel.Generated.C18 in
/-- … so C18 holds for every history that STARTS with the raw constructor, on the full model -/
theorem full_refines_fresh_from_raw_constructor (E : Env) (hf : E.f.Ok) (hty : TypeKeyOK genL E) (n : Nat) (raw : Tree)
    (hu : Uniform (n + 1) raw) (hc : ∀ kc ∈ flatView (n + 1) raw, kc.2 ≠ [])
    (ops : List FOp) (hadm : ∀ op ∈ ops, FAdm op) (q : FOp) (hq : FAdm q) :
    ∃ F, fInit E genL raw true = .ok F ∧
      (fStep E genL (fRun E genL F ops) q).2 =
        (step E .all (fresh (run E .all (fresh ⟨ctorFlat E (flatView (n + 1) raw), [], []⟩) (ops.map FOp.toOp))) q.toOp).2 := by
  have hk := generated_keys_ok E hf hty
  obtain ⟨F, e, h1, h2, h3, h4, h5⟩ := fInit_normalize_spec hk.name n raw hu hc
  refine ⟨F, e, ?_⟩
  have hT : TInv genL E F.core := by unfold TInv; rw [h4]; exact memoInv_nil _ _
  have hTb : TablesInv genL E F.tables := by unfold TablesInv; rw [h3]; exact memoInv_nil _ _
  exact full_schema_refines_fresh E hf hty F (n + 1) _ ⟨h1, hT, h2, hTb⟩ (fresh_inv E _) h5 ops hadm q hq

open SqlglotModel.Generated.C18 in
/-- **constructor = incremental, end to end**: every query on the schema the REAL constructor path builds from a raw
    nested mapping is answered like the (flat) empty schema after `add_table` of each raw table in flatten order -/
theorem raw_constructor_answers_eq_incremental (E : Env) (hf : E.f.Ok) (hty : TypeKeyOK genL E) (n : Nat) (raw : Tree)
    (hu : Uniform (n + 1) raw) (hok : CtorOK E n (flatView (n + 1) raw)) (q : FOp) (hq : FAdm q) :
    ∃ F, fInit E genL raw true = .ok F ∧
      (fStep E genL F q).2 =
        (step E .all (run E .all empty ((flatView (n + 1) raw).map (addOpOf E))) q.toOp).2 := by
  obtain ⟨F, e, h⟩ := full_refines_fresh_from_raw_constructor E hf hty n raw hu hok.cols [] (by intro o h; cases h) q hq
  refine ⟨F, e, ?_⟩
  simp only [fRun, List.foldl_nil, List.map_nil, run] at h
  rw [h]
  exact constructor_answers_eq_incremental E n _ hok q.toOp

/-! ### several schemas: `copy()`, `from_mapping_schema`, `empty` -/

/-- **frame**: a call on schema `i` leaves every other live schema exactly as it was -/
theorem copy_frame (E : Env) (L : Layouts) (W : World) (i j : Nat) (op : FOp) (h : i ≠ j) :
    (wStep E L W i op).1[j]? = W[j]? := by
  unfold wStep
  cases hW : W[i]? with
  | none => rfl
  | some F => simp [List.getElem?_set_ne h]

/-- **a copy is independent**: after `c = s.copy()` any history of calls on `c` leaves `s` — its state, hence every
    answer it gives — unchanged (the real `copy()` shares inner dicts when `normalize=False`: known finding
    C18-copy-shares-mapping, repair proposed) -/
theorem copy_independent (E : Env) (L : Layouts) (W : World) (i : Nat) (norm : Bool) (ops : List FOp) (hi : i < W.length) :
    (ops.foldl (fun w op => (wStep E L w W.length op).1) (wCopy E L W i norm).1)[i]? = W[i]? := by
  have key : ∀ (ops : List FOp) (w : World), w[i]? = W[i]? →
      (ops.foldl (fun w op => (wStep E L w W.length op).1) w)[i]? = W[i]? := by
    intro ops
    induction ops with
    | nil => intro w hw; exact hw
    | cons op ops ih =>
      intro w hw
      simp only [List.foldl_cons]
      exact ih _ (by rw [copy_frame E L w W.length i op (by omega), hw])
  apply key
  unfold wCopy
  cases hW : W[i]? with
  | none => simp only; exact hW
  | some F =>
    simp only
    cases fCopy E L F norm with
    | error e => exact hW
    | ok F' => simp only; rw [List.getElem?_append_left hi]; exact hW

/-- the copy itself is a constructed schema: with `normalize` on it is `MappingSchema(mapping, normalize=True)`
    (`constructor_refines_flat` applies), with `normalize` off it is `coreOfMapping mapping` (`constructor_state_ok`) -/
theorem copy_is_constructor (E : Env) (L : Layouts) (F : FSt) (norm : Bool) :
    fCopy E L F norm = fInit E L F.core.mapping norm := rfl

/-- `Schema.empty` is "nothing registered": it agrees with the flat view on admissible states -/
theorem empty_refines (F : FSt) (d : Nat) (h : CShape F.core d) : fEmpty F = true ↔ (absC F.core d).mapping = [] := by
  unfold fEmpty
  cases h with
  | empty h1 _ _ _ => simp [h1, Tree.isEmptyDict, absC, flatView]
  | full d0 hu _ _ _ =>
    have := (depth_absC_full (C := F.core) hu).2
    simp [uniform_not_empty hu, this]

end Ctor

end SqlglotModel.Properties.C18
