/-
  C18 — Schema lookups always reflect the current registrations.
  Only property theorems, non-vacuity examples and counter-example witnesses live here.
-/
import SqlglotModel.Proofs.Schema
import SqlglotModel.Proofs.SchemaMemo
import SqlglotModel.Generated.C18

namespace SqlglotModel.Properties.C18
open SqlglotModel.Schema SqlglotModel.Ident

/-- one API call (on normalised arguments) keeps the invariant, with today's eviction (clear everything) -/
theorem stepN_inv (E : Env) (S : St) (hS : Inv E S) (op : NOp) : Inv E (stepN E .all S op).1 := by
  cases op with
  | addTable nt ncols =>
    simp only [stepN]
    split
    · exact hS
    · have hI := find_inv E S hS nt false false
      have hM := find_mapping E S nt false false
      generalize hf : find E S nt false false = fr at hI hM
      obtain ⟨S1, r⟩ := fr
      simp only at hI hM ⊢
      split
      · exact hI
      · refine ⟨?_, ?_⟩
        · simp only
          rw [trie_after_set, hI.trie_eq]
        · intro k v h; simp [evict, lookup] at h
  | columnNames nt ov =>
    simp only [stepN, columnNames]
    exact find_inv E S hS nt true false
  | columnType nt nc d =>
    simp only [stepN]
    exact find_inv E S hS nt false false
  | hasColumn nt nc =>
    simp only [stepN]
    exact find_inv E S hS nt false false
  | find table raise ensure =>
    simp only [stepN]
    exact find_inv E S hS table raise ensure

/-- one API call keeps the invariant (with the eviction the source performs today: clear everything) -/
theorem step_inv (E : Env) (S : St) (hS : Inv E S) (op : Op) : Inv E (step E .all S op).1 :=
  stepN_inv E S hS (normOp E op)

/-- every reachable state (any history, any length) satisfies the invariant -/
theorem run_inv (E : Env) (S : St) (hS : Inv E S) (ops : List Op) : Inv E (run E .all S ops) := by
  induction ops generalizing S with
  | nil => simpa [run] using hS
  | cons op ops ih => simpa [run] using ih _ (step_inv E S hS op)

theorem answerN_eq_of_same_mapping (E : Env) (ev : Evict) (S T : St) (hS : Inv E S) (hT : Inv E T)
    (hm : S.mapping = T.mapping) (q : NOp) : (stepN E ev S q).2 = (stepN E ev T q).2 := by
  have ht : S.trie = T.trie := by rw [hS.trie_eq, hT.trie_eq, hm]
  have hU : ∀ t r, findUncached S t r = findUncached T t r := by
    intro t r; simp [findUncached, hm, ht]
  have hF : ∀ t r e, (find E S t r e).2 = (find E T t r e).2 := by
    intro t r e; rw [find_snd E S hS, find_snd E T hT, hU]
  have hd : depth S = depth T := by simp [depth, hm]
  cases q with
  | addTable nt ncols =>
    simp only [stepN, hm, hd]
    split
    · rfl
    · have := hF nt false false
      generalize find E S nt false false = a at this
      generalize find E T nt false false = b at this
      obtain ⟨a1, a2⟩ := a; obtain ⟨b1, b2⟩ := b
      simp only at this; subst this
      simp only
      split <;> rfl
  | columnNames nt ov =>
    simp only [stepN, columnNames]
    rw [hF, hd]
  | columnType nt nc d =>
    simp only [stepN]
    rw [hF]
  | hasColumn nt nc =>
    simp only [stepN]
    rw [hF]
  | find table raise ensure =>
    simp only [stepN]
    rw [hF]

/-- what a call answers depends only on mapping and trie once the cache is coherent -/
theorem answer_eq_of_same_mapping (E : Env) (ev : Evict) (S T : St) (hS : Inv E S) (hT : Inv E T)
    (hm : S.mapping = T.mapping) (q : Op) : (step E ev S q).2 = (step E ev T q).2 :=
  answerN_eq_of_same_mapping E ev S T hS hT hm (normOp E q)

/-- **C18 (refinement).** After any history of `add_table`s and lookups, every call answers exactly as a
    schema freshly built from the final mapping (empty caches, trie rebuilt) answers. -/
theorem schema_refines_fresh (E : Env) (S0 : St) (h0 : Inv E S0) (ops : List Op) (q : Op) :
    (step E .all (run E .all S0 ops) q).2 = (step E .all (fresh (run E .all S0 ops)) q).2 :=
  answer_eq_of_same_mapping E .all _ _ (run_inv E S0 h0 ops) (fresh_inv E _) rfl q

/-- a concrete history (non-vacuity of the hypotheses, and the template the failing-input search replays):
    schema {db: {t: {a: INT}}}; `column_names("t")`; `add_table("db2.t", {b: INT})`; `column_names("t")`. -/
def witnessStart : St := fresh ⟨[(["db", "t"], [("a", "INT")])], [], []⟩
def dflt : DialectRef := ⟨"", ⟨.lowercase, false⟩⟩
def envA : Env := ⟨asciiFns, fun _ t => t, dflt, true, fun _ => none⟩
def witnessOps : List Op :=
  [ .columnNames dflt true [⟨"t", false⟩] false,
    .addTable dflt true [⟨"db2", false⟩, ⟨"t", false⟩] [(⟨"b", false⟩, "INT")] ]
def witnessQuery : Op := .columnNames dflt true [⟨"t", false⟩] false

example : Inv envA witnessStart := fresh_inv _ _

/-- with today's eviction the late lookup reports the ambiguity, exactly like a fresh schema -/
theorem witness_ok_with_clear :
    (step envA .all (run envA .all witnessStart witnessOps) witnessQuery).2 = .err .ambiguous := by decide +kernel

/-- **why the eviction must be total**: with the pre-repair policy (evict only the added table's own two
    keys) the same history answers with the stale column list, while a fresh schema reports the ambiguity. -/
theorem stale_partial_lookup_witness :
    (step envA .exactKeys (run envA .exactKeys witnessStart witnessOps) witnessQuery).2 = .names ["a"] ∧
    (step envA .exactKeys (fresh (run envA .exactKeys witnessStart witnessOps)) witnessQuery).2 = .err .ambiguous := by
  decide +kernel

/-- the constructor's state is a legal start: any mapping with its trie and empty caches -/
theorem init_inv (E : Env) (m : List (Path × Cols)) : Inv E (fresh ⟨m, [], []⟩) := fresh_inv _ _

/-- the source's eviction policy, as extracted by the translator on this run, is the one the theorem is about -/
theorem generated_policy_ok : SqlglotModel.Generated.C18.evictionPolicy = Evict.all := by decide +kernel

/-! ## The memo tables in front of the normalisation and type-parsing functions -/

section Memo
open SqlglotModel.Generated.C18

/-- **memo_transparent.** A memo table never changes any answer, for every history of calls, as soon as every
    input that maps to the key an entry is stored under has the stored value (`hstore`; for an ordinary cache
    `storeKey x _ = key x` and this says: the key determines the result). -/
theorem memo_transparent {ι κ β : Type} [DecidableEq κ] (key : ι → κ) (storeKey : ι → β → κ) (consult : ι → Bool)
    (g : ι → β) (truthy : β → Bool) (hstore : ∀ x y, key y = storeKey x (g x) → g y = g x)
    (m : List (κ × β)) (hm : MemoInv key g m) (xs : List ι) (x : ι) :
    (memoCall key storeKey consult g truthy (memoRun key storeKey consult g truthy m xs) x).2 = g x :=
  memoCall_snd key storeKey consult g truthy _ (memoRun_inv key storeKey consult g truthy hstore m hm xs) x

example : MemoInv (fun (n : Nat) => n % 2) (fun n => n % 2 == 0) [] := memoInv_nil _ _

/-- the model's name normalisation reads nothing beyond what the translator found the source passing to
    `normalize_name` (a model-side obligation: it fails if the source stops passing one of them) -/
theorem name_compute_reads_only (f : CaseFns) (x y : NameIn)
    (h : ∀ fld ∈ nameCacheReads, NameIn.proj fld x = NameIn.proj fld y) : nameCompute f x = nameCompute f y := by
  have h1 := h .name (by decide)
  have h2 := h .quoted (by decide)
  have h3 := h .dialect (by decide)
  have h4 := h .isTable (by decide)
  have h5 := h .normalize (by decide)
  obtain ⟨a1, a2, a3, a4, a5⟩ := x
  obtain ⟨b1, b2, b3, b4, b5⟩ := y
  simp only [NameIn.proj, FVal.s.injEq, FVal.b.injEq, FVal.d.injEq] at h1 h2 h3 h4 h5
  subst h1 h2 h3 h4 h5
  rfl

/-- a key layout that covers the inputs read determines the result -/
theorem name_key_determines (f : CaseFns) (layout : List NField) (hc : covers layout nameCacheReads = true)
    (x y : NameIn) (hk : nameKey layout x = nameKey layout y) : nameCompute f x = nameCompute f y :=
  name_compute_reads_only f x y (fun fld hf => key_fields NameIn.proj layout x y hk fld (covers_mem hc fld hf))

/-- `_normalized_name_cache` is transparent for every history, for every covering key layout -/
theorem name_cache_transparent (f : CaseFns) (layout : List NField) (hc : covers layout nameCacheReads = true)
    (xs : List NameIn) (x : NameIn) : (nameCall f layout (nameRun f layout [] xs) x).2 = nameCompute f x :=
  memo_transparent (nameKey layout) (fun x _ => nameKey layout x) (fun _ => true) (nameCompute f) (fun r => r != "")
    (fun x y hk => name_key_determines f layout hc y x hk) [] (memoInv_nil _ _) xs x

/-- the key tuple the source builds today covers every input of the computation (finite check, decided completely) -/
theorem generated_name_cache_key_ok : covers nameCacheKey nameCacheReads = true := by decide

def bq : DialectRef := ⟨"bigquery", ⟨.caseInsensitive, true⟩⟩
def pg : DialectRef := ⟨"postgres", ⟨.lowercase, false⟩⟩

/-- why `quoted` must be in the key: `"Foo"` (quoted Identifier) then `Foo` (unquoted) answers `Foo`, not `foo` -/
theorem name_cache_key_needs_quoted :
    (nameCall asciiFns [.name, .dialect, .isTable, .normalize]
      (nameRun asciiFns [.name, .dialect, .isTable, .normalize] [] [⟨"Foo", true, pg, false, true⟩])
      ⟨"Foo", false, pg, false, true⟩).2 = "Foo" ∧
    nameCompute asciiFns ⟨"Foo", false, pg, false, true⟩ = "foo" := by decide +kernel

/-- why `is_table` must be in the key (BigQuery): table key `Foo` then column `Foo` answers `Foo`, not `foo` -/
theorem name_cache_key_needs_is_table :
    (nameCall asciiFns [.name, .quoted, .dialect, .normalize]
      (nameRun asciiFns [.name, .quoted, .dialect, .normalize] [] [⟨"Foo", false, bq, true, true⟩])
      ⟨"Foo", false, bq, false, true⟩).2 = "Foo" ∧
    nameCompute asciiFns ⟨"Foo", false, bq, false, true⟩ = "foo" := by decide +kernel

theorem table_compute_reads_only (f : CaseFns) (x y : TableIn)
    (h : ∀ fld ∈ tableCacheReads, TableIn.proj fld x = TableIn.proj fld y) : tableCompute f x = tableCompute f y := by
  have h1 := h .table (by decide)
  have h2 := h .dialect (by decide)
  have h3 := h .normalize (by decide)
  simp only [TableIn.proj, FVal.t.injEq, FVal.b.injEq, FVal.d.injEq] at h1 h2 h3
  simp [tableCompute, h1, h2, h3]

/-- `_normalized_table_cache` (entries stored under the NORMALISED table) is transparent for every history:
    needs the key to cover the inputs and normalisation to be idempotent -/
theorem table_cache_transparent (f : CaseFns) (hf : f.Ok) (layout : List TField)
    (hc : covers layout tableCacheReads = true) (xs : List TableIn) (x : TableIn) :
    (tableCall f layout (tableRun f layout [] xs) x).2 = tableCompute f x := by
  refine memo_transparent (tableKey layout) _ _ (tableCompute f) _ ?_ [] (memoInv_nil _ _) xs x
  intro x y hk
  have h := table_compute_reads_only f y { x with table := tableCompute f x }
    (fun fld hfld => key_fields TableIn.proj layout _ _ hk fld (covers_mem hc fld hfld))
  rw [h]
  simp [tableCompute, normTable_idem f hf]

example : CaseFns.Ok ⟨id, id⟩ := ⟨fun _ => rfl, fun _ => rfl⟩

theorem generated_table_cache_key_ok : covers tableCacheKey tableCacheReads = true := by decide

theorem type_parse_reads_only (tbl : String → String → String) (x y : TypeIn)
    (h : ∀ fld ∈ typeCacheReads, TypeIn.proj fld x = TypeIn.proj fld y) : tyParse tbl x = tyParse tbl y := by
  have h1 := h .tyStr (by decide)
  have h2 := h .dialect (by decide)
  obtain ⟨a1, a2⟩ := x
  obtain ⟨b1, b2⟩ := y
  simp only [TypeIn.proj, FVal.s.injEq, FVal.d.injEq] at h1 h2
  subst h1 h2
  rfl

/-- `_type_mapping_cache` is transparent for every history IF its key covers (type text, dialect) -/
theorem type_cache_transparent (tbl : String → String → String) (layout : List YField) (hc : covers layout typeCacheReads = true)
    (xs : List TypeIn) (x : TypeIn) : (typeCall tbl layout (typeRun tbl layout [] xs) x).2 = tyParse tbl x :=
  memo_transparent (typeKey layout) (fun x _ => typeKey layout x) (fun _ => true) (tyParse tbl) (fun _ => true)
    (fun x y hk => type_parse_reads_only tbl y x
      (fun fld hfld => key_fields TypeIn.proj layout _ _ hk fld (covers_mem hc fld hfld))) [] (memoInv_nil _ _) xs x

/-- **the key the source uses today (type text only) is NOT enough**: `FLOAT` asked under BigQuery, then under
    Postgres, answers BigQuery's type (known finding C18-type-cache-dialect; the repair adds the dialect) -/
theorem type_cache_stale_witness :
    let tbl := tyOfTable [(("bigquery", "FLOAT"), "FLOAT"), (("postgres", "FLOAT"), "DOUBLE")]
    (typeCall tbl [.tyStr] (typeRun tbl [.tyStr] [] [⟨"FLOAT", bq⟩]) ⟨"FLOAT", pg⟩).2 = "FLOAT" ∧
    tyParse tbl ⟨"FLOAT", pg⟩ = "DOUBLE" := by decide +kernel

/-- the layout found in the source is either the known-defective one (reported through the known finding) or a
    covering one (after the repair); any other key breaks the build -/
theorem generated_type_cache_key_known :
    typeCacheKey = [.tyStr] ∨ covers typeCacheKey typeCacheReads = true := by decide

end Memo

end SqlglotModel.Properties.C18
