/-
  C18 — Schema lookups always reflect the current registrations.
  Only property theorems, non-vacuity examples and counter-example witnesses live here.
-/
import SqlglotModel.Proofs.Schema
import SqlglotModel.Generated.C18

namespace SqlglotModel.Properties.C18
open SqlglotModel.Schema SqlglotModel.Ident

/-- one API call keeps the invariant (with the eviction the source performs today: clear everything) -/
theorem step_inv (S : St) (hS : Inv S) (op : Op) : Inv (step .all S op).1 := by
  cases op with
  | addTable st norm table cols =>
    simp only [step]
    split
    · exact hS
    · have hI := find_inv S hS (normTable st norm table) false false
      have hM := find_mapping S (normTable st norm table) false false
      generalize hf : find S (normTable st norm table) false false = fr at hI hM
      obtain ⟨S1, r⟩ := fr
      simp only at hI hM ⊢
      split
      · exact hI
      · refine ⟨?_, ?_⟩
        · simp only
          rw [trie_after_set, hI.trie_eq]
        · intro k v h; simp [evict, lookup] at h
  | columnNames st norm table =>
    simp only [step, columnNames]
    have hI := find_inv S hS (normTable st norm table) true false
    generalize find S (normTable st norm table) true false = fr at hI
    obtain ⟨S1, r⟩ := fr
    cases r <;> simpa using hI
  | columnType st norm table col =>
    simp only [step]
    have hI := find_inv S hS (normTable st norm table) false false
    generalize find S (normTable st norm table) false false = fr at hI
    obtain ⟨S1, r⟩ := fr
    cases r <;> simpa using hI
  | hasColumn st norm table col =>
    simp only [step]
    have hI := find_inv S hS (normTable st norm table) false false
    generalize find S (normTable st norm table) false false = fr at hI
    obtain ⟨S1, r⟩ := fr
    cases r <;> simpa using hI
  | find table raise ensure =>
    simp only [step]
    exact find_inv S hS table raise ensure

/-- every reachable state (any history, any length) satisfies the invariant -/
theorem run_inv (S : St) (hS : Inv S) (ops : List Op) : Inv (run .all S ops) := by
  induction ops generalizing S with
  | nil => simpa [run] using hS
  | cons op ops ih => simpa [run] using ih _ (step_inv S hS op)

/-- what a call answers depends only on mapping and trie once the cache is coherent -/
theorem answer_eq_of_same_mapping (ev : Evict) (S T : St) (hS : Inv S) (hT : Inv T)
    (hm : S.mapping = T.mapping) (q : Op) : (step ev S q).2 = (step ev T q).2 := by
  have ht : S.trie = T.trie := by rw [hS.trie_eq, hT.trie_eq, hm]
  have hU : ∀ t r, findUncached S t r = findUncached T t r := by
    intro t r; simp [findUncached, hm, ht]
  have hF : ∀ t r e, (find S t r e).2 = (find T t r e).2 := by
    intro t r e; rw [find_snd S hS, find_snd T hT, hU]
  have hd : depth S = depth T := by simp [depth, hm]
  cases q with
  | addTable st norm table cols =>
    simp only [step, hm, hd]
    split
    · rfl
    · have := hF (normTable st norm table) false false
      generalize find S (normTable st norm table) false false = a at this
      generalize find T (normTable st norm table) false false = b at this
      obtain ⟨a1, a2⟩ := a; obtain ⟨b1, b2⟩ := b
      simp only at this; subst this
      simp only
      split <;> rfl
  | columnNames st norm table =>
    simp only [step, columnNames]
    have := hF (normTable st norm table) true false
    generalize find S (normTable st norm table) true false = a at this
    generalize find T (normTable st norm table) true false = b at this
    obtain ⟨a1, a2⟩ := a; obtain ⟨b1, b2⟩ := b
    simp only at this; subst this
    cases a2 <;> rfl
  | columnType st norm table col =>
    simp only [step]
    have := hF (normTable st norm table) false false
    generalize find S (normTable st norm table) false false = a at this
    generalize find T (normTable st norm table) false false = b at this
    obtain ⟨a1, a2⟩ := a; obtain ⟨b1, b2⟩ := b
    simp only at this; subst this
    cases a2 <;> rfl
  | hasColumn st norm table col =>
    simp only [step]
    have := hF (normTable st norm table) false false
    generalize find S (normTable st norm table) false false = a at this
    generalize find T (normTable st norm table) false false = b at this
    obtain ⟨a1, a2⟩ := a; obtain ⟨b1, b2⟩ := b
    simp only at this; subst this
    cases a2 <;> rfl
  | find table raise ensure =>
    simp only [step]
    rw [hF]

/-- **C18 (refinement).** After any history of `add_table`s and lookups, every call answers exactly as a
    schema freshly built from the final mapping (empty caches, trie rebuilt) answers. -/
theorem schema_refines_fresh (S0 : St) (h0 : Inv S0) (ops : List Op) (q : Op) :
    (step .all (run .all S0 ops) q).2 = (step .all (fresh (run .all S0 ops)) q).2 :=
  answer_eq_of_same_mapping .all _ _ (run_inv S0 h0 ops) (fresh_inv _) rfl q

/-- a concrete history (non-vacuity of the hypotheses, and the template the failing-input search replays):
    schema {db: {t: {a: INT}}}; `column_names("t")`; `add_table("db2.t", {b: INT})`; `column_names("t")`. -/
def witnessStart : St := fresh ⟨[(["db", "t"], [("a", "INT")])], [], []⟩
def witnessOps : List Op :=
  [ .columnNames .lowercase true [⟨"t", false⟩],
    .addTable .lowercase true [⟨"db2", false⟩, ⟨"t", false⟩] [(⟨"b", false⟩, "INT")] ]
def witnessQuery : Op := .columnNames .lowercase true [⟨"t", false⟩]

example : Inv witnessStart := fresh_inv _

/-- with today's eviction the late lookup reports the ambiguity, exactly like a fresh schema -/
theorem witness_ok_with_clear :
    (step .all (run .all witnessStart witnessOps) witnessQuery).2 = .err .ambiguous := by decide +kernel

/-- **why the eviction must be total**: with the pre-repair policy (evict only the added table's own two
    keys) the same history answers with the stale column list, while a fresh schema reports the ambiguity. -/
theorem stale_partial_lookup_witness :
    (step .exactKeys (run .exactKeys witnessStart witnessOps) witnessQuery).2 = .names ["a"] ∧
    (step .exactKeys (fresh (run .exactKeys witnessStart witnessOps)) witnessQuery).2 = .err .ambiguous := by
  decide +kernel

/-- the constructor's state is a legal start: any mapping with its trie and empty caches -/
theorem init_inv (m : List (Path × Cols)) : Inv (fresh ⟨m, [], []⟩) := fresh_inv _

/-- the source's eviction policy, as extracted by the translator on this run, is the one the theorem is about -/
theorem generated_policy_ok : SqlglotModel.Generated.C18.evictionPolicy = Evict.all := by decide +kernel

end SqlglotModel.Properties.C18
