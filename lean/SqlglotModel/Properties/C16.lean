/-
  C16 — Inferred types agree with the types the engine actually produces (duckdb dialect).
  Only property theorems, non-vacuity examples and counter-example witnesses live here.

  `T0` are the tables regenerated on every run: sqlglot's COERCES_TO / BINARY_COERCIONS / EXPRESSION_METADATA entries / type sets /
  flags (from the live source), and the engine table A-duck (from the installed DuckDB's `typeof`, exhaustively over the
  representatives of every engine class). Theorems whose proof is `decide +kernel` are COMPLETE FINITE DECISIONS over those
  tables (every operator × every operand summary × every compatible engine class), not samples; `class_agrees` lifts them to
  expressions of any depth by structural induction (Proofs/Types.lean `rel_of_tablesOk`).
-/
import SqlglotModel.Proofs.Types
import SqlglotModel.Generated.C16

namespace SqlglotModel.Properties.C16
open SqlglotModel.Types

abbrev T0 : Tables := SqlglotModel.Generated.C16.tables

/-! ### `_maybe_coerce` on the generated COERCES_TO table -/

/-- in one coercion chain (or equal), or one side is NULL / UNKNOWN / a parameterised type -/
def Comparable (a b : Ty) : Bool :=
  a == b || T0.coercesTo a b || T0.coercesTo b a
  || a == .null || b == .null || a == .unknown || b == .unknown || a == .decimalP || b == .decimalP

/-- complete finite decision (17 types) -/
theorem coerce_idem (a : Ty) : coerce T0 a a = a := by
  have h : (Ty.all.all fun a => coerce T0 a a == a) = true := by decide +kernel
  simpa using List.all_eq_true.mp h a (Ty.mem_all a)

/-- complete finite decision (17² pairs): `_maybe_coerce` is commutative on comparable types … -/
theorem coerce_comm (a b : Ty) (h : Comparable a b = true) : coerce T0 a b = coerce T0 b a := by
  have hh : (Ty.all.all fun a => Ty.all.all fun b => !(Comparable a b) || coerce T0 a b == coerce T0 b a) = true := by
    decide +kernel
  have := List.all_eq_true.mp (List.all_eq_true.mp hh a (Ty.mem_all a)) b (Ty.mem_all b)
  simpa [h] using this

/-- … and it is NOT commutative across chains: the first operand wins (the root of the "mixed-chain" disagreements) -/
theorem coerce_cross_chain_first_wins_witness :
    coerce T0 .int .text = .int ∧ coerce T0 .text .int = .text ∧
    coerce T0 .date .timestampntz = .date ∧ coerce T0 .boolean .smallint = .boolean := by decide +kernel

/-- complete finite decision (17³ triples): associative on pairwise comparable types (a join on each chain,
    NULL the identity, UNKNOWN absorbing, a parameterised type absorbing everything) -/
theorem coerce_assoc (a b c : Ty) (hab : Comparable a b = true) (hbc : Comparable b c = true) (hac : Comparable a c = true) :
    coerce T0 (coerce T0 a b) c = coerce T0 a (coerce T0 b c) := by
  have hh : (Ty.all.all fun a => Ty.all.all fun b => Ty.all.all fun c =>
      !(Comparable a b && Comparable b c && Comparable a c)
      || coerce T0 (coerce T0 a b) c == coerce T0 a (coerce T0 b c)) = true := by decide +kernel
  have := List.all_eq_true.mp (List.all_eq_true.mp (List.all_eq_true.mp hh a (Ty.mem_all a)) b (Ty.mem_all b)) c (Ty.mem_all c)
  simpa [hab, hbc, hac] using this

example : Comparable .tinyint .double = true ∧ Comparable .date .timestamp = true ∧ Comparable .int .varchar = false := by
  decide +kernel

/-! ### per-operator agreement of sqlglot's tables with the engine table (complete finite decisions) -/

/-- leaves: a column of each of the property's types, literals, NULL, TRUE, INTERVAL -/
theorem leaf_table_agrees : leafCheck T0 = true := by decide +kernel

/-- every unary operator / function / cast × every operand summary × every compatible engine class, inside the domain -/
theorem un_table_agrees : unCheck T0 = true := by decide +kernel

/-- every binary operator × operand summaries² × compatible engine classes², inside the domain -/
theorem bin_table_agrees : binCheck T0 = true := by decide +kernel

/-- CASE / IF over their two branches -/
theorem tern_table_agrees : ternCheck T0 = true := by decide +kernel

theorem tables_ok : TablesOk T0 = true := by
  simp [TablesOk, leaf_table_agrees, un_table_agrees, bin_table_agrees, tern_table_agrees]

/-! ### the property -/

/-- for every well-formed expression (any depth) what the annotator sees at the root and the engine's class describe the same
    kind of value (string literal ↔ string literal, otherwise equal type classes) -/
theorem rel_sound (e : TExpr) (h : WF T0 e = true) : Rel (sm T0 e) (eng T0 e) = true :=
  rel_of_tablesOk T0 tables_ok e h

/-- **C16 (class agreement).** For every well-formed typed expression the class of the type `annotate_types` infers equals
    the class of the type DuckDB reports (under A-duck). -/
theorem class_agrees (e : TExpr) (h : WF T0 e = true) : eclassOf (eng T0 e) = some (classOf (annot T0 e)) :=
  rel_class (rel_sound e h)

/-- the same for the type left on the tree when `annotate` returns (NULL rewritten to DEFAULT_NULL_TYPE) -/
theorem final_class_agrees (e : TExpr) (h : WF T0 e = true) : eclassOf (eng T0 e) = some (classOf (annotFinal T0 e)) := by
  have hc : ∀ t, classOf (finalTy T0 t) = classOf t := by
    intro t; cases t <;> decide +kernel
  rw [annotFinal, hc]; exact class_agrees e h

/-- **C16 (never narrower in kind).** An inferred integer type is never produced by the engine as a float, a decimal or text:
    the engine's class is INTEGER (a sized integer or HUGEINT). -/
theorem int_never_narrower (e : TExpr) (h : WF T0 e = true) (hi : classOf (annot T0 e) = .integer) :
    eng T0 e = .integer ∨ eng T0 e = .hugeint := by
  have := class_agrees e h
  rw [hi] at this
  cases he : eng T0 e <;> simp [he, eclassOf] at this ⊢

/-- non-vacuity: `CASE WHEN bo THEN (ti + bi) * 1.5 ELSE ABS(de) / NULL … END`-like nested expressions are well-formed -/
def sample1 : TExpr :=
  .tern .caseWhen (.bin .lt (.col .date) (.strLit .isoDate))
    (.bin .mul (.bin .add (.col .tinyint) (.col .bigint)) .decLit)
    (.bin .div (.un .abs (.col .decimalP)) (.un (.cast .int) (.col .text)))
def sample2 : TExpr := .bin .coalesce (.un .sumOver (.col .smallint)) (.un .length (.bin .dpipe (.col .text) (.col .int)))
def sample3 : TExpr := .bin .add (.col .timestampntz) (.interval true)

example : WF T0 sample1 = true ∧ WF T0 sample2 = true ∧ WF T0 sample3 = true := by decide +kernel
example : annot T0 sample1 = .double ∧ eng T0 sample1 = .double := by decide +kernel
example : annot T0 sample2 = .bigint ∧ eng T0 sample2 = .hugeint := by decide +kernel

/-! ### what the unchanged tree gets wrong (outside `WF`; each family is a known_pending/C16.json entry) -/

/-- the tables with NULLIF typed from both arguments (the unchanged tree) / from its first argument only
    (pending_fixes/C16-nullif.diff), whatever the live table says -/
def T0nullifBoth : Tables := { T0 with md := fun c => if c = .nullif then .byArgs [true, true] false else T0.md c }
def T0nullifFirst : Tables := { T0 with md := fun c => if c = .nullif then .byArgs [true, false] false else T0.md c }

/-- `NULLIF(1, UPPER(v))`: coercing both arguments gives TEXT, DuckDB returns the first argument's type (INTEGER) -/
theorem nullif_witness :
    let e := TExpr.bin .nullif .intLit (.un .upper (.col .text))
    annot T0nullifBoth e = .varchar ∧ eng T0nullifBoth e = .integer ∧ annot T0nullifFirst e = .int := by decide +kernel

/-- complete finite decision: typed from its first argument, NULLIF agrees with DuckDB for EVERY pair of operands the engine
    accepts (no domain restriction) -/
theorem nullif_first_arg_agrees :
    (Sm.all.all fun a => Sm.all.all fun b => (compat a).all fun ea => (compat b).all fun eb =>
      T0.duckBin .nullif ea eb == .error
      || Rel (.of (annotBin T0nullifFirst .nullif a b)) (T0.duckBin .nullif ea eb)) = true := by decide +kernel

/-- `da - da`: sqlglot DATE, DuckDB BIGINT; `ts - ts`: TIMESTAMP vs INTERVAL -/
theorem date_minus_date_witness :
    annot T0 (.bin .sub (.col .date) (.col .date)) = .date ∧ eng T0 (.bin .sub (.col .date) (.col .date)) = .integer ∧
    annot T0 (.bin .sub (.col .timestampntz) (.col .timestampntz)) = .timestampntz ∧
    eng T0 (.bin .sub (.col .timestampntz) (.col .timestampntz)) = .interval := by decide +kernel

/-- `da + INTERVAL 1 DAY`: sqlglot DATE (BINARY_COERCIONS `_coerce_date`), DuckDB TIMESTAMP -/
theorem date_plus_interval_witness :
    annot T0 (.bin .add (.col .date) (.interval true)) = .date ∧ eng T0 (.bin .add (.col .date) (.interval true)) = .timestamp := by
  decide +kernel

/-- operands from different coercion chains: the first type is kept (`ti + da`, `COALESCE(bo, si)`, `COALESCE(da, ts)`,
    `CASE WHEN bo THEN 'abc' ELSE 1 END` (two literals: the first one's type)) -/
theorem cross_chain_witness :
    annot T0 (.bin .add (.col .tinyint) (.col .date)) = .tinyint ∧ eng T0 (.bin .add (.col .tinyint) (.col .date)) = .date ∧
    annot T0 (.bin .coalesce (.col .boolean) (.col .smallint)) = .boolean ∧
    eng T0 (.bin .coalesce (.col .boolean) (.col .smallint)) = .integer ∧
    annot T0 (.bin .coalesce (.col .date) (.col .timestampntz)) = .date ∧
    eng T0 (.bin .coalesce (.col .date) (.col .timestampntz)) = .timestamp ∧
    annot T0 (.tern .caseWhen (.col .boolean) (.strLit .other) .intLit) = .varchar ∧
    eng T0 (.tern .caseWhen (.col .boolean) (.strLit .other) .intLit) = .integer := by decide +kernel

end SqlglotModel.Properties.C16
