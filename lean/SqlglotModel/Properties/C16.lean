/-
  C16 — Inferred types agree with the types the engine actually produces (duckdb dialect).
  Only property theorems, non-vacuity examples and counter-example witnesses live here.

  `T0` are the tables regenerated on every run: sqlglot's COERCES_TO / BINARY_COERCIONS / EXPRESSION_METADATA entries / type sets /
  flags (from the live source), and the engine table A-duck (from the installed DuckDB's `typeof`, exhaustively over the
  representatives of every engine class). Theorems whose proof is `decide +kernel` are COMPLETE FINITE DECISIONS over those
  tables (every operator × every typed operand summary × every compatible engine class), not samples. `class_agrees` lifts them
  to expressions over the columns of ANY flat schema, of any depth and with n-ary nodes of any width, by structural induction
  (Proofs/Types.lean `rel_of_tablesOk`, `nary_sound`).
-/
import SqlglotModel.Proofs.Types
import SqlglotModel.Generated.C16

namespace SqlglotModel.Properties.C16
open SqlglotModel.Types

abbrev T0 : Tables := SqlglotModel.Generated.C16.tables

/-! ### `_maybe_coerce` on the generated COERCES_TO table -/

/-- in one coercion chain (or equal), or one side is NULL / UNKNOWN / a parameterised type -/
def Comparable (a b : Ty) : Bool :=
  a == b || T0.coercesTo a b || T0.coercesTo b a
  || a == .null || b == .null || a == .unknown || b == .unknown || a == .decimalP || b == .decimalP

/-- complete finite decision (17 types) -/
theorem coerce_idem (a : Ty) : coerce T0 a a = a := by
  have h : (Ty.all.all fun a => coerce T0 a a == a) = true := by decide +kernel
  simpa using List.all_eq_true.mp h a (Ty.mem_all a)

/-- complete finite decision (17² pairs): `_maybe_coerce` is commutative on comparable types … -/
theorem coerce_comm (a b : Ty) (h : Comparable a b = true) : coerce T0 a b = coerce T0 b a := by
  have hh : (Ty.all.all fun a => Ty.all.all fun b => !(Comparable a b) || coerce T0 a b == coerce T0 b a) = true := by
    decide +kernel
  have := List.all_eq_true.mp (List.all_eq_true.mp hh a (Ty.mem_all a)) b (Ty.mem_all b)
  simpa [h] using this

/-- … and it is NOT commutative across chains: the first operand wins (the root of the "mixed-chain" disagreements) -/
theorem coerce_cross_chain_first_wins_witness :
    coerce T0 .int .text = .int ∧ coerce T0 .text .int = .text ∧
    coerce T0 .date .timestampntz = .date ∧ coerce T0 .boolean .smallint = .boolean := by decide +kernel

/-- complete finite decision (17³ triples): associative on pairwise comparable types (a join on each chain,
    NULL the identity, UNKNOWN absorbing, a parameterised type absorbing everything) -/
theorem coerce_assoc (a b c : Ty) (hab : Comparable a b = true) (hbc : Comparable b c = true) (hac : Comparable a c = true) :
    coerce T0 (coerce T0 a b) c = coerce T0 a (coerce T0 b c) := by
  have hh : (Ty.all.all fun a => Ty.all.all fun b => Ty.all.all fun c =>
      !(Comparable a b && Comparable b c && Comparable a c)
      || coerce T0 (coerce T0 a b) c == coerce T0 a (coerce T0 b c)) = true := by decide +kernel
  have := List.all_eq_true.mp (List.all_eq_true.mp (List.all_eq_true.mp hh a (Ty.mem_all a)) b (Ty.mem_all b)) c (Ty.mem_all c)
  simpa [hab, hbc, hac] using this

example : Comparable .tinyint .double = true ∧ Comparable .date .timestamp = true ∧ Comparable .int .varchar = false := by
  decide +kernel

/-! ### decimals: no precision / scale is ever computed -/

/-- a parameterised DECIMAL absorbs every other type in `_maybe_coerce`, from either side (even UNKNOWN) -/
theorem coerce_decimalP_absorbs (a : Ty) : coerce T0 .decimalP a = .decimalP ∧ coerce T0 a .decimalP = .decimalP := by
  cases a <;> decide +kernel

/-- the parameters sqlglot annotates on an arithmetic result are always those of one of its operands (or none) -/
theorem decimal_params_never_computed (isDiv : Bool) (a b : Option Dec) :
    sgDecArith isDiv a b = none ∨ sgDecArith isDiv a b = a ∨ sgDecArith isDiv a b = b := by
  cases isDiv <;> cases a <;> cases b <;> simp [sgDecArith, sgDecCoerce]

/-- complete finite decision: DECIMAL / DOUBLE arithmetic stays in the decimal class on the engine side -/
theorem decimal_arith_engine_class :
    ([BinK.add, .sub, .mul, .div, .mod, .pow].all fun k => [ETy.double, .decimal].all fun ea => [ETy.double, .decimal].all fun eb =>
      T0.duckBin k ea eb == .double || T0.duckBin k ea eb == .decimal) = true := by decide +kernel

/-! ### per-operator agreement of sqlglot's tables with the engine table (complete finite decisions) -/

/-- leaves: a column of each of the property's types, literals, NULL, TRUE, INTERVAL -/
theorem leaf_table_agrees : leafCheck T0 = true := by decide +kernel

/-- every unary operator / function / aggregate / wrapper / cast × every typed operand summary × every compatible engine class
    that DuckDB accepts: it agrees IF AND ONLY IF it is in no disagreement family -/
theorem un_table_exact : unCheck T0 = true := by decide +kernel

/-- the same for every binary operator × typed operand summaries² × compatible engine classes² -/
theorem bin_table_exact : binCheck T0 = true := by decide +kernel

/-- the condition of CASE / IF takes no part in the inferred type -/
theorem tern_cond_irrelevant : ternCondCheck T0 = true := by decide +kernel

/-- CASE / IF over their two branches: agrees iff in no family -/
theorem tern_table_exact : ternCheck T0 = true := by decide +kernel

/-- n-ary COALESCE / GREATEST / LEAST / CASE: the metadata entries take every branch; the first branch establishes the
    invariant between the two accumulators of `_annotate_by_args` and the engine's running join; every in-chain step preserves
    it (all 72 accumulator states × next branch); at the end the by-args result (with `promote`) and the join agree -/
theorem nary_table_ok : naryCheck T0 = true := by decide +kernel

/-- number literals by magnitude / notation agree iff not beyond HUGEINT; argument-less window functions agree; BETWEEN / IN
    are BOOLEAN on both sides for every operand triple the engine accepts (complete: 13³ engine-class triples) -/
theorem extra_table_ok : extraCheck T0 = true := by decide +kernel

theorem tables_ok : TablesOk T0 = true := by
  simp [TablesOk, leaf_table_agrees, un_table_exact, bin_table_exact, tern_cond_irrelevant, tern_table_exact, nary_table_ok]

/-! ### depth 1 is decided completely: agreeing ⇔ in no family -/

theorem depth1_exact_un (k : UnK) (a : Sm) (ea : ETy) (hk : unKnown k = true) (ht : (a != .of .unknown) = true)
    (hr : Rel a ea = true) (hacc : (engUn T0 k ea != .error) = true) :
    Rel (.of (annotUn T0 k a)) (engUn T0 k ea) = (famUn k a ea).isNone :=
  (unCheck_iff T0 un_table_exact k a ea hk ht hr hacc).symm

theorem depth1_exact_bin (k : BinK) (a b : Sm) (ea eb : ETy) (hta : (a != .of .unknown) = true)
    (htb : (b != .of .unknown) = true) (hra : Rel a ea = true) (hrb : Rel b eb = true)
    (hacc : (T0.duckBin k ea eb != .error) = true) :
    Rel (.of (annotBin T0 k a b)) (T0.duckBin k ea eb) = (famBin T0 k a b ea eb).isNone :=
  (binCheck_iff T0 bin_table_exact k a b ea eb hta htb hra hrb hacc).symm

theorem depth1_exact_tern (k : TernK) (c a b : Sm) (ea eb : ETy) (hta : (a != .of .unknown) = true)
    (htb : (b != .of .unknown) = true) (hra : Rel a ea = true) (hrb : Rel b eb = true)
    (hacc : (T0.duckTern k ea eb != .error) = true) :
    Rel (.of (annotTern T0 k c a b)) (T0.duckTern k ea eb) = (famTern k a b).isNone :=
  (ternCheck_iff T0 tern_cond_irrelevant tern_table_exact k c a b ea eb hta htb hra hrb hacc).symm

/-- every listed family really occurs among the accepted depth-1 combinations (none is vacuous) -/
theorem every_family_inhabited :
    (Family.all.all fun f =>
      (censusUn T0 ++ censusBin T0 ++ censusTern T0 ++ NumLitK.all.map famNumLit).contains (some f)) = true := by decide +kernel

/-! ### the property -/

/-- for every well-formed expression over the columns of any schema (any depth, any n-ary width) what the annotator sees at
    the root and the engine's class describe the same kind of value -/
theorem rel_sound (S : Schema) (e : TExpr) (h : WF T0 S e = true) : Rel (sm T0 S e) (eng T0 S e) = true :=
  rel_of_tablesOk T0 S tables_ok extra_table_ok e h

/-- **C16 (class agreement).** For every well-formed typed expression the class of the type `annotate_types` infers equals
    the class of the type DuckDB reports (under A-duck). -/
theorem class_agrees (S : Schema) (e : TExpr) (h : WF T0 S e = true) :
    eclassOf (eng T0 S e) = some (classOf (annot T0 S e)) :=
  rel_class (rel_sound S e h)

/-- the same for the type left on the tree when `annotate` returns (NULL rewritten to DEFAULT_NULL_TYPE) -/
theorem final_class_agrees (S : Schema) (e : TExpr) (h : WF T0 S e = true) :
    eclassOf (eng T0 S e) = some (classOf (annotFinal T0 S e)) := by
  have hc : ∀ t, classOf (finalTy T0 t) = classOf t := by
    intro t; cases t <;> decide +kernel
  rw [annotFinal, hc]; exact class_agrees S e h

/-- **C16 (never narrower in kind).** An inferred integer type is never produced by the engine as a float, a decimal or text:
    the engine's class is INTEGER (a sized integer or HUGEINT). -/
theorem int_never_narrower (S : Schema) (e : TExpr) (h : WF T0 S e = true) (hi : classOf (annot T0 S e) = .integer) :
    eng T0 S e = .integer ∨ eng T0 S e = .hugeint := by
  have := class_agrees S e h
  rw [hi] at this
  cases he : eng T0 S e <;> simp [he, eclassOf] at this ⊢

/-! ### more of the annotator: literals, predicates, casts, aggregates, window functions, subqueries, array elements -/

/-- `_annotate_literal` asks only `is_int`: 3000000000 and 99999999999999999999 are INT (DuckDB BIGINT / HUGEINT: same class),
    1e10 is DOUBLE on both sides; a 40-digit integer is INT for sqlglot and DOUBLE for DuckDB -/
theorem literal_typing :
    annot T0 { table := [] } (.numLit .big) = .int ∧ eng T0 { table := [] } (.numLit .big) = .integer ∧
    annot T0 { table := [] } (.numLit .huge) = .int ∧ eng T0 { table := [] } (.numLit .huge) = .hugeint ∧
    annot T0 { table := [] } (.numLit .sci) = .double ∧ eng T0 { table := [] } (.numLit .sci) = .double ∧
    annot T0 { table := [] } (.strLit .other) = .varchar ∧ annot T0 { table := [] } .decLit = .double := by decide +kernel

theorem int_literal_overflow_disagrees_witness :
    annot T0 { table := [] } (.numLit .overflow) = .int ∧ eng T0 { table := [] } (.numLit .overflow) = .double ∧
    WF T0 { table := [] } (.numLit .overflow) = false := by decide +kernel

/-- BETWEEN / IN / IS [NOT] DISTINCT FROM / ILIKE / IS NULL / comparisons / connectors: BOOLEAN whatever the operands
    (complete finite decision over every operand summary) -/
theorem predicates_are_boolean :
    ((Pred3K.all.all fun k => leafReturns T0 (pred3Node k) == .boolean)
     && ([BinK.eq, .neq, .lt, .le, .gt, .ge, .and, .or, .like, .ilike, .isDistinct].all fun k =>
          Sm.all.all fun a => Sm.all.all fun b => annotBin T0 k a b == .boolean)
     && (Sm.all.all fun a => annotUn T0 .isNull a == .boolean && annotUn T0 .not a == .boolean
          && annotUn T0 .exists a == .boolean)) = true := by decide +kernel

/-- TRY_CAST is typed exactly like CAST: the target type -/
theorem try_cast_is_cast (to : Ty) (a : Sm) : annotUn T0 (.tryCast to) a = to ∧ annotUn T0 (.cast to) a = to := by
  have h1 : T0.md .cast = .castTo := by decide +kernel
  have h2 : T0.md .tryCast = .castTo := by decide +kernel
  simp [annotUn, annotNode, annotShape, h1, h2]

/-- LAG / LEAD / FIRST_VALUE / LAST_VALUE `OVER ()`, ANY_VALUE, MIN, MAX and a scalar subquery keep their argument's type
    (complete finite decision over the 17 types) -/
theorem argument_typed_functions_keep_type (t : Ty) :
    ([UnK.lag, .lead, .firstValue, .lastValue, .anyValue, .min, .max, .subq].all fun k => annotUn T0 k (.of t) == t) = true := by
  have h : (Ty.all.all fun t => [UnK.lag, .lead, .firstValue, .lastValue, .anyValue, .min, .max, .subq].all fun k =>
      annotUn T0 k (.of t) == t) = true := by decide +kernel
  exact List.all_eq_true.mp h t (Ty.mem_all t)

/-- aggregates and window functions at depth 1: every (function, typed operand, engine class) the engine accepts agrees
    unless it is SUM(BOOLEAN), AVG of a temporal, or SUM over a NULL literal — a restriction of `un_table_exact` -/
theorem aggregate_classes_exact :
    ([UnK.count, .sum, .min, .max, .avg, .anyValue, .stddev, .variance, .boolAnd, .boolOr, .groupConcat, .approxDistinct,
      .lag, .lead, .firstValue, .lastValue].all fun k => Sm.typed.all fun a => (compat a).all fun ea =>
        engUn T0 k ea == .error
        || (Rel (.of (annotUn T0 k a)) (engUn T0 k ea)
            == !((k == .sum && (smClass a == .boolean || isNullTy a))
                 || (k == .avg && (isTemporal a || smClass a == .interval))))) = true := by decide +kernel

/-- `[a, b][1]`: the element type is the by-args coercion of the elements -/
theorem array_element_type (a b : Sm) : annotBin T0 .arrayElem a b = byArgs T0 [a, b] false := by
  have h1 : T0.md .array = .arrayOf [true, true] := by decide +kernel
  have h2 : T0.md .bracket = .bracket := by decide +kernel
  simp [annotBin, h1, h2, applyMask]

/-- every place annotate_types.py writes into a node, a type or meta is one of the audited sites, and the only sites that
    rewrite the tree are those of `_restore_dot_parts` (list re-extracted from the ast on every run) -/
theorem write_sites_audited : writeSitesOk SqlglotModel.Generated.C16.writeSites = true := by decide +kernel

/-- the column of a UNION read through a derived table is `_maybe_coerce` of the two branch types -/
theorem union_column_type (a b : Sm) : annotBin T0 .unionCol a b = coerce T0 a.ty b.ty := by
  have h : T0.md .subquery = .subquery := by decide +kernel
  simp [annotBin, h]

/-- UNION branches: coerced to the common class, except exactly when the coerced (first-wins) type's class is below one of
    the branch classes in DuckDB's cast order (a restriction of `bin_table_exact`) -/
theorem union_branches_exact :
    (Sm.typed.all fun a => Sm.typed.all fun b => (compat a).all fun ea => (compat b).all fun eb =>
      T0.duckBin .unionCol ea eb == .error
      || (Rel (.of (annotBin T0 .unionCol a b)) (T0.duckBin .unionCol ea eb) == (famUnion T0 a b).isNone))
      = true := by decide +kernel

/-- CASE / IF / COALESCE / GREATEST / LEAST / array elements with a NULL branch: the other branch's class on both sides; with
    NULL branches only: NULL (→ UNKNOWN) on both sides — complete over every typed other branch -/
theorem null_branches_agree :
    (([BinK.coalesce, .greatest, .least, .arrayElem].all fun k => Sm.typed.all fun a => (compat a).all fun ea =>
        (T0.duckBin k ea .null == .error || Rel (.of (annotBin T0 k a (.of .null))) (T0.duckBin k ea .null))
        && (T0.duckBin k .null ea == .error || Rel (.of (annotBin T0 k (.of .null) a)) (T0.duckBin k .null ea)))
     && (TernK.all.all fun k => Sm.typed.all fun a => (compat a).all fun ea =>
        (T0.duckTern k ea .null == .error || Rel (.of (annotTern T0 k (.of .boolean) a (.of .null))) (T0.duckTern k ea .null))
        && (T0.duckTern k .null ea == .error || Rel (.of (annotTern T0 k (.of .boolean) (.of .null) a)) (T0.duckTern k .null ea))))
      = true := by decide +kernel

/-- NULLIF(a, b) on the live table: agrees for every accepted typed operand pair (no family) -/
theorem nullif_exact :
    (Sm.typed.all fun a => Sm.typed.all fun b => (compat a).all fun ea => (compat b).all fun eb =>
      T0.duckBin .nullif ea eb == .error || Rel (.of (annotBin T0 .nullif a b)) (T0.duckBin .nullif ea eb)) = true := by
  decide +kernel

/-- GREATEST / LEAST / COALESCE over temporal classes: DATE with DATE, TIMESTAMP with TIMESTAMP and TIMESTAMP first with DATE
    agree; DATE first with a (TIMESTAMPNTZ) TIMESTAMP is the mixed-chain disagreement -/
theorem temporal_branches :
    ([BinK.greatest, .least, .coalesce].all fun k =>
      Rel (.of (annotBin T0 k (.of .date) (.of .date))) (T0.duckBin k .date .date)
      && Rel (.of (annotBin T0 k (.of .timestampntz) (.of .timestampntz))) (T0.duckBin k .timestamp .timestamp)
      && Rel (.of (annotBin T0 k (.of .timestampntz) (.of .date))) (T0.duckBin k .timestamp .date)
      && !(Rel (.of (annotBin T0 k (.of .date) (.of .timestampntz))) (T0.duckBin k .date .timestamp))) = true := by
  decide +kernel

/-- one-level containers carry the element class through: `{'k': x}.k`, `ARRAY_AGG(x)[1]`, `MAP(['k'], [x])['k']` are typed
    with x's type (complete over the 17 types); `[a, b][1:2][1]` and `UNNEST([a, b])` with the by-args coercion of a and b;
    `LIST_CONCAT([a], [b])[1]` with a's type (the first list wins) -/
theorem container_element_types :
    ((Ty.all.all fun t => [UnK.structField, .arrayAggElem, .mapElem].all fun k => annotUn T0 k (.of t) == t)
     && (Sm.all.all fun a => Sm.all.all fun b =>
          annotBin T0 .sliceElem a b == byArgs T0 [a, b] false && annotBin T0 .unnest2 a b == byArgs T0 [a, b] false
          && annotBin T0 .listConcatElem a b == byArgs T0 [a] false)) = true := by decide +kernel

/-- the container composites at depth 1: accepted ⇒ (agree ⇔ not a mixed-chain pair; for LIST_CONCAT: ⇔ the first list's
    class is not below the second's in DuckDB's cast order) — restrictions of `un_table_exact` / `bin_table_exact` -/
theorem container_classes_exact :
    (([UnK.structField, .arrayAggElem, .mapElem].all fun k => Sm.typed.all fun a => (compat a).all fun ea =>
        engUn T0 k ea == .error || Rel (.of (annotUn T0 k a)) (engUn T0 k ea))
     && ([BinK.sliceElem, .unnest2, .listConcatElem, .arrayElem].all fun k => Sm.typed.all fun a => Sm.typed.all fun b =>
          (compat a).all fun ea => (compat b).all fun eb =>
            T0.duckBin k ea eb == .error
            || (Rel (.of (annotBin T0 k a b)) (T0.duckBin k ea eb) == (famBin T0 k a b ea eb).isNone))) = true := by
  decide +kernel

/-- `LIST_CONCAT([t.i], [t.db])[1]`: INT (first list) vs DOUBLE -/
theorem list_concat_first_wins_witness :
    annotBin T0 .listConcatElem (.of .int) (.of .double) = .int ∧ T0.duckBin .listConcatElem .integer .double = .double := by
  decide +kernel

/-! ### columns: the schema's type, end to end -/

/-- a column qualified with the table takes the type the schema declares (UNKNOWN if the schema has no such column) -/
theorem column_takes_schema_type (S : Schema) (n : String) :
    annot T0 S (.col .this n) = (S.table.lookup n).getD .unknown := rfl

/-- annotate_types does not qualify: an unqualified column (or one qualified with something that is not a source) stays
    UNKNOWN although DuckDB resolves it — such references are outside `WF` -/
theorem unqualified_column_witness :
    annot T0 { table := [("i", .int)] } (.col .none "i") = .unknown ∧ eng T0 { table := [("i", .int)] } (.col .none "i") = .integer ∧
    WF T0 { table := [("i", .int)] } (.col .none "i") = false ∧ WF T0 { table := [("i", .int)] } (.col .this "i") = true := by decide +kernel

/-- the one-row table of the harness -/
def S0 : Schema :=
  { table := [("bo", .boolean), ("ti", .tinyint), ("si", .smallint), ("i", .int), ("bi", .bigint), ("db", .double),
              ("de", .decimalP), ("v", .text), ("da", .date), ("ts", .timestampntz)] }

def c (n : String) : TExpr := .col .this n

/-! ### scopes: columns that reach an expression through derived tables / CTEs -/

/-- a column of a derived table takes the type annotated on the child scope's projection of that name, and the engine's
    column type is the projection's (a projected string literal is a VARCHAR column) -/
theorem derived_column_takes_projection_type (S : Schema) (a n : String) (e : TExpr) (more : List (String × TExpr))
    (others : List (String × List (String × TExpr))) :
    annot T0 (deriveScope T0 S ((a, (n, e) :: more) :: others)) (.col (.derived a) n) = annot T0 S e ∧
    eng T0 (deriveScope T0 S ((a, (n, e) :: more) :: others)) (.col (.derived a) n) = resolveCol (eng T0 S e) := by
  simp [annot, sm, eng, annotCol, deriveScope, selectsOf, List.lookup, Sm.ty]

/-- `class_agrees` instantiated at a parent scope: expressions over the columns of derived tables whose projections were
    annotated in the child scope (`deriveScope` can be iterated for deeper nesting) -/
theorem class_agrees_through_derived (S : Schema) (ds : List (String × List (String × TExpr))) (e : TExpr)
    (h : WF T0 (deriveScope T0 S ds) e = true) :
    eclassOf (eng T0 (deriveScope T0 S ds) e) = some (classOf (annot T0 (deriveScope T0 S ds) e)) :=
  class_agrees _ e h

/-- non-vacuity, two levels: `SELECT s2.c + 1, COALESCE(s2.d, 1.5) FROM (SELECT s1.c AS c, s1.c * t.db AS d FROM
    (SELECT t.ti + t.bi AS c FROM t) AS s1) AS s2` -/
def lvl1 : Schema := deriveScope T0 S0 [("s1", [("c", .bin .add (.col .this "ti") (.col .this "bi"))])]
def lvl2 : Schema :=
  deriveScope T0 lvl1 [("s2", [("c", .col (.derived "s1") "c"), ("d", .bin .mul (.col (.derived "s1") "c") (.col .this "db"))])]
example :
    WF T0 lvl2 (.bin .add (.col (.derived "s2") "c") .intLit) = true ∧
    annot T0 lvl2 (.bin .add (.col (.derived "s2") "c") .intLit) = .bigint ∧
    WF T0 lvl2 (.bin .coalesce (.col (.derived "s2") "d") .decLit) = true ∧
    annot T0 lvl2 (.bin .coalesce (.col (.derived "s2") "d") .decLit) = .double ∧
    eng T0 lvl2 (.bin .coalesce (.col (.derived "s2") "d") .decLit) = .double := by decide +kernel

/-- the cache inventory read from the source: only known caches, and the scope-dependent one has the scope in its key -/
theorem cache_keys_ok : cachesOk SqlglotModel.Generated.C16.cacheInventory = true := by decide +kernel

/-- **the per-call cache is transparent**: with the key the source uses today, one `annotate_types` call over any number
    of scopes resolves every `alias.column` exactly as that scope's own sources say, however aliases and names recur -/
theorem scope_cache_transparent (qs : List (Schema × List (String × String))) :
    runScopes SqlglotModel.Generated.C16.scopeCacheKeyHasScope [] 0 qs = uncachedScopes qs := by
  have hk : SqlglotModel.Generated.C16.scopeCacheKeyHasScope = true := by decide +kernel
  rw [hk]
  exact runScopes_transparent qs [] 0 (by intro k v hm; cases hm)

/-- the seeded defect: with the source name alone as the key, the second scope's `s.c` gets the first scope's type
    (two sibling scopes, both with a derived table `s` projecting `c`: INT in one, DOUBLE in the other) -/
theorem name_only_cache_key_witness :
    let sInt : Schema := { table := [], derived := [("s", [("c", (.int, .integer))])] }
    let sDbl : Schema := { table := [], derived := [("s", [("c", (.double, .double))])] }
    runScopes false [] 0 [(sInt, [("s", "c")]), (sDbl, [("s", "c")])] = [[.int], [.int]] ∧
    uncachedScopes [(sInt, [("s", "c")]), (sDbl, [("s", "c")])] = [[.int], [.double]] ∧
    runScopes true [] 0 [(sInt, [("s", "c")]), (sDbl, [("s", "c")])] = [[.int], [.double]] := by decide +kernel

/-! ### wrappers keep the aggregate's type -/

/-- complete finite decision: by-args over one non-literal child returns the child's type -/
theorem byArgs_single (t : Ty) : byArgs T0 [.of t] false = t := by
  have h : (Ty.all.all fun t => byArgs T0 [.of t] false == t) = true := by decide +kernel
  simpa using List.all_eq_true.mp h t (Ty.mem_all t)

/-- `agg OVER ()` and `agg FILTER (WHERE c)` are annotated with exactly the aggregate's type, and the engine keeps its class -/
theorem wrapper_keeps_type (S : Schema) (k : UnK) (a : TExpr) :
    annot T0 S (.un .over (.un k a)) = annot T0 S (.un k a) ∧ annot T0 S (.un .filter (.un k a)) = annot T0 S (.un k a) ∧
    eng T0 S (.un .over (.un k a)) = resolveE (eng T0 S (.un k a)) ∧
    eng T0 S (.un .filter (.un k a)) = resolveE (eng T0 S (.un k a)) := by
  have hw : T0.md .window = .byArgs [true] false := by decide +kernel
  have hf : T0.md .filter = .byArgs [true] false := by decide +kernel
  refine ⟨?_, ?_, rfl, rfl⟩
  · simp only [annot, sm, Sm.ty, annotUn, unNode, annotNode, annotShape, isWinFn, hw, applyMask]
    exact byArgs_single _
  · simp only [annot, sm, Sm.ty, annotUn, unNode, annotNode, annotShape, isWinFn, hf, applyMask]
    exact byArgs_single _

/-! ### non-vacuity -/

def sample1 : TExpr :=
  .tern .caseWhen (.bin .lt (c "da") (.strLit .isoDate))
    (.bin .mul (.bin .add (c "ti") (c "bi")) .decLit)
    (.bin .div (.un .abs (c "de")) (.un (.cast .int) (c "v")))
def sample2 : TExpr :=
  .bin .coalesce (.un .over (.un .sum (c "si"))) (.un .length (.bin .dpipe (c "v") (c "i")))
def sample3 : TExpr := .bin .add (c "ts") (.interval true)
/-- `COALESCE(t.ti, NULL, t.bi, 1.5, t.db, 1)` and `CASE WHEN .. THEN 'abc' WHEN .. THEN t.v ELSE NULL END` -/
def sample4 : TExpr :=
  .nary .coalesce (.cons (c "ti") (.cons .nullLit (.cons (c "bi") (.cons .decLit (.cons (c "db") (.cons .intLit .nil))))))
def sample5 : TExpr := .nary .caseN (.cons (.strLit .other) (.cons (c "v") (.cons .nullLit .nil)))
def sample6 : TExpr := .un .filter (.un .max (.nary .greatest (.cons (c "da") (.cons (c "da") .nil))))

example : WF T0 S0 sample1 = true ∧ WF T0 S0 sample2 = true ∧ WF T0 S0 sample3 = true := by decide +kernel
example : WF T0 S0 sample4 = true ∧ WF T0 S0 sample5 = true ∧ WF T0 S0 sample6 = true := by decide +kernel
example : annot T0 S0 sample1 = .double ∧ eng T0 S0 sample1 = .double := by decide +kernel
example : annot T0 S0 sample2 = .bigint ∧ eng T0 S0 sample2 = .hugeint := by decide +kernel
example : annot T0 S0 sample4 = .double ∧ eng T0 S0 sample4 = .double := by decide +kernel
example : annot T0 S0 sample5 = .text ∧ eng T0 S0 sample5 = .text := by decide +kernel

/-- non-vacuity of the new forms: `(SELECT MAX(t.i) FROM t) BETWEEN TRY_CAST(t.v AS INT) AND 3000000000`,
    `LAG(t.db) OVER () + ROW_NUMBER() OVER ()`, `[t.ti, t.bi][1] IS DISTINCT FROM STDDEV(t.i)` -/
example :
    WF T0 S0 (.pred3 .between (.un .subq (.un .max (c "i"))) (.un (.tryCast .int) (c "v")) (.numLit .big)) = true ∧
    WF T0 S0 (.bin .add (.un .lag (c "db")) (.win0 .rowNumber)) = true ∧
    annot T0 S0 (.bin .add (.un .lag (c "db")) (.win0 .rowNumber)) = .double ∧
    WF T0 S0 (.bin .isDistinct (.bin .arrayElem (c "ti") (c "bi")) (.un .stddev (c "i"))) = true := by decide +kernel

/-! ### what the unchanged tree gets wrong: one kernel-decided witness per family (each is a known-finding entry) -/

/-- the tables with NULLIF typed from both arguments / from its first argument only, whatever the live table says -/
def T0nullifBoth : Tables := { T0 with md := fun c => if c = .nullif then .byArgs [true, true] false else T0.md c }
def T0nullifFirst : Tables := { T0 with md := fun c => if c = .nullif then .byArgs [true, false] false else T0.md c }

/-- `NULLIF(1, UPPER(v))`: coercing both arguments gives TEXT, DuckDB returns the first argument's type (INTEGER) -/
theorem nullif_witness :
    let e := TExpr.bin .nullif .intLit (.un .upper (c "v"))
    annot T0nullifBoth S0 e = .varchar ∧ eng T0nullifBoth S0 e = .integer ∧ annot T0nullifFirst S0 e = .int := by
  decide +kernel

/-- complete finite decision: typed from its first argument, NULLIF agrees with DuckDB for EVERY pair of typed operands the
    engine accepts -/
theorem nullif_first_arg_agrees :
    (Sm.typed.all fun a => Sm.typed.all fun b => (compat a).all fun ea => (compat b).all fun eb =>
      T0.duckBin .nullif ea eb == .error
      || Rel (.of (annotBin T0nullifFirst .nullif a b)) (T0.duckBin .nullif ea eb)) = true := by decide +kernel

/-- a witness: the annotated class and the engine's class of a concrete expression differ, and it is outside `WF` -/
def Disagrees (e : TExpr) : Bool :=
  eng T0 S0 e != .error && !(Rel (sm T0 S0 e) (eng T0 S0 e)) && !(WF T0 S0 e)

/-- `NULL + NULL`, `-NULL`, `SUM(NULL)`: UNKNOWN vs an integer overload -/
theorem null_only_arith_disagrees_witness :
    Disagrees (.bin .add .nullLit .nullLit) = true ∧ Disagrees (.un .neg .nullLit) = true ∧
    Disagrees (.un .sum .nullLit) = true := by decide +kernel
/-- `t.de + NULL`: DECIMAL vs the SQLNULL type -/
theorem decimal_null_arith_disagrees_witness : Disagrees (.bin .add (c "de") .nullLit) = true := by decide +kernel
/-- `'abc' + NULL`: VARCHAR vs BIGINT -/
theorem strlit_null_arith_disagrees_witness : Disagrees (.bin .add (.strLit .other) .nullLit) = true := by decide +kernel
/-- `t.v || NULL`: VARCHAR vs SQLNULL -/
theorem concat_null_disagrees_witness : Disagrees (.bin .dpipe (c "v") .nullLit) = true := by decide +kernel
/-- `t.da + INTERVAL 1 DAY`: DATE vs TIMESTAMP -/
theorem date_interval_disagrees_witness : Disagrees (.bin .add (c "da") (.interval true)) = true := by decide +kernel
/-- `t.da - t.da` (DATE vs BIGINT), `t.ts - t.ts` (TIMESTAMP vs INTERVAL) -/
theorem temporal_diff_disagrees_witness :
    Disagrees (.bin .sub (c "da") (c "da")) = true ∧ Disagrees (.bin .sub (c "ts") (c "ts")) = true := by decide +kernel
/-- `t.ti + t.da` (TINYINT vs DATE), `INTERVAL 1 DAY + t.ts`, `t.i * INTERVAL 1 DAY` -/
theorem mixed_chain_arith_disagrees_witness :
    Disagrees (.bin .add (c "ti") (c "da")) = true ∧ Disagrees (.bin .add (.interval true) (c "ts")) = true ∧
    Disagrees (.bin .mul (c "i") (.interval true)) = true := by decide +kernel
/-- `(t.ts - t.ts) - 'abc'`: UNKNOWN vs INTERVAL -/
theorem interval_minus_string_disagrees_witness :
    Disagrees (.bin .sub (.bin .sub (c "ts") (c "ts")) (.strLit .other)) = true := by decide +kernel
/-- `COALESCE(t.bo, t.si)`, `COALESCE(t.da, t.ts)`, `CASE WHEN .. THEN 'abc' ELSE 1 END`, `GREATEST(t.bo, t.ti)`, `LEAST(t.da, t.ts)` -/
theorem mixed_chain_branches_disagrees_witness :
    Disagrees (.bin .coalesce (c "bo") (c "si")) = true ∧ Disagrees (.bin .coalesce (c "da") (c "ts")) = true ∧
    Disagrees (.tern .caseWhen (c "bo") (.strLit .other) .intLit) = true ∧
    Disagrees (.bin .greatest (c "bo") (c "ti")) = true ∧ Disagrees (.bin .least (c "da") (c "ts")) = true := by decide +kernel
/-- `SUM(t.bo)`: BOOLEAN vs HUGEINT -/
theorem sum_boolean_disagrees_witness : Disagrees (.un .sum (c "bo")) = true := by decide +kernel
/-- `AVG(t.da)`: DOUBLE vs TIMESTAMP -/
theorem avg_temporal_disagrees_witness : Disagrees (.un .avg (c "da")) = true := by decide +kernel
/-- `CEIL(t.db)` / `FLOOR(t.ti)`: INT vs DOUBLE -/
theorem ceil_floor_disagrees_witness :
    Disagrees (.un .ceil (c "db")) = true ∧ Disagrees (.un .floor (c "ti")) = true := by decide +kernel
/-- `ROUND(t.ti)`: DOUBLE vs TINYINT -/
theorem round_disagrees_witness : Disagrees (.un .round (c "ti")) = true := by decide +kernel
/-- `CORR(t.ti, t.ti)`: TINYINT vs DOUBLE -/
theorem corr_disagrees_witness : Disagrees (.bin .corr (c "ti") (c "ti")) = true := by decide +kernel

/-- why `stepOk` looks at both accumulators: `COALESCE('abc', t.i, 1.5)` keeps INT (the literal accumulator stays VARCHAR,
    the non-literal one wins) while DuckDB gives DECIMAL, although `COALESCE('abc', t.i)` and `COALESCE(t.i, 1.5)` both agree -/
theorem nary_accumulators_disagree_witness :
    let e := TExpr.nary .coalesce (.cons (.strLit .other) (.cons (c "i") (.cons .decLit .nil)))
    annot T0 S0 e = .int ∧ eng T0 S0 e = .decimal ∧ WF T0 S0 e = false ∧
    WF T0 S0 (.nary .coalesce (.cons (.strLit .other) (.cons (c "i") .nil))) = true ∧
    WF T0 S0 (.nary .coalesce (.cons (c "i") (.cons .decLit .nil))) = true := by decide +kernel

end SqlglotModel.Properties.C16
