/-
  C08 — Syntax trees stay structurally consistent under any sequence of edits.
  Only property theorems, non-vacuity examples and witnesses live here (model: Model/Tree.lean, lemmas: Proofs/Tree.lean).

  Modelled: `Expression.set` (every index branch, incl. the removal `set(k, None, i)` with its sibling renumbering and the
  negative-index variant), `append`, `replace`, `pop`, `_set_parent`, the invalidation loop with its early exit,
  `__hash__` / `__eq__`, construction, the iterative `__deepcopy__` / `copy()`, `transform(fun, copy)` and
  `replace_children` (parametric in the user function), the simplifier's pointer repair loop.
  The invariant `Inv` is over the WHOLE heap (attached trees, detached sub-trees and garbage alike) in local form; the API
  precondition `Adm` is that an inserted node is not currently stored anywhere (fresh, copied or popped — what the
  builders guarantee with copy=True), that a node being replaced is attached where its own pointers say, and that a copy
  goes into unused cells.  All theorems are partial-correctness statements ("if the operation returns a heap"): `none`
  covers fuel exhaustion, Python exceptions and the one unmodelled path.
  NOT modelled here: the optimizer rules, builders, `comments / _type / _meta`; the "replace a node by its own descendant"
  idiom is outside `Adm` (witness `replace_by_own_child_leaves_husk`) — covered by the root-relative invariant checker on
  the real code only.
-/
import SqlglotModel.Proofs.TreeRun
import SqlglotModel.Proofs.TreeNorm
import SqlglotModel.Proofs.TreeWalk
import SqlglotModel.Proofs.TreeRepair
import SqlglotModel.Proofs.TreeOrder
import SqlglotModel.Proofs.TreeIter
import SqlglotModel.Generated.C08

namespace SqlglotModel.Properties.C08
open SqlglotModel.Tree

variable {H : Type}

/-- the empty heap satisfies the invariant -/
theorem inv_init (F : HashFns H) : Inv F (empty : Heap H) := inv_empty F

/-- `cls()` on an unused id -/
theorem inv_new (F : HashFns H) (h : Heap H) (id : Id) (cls : String) (raw : Bool) (hI : Inv F h)
    (hf : Fresh h id) : Inv F (opNew h id cls raw) := inv_opNew F hI hf

/-- `self.set(k, v, index, overwrite)` — all branches, including the early returns after the invalidation -/
theorem inv_set (F : HashFns H) (fuel : Nat) (h h' : Heap H) (self : Id) (k : String) (v : Value)
    (idx : Option Nat) (ow : Bool) (hI : Inv F h) (hv : ValueOk h v)
    (he : opSet fuel h self k v idx ow = some h') : Inv F h' := inv_opSet F hI hv he

theorem inv_append (F : HashFns H) (fuel : Nat) (h h' : Heap H) (self : Id) (k : String) (it : Item)
    (hI : Inv F h) (hv : ItemOk h it) (he : opAppend fuel h self k it = some h') : Inv F h' :=
  inv_opAppend F hI hv he

theorem inv_replace (F : HashFns H) (fuel : Nat) (h h' : Heap H) (self : Id) (v : Value) (hI : Inv F h)
    (hv : ValueOk h v) (hat : Attached h self) (he : opReplace fuel h self v = some h') : Inv F h' :=
  inv_opReplace F hI hv hat he

theorem inv_pop (F : HashFns H) (fuel : Nat) (h h' : Heap H) (self : Id) (hI : Inv F h)
    (hat : Attached h self) (he : opPop fuel h self = some h') : Inv F h' := inv_opPop F hI hat he

/-- `hash(n)`: the bottom-up cache fill keeps the invariant, changes nothing but `_hash` fields, and caches `n` -/
theorem inv_hash (F : HashFns H) (fuel : Nat) (h h' : Heap H) (n : Id) (hI : Inv F h)
    (he : fill F fuel h n = some h') : Inv F h' ∧ HashOnly h h' ∧ ((h' n).hash).isSome := inv_fill F hI he

theorem inv_eq [DecidableEq H] (F : HashFns H) (fuel : Nat) (h h' : Heap H) (a b : Id) (r : Bool) (hI : Inv F h)
    (he : opEq F fuel h a b = some (h', r)) : Inv F h' ∧ HashOnly h h' := inv_opEq F hI he

/-- every admissible operation history, of any length, from any state satisfying the invariant -/
theorem inv_reachable [DecidableEq H] (F : HashFns H) (fuel : Nat) (ops : List Op) (h h' : Heap H) (hI : Inv F h)
    (ha : AdmRun F fuel h ops) (he : run F fuel h ops = some h') : Inv F h' := inv_run F ops hI ha he

/-- … in particular from the empty heap -/
theorem inv_reachable_from_empty [DecidableEq H] (F : HashFns H) (fuel : Nat) (ops : List Op) (h' : Heap H)
    (ha : AdmRun F fuel empty ops) (he : run F fuel empty ops = some h') : Inv F h' :=
  inv_run F ops (inv_empty F) ha he

/-- `copy()` — the iterative `__deepcopy__` — keeps the invariant: in particular the `_hash` values it carries over to the
    copies are the hashes of the copies (sound because exactly the nodes on which the loop performs no `set`/`append`
    keep them, and those have identical scalar args); the copy lives in the cells from `base` on, which stay unused
    above the returned counter. -/
theorem inv_copy (F : HashFns H) (fuel : Nat) (h h' : Heap H) (n c : Id) (base nx : Nat) (hI : Inv F h)
    (hf : FreshFrom h base) (hn : base > n) (he : opDeepcopy fuel h n base = some (h', nx, c)) :
    Inv F h' ∧ FreshFrom h' nx :=
  let r := deepcopy_spec hI hf hn he
  ⟨r.1, r.2.1⟩

/-- `transform(fun, copy=False)`, for any user function whose calls keep the invariant and hand back either the node
    itself or an unattached node / list (`TransformAdm`, stated along the run) -/
theorem inv_transform (F : HashFns H) (fuel : Nat) (fn : UserFun H) (h h' : Heap H) (nx nx' : Nat) (root : Id)
    (r : Value) (hI : Inv F h) (ha : TransformAdm F fuel fn h nx root)
    (he : opTransform fuel fn h nx root = some (h', nx', r)) : Inv F h' := inv_opTransform F hI ha he

/-- `replace_children(self, fun)`: every user-function call keeps the invariant, and what is written back over each
    argument consists of unattached nodes or of nodes already living in that argument, without repetition (`RcAdm`) -/
theorem inv_replace_children (F : HashFns H) (fuel : Nat) (fn : UserFun H) (self : Id) (h h' : Heap H) (nx nx' : Nat)
    (hI : Inv F h) (ha : RcAdm F fuel fn self h nx (h self).args)
    (he : opReplaceChildren fuel fn h nx self = some (h', nx')) : Inv F h' := inv_opReplaceChildren F hI ha he

/-- the simplifier's manual pointer repair (`for k, v in tuple(original.args.items()): … original._set_parent(k, v)`):
    from a state where only the back pointers of `self`'s own children may be stale, it restores the whole invariant,
    and dropping `None` args without invalidating any hash is sound -/
theorem inv_simplify_repair (F : HashFns H) (h : Heap H) (self : Id)
    (hl : ∀ p k i c, p ≠ self → Stored h p k i c → ptrs (h c) = (some p, some k, i))
    (hown : ∀ k i c, Stored h self k i c → ∀ p k' i', Stored h p k' i' c → p = self ∧ k' = k ∧ i' = i)
    (hc : Cache F h) (hk : Keys h) : Inv F (simplifyRepair h self) := inv_simplifyRepair F hl hown hc hk

/-- no node is stored in two places -/
theorem no_node_stored_twice (F : HashFns H) (h : Heap H) (hI : Inv F h) (p p' : Id) (k k' : String)
    (i i' : Option Nat) (c : Id) (h1 : Stored h p k i c) (h2 : Stored h p' k' i' c) : p = p' ∧ k = k' ∧ i = i' :=
  no_sharing hI.links h1 h2

/-- a child records exactly the parent, arg key and index under which it is stored -/
theorem child_records_its_slot (F : HashFns H) (h : Heap H) (hI : Inv F h) (p : Id) (k : String) (i : Option Nat)
    (c : Id) (hs : Stored h p k i c) : (h c).parent = some p ∧ (h c).argKey = some k ∧ (h c).index = i := by
  have := hI.links p k i c hs
  simpa [ptrs] using this

/-- the closure clause: an uncached child has an uncached parent (why the invalidation loop may stop early) -/
theorem uncached_child_uncached_parent (F : HashFns H) (h : Heap H) (hI : Inv F h) (p : Id) (k : String)
    (i : Option Nat) (c : Id) (hs : Stored h p k i c) (hn : (h c).hash = none) : (h p).hash = none :=
  closure F hI hs hn

/-- the cached hash of every node equals the hash recomputed from scratch (ignoring all caches) -/
theorem cached_hash_is_recomputed (F : HashFns H) (h : Heap H) (hI : Inv F h) (fuel : Nat) (n : Id) (x y : H)
    (hx : (h n).hash = some x) (hr : recompute F fuel h n = some y) : x = y := cache_eq_recompute F hI fuel n x y hx hr

/-- `a == b` (for distinct nodes of the same class) holds exactly when the from-scratch hashes of the two
    normalised structures agree; with a collision-free hash (A-hash; `freeHash` below is one) that is structural
    equality modulo the documented normalisation (dropped None/False args, lower-cased strings). -/
theorem eq_iff_recomputed [DecidableEq H] (F : HashFns H) (fuel fuel' : Nat) (h h' : Heap H) (a b : Id) (r : Bool)
    (xa xb : H) (hI : Inv F h) (hab : a ≠ b) (hcls : (h a).cls = (h b).cls)
    (he : opEq F fuel h a b = some (h', r))
    (ra : recompute F fuel' h a = some xa) (rb : recompute F fuel' h b = some xb) : (r = true ↔ xa = xb) := by
  unfold opEq at he
  simp only [hab, if_false, hcls, ne_eq, not_true_eq_false] at he
  split at he
  · cases he
  · next h1 e1 =>
    split at he
    · cases he
    · next h2 e2 =>
      simp only [Option.some.injEq, Prod.mk.injEq] at he
      obtain ⟨e, hr⟩ := he; subst e
      obtain ⟨i1, o1, s1⟩ := inv_fill F hI e1
      obtain ⟨i2, o2, s2⟩ := inv_fill F i1 e2
      have ho := o1.trans o2
      have sa : ((h2 a).hash).isSome := by
        cases hx : (h1 a).hash with
        | none => rw [hx] at s1; cases s1
        | some x => rw [(fill_spec F fuel h1 b h2 e2 i1).2.2.1 a x hx]; rfl
      cases hya : (h2 a).hash with
      | none => rw [hya] at sa; cases sa
      | some ya =>
        cases hyb : (h2 b).hash with
        | none => rw [hyb] at s2; cases s2
        | some yb =>
          have e1' := cache_eq_recompute F i2 fuel' a ya xa hya (by rw [recompute_hashOnly F ho]; exact ra)
          have e2' := cache_eq_recompute F i2 fuel' b yb xb hyb (by rw [recompute_hashOnly F ho]; exact rb)
          subst e1'; subst e2'
          rw [← hr, hya, hyb]
          simp

/-- A-hash: the hash algebra is collision-free on normal forms -/
def CollisionFree (F : HashFns H) : Prop := ∀ s t : Norm, HT.eval F s = HT.eval F t → s = t

/-- "Two trees compare equal exactly when they have the same structure and leaf values": for distinct nodes of the same
    class, `a == b` holds iff their explicit normal forms `absNorm` (sorted keys; None/False args dropped, strings
    lower-cased, list elements in order with None/False holding their position; raw-arg classes keep truthy values
    verbatim) are identical — under A-hash (`CollisionFree F`). Caches in any state, as long as `Inv` holds. -/
theorem eq_iff_structure [DecidableEq H] (F : HashFns H) (hF : CollisionFree F) (fuel fuel' : Nat) (h h' : Heap H)
    (a b : Id) (r : Bool) (na nb : Norm) (hI : Inv F h) (hab : a ≠ b) (hcls : (h a).cls = (h b).cls)
    (he : opEq F fuel h a b = some (h', r))
    (ha : absNorm F.lower fuel' h a = some na) (hb : absNorm F.lower fuel' h b = some nb) :
    (r = true ↔ na = nb) := by
  have ra : recompute F fuel' h a = some (HT.eval F na) := by rw [recompute_eval, ha]; rfl
  have rb : recompute F fuel' h b = some (HT.eval F nb) := by rw [recompute_eval, hb]; rfl
  rw [eq_iff_recomputed F fuel fuel' h h' a b r _ _ hI hab hcls he ra rb]
  exact ⟨hF na nb, fun e => by rw [e]⟩

/-- the free term algebra interprets every normal form as itself, so it is collision-free (A-hash is satisfiable) -/
theorem freeHash_eval (t : Norm) : HT.eval freeHash t = t := by
  induction t with
  | init c => rfl
  | mixS t k s ih => show HT.mixS (HT.eval freeHash t) k s = HT.mixS t k s; rw [ih]
  | mixH t k x ih1 ih2 => show HT.mixH (HT.eval freeHash t) k (HT.eval freeHash x) = HT.mixH t k x; rw [ih1, ih2]
  | mixK t k ih => show HT.mixK (HT.eval freeHash t) k = HT.mixK t k; rw [ih]

example : CollisionFree freeHash := fun s t e => by rwa [freeHash_eval, freeHash_eval] at e

/-- nodes of different classes are never equal, and no cache is touched -/
theorem eq_different_class [DecidableEq H] (F : HashFns H) (fuel : Nat) (h : Heap H) (a b : Id) (hab : a ≠ b)
    (hcls : (h a).cls ≠ (h b).cls) : opEq F fuel h a b = some (h, false) := by
  simp [opEq, hab, hcls]

/-- A-hash is satisfiable: the free term algebra is a collision-free hash -/
theorem freeHash_collision_free :
    (∀ a b, freeHash.init a = freeHash.init b → a = b) ∧
    (∀ h k s h' k' s', freeHash.mixS h k s = freeHash.mixS h' k' s' → h = h' ∧ k = k' ∧ s = s') ∧
    (∀ h k x h' k' x', freeHash.mixH h k x = freeHash.mixH h' k' x' → h = h' ∧ k = k' ∧ x = x') ∧
    (∀ h k h' k', freeHash.mixK h k = freeHash.mixK h' k' → h = h' ∧ k = k') := by
  refine ⟨?_, ?_, ?_, ?_⟩ <;> intros <;> simp_all [freeHash]

/-- structural facts re-extracted from sqlglot/expressions/core.py on every run (ast): `set` and `append` start with
    the invalidation loop that walks up the parents, `replace` clears the three back pointers of the replaced node,
    `__eq__` is type identity + hash equality — the shapes the model mirrors. A change breaks this build. -/
theorem generated_structure_ok :
    SqlglotModel.Generated.C08.setInvalidatesUpParents = true ∧
    SqlglotModel.Generated.C08.appendInvalidatesUpParents = true ∧
    SqlglotModel.Generated.C08.replaceClearsPointers = true ∧
    SqlglotModel.Generated.C08.eqIsHashEquality = true ∧
    SqlglotModel.Generated.C08.transformWalkShape = true ∧
    SqlglotModel.Generated.C08.deepcopyLoopShape = true ∧
    SqlglotModel.Generated.C08.replaceChildrenShape = true ∧
    SqlglotModel.Generated.C08.simplifyRepairShape = true ∧
    SqlglotModel.Generated.C08.hashIteratesSortedKeys = true ∧
    SqlglotModel.Generated.C08.iteratorShapes = true ∧
    SqlglotModel.Generated.C08.rawClasses = ["identifier", "literal"] := by decide +kernel

/-- `Expr.__init__` skips `_set_parent` for `is_primitive` classes (the model's `cls()` + `set` does not have that
    shortcut). The shortcut is sound only while no primitive class has a child-valued argument: every argument of every
    primitive class, re-extracted from the live classes on every run, is one of the known scalar payload args. A class
    gaining `is_primitive = True` with another argument (e.g. a child expression) breaks this build. -/
theorem primitive_classes_scalar_only :
    SqlglotModel.Generated.C08.primitiveClasses.all (fun e => e.2.all (fun a =>
      ["this", "quoted", "global_", "temporary", "is_string", "is_bytes", "is_integer"].contains a)) = true := by
  decide +kernel

/-! ### non-vacuity: a concrete admissible history (And(this=Column, expression=Literal); hash; edit the grandchild) -/

def demoOps : List Op :=
  [.new 0 "and" false, .new 1 "column" false, .new 2 "identifier" true, .new 3 "literal" true,
   .set 2 "this" (.leaf (.str "x")) none true, .set 1 "this" (.node 2) none true,
   .set 0 "this" (.node 1) none true, .set 0 "expression" (.node 3) none true, .hash 0,
   .set 2 "this" (.leaf (.str "y")) none true, .eq 0 1, .pop 1]

/-- the history runs to completion in the model -/
example : (run freeHash 8 empty demoOps).isSome = true := by decide +kernel

/-- after `hash(root)` then editing the grandchild, the root's cache has been evicted (`_hash is None`) -/
example : ((run freeHash 8 empty (demoOps.take 10)).map (fun h => (h 0).hash.isNone)) = some true := by
  decide +kernel

/-- witness for the closure clause: in a state where a cached parent sits above an UNcached child (links fine),
    `set` on the child stops at once and the parent keeps a stale hash — so `Inv` cannot drop the clause. -/
def staleHeap : Heap HT :=
  setHash (setArgs (setPtr (opNew (opNew empty 0 "not" false) 1 "identifier" true) 1 (some 0) (some "this") none)
    0 [("this", .one 1)]) 0 (some (.init "stale"))

theorem closure_needed :
    ((opSet 4 staleHeap 1 "this" (.leaf (.str "z")) none true).map (fun h => (h 0).hash)) =
      some (some (HT.init "stale")) := by decide +kernel

/-- non-vacuity of `inv_transform` / `inv_replace_children` / `inv_copy`: the runs exist in the model (the driver's user
    functions on the demo tree) -/
example : ((run freeHash 8 empty (demoOps.take 9)).bind (fun h => opTransform 8 (builtinFun 8 "wrap") h 4 0)).isSome = true := by
  decide +kernel
example : ((run freeHash 8 empty (demoOps.take 9)).bind (fun h => opReplaceChildren 8 (builtinFun 8 "lit") h 4 0)).isSome = true := by
  decide +kernel
example : ((run freeHash 8 empty (demoOps.take 9)).bind (fun h => opDeepcopy 8 h 0 4)).map (fun r => (r.2.1, r.2.2)) =
    some (8, 4) := by decide +kernel

/-! ### negative list indexes: `set(k, None, index=-j)`

  `Expression.set` accepts a negative `index` (`seq_get` and `list.pop` do), but its renumbering loop
  `for v in expressions[index:]` then visits the last `j` elements of the shortened list. Witness on
  `Select(expressions=[c1, c2, c3])` with `index=-1`: `c3` is removed and `c2`, still stored at position 1, is renumbered
  to 0 — `Inv.links` is broken by one public call (known finding `C08-set-none-negative-index`). With the index
  normalised first (`index += len(expressions)`, the proposed repair) the call is an ordinary `set(k, None, i)`. -/

def negDemo : List Op :=
  [.new 0 "select" false, .new 1 "column" false, .new 2 "column" false, .new 3 "column" false,
   .set 0 "expressions" (.list [.node 1, .node 2, .node 3]) none true]

theorem negative_index_breaks_links :
    ((run freeHash 8 empty negDemo).bind (fun h => opSetNoneNeg 8 h 0 "expressions" 1 false)).map
      (fun h => (getKey "expressions" (h 0).args, (h 2).index)) =
      some (some (.many [.node 1, .node 2]), some 0) := by decide +kernel

/-- the same call on the repaired code keeps position and index together -/
theorem negative_index_normalised_witness :
    ((run freeHash 8 empty negDemo).bind (fun h => opSetNoneNeg 8 h 0 "expressions" 1 true)).map
      (fun h => (getKey "expressions" (h 0).args, (h 2).index)) =
      some (some (.many [.node 1, .node 2]), some 1) := by decide +kernel

/-- with the index normalised first, a negative index preserves the invariant (it is `inv_set`) -/
theorem negative_index_normalised_ok (F : HashFns H) (fuel : Nat) (h h' : Heap H) (self : Id) (k : String)
    (back : Nat) (hI : Inv F h) (he : opSetNoneNeg fuel h self k back true = some h') : Inv F h' := by
  unfold opSetNoneNeg at he
  split at he
  · next h1 hinv =>
    obtain ⟨hI1, _, hn⟩ := inval_inv F hI hinv
    unfold setNoneNegCore at he
    split at he
    · split at he
      · simp only [Option.some.injEq] at he; subst he; exact hI1
      · simp only [if_true] at he
        exact inv_setCore F hI1 hn (by trivial) he
    · simp only [Option.some.injEq] at he; subst he; exact hI1
    · split at he
      · cases he
      · simp only [Option.some.injEq] at he; subst he; exact hI1
    · cases he
  · cases he

/-! ### the "replace a node by its own child" idiom (`paren.replace(paren.this)`)

  It is outside `Adm` (the value is still stored — under the node being replaced). Witness: on `Not(this=Paren(this=Lit))`
  the call leaves the LIVE tree consistent (`Not.this = Lit`, `Lit.parent = Not`) while the replaced-out `Paren` husk still
  holds `Lit` in its args: the whole-heap `Links` fails at the husk only. So `Inv` as stated (whole heap) cannot cover the
  idiom; on the real code it is covered by the root-relative invariant checker of the search stage. -/

def huskDemo : List Op :=
  [.new 0 "paren" false, .new 1 "literal" true, .new 2 "not" false, .set 1 "this" (.leaf (.str "1")) none true,
   .set 0 "this" (.node 1) none true, .set 2 "this" (.node 0) none true]

theorem replace_by_own_child_leaves_husk :
    ((run freeHash 8 empty huskDemo).bind (fun h => opReplace 8 h 0 (.node 1))).map
      (fun h => (getKey "this" (h 2).args, (h 1).parent, (h 1).argKey, getKey "this" (h 0).args, (h 0).parent)) =
      some (some (.one 1), some 2, some "this", some (.one 1), none) := by decide +kernel

/-- `opReplaceRec` extends `opReplace` (it agrees wherever `opReplace` returns a heap) -/
theorem replaceRec_extends_replace (f : Nat) (h h' : Heap H) (self : Id) (v : Value)
    (he : opReplace (f + 1) h self v = some h') : opReplaceRec (f + 1) h self v = some h' := by
  simp only [opReplace] at he
  simp only [opReplaceRec]
  cases hp : (h self).parent with
  | none => simpa [hp] using he
  | some p =>
    simp only [hp] at he ⊢
    by_cases hv : v = .node p
    · simpa [hv] using he
    · simp only [hv, if_false] at he ⊢
      cases hk : (h self).argKey with
      | none => simpa [hk] using he
      | some k =>
        simp only [hk] at he ⊢
        by_cases hb : (isListValue v && isOne (getKey k (h p).args)) = true
        · simp [hb] at he
        · simpa [hb] using he

/-- `replace(list)` on a node that sits in a SCALAR slot replaces the node's parent instead and then clears the node's own
    pointers — while the replaced-out parent still holds it. Witness: `Tuple([Paren(this=Lit)])`, `Lit.replace([])`:
    the live tree is consistent (`Tuple.expressions = []`), the `Paren` husk still stores `Lit`, whose `parent` is now
    `None`: the whole-heap `Links` fails at the husk (exactly as for replace-by-own-child). This is why the branch is
    outside the theorems (`opReplace` returns `none` there, `Adm` is about `opReplace`); the model function
    `opReplaceRec` mirrors it and is tied by correspondence; on the real code the root-relative checker covers it. -/
def huskDemo2 : List Op :=
  [.new 0 "tuple" false, .new 1 "paren" false, .new 2 "literal" true, .set 2 "this" (.leaf (.str "1")) none true,
   .set 1 "this" (.node 2) none true, .set 0 "expressions" (.list [.node 1]) none true]

theorem replace_list_in_scalar_slot_leaves_husk :
    ((run freeHash 8 empty huskDemo2).bind (fun h => opReplaceRec 8 h 2 (.list []))).map
      (fun h => (getKey "expressions" (h 0).args, getKey "this" (h 1).args, (h 2).parent, (h 1).parent)) =
      some (some (.many []), some (.one 2), none, none) := by decide +kernel

/-! ### `__hash__` / `==` do not depend on the insertion order of `args` -/

/-- two nodes of the same class whose `args` dicts hold the same entries in ANY order (a permutation of the association
    list) hash alike — because `__hash__` iterates `sorted(node.args)` -/
theorem hash_insertion_order_independent (F : HashFns H) (nd nd' : Node H) (ch : Id → Option H)
    (hc : nd'.cls = nd.cls) (hr : nd'.raw = nd.raw) (hp : nd.args.Perm nd'.args) (hu : KeysUnique nd.args) :
    hashNode F nd' ch = hashNode F nd ch := hashNode_perm F nd nd' ch hc hr hp hu

/-- witness: iterating the dict in insertion order instead (no `sorted`) makes the hash of a raw-args leaf depend on the
    order in which its two args were set -/
def litA : Node HT :=
  { cls := "literal", raw := true, args := [("this", .leaf (.str "1")), ("is_string", .leaf (.bool true))],
    parent := none, argKey := none, index := none, hash := none }
def litB : Node HT :=
  { cls := "literal", raw := true, args := [("is_string", .leaf (.bool true)), ("this", .leaf (.str "1"))],
    parent := none, argKey := none, index := none, hash := none }

theorem unsorted_hash_depends_on_insertion_order :
    hashNodeUnsorted freeHash litA (fun _ => none) ≠ hashNodeUnsorted freeHash litB (fun _ => none) ∧
    hashNode freeHash litA (fun _ => none) = hashNode freeHash litB (fun _ => none) := by decide +kernel

/-! ### iterators and finders the optimizer relies on -/

/-- `dfs` / `bfs` / `walk` with `prune` enumerate EXACTLY the nodes reachable from the start node through non-pruned
    nodes (soundness and completeness as sets; that each node is yielded once additionally needs the no-sharing clause
    and is checked by correspondence, not proved) -/
theorem walk_enumerates_reachable (bfs : Bool) (prune : Id → Bool) (h : Heap H) (fuel : Nat) (root : Id) (res : List Id)
    (he : opWalk bfs prune fuel h root = some res) (x : Id) : x ∈ res ↔ ReachP h prune root x := walk_exact he x

/-- `find_all(types)` yields exactly the reachable nodes of the wanted classes -/
theorem find_all_exact (bfs : Bool) (P : String → Bool) (h : Heap H) (fuel : Nat) (root : Id) (res : List Id)
    (he : opFindAll bfs P fuel h root = some res) (x : Id) :
    x ∈ res ↔ ReachP h (fun _ => false) root x ∧ P (h x).cls = true := findAll_exact he x

/-- `find_ancestor(types)` returns the NEAREST ancestor of a wanted class on the parent chain (or None) -/
theorem find_ancestor_nearest (P : String → Bool) (f : Nat) (h : Heap H) (n : Id) (anc : List Id)
    (ha : ancestors f h n = some anc) : opFindAncestor P f h n = some (anc.find? (fun a => P (h a).cls)) :=
  findAncestor_nearest P f h n anc ha

/-- `root()` is the end of the parent chain and has no parent; `depth` is the length of the parent chain -/
theorem root_and_depth (f : Nat) (h : Heap H) (n : Id) (anc : List Id) (ha : ancestors f h n = some anc) :
    (∃ r, rootOf f h n = some r ∧ (h r).parent = none ∧ r = (n :: anc).getLast (by simp)) ∧
    depthOf f h n = some anc.length := ⟨root_spec f h n anc ha, depth_eq_length f h n anc ha⟩

/-- under the invariant, the parent pointer followed by `root` / `depth` / `find_ancestor` from a stored node IS its
    storage parent: the chain they climb is the chain of slots the node is stored under -/
theorem parent_chain_is_storage_chain (F : HashFns H) (h : Heap H) (hI : Inv F h) (p c : Id) (k : String)
    (i : Option Nat) (hs : Stored h p k i c) : (h c).parent = some p := parent_is_storage_parent F hI hs

/-- `unnest()` never returns a `Paren` -/
theorem unnest_strips_parens (f : Nat) (h : Heap H) (n r : Id) (he : unnestOf f h n = some (some r)) :
    (h r).cls ≠ "paren" := unnest_not_paren f h n r he

/-- the "move instead of copy" discipline of the optimizer rules: a node that was installed in a tree must not afterwards be
    handed to a `copy=False` builder (the builder would re-parent it under a throwaway wrapper: stale links). A conservative
    syntactic scan (ast, every run) lists each function in which one variable is both installed (`replace` / `set` /
    `append`) and moved (`…(var, copy=False)`) later or inside the same loop, with the exact installing expression. The two
    reviewed sites: `_merge_expressions` moves the expression only on the LAST reference (`if i < last`), `_expand_using`
    builds a fresh replacement per iteration. Any new site, or a change of an installing expression, breaks this build. -/
theorem optimizer_moves_reviewed :
    SqlglotModel.Generated.C08.optimizerPlaceThenMove =
      ["merge_subqueries.py:_merge_expressions:expression | placed: column.replace(expression.copy() if i < last else expression) | moved: exp.paren(expression, copy=False)",
       "qualify_columns.py:_expand_using:replacement | placed: scope.replace(column, replacement) | moved: alias(replacement, alias=column.name, copy=False)"] := by
  decide +kernel

end SqlglotModel.Properties.C08
