/-
  C11 — The Python executor returns what a reference SQL engine returns (modelled fragment: the algorithmic core).
  Only property theorems, non-vacuity examples and witnesses live here; lemmas are in Proofs/Exec.lean.
  Every theorem is about the configuration `Generated.C11.cfg` that vf/props/c11.py re-extracts from
  sqlglot/executor/env.py and python.py on every run (`generated_cfg_ok` ties it to the proved one).
  Partial: the planner / executor composition is modelled and proved only for the single-table fragment
  (`single_table_query_spec`); joins, set operations, subqueries as plans, PythonGenerator beyond the predicate
  fragment, Context and optimize() are checked end-to-end against SQLite and DuckDB by the search oracle only.
-/
import SqlglotModel.Proofs.ExecPlan
import SqlglotModel.Generated.C11

namespace SqlglotModel.Properties.C11
open SqlglotModel.Sem SqlglotModel.Exec
open SqlglotModel.Generated.C11 (cfg envIdentity widenForm subqueryEnv subqCmpWrapped subqueryArgs)

/-- finite table fact (decided completely): the constants, index offsets, side sets, empty_null flags and operator
    lambdas extracted from the current source are the ones the theorems below are proved for -/
theorem generated_cfg_ok : cfg = stdCfg := by decide +kernel

/-- finite table fact: ENV binds AND/OR/NOT/IN/ORDERED/SUM/MIN/MAX/COUNT to the mirrored functions -/
theorem generated_env_identity_ok :
    envIdentity = [("AND", "sql_and"), ("COUNT", "count_lambda"), ("IN", "sql_in"), ("MAX", "max"), ("MIN", "min"),
      ("NOT", "sql_not"), ("OR", "sql_or"), ("ORDERED", "ordered"), ("SUM", "sum")] := by decide +kernel

/-- finite decision table (all 9 + 3 entries, decided completely): on None/True/False sql_and, sql_or, sql_not
    are Kleene's connectives -/
theorem and_or_not_kleene_table :
    (∀ x y : Tri, sqlAnd (triVal x) (triVal y) = triVal (and3 x y) ∧ sqlOr (triVal x) (triVal y) = triVal (or3 x y))
    ∧ (∀ x : Tri, sqlNot (triVal x) = triVal (not3 x)) := by
  constructor
  · apply tri_cases; decide
  · intro x
    cases x with
    | none => rfl
    | some b => cases b <;> rfl

/-- for ALL Python values (any int / str / bool / None operands): sql_and / sql_or / sql_not / sql_in compute the
    Kleene connectives of the operands' truth values, and IN is the disjunction of equalities -/
theorem and_or_not_in_kleene (a b : Val) (cs : List Val) (hcs : cs ≠ []) :
    toTri (sqlAnd a b) = and3 (toTri a) (toTri b)
    ∧ toTri (sqlOr a b) = or3 (toTri a) (toTri b)
    ∧ toTri (sqlNot a) = not3 (toTri a)
    ∧ toTri (sqlIn a cs) = in3 a cs :=
  ⟨sqlAnd_spec a b, sqlOr_spec a b, sqlNot_spec a, sqlIn_spec a cs hcs⟩

example : toTri (sqlIn (.int 1) [.int 2, .null]) = none := by decide
/-- `NULL IN ()` would be NULL in the executor and FALSE as an empty disjunction: not SQL, excluded by `cs ≠ []` -/
theorem sql_in_empty_list_witness : toTri (sqlIn .null []) ≠ in3 .null [] := by decide

/-- null_if_any(lambda a, b: a OP b) for the six comparison entries of ENV is SQL's three-valued comparison -/
theorem null_if_any_cmp_spec (op : CmpOp) (a b : Val) :
    envBin cfg (cmpName op) a b = some (triVal (cmp3 op a b)) := by
  rw [generated_cfg_ok]; exact envBin_cmp op a b

example : envBin cfg "EQ" .null (.int 1) = some .null := by decide +kernel

/-- the Python expression PythonGenerator emits for a predicate of the fragment evaluates to its SQL value -/
theorem eval_kleene (row : Row) (e : Expr) (h : wfExpr e) : SqlglotModel.Exec.eval cfg row e = some (Sem.eval row e) := by
  rw [generated_cfg_ok]; exact eval_spec row e h

example : wfExpr (.and (.cmp .lt (.col 0) (.lit (.int 3))) (.not (.inList (.col 1) [.null, .int 2]))) :=
  ⟨⟨trivial, trivial⟩, trivial, by simp⟩

/-- filter_nulls + SUM/COUNT/MIN/MAX: NULLs ignored; COUNT of nothing 0; SUM/MIN/MAX of nothing NULL; MIN/MAX extremal -/
theorem agg_functions_spec (vs : List Val) :
    envCount cfg vs = aggCount vs
    ∧ envSum cfg vs = aggSum vs
    ∧ (nonNull vs = [] → envMin cfg vs = .null ∧ envMax cfg vs = .null)
    ∧ (nonNull vs ≠ [] → IsExtremum .lt (nonNull vs) (envMin cfg vs) ∧ IsExtremum .gt (nonNull vs) (envMax cfg vs)) := by
  rw [generated_cfg_ok]; exact SqlglotModel.Exec.agg_functions_spec vs

example : envSum cfg [.null, .null] = .null ∧ envCount cfg [.null, .null] = .int 0 := by decide +kernel

/-- comparing two `ordered(v, desc, nulls_first)` tuples the way Python compares tuples never raises and is the
    ORDER BY comparison (NULLS FIRST/LAST, DESC through reverse_key) -/
theorem ordered_key_spec (a b : Val) (desc nf : Bool) :
    tupleCmp (ordered cfg a desc nf) (ordered cfg b desc nf) = some (cmpKey desc nf a b) := by
  rw [generated_cfg_ok]; exact SqlglotModel.Exec.ordered_key_spec a b desc nf

/-- nested_loop_join = the reference join, for all four sides, all row lists (empty ones included), same order.
    Hypotheses: rows have their table's width (what `Table.append` asserts). -/
theorem nested_loop_join_spec (side : Side) (m : Row → Row → Bool) (wS wJ : Nat) (L R : List Row)
    (hL : ∀ l ∈ L, l.length = wS) (hR : ∀ r ∈ R, r.length = wJ) :
    nestedLoopJoin cfg (sideStr side) (wS + wJ) m L R = join side m wS wJ L R := by
  rw [generated_cfg_ok]; exact SqlglotModel.Exec.nested_loop_join_spec side m wS wJ L R hL hR

example : (∀ l ∈ ([[.int 1], [.null]] : List Row), l.length = 1) := by simp

/-- hash_join (buckets keyed by the non-NULL key tuples, product per bucket, residual condition, unmatched rows)
    is a permutation of nested_loop_join on `keys equal AND residual`, for every side string and all row lists -/
theorem hash_join_perm_nested (side : String) (width : Nat) (ks kj : Row → Key) (cond : Option (Row → Val))
    (L R : List Row) :
    List.Perm (hashJoin cfg side width ks kj cond L R)
      (nestedLoopJoin cfg side width (fun l r => keyMatch ks kj l r && joinMatches cond (l ++ r)) L R) :=
  SqlglotModel.Exec.hash_join_perm_nested cfg side width ks kj cond L R

/-- hence hash_join returns the reference join's bag of rows -/
theorem hash_join_spec (side : Side) (ks kj : Row → Key) (cond : Option (Row → Val)) (wS wJ : Nat) (L R : List Row)
    (hL : ∀ l ∈ L, l.length = wS) (hR : ∀ r ∈ R, r.length = wJ) :
    List.Perm (hashJoin cfg (sideStr side) (wS + wJ) ks kj cond L R)
      (join side (fun l r => keyMatch ks kj l r && joinMatches cond (l ++ r)) wS wJ L R) := by
  rw [← nested_loop_join_spec side _ wS wJ L R hL hR]
  exact hash_join_perm_nested _ _ ks kj cond L R

/-- aggregate()'s index loop (start/end arithmetic of the current source) emits each maximal run of equal keys
    exactly once, in order, with the aggregates of exactly that run's rows; all non-empty row lists -/
theorem aggregate_runs_spec (keyOf : Row → Key) (agg : List Row → Row) (rows : List Row) (hne : rows ≠ [])
    (hasGroupBy : Bool) (limit : Option Nat) :
    aggregateSorted cfg keyOf agg hasGroupBy none limit rows = emitRuns agg (runs keyOf rows) := by
  rw [generated_cfg_ok]; exact SqlglotModel.Exec.aggregate_runs_spec keyOf agg rows hne hasGroupBy limit

/-- … and over the empty input: one row of aggregates without GROUP BY, none with GROUP BY -/
theorem aggregate_empty_spec (keyOf : Row → Key) (agg : List Row → Row) (cap : Option Nat) :
    aggregateSorted cfg keyOf agg false cap none [] = globalAgg agg []
    ∧ aggregateSorted cfg keyOf agg true cap none [] = groupAgg keyOf agg [] := by
  rw [generated_cfg_ok]; exact SqlglotModel.Exec.aggregate_empty_spec keyOf agg cap

/-- on a list in which every key forms one run (`Clustered`: what `context.sort(group_by)` is there to establish)
    the loop's output is GROUP BY of the reference semantics: one row per distinct key (NULL keys grouped together),
    aggregates over exactly the rows of that key.  NOT proved here: that `sortByGroupKey` yields a `Clustered`
    list (needs the linear-order laws of the sort key); the composed model `aggregate` is compared with the real
    aggregate() on generated tables and the reference GROUP BY with SQLite/DuckDB on every run. -/
theorem aggregate_groups_spec (keyOf : Row → Key) (agg : List Row → Row) (rows : List Row) (hne : rows ≠ [])
    (hc : Clustered keyOf rows) (hasGroupBy : Bool) (limit : Option Nat) :
    aggregateSorted cfg keyOf agg hasGroupBy none limit rows = groupAgg keyOf agg rows := by
  rw [aggregate_runs_spec keyOf agg rows hne hasGroupBy limit]
  exact runs_groups keyOf agg rows hc

example : Clustered (fun r => r.take 1) [[.int 1, .int 5], [.int 1, .null], [.null, .int 2], [.int 2, .int 2]] := by
  unfold Clustered; decide +kernel
/-- an unsorted input is not clustered, and there the loop really differs from GROUP BY (why aggregate() sorts first) -/
theorem unsorted_not_clustered_witness :
    ¬ Clustered (fun r => r.take 1) [[.int 1], [.int 2], [.int 1]]
    ∧ aggregateSorted cfg (fun r => r.take 1) (fun rs => [.int rs.length]) true none none [[.int 1], [.int 2], [.int 1]]
      ≠ groupAgg (fun r => r.take 1) (fun rs => [.int rs.length]) [[.int 1], [.int 2], [.int 1]] := by
  unfold Clustered; decide +kernel

/-- set_operation(): every row's multiplicity in the output is the SQL one (INTERSECT/EXCEPT [ALL], UNION [ALL];
    NULLs compare equal), for all row lists -/
theorem set_operation_spec (l r : List Row) (x : Row) :
    List.count x (setOperation .intersect false l r) = multIntersectAll (List.count x l) (List.count x r)
    ∧ List.count x (setOperation .intersect true l r) = multIntersect (List.count x l) (List.count x r)
    ∧ List.count x (setOperation .except false l r) = multExceptAll (List.count x l) (List.count x r)
    ∧ List.count x (setOperation .except true l r) = multExcept (List.count x l) (List.count x r)
    ∧ List.count x (setOperation .union false l r) = multUnionAll (List.count x l) (List.count x r)
    ∧ List.count x (setOperation .union true l r) = multUnion (List.count x l) (List.count x r) :=
  SqlglotModel.Exec.set_operation_spec l r x

/-- the Sort step is ORDER BY … LIMIT … OFFSET of the reference semantics (stable sort by the ORDER BY comparison,
    then the slice); its output before slicing is a permutation of its input -/
theorem sort_step_spec (items : List OrdItem) (limit : Option Nat) (offset : Nat) (rows : List Row) :
    sortStep cfg items limit offset rows = orderBy (semItems items) limit offset rows
    ∧ List.Perm (sortRows cfg items rows) rows := by
  rw [generated_cfg_ok]
  exact ⟨SqlglotModel.Exec.sort_step_spec items limit offset rows, sort_rows_perm _ items rows⟩

/-! ## deepening round: the executor's own sort, the limit break, ANY/ALL, scan, the single-table planner -/

/-- `context.sort(group_by)` (the model's stable sort by the key `(t is None, t)`) puts every key into one run -/
theorem sort_by_group_key_clusters (keyOf : Row → Key) (rows : List Row) :
    Clustered keyOf (sortByGroupKey keyOf rows) ∧ List.Perm (sortByGroupKey keyOf rows) rows :=
  ⟨sortByGroupKey_clustered keyOf rows, sortByGroupKey_perm keyOf rows⟩

/-- aggregate() as a whole (its own sort, then the run loop), unconditional: the GROUP BY of the reference semantics,
    in key order; as a bag it is the GROUP BY of the unsorted input whenever the aggregates depend on the bag of their
    inputs only (which the ENV aggregates do: `env_aggs_perm_invariant`) -/
theorem aggregate_spec (keyOf : Row → Key) (agg : List Row → Row) (rows : List Row) (hne : rows ≠ []) (hasGroupBy : Bool)
    (hagg : ∀ a b, List.Perm a b → agg a = agg b) :
    aggregate cfg keyOf agg hasGroupBy none none rows = groupAgg keyOf agg (sortByGroupKey keyOf rows)
    ∧ List.Perm (aggregate cfg keyOf agg hasGroupBy none none rows) (groupAgg keyOf agg rows) := by
  rw [generated_cfg_ok]
  have e : aggregate stdCfg keyOf agg hasGroupBy none none rows = groupAgg keyOf agg (sortByGroupKey keyOf rows) := by
    rw [aggregate_eq]; unfold aggTbl; rw [if_neg hne]
  exact ⟨e, e ▸ groupAgg_perm keyOf agg hagg _ rows (sortByGroupKey_perm keyOf rows)⟩

theorem env_aggs_perm_invariant (vs ws : List Val) (h : List.Perm vs ws) :
    envCount cfg vs = envCount cfg ws ∧ envSum cfg vs = envSum cfg ws
    ∧ envMin cfg vs = envMin cfg ws ∧ envMax cfg vs = envMax cfg ws := by
  rw [generated_cfg_ok]; exact env_aggs_perm vs ws h

/-- the `len(table.rows) >= offset + limit` break inside aggregate()'s loop: exactly the first `cap` groups -/
theorem aggregate_limit_spec (keyOf : Row → Key) (agg : List Row → Row) (rows : List Row) (hne : rows ≠ [])
    (hasGroupBy : Bool) (cap : Nat) (limit : Option Nat) :
    aggregateSorted cfg keyOf agg hasGroupBy (some cap) limit rows = (emitRuns agg (runs keyOf rows)).take cap := by
  rw [generated_cfg_ok]; exact aggregate_runs_limit_spec keyOf agg rows hne hasGroupBy cap limit

/-- `v op ANY (subquery)` / `v op ALL (subquery)`: _subquery_comparison's early-exit loop with its saw_null flag is
    the Kleene disjunction / conjunction of the comparisons, for all value lists (empty: FALSE / TRUE) -/
theorem subquery_comparison_spec (op : CmpOp) (v : Val) (xs : List Val) :
    subqueryComparison cfg (cmpName op) "ANY" v xs = some (triVal (any3 op v xs))
    ∧ subqueryComparison cfg (cmpName op) "ALL" v xs = some (triVal (all3 op v xs)) := by
  rw [generated_cfg_ok]; exact SqlglotModel.Exec.subquery_comparison_spec op v xs

example : subqueryComparison cfg "GT" "ALL" (.int 3) [.int 1, .null] = some .null := by decide +kernel

/-- scan / static / _project_and_filter (condition with Python truthiness, projection, the `len(sink) >= offset +
    limit` break) and `_execute`'s offset slice: SELECT … WHERE … LIMIT … OFFSET … of the reference semantics -/
theorem scan_spec (src : ScanSource) (cond : Option (Row → Val)) (projs : Option (Row → Row)) (limit : Option Nat) (offset : Nat) :
    scan src cond projs (capOf limit offset)
      = takeCap (capOf limit offset) (selectWhere cond projs (match src with | .static => [[]] | .table rows => rows))
    ∧ applyOffset offset (scan src cond projs (capOf limit offset))
      = limitOffset limit offset (selectWhere cond projs (match src with | .static => [[]] | .table rows => rows)) :=
  ⟨SqlglotModel.Exec.scan_spec src cond projs _, scan_limit_offset_spec src cond projs limit offset⟩

/-- **The planner + executor composition on the single-table fragment.**  `plan` mirrors Step.from_expression (tied
    to the real one by comparing Step DAGs on generated queries), `exec` mirrors `_execute` / join / aggregate / sort
    with RowReader's by-name column resolution.  For every well-formed query (`QWF`) and every table whose rows have
    the table's width, executing the plan returns the reference answer `Sem.Query.eval`: the output names; the same bag
    of rows without ORDER BY; the same SEQUENCE under a total ORDER BY, and always for a query without aggregation.

    Known executor / planner defects INSIDE this fragment are excluded by `QWF` and witnessed below:
    `noDistinctOrder` (`distinct_order_counterexample`), `aliasesNodup` (`duplicate_output_names_counterexample`),
    `noShadow` (`alias_shadow_counterexample`, found while building this model).  Known defects OUTSIDE the fragment
    (not expressible in `Sem.Query`): computed aggregate operands over a join, set-operation arms sharing an alias,
    ORDER BY a column over a join, HAVING / a projection mixing a bare group key with an aggregate (both become one
    aggregation that reads the key through the range reader: the model has no such object), and the optimizer rules. -/
theorem single_table_query_spec (q : Query) (rows : List Row) (h : QWF q) (hrows : ∀ r ∈ rows, r.length = q.cols.length) :
    ∃ out, exec cfg ⟨q.cols, rows⟩ (plan q) = some ⟨q.outs.map Out.alias, out⟩
      ∧ (q.order = [] → List.Perm out (q.eval rows))
      ∧ (q.order ≠ [] → TotalOn q (q.body rows) → out = q.eval rows)
      ∧ (q.group = none → q.distinct = false → out = q.eval rows) := by
  rw [generated_cfg_ok]; exact single_table_query_spec_std q rows h hrows

/-- an ORDER BY that mentions every output column is total -/
theorem order_by_all_outputs_total (q : Query) (rows : List Row) (hall : ∀ p, p < q.outs.length → ∃ it ∈ q.order, it.1 = p) :
    TotalOn q (q.body rows) :=
  total_of_all_positions q _ (fun x hx => body_len q rows x hx) hall

/-- non-vacuity: SELECT DISTINCT COALESCE-free version of the seeded planner regression's query shape,
    `SELECT DISTINCT a AS k, SUM(b) AS s FROM x WHERE b > 0 GROUP BY a, c HAVING MIN(b) > 0` is well-formed -/
def exampleQuery : Query where
  cols := ["a", "b", "c"]
  where_ := some (.cmp .gt (.col 1) (.lit (.int 0)))
  group := some [0, 2]
  outs := [.col 0 "k", .agg .sum 1 "s"]
  having := some ⟨.min, 1, .gt, .int 0⟩
  distinct := true
  order := []
  limit := none
  offset := 0

example : QWF exampleQuery where
  colsNodup := by decide
  srcInRange := by decide
  outsNonempty := by decide
  whereWF := by intro e he; cases he; exact ⟨trivial, trivial⟩
  aliasesNodup := by decide
  noDistinctOrder := fun _ => rfl
  limitNeedsOrder := fun _ => ⟨rfl, rfl⟩
  orderInRange := by intro it hit; cases hit
  plainCols := by intro hg; cases hg
  noShadow := by intro hg; cases hg
  grouped := by
    intro keys hk
    cases hk
    refine ⟨by decide, by decide, by decide, ?_, by decide +kernel⟩
    intro hv hh; cases hh; decide

def distinctOrderQuery : Query where
  cols := ["b"]
  where_ := none
  group := none
  outs := [.col 0 "b"]
  having := none
  distinct := true
  order := [(0, true, false)]
  limit := none
  offset := 0

/-- KNOWN DEFECT (C11-distinct-drops-order), inside the fragment: SELECT DISTINCT b FROM x ORDER BY b DESC over
    b ∈ {0, 1}.  The DISTINCT Aggregate step sits above the Sort and re-sorts by the group key: the plan returns
    [0, 1], the reference answer is the sequence [1, 0] (the ORDER BY is total).  Hence `QWF.noDistinctOrder`. -/
theorem distinct_order_counterexample :
    exec cfg ⟨["b"], [[.int 0], [.int 1]]⟩ (plan distinctOrderQuery) = some ⟨["b"], [[.int 0], [.int 1]]⟩
    ∧ distinctOrderQuery.eval [[.int 0], [.int 1]] = [[.int 1], [.int 0]] := by
  decide +kernel

def duplicateNamesQuery : Query where
  cols := ["a", "b"]
  where_ := none
  group := none
  outs := [.col 0 "p", .col 1 "p"]
  having := none
  distinct := true
  order := []
  limit := none
  offset := 0

/-- KNOWN DEFECT (C11-duplicate-output-names), inside the fragment: SELECT DISTINCT a AS p, b AS p over {(1, 2)}: the
    DISTINCT step's group dict is keyed by the output name, one column is lost.  Hence `QWF.aliasesNodup`. -/
theorem duplicate_output_names_counterexample :
    exec cfg ⟨["a", "b"], [[.int 1, .int 2]]⟩ (plan duplicateNamesQuery) = some ⟨["p"], [[.int 2]]⟩
    ∧ duplicateNamesQuery.eval [[.int 1, .int 2]] = [[.int 1, .int 2]] := by
  decide +kernel

def aliasShadowQuery : Query where
  cols := ["a", "b"]
  where_ := none
  group := none
  outs := [.col 0 "b", .col 1 "q"]
  having := none
  distinct := false
  order := [(1, false, false)]
  limit := none
  offset := 0

/-- DEFECT found with this model (C11-alias-shadows-order-column), inside the fragment:
    SELECT a AS b, b AS q FROM x ORDER BY x.b over {(1, 2), (2, 1)}.  The Sort sink's columns are the table's columns
    followed by the output aliases and RowReader resolves "b" to the LAST column of that name: the alias, i.e. `a`.
    The plan sorts by `a` and returns [(1,2),(2,1)]; the reference answer is [(2,1),(1,2)].  Hence `QWF.noShadow`. -/
theorem alias_shadow_counterexample :
    exec cfg ⟨["a", "b"], [[.int 1, .int 2], [.int 2, .int 1]]⟩ (plan aliasShadowQuery)
      = some ⟨["b", "q"], [[.int 1, .int 2], [.int 2, .int 1]]⟩
    ∧ aliasShadowQuery.eval [[.int 1, .int 2], [.int 2, .int 1]] = [[.int 2, .int 1], [.int 1, .int 2]] := by
  decide +kernel

/-! ## aliasing: join() shares one rows list between its tables; aggregate() must widen it in place -/

/-- pinned from the source (ast of aggregate()): the operand columns are attached by subscript stores
    `context.table.rows[i] = a + b`, not by rebinding `context.table.rows` -/
theorem generated_widen_form_ok : widenForm = .subscriptStore := by decide

/-- with that form, after aggregate()'s widening and its in-place group-key sort EVERY table of the join context reads
    the same list — the widened rows, sorted — for all row lists, operand lists and any number of joined tables; so a
    group key or aggregate argument taken from any joined table is paired with the right row -/
theorem aggregate_views_consistent (rows ops : List Row) (n : Nat) (keyOf : Row → Key) (v : Nat) (hv : v < n) :
    (((Heap.ofJoin rows n).widen widenForm ops).sortInPlace keyOf).read v = sortByGroupKey keyOf (widened rows ops) := by
  rw [generated_widen_form_ok]
  exact SqlglotModel.Exec.aggregate_views_consistent rows ops n keyOf v hv (by omega)

/-- witness: rebinding the first table's `rows` attribute instead (`context.table.rows = [a + b …]`) leaves the other
    tables of the join on the old list object: the second table still reads the unwidened, unsorted rows -/
theorem rebind_breaks_views_witness :
    (((Heap.ofJoin [[.int 2], [.int 1]] 2).widen .attributeRebind [[.int 20], [.int 10]]).sortInPlace (fun r => r.take 1)).read 0
      = [[.int 1, .int 10], [.int 2, .int 20]]
    ∧ (((Heap.ofJoin [[.int 2], [.int 1]] 2).widen .attributeRebind [[.int 20], [.int 10]]).sortInPlace (fun r => r.take 1)).read 1
      = [[.int 2], [.int 1]] := by
  decide +kernel

/-! ## quantified comparisons over a subquery result (IN / NOT IN / op ANY / op ALL) -/

/-- the reference semantics on the empty result: NOT IN and ALL are TRUE, IN and ANY FALSE — for EVERY probe, NULL included -/
theorem quantified_empty (op : CmpOp) (v : Val) :
    notInSub v [] = some true ∧ all3 op v [] = some true ∧ inSub v [] = some false ∧ any3 op v [] = some false :=
  ⟨not_in_empty_true v, all_empty_true op v, in_empty_false v, any_empty_false op v⟩

/-- a NULL probe against a non-empty result is UNKNOWN -/
theorem quantified_null_probe (op : CmpOp) (xs : List Val) (h : xs ≠ []) : any3 op .null xs = none ∧ all3 op .null xs = none :=
  null_probe_unknown op xs h

/-- IN is ∃ under 3VL: TRUE iff an element matches; with a NULL in the result it is never FALSE -/
theorem in_subquery_3vl (v : Val) (xs : List Val) :
    (inSub v xs = some true ↔ (v ≠ .null ∧ v ∈ xs))
    ∧ (inSub v xs = some false ↔ (xs = [] ∨ (v ≠ .null ∧ ¬ .null ∈ xs ∧ ¬ v ∈ xs)))
    ∧ (v ≠ .null → .null ∈ xs → ¬ v ∈ xs → inSub v xs = none) :=
  ⟨in_true_iff v xs, in_false_iff v xs, fun hv hn hm => (in_with_null_unknown_unless_match v xs hv hn).2 hm⟩

/-- NOT IN is ∀ under 3VL -/
theorem not_in_subquery_is_all_ne (v : Val) (xs : List Val) : notInSub v xs = all3 .ne v xs := not_in_is_all_ne v xs

/-- finite table re-extracted from PythonExecutor.__init__: SUBQUERY_COMPARISON / _EXISTS / _SCALAR are registered bare
    (their NULL behaviour is NOT strict: a NULL probe over an empty result is TRUE / FALSE, not NULL) -/
theorem generated_subquery_env_ok :
    subqueryEnv = [("SUBQUERY_COMPARISON", "bare"), ("SUBQUERY_EXISTS", "bare"), ("SUBQUERY_SCALAR", "bare")]
    ∧ subqCmpWrapped = false := by decide +kernel

/-- the ENV entry as the executor registers it computes the quantified comparison for every probe (NULL included) and
    every result list (empty included); `x NOT IN (subquery)` = NOT(… 'EQ', 'ANY') is the reference NOT IN -/
theorem subquery_env_spec (op : CmpOp) (v : Val) (xs : List Val) :
    subqueryComparisonEnv subqCmpWrapped cfg (cmpName op) "ANY" v xs = some (triVal (any3 op v xs))
    ∧ subqueryComparisonEnv subqCmpWrapped cfg (cmpName op) "ALL" v xs = some (triVal (all3 op v xs))
    ∧ notInSubquery subqCmpWrapped cfg v xs = some (triVal (notInSub v xs)) := by
  rw [generated_subquery_env_ok.2, generated_cfg_ok]
  exact subquery_comparison_env_spec op v xs

/-- witness: wrapped in null_if_any("value") the entry answers NULL for a NULL probe over the EMPTY result, where
    `NULL NOT IN ()` and `NULL > ALL ()` are TRUE (a WHERE would drop the row) -/
theorem wrapped_subquery_comparison_witness :
    notInSubquery true cfg .null [] = some .null ∧ triVal (notInSub .null []) = .bool true
    ∧ subqueryComparisonEnv true cfg "GT" "ALL" .null [] = some .null ∧ triVal (all3 .gt .null []) = .bool true := by
  decide +kernel

/-! ## the per-subquery memo of _subquery_table, keyed by the SUBQUERY_* arguments -/

/-- pinned from the source (ast of _compile_subquery): the argument list — hence the memo key — is
    `list(scope.external_columns)`, every outer column the subquery reads, table-qualified -/
theorem generated_subquery_args_ok : subqueryArgs = .allExternal := by decide

/-- generic memo lemma: a memo whose key determines the result is transparent (any argument sequence, any consistent cache) -/
theorem memo_transparent {α κ β} [DecidableEq κ] (key : α → κ) (f : α → β)
    (hdet : ∀ a b, key a = key b → f a = f b) (as : List α) : memoRun key f as [] = as.map f :=
  memoRun_transparent key f hdet as [] (by intro p hp; cases hp)

/-- the subquery memo is transparent whenever the key holds the value of EVERY outer column the subquery reads — which
    `allExternal` guarantees (key columns = read columns) -/
theorem subquery_memo_spec {β} (reads keyCols : List Nat) (g : List Val → β) (hsub : ∀ i ∈ reads, i ∈ keyCols)
    (rows : List Row) :
    memoRun (fun r => keyCols.map (Sem.getCol r)) (fun r => g (reads.map (Sem.getCol r))) rows []
      = rows.map fun r => g (reads.map (Sem.getCol r)) :=
  subquery_memo_transparent reads keyCols g hsub rows

example : ∀ i ∈ ([0, 1] : List Nat), i ∈ ([0, 1] : List Nat) := by decide

/-- witness: key de-duplicated by bare column name (t.a and u.a share the name, only u.a survives): two outer rows
    agreeing on u.a and differing on t.a get the first row's cached subquery result -/
theorem deduped_memo_key_witness :
    memoRun (fun r => [1].map (Sem.getCol r)) (fun r => ([0, 1].map (Sem.getCol r)).map Val.toInt |>.sum)
        [[.int 1, .int 5], [.int 2, .int 5]] [] = [6, 6]
    ∧ ([[.int 1, .int 5], [.int 2, .int 5]] : List Row).map (fun r => ([0, 1].map (Sem.getCol r)).map Val.toInt |>.sum) = [6, 7] := by
  decide +kernel

end SqlglotModel.Properties.C11
