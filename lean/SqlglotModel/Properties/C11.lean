/-
  C11 — The Python executor returns what a reference SQL engine returns (modelled fragment: the algorithmic core).
  Only property theorems, non-vacuity examples and witnesses live here; lemmas are in Proofs/Exec.lean.
  Every theorem is about the configuration `Generated.C11.cfg` that vf/props/c11.py re-extracts from
  sqlglot/executor/env.py and python.py on every run (`generated_cfg_ok` ties it to the proved one).
  Partial: planner.Step.from_expression, PythonGenerator, Context and optimize() are not modelled; the
  composition is checked end-to-end against SQLite and DuckDB by the search oracle only.
-/
import SqlglotModel.Proofs.Exec
import SqlglotModel.Generated.C11

namespace SqlglotModel.Properties.C11
open SqlglotModel.Sem SqlglotModel.Exec
open SqlglotModel.Generated.C11 (cfg envIdentity)

/-- finite table fact (decided completely): the constants, index offsets, side sets, empty_null flags and operator
    lambdas extracted from the current source are the ones the theorems below are proved for -/
theorem generated_cfg_ok : cfg = stdCfg := by decide +kernel

/-- finite table fact: ENV binds AND/OR/NOT/IN/ORDERED/SUM/MIN/MAX/COUNT to the mirrored functions -/
theorem generated_env_identity_ok :
    envIdentity = [("AND", "sql_and"), ("COUNT", "count_lambda"), ("IN", "sql_in"), ("MAX", "max"), ("MIN", "min"),
      ("NOT", "sql_not"), ("OR", "sql_or"), ("ORDERED", "ordered"), ("SUM", "sum")] := by decide +kernel

/-- finite decision table (all 9 + 3 entries, decided completely): on None/True/False sql_and, sql_or, sql_not
    are Kleene's connectives -/
theorem and_or_not_kleene_table :
    (∀ x y : Tri, sqlAnd (triVal x) (triVal y) = triVal (and3 x y) ∧ sqlOr (triVal x) (triVal y) = triVal (or3 x y))
    ∧ (∀ x : Tri, sqlNot (triVal x) = triVal (not3 x)) := by
  constructor
  · apply tri_cases; decide
  · intro x
    cases x with
    | none => rfl
    | some b => cases b <;> rfl

/-- for ALL Python values (any int / str / bool / None operands): sql_and / sql_or / sql_not / sql_in compute the
    Kleene connectives of the operands' truth values, and IN is the disjunction of equalities -/
theorem and_or_not_in_kleene (a b : Val) (cs : List Val) (hcs : cs ≠ []) :
    toTri (sqlAnd a b) = and3 (toTri a) (toTri b)
    ∧ toTri (sqlOr a b) = or3 (toTri a) (toTri b)
    ∧ toTri (sqlNot a) = not3 (toTri a)
    ∧ toTri (sqlIn a cs) = in3 a cs :=
  ⟨sqlAnd_spec a b, sqlOr_spec a b, sqlNot_spec a, sqlIn_spec a cs hcs⟩

example : toTri (sqlIn (.int 1) [.int 2, .null]) = none := by decide
/-- `NULL IN ()` would be NULL in the executor and FALSE as an empty disjunction: not SQL, excluded by `cs ≠ []` -/
theorem sql_in_empty_list_witness : toTri (sqlIn .null []) ≠ in3 .null [] := by decide

/-- null_if_any(lambda a, b: a OP b) for the six comparison entries of ENV is SQL's three-valued comparison -/
theorem null_if_any_cmp_spec (op : CmpOp) (a b : Val) :
    envBin cfg (cmpName op) a b = some (triVal (cmp3 op a b)) := by
  rw [generated_cfg_ok]; exact envBin_cmp op a b

example : envBin cfg "EQ" .null (.int 1) = some .null := by decide +kernel

/-- the Python expression PythonGenerator emits for a predicate of the fragment evaluates to its SQL value -/
theorem eval_kleene (row : Row) (e : Expr) (h : wfExpr e) : SqlglotModel.Exec.eval cfg row e = some (Sem.eval row e) := by
  rw [generated_cfg_ok]; exact eval_spec row e h

example : wfExpr (.and (.cmp .lt (.col 0) (.lit (.int 3))) (.not (.inList (.col 1) [.null, .int 2]))) :=
  ⟨⟨trivial, trivial⟩, trivial, by simp⟩

/-- filter_nulls + SUM/COUNT/MIN/MAX: NULLs ignored; COUNT of nothing 0; SUM/MIN/MAX of nothing NULL; MIN/MAX extremal -/
theorem agg_functions_spec (vs : List Val) :
    envCount cfg vs = aggCount vs
    ∧ envSum cfg vs = aggSum vs
    ∧ (nonNull vs = [] → envMin cfg vs = .null ∧ envMax cfg vs = .null)
    ∧ (nonNull vs ≠ [] → IsExtremum .lt (nonNull vs) (envMin cfg vs) ∧ IsExtremum .gt (nonNull vs) (envMax cfg vs)) := by
  rw [generated_cfg_ok]; exact SqlglotModel.Exec.agg_functions_spec vs

example : envSum cfg [.null, .null] = .null ∧ envCount cfg [.null, .null] = .int 0 := by decide +kernel

/-- comparing two `ordered(v, desc, nulls_first)` tuples the way Python compares tuples never raises and is the
    ORDER BY comparison (NULLS FIRST/LAST, DESC through reverse_key) -/
theorem ordered_key_spec (a b : Val) (desc nf : Bool) :
    tupleCmp (ordered cfg a desc nf) (ordered cfg b desc nf) = some (cmpKey desc nf a b) := by
  rw [generated_cfg_ok]; exact SqlglotModel.Exec.ordered_key_spec a b desc nf

/-- nested_loop_join = the reference join, for all four sides, all row lists (empty ones included), same order.
    Hypotheses: rows have their table's width (what `Table.append` asserts). -/
theorem nested_loop_join_spec (side : Side) (m : Row → Row → Bool) (wS wJ : Nat) (L R : List Row)
    (hL : ∀ l ∈ L, l.length = wS) (hR : ∀ r ∈ R, r.length = wJ) :
    nestedLoopJoin cfg (sideStr side) (wS + wJ) m L R = join side m wS wJ L R := by
  rw [generated_cfg_ok]; exact SqlglotModel.Exec.nested_loop_join_spec side m wS wJ L R hL hR

example : (∀ l ∈ ([[.int 1], [.null]] : List Row), l.length = 1) := by simp

/-- hash_join (buckets keyed by the non-NULL key tuples, product per bucket, residual condition, unmatched rows)
    is a permutation of nested_loop_join on `keys equal AND residual`, for every side string and all row lists -/
theorem hash_join_perm_nested (side : String) (width : Nat) (ks kj : Row → Key) (cond : Option (Row → Val))
    (L R : List Row) :
    List.Perm (hashJoin cfg side width ks kj cond L R)
      (nestedLoopJoin cfg side width (fun l r => keyMatch ks kj l r && joinMatches cond (l ++ r)) L R) :=
  SqlglotModel.Exec.hash_join_perm_nested cfg side width ks kj cond L R

/-- hence hash_join returns the reference join's bag of rows -/
theorem hash_join_spec (side : Side) (ks kj : Row → Key) (cond : Option (Row → Val)) (wS wJ : Nat) (L R : List Row)
    (hL : ∀ l ∈ L, l.length = wS) (hR : ∀ r ∈ R, r.length = wJ) :
    List.Perm (hashJoin cfg (sideStr side) (wS + wJ) ks kj cond L R)
      (join side (fun l r => keyMatch ks kj l r && joinMatches cond (l ++ r)) wS wJ L R) := by
  rw [← nested_loop_join_spec side _ wS wJ L R hL hR]
  exact hash_join_perm_nested _ _ ks kj cond L R

/-- aggregate()'s index loop (start/end arithmetic of the current source) emits each maximal run of equal keys
    exactly once, in order, with the aggregates of exactly that run's rows; all non-empty row lists -/
theorem aggregate_runs_spec (keyOf : Row → Key) (agg : List Row → Row) (rows : List Row) (hne : rows ≠ [])
    (hasGroupBy : Bool) (limit : Option Nat) :
    aggregateSorted cfg keyOf agg hasGroupBy none limit rows = emitRuns agg (runs keyOf rows) := by
  rw [generated_cfg_ok]; exact SqlglotModel.Exec.aggregate_runs_spec keyOf agg rows hne hasGroupBy limit

/-- … and over the empty input: one row of aggregates without GROUP BY, none with GROUP BY -/
theorem aggregate_empty_spec (keyOf : Row → Key) (agg : List Row → Row) (cap : Option Nat) :
    aggregateSorted cfg keyOf agg false cap none [] = globalAgg agg []
    ∧ aggregateSorted cfg keyOf agg true cap none [] = groupAgg keyOf agg [] := by
  rw [generated_cfg_ok]; exact SqlglotModel.Exec.aggregate_empty_spec keyOf agg cap

/-- on a list in which every key forms one run (`Clustered`: what `context.sort(group_by)` is there to establish)
    the loop's output is GROUP BY of the reference semantics: one row per distinct key (NULL keys grouped together),
    aggregates over exactly the rows of that key.  NOT proved here: that `sortByGroupKey` yields a `Clustered`
    list (needs the linear-order laws of the sort key); the composed model `aggregate` is compared with the real
    aggregate() on generated tables and the reference GROUP BY with SQLite/DuckDB on every run. -/
theorem aggregate_groups_spec (keyOf : Row → Key) (agg : List Row → Row) (rows : List Row) (hne : rows ≠ [])
    (hc : Clustered keyOf rows) (hasGroupBy : Bool) (limit : Option Nat) :
    aggregateSorted cfg keyOf agg hasGroupBy none limit rows = groupAgg keyOf agg rows := by
  rw [aggregate_runs_spec keyOf agg rows hne hasGroupBy limit]
  exact runs_groups keyOf agg rows hc

example : Clustered (fun r => r.take 1) [[.int 1, .int 5], [.int 1, .null], [.null, .int 2], [.int 2, .int 2]] := by
  unfold Clustered; decide +kernel
/-- an unsorted input is not clustered, and there the loop really differs from GROUP BY (why aggregate() sorts first) -/
theorem unsorted_not_clustered_witness :
    ¬ Clustered (fun r => r.take 1) [[.int 1], [.int 2], [.int 1]]
    ∧ aggregateSorted cfg (fun r => r.take 1) (fun rs => [.int rs.length]) true none none [[.int 1], [.int 2], [.int 1]]
      ≠ groupAgg (fun r => r.take 1) (fun rs => [.int rs.length]) [[.int 1], [.int 2], [.int 1]] := by
  unfold Clustered; decide +kernel

/-- set_operation(): every row's multiplicity in the output is the SQL one (INTERSECT/EXCEPT [ALL], UNION [ALL];
    NULLs compare equal), for all row lists -/
theorem set_operation_spec (l r : List Row) (x : Row) :
    List.count x (setOperation .intersect false l r) = multIntersectAll (List.count x l) (List.count x r)
    ∧ List.count x (setOperation .intersect true l r) = multIntersect (List.count x l) (List.count x r)
    ∧ List.count x (setOperation .except false l r) = multExceptAll (List.count x l) (List.count x r)
    ∧ List.count x (setOperation .except true l r) = multExcept (List.count x l) (List.count x r)
    ∧ List.count x (setOperation .union false l r) = multUnionAll (List.count x l) (List.count x r)
    ∧ List.count x (setOperation .union true l r) = multUnion (List.count x l) (List.count x r) :=
  SqlglotModel.Exec.set_operation_spec l r x

/-- the Sort step is ORDER BY … LIMIT … OFFSET of the reference semantics (stable sort by the ORDER BY comparison,
    then the slice); its output before slicing is a permutation of its input -/
theorem sort_step_spec (items : List OrdItem) (limit : Option Nat) (offset : Nat) (rows : List Row) :
    sortStep cfg items limit offset rows = orderBy (semItems items) limit offset rows
    ∧ List.Perm (sortRows cfg items rows) rows := by
  rw [generated_cfg_ok]
  exact ⟨SqlglotModel.Exec.sort_step_spec items limit offset rows, sort_rows_perm _ items rows⟩

end SqlglotModel.Properties.C11
