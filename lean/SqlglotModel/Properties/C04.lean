/-
  C04 — Quoting of strings, identifiers and comments is lossless and inescapable.
  Only property theorems, non-vacuity examples and counter-example witnesses live here.

  Two levels of statements.  (1) `_extract_string` (what the tokenizer returns after the opening delimiter, and what it
  leaves unread) and `_scan_comment` (what is left unread after a block comment).  (2) Token level (second half of the
  file): `lexLoop` of Model/StrLex.lean — the `_scan` loop with the dispatch `_scan` → `_scan_keywords` →
  `_scan_string` / `_scan_identifier` / `_scan_comment` modelled, and everything else the scanner does (numbers,
  keywords, operators, variables) an arbitrary parameter `other`: the theorems hold for every `other`.
-/
import SqlglotModel.Proofs.Str
import SqlglotModel.Proofs.StrFast
import SqlglotModel.Proofs.Comment
import SqlglotModel.Proofs.StrLex
import SqlglotModel.Proofs.StrDerive
import SqlglotModel.Generated.C04

namespace SqlglotModel.Properties.C04
open SqlglotModel.Str

/-- Slow path: for every well-formed pairing of tokenizer and generator tables and EVERY value `v`, the loop of
    `_extract_string` run on `escape_str(v)` + closing delimiter + `rest` returns exactly `v` and leaves exactly `rest`
    (provided `rest` does not start with the delimiter).  No bound on `v`. -/
theorem string_roundtrip (c : Cfg) (h : wf c = true) (v rest : List Char) (hr : rest.head? ≠ some c.q) :
    scanL c (escapeStr c v ++ c.q :: rest) [] = .ok v rest := by
  simpa using roundtrip_aux c (wf_iff c h) v.length v (Nat.le_refl _) [] rest hr

example : wf exMysql = true ∧ wf exBigquery = true ∧ wf exBase = true ∧ wf exBracketIdent = true := by decide +kernel
example : scanL exMysql (escapeStr exMysql "a\"\"'\\\n%".toList ++ '\'' :: [' ', 'x']) [] = .ok "a\"\"'\\\n%".toList [' ', 'x'] :=
  string_roundtrip exMysql (by decide +kernel) _ _ (by decide)

/-- The `str.find` fast path of `_extract_string` is a sound optimisation: whenever it applies, it returns what the slow
    loop returns — on EVERY input stream, not only generated ones. -/
theorem fast_eq_slow (c : Cfg) (h : wfFast c = true) (s t r : List Char) (hf : fastPath c s = some (t, r)) :
    scanL c s [] = .ok t r :=
  fast_eq_slow_aux c (wfFast_iff c h) s t r hf

example : wfFast exMysql = true ∧ fastPath exMysql "ab\"\"c' x".toList = some ("ab\"\"c".toList, " x".toList) := by decide +kernel

/-- `_extract_string` as executed (fast path when applicable, slow loop otherwise) inverts `escape_str`. -/
theorem extract_roundtrip (c : Cfg) (h : wf c = true) (hf : wfFast c = true) (v rest : List Char)
    (hr : rest.head? ≠ some c.q) :
    extract c (escapeStr c v ++ c.q :: rest) = .ok v rest := by
  have hs := string_roundtrip c h v rest hr
  unfold extract
  cases hfp : fastPath c (escapeStr c v ++ c.q :: rest) with
  | none => simpa using hs
  | some tr =>
    obtain ⟨t, r⟩ := tr
    have := fast_eq_slow c hf _ t r hfp
    rw [hs] at this
    simp only [R.ok.injEq] at this
    simp [this.1, this.2]

example : extract exBigquery (escapeStr exBigquery "it's \\ ok".toList ++ ['\'']) = .ok "it's \\ ok".toList [] :=
  extract_roundtrip exBigquery (by decide +kernel) (by decide +kernel) _ _ (by decide)

/-- `self._advance(alnum=True)` (bulk-skipping alphanumeric runs inside the loop) does not change the result, provided no
    escape character and no delimiter is alphanumeric (`isAlnum` stands for `str.isalnum`; the harness checks the
    hypothesis against CPython for every extracted table). -/
theorem alnum_skip_sound (isAlnum : Char → Bool) (c : Cfg)
    (hal : ∀ x, isAlnum x = true → c.isEsc x = false ∧ x ≠ c.q) (cur : Char) (rest acc : List Char) :
    scanA isAlnum c (rest.length + 1) cur rest acc = scan c cur rest acc :=
  scanA_eq_scan isAlnum c hal (rest.length + 1) cur rest acc (Nat.lt_succ_self _)

example : scanA (fun x => x.isAlphanum) exMysql 9 'a' "bc''d' x".toList [] = .ok "abc'd".toList " x".toList := by decide +kernel

/-- Quoted identifiers: `identifier_sql` (replace IDENTIFIER_END by its escaped form, no escape sequences) followed by
    `_scan_identifier` (`_extract_string` with `escapes = IDENTIFIER_ESCAPES ∪ {end}`) returns the name. -/
theorem identifier_roundtrip (c : Cfg) (hsup : c.supports = false) (h : wf c = true) (hf : wfFast c = true)
    (v rest : List Char) (hr : rest.head? ≠ some c.q) :
    extract c (identifierSql c v ++ c.q :: rest) = .ok v rest := by
  have himg : img c = escQ c := by
    funext ch; simp [img, seqOf, hsup]
  have : identifierSql c v = escapeStr c v := by
    simp [identifierSql, escapeStr, himg]
  rw [this]
  exact extract_roundtrip c h hf v rest hr

example : extract exBracketIdent (identifierSql exBracketIdent "a]b".toList ++ [']', '.']) = .ok "a]b".toList ['.'] :=
  identifier_roundtrip exBracketIdent rfl (by decide +kernel) (by decide +kernel) _ _ (by decide)

/-- `sanitize_comment` leaves neither `*/` nor `/*` in the text, whatever the comment (and whatever `str.strip` does). -/
theorem sanitize_no_marker (isSpace : Char → Bool) (c : List Char) :
    hasPair '*' '/' (sanitizeComment isSpace c) = false ∧ hasPair '/' '*' (sanitizeComment isSpace c) = false := by
  constructor
  · simp only [sanitizeComment]
    exact hasPair_replace_other '/' '*' ' ' (by decide) (by decide) (by decide) _
      (hasPair_replace_same '*' '/' ' ' (by decide) (by decide) (by decide) _)
  · simp only [sanitizeComment]
    exact hasPair_replace_same '/' '*' ' ' (by decide) (by decide) (by decide) _

/-- The block comment the generator emits (`/*` + sanitize_comment(c) + `*/`) is consumed by `_scan_comment` exactly up
    to its own terminator — with and without nested-comment support — so whatever follows is lexed as if the comment
    were absent.  `isSpace` stands for `x.strip() == ""`; the only facts used are that `/` and `*` are not blank. -/
theorem comment_scan_exact (isSpace : Char → Bool) (hs1 : isSpace '/' = false) (hs2 : isSpace '*' = false)
    (nested : Bool) (c rest : List Char) (hc : c ≠ []) :
    scanCL nested (sanitizeComment isSpace c ++ '*' :: '/' :: rest) = some rest := by
  obtain ⟨x, B, hx, hclean⟩ := sanitize_spec isSpace hs1 hs2 c hc
  rw [hx]
  simpa [scanCL] using scanC_clean nested rest B x (hclean nested)

example : scanCL true (sanitizeComment (· == ' ') "*/ x /* y /".toList ++ '*' :: '/' :: " z".toList) = some " z".toList :=
  comment_scan_exact _ (by decide) (by decide) true _ _ (by decide)

/-- without the sanitising step the same text swallows / cuts the statement (why the guard is essential) -/
example : scanCL true ("a */ x".toList ++ '*' :: '/' :: " z".toList) ≠ some " z".toList := by decide +kernel

/-! ## Token level -/

/-- The SQL written for a string literal — `start` (QUOTE_START, or a prefix such as N') + `escape_str(v)` + closing
    delimiter — followed by a blank, lexes to exactly ONE token of the literal's kind whose text is `v`: for every value
    `v`, every well-formed pairing whose dispatch tables pass `strDispatchOk`, and every behaviour `other` of the rest of
    the scanner.  `isSpace` stands for `str.isspace`. -/
theorem literal_single_token (L : LexCfg) (isSpace : Char → Bool) (other : List Char → Step) (start : List Char)
    (c : Cfg) (kind : TokKind) (hd : strDispatchOk L start c kind = true) (hw : wf c = true) (hf : wfFast c = true)
    (hsp : ∀ c0, start.head? = some c0 → isSpace c0 = false) (v : List Char) :
    lexLoop L isSpace other (start ++ escapeStr c v ++ [c.q, ' ']) = some (some [⟨kind, v⟩]) := by
  have hb := boundary_literal L isSpace other start c kind (strDispatch_iff L start c kind hd) (wf_iff c hw) hsp v
    (fun rest hr => extract_roundtrip c hw hf v rest hr) []
  have : start ++ escapeStr c v ++ [c.q, ' '] = (start ++ escapeStr c v ++ [c.q]) ++ [' '] := by simp
  rw [this, hb, lexLoop_blank_only]
  rfl

example : lexLoop exLexBase (· == ' ') (fun _ => .unsupported) ("N'".toList ++ escapeStr exBase "it's".toList ++ ['\'', ' '])
    = some (some [⟨.national, "it's".toList⟩]) :=
  literal_single_token exLexBase _ _ _ exBase .national (by decide +kernel) (by decide +kernel) (by decide +kernel)
    (by intro c0 h; simp at h; subst h; decide) _

/-- … and a quoted identifier to exactly one IDENTIFIER token named `v`. -/
theorem identifier_single_token (L : LexCfg) (isSpace : Char → Bool) (other : List Char → Step) (i0 : Char) (c : Cfg)
    (hd : idDispatchOk L i0 c = true) (hsup : c.supports = false) (hw : wf c = true) (hf : wfFast c = true)
    (hsp : isSpace i0 = false) (v : List Char) :
    lexLoop L isSpace other (i0 :: identifierSql c v ++ [c.q, ' ']) = some (some [⟨.ident, v⟩]) := by
  have hb := boundary_identifier L isSpace other i0 c hd hsp v
    (fun rest hr => identifier_roundtrip c hsup hw hf v rest hr) []
  have : i0 :: identifierSql c v ++ [c.q, ' '] = (i0 :: identifierSql c v ++ [c.q]) ++ [' '] := by simp
  rw [this, hb, lexLoop_blank_only]
  rfl

example : lexLoop exLexBase (· == ' ') (fun _ => .unsupported) ('"' :: identifierSql exIdent "a\"b".toList ++ ['"', ' '])
    = some (some [⟨.ident, "a\"b".toList⟩]) :=
  identifier_single_token exLexBase _ _ '"' exIdent (by decide +kernel) rfl (by decide +kernel) (by decide +kernel) (by decide) _

/-- Literals compose: a literal is a complete piece of text (`Boundary`), and complete pieces separated by a blank lex
    to the concatenation of their tokens — so `a` and `b` in `comment_transparent` may be any such sequences. -/
theorem literal_boundary (L : LexCfg) (isSpace : Char → Bool) (other : List Char → Step) (start : List Char)
    (c : Cfg) (kind : TokKind) (hd : strDispatchOk L start c kind = true) (hw : wf c = true) (hf : wfFast c = true)
    (hsp : ∀ c0, start.head? = some c0 → isSpace c0 = false) (v : List Char) :
    Boundary L isSpace other (start ++ escapeStr c v ++ [c.q]) [⟨kind, v⟩] :=
  boundary_literal L isSpace other start c kind (strDispatch_iff L start c kind hd) (wf_iff c hw) hsp v
    (fun rest hr => extract_roundtrip c hw hf v rest hr)

theorem identifier_boundary (L : LexCfg) (isSpace : Char → Bool) (other : List Char → Step) (i0 : Char) (c : Cfg)
    (hd : idDispatchOk L i0 c = true) (hsup : c.supports = false) (hw : wf c = true) (hf : wfFast c = true)
    (hsp : isSpace i0 = false) (v : List Char) :
    Boundary L isSpace other (i0 :: identifierSql c v ++ [c.q]) [⟨.ident, v⟩] :=
  boundary_identifier L isSpace other i0 c hd hsp v (fun rest hr => identifier_roundtrip c hsup hw hf v rest hr)

theorem boundary_compose (L : LexCfg) (isSpace : Char → Bool) (other : List Char → Step) (a b : List Char)
    (ts us : List Tok) (ha : Boundary L isSpace other a ts) (hb : Boundary L isSpace other b us) :
    Boundary L isSpace other (a ++ ' ' :: b) (ts ++ us) :=
  boundary_append L isSpace other a b ts us ha hb

/-- opaque tokens of the rest of the scanner are complete pieces too, by their specification -/
theorem opaque_boundary (L : LexCfg) (isSpace : Char → Bool) (other : List Char → Step) (w : List Char) (t : Tok)
    (h : Opaque L isSpace other w t) : Boundary L isSpace other w [t] :=
  boundary_opaque L isSpace other w t h

/-- A generated block comment between two pieces of SQL does not change the tokens: for every complete prefix `a`
    (literals, identifiers, opaque tokens, comments — see the boundary theorems), every comment text `cm` and EVERY
    continuation `b`.  The hypotheses on `isSpace` (= `str.isspace`, which agrees with `strip()` emptiness) are checked
    against CPython by the harness: `/` and `*` are not blank, and no blank character upper-cases to the third
    character of a trie key extending `/*` (the hint start `/*+`). -/
theorem comment_transparent (L : LexCfg) (isSpace : Char → Bool) (other : List Char → Step)
    (hd : comDispatchOk L = true) (hs0 : isSpace '/' = false) (hs1 : isSpace '*' = false)
    (hext : ∀ x, (x = ' ' ∨ isSpace x = true) → (commentExts L).contains (upperAscii x) = false)
    (a : List Char) (ts : List Tok) (ha : Boundary L isSpace other a ts) (cm b : List Char) (hc : cm ≠ []) :
    lexLoop L isSpace other (a ++ ' ' :: '/' :: '*' :: sanitizeComment isSpace cm ++ '*' :: '/' :: ' ' :: b)
      = lexLoop L isSpace other (a ++ ' ' :: b) := by
  have hcb := boundary_comment L isSpace other hd hs0 hs1 hext cm hc
  have h1 := boundary_append L isSpace other a _ ts [] ha hcb b
  have h2 := ha b
  have : a ++ ' ' :: '/' :: '*' :: sanitizeComment isSpace cm ++ '*' :: '/' :: ' ' :: b
      = (a ++ ' ' :: ('/' :: '*' :: sanitizeComment isSpace cm ++ ['*', '/'])) ++ ' ' :: b := by simp
  rw [this, h1, h2]
  simp

example : lexLoop exLexBase (· == ' ') (fun _ => .unsupported)
      ("'x'".toList ++ ' ' :: '/' :: '*' :: sanitizeComment (· == ' ') "*/ '".toList ++ '*' :: '/' :: ' ' :: "'y'".toList)
    = lexLoop exLexBase (· == ' ') (fun _ => .unsupported) ("'x'".toList ++ ' ' :: "'y'".toList) :=
  comment_transparent exLexBase _ _ (by decide +kernel) (by decide) (by decide)
    (by intro x hx; rcases hx with rfl | hx
        · decide
        · have : x = ' ' := by simpa using hx
          subst this; decide)
    _ _ (literal_boundary exLexBase _ _ "'".toList exBase .str (by decide +kernel) (by decide +kernel) (by decide +kernel)
      (by intro c0 h; simp at h; subst h; decide) "x".toList) _ _ (by decide)

/-- `maybe_comment` (plain form): whatever comments are attached, the emitted text is the SQL followed by block comments
    only, and it lexes to the tokens of the SQL alone. -/
theorem maybe_comment_transparent (L : LexCfg) (isSpace : Char → Bool) (other : List Char → Step)
    (hd : comDispatchOk L = true) (hs0 : isSpace '/' = false) (hs1 : isSpace '*' = false)
    (hext : ∀ x, (x = ' ' ∨ isSpace x = true) → (commentExts L).contains (upperAscii x) = false)
    (sql : List Char) (ts : List Tok) (ha : Boundary L isSpace other sql ts) (comments : List (List Char)) (b : List Char) :
    lexLoop L isSpace other (maybeComment isSpace sql comments ++ ' ' :: b) = lexLoop L isSpace other (sql ++ ' ' :: b) := by
  rw [boundary_maybeComment L isSpace other hd hs0 hs1 hext comments sql ts ha b, ha b]

/-- Reading back a generated block comment gives one comment whose TEXT is exactly what the generator wrote between
    `/*` and `*/` (`self._comments.append(self._text[2:-1])`), with and without nested-comment support, whatever the
    text contains — `--`, `#`, `//`, `{#` openers included (the block scanner does not look at them). -/
theorem comment_read_back (isSpace : Char → Bool) (hs1 : isSpace '/' = false) (hs2 : isSpace '*' = false)
    (nested : Bool) (c rest : List Char) (hc : c ≠ []) :
    readComment nested (sanitizeComment isSpace c ++ '*' :: '/' :: rest) = some (sanitizeComment isSpace c, rest) :=
  readComment_generated isSpace hs1 hs2 nested c rest hc

example : readComment true (sanitizeComment (· == ' ') "-- # // {# */".toList ++ '*' :: '/' :: " x".toList)
    = some (sanitizeComment (· == ' ') "-- # // {# */".toList, " x".toList) :=
  comment_read_back _ (by decide) (by decide) true _ _ (by decide)

/-- Why BOTH markers must be broken up, whatever the WRITER's dialect thinks about nesting: the reader decides.  A comment
    text that keeps an opening marker (` a/*b `, as when only `*/` is sanitised: `see s3://bucket/*/part`) is read back by a reader without
    nested comments, but a reader WITH nested comments (e.g. the routing pass of Athena's tokenizer in front of the
    Trino sub-tokenizer) opens a nested comment that never closes — while the fully sanitised text reads back under
    both readers (`comment_read_back`, for every `nested`). -/
theorem comment_open_marker_needs_breaking :
    scanCL false [' ', 'a', '/', '*', 'b', ' ', '*', '/', ',', 'b'] = some [',', 'b']
    ∧ scanCL true [' ', 'a', '/', '*', 'b', ' ', '*', '/', ',', 'b'] = none
    ∧ (∀ nested, readComment nested (sanitizeComment (· == ' ') ['a', '/', '*', 'b'] ++ '*' :: '/' :: [',', 'b'])
        = some (sanitizeComment (· == ' ') ['a', '/', '*', 'b'], [',', 'b'])) := by
  refine ⟨by decide +kernel, by decide +kernel, fun nested => ?_⟩
  exact comment_read_back _ (by decide) (by decide) nested _ _ (by simp)

/-- Raw strings (r'…', one-character delimiter) as the TOKENIZER reads them: a value that contains neither the delimiter
    nor — where STRING_ESCAPES_ALLOWED_IN_RAW_STRINGS — an escape character is read back verbatim.  (The generator never
    writes raw syntax: `rawstring_sql` writes a plain literal, see `raw_roundtrip`.) -/
theorem raw_literal_read (c : Cfg) (rawEsc : Bool) (h : rawReadOk c rawEsc = true) (v rest : List Char)
    (hr : rest.head? ≠ some c.q) (hv : ∀ x ∈ v, x ≠ c.q ∧ (rawEsc = true → c.isEsc x = false)) :
    extractG c [c.q] true rawEsc (v ++ c.q :: rest) = .ok v rest := by
  simp only [rawReadOk, Bool.and_eq_true, Bool.or_eq_true] at h
  refine extractG_raw c rawEsc v rest ⟨by simpa using h.1, hr, ?_⟩ hv
  intro hre
  rcases h.2 with (h2 | h2) | h2
  · simp [hre] at h2
  · exact Or.inl h2
  · exact Or.inr (by simpa using h2)

example : extractG exBigquery ['\''] true true ("a\"b".toList ++ '\'' :: [' ']) = .ok "a\"b".toList [' '] :=
  raw_literal_read exBigquery true (by decide +kernel) _ _ (by decide) (by decide)

/-- the premises are needed: with an escape character in the value (escapes allowed in raw strings) or the delimiter in
    the value, the raw scan ends elsewhere -/
theorem raw_read_needs_premise :
    extractG exBigquery ['\''] true true ("a\\".toList ++ ['\'']) = .err
    ∧ extractG exBigquery ['\''] true true ("a'b".toList ++ ['\'']) = .ok ['a'] ['b', '\''] := by
  decide +kernel

/-- A foreign delimiter inside a quoted identifier (another identifier's closing character, a string quote) is preserved:
    instance of `identifier_roundtrip`, spelled out because `_scan_identifier` must build its escape set from THIS
    identifier's own closing delimiter only (`generated_identifier_scan_shape`). -/
theorem foreign_delimiter_preserved (c : Cfg) (hsup : c.supports = false) (h : wf c = true) (hf : wfFast c = true)
    (pre post rest : List Char) (x : Char) (hr : rest.head? ≠ some c.q) :
    extract c (identifierSql c (pre ++ x :: post) ++ c.q :: rest) = .ok (pre ++ x :: post) rest :=
  identifier_roundtrip c hsup h hf _ rest hr

example : extract exIdent (identifierSql exIdent "a`]b".toList ++ ['"']) = .ok "a`]b".toList [] :=
  foreign_delimiter_preserved exIdent rfl (by decide +kernel) (by decide +kernel) "a".toList "]b".toList [] '`' (by decide)

open SqlglotModel.Generated.C04 in
/-- ast facts about the identifier scanner and live facts about its escape set, per dialect and tokenizer core:
    `_scan_identifier` calls `_extract_string(identifier_end, escapes=self.identifier_escapes | {identifier_end})`, the
    core stores the set it is given, the tokenizer passes `_IDENTIFIER_ESCAPES = set(IDENTIFIER_ESCAPES)`, and the live
    `identifier_escapes` of every core equals the IDENTIFIER_ESCAPES its tokenizer class declares (no closing delimiter
    of another identifier sneaks in); every raw-string start with a one-character delimiter satisfies `rawReadOk`. -/
theorem generated_identifier_scan_shape :
    scanIdentifierShape = ["_extract_string(identifier_end, escapes=self.identifier_escapes | {identifier_end})",
      "cls._IDENTIFIER_ESCAPES = set(cls.IDENTIFIER_ESCAPES)", "identifier_escapes=self._IDENTIFIER_ESCAPES",
      "self.identifier_escapes = identifier_escapes"]
    ∧ (!identifierEscapesLive.isEmpty && identifierEscapesLive.all fun t => t.2.1 == t.2.2) = true
    ∧ (dialects.all fun d => d.lex.all lexRawOk) = true := by
  decide +kernel

/-! ### raw and byte strings -/

/-- `rawstring_sql` (backslashes doubled when the backslash is a string escape, then `escape_str(escape_backslash=False)`)
    writes exactly what `escape_str` writes, hence the raw literal round-trips like a plain one. -/
theorem raw_roundtrip (c : Cfg) (h : wf c = true) (hf : wfFast c = true) (hr : wfRaw c = true) (v rest : List Char)
    (hq : rest.head? ≠ some c.q) :
    extract c (rawSql c v ++ c.q :: rest) = .ok v rest := by
  rw [rawSql_eq c hr v]
  exact extract_roundtrip c h hf v rest hq

example : extract exBigquery (rawSql exBigquery "a\\'b".toList ++ ['\'']) = .ok "a\\'b".toList [] :=
  raw_roundtrip exBigquery (by decide +kernel) (by decide +kernel) (by decide +kernel) _ _ (by decide)

/-- `bytestring_sql` (`escape_str(escape_backslash=False)` on the byte pairing) round-trips every value WITHOUT a
    backslash … -/
theorem byte_roundtrip_partial (c : Cfg) (h : wf c = true) (hf : wfFast c = true) (v rest : List Char)
    (hv : '\\' ∉ v) (hq : rest.head? ≠ some c.q) :
    extract c (byteSql c v ++ c.q :: rest) = .ok v rest := by
  rw [byteSql_eq c v hv]
  exact extract_roundtrip c h hf v rest hq

example : extract exPostgresByte (byteSql exPostgresByte "a'\n".toList ++ ['\'', ' ']) = .ok "a'\n".toList [' '] :=
  byte_roundtrip_partial exPostgresByte (by decide +kernel) (by decide +kernel) _ _ (by decide) (by decide)

/-- … and not the others: the byte pairing itself is well-formed, the defect is `escape_backslash=False`
    (known finding C04-bytestring-backslash). -/
theorem byte_backslash_counterexample :
    wf exPostgresByte = true ∧ wfFast exPostgresByte = true
    ∧ extract exPostgresByte (byteSql exPostgresByte ['\\'] ++ [exPostgresByte.q]) = .err
    ∧ extract exPostgresByte (byteSql exPostgresByte ['\\', 'n'] ++ [exPostgresByte.q]) = .ok ['\n'] [] := by
  decide +kernel

/-- The general `_extract_string` model used by the token-level model for multi-character delimiters and raw strings
    (`extractG`) coincides, for a one-character delimiter and a non-raw string, with the model the round-trip theorems
    are about — the two models of the same Python loop cannot drift apart. -/
theorem general_extract_specialises (c : Cfg) (rawEsc : Bool) (s : List Char) :
    extractG c [c.q] false rawEsc s = extract c s :=
  extractG_single c rawEsc s

/-! ### dispatch tables and the extended pairings extracted from the current source -/

open SqlglotModel.Generated.C04 in
/-- Audited allow-list of the places in sqlglot/expressions/*.py that construct an `Identifier` directly (ast): only
    `to_identifier` itself (which decides `quoted` from SAFE_IDENTIFIER_RE) and `parse_identifier`'s fast path (taken
    only after SAFE_IDENTIFIER_RE matched).  Any other construction bypasses the automatic quoting of names that come
    in through the builder API (`exp.convert`, `column`, `alias_`, …) and breaks this theorem. -/
theorem generated_identifier_sites :
    identifierSites = ["builders.py:parse_identifier:Identifier(this=name, quoted=False)",
      "core.py:to_identifier:Identifier(this=name, quoted=not SAFE_IDENTIFIER_RE.match(name) if quoted is None else quoted)"] := by
  decide +kernel


open SqlglotModel.Generated.C04 in
/-- For every dialect and every tokenizer core: the generator's string start, national prefix, byte-string start,
    identifier start and `/*` are dispatched by `_scan` to the scanner and pairing the theorems above are about
    (incl. bigquery, where the only trie keys extending the quote are the triple quotes and the quote is
    backslash-escaped). -/
theorem generated_dispatch : (dialects.all dialectDispatchOk) = true := by
  decide +kernel

open SqlglotModel.Generated.C04 in
/-- byte-string pairings (dialects with a BYTE_START) are well-formed, and `rawstring_sql` agrees with `escape_str`
    for every string pairing -/
theorem generated_wf_byte_raw :
    (dialects.all fun d =>
      (d.byteCfgs.isEmpty || (cfgsOk wf d.byteCfgs [] && cfgsOk wfFast d.byteCfgs []))
      && cfgsOk wfRaw d.strCfgs []) = true := by
  decide +kernel


open SqlglotModel.Generated.C04 in
/-- Audited list (ast, regenerated each run) of everything in the dialect generators that can write quoted text without
    going through the modelled base methods: (1) overrides of the quoting methods — "delegates" = the body is
    `return super().m(…)`; anything else is pinned by a hash of its ast and has its own correspondence / search coverage
    (T-SQL `identifier_sql`: flagged identifiers, every dialect delimiter in the name); (2) every function that touches a
    quote / identifier delimiter attribute; (3) TRANSFORMS entries for literal-like nodes.  A new or edited override
    breaks this theorem until it is re-audited. -/
theorem generated_quoting_overrides :
    quotingOverrides = ["generators/duckdb.py:DuckDBGenerator.hexstring_sql:delegates",
       "generators/tsql.py:TSQLGenerator.identifier_sql:f107de923c5a"]
    ∧ delimiterSites = ["dialects/dialect.py:_Dialect.__new__",
       "dialects/dialect.py:json_extract_segments",
       "dialects/dialect.py:json_extract_segments._json_extract_segments",
       "generator.py:Generator.__init__",
       "generator.py:Generator.bytestring_sql",
       "generator.py:Generator.escape_str",
       "generator.py:Generator.identifier_sql",
       "generator.py:Generator.jsonpath_sql",
       "generator.py:Generator.literal_sql",
       "generator.py:Generator.rawstring_sql",
       "generator.py:Generator.unicodestring_sql",
       "generators/databricks.py:DatabricksGenerator.jsonpath_sql",
       "generators/tsql.py:TSQLGenerator.createable_sql",
       "generators/tsql.py:TSQLGenerator.identifier_sql"]
    ∧ literalTransforms = ["generators/bigquery.py:BigQueryGenerator:HexString:lambda self, e: self.hexstring_sql(e, binary_function_repr='FROM_HEX')",
       "generators/dune.py:DuneGenerator:HexString:lambda self, e: f'0x{e.this}'",
       "generators/hive.py:HiveGenerator:National:lambda self, e: self.national_sql(e, prefix='')",
       "generators/singlestore.py:SingleStoreGenerator:National:lambda self, e: self.national_sql(e, prefix='')"] := by
  decide +kernel

/-! ### the tables extracted from the current source (finite decision tables, decided completely) -/

open SqlglotModel.Generated.C04 in
/-- Every dialect's (tokenizer core, generator object) pairing — strings and quoted identifiers — is well-formed, so the
    round-trip theorems apply to it.  Exceptions, each with a witness below and a known-finding entry: pass 0 of Athena
    strings, ClickHouse identifiers. -/
theorem generated_wf :
    (dialects.all fun d =>
      cfgsOk wf d.strCfgs (if d.name = "athena" then [0] else [])
      && cfgsOk wf d.idCfgs (if d.name = "clickhouse" then [0] else [])) = true := by
  decide +kernel

open SqlglotModel.Generated.C04 in
/-- … and the fast path of each of them is sound (same exceptions). -/
theorem generated_wf_fast :
    (dialects.all fun d =>
      cfgsOk wfFast d.strCfgs [] && cfgsOk wfFast d.idCfgs (if d.name = "clickhouse" then [0] else [])) = true := by
  decide +kernel

open SqlglotModel.Generated.C04 in
/-- Every tokenizer core closes `/*` with `*/`; the generator wraps comments as `/*` sanitize_comment(c) `*/` and
    sanitize_comment is the two pads followed by the two replacements the model hard-codes, in this order. -/
theorem generated_comment_tables :
    (dialects.all fun d => !d.comments.isEmpty && d.comments.all (·.1)) = true
    ∧ sanitizeReplaces = [("*/", "* /"), ("/*", "/ *")] ∧ sanitizePads = 2
    ∧ commentOpen = "/*" ∧ commentClose = "*/" ∧ commentSanitized = true := by
  decide +kernel

open SqlglotModel.Generated.C04 in
/-- shape of the generator functions the model mirrors (ast facts): among them that `maybe_comment` ends in
    `f"{sql} {' '.join(comments_list)}"` and that its only string constants are `/*`, `*/` and a blank — it can emit block
    comments only, never `--`; the table is not empty -/
theorem generated_shapes :
    identifierReplaceShape = true ∧ identifierEscapeDoubles = true ∧ escapeStrReplaceLast = true
    ∧ maybeCommentPlainForm = true ∧ maybeCommentConstants = [" ", "*/", "/*"]
    ∧ dialects ≠ [] := by
  decide +kernel

/-! ## The metaclass derivation of the escape tables -/

/-- Whatever the class-body inputs (STRING_ESCAPES, BYTE_STRING_ESCAPES, UNESCAPED_SEQUENCES) and the module default are,
    the ESCAPED_SEQUENCES the `_Dialect` metaclass derives is an inverse of the UNESCAPED_SEQUENCES it derives: what the
    generator writes for `ch` is read back as `ch` by rule 1 of `_extract_string` (condition w4 of `wf`).  The only
    hypotheses are that the two input dicts are dicts (no key twice). -/
theorem derived_inverse_pairs (dflt : List (Seq2 × Char)) (printable : Char → Bool) (b : EscBody)
    (h1 : keysNodup dflt = true) (h2 : keysNodup b.unescBody = true) (ch : Char) (ab : Seq2)
    (h : lookup (deriveEsc dflt printable b).escaped ch = some ab) :
    lookup (deriveEsc dflt printable b).unesc ab = some ch := by
  have hn : keysNodup (deriveEsc dflt printable b).unesc = true := by
    simp only [deriveEsc]
    split
    · exact keysNodup_dictMerge dflt b.unescBody h1
    · exact h2
  have hm := lookup_mem _ ch ab h
  have := dictInvertFrom_mem (keepEscaped printable) (deriveEsc dflt printable b).unesc
    (deriveEsc dflt printable b).unesc [] (fun p hp => hp) (by intro q hq; simp at hq) (ch, ab) hm
  exact keysNodup_mem_lookup _ hn ab ch this.1

/-- … and it only ever escapes values that are not printable, or the backslash (the filter that keeps Snowflake's
    `\a -> a` from turning every `a` into `\a`). -/
theorem derived_printable_filter (dflt : List (Seq2 × Char)) (printable : Char → Bool) (b : EscBody) (ch : Char) (ab : Seq2)
    (h : lookup (deriveEsc dflt printable b).escaped ch = some ab) : printable ch = false ∨ ch = '\\' := by
  have hm := lookup_mem _ ch ab h
  have := (dictInvertFrom_mem (keepEscaped printable) (deriveEsc dflt printable b).unesc
    (deriveEsc dflt printable b).unesc [] (fun p hp => hp) (by intro q hq; simp at hq) (ch, ab) hm).2
  simpa [keepEscaped] using this

/-- a default sequence the class body does not override survives the merge whenever the backslash is an escape -/
theorem derived_default_kept (dflt : List (Seq2 × Char)) (printable : Char → Bool) (b : EscBody) (ab : Seq2)
    (hs : b.strEsc.contains '\\' = true ∨ b.byteEsc.contains '\\' = true)
    (hb : ∀ p ∈ b.unescBody, (p.1 == ab) = false) :
    lookup (deriveEsc dflt printable b).unesc ab = lookup dflt ab := by
  have : (b.strEsc.contains '\\' || b.byteEsc.contains '\\') = true := by
    rcases hs with h | h <;> rw [h] <;> simp
  simp only [deriveEsc, this, if_true]
  exact lookup_dictMerge_absent dflt b.unescBody ab hb

/-- consequence for the pairings the round-trip theorems are about: a pairing whose generator table and tokenizer table
    are the derived tables of ONE class satisfies the inverse-pair part of `wf` by construction -/
theorem derived_wf_inverse_condition (dflt : List (Seq2 × Char)) (printable : Char → Bool) (b : EscBody) (c : Cfg)
    (h1 : keysNodup dflt = true) (h2 : keysNodup b.unescBody = true)
    (he : c.escSeq = (deriveEsc dflt printable b).escaped) (hu : c.unesc = (deriveEsc dflt printable b).unesc) :
    ∀ ch a b', lookup c.escSeq ch = some (a, b') → lookup c.unesc (a, b') = some ch := by
  intro ch a b' h
  rw [he] at h
  rw [hu]
  exact derived_inverse_pairs dflt printable b h1 h2 ch (a, b') h

example : (deriveEsc [(('\\', 'a'), Char.ofNat 7), (('\\', '\\'), '\\')] (fun c => c == 'a' || c == '\\')
      { strEsc := ['\\'], byteEsc := [], unescBody := [(('\\', 'a'), 'a')] }).escaped = [('\\', ('\\', '\\'))] := by
  decide +kernel

open SqlglotModel.Generated.C04 in
/-- Every dialect class holds EXACTLY (order included) the flags and tables the model derives from its regenerated
    class-body inputs, with `isprintable` as CPython answers it for the table values — a change to the derivation in
    `_Dialect.__new__` breaks this theorem. -/
theorem generated_escape_derivation :
    (keysNodup escDefault && !escRecords.isEmpty && escRecords.all (recordOk escDefault)) = true := by
  decide +kernel

open SqlglotModel.Generated.C04 in
/-- … and the tables inside the string pairings the round-trip theorems use are those derived tables: the generator side
    from the generator's dialect class (Trino for Athena), the tokenizer side from the tokenizer's dialect class. -/
theorem generated_cfg_tables_derived : (!cfgTies.isEmpty && cfgTies.all (tieOk escRecords)) = true := by
  decide +kernel

/-! ### the two pairings that are not well-formed today, with concrete witnesses (snapshots of the pinned commit) -/

/-- Athena: the merged tokenizer treats `\` as an escape, the Trino generator does not escape it: the literal for the
    value `a\` is `'a\'`, which never terminates; the value `\n` (2 characters) comes back as a newline. -/
theorem athena_string_not_wf_witness :
    wf exAthenaMerged = false
    ∧ extract exAthenaMerged (escapeStr exAthenaMerged ['a', '\\'] ++ [exAthenaMerged.q]) = .err
    ∧ extract exAthenaMerged (escapeStr exAthenaMerged ['\\', 'n'] ++ [exAthenaMerged.q]) = .ok ['\n'] [] := by
  decide +kernel

/-- ClickHouse: `\` is an identifier escape for the tokenizer, `identifier_sql` only doubles the quote. -/
theorem clickhouse_identifier_not_wf_witness :
    wf exClickhouseIdent = false
    ∧ extract exClickhouseIdent (identifierSql exClickhouseIdent ['a', '\\'] ++ [exClickhouseIdent.q]) = .err
    ∧ extract exClickhouseIdent (identifierSql exClickhouseIdent ['\\', 'n'] ++ [exClickhouseIdent.q]) = .ok ['\n'] [] := by
  decide +kernel

/-- the well-formedness hypothesis of the round-trip theorems cannot be dropped -/
theorem roundtrip_needs_wf :
    ∃ (c : Cfg) (v : List Char), wf c = false ∧ extract c (escapeStr c v ++ [c.q]) ≠ .ok v [] :=
  ⟨exAthenaMerged, ['a', '\\'], by decide +kernel⟩

end SqlglotModel.Properties.C04
