/-
  C04 — Quoting of strings, identifiers and comments is lossless and inescapable.
  Only property theorems, non-vacuity examples and counter-example witnesses live here.

  Level of the statements: `_extract_string` (what the tokenizer returns after the opening delimiter, and what it leaves
  unread) and `_scan_comment` (what is left unread after a block comment).  The dispatch that gets there
  (`_scan` → `_scan_keywords` → `_scan_string`/`_scan_identifier`/`_scan_comment`) is NOT modelled; the token-level
  statement is evaluated on the real code by the search oracle.
-/
import SqlglotModel.Proofs.Str
import SqlglotModel.Proofs.StrFast
import SqlglotModel.Proofs.Comment
import SqlglotModel.Generated.C04

namespace SqlglotModel.Properties.C04
open SqlglotModel.Str

/-- Slow path: for every well-formed pairing of tokenizer and generator tables and EVERY value `v`, the loop of
    `_extract_string` run on `escape_str(v)` + closing delimiter + `rest` returns exactly `v` and leaves exactly `rest`
    (provided `rest` does not start with the delimiter).  No bound on `v`. -/
theorem string_roundtrip (c : Cfg) (h : wf c = true) (v rest : List Char) (hr : rest.head? ≠ some c.q) :
    scanL c (escapeStr c v ++ c.q :: rest) [] = .ok v rest := by
  simpa using roundtrip_aux c (wf_iff c h) v.length v (Nat.le_refl _) [] rest hr

example : wf exMysql = true ∧ wf exBigquery = true ∧ wf exBase = true ∧ wf exBracketIdent = true := by decide +kernel
example : scanL exMysql (escapeStr exMysql "a\"\"'\\\n%".toList ++ '\'' :: [' ', 'x']) [] = .ok "a\"\"'\\\n%".toList [' ', 'x'] :=
  string_roundtrip exMysql (by decide +kernel) _ _ (by decide)

/-- The `str.find` fast path of `_extract_string` is a sound optimisation: whenever it applies, it returns what the slow
    loop returns — on EVERY input stream, not only generated ones. -/
theorem fast_eq_slow (c : Cfg) (h : wfFast c = true) (s t r : List Char) (hf : fastPath c s = some (t, r)) :
    scanL c s [] = .ok t r :=
  fast_eq_slow_aux c (wfFast_iff c h) s t r hf

example : wfFast exMysql = true ∧ fastPath exMysql "ab\"\"c' x".toList = some ("ab\"\"c".toList, " x".toList) := by decide +kernel

/-- `_extract_string` as executed (fast path when applicable, slow loop otherwise) inverts `escape_str`. -/
theorem extract_roundtrip (c : Cfg) (h : wf c = true) (hf : wfFast c = true) (v rest : List Char)
    (hr : rest.head? ≠ some c.q) :
    extract c (escapeStr c v ++ c.q :: rest) = .ok v rest := by
  have hs := string_roundtrip c h v rest hr
  unfold extract
  cases hfp : fastPath c (escapeStr c v ++ c.q :: rest) with
  | none => simpa using hs
  | some tr =>
    obtain ⟨t, r⟩ := tr
    have := fast_eq_slow c hf _ t r hfp
    rw [hs] at this
    simp only [R.ok.injEq] at this
    simp [this.1, this.2]

example : extract exBigquery (escapeStr exBigquery "it's \\ ok".toList ++ ['\'']) = .ok "it's \\ ok".toList [] :=
  extract_roundtrip exBigquery (by decide +kernel) (by decide +kernel) _ _ (by decide)

/-- `self._advance(alnum=True)` (bulk-skipping alphanumeric runs inside the loop) does not change the result, provided no
    escape character and no delimiter is alphanumeric (`isAlnum` stands for `str.isalnum`; the harness checks the
    hypothesis against CPython for every extracted table). -/
theorem alnum_skip_sound (isAlnum : Char → Bool) (c : Cfg)
    (hal : ∀ x, isAlnum x = true → c.isEsc x = false ∧ x ≠ c.q) (cur : Char) (rest acc : List Char) :
    scanA isAlnum c (rest.length + 1) cur rest acc = scan c cur rest acc :=
  scanA_eq_scan isAlnum c hal (rest.length + 1) cur rest acc (Nat.lt_succ_self _)

example : scanA (fun x => x.isAlphanum) exMysql 9 'a' "bc''d' x".toList [] = .ok "abc'd".toList " x".toList := by decide +kernel

/-- Quoted identifiers: `identifier_sql` (replace IDENTIFIER_END by its escaped form, no escape sequences) followed by
    `_scan_identifier` (`_extract_string` with `escapes = IDENTIFIER_ESCAPES ∪ {end}`) returns the name. -/
theorem identifier_roundtrip (c : Cfg) (hsup : c.supports = false) (h : wf c = true) (hf : wfFast c = true)
    (v rest : List Char) (hr : rest.head? ≠ some c.q) :
    extract c (identifierSql c v ++ c.q :: rest) = .ok v rest := by
  have himg : img c = escQ c := by
    funext ch; simp [img, seqOf, hsup]
  have : identifierSql c v = escapeStr c v := by
    simp [identifierSql, escapeStr, himg]
  rw [this]
  exact extract_roundtrip c h hf v rest hr

example : extract exBracketIdent (identifierSql exBracketIdent "a]b".toList ++ [']', '.']) = .ok "a]b".toList ['.'] :=
  identifier_roundtrip exBracketIdent rfl (by decide +kernel) (by decide +kernel) _ _ (by decide)

/-- `sanitize_comment` leaves neither `*/` nor `/*` in the text, whatever the comment (and whatever `str.strip` does). -/
theorem sanitize_no_marker (isSpace : Char → Bool) (c : List Char) :
    hasPair '*' '/' (sanitizeComment isSpace c) = false ∧ hasPair '/' '*' (sanitizeComment isSpace c) = false := by
  constructor
  · simp only [sanitizeComment]
    exact hasPair_replace_other '/' '*' ' ' (by decide) (by decide) (by decide) _
      (hasPair_replace_same '*' '/' ' ' (by decide) (by decide) (by decide) _)
  · simp only [sanitizeComment]
    exact hasPair_replace_same '/' '*' ' ' (by decide) (by decide) (by decide) _

/-- The block comment the generator emits (`/*` + sanitize_comment(c) + `*/`) is consumed by `_scan_comment` exactly up
    to its own terminator — with and without nested-comment support — so whatever follows is lexed as if the comment
    were absent.  `isSpace` stands for `x.strip() == ""`; the only facts used are that `/` and `*` are not blank. -/
theorem comment_scan_exact (isSpace : Char → Bool) (hs1 : isSpace '/' = false) (hs2 : isSpace '*' = false)
    (nested : Bool) (c rest : List Char) (hc : c ≠ []) :
    scanCL nested (sanitizeComment isSpace c ++ '*' :: '/' :: rest) = some rest := by
  obtain ⟨x, B, hx, hclean⟩ := sanitize_spec isSpace hs1 hs2 c hc
  rw [hx]
  simpa [scanCL] using scanC_clean nested rest B x (hclean nested)

example : scanCL true (sanitizeComment (· == ' ') "*/ x /* y /".toList ++ '*' :: '/' :: " z".toList) = some " z".toList :=
  comment_scan_exact _ (by decide) (by decide) true _ _ (by decide)

/-- without the sanitising step the same text swallows / cuts the statement (why the guard is essential) -/
example : scanCL true ("a */ x".toList ++ '*' :: '/' :: " z".toList) ≠ some " z".toList := by decide +kernel

/-! ### the tables extracted from the current source (finite decision tables, decided completely) -/

open SqlglotModel.Generated.C04 in
/-- Every dialect's (tokenizer core, generator object) pairing — strings and quoted identifiers — is well-formed, so the
    round-trip theorems apply to it.  Exceptions, each with a witness below and a known-finding entry: pass 0 of Athena
    strings, ClickHouse identifiers. -/
theorem generated_wf :
    (dialects.all fun d =>
      cfgsOk wf d.strCfgs (if d.name = "athena" then [0] else [])
      && cfgsOk wf d.idCfgs (if d.name = "clickhouse" then [0] else [])) = true := by
  decide +kernel

open SqlglotModel.Generated.C04 in
/-- … and the fast path of each of them is sound (same exceptions). -/
theorem generated_wf_fast :
    (dialects.all fun d =>
      cfgsOk wfFast d.strCfgs [] && cfgsOk wfFast d.idCfgs (if d.name = "clickhouse" then [0] else [])) = true := by
  decide +kernel

open SqlglotModel.Generated.C04 in
/-- Every tokenizer core closes `/*` with `*/`; the generator wraps comments as `/*` sanitize_comment(c) `*/` and
    sanitize_comment is the two pads followed by the two replacements the model hard-codes, in this order. -/
theorem generated_comment_tables :
    (dialects.all fun d => !d.comments.isEmpty && d.comments.all (·.1)) = true
    ∧ sanitizeReplaces = [("*/", "* /"), ("/*", "/ *")] ∧ sanitizePads = 2
    ∧ commentOpen = "/*" ∧ commentClose = "*/" ∧ commentSanitized = true := by
  decide +kernel

open SqlglotModel.Generated.C04 in
/-- shape of the generator functions the model mirrors (ast facts); the table is not empty -/
theorem generated_shapes :
    identifierReplaceShape = true ∧ identifierEscapeDoubles = true ∧ escapeStrReplaceLast = true
    ∧ dialects ≠ [] := by
  decide +kernel

/-! ### the two pairings that are not well-formed today, with concrete witnesses (snapshots of the pinned commit) -/

/-- Athena: the merged tokenizer treats `\` as an escape, the Trino generator does not escape it: the literal for the
    value `a\` is `'a\'`, which never terminates; the value `\n` (2 characters) comes back as a newline. -/
theorem athena_string_not_wf_witness :
    wf exAthenaMerged = false
    ∧ extract exAthenaMerged (escapeStr exAthenaMerged ['a', '\\'] ++ [exAthenaMerged.q]) = .err
    ∧ extract exAthenaMerged (escapeStr exAthenaMerged ['\\', 'n'] ++ [exAthenaMerged.q]) = .ok ['\n'] [] := by
  decide +kernel

/-- ClickHouse: `\` is an identifier escape for the tokenizer, `identifier_sql` only doubles the quote. -/
theorem clickhouse_identifier_not_wf_witness :
    wf exClickhouseIdent = false
    ∧ extract exClickhouseIdent (identifierSql exClickhouseIdent ['a', '\\'] ++ [exClickhouseIdent.q]) = .err
    ∧ extract exClickhouseIdent (identifierSql exClickhouseIdent ['\\', 'n'] ++ [exClickhouseIdent.q]) = .ok ['\n'] [] := by
  decide +kernel

/-- the well-formedness hypothesis of the round-trip theorems cannot be dropped -/
theorem roundtrip_needs_wf :
    ∃ (c : Cfg) (v : List Char), wf c = false ∧ extract c (escapeStr c v ++ [c.q]) ≠ .ok v [] :=
  ⟨exAthenaMerged, ['a', '\\'], by decide +kernel⟩

end SqlglotModel.Properties.C04
