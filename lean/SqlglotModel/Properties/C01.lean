/-
  C01 — Same-dialect round trip is a fixpoint (expression core, token level).
  Only property theorems, non-vacuity examples and counter-example witnesses live here.

  Full-strength statement (DESIGN §4 C01 `parse_gen`): for every tree `e` in the parser's image,
  `parse tbl (g tbl e ++ rest) = ok (e, rest)`.  It is FALSE of the current code (witnesses below), so what is proved
  is `parse_gen_partial`, for the faithful part of the image described by `Fits` (Proofs/ParseGen.lean): atoms, dotted
  columns, Paren, unary - ~ NOT, every binary class of the ladder tables, the range predicates IS [NOT] NULL, [NOT] IN
  (list), [NOT] BETWEEN, [NOT] LIKE (with the `negate` flag; `NOT IN` / `NOT BETWEEN` / `IS NOT NULL` under
  NORMALIZE_NOT_NULL are `Not` nodes, covered through `Fits.not`; the Paren the parser inserts after a negated predicate
  is an ordinary `Fits.paren`) and calls of unknown functions with argument lists — any nesting, size, dialect table.
  Not proved: the parser-image direction `parse ts = ok e → Fits e ∨ <defect shape>` (checked per sample by the
  correspondence stage: the model re-parses every printed tree and the harness counts same / different trees).
-/
import SqlglotModel.Proofs.ParseGen
import SqlglotModel.Proofs.TimeFmt
import SqlglotModel.Generated.C01
import SqlglotModel.Model.Engine

namespace SqlglotModel.Properties.C01
open SqlglotModel.Expr SqlglotModel.Parse SqlglotModel.Gen SqlglotModel.ParseGen SqlglotModel.Generated.C01

/-- printing a faithful tree and parsing the tokens again (followed by anything that cannot glue to it) gives the
    tree back and leaves the rest — for the real fuel `parse` uses, every table, every tree size -/
theorem parse_gen_partial (tbl : Tables) {B : List String} {e : Expr}
    (h : Fits tbl (.lad .outer tbl.outer) B e) (rest : Toks) (hr : headOk B rest) :
    parse tbl (g tbl e ++ rest) = .ok (e, rest) := by
  have hd : depth e ≤ (g tbl e ++ rest).length := by
    have := depth_le_length tbl h
    simp only [List.length_append]; omega
  have := fits_concl tbl h (g tbl e ++ rest).length hd rest hr
  simpa [Concl, parse, parseF_succ, topP, subOf] using this

/-- tree equal on re-parse and printed tokens idempotent -/
theorem roundtrip_fixpoint (tbl : Tables) {B : List String} {e : Expr}
    (h : Fits tbl (.lad .outer tbl.outer) B e) :
    parse tbl (g tbl e) = .ok (e, []) ∧
      ∀ e', parse tbl (g tbl e) = .ok (e', []) → g tbl e' = g tbl e := by
  have h1 : parse tbl (g tbl e) = .ok (e, []) := by
    simpa using parse_gen_partial tbl h [] trivial
  refine ⟨h1, ?_⟩
  intro e' h2
  rw [h1] at h2
  cases h2
  rfl

/-- FINITE DECISION TABLE, decided completely: in every generated table (one per distinct dialect configuration) each
    operator text of the generator lexes to a token that the parser maps back to the same class at a level where the
    printed left-nested / parenthesised sample re-parses to itself; `)` and `,` are not operators -/
theorem generated_tables_ok : ∀ t ∈ distinctTables, tablesOk t = true := by decide +kernel

/-- non-vacuity: `t."b" + (-x * 2)` is a faithful tree of the base tables (TERM level, Paren, unary minus, FACTOR level) -/
example : ∃ B, Fits baseTables (.lad .outer baseTables.outer) B
    (.bin "Add" (.col [("t", false), ("b", true)])
      (.paren (.bin "Mul" (.neg (.col [("x", false)])) (.num "2")))) := by
  have hx : Fits baseTables (.lad .lower [baseTables.lower[2]!, baseTables.lower[3]!]) _
      (.bin "Mul" (.neg (.col [("x", false)])) (.num "2")) :=
    .ladLift (.spineBin "Mul" "STAR" "*" (.spineOperand (liftLad _ _ _ (.baseLower (.neg (.col _ _ (by decide))))))
      (by decide +kernel) (by decide +kernel) (by decide +kernel) (liftLad _ _ _ (.baseLower (.num "2"))))
  have hx' : Fits baseTables (.lad .lower baseTables.lower) _ (.bin "Mul" (.neg (.col [("x", false)])) (.num "2")) :=
    .ladLift (.spineOperand (.ladLift (.spineOperand hx)))
  have hp : Fits baseTables .unary unaryBlocked (.paren (.bin "Mul" (.neg (.col [("x", false)])) (.num "2"))) :=
    .paren (liftTop _ hx') (by decide +kernel)
  have hadd : Fits baseTables (.lad .lower (baseTables.lower.drop 1)) _
      (.bin "Add" (.col [("t", false), ("b", true)]) (.paren (.bin "Mul" (.neg (.col [("x", false)])) (.num "2")))) :=
    .ladLift (.spineBin "Add" "PLUS" "+" (.spineOperand (liftLad _ _ _ (.baseLower (.col _ _ (by decide)))))
      (by decide +kernel) (by decide +kernel) (by decide +kernel) (liftLad _ _ _ (.baseLower hp)))
  exact ⟨_, liftTop _ (.ladLift (.spineOperand hadd))⟩

/-- non-vacuity at the range level: `x NOT LIKE F(1, y) ` (negate flag, function call with an argument list) and
    `a IN (1, y) IS NULL` (IN list, chained predicate) are faithful trees of the base tables -/
example : ∃ B, Fits baseTables (.lad .outer baseTables.outer) B
    (.like true (.col [("x", false)]) (.func "F" [.num "1", .col [("y", false)]])) := by
  have hargs : ∀ x ∈ [Expr.num "1", Expr.col [("y", false)]],
      Fits baseTables (.lad .outer baseTables.outer)
        (ladB baseTables.outer (ladB baseTables.mid (rangeBlocked baseTables ++ ladB baseTables.lower unaryBlocked))) x := by
    intro x hx
    simp only [List.mem_cons, List.not_mem_nil, or_false] at hx
    rcases hx with rfl | rfl
    · exact liftTop _ (atomLower _ (.num "1"))
    · exact liftTop _ (atomLower _ (.col _ _ (by decide)))
  exact ⟨_, liftTopR _ (.rLike true (.rOperand (atomLower _ (.col ("x", false) [] (by decide)))) (by decide +kernel) (by decide +kernel)
    (atomLower _ (.func "F" _ (fun _ => _) (by simp) hargs (fun _ _ => by decide +kernel))) rfl rfl)⟩

example : ∃ B, Fits baseTables (.lad .outer baseTables.outer) B
    (.isNull false (.inList (.col [("a", false)]) [.num "1", .col [("y", false)]])) := by
  have hargs : ∀ x ∈ [Expr.num "1", Expr.col [("y", false)]],
      Fits baseTables (.lad .outer baseTables.outer)
        (ladB baseTables.outer (ladB baseTables.mid (rangeBlocked baseTables ++ ladB baseTables.lower unaryBlocked))) x := by
    intro x hx
    simp only [List.mem_cons, List.not_mem_nil, or_false] at hx
    rcases hx with rfl | rfl
    · exact liftTop _ (atomLower _ (.num "1"))
    · exact liftTop _ (atomLower _ (.col _ _ (by decide)))
  exact ⟨_, liftTopR _ (.rIsNull false (.rIn _ (fun _ => _) (.rOperand (atomLower _ (.col ("a", false) [] (by decide))))
    (by decide +kernel) (by simp) hargs (fun _ _ => by decide +kernel)) (by decide) (by intro h; cases h) rfl)⟩

/-- KNOWN DEFECT (i), DESIGN §6: a negated range predicate as LEFT operand.  `a NOT IN (1) < b` parses to
    LT(Not(In)), prints as `NOT a IN (1) < b`, which re-parses as Not(LT(In, b)): the text is a fixpoint, the tree is not -/
theorem parse_gen_counterexample_neg_range :
    roundTrip baseTables [⟨"VAR", "a"⟩, ⟨"NOT", "NOT"⟩, ⟨"IN", "IN"⟩, ⟨"L_PAREN", "("⟩, ⟨"NUMBER", "1"⟩, ⟨"R_PAREN", ")"⟩,
        ⟨"LT", "<"⟩, ⟨"VAR", "b"⟩]
      = some ("(bin LT (not (in (col u:a) (num \"1\"))) (col u:b))", "NOT a IN (1) < b",
              some "(not (bin LT (in (col u:a) (num \"1\")) (col u:b)))") := by decide +kernel

/-- KNOWN DEFECT (ii), DESIGN §6: `Generator.binary` computes the operator text once per flattened same-class spine.
    `a LIKE b NOT LIKE c` prints both operators as NOT LIKE; the re-parse then wraps the first in a Paren -/
theorem parse_gen_counterexample_like_chain :
    roundTrip baseTables [⟨"VAR", "a"⟩, ⟨"LIKE", "LIKE"⟩, ⟨"VAR", "b"⟩, ⟨"NOT", "NOT"⟩, ⟨"LIKE", "LIKE"⟩, ⟨"VAR", "c"⟩]
      = some ("(notlike (like (col u:a) (col u:b)) (col u:c))", "a NOT LIKE b NOT LIKE c",
              some "(notlike (paren (notlike (col u:a) (col u:b))) (col u:c))") := by decide +kernel

/-- the guard shapes extracted from `neg_sql` / `bitwisenot_sql` of every dialect's generator are TEXT-based
    (finite table, decided completely): the space decision looks at the operand's generated text -/
theorem generated_guards_ok : ∀ t ∈ distinctTables, t.negGuard = .text ∧ t.bnotGuard = .text := by decide +kernel

/-- with the text-based guard, whenever the printed operand starts with `-` the minus sign is kept apart from it,
    for EVERY operand (also calls a dialect prints as an infix operator with a negated first argument) -/
theorem neg_text_guard_separates (tbl : Tables) (e : Expr) (hg : tbl.negGuard = .text)
    (hs : startsDash tbl (gen tbl e) = true) :
    sql tbl (.neg e) = "-" ++ (" " ++ sql tbl e) := by
  simp only [sql, gen, genI, hg, guardSep] at hs ⊢
  simp [hs, text, printTok, kw]

/-- same for `~` -/
theorem bnot_text_guard_separates (tbl : Tables) (e : Expr) (hg : tbl.bnotGuard = .text)
    (hs : startsTilde tbl (gen tbl e) = true) :
    sql tbl (.bnot e) = "~" ++ (" " ++ sql tbl e) := by
  simp only [sql, gen, genI, hg, guardSep] at hs ⊢
  simp [hs, text, printTok, kw]

example : startsDash baseTables (gen baseTables (.bin "Mod" (.neg (.col [("a", false)])) (.col [("b", false)]))) = true := by
  decide +kernel

/-- the NODE-based guard (`isinstance(operand, exp.Neg)`) is not enough: an operand that is not a Neg but whose text
    starts with `-` (here `-a % b`, the way most dialects print `MOD(-a, b)`) glues into `--`, a line comment -/
theorem neg_node_guard_counterexample :
    sql { baseTables with negGuard := .node } (.neg (.bin "Mod" (.neg (.col [("a", false)])) (.col [("b", false)])))
      = "--a % b" ∧
    sql baseTables (.neg (.bin "Mod" (.neg (.col [("a", false)])) (.col [("b", false)]))) = "- -a % b" ∧
    sql { baseTables with negGuard := .node } (.neg (.neg (.col [("a", false)]))) = "- -a" := by decide +kernel

/-- without a guard `~ ~ a` printed `~~a`, one LIKE token (the defect fixed in the source by the text-based guard) -/
theorem bitwisenot_glue_witness :
    sql { baseTables with bnotGuard := .none } (.bnot (.bnot (.col [("a", false)]))) = "~~a" ∧
    sql baseTables (.bnot (.bnot (.col [("a", false)]))) = "~ ~a" ∧
    sql baseTables (.neg (.neg (.col [("a", false)]))) = "- -a" := by decide +kernel

/-- every function found by ast that calls `annotate_types(x, …)` and then tests `y.is_type(…)` tests the expression it
    annotated (finite table, decided completely): annotating a copy and testing the original would leave the type test on
    an un-annotated node (e.g. TO_CHAR choosing TimeToStr vs ToChar by the type of its first argument) -/
theorem generated_annotate_checks_same_expr : ∀ c ∈ annotateTypeChecks, c.2 = true := by decide +kernel

/-! ### infix → call rewrites that strip a redundant Paren (e.g. BigQuery `a % b` → `MOD(a, b)`) -/

/-- every generator site found by ast that unwraps a Paren around an operand strips ALL levels (`unnest()`) or keeps the
    Paren; none strips exactly one level (finite table, decided completely) -/
theorem generated_paren_unwraps_all : ∀ s ∈ parenUnwrapSites, s.2 ≠ Engine.Unwrap.one := by decide +kernel

/-- print ∘ parse ∘ print = print for the strip-all printer: the operand printed by the first pass (`unnest e`), whatever
    Paren the parser puts back around it (`rewrap`, or any number of explicit levels), is printed the same again -/
theorem unnest_print_parse_fixpoint (e : Expr) :
    unnest (rewrap (unnest e)) = unnest e ∧ unnest (.paren (unnest e)) = unnest e ∧ unnest (unnest e) = unnest e := by
  refine ⟨?_, ?_, unnest_idem e⟩
  · unfold rewrap
    split
    · simp [unnest, unnest_idem]
    · exact unnest_idem e
  · simp [unnest, unnest_idem]

example : unnest (.paren (.paren (.bin "Add" (.col [("a", false)]) (.num "1")))) = .bin "Add" (.col [("a", false)]) (.num "1") := rfl

/-- the strip-one printer is not idempotent on an operand with two redundant levels: `((a + 1)) % 7` prints
    `MOD((a + 1), 7)`; that argument re-parses to Paren(a + 1), which the second pass prints as `MOD(a + 1, 7)` -/
theorem strip_one_level_counterexample :
    sql baseTables (stripOne (.paren (.paren (.bin "Add" (.col [("a", false)]) (.num "1"))))) = "(a + 1)" ∧
    sql baseTables (stripOne (stripOne (.paren (.paren (.bin "Add" (.col [("a", false)]) (.num "1")))))) = "a + 1" ∧
    sql baseTables (unnest (.paren (.paren (.bin "Add" (.col [("a", false)]) (.num "1"))))) = "a + 1" := by decide +kernel

/-! ### Athena: the tokenizer-side and the generator-side engine decision -/

/-- FINITE TABLE, decided completely: on every enumerated statement shape the model's two predicates give what the
    real `_tokenize_as_hive` / `_generate_as_hive` give on the shape's sample statement (re-evaluated every run) -/
theorem athena_engine_model_matches_source :
    ∀ r ∈ athenaShapes, Engine.tokHive r.2.1 = r.2.2.1 ∧ Engine.genHive r.2.1 = r.2.2.2 := by decide +kernel

/-- for EVERY `CREATE [OR REPLACE] TABLE … AS <query>` shape — plain SELECT, set operation, parenthesised query, WITH,
    SELECT over a subquery; with or without another SELECT elsewhere — both sides pick the same engine (Trino) -/
theorem athena_engine_choice_agrees (s : Engine.Shape) (h1 : s.first = .create) (h2 : s.kind = .table)
    (hb : Engine.bodyIsQuery s.body = true) : Engine.tokHive s = Engine.genHive s ∧ Engine.genHive s = false := by
  obtain ⟨f, k, o, b, n⟩ := s
  simp only at h1 h2 hb
  subst h1 h2
  cases b <;> cases o <;> cases n <;> simp_all [Engine.tokHive, Engine.genHive, Engine.genHiveWith, Engine.hasSelectToken,
    Engine.bodyPasses, Engine.bodyIsQuery]

example : Engine.bodyIsQuery (Engine.Shape.mk .create .table false .setop false).body = true := rfl

/-- the same obligation directly on the data extracted from the source: every enumerated CTAS-over-a-query sample is
    tokenized and generated by the same engine (a generator-side guard narrower than the tokenizer's breaks the build) -/
theorem generated_athena_ctas_engines_agree :
    ∀ r ∈ athenaShapes, r.2.1.first = .create → r.2.1.kind = .table → Engine.bodyIsQuery r.2.1.body = true →
      r.2.2.1 = r.2.2.2 := by decide +kernel

/-- KNOWN clean-tree mismatches of the two decisions (statements printed by one engine and re-read by the other):
    a non-CTAS CREATE TABLE containing a SELECT token (tokenizer: Trino, generator: Hive) and
    `CREATE OR REPLACE VIEW … AS VALUES …` (tokenizer: Hive — the second token is OR and there is no SELECT —, generator: Trino) -/
theorem athena_engine_mismatch_witness :
    Engine.tokHive ⟨.create, .table, false, .none, true⟩ = false ∧ Engine.genHive ⟨.create, .table, false, .none, true⟩ = true ∧
    Engine.tokHive ⟨.create, .view, true, .values, false⟩ = true ∧ Engine.genHive ⟨.create, .view, true, .values, false⟩ = false := by
  decide

/-- if the generator's guard accepted only `exp.Select` bodies, a CTAS over a set operation or a parenthesised query
    would be read by Trino and printed by Hive -/
theorem athena_select_only_variant_witness :
    Engine.tokHive ⟨.create, .table, false, .setop, false⟩ = false ∧
    Engine.genHiveWith .selectOnly ⟨.create, .table, false, .setop, false⟩ = true ∧
    Engine.genHiveWith .selectOnly ⟨.create, .table, false, .paren, false⟩ = true ∧
    Engine.genHiveWith .selectOnly ⟨.create, .table, false, .select, false⟩ = false := by decide

/-- `format_time` returns its input when no character of it starts a mapping key -/
theorem format_time_no_key_start (m : List (List Char × List Char)) (s : List Char) (hs : s ≠ [])
    (h : TimeFmt.NoKeyStart (m.map (·.1)) s) : TimeFmt.formatTimeL s m = some (some s) :=
  TimeFmt.formatTimeL_id m s hs h

/-- `format_time(s, {}) == s` for non-empty `s` (`format_time("")` is `None`, mirrored by the outer `none`) -/
theorem format_time_id (s : List Char) (hs : s ≠ []) : TimeFmt.formatTimeL s [] = some (some s) :=
  TimeFmt.formatTimeL_id [] s hs (by intro c _ k hk; simp at hk)

example : TimeFmt.formatTimeL "%Y-%m".toList [] = some (some "%Y-%m".toList) := format_time_id _ (by decide)

/-- the base dialect's time mapping is empty (so `format_time_id` is the base-dialect clause), and on the generated
    base INVERSE mapping a format without `%` comes back unchanged -/
theorem format_time_base : baseTimeMapping = [] ∧
    ∀ s : List Char, s ≠ [] → '%' ∉ s →
      TimeFmt.formatTimeL s (baseInverseTimeMapping.map fun p => (p.1.toList, p.2.toList)) = some (some s) := by
  refine ⟨by decide +kernel, ?_⟩
  intro s hs hp
  apply TimeFmt.formatTimeL_id _ s hs
  intro c hc k hk
  have hk' : k.head? = some '%' ∨ k = [] := by
    revert k
    decide +kernel
  intro hcontra
  rcases hk' with h1 | h1
  · rw [h1] at hcontra
    cases hcontra
    exact hp hc
  · subst h1; simp at hcontra

end SqlglotModel.Properties.C01
