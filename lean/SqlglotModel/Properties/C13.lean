/-
  C13 — Source positions of tokens, nodes and errors point at the text they describe.
  Only property theorems, non-vacuity examples and counter-example witnesses live here (lemmas: Proofs/Lex.lean).

  Scope of what is PROVED (all for arbitrary input and arbitrary tokenizer configuration):
    * the cursor arithmetic of `_advance` (forward jumps, the alnum batch is a forward jump, rewinds) keeps the position
      invariant `PInv` whenever the characters jumped over contain no CR/LF; the model sets its ghost flag `skew` exactly when a
      jump does pass over one, and the two clean-tree defects (lone CR in the str.find fast path, multi-word keyword across a
      line break) are exhibited as witnesses, together with the repaired behaviour;
    * `_add` stamps the cursor's line/col and [_start, current-1] on the token, hence in a `PInv` state the token's line/col
      agree with its end offset (`line_col_agree`); tokens added under the `_scan` phase discipline (`InvS`/`InvC`) are strictly
      ordered, non-overlapping, non-empty and inside the input (`tokens_ordered`, `tokens_inside`);
    * `highlight_sql` with one position (what `Parser.raise_error` passes) selects exactly s[a..b] with the stated contexts.
  WHOLE-RUN theorems (round 2): for every configuration and every input whose shipped character classes satisfy `WF`
  (blanks/CR/LF are isspace, alphanumerics are never CR/LF — validated exhaustively against CPython by the harness), whenever the
  model's `lex cfg sql` returns tokens: `lex_tokens_ordered`, `lex_tokens_inside`, `lex_line_col_agree` (for runs in which no jump
  skipped a line break), `gaps_are_space_or_comment` (every offset of the input is whitespace, inside a token, or inside a region
  consumed by `_scan_comment`), `lex_progress` (each `_scan` iteration strictly advances the cursor).
  NO-SKEW (round 2): for a configuration that passes the decidable hygiene test `cleanCfg` (the three position repairs are in
  the code; no delimiter contains CR/LF; no start delimiter contains a blank) no jump of any run passes over a line break
  (`lex_never_skews`), hence `lex_line_col_exact` holds unconditionally.  `base_cfg_clean` decides the test for the generated base
  configuration; the driver evaluates the same Lean function on every dialect's shipped configuration on each run.
  COMMENT SPANS (round 2): every region recorded as consumed by `_scan_comment` was opened by a comment start delimiter of the
  configuration, and the input spells that delimiter at the start of the region (`comment_spans_start_with_delimiter`).
  Still NOT proved: that the inner loops never exhaust their fuel (`lex` never answers `fuel`), and that a block-comment span
  ends with its end delimiter.
-/
import SqlglotModel.Proofs.LexSpans
import SqlglotModel.Generated.C13

namespace SqlglotModel.Properties.C13
open SqlglotModel.Lex SqlglotModel.Generated.C13

/-- `_advance(i)`, i ≥ 1: the position invariant is preserved when no skipped character is CR/LF
    (for i = 1 nothing is skipped: single steps are always exact, including CRLF and a lone CR) -/
theorem advance_pinv (sql : Sql) (st st' : St) (i : Nat) (hi : 1 ≤ i) (hP : PInv sql st)
    (hno : hasNL sql st.current (i - 1) = false) (h : advance sql st i = .ok st') : PInv sql st' :=
  advance_pinv_aux sql st st' i hi hP hno h

/-- single steps need no side condition at all -/
theorem advance_one_pinv (sql : Sql) (st st' : St) (hP : PInv sql st) (h : advance sql st 1 = .ok st') : PInv sql st' :=
  advance_pinv_aux sql st st' 1 (Nat.le_refl 1) hP rfl h

/-- a run that ends with `skew = false` never jumped over a CR/LF: `advance` only ever switches the flag on -/
theorem advance_skew_mono (sql : Sql) (st st' : St) (i : Nat) (h : advance sql st i = .ok st') (hs : st'.skew = false) :
    st.skew = false ∧ hasNL sql st.current (i - 1) = false := by
  obtain ⟨_, _, h⟩ := advance_ok h
  subst h
  simpa [Bool.or_eq_false_iff] using hs

/-- `_advance(-n)` (the rewind after `12abc`) -/
theorem retreat_pinv (sql : Sql) (st st' : St) (n : Nat) (hP : PInv sql st)
    (hno : hasNL sql (st.current - 1 - n) n = false) (h : retreat sql st n = .ok st') : PInv sql st' :=
  retreat_pinv_aux sql st st' n hP hno h

/-- `_add`: in a state satisfying the position invariant the appended token's line/col agree with its end offset -/
theorem line_col_agree (cfg : Cfg) (sql : Sql) (st st' : St) (ty : String) (text : Option (List Char))
    (hP : PInv sql st) (hc : 1 ≤ st.current) (h : add cfg sql st ty text = .ok st') :
    ∃ t, st'.toks = st.toks ++ [t] ∧ LC sql t := by
  obtain ⟨t, ht, hl, hco, _, hstop, _⟩ := add_stamp_aux cfg sql st st' ty text h
  refine ⟨t, ht, ?_⟩
  rcases hP with ⟨h0, _, _⟩ | ⟨_, hl', hc'⟩
  · omega
  · exact ⟨by rw [hl, hstop, hl'], by rw [hco, hstop, hc']⟩

/-- tokens whose text is not normalised (`_add(token_type)` without text) carry exactly the slice sql[_start : current] -/
theorem token_text_is_slice (cfg : Cfg) (sql : Sql) (st st' : St) (ty : String)
    (h : add cfg sql st ty none = .ok st') :
    ∃ t, st'.toks = st.toks ++ [t] ∧ t.text = slice sql t.start (t.stop + 1) ∨ st.current = 0 := by
  obtain ⟨t, ht, _, _, hs, hstop, htx, _⟩ := add_stamp_aux cfg sql st st' ty none h
  by_cases h0 : st.current = 0
  · exact ⟨t, Or.inr h0⟩
  · refine ⟨t, Or.inl ⟨ht, ?_⟩⟩
    have : st.current - 1 + 1 = st.current := by omega
    rw [htx, hs, hstop, this]; rfl

/-- moving the cursor forward stays inside the token phase -/
theorem advance_keeps_phase (sql : Sql) (st st' : St) (i : Nat) (hS : InvS sql st)
    (h : advance sql st i = .ok st') : InvS sql st' :=
  advance_invS_aux sql st st' i hS h

/-- `_add` under the `_scan` discipline: the token list stays strictly ordered and non-overlapping
    (`a.stop < b.start` for every earlier a and later b) -/
theorem tokens_ordered (cfg : Cfg) (sql : Sql) (st st' : St) (ty : String) (text : Option (List Char))
    (hS : InvS sql st) (h : add cfg sql st ty text = .ok st') :
    st'.toks.Pairwise (fun a b => a.stop < b.start) :=
  (add_invC_aux cfg sql st st' ty text hS h).sorted

/-- … and every token satisfies 0 ≤ start ≤ end < len(sql) -/
theorem tokens_inside (cfg : Cfg) (sql : Sql) (st st' : St) (ty : String) (text : Option (List Char))
    (hS : InvS sql st) (h : add cfg sql st ty text = .ok st') :
    ∀ t ∈ st'.toks, t.start ≤ t.stop ∧ t.stop < sql.size :=
  fun t ht => ((add_invC_aux cfg sql st st' ty text hS h).toks t ht).1

/-- the next `_scan` iteration (set `_start` to c ≥ current, advance past it) re-enters the token phase -/
theorem next_iteration_phase (sql : Sql) (st st' : St) (c i : Nat) (hC : InvC sql st) (hc : st.current ≤ c)
    (h : advance sql { st with start := c } i = .ok st') (hlt : c < st'.current) : InvS sql st' := by
  obtain ⟨_, hle, h⟩ := advance_ok h
  · subst h
    simp only at hle
    refine ⟨hlt, by simp only; omega, hC.sorted, ?_⟩
    intro t ht
    have := hC.toks t ht
    exact ⟨this.1, by simp only; omega⟩

/-- `highlight_sql(sql, [(a, b)], ctx)` — what `Parser.raise_error` calls with (token.start, token.end) —
    returns highlight = s[a..b], start_context = the ctx characters before a, end_context = the ctx characters after b -/
theorem highlight_selects (s : List Char) (a b ctx : Nat) (hab : a ≤ b) (hb : b < s.length) :
    (highlightSql s [(a, b)] ctx).highlight = pySlice s a (b + 1) ∧
    (highlightSql s [(a, b)] ctx).highlight.length = b + 1 - a ∧
    (highlightSql s [(a, b)] ctx).startCtx = pySlice s (a - ctx) a ∧
    (highlightSql s [(a, b)] ctx).endCtx = pySlice s (b + 1) (b + 1 + ctx) := by
  rw [highlight_single s a b ctx hab]
  refine ⟨rfl, ?_, ?_, ?_⟩
  · simp only [pySlice, List.length_take, List.length_drop]; omega
  · simp only
    split
    · rfl
    · have : a = 0 := by omega
      subst this; simp [pySlice]
  · simp only
    split
    · rfl
    · have : s.length ≤ b + 1 := by omega
      simp [pySlice, List.drop_eq_nil_of_le this]

theorem highlight_context_bounds (s : List Char) (a b ctx : Nat) (hab : a ≤ b) (hb : b < s.length) :
    (highlightSql s [(a, b)] ctx).startCtx.length ≤ ctx ∧ (highlightSql s [(a, b)] ctx).endCtx.length ≤ ctx ∧
    (highlightSql s [(a, b)] ctx).formatted =
      (highlightSql s [(a, b)] ctx).startCtx ++ ansiUL ++ (highlightSql s [(a, b)] ctx).highlight ++ ansiReset ++
        (highlightSql s [(a, b)] ctx).endCtx := by
  obtain ⟨h1, _, h3, h4⟩ := highlight_selects s a b ctx hab hb
  refine ⟨?_, ?_, ?_⟩
  · rw [h3]; simp only [pySlice, List.length_take, List.length_drop]; omega
  · rw [h4]; simp only [pySlice, List.length_take, List.length_drop]; omega
  · rw [highlight_single s a b ctx hab]

/-! ### whole-run theorems about `lex cfg sql` -/

/-- WHOLE RUN: the tokens of `lex cfg sql` are strictly ordered and non-overlapping -/
theorem lex_tokens_ordered (cfg : Cfg) (sql : Sql) (st : St) (hW : WF sql) (h : lex cfg sql = .ok st) :
    st.toks.Pairwise (fun a b => a.stop < b.start) :=
  (lex_full hW h).1.sorted

/-- WHOLE RUN: every token satisfies 0 ≤ start ≤ end < len(sql) -/
theorem lex_tokens_inside (cfg : Cfg) (sql : Sql) (st : St) (hW : WF sql) (h : lex cfg sql = .ok st) :
    ∀ t ∈ st.toks, t.start ≤ t.stop ∧ t.stop < sql.size :=
  fun t ht => ((lex_full hW h).1.toks t ht).1

/-- WHOLE RUN: if no jump of the run passed over a CR/LF (`skew = false`), every token's line and column are the reference
    line/column of its end offset (the LF of a CRLF pair counts with the column of its CR, `crlfAdj`) -/
theorem lex_line_col_agree (cfg : Cfg) (sql : Sql) (st : St) (hW : WF sql) (h : lex cfg sql = .ok st)
    (hs : st.skew = false) :
    ∀ t ∈ st.toks, t.line = lineOf sql t.stop ∧ t.col + crlfAdj sql t.stop = colOf sql t.stop :=
  fun t ht => ((lex_full hW h).1.pi hs).2 t ht

/-- WHOLE RUN: every offset of the input is a whitespace character, lies inside a token, or lies inside a region consumed by
    `_scan_comment` (ghost `spans`) — so the text between two tokens is only whitespace and comment text -/
theorem gaps_are_space_or_comment (cfg : Cfg) (sql : Sql) (st : St) (hW : WF sql) (h : lex cfg sql = .ok st) :
    ∀ p, p < sql.size →
      isSpaceAt sql p = true ∨ (∃ t ∈ st.toks, t.start ≤ p ∧ p ≤ t.stop) ∨ (∃ s ∈ st.spans, s.1 ≤ p ∧ p ≤ s.2) := by
  intro p hp
  obtain ⟨hC, he⟩ := lex_full hW h
  rcases he with h0 | hcur
  · omega
  · exact hC.cov p (by omega)

/-- NO SKEW: with the position repairs in the code and hygienic delimiter tables (`cleanCfg`, decidable), no jump of the
    tokenizer passes over a CR/LF — the blank jump, digit batches, the alnum batch, delimiter jumps (the keyword-trie walk only
    reports unfolded text for blank-free keys), escape steps, the keyword jump, the str.find fast path and the rewind -/
theorem lex_never_skews (cfg : Cfg) (sql : Sql) (st : St) (hC : cleanCfg cfg = true) (hW : WF sql)
    (h : lex cfg sql = .ok st) : st.skew = false :=
  lex_sk hC hW h

/-- WHOLE RUN, UNCONDITIONAL for clean configurations: every token's line and column are the reference line/column of its
    end offset -/
theorem lex_line_col_exact (cfg : Cfg) (sql : Sql) (st : St) (hC : cleanCfg cfg = true) (hW : WF sql)
    (h : lex cfg sql = .ok st) :
    ∀ t ∈ st.toks, t.line = lineOf sql t.stop ∧ t.col + crlfAdj sql t.stop = colOf sql t.stop :=
  lex_line_col_agree cfg sql st hW h (lex_sk hC hW h)

/-- TABLE FACT: the generated base configuration (flags probed from the live code, delimiter tables from the live classes)
    passes the hygiene test — this fails to build if one of the three position repairs is reverted -/
theorem base_cfg_clean : cleanCfg baseCfg = true := by decide +kernel

/-- WHOLE RUN: the regions of `gaps_are_space_or_comment` really are comments — each was opened by a line- or block-comment
    start delimiter w of the configuration, and (w containing no blank, which `cleanCfg` guarantees for block comments) the
    input spells w at the first offsets of the region -/
theorem comment_spans_start_with_delimiter (cfg : Cfg) (sql : Sql) (st : St) (hW : WF sql) (h : lex cfg sql = .ok st) :
    ∀ s ∈ st.spans, ∃ w, (memS w cfg.lineComments = true ∨ (lookupS w cfg.comments).isSome = true) ∧
      ((∀ c ∈ w, c ≠ ' ') → ∀ k, k < w.length → ∃ ch, sql[s.1 + k]? = some ch ∧ w[k]? = some ch.c) :=
  lex_spans hW h

/-- … and the run consumed the whole input -/
theorem lex_consumes_input (cfg : Cfg) (sql : Sql) (st : St) (hW : WF sql) (h : lex cfg sql = .ok st) :
    st.current = sql.size := by
  rcases (lex_full hW h).2 with h0 | hcur
  · have := (lex_full hW h).1.le; omega
  · exact hcur

/-- PROGRESS (also used by C05 as `scan_progress`): one iteration of the `_scan` loop, started between two tokens, strictly
    advances the cursor and stays inside the input; hence the loop performs at most len(sql) iterations -/
theorem lex_progress (cfg : Cfg) (sql : Sql) (st st' : St) (hW : WF sql) (hC : CInv sql st)
    (h : scanStep cfg sql st = .ok st') : st.current < st'.current ∧ st'.current ≤ sql.size ∧ CInv sql st' := by
  obtain ⟨c, hlt⟩ := scanStep_full hW hC h
  exact ⟨hlt, c.le, c⟩

/-- `_advance(alnum=True)` keeps the position invariant and never raises `skew` -/
theorem advance_alnum_pinv (sql : Sql) (st st' : St) (hW : WF sql) (hP : PInv sql st)
    (h : advanceAlnum sql st = .ok st') : PInv sql st' ∧ st'.skew = st.skew :=
  advanceAlnum_pinv hW hP h

/-- THE fast-path lemma (∀ input): sql.count / sql.rfind bookkeeping = the reference position of the closing delimiter,
    provided the literal [pos, e) contains no lone CR and the character at e is not LF -/
theorem fast_path_position_exact (sql : Sql) (line col pos e : Nat) (hpe : pos ≤ e)
    (hcr : hasLoneCR sql pos (e - pos) = false) (hd : isLF sql e = false)
    (hl : line = lineOf sql pos) (hc : col + crlfAdj sql pos = colOf sql pos) :
    (fastPos sql line col pos e).1 = lineOf sql e ∧ (fastPos sql line col pos e).2 + crlfAdj sql e = colOf sql e :=
  fastPos_exact hpe hcr hd hl hc

/-- the str.find fast path of `_extract_string` as a whole keeps the position invariant unless it flags `skew`
    (`skew` is raised exactly for a lone CR inside the literal) -/
theorem fast_string_pinv (cfg : Cfg) (sql : Sql) (st st' : St) (x : XCfg) (text : List Char)
    (hc : 1 ≤ st.current) (hP : PInv sql st) (h : fastString cfg sql st x = some (st', text))
    (hs : st'.skew = false) : PInv sql st' :=
  (fastString_fw hc h).pinv hs hP

/-- with the lone-CR guard that is now in the code (`fixLoneCR`): the fast path never skews, so its position update is exact
    for EVERY literal it accepts — the same position the character-by-character slow path reaches -/
theorem fast_string_exact_when_fixed (cfg : Cfg) (sql : Sql) (st st' : St) (x : XCfg) (text : List Char)
    (hfix : cfg.fixLoneCR = true) (hd : x.delim ≠ ['\n']) (hc : 1 ≤ st.current) (hP : PInv sql st)
    (hs : st.skew = false) (h : fastString cfg sql st x = some (st', text)) :
    PInv sql st' ∧ st'.skew = false := by
  have hsk := fastString_fixed_skew hfix hd h
  have hs' : st'.skew = false := by rw [hsk]; exact hs
  exact ⟨(fastString_fw hc h).pinv hs' hP, hs'⟩

/-- ASCII inputs satisfy the character-class hypothesis (so the whole-run theorems are not vacuous) -/
theorem ascii_wf (s : String) : WF (asciiSql s) := by
  intro j ch hj
  have hmem : ∃ c, ch = asciiCh c := by
    unfold asciiSql at hj
    rw [List.getElem?_toArray, List.getElem?_map] at hj
    cases hc : s.toList[j]? with
    | none => rw [hc] at hj; cases hj
    | some c => rw [hc] at hj; exact ⟨c, by cases hj; rfl⟩
  obtain ⟨c, rfl⟩ := hmem
  constructor
  · intro h
    simp only [asciiCh] at h ⊢
    rcases h with h | h | h | h <;> simp [h]
  · intro h
    simp only [asciiCh, Bool.or_eq_true, Bool.and_eq_true, decide_eq_true_eq, isDigit] at h ⊢
    constructor <;> intro hc <;> subst hc <;> revert h <;> decide

/-! ### positions reported later: Parser.raise_error and Expression.update_positions -/

/-- the token `raise_error` describes: the explicit argument, else `_curr`, else `_prev` -/
theorem raise_error_token_priority (t c p : Tok) (oc op : Option Tok) :
    chooseTok (some t) oc op = t ∧ chooseTok none (some c) op = c ∧ chooseTok none none (some p) = p := ⟨rfl, rfl, rfl⟩

/-- `Parser.raise_error`: line/col are the chosen token's, the highlight is exactly sql[token.start .. token.end], the
    contexts are the (at most `error_message_context`) characters before and after it -/
theorem raise_error_selects_token (sql : List Char) (token curr prev : Option Tok) (ctx : Nat)
    (h1 : (chooseTok token curr prev).start ≤ (chooseTok token curr prev).stop)
    (h2 : (chooseTok token curr prev).stop < sql.length) :
    (raiseError sql token curr prev ctx).line = (chooseTok token curr prev).line ∧
    (raiseError sql token curr prev ctx).col = (chooseTok token curr prev).col ∧
    (raiseError sql token curr prev ctx).highlight =
      pySlice sql (chooseTok token curr prev).start ((chooseTok token curr prev).stop + 1) ∧
    (raiseError sql token curr prev ctx).startCtx =
      pySlice sql ((chooseTok token curr prev).start - ctx) (chooseTok token curr prev).start ∧
    (raiseError sql token curr prev ctx).endCtx =
      pySlice sql ((chooseTok token curr prev).stop + 1) ((chooseTok token curr prev).stop + 1 + ctx) ∧
    (raiseError sql token curr prev ctx).startCtx.length ≤ ctx ∧ (raiseError sql token curr prev ctx).endCtx.length ≤ ctx := by
  obtain ⟨a, _, c, d⟩ := highlight_selects sql _ _ ctx h1 h2
  obtain ⟨e, f, _⟩ := highlight_context_bounds sql _ _ ctx h1 h2
  exact ⟨rfl, rfl, a, c, d, e, f⟩

/-- END TO END (tokenizer + parser error): an error raised on a token of a complete run of `lex` highlights exactly that
    token's lexeme and reports the reference line / column of the lexeme's last character -/
theorem raise_error_on_lexed_token (cfg : Cfg) (sql : Sql) (st : St) (t : Tok) (curr prev : Option Tok) (ctx : Nat)
    (hC : cleanCfg cfg = true) (hW : WF sql) (h : lex cfg sql = .ok st) (ht : t ∈ st.toks) :
    (raiseError (sqlText sql) (some t) curr prev ctx).highlight = slice sql t.start (t.stop + 1) ∧
    (raiseError (sqlText sql) (some t) curr prev ctx).line = lineOf sql t.stop ∧
    (raiseError (sqlText sql) (some t) curr prev ctx).col + crlfAdj sql t.stop = colOf sql t.stop ∧
    (raiseError (sqlText sql) (some t) curr prev ctx).startCtx.length ≤ ctx ∧
    (raiseError (sqlText sql) (some t) curr prev ctx).endCtx.length ≤ ctx := by
  have hb := lex_tokens_inside cfg sql st hW h t ht
  have hl := lex_line_col_exact cfg sql st hC hW h t ht
  have := raise_error_selects_token (sqlText sql) (some t) curr prev ctx hb.1 (by rw [sqlText_length]; exact hb.2)
  obtain ⟨r1, r2, r3, _, _, r6, r7⟩ := this
  refine ⟨by rw [r3, slice_eq_pySlice]; rfl, by rw [r1]; exact hl.1, by rw [r2]; exact hl.2, r6, r7⟩

/-- `update_positions(token)`: the four position keys become exactly the token's -/
theorem update_positions_token (m : Meta) (t : Tok) :
    updatePositions m (.token t) = ⟨some (some t.line), some (some t.col), some (some t.start), some (some t.stop)⟩ := rfl

/-- `update_positions(other_expr)` copies a complete set of positions unchanged (so positions handed from node to node, as
    the BigQuery table-part code does, still denote the original token), and an expression without meta changes nothing -/
theorem update_positions_copy (m m0 : Meta) (t : Tok) :
    updatePositions m (.expr (some (updatePositions m0 (.token t)))) = updatePositions m (.token t) ∧
    updatePositions m (.expr none) = m := ⟨rfl, rfl⟩

/-- END TO END (tokenizer + `Parser.expression(node, token)`): the meta of a node built from a token of a complete run covers
    exactly that token — start ≤ end inside the input, and line/col are the reference position of its last character -/
theorem meta_selects_lexeme (cfg : Cfg) (sql : Sql) (st : St) (t : Tok) (m : Meta)
    (hC : cleanCfg cfg = true) (hW : WF sql) (h : lex cfg sql = .ok st) (ht : t ∈ st.toks) :
    (expressionMeta m (some t)).start = some (some t.start) ∧ (expressionMeta m (some t)).stop = some (some t.stop) ∧
    t.start ≤ t.stop ∧ t.stop < sql.size ∧
    (expressionMeta m (some t)).line = some (some (lineOf sql t.stop)) ∧
    (∃ c, (expressionMeta m (some t)).col = some (some c) ∧ c + crlfAdj sql t.stop = colOf sql t.stop) := by
  have hb := lex_tokens_inside cfg sql st hW h t ht
  have hl := lex_line_col_exact cfg sql st hC hW h t ht
  refine ⟨rfl, rfl, hb.1, hb.2, ?_, t.col, rfl, hl.2⟩
  show some (some t.line) = _
  rw [hl.1]

/-- STRUCTURE FACTS (read with `ast` from the source on each run): the pieces of `Parser.raise_error`, `Parser.expression` and
    POSITION_META_KEYS that the model mirrors are still what the model assumes -/
theorem generated_positions_shape_ok :
    positionMetaKeys = ["line", "col", "start", "end"] ∧
    raiseErrorShape = ["token = token or self._curr or self._prev or Token.string('')",
      "highlight_sql:context_length=self.error_message_context", "highlight_sql:positions=[(token.start, token.end)]",
      "highlight_sql:sql=self.sql", "ParseError.new:col=token.col", "ParseError.new:end_context=end_context",
      "ParseError.new:highlight=highlight", "ParseError.new:line=token.line", "ParseError.new:start_context=start_context",
      "expression: if token: instance.update_positions(token)"] := by decide

/-- STRUCTURE FACT (ast table of call sites, re-read on each run): every override / wrapper of parse, parse_into, _parse in
    parser.py, parsers/*.py, dialects/*.py and sqlglot/__init__.py hands the statement text `sql` on to its delegate — the premise
    "parser.sql is the text the tokens were lexed from" of `raise_error_on_lexed_token` at every entry point -/
theorem parser_delegates_pass_sql : parserDelegates.all (fun r => r.2.2) = true ∧ parserDelegates ≠ [] := by decide

/-- WITNESS for the dropped-argument variant (a delegate called without `sql`, so the sub-parser runs with self.sql == ""):
    the error keeps the token's line/col but highlight and both contexts are empty — the reported position selects nothing -/
theorem raise_error_dropped_sql_witness (t : Tok) (curr prev : Option Tok) (ctx : Nat) (h : t.start ≤ t.stop) :
    (raiseError [] (some t) curr prev ctx).line = t.line ∧ (raiseError [] (some t) curr prev ctx).col = t.col ∧
    (raiseError [] (some t) curr prev ctx).highlight = [] ∧ (raiseError [] (some t) curr prev ctx).startCtx = [] ∧
    (raiseError [] (some t) curr prev ctx).endCtx = [] := by
  simp only [raiseError, chooseTok]
  rw [highlight_single [] t.start t.stop ctx h]
  simp [pySlice]

/-! ### parser-side position merges (BigQuery INFORMATION_SCHEMA.VIEW → one identifier) -/

/-- the merged node's span is [first.start, last.end]; its column is the last part's column -/
theorem merged_span_is_first_start_last_end (m : Meta) (t1 t2 : Tok) (b : Bool) :
    (mergeSpan m (updatePositions {} (.token t1)) (updatePositions {} (.token t2)) b).start = some (some t1.start) ∧
    (mergeSpan m (updatePositions {} (.token t1)) (updatePositions {} (.token t2)) b).stop = some (some t2.stop) ∧
    (mergeSpan m (updatePositions {} (.token t1)) (updatePositions {} (.token t2)) b).col = some (some t2.col) ∧
    (mergeSpan m (updatePositions {} (.token t1)) (updatePositions {} (.token t2)) b).line =
      some (some (if b then t2.line else t1.line)) := by
  cases b <;> exact ⟨rfl, rfl, rfl, rfl⟩

/-- END TO END: two tokens of a complete run, the first before the second: the merged span contains both lexemes, lies inside the
    input, and — with the line taken from the last part — its line/col are the reference position of its last character -/
theorem merged_span_covers_tokens (cfg : Cfg) (sql : Sql) (st : St) (t1 t2 : Tok) (m : Meta)
    (hC : cleanCfg cfg = true) (hW : WF sql) (h : lex cfg sql = .ok st) (h1 : t1 ∈ st.toks) (h2 : t2 ∈ st.toks)
    (hord : t1.stop < t2.start) :
    t1.start ≤ t1.stop ∧ t1.stop < t2.start ∧ t2.start ≤ t2.stop ∧ t2.stop < sql.size ∧
    (mergeSpan m (updatePositions {} (.token t1)) (updatePositions {} (.token t2)) true).line = some (some (lineOf sql t2.stop)) ∧
    (∃ c, (mergeSpan m (updatePositions {} (.token t1)) (updatePositions {} (.token t2)) true).col = some (some c) ∧
      c + crlfAdj sql t2.stop = colOf sql t2.stop) := by
  have b1 := lex_tokens_inside cfg sql st hW h t1 h1
  have b2 := lex_tokens_inside cfg sql st hW h t2 h2
  have hl := lex_line_col_exact cfg sql st hC hW h t2 h2
  refine ⟨b1.1, hord, b2.1, b2.2, ?_, t2.col, rfl, hl.2⟩
  show some (some t2.line) = _
  rw [hl.1]

/-- CLEAN-TREE DEFECT (found in round 7): the merge takes `line` from the FIRST part and `col` from the LAST part, so when the two
    parts stand on different lines the recorded (line, col) is not the position of any character of the span's end -/
theorem merged_span_line_witness (m : Meta) (t1 t2 : Tok) (h : t1.line ≠ t2.line) :
    (mergeSpan m (updatePositions {} (.token t1)) (updatePositions {} (.token t2)) false).line ≠ some (some t2.line) := by
  intro hc
  have : t1.line = t2.line := by
    have := (merged_span_is_first_start_last_end m t1 t2 false).2.2.2
    rw [this] at hc
    simpa using hc
  exact h this

/-- STRUCTURE FACTS (ast): the keyword form of `update_positions` assigns all four position keys unconditionally (no `if v`
    filter, so an offset of 0 is recorded), and every parser call site that uses the keyword form passes all four keys -/
theorem update_positions_keyword_form_ok :
    updatePositionsKeywordBranch = ["meta = self.meta", "meta['line'] = line", "meta['col'] = col", "meta['start'] = start",
      "meta['end'] = end"] ∧
    positionMergeSites ≠ [] ∧ positionMergeSites.all (fun s => s.2 == ["col", "end", "line", "start"]) = true := by decide

/-! ### non-vacuity and witnesses (complete evaluations of the model on concrete inputs, `decide +kernel`) -/

/-- the hypotheses of `highlight_selects` are satisfiable and the result is the expected lexeme -/
example : (highlightSql "SELECT foo FROM".toList [(7, 9)] 3).highlight = "foo".toList
    ∧ (highlightSql "SELECT foo FROM".toList [(7, 9)] 3).startCtx = "CT ".toList := by decide +kernel

/-- multi-line input with CRLF, a lone CR, a comment and a string spanning lines: no jump skipped a line break and every
    token's (line, col) equals the reference (lineOf, colOf) of its end offset -/
example :
    (runSummary baseCfg "select a\r\n , 'x\ny' -- c\rfrom t").map
      (fun r => (r.1, r.2.length, r.2.all (fun t => t.2.1 == t.2.2.2.2.2.1 && t.2.2.1 == t.2.2.2.2.2.2)))
      = some (false, 6, true) := by decide +kernel

/-- the hypotheses of the whole-run theorems are satisfiable: a concrete run returns tokens on a WF input -/
example : WF (asciiSql "select a\r\n , 'x\ny' -- c\rfrom t") ∧
    (runSummary baseCfg "select a\r\n , 'x\ny' -- c\rfrom t").isSome = true :=
  ⟨ascii_wf _, by decide +kernel⟩

/-- 0x / 0b literals (dialects that have them) are inside the model: `int(value, base)` decides HEX_STRING vs IDENTIFIER -/
example :
    (runSummary { baseCfg with hasHex := true, hasBit := true } "0x1F 0b12 0X_ff x").map (fun r => (r.1, r.2.map (·.1))) =
      some (false, ["HEX_STRING", "IDENTIFIER", "HEX_STRING", "VAR"]) := by decide +kernel

/-- CLEAN-TREE DEFECT 1 (DESIGN §6): a lone CR inside a simple string literal.  With the str.find fast path as it is today
    the string and the following token are reported on line 1; their end offsets are on line 2
    (entries: type, line, col, start, end, reference line, reference col). -/
theorem fast_string_lone_cr_witness :
    (runSummary { baseCfg with fixLoneCR := false } "'a\rb' x" ==
      some (true, [("STRING", 1, 5, 0, 4, 2, 2), ("VAR", 1, 7, 6, 6, 2, 4)])) = true := by decide +kernel

/-- … and with the fast path declining literals that contain a CR (pending_fixes/C13-lone-cr.diff) the slow path is exact -/
theorem fast_string_fixed_witness :
    (runSummary { baseCfg with fixLoneCR := true } "'a\rb' x" ==
      some (false, [("STRING", 2, 2, 0, 4, 2, 2), ("VAR", 2, 4, 6, 6, 2, 4)])) = true := by decide +kernel

/-- CLEAN-TREE DEFECT 2: a whitespace-folded multi-word keyword across a line break is jumped over with one `_advance(n)`;
    second component: the repaired behaviour (one character at a time) -/
theorem keyword_jump_break_witness :
    (runSummary { baseCfg with fixKwJump := false } "GROUP\nBY x" ==
      some (true, [("GROUP_BY", 1, 8, 0, 7, 2, 2), ("VAR", 1, 10, 9, 9, 2, 4)])) = true ∧
    (runSummary { baseCfg with fixKwJump := true } "GROUP\nBY x" ==
      some (false, [("GROUP_BY", 2, 2, 0, 7, 2, 2), ("VAR", 2, 4, 9, 9, 2, 4)])) = true := by decide +kernel

/-- TABLE FACT (re-extracted from every dialect's tokenizer class on each run, finite table decided completely):
    no string / identifier / comment delimiter, string prefix or escape character of any dialect contains a CR, LF or blank —
    so the jumps `_advance(len(delimiter))` never pass over a line break and keyword-trie matches of delimiters are unfolded text -/
theorem generated_delims_ok :
    dialectDelims.all (fun d => d.2.all (fun s => s.toList.all (fun c => c != '\n' && c != '\r' && c != ' ' && c != '\t'))) = true := by
  decide +kernel

/-- the base configuration used by the witnesses is the generated one and carries the generated repair flags -/
theorem generated_flags_consistent :
    baseCfg.fixLoneCR = fixLoneCR ∧ baseCfg.fixKwJump = fixKwJump ∧ baseCfg.fixEscJump = fixEscJump := ⟨rfl, rfl, rfl⟩

end SqlglotModel.Properties.C13
