/-
  C13 — Source positions of tokens, nodes and errors point at the text they describe.
  Only property theorems, non-vacuity examples and counter-example witnesses live here (lemmas: Proofs/Lex.lean).

  Scope of what is PROVED (all for arbitrary input and arbitrary tokenizer configuration):
    * the cursor arithmetic of `_advance` (forward jumps, the alnum batch is a forward jump, rewinds) keeps the position
      invariant `PInv` whenever the characters jumped over contain no CR/LF; the model sets its ghost flag `skew` exactly when a
      jump does pass over one, and the two clean-tree defects (lone CR in the str.find fast path, multi-word keyword across a
      line break) are exhibited as witnesses, together with the repaired behaviour;
    * `_add` stamps the cursor's line/col and [_start, current-1] on the token, hence in a `PInv` state the token's line/col
      agree with its end offset (`line_col_agree`); tokens added under the `_scan` phase discipline (`InvS`/`InvC`) are strictly
      ordered, non-overlapping, non-empty and inside the input (`tokens_ordered`, `tokens_inside`);
    * `highlight_sql` with one position (what `Parser.raise_error` passes) selects exactly s[a..b] with the stated contexts.
  NOT proved in Lean (checked by exact model-vs-implementation correspondence and by the search oracle instead): that every
  control path of `lex` follows the phase discipline (each iteration: set `_start` ≥ current, advance, at most one `_add`),
  and the gap/coverage clause for whole runs.
-/
import SqlglotModel.Proofs.Lex
import SqlglotModel.Generated.C13

namespace SqlglotModel.Properties.C13
open SqlglotModel.Lex SqlglotModel.Generated.C13

/-- `_advance(i)`, i ≥ 1: the position invariant is preserved when no skipped character is CR/LF
    (for i = 1 nothing is skipped: single steps are always exact, including CRLF and a lone CR) -/
theorem advance_pinv (sql : Sql) (st st' : St) (i : Nat) (hi : 1 ≤ i) (hP : PInv sql st)
    (hno : hasNL sql st.current (i - 1) = false) (h : advance sql st i = .ok st') : PInv sql st' :=
  advance_pinv_aux sql st st' i hi hP hno h

/-- single steps need no side condition at all -/
theorem advance_one_pinv (sql : Sql) (st st' : St) (hP : PInv sql st) (h : advance sql st 1 = .ok st') : PInv sql st' :=
  advance_pinv_aux sql st st' 1 (Nat.le_refl 1) hP rfl h

/-- a run that ends with `skew = false` never jumped over a CR/LF: `advance` only ever switches the flag on -/
theorem advance_skew_mono (sql : Sql) (st st' : St) (i : Nat) (h : advance sql st i = .ok st') (hs : st'.skew = false) :
    st.skew = false ∧ hasNL sql st.current (i - 1) = false := by
  unfold advance at h
  simp only at h
  split at h
  · cases h
  · injection h with h; subst h
    simpa [Bool.or_eq_false_iff] using hs

/-- `_advance(-n)` (the rewind after `12abc`) -/
theorem retreat_pinv (sql : Sql) (st st' : St) (n : Nat) (hP : PInv sql st)
    (hno : hasNL sql (st.current - 1 - n) n = false) (h : retreat sql st n = .ok st') : PInv sql st' :=
  retreat_pinv_aux sql st st' n hP hno h

/-- `_add`: in a state satisfying the position invariant the appended token's line/col agree with its end offset -/
theorem line_col_agree (cfg : Cfg) (sql : Sql) (st st' : St) (ty : String) (text : Option (List Char))
    (hP : PInv sql st) (hc : 1 ≤ st.current) (h : add cfg sql st ty text = .ok st') :
    ∃ t, st'.toks = st.toks ++ [t] ∧ LC sql t := by
  obtain ⟨t, ht, hl, hco, _, hstop, _⟩ := add_stamp_aux cfg sql st st' ty text h
  refine ⟨t, ht, ?_⟩
  rcases hP with ⟨h0, _, _⟩ | ⟨_, hl', hc'⟩
  · omega
  · exact ⟨by rw [hl, hstop, hl'], by rw [hco, hstop, hc']⟩

/-- tokens whose text is not normalised (`_add(token_type)` without text) carry exactly the slice sql[_start : current] -/
theorem token_text_is_slice (cfg : Cfg) (sql : Sql) (st st' : St) (ty : String)
    (h : add cfg sql st ty none = .ok st') :
    ∃ t, st'.toks = st.toks ++ [t] ∧ t.text = slice sql t.start (t.stop + 1) ∨ st.current = 0 := by
  obtain ⟨t, ht, _, _, hs, hstop, htx, _⟩ := add_stamp_aux cfg sql st st' ty none h
  by_cases h0 : st.current = 0
  · exact ⟨t, Or.inr h0⟩
  · refine ⟨t, Or.inl ⟨ht, ?_⟩⟩
    have : st.current - 1 + 1 = st.current := by omega
    rw [htx, hs, hstop, this]; rfl

/-- moving the cursor forward stays inside the token phase -/
theorem advance_keeps_phase (sql : Sql) (st st' : St) (i : Nat) (hS : InvS sql st)
    (h : advance sql st i = .ok st') : InvS sql st' :=
  advance_invS_aux sql st st' i hS h

/-- `_add` under the `_scan` discipline: the token list stays strictly ordered and non-overlapping
    (`a.stop < b.start` for every earlier a and later b) -/
theorem tokens_ordered (cfg : Cfg) (sql : Sql) (st st' : St) (ty : String) (text : Option (List Char))
    (hS : InvS sql st) (h : add cfg sql st ty text = .ok st') :
    st'.toks.Pairwise (fun a b => a.stop < b.start) :=
  (add_invC_aux cfg sql st st' ty text hS h).sorted

/-- … and every token satisfies 0 ≤ start ≤ end < len(sql) -/
theorem tokens_inside (cfg : Cfg) (sql : Sql) (st st' : St) (ty : String) (text : Option (List Char))
    (hS : InvS sql st) (h : add cfg sql st ty text = .ok st') :
    ∀ t ∈ st'.toks, t.start ≤ t.stop ∧ t.stop < sql.size :=
  fun t ht => ((add_invC_aux cfg sql st st' ty text hS h).toks t ht).1

/-- the next `_scan` iteration (set `_start` to c ≥ current, advance past it) re-enters the token phase -/
theorem next_iteration_phase (sql : Sql) (st st' : St) (c i : Nat) (hC : InvC sql st) (hc : st.current ≤ c)
    (h : advance sql { st with start := c } i = .ok st') (hlt : c < st'.current) : InvS sql st' := by
  unfold advance at h
  simp only at h
  split at h
  · cases h
  · injection h with h; subst h
    refine ⟨hlt, by simp only; omega, hC.sorted, ?_⟩
    intro t ht
    have := hC.toks t ht
    exact ⟨this.1, by simp only; omega⟩

/-- `highlight_sql(sql, [(a, b)], ctx)` — what `Parser.raise_error` calls with (token.start, token.end) —
    returns highlight = s[a..b], start_context = the ctx characters before a, end_context = the ctx characters after b -/
theorem highlight_selects (s : List Char) (a b ctx : Nat) (hab : a ≤ b) (hb : b < s.length) :
    (highlightSql s [(a, b)] ctx).highlight = pySlice s a (b + 1) ∧
    (highlightSql s [(a, b)] ctx).highlight.length = b + 1 - a ∧
    (highlightSql s [(a, b)] ctx).startCtx = pySlice s (a - ctx) a ∧
    (highlightSql s [(a, b)] ctx).endCtx = pySlice s (b + 1) (b + 1 + ctx) := by
  rw [highlight_single s a b ctx hab]
  refine ⟨rfl, ?_, ?_, ?_⟩
  · simp only [pySlice, List.length_take, List.length_drop]; omega
  · simp only
    split
    · rfl
    · have : a = 0 := by omega
      subst this; simp [pySlice]
  · simp only
    split
    · rfl
    · have : s.length ≤ b + 1 := by omega
      simp [pySlice, List.drop_eq_nil_of_le this]

theorem highlight_context_bounds (s : List Char) (a b ctx : Nat) (hab : a ≤ b) (hb : b < s.length) :
    (highlightSql s [(a, b)] ctx).startCtx.length ≤ ctx ∧ (highlightSql s [(a, b)] ctx).endCtx.length ≤ ctx ∧
    (highlightSql s [(a, b)] ctx).formatted =
      (highlightSql s [(a, b)] ctx).startCtx ++ ansiUL ++ (highlightSql s [(a, b)] ctx).highlight ++ ansiReset ++
        (highlightSql s [(a, b)] ctx).endCtx := by
  obtain ⟨h1, _, h3, h4⟩ := highlight_selects s a b ctx hab hb
  refine ⟨?_, ?_, ?_⟩
  · rw [h3]; simp only [pySlice, List.length_take, List.length_drop]; omega
  · rw [h4]; simp only [pySlice, List.length_take, List.length_drop]; omega
  · rw [highlight_single s a b ctx hab]

/-! ### non-vacuity and witnesses (complete evaluations of the model on concrete inputs, `decide +kernel`) -/

/-- the hypotheses of `highlight_selects` are satisfiable and the result is the expected lexeme -/
example : (highlightSql "SELECT foo FROM".toList [(7, 9)] 3).highlight = "foo".toList
    ∧ (highlightSql "SELECT foo FROM".toList [(7, 9)] 3).startCtx = "CT ".toList := by decide +kernel

/-- multi-line input with CRLF, a lone CR, a comment and a string spanning lines: no jump skipped a line break and every
    token's (line, col) equals the reference (lineOf, colOf) of its end offset -/
example :
    (runSummary baseCfg "select a\r\n , 'x\ny' -- c\rfrom t").map
      (fun r => (r.1, r.2.length, r.2.all (fun t => t.2.1 == t.2.2.2.2.2.1 && t.2.2.1 == t.2.2.2.2.2.2)))
      = some (false, 6, true) := by decide +kernel

/-- CLEAN-TREE DEFECT 1 (DESIGN §6): a lone CR inside a simple string literal.  With the str.find fast path as it is today
    the string and the following token are reported on line 1; their end offsets are on line 2
    (entries: type, line, col, start, end, reference line, reference col). -/
theorem fast_string_lone_cr_witness :
    (runSummary { baseCfg with fixLoneCR := false } "'a\rb' x" ==
      some (true, [("STRING", 1, 5, 0, 4, 2, 2), ("VAR", 1, 7, 6, 6, 2, 4)])) = true := by decide +kernel

/-- … and with the fast path declining literals that contain a CR (pending_fixes/C13-lone-cr.diff) the slow path is exact -/
theorem fast_string_pinv :
    (runSummary { baseCfg with fixLoneCR := true } "'a\rb' x" ==
      some (false, [("STRING", 2, 2, 0, 4, 2, 2), ("VAR", 2, 4, 6, 6, 2, 4)])) = true := by decide +kernel

/-- CLEAN-TREE DEFECT 2: a whitespace-folded multi-word keyword across a line break is jumped over with one `_advance(n)`;
    second component: the repaired behaviour (one character at a time) -/
theorem keyword_jump_break_witness :
    (runSummary { baseCfg with fixKwJump := false } "GROUP\nBY x" ==
      some (true, [("GROUP_BY", 1, 8, 0, 7, 2, 2), ("VAR", 1, 10, 9, 9, 2, 4)])) = true ∧
    (runSummary { baseCfg with fixKwJump := true } "GROUP\nBY x" ==
      some (false, [("GROUP_BY", 2, 2, 0, 7, 2, 2), ("VAR", 2, 4, 9, 9, 2, 4)])) = true := by decide +kernel

/-- TABLE FACT (re-extracted from every dialect's tokenizer class on each run, finite table decided completely):
    no string / identifier / comment delimiter, string prefix or escape character of any dialect contains a CR, LF or blank —
    so the jumps `_advance(len(delimiter))` never pass over a line break and keyword-trie matches of delimiters are unfolded text -/
theorem generated_delims_ok :
    dialectDelims.all (fun d => d.2.all (fun s => s.toList.all (fun c => c != '\n' && c != '\r' && c != ' ' && c != '\t'))) = true := by
  decide +kernel

/-- the base configuration used by the witnesses is the generated one and carries the generated repair flags -/
theorem generated_flags_consistent :
    baseCfg.fixLoneCR = fixLoneCR ∧ baseCfg.fixKwJump = fixKwJump ∧ baseCfg.fixEscJump = fixEscJump := ⟨rfl, rfl, rfl⟩

end SqlglotModel.Properties.C13
