/-
  C10 — Qualification is complete, idempotent and faithful to dialect identifier rules.
  Only property theorems, non-vacuity examples and counter-example witnesses live here.
-/
import SqlglotModel.Proofs.Qualify
import SqlglotModel.Generated.C10

namespace SqlglotModel.Properties.C10
open SqlglotModel.Ident SqlglotModel.Qualify

/-- normalisation is idempotent (for any case maps that are idempotent, as CPython's are) -/
theorem normalize_idempotent (f : CaseFns) (hf : f.Ok) (s : Strategy) (i : Ident) :
    normalize f s (normalize f s i) = normalize f s i := normalize_idem f hf s i

example : CaseFns.Ok ⟨id, id⟩ := ⟨fun _ => rfl, fun _ => rfl⟩

/-- an identifier that is case-sensitive under the strategy (quoted, except under the two CASE_INSENSITIVE
    strategies; anything under CASE_SENSITIVE) is never altered — no hypothesis on the case maps needed -/
theorem normalize_preserves_case_sensitive (f : CaseFns) (s : Strategy) (i : Ident)
    (h : caseSensitiveUnder s i = true) : normalize f s i = i := by
  unfold caseSensitiveUnder at h
  unfold normalize
  simp at h
  simp [h]

example : caseSensitiveUnder .lowercase ⟨"Foo", true⟩ = true := by decide
example : caseSensitiveUnder .caseSensitive ⟨"Foo", false⟩ = true := by decide
example : caseSensitiveUnder .caseInsensitive ⟨"Foo", true⟩ = false := by decide

/-- after `quote_identifiers(identify=True)` every identifier is quoted; normalising the quoted version of an
    already-normalised name changes nothing (why the normalisation stage is the identity on the second pass) -/
theorem normalize_requote_stable (f : CaseFns) (hf : f.Ok) (s : Strategy) (i : Ident) :
    (normalize f s ⟨(normalize f s i).name, true⟩).name = (normalize f s i).name := by
  unfold normalize
  cases s <;> cases hq : i.quoted <;> simp [folds, foldsUpper, hf.lower_idem, hf.upper_idem]

/-- finite decision table, decided completely: the live `Dialect.normalize_identifier`, probed by the translator
    for every (strategy, quoted), acts exactly as `folds` / `foldsUpper` say (0 keep, 1 lower, 2 upper) -/
theorem generated_fold_table_ok :
    Generated.C10.foldTable.all (fun (s, q, a) =>
      a == (if folds s q then (if foldsUpper s then 2 else 1) else 0)) = true
    ∧ Generated.C10.foldTable.length = 10 := by
  decide

/-- the order of the stages in qualify() and of the per-scope steps in qualify_columns() is the modelled one -/
theorem generated_pipeline_ok :
    Generated.C10.pipeline = ["normalize_identifiers", "qualify_tables", "isolate_table_selects",
      "qualify_columns_func", "quote_identifiers_func", "validate_qualify_columns_func"]
    ∧ Generated.C10.scopeSteps = ["_expand_using", "_qualify_columns", "_expand_alias_refs", "_expand_stars",
      "qualify_outputs", "_expand_group_by", "_expand_order_by_and_distinct_on"] := by
  decide

end SqlglotModel.Properties.C10
