/-
  C10 — Qualification is complete, idempotent and faithful to dialect identifier rules.
  Only property theorems, non-vacuity examples and counter-example witnesses live here.
-/
import SqlglotModel.Proofs.Qualify
import SqlglotModel.Generated.C10

namespace SqlglotModel.Properties.C10
open SqlglotModel.Ident SqlglotModel.Qualify

/-- normalisation is idempotent (for any case maps that are idempotent, as CPython's are) -/
theorem normalize_idempotent (f : CaseFns) (hf : f.Ok) (s : Strategy) (i : Ident) :
    normalize f s (normalize f s i) = normalize f s i := normalize_idem f hf s i

example : CaseFns.Ok ⟨id, id⟩ := ⟨fun _ => rfl, fun _ => rfl⟩

/-- an identifier that is case-sensitive under the strategy (quoted, except under the two CASE_INSENSITIVE
    strategies; anything under CASE_SENSITIVE) is never altered — no hypothesis on the case maps needed -/
theorem normalize_preserves_case_sensitive (f : CaseFns) (s : Strategy) (i : Ident)
    (h : caseSensitiveUnder s i = true) : normalize f s i = i := by
  unfold caseSensitiveUnder at h
  unfold normalize
  simp at h
  simp [h]

example : caseSensitiveUnder .lowercase ⟨"Foo", true⟩ = true := by decide
example : caseSensitiveUnder .caseSensitive ⟨"Foo", false⟩ = true := by decide
example : caseSensitiveUnder .caseInsensitive ⟨"Foo", true⟩ = false := by decide

/-- after `quote_identifiers(identify=True)` every identifier is quoted; normalising the quoted version of an
    already-normalised name changes nothing (why the normalisation stage is the identity on the second pass) -/
theorem normalize_requote_stable (f : CaseFns) (hf : f.Ok) (s : Strategy) (i : Ident) :
    (normalize f s ⟨(normalize f s i).name, true⟩).name = (normalize f s i).name := by
  unfold normalize
  cases s <;> cases hq : i.quoted <;> simp [folds, foldsUpper, hf.lower_idem, hf.upper_idem]

/-- finite decision table, decided completely: the live `Dialect.normalize_identifier`, probed by the translator
    for every (strategy, quoted), acts exactly as `folds` / `foldsUpper` say (0 keep, 1 lower, 2 upper) -/
theorem generated_fold_table_ok :
    Generated.C10.foldTable.all (fun (s, q, a) =>
      a == (if folds s q then (if foldsUpper s then 2 else 1) else 0)) = true
    ∧ Generated.C10.foldTable.length = 10 := by
  decide

/-- the order of the stages in qualify() and of the per-scope steps in qualify_columns() is the modelled one -/
theorem generated_pipeline_ok :
    Generated.C10.pipeline = ["normalize_identifiers", "qualify_tables", "isolate_table_selects",
      "qualify_columns_func", "quote_identifiers_func", "validate_qualify_columns_func"]
    ∧ Generated.C10.scopeSteps = ["_expand_using", "_qualify_columns", "_expand_alias_refs", "_expand_stars",
      "qualify_outputs", "_expand_group_by", "_expand_order_by_and_distinct_on"] := by
  decide

/-! ## the scope model -/

/-- **qualify_complete** (one scope).  If qualification of a scope succeeds then every source has an alias, the
    pushed-down column list is consumed, and — `validate` spelled out — every column in the projections, WHERE and
    GROUP BY names one of those aliases, every column in ORDER BY names one or is a bare output name, and every
    QUALIFIED column in HAVING names one.  (Bare names in HAVING escape: see `having_bare_counterexample`.) -/
theorem qualify_complete (g : Gen) (σ : Schema) (outs : List (List String)) (s s' : Scope)
    (h : qualifyScope g σ outs s = .ok s') :
    (∀ src ∈ s'.srcs, src.alias.isSome = true) ∧ s'.outer = []
    ∧ ∃ names : List String, validate names s' = true ∧ ∀ n ∈ names, some n ∈ s'.srcs.map (·.alias) :=
  qualifyScope_complete g σ outs s s' h

/-- the same for every scope of a whole (flattened) query, any number of scopes -/
theorem qualify_complete_all (g : Gen) (σ : Schema) (q q' : List Scope) (h : qualifyModel g σ q = .ok q') :
    q'.length = q.length ∧ ∀ s' ∈ q', Complete s' :=
  qualifyFrom_complete g σ q [] q' h

def g0 : Gen := ⟨fun i => "_col_" ++ toString i, id⟩
def σ0 : Schema := [(["t"], ["a", "b"]), (["u"], ["b", "c"])]
def isOptErr : Except Err Scope → Bool
  | .error .optimize => true
  | _ => false
def sc1 (srcs : List Src) (w : Expr) : Scope :=
  { outer := [], srcs := srcs, projs := [.item (.lit 1) none], whr := some w, group := [], having := none, order := [] }
def tSrc : Src := ⟨.table ["t"], none⟩
def uSrc : Src := ⟨.table ["u"], none⟩

/-- non-vacuity: `SELECT a + 1 AS x, x * 2 AS y, * FROM t WHERE x > 1 ORDER BY y` qualifies -/
example : (match qualifyModel g0 σ0 [{ outer := [], srcs := [tSrc], projs := [.item (.bin .add (.col none "a") (.lit 1)) (some "x"), .item (.bin .mul (.col none "x") (.lit 2)) (some "y"), .star none []], whr := some (.bin .gt (.col none "x") (.lit 1)), group := [], having := none, order := [.col none "y"] }] with
    | .ok [s'] => s'.projs.length == 4 && s'.whr == some (.bin .gt (.paren (.bin .add (.col (some "t") "a") (.lit 1))) (.lit 1))
    | _ => false) = true := by decide +kernel

/-- **star_expansion_schema_order.**  `SELECT *` over sources whose columns are known, distinct and star-free
    becomes, after `_expand_stars` and `qualify_outputs`, exactly the sources' columns — sources in
    `Scope.references` order, columns in schema order — each as `alias.column AS column`. -/
theorem star_expansion_schema_order (cn : Nat → String) (env : Env) (hg : ∀ e ∈ env, GoodSrc e)
    (hne : ∀ e ∈ env, ∀ c ∈ e.2, c ≠ "") :
    expandStarTables [] env = .ok ((env.flatMap (fun e => e.2.map (fun c => (e.1, c)))).map
        (fun p => Proj.item (.col (some p.1) p.2) none))
    ∧ qualifyOutputs cn 0 [] ((env.flatMap (fun e => e.2.map (fun c => (e.1, c)))).map
        (fun p => Proj.item (.col (some p.1) p.2) none))
      = (env.flatMap (fun e => e.2.map (fun c => (e.1, c)))).map
        (fun p => Proj.item (.col (some p.1) p.2) (some p.2)) := by
  constructor
  · rw [expandStarTables_ok [] env hg]
    congr 1
    have hf : ∀ l : List String, l.filter (fun _ => true) = l := by
      intro l; induction l with
      | nil => rfl
      | cons x xs ih => simp [List.filter, ih]
    simp [starCols, List.map_flatMap, List.map_map, Function.comp_def, hf]
  · apply qualifyOutputs_cols
    intro p hp
    simp only [List.mem_flatMap, List.mem_map] at hp
    obtain ⟨e, he, c, hc, rfl⟩ := hp
    exact hne e he c hc

example : ∀ e ∈ ([("t", ["a", "b"]), ("u", ["b", "c"])] : Env), GoodSrc e := by
  intro e he; simp at he; rcases he with rfl | rfl <;> simp [GoodSrc, hasDup]

/-- the order is `references` order: derived tables after tables, whatever the FROM order (known finding
    C10-star-order-derived-after-tables): `SELECT * FROM (scope 0) AS d, t` lists t's columns first -/
theorem star_order_tables_first_witness :
    (match qualifyScope g0 σ0 [["c"]] { outer := [], srcs := [⟨.scope 0 true, some "d"⟩, tSrc], projs := [.star none []], whr := none, group := [], having := none, order := [] } with
     | .ok s' => outNames s'.projs == ["a", "b", "c"]
     | _ => false) = true := by decide +kernel

/-- **unresolved_raises** (via the final validation).  A scope is never returned with a column in its projections,
    WHERE or GROUP BY that lacks a source, or that names a source which is not one of the scope's aliases:
    if such a column would remain, the outcome is an error.  (Contrapositive of `qualify_complete`, spelled out
    for WHERE.) -/
theorem unresolved_raises (g : Gen) (σ : Schema) (outs : List (List String)) (s s' : Scope) (e : Expr)
    (h : qualifyScope g σ outs s = .ok s') (hw : s'.whr = some e) :
    ∃ names : List String, visible names [] e = true ∧ ∀ n ∈ names, some n ∈ s'.srcs.map (·.alias) := by
  obtain ⟨_, _, names, hv, hn⟩ := qualifyScope_complete g σ outs s s' h
  refine ⟨names, ?_, hn⟩
  simp only [validate, hw, Bool.and_eq_true] at hv
  exact hv.1.1.1.2

/-- concretely: an unknown name in WHERE, an ambiguous name, an unknown qualified column and a duplicate alias
    all raise (finite witnesses, decided by evaluation) -/
theorem unresolved_raises_witnesses :
    (isOptErr (qualifyScope g0 σ0 [] (sc1 [tSrc] (.col none "zzz")))
    && isOptErr (qualifyScope g0 σ0 [] (sc1 [tSrc, uSrc] (.col none "b")))
    && isOptErr (qualifyScope g0 σ0 [] (sc1 [tSrc] (.col (some "t") "c")))
    && isOptErr (qualifyScope g0 σ0 [] (sc1 [tSrc] (.col (some "u") "c")))
    && isOptErr (qualifyScope g0 σ0 [] (sc1 [⟨.table ["t"], some "x"⟩, ⟨.table ["u"], some "x"⟩] (.lit 1)))) = true := by
  decide +kernel

/-- **qualify_idempotent, partial.**  On a scope in the form `qualify_complete` guarantees (all projections
    aliased, no bare column left) the second pass's alias expansion (C), star expansion (D) and output
    qualification (E) are identities.  NOT proved: the same for column resolution (B: needs that every `t.c` kept
    by the first pass has `c` among `t`'s columns) and positional / ORDER BY rewriting (F); whole-pipeline
    idempotence is checked by the correspondence run (model and real code, second application) only. -/
theorem qualify_idempotent_partial (cn : Nat → String) (env : Env) (m : AMap) (cl : Clause) (names : List String)
    (ps : List Proj) (hps : AllAliased ps) :
    (∀ (e : Expr) (ctx : Ctx), visible names [] e = true → expand env m cl ctx e = e)
    ∧ expandStars env ps = .ok ps
    ∧ qualifyOutputs cn 0 [] ps = ps :=
  ⟨fun e ctx h => expand_fixed env m cl names e ctx h, expandStars_fixed env ps hps, qualifyOutputs_fixed cn ps 0 hps⟩

/-- and the first pass does produce that form: after `qualify_outputs`, a star-free projection list is fully aliased -/
theorem qualify_idempotent_all_partial (cn : Nat → String) (ps : List Proj) (outer : List String)
    (h : hasStar ps = false) : AllAliased (qualifyOutputs cn 0 outer ps) :=
  qualifyOutputs_allAliased cn ps 0 outer h

/-- concrete second application (decided by evaluation): the result of the non-vacuity example re-qualifies to itself -/
example : (match qualifyModel g0 σ0 [{ outer := [], srcs := [tSrc], projs := [.item (.bin .add (.col none "a") (.lit 1)) (some "x"), .star none []], whr := some (.bin .gt (.col none "x") (.lit 1)), group := [.lit 1], having := none, order := [.lit 2] }] with
    | .ok q' => (match qualifyModel g0 σ0 q' with | .ok q'' => q'' == q' | _ => false)
    | _ => false) = true := by decide +kernel

/-- **output names, partial.**  `qualify_outputs` names a projection by its alias if it has one, else by its column
    name, else `_col_i`; an outer column list overrides position by position. -/
theorem output_names_partial (cn : Nat → String) (e : Expr) (a : String) (i : Nat) (ps : List Proj) :
    qualifyOutputs cn i [] (.item e (some a) :: ps) = .item e (some a) :: qualifyOutputs cn (i + 1) [] ps
    ∧ qualifyOutputs cn i [] (.item (.col (some "t") a) none :: ps)
        = .item (.col (some "t") a) (some (if a == "" then cn i else a)) :: qualifyOutputs cn (i + 1) [] ps
    ∧ ∀ o os, qualifyOutputs cn i (o :: os) (.item e none :: ps) = .item e (some o) :: qualifyOutputs cn (i + 1) os ps := by
  refine ⟨by simp [qualifyOutputs], ?_, fun o os => by simp [qualifyOutputs]⟩
  by_cases h : a = "" <;> simp [qualifyOutputs, outAlias, exprName, h]

/-- counter-example to the FULL statement (known finding C10-alias-ref-projection-renamed): in
    `SELECT a AS x, x FROM t` the second projection is a bare reference to the alias `x`; alias expansion replaces it
    by `t.a` and `qualify_outputs` then names it `a`: the output names change from [x, x] to [x, a]. -/
theorem alias_ref_projection_renamed_counterexample :
    (match qualifyScope g0 σ0 [] { outer := [], srcs := [tSrc], projs := [.item (.col none "a") (some "x"), .item (.col none "x") none], whr := none, group := [], having := none, order := [] } with
     | .ok s' => outNames s'.projs == ["x", "a"]
     | _ => false) = true := by decide +kernel

/-- counter-example to the FULL statement (known finding C10-having-bare-name-unvalidated): a bare name in HAVING
    that resolves to nothing survives qualification (`SELECT a FROM t GROUP BY a HAVING zzz > 1`) -/
theorem having_bare_counterexample :
    (match qualifyScope g0 σ0 [] { outer := [], srcs := [tSrc], projs := [.item (.col none "a") none], whr := none, group := [.col none "a"], having := some (.bin .gt (.col none "zzz") (.lit 1)), order := [] } with
     | .ok s' => s'.having == some (.bin .gt (.col none "zzz") (.lit 1))
     | _ => false) = true := by decide +kernel

end SqlglotModel.Properties.C10
