/-
  C10 — Qualification is complete, idempotent and faithful to dialect identifier rules.
  Only property theorems, non-vacuity examples and counter-example witnesses live here.
-/
import SqlglotModel.Proofs.Qualify
import SqlglotModel.Generated.C10

namespace SqlglotModel.Properties.C10
open SqlglotModel.Ident SqlglotModel.Qualify

/-- normalisation is idempotent (for any case maps that are idempotent, as CPython's are) -/
theorem normalize_idempotent (f : CaseFns) (hf : f.Ok) (s : Strategy) (i : Ident) :
    normalize f s (normalize f s i) = normalize f s i := normalize_idem f hf s i

example : CaseFns.Ok ⟨id, id⟩ := ⟨fun _ => rfl, fun _ => rfl⟩

/-- an identifier that is case-sensitive under the strategy (quoted, except under the two CASE_INSENSITIVE
    strategies; anything under CASE_SENSITIVE) is never altered — no hypothesis on the case maps needed -/
theorem normalize_preserves_case_sensitive (f : CaseFns) (s : Strategy) (i : Ident)
    (h : caseSensitiveUnder s i = true) : normalize f s i = i := by
  unfold caseSensitiveUnder at h
  unfold normalize
  simp at h
  simp [h]

example : caseSensitiveUnder .lowercase ⟨"Foo", true⟩ = true := by decide
example : caseSensitiveUnder .caseSensitive ⟨"Foo", false⟩ = true := by decide
example : caseSensitiveUnder .caseInsensitive ⟨"Foo", true⟩ = false := by decide

/-- after `quote_identifiers(identify=True)` every identifier is quoted; normalising the quoted version of an
    already-normalised name changes nothing (why the normalisation stage is the identity on the second pass) -/
theorem normalize_requote_stable (f : CaseFns) (hf : f.Ok) (s : Strategy) (i : Ident) :
    (normalize f s ⟨(normalize f s i).name, true⟩).name = (normalize f s i).name := by
  unfold normalize
  cases s <;> cases hq : i.quoted <;> simp [folds, foldsUpper, hf.lower_idem, hf.upper_idem]

/-- finite decision table, decided completely: the live `Dialect.normalize_identifier`, probed by the translator
    for every (strategy, quoted), acts exactly as `folds` / `foldsUpper` say (0 keep, 1 lower, 2 upper) -/
theorem generated_fold_table_ok :
    Generated.C10.foldTable.all (fun (s, q, a) =>
      a == (if folds s q then (if foldsUpper s then 2 else 1) else 0)) = true
    ∧ Generated.C10.foldTable.length = 10 := by
  decide

/-- the order of the stages in qualify() and of the per-scope steps in qualify_columns() is the modelled one -/
theorem generated_pipeline_ok :
    Generated.C10.pipeline = ["normalize_identifiers", "qualify_tables", "isolate_table_selects",
      "qualify_columns_func", "quote_identifiers_func", "validate_qualify_columns_func"]
    ∧ Generated.C10.scopeSteps = ["_expand_using", "_qualify_columns", "_expand_alias_refs", "_expand_stars",
      "qualify_outputs", "_expand_group_by", "_expand_order_by_and_distinct_on"] := by
  decide

/-! ## table-sensitive dialects and the default db / catalog -/

/-- **default_qualifier_case_preserved.**  Under a table-sensitive dialect (BigQuery: the override is present and
    the strategy is CASE_INSENSITIVE) the default `db` / `catalog` handed to `qualify` / `qualify_tables` keeps its
    spelling exactly — because the `is_table` tag is set BEFORE normalisation (`tagFirst`), for any case maps. -/
theorem default_qualifier_case_preserved (f : CaseFns) (i : Ident) :
    defaultQualifier f true .caseInsensitive true i = i := by
  simp [defaultQualifier, normalizeT, tableCaseSensitive, TableCtx.plain]

/-- the order the source uses today (re-extracted each run) is that one -/
theorem generated_default_qualifier_ok : Generated.C10.defaultQualifierTagFirst = true := by decide

/-- and it matters: with the tag set only after normalising, `MyDs` becomes `myds` (the schema lookup then misses) -/
theorem default_qualifier_needs_tag_first :
    (defaultQualifier asciiFns true .caseInsensitive false ⟨"MyDs", false⟩).name = "myds" := by decide +kernel

/-- for every other dialect the tag is irrelevant: `normalizeT` is `Ident.normalize` -/
theorem normalizeT_base (f : CaseFns) (s : Strategy) (c : TableCtx) (i : Ident) :
    normalizeT f false s c i = normalize f s i := by
  simp [normalizeT]

/-- table parts stay as written, everything else is folded whatever its quoting (BigQuery's rule), and folding is idempotent -/
theorem normalizeT_table_sensitive (f : CaseFns) (hf : f.Ok) (c : TableCtx) (i : Ident) :
    (tableCaseSensitive c = true → normalizeT f true .caseInsensitive c i = i)
    ∧ normalizeT f true .caseInsensitive c (normalizeT f true .caseInsensitive c i) = normalizeT f true .caseInsensitive c i := by
  constructor
  · intro h; simp [normalizeT, h]
  · by_cases h : tableCaseSensitive c = true
    · simp [normalizeT, h]
    · simp [normalizeT, h, hf.lower_idem]

/-! ## generated output names -/

/-- **generated_name_is_fixpoint.**  The name `qualify_outputs` gives an unaliased, unnamed projection — `_col_<i>` passed
    through the dialect's normalisation as an unquoted identifier, which is what the model's `Gen.colName` is instantiated
    with — is a fixpoint of that normalisation, for every strategy and any idempotent case maps: re-normalising it (as
    on the second pass, or when an enclosing query mentions it unquoted) gives the same name. -/
theorem generated_name_is_fixpoint (f : CaseFns) (hf : f.Ok) (s : Strategy) (i : Nat) :
    (normalize f s ⟨(normalize f s ⟨"_col_" ++ toString i, false⟩).name, false⟩).name
      = (normalize f s ⟨"_col_" ++ toString i, false⟩).name := by
  have h := normalize_idem f hf s ⟨"_col_" ++ toString i, false⟩
  have hq : normalize f s ⟨"_col_" ++ toString i, false⟩
      = ⟨(normalize f s ⟨"_col_" ++ toString i, false⟩).name, false⟩ := by
    unfold normalize; split <;> rfl
  rw [← hq, h]

/-- every `_col_<i>` construction in `qualify_outputs` has its `normalize_identifier` call (counted by ast each run) -/
theorem generated_col_name_sites_ok :
    0 < Generated.C10.colNameSites.1 ∧ Generated.C10.colNameSites.1 ≤ Generated.C10.colNameSites.2 := by decide

/-- the un-normalised lower-case name is NOT a fixpoint under an upper-casing strategy: it becomes `_COL_0`, so an
    enclosing query's unquoted `_col_0` no longer matches it, and under CASE_INSENSITIVE_UPPERCASE the second pass rewrites it -/
theorem unnormalised_generated_name_witness :
    (normalize asciiFns .uppercase ⟨"_col_0", false⟩).name = "_COL_0"
    ∧ (normalize asciiFns .caseInsensitiveUpper ⟨"_col_0", true⟩).name = "_COL_0"
    ∧ (normalize asciiFns .lowercase ⟨"_col_0", false⟩).name = "_col_0" := by decide +kernel

/-! ## the schema's memo of normalised names -/

/-- **schema_name_memo_sound.**  `MappingSchema._normalize_name` with its memo answers exactly what the un-memoised
    normalisation answers — for every call history — provided the memo key contains the role (`is_table`) OR the
    dialect's normalisation does not depend on the role (every dialect except the table-sensitive ones). -/
theorem schema_name_memo_sound (hasRole : Bool) (f : CaseFns) (ts : Bool) (s : Strategy) (h : hasRole = true ∨ ts = false)
    (memo : NameMemo) (hm : MemoOk hasRole f ts s memo) (k : NKey) :
    (normMemo hasRole f ts s memo k).1 = normName f ts s k ∧ MemoOk hasRole f ts s (normMemo hasRole f ts s memo k).2 :=
  normMemo_sound hasRole f ts s h memo hm k

example (f : CaseFns) (s : Strategy) : MemoOk true f true s [] := by intro e he; simp at he

/-- the memo key the source uses today (re-read each run) contains every input: name, quoting, dialect, role, normalize -/
theorem generated_schema_memo_key_ok :
    ["name_str", "quoted", "dialect", "is_table", "normalize"].all (fun x => Generated.C10.schemaNameMemoKey.contains x) = true := by
  decide

/-- and the role is needed: under a table-sensitive dialect (BigQuery) a memo keyed without it answers the COLUMN `Tbl`
    with what it stored for the TABLE `Tbl` (`Tbl` instead of `tbl`); keyed with the role both are right; for a
    role-insensitive dialect the key without the role is harmless -/
theorem schema_name_memo_without_role_witness :
    normMemoRun false asciiFns true .caseInsensitive [] [⟨"Tbl", false, true⟩, ⟨"Tbl", false, false⟩] = ["Tbl", "Tbl"]
    ∧ normMemoRun true asciiFns true .caseInsensitive [] [⟨"Tbl", false, true⟩, ⟨"Tbl", false, false⟩] = ["Tbl", "tbl"]
    ∧ normMemoRun false asciiFns false .caseInsensitive [] [⟨"Tbl", false, true⟩, ⟨"Tbl", false, false⟩] = ["tbl", "tbl"] := by
  decide +kernel

/-! ## lexical visibility of CTE names -/

/-- **cte_sibling_independence.**  With `Scope.branch` building a new `cte_sources` mapping (what the source does;
    re-read each run), take any scope store, any parent scope `p`, branch an inner scope from it (with any extra CTEs),
    let that inner scope process a nested WITH (`_traverse_ctes`: in-place update with any definitions), then branch a
    LATER sibling from `p`: every name resolves in the later sibling exactly as the parent's mapping resolved it before —
    the names defined inside one branch are invisible in another, and cannot shadow an outer CTE or a schema table there. -/
theorem cte_sibling_independence (st : CState) (p : Nat) (extra defs : CteEnv) (n : String) (ps : CScope)
    (hp : st.scopes[p]? = some ps) (href : ps.ref < st.envs.length) :
    cresolve (cbranch true (cupdate (cbranch true st p extra) st.scopes.length defs) p []) (st.scopes.length + 1) n
      = (st.env ps.ref).lookup n :=
  sibling_independent st p extra defs n ps hp href

/-- the source does copy (Scope.branch passes `{**self.cte_sources, **…}`), and `_traverse_ctes` updates in place -/
theorem generated_cte_scoping_ok :
    Generated.C10.branchCopiesCteSources = true ∧ Generated.C10.traverseCtesUpdatesInPlace = true := by decide

/-- the shared-mapping variant leaks: `WITH o AS (…) SELECT … FROM (WITH c AS (…) SELECT … FROM c) AS s1, (SELECT … FROM c) AS s2`
    — the root defines o (0); s1 is branched, defines its private c (1); s2 is branched afterwards and looks up c: with a
    shared mapping it finds s1's c, with a copied one it finds nothing (the schema table c); o is visible either way -/
theorem cte_shared_dict_leak_witness :
    let ops := [COp.update 0 [("o", 0)], .branch 0 [], .update 1 [("c", 1)], .branch 0 [], .resolve 2 "c", .resolve 2 "o"]
    crun false CState.root ops = [some 1, some 0] ∧ crun true CState.root ops = [none, some 0] := by
  decide +kernel

/-! ## the scope model -/

/-- **qualify_complete** (one scope).  If qualification of a scope succeeds then every source has an alias, the
    pushed-down column list is consumed, and — `validate` spelled out — every column in the projections, WHERE and
    GROUP BY names one of those aliases, every column in ORDER BY names one or is a bare output name, and every
    QUALIFIED column in HAVING names one.  (Bare names in HAVING escape: see `having_bare_counterexample`.) -/
theorem qualify_complete (g : Gen) (σ : Schema) (outs : List (List String)) (s s' : Scope)
    (h : qualifyScope g σ outs s = .ok s') :
    (∀ src ∈ s'.srcs, src.alias.isSome = true) ∧ s'.outer = []
    ∧ ∃ names : List String, validate names s' = true ∧ ∀ n ∈ names, some n ∈ s'.srcs.map (·.alias) :=
  qualifyScope_complete g σ outs s s' h

/-- the same for every scope of a whole (flattened) query, any number of scopes -/
theorem qualify_complete_all (g : Gen) (σ : Schema) (q q' : List Scope) (h : qualifyModel g σ q = .ok q') :
    q'.length = q.length ∧ ∀ s' ∈ q', Complete s' :=
  qualifyFrom_complete g σ q [] q' h

def g0 : Gen := { colName := fun i => "_col_" ++ toString i, refold := id }
def σ0 : Schema := [(["t"], ["a", "b"]), (["u"], ["b", "c"])]
def isOptErr : Except Err Scope → Bool
  | .error .optimize => true
  | _ => false
def sc1 (srcs : List Src) (w : Expr) : Scope :=
  { outer := [], joins := [], srcs := srcs, projs := [.item (.lit 1) none], whr := some w, group := [], having := none, order := [] }
def tSrc : Src := ⟨.table ["t"], none⟩
def uSrc : Src := ⟨.table ["u"], none⟩

/-! ## join-context resolution of bare names in JOIN … ON -/

/-- **join_context_within_prefix.**  A bare name in the ON condition of a join that no source of the whole scope owns
    alone is bound — if at all — to a source among those AVAILABLE at that join (`pre`: the FROM source and the joins up to
    and including this one, in definition order), and that source has the column; never to a table joined later. -/
theorem join_context_within_prefix (env pre : Env) (n t : String) (hu : unique env n = none)
    (h : qcolOn env pre (.col none n) = .ok (.col (some t) n)) :
    ∃ cols, (t, cols) ∈ pre ∧ cols.contains n = true :=
  qcolOn_prefix env pre n t hu h

/-- the source collects the available sources by name in FROM/JOIN definition order (re-read each run) -/
theorem generated_join_context_ok : Generated.C10.joinContextDefinitionOrder = true := by decide

def σ4 : Schema := [(["x"], ["a"]), (["y"], ["d"]), (["z"], ["c", "e"])]
/-- `SELECT q.c FROM (scope 0: outputs c) AS q JOIN y ON y.d = c JOIN z ON z.e = y.d` -/
def qyz : Scope :=
  { outer := [], srcs := [⟨.scope 0 true, some "q"⟩, ⟨.table ["y"], none⟩, ⟨.table ["z"], none⟩],
    joins := [⟨false, [], some (.bin .eq (.col (some "y") "d") (.col none "c"))⟩,
              ⟨false, [], some (.bin .eq (.col (some "z") "e") (.col (some "y") "d"))⟩],
    projs := [.item (.col (some "q") "c") none], whr := none, group := [], having := none, order := [] }

/-- `c` is ambiguous scope-wide (q and z) but unique among q, y: with the definition-order prefix it is `q.c`; with the
    prefix of the cached mapping (plain tables y, z first, the derived table q last) it is bound to `z.c`, a table joined
    LATER — the seeded regression, reproduced by the model when the generated flag is flipped -/
theorem join_context_cached_order_witness :
    (match qualifyScope g0 σ4 [["c"]] qyz, qualifyScope { g0 with joinCtxDefOrder := false } σ4 [["c"]] qyz with
     | .ok s1, .ok s2 =>
       (s1.joins.map (·.on)).head? == some (some (.bin .eq (.col (some "y") "d") (.col (some "q") "c")))
       && (s2.joins.map (·.on)).head? == some (some (.bin .eq (.col (some "y") "d") (.col (some "z") "c")))
     | _, _ => false) = true := by decide +kernel


/-- non-vacuity: `SELECT a + 1 AS x, x * 2 AS y, * FROM t WHERE x > 1 ORDER BY y` qualifies -/
example : (match qualifyModel g0 σ0 [{ outer := [], joins := [], srcs := [tSrc], projs := [.item (.bin .add (.col none "a") (.lit 1)) (some "x"), .item (.bin .mul (.col none "x") (.lit 2)) (some "y"), .star none []], whr := some (.bin .gt (.col none "x") (.lit 1)), group := [], having := none, order := [.col none "y"] }] with
    | .ok [s'] => s'.projs.length == 4 && s'.whr == some (.bin .gt (.paren (.bin .add (.col (some "t") "a") (.lit 1))) (.lit 1))
    | _ => false) = true := by decide +kernel

/-- **star_expansion_schema_order.**  `SELECT *` over sources whose columns are known, distinct and star-free
    becomes, after `_expand_stars` and `qualify_outputs`, exactly the sources' columns — sources in
    `Scope.references` order, columns in schema order — each as `alias.column AS column`. -/
theorem star_expansion_schema_order (cn : Nat → String) (env : Env) (hg : ∀ e ∈ env, GoodSrc e)
    (hne : ∀ e ∈ env, ∀ c ∈ e.2, c ≠ "") :
    expandStarTables [] env = .ok ((env.flatMap (fun e => e.2.map (fun c => (e.1, c)))).map
        (fun p => Proj.item (.col (some p.1) p.2) none))
    ∧ qualifyOutputs cn 0 [] ((env.flatMap (fun e => e.2.map (fun c => (e.1, c)))).map
        (fun p => Proj.item (.col (some p.1) p.2) none))
      = (env.flatMap (fun e => e.2.map (fun c => (e.1, c)))).map
        (fun p => Proj.item (.col (some p.1) p.2) (some p.2)) := by
  constructor
  · rw [expandStarTables_ok [] env hg]
    congr 1
    have hf : ∀ l : List String, l.filter (fun _ => true) = l := by
      intro l; induction l with
      | nil => rfl
      | cons x xs ih => simp [List.filter, ih]
    simp [starCols, List.map_flatMap, List.map_map, Function.comp_def, hf]
  · apply qualifyOutputs_cols
    intro p hp
    simp only [List.mem_flatMap, List.mem_map] at hp
    obtain ⟨e, he, c, hc, rfl⟩ := hp
    exact hne e he c hc

example : ∀ e ∈ ([("t", ["a", "b"]), ("u", ["b", "c"])] : Env), GoodSrc e := by
  intro e he; simp at he; rcases he with rfl | rfl <;> simp [GoodSrc, hasDup]

/-- **star_expansion_using** (the merge-membership test of `_expand_stars`).  With USING / NATURAL merges recorded
    in `ct` (merged column ↦ tables merged over it), the star over a table `t` that takes no part in the merge of any
    of its columns — e.g. a table joined with ON that merely has a column named like a USING column — expands to
    exactly `t`'s own columns in schema order, provided no earlier star of the select already coalesced one of them
    (that proviso is real: see `star_using_drops_later_column_witness`, a known finding). -/
theorem star_expansion_using (ct : ColTables) (t : String) (exc cols coal : List String)
    (hout : ∀ c ∈ cols, ∀ e, ct.find? (fun e => e.1 == c) = some e → e.2.contains t = false)
    (hco : ∀ c ∈ cols, coal.contains c = false) :
    starColsU ct t exc coal cols = (starCols t exc cols, coal) :=
  starColsU_outside ct t exc cols coal hout hco

/-- and a table that does take part gets the merged column once, as COALESCE over the merge tables, named like the column -/
theorem star_expansion_using_merged (ct : ColTables) (t c : String) (exc cs coal ts : List String)
    (hx : exc.contains c = false) (hc : coal.contains c = false)
    (hf : ct.find? (fun e => e.1 == c) = some (c, ts)) (ht : ts.contains t = true) :
    starColsU ct t exc coal (c :: cs)
      = (.item (.coalesce (ts.map (fun x => (x, c)))) (some c) :: (starColsU ct t exc (coal ++ [c]) cs).1,
         (starColsU ct t exc (coal ++ [c]) cs).2) := by
  have hx' : ¬ c ∈ exc := by simpa using hx
  have hc' : ¬ c ∈ coal := by simpa using hc
  have ht' : t ∈ ts := by simpa using ht
  simp [starColsU, hx', hc', hf, ht']

def σ3 : Schema := [(["x"], ["a", "b"]), (["y"], ["b", "c"]), (["z"], ["b", "c"])]
def xyz (projs : List Proj) : Scope :=
  { outer := [], srcs := [⟨.table ["x"], none⟩, ⟨.table ["y"], none⟩, ⟨.table ["z"], none⟩],
    joins := [⟨false, ["b"], none⟩, ⟨false, [], some (.bin .eq (.col (some "y") "c") (.col (some "z") "c"))⟩],
    projs := projs, whr := none, group := [], having := none, order := [] }

/-- `SELECT z.* FROM x JOIN y USING (b) JOIN z ON y.c = z.c`: z's own b and c (seeded regression B gave COALESCE(x.b, y.b));
    the USING join became `ON x.b = y.b`; `SELECT b …` becomes `COALESCE(x.b, y.b) AS b` -/
theorem star_expansion_using_witness :
    (match qualifyScope g0 σ3 [] (xyz [.star (some "z") []]), qualifyScope g0 σ3 [] (xyz [.item (.col none "b") none]) with
     | .ok s1, .ok s2 =>
       s1.projs == [.item (.col (some "z") "b") (some "b"), .item (.col (some "z") "c") (some "c")]
       && (s1.joins.map (·.on)) == [some (.bin .eq (.col (some "x") "b") (.col (some "y") "b")),
                                    some (.bin .eq (.col (some "y") "c") (.col (some "z") "c"))]
       && s2.projs == [.item (.coalesce [("x", "b"), ("y", "b")]) (some "b")]
     | _, _ => false) = true := by decide +kernel

/-- known finding C10-star-using-drops-later-same-named-column, reproduced by the model: in `SELECT * …` over the same
    joins the set of coalesced names is per select, so z.b is dropped: a, COALESCE(x.b, y.b) AS b, y.c, z.c -/
theorem star_using_drops_later_column_witness :
    (match qualifyScope g0 σ3 [] (xyz [.star none []]) with
     | .ok s1 => outNames s1.projs == ["a", "b", "c", "c"]
     | _ => false) = true := by decide +kernel

/-- the order is `references` order: derived tables after tables, whatever the FROM order (known finding
    C10-star-order-derived-after-tables): `SELECT * FROM (scope 0) AS d, t` lists t's columns first -/
theorem star_order_tables_first_witness :
    (match qualifyScope g0 σ0 [["c"]] { outer := [], joins := [], srcs := [⟨.scope 0 true, some "d"⟩, tSrc], projs := [.star none []], whr := none, group := [], having := none, order := [] } with
     | .ok s' => outNames s'.projs == ["a", "b", "c"]
     | _ => false) = true := by decide +kernel

/-- **unresolved_raises** (via the final validation).  A scope is never returned with a column in its projections,
    WHERE or GROUP BY that lacks a source, or that names a source which is not one of the scope's aliases:
    if such a column would remain, the outcome is an error.  (Contrapositive of `qualify_complete`, spelled out
    for WHERE.) -/
theorem unresolved_raises (g : Gen) (σ : Schema) (outs : List (List String)) (s s' : Scope) (e : Expr)
    (h : qualifyScope g σ outs s = .ok s') (hw : s'.whr = some e) :
    ∃ names : List String, visible names [] e = true ∧ ∀ n ∈ names, some n ∈ s'.srcs.map (·.alias) := by
  obtain ⟨_, _, names, hv, hn⟩ := qualifyScope_complete g σ outs s s' h
  refine ⟨names, ?_, hn⟩
  simp only [validate, hw, Bool.and_eq_true] at hv
  exact hv.1.1.1.1.2

/-- concretely: an unknown name in WHERE, an ambiguous name, an unknown qualified column and a duplicate alias
    all raise (finite witnesses, decided by evaluation) -/
theorem unresolved_raises_witnesses :
    (isOptErr (qualifyScope g0 σ0 [] (sc1 [tSrc] (.col none "zzz")))
    && isOptErr (qualifyScope g0 σ0 [] (sc1 [tSrc, uSrc] (.col none "b")))
    && isOptErr (qualifyScope g0 σ0 [] (sc1 [tSrc] (.col (some "t") "c")))
    && isOptErr (qualifyScope g0 σ0 [] (sc1 [tSrc] (.col (some "u") "c")))
    && isOptErr (qualifyScope g0 σ0 [] (sc1 [⟨.table ["t"], some "x"⟩, ⟨.table ["u"], some "x"⟩] (.lit 1)))) = true := by
  decide +kernel

/-- **qualify_idempotent** (one scope, whole pipeline A–G).  If qualification returns `s'`, the stars of `s'` were
    expanded and no bare name is left under its HAVING, then qualifying `s'` again (same schema, same child
    outputs) returns exactly `s'`.  The two premises are stated on the RESULT and are the complement of
    (i) the documented "source with unknown / duplicate columns: keep the star" case — not covered by the proof,
    checked by correspondence — (i') a first pass over USING / NATURAL joins (`hasMerge`; the generated ON
    conditions are not re-checked by the code on that pass, see known finding
    C10-using-column-missing-on-left-not-checked-first-pass; covered by correspondence, second application) and (ii) known findings C10-having-bare-name-unvalidated / -not-idempotent
    (`having_bare_not_idempotent_counterexample` below shows (ii) is needed).
    The name-level model identifies `Column` nodes that differ only in quoted flags, which is what the code sees
    on every second pass (all identifiers quoted) and on a first pass over uniformly quoted text; the
    quoted-flag-dependent ORDER BY rewrite (known finding C10-order-by-alias-quoted-source-not-idempotent) is
    outside what a name-level model can express and is excluded from the correspondence stream. -/
theorem qualify_idempotent_scope (g : Gen) (σ : Schema) (outs : List (List String)) (s s' : Scope)
    (h : qualifyScope g σ outs s = .ok s') (hm : hasMerge s.joins = false) (hr : Resolved s') :
    qualifyScope g σ outs s' = .ok s' :=
  (qualifyScope_fixed g σ outs s s' h hm hr).1

/-- **qualify_idempotent** for a whole flattened query (any number of scopes): the child outputs seen by each
    scope are the same on the second pass because each scope is returned unchanged. -/
theorem qualify_idempotent (g : Gen) (σ : Schema) (q q' : List Scope)
    (h : qualifyModel g σ q = .ok q') (hm : ∀ s ∈ q, hasMerge s.joins = false) (hr : ∀ s' ∈ q', Resolved s') :
    qualifyModel g σ q' = .ok q' :=
  qualifyFrom_fixed g σ q [] q' h hm hr

/-- non-vacuity: the result of `SELECT a + 1 AS x, * FROM t WHERE x > 1 GROUP BY 1 HAVING a > 0 ORDER BY 2` is `Resolved` -/
example : (match qualifyModel g0 σ0 [{ outer := [], joins := [], srcs := [tSrc], projs := [.item (.bin .add (.col none "a") (.lit 1)) (some "x"), .star none []], whr := some (.bin .gt (.col none "x") (.lit 1)), group := [.lit 1], having := some (.bin .gt (.col none "a") (.lit 0)), order := [.lit 2] }] with
    | .ok [s'] => !hasStar s'.projs && (match s'.having with | some e => noBare e | none => true)
    | _ => false) = true := by decide +kernel

/-- premise (ii) is needed: `SELECT a + 1 FROM t GROUP BY a HAVING _col_0 > 1` is returned with the bare name
    `_col_0` under HAVING (nothing validates it), and the second pass — where `_col_0` has become a projection
    alias — expands it: the model is NOT idempotent there, exactly as the real code. -/
theorem having_bare_not_idempotent_counterexample :
    (match qualifyModel g0 σ0 [{ outer := [], joins := [], srcs := [tSrc], projs := [.item (.bin .add (.col none "a") (.lit 1)) none], whr := none, group := [.col none "a"], having := some (.bin .gt (.col none "_col_0") (.lit 1)), order := [] }] with
    | .ok q' => (match qualifyModel g0 σ0 q' with
        | .ok q'' => q'' != q' && (q''.map (·.having)) == [some (.bin .gt (.paren (.bin .add (.col (some "t") "a") (.lit 1))) (.lit 1))]
        | _ => false)
    | _ => false) = true := by decide +kernel

/-- **what `validate_qualify_columns` sees.**  Every column of the projections, WHERE and GROUP BY must name one
    of the scope's aliases; in ORDER BY bare names equal to an output name are exempt; under HAVING only QUALIFIED
    references are seen at all — a bare name there is invisible to validation (and to `_qualify_columns`). -/
theorem validate_sees (names : List String) (s : Scope) :
    validate names s = true ↔
      (∀ p ∈ s.projs, projVisible names p = true)
      ∧ (∀ e, s.whr = some e → visible names [] e = true)
      ∧ (∀ e ∈ s.group, visible names [] e = true)
      ∧ (∀ e, s.having = some e → visibleHaving names e = true)
      ∧ (∀ e ∈ s.order, visible names (namedSelects s.projs) e = true)
      ∧ (∀ j ∈ s.joins, ∀ e, j.on = some e → visible names [] e = true) := by
  simp only [validate, Bool.and_eq_true, List.all_eq_true]
  constructor
  · rintro ⟨⟨⟨⟨⟨h1, h2⟩, h3⟩, h4⟩, h5⟩, h6⟩
    refine ⟨h1, ?_, h3, ?_, h5, ?_⟩
    · intro e he; rw [he] at h2; exact h2
    · intro e he; rw [he] at h4; exact h4
    · intro j hj e he; have := h6 j hj; rw [he] at this; exact this
  · rintro ⟨h1, h2, h3, h4, h5, h6⟩
    refine ⟨⟨⟨⟨⟨h1, ?_⟩, h3⟩, ?_⟩, h5⟩, ?_⟩
    · cases hw : s.whr with
      | none => rfl
      | some e => exact h2 e hw
    · cases hw : s.having with
      | none => rfl
      | some e => exact h4 e hw
    · intro j hj
      cases hw : j.on with
      | none => rfl
      | some e => exact h6 j hj e hw

/-- HAVING is checked strictly less than WHERE: whatever passes the WHERE test passes the HAVING test, and a bare
    name — which the WHERE test rejects — always passes it -/
theorem validate_having_blind_to_bare_names (names : List String) (n : String) :
    visibleHaving names (.col none n) = true ∧ visible names [] (.col none n) = false
    ∧ ∀ e, visible names [] e = true → visibleHaving names e = true := by
  refine ⟨rfl, by simp [visible], ?_⟩
  intro e
  induction e with
  | col t n =>
    intro h
    cases t with
    | none => rfl
    | some t => simpa [visible, visibleHaving] using h
  | lit k => intro _; rfl
  | bin op l r ihl ihr =>
    intro h
    simp only [visible, Bool.and_eq_true] at h
    simp [visibleHaving, ihl h.1, ihr h.2]
  | paren e ih =>
    intro h
    simp only [visible] at h
    simp [visibleHaving, ih h]
  | coalesce args => intro h; simpa [visible, visibleHaving] using h

/-- **qualify_idempotent, partial.**  On a scope in the form `qualify_complete` guarantees (all projections
    aliased, no bare column left) the second pass's alias expansion (C), star expansion (D) and output
    qualification (E) are identities.  NOT proved: the same for column resolution (B: needs that every `t.c` kept
    by the first pass has `c` among `t`'s columns) and positional / ORDER BY rewriting (F); whole-pipeline
    idempotence is checked by the correspondence run (model and real code, second application) only. -/
theorem qualify_idempotent_partial (cn : Nat → String) (env : Env) (m : AMap) (cl : Clause) (names : List String)
    (ps : List Proj) (hps : AllAliased ps) :
    (∀ (e : Expr) (ctx : Ctx), visible names [] e = true → expand env m cl ctx e = e)
    ∧ expandStars env ps = .ok ps
    ∧ qualifyOutputs cn 0 [] ps = ps :=
  ⟨fun e ctx h => expand_fixed env m cl names e ctx h, expandStars_fixed env ps hps, qualifyOutputs_fixed cn ps 0 hps⟩

/-- and the first pass does produce that form: after `qualify_outputs`, a star-free projection list is fully aliased -/
theorem qualify_idempotent_all_partial (cn : Nat → String) (ps : List Proj) (outer : List String)
    (h : hasStar ps = false) : AllAliased (qualifyOutputs cn 0 outer ps) :=
  qualifyOutputs_allAliased cn ps 0 outer h

/-- concrete second application (decided by evaluation): the result of the non-vacuity example re-qualifies to itself -/
example : (match qualifyModel g0 σ0 [{ outer := [], joins := [], srcs := [tSrc], projs := [.item (.bin .add (.col none "a") (.lit 1)) (some "x"), .star none []], whr := some (.bin .gt (.col none "x") (.lit 1)), group := [.lit 1], having := none, order := [.lit 2] }] with
    | .ok q' => (match qualifyModel g0 σ0 q' with | .ok q'' => q'' == q' | _ => false)
    | _ => false) = true := by decide +kernel

/-- **output_names_preserved** (one scope, whole pipeline).  Independent SPEC of the output names: replace each star
    by its sources' columns (minus its EXCEPT list; `references` × schema order), take the alias if there is one, else
    the name of the expression (a column's name, a literal's text), else `_col_i` by position; an outer column list
    (CTE / derived-table alias columns) overrides position by position.  If qualification succeeds with its stars
    expanded, the output names are exactly that — provided no UNALIASED projection is headed by a bare name that
    resolves to no source (`NamesStable`; such a projection can only be a reference to an earlier alias, which the code
    replaces by the aliased expression and renames: `alias_ref_projection_renamed_counterexample`, a known finding).
    Scopes with USING / NATURAL joins are not covered by this proof (checked by correspondence and the search oracle). -/
theorem output_names_preserved (g : Gen) (σ : Schema) (outs : List (List String)) (s s' : Scope)
    (h : qualifyScope g σ outs s = .ok s') (hm : hasMerge s.joins = false) (hstar : hasStar s'.projs = false) :
    ∃ srcs' env0, mkEnv g σ outs s.srcs = some (srcs', env0) ∧
      (NamesStable (refOrder env0) s.projs →
        outNames s'.projs = overlay s.outer (nameAll g.colName 0 (expandSpec (refOrder env0) s.projs))) := by
  obtain ⟨srcs', env0, hme, _, hb, _⟩ := qualifyScope_ok g σ outs s s' h
  refine ⟨srcs', env0, hme, ?_⟩
  intro hst
  rw [buildScope_noMerge g _ _ srcs' s hm] at hb
  split at hb
  · simp at hb
  · exact buildCore_names g _ _ srcs' _ false _ s s' hb hstar hst

/-- non-vacuity: `SELECT a AS x, *, b + 1, u.c FROM t, u` with outer column list (p) over t(a,b), u(b,c) is `NamesStable` and
    gets the names p, a, b, b, c, _col_5, c -/
example : (match qualifyScope g0 σ0 [] { outer := ["p"], joins := [], srcs := [tSrc, uSrc], projs := [.item (.col none "a") (some "x"), .star none [], .item (.bin .add (.col (some "t") "b") (.lit 1)) none, .item (.col (some "u") "c") none], whr := none, group := [], having := none, order := [] } with
    | .ok s' => outNames s'.projs == ["p", "a", "b", "b", "c", "_col_5", "c"]
        && overlay ["p"] (nameAll g0.colName 0 (expandSpec [("t", ["a", "b"]), ("u", ["b", "c"])] [.item (.col none "a") (some "x"), .star none [], .item (.bin .add (.col (some "t") "b") (.lit 1)) none, .item (.col (some "u") "c") none])) == ["p", "a", "b", "b", "c", "_col_5", "c"]
    | _ => false) = true := by decide +kernel

/-- **output names, partial.**  `qualify_outputs` names a projection by its alias if it has one, else by its column
    name, else `_col_i`; an outer column list overrides position by position. -/
theorem output_names_partial (cn : Nat → String) (e : Expr) (a : String) (i : Nat) (ps : List Proj) :
    qualifyOutputs cn i [] (.item e (some a) :: ps) = .item e (some a) :: qualifyOutputs cn (i + 1) [] ps
    ∧ qualifyOutputs cn i [] (.item (.col (some "t") a) none :: ps)
        = .item (.col (some "t") a) (some (if a == "" then cn i else a)) :: qualifyOutputs cn (i + 1) [] ps
    ∧ ∀ o os, qualifyOutputs cn i (o :: os) (.item e none :: ps) = .item e (some o) :: qualifyOutputs cn (i + 1) os ps := by
  refine ⟨by simp [qualifyOutputs], ?_, fun o os => by simp [qualifyOutputs]⟩
  by_cases h : a = "" <;> simp [qualifyOutputs, outAlias, exprName, h]

/-- counter-example to the FULL statement (known finding C10-alias-ref-projection-renamed): in
    `SELECT a AS x, x FROM t` the second projection is a bare reference to the alias `x`; alias expansion replaces it
    by `t.a` and `qualify_outputs` then names it `a`: the output names change from [x, x] to [x, a]. -/
theorem alias_ref_projection_renamed_counterexample :
    (match qualifyScope g0 σ0 [] { outer := [], joins := [], srcs := [tSrc], projs := [.item (.col none "a") (some "x"), .item (.col none "x") none], whr := none, group := [], having := none, order := [] } with
     | .ok s' => outNames s'.projs == ["x", "a"]
     | _ => false) = true := by decide +kernel

/-- counter-example to the FULL statement (known finding C10-having-bare-name-unvalidated): a bare name in HAVING
    that resolves to nothing survives qualification (`SELECT a FROM t GROUP BY a HAVING zzz > 1`) -/
theorem having_bare_counterexample :
    (match qualifyScope g0 σ0 [] { outer := [], joins := [], srcs := [tSrc], projs := [.item (.col none "a") none], whr := none, group := [.col none "a"], having := some (.bin .gt (.col none "zzz") (.lit 1)), order := [] } with
     | .ok s' => s'.having == some (.bin .gt (.col none "zzz") (.lit 1))
     | _ => false) = true := by decide +kernel

end SqlglotModel.Properties.C10
