/-
  C02 — Transpilation preserves query results (SQLite <-> DuckDB): the decision logic.
  Only property theorems, non-vacuity examples and counter-example witnesses live here.

  PARTIAL on the engine side: what SQLite 3.40 / DuckDB 1.5 do (`defaultNullsFirst`, `divV`, casts) enters as
  assumption tables in Model/Transpile.lean that the harness validates against the installed engines on every run.
  What is proved: for ALL row lists / ALL integer operands, parse-then-generate (as mirrored from the source and
  checked exhaustively against `sqlglot.transpile`) preserves the meaning under those tables — and where today's
  code does not (division), the exact preserved class `DivOK` plus one witness per excluded class.
-/
import SqlglotModel.Proofs.Transpile
import SqlglotModel.Generated.C02

namespace SqlglotModel.Properties.C02
open SqlglotModel.Bag SqlglotModel.Transpile
open SqlglotModel.Generated.C02

/-- **ORDER BY, general form.** For every source / target NULL_ORDERING class, every NULL_ORDERING_SUPPORTED value,
    every ORDER BY list (any number of keys, any key expressions, each of the nine spellings) and EVERY row list:
    sorting by what the generator emits (read on an engine of the target class) equals sorting by the source text
    (read on an engine of the source class).  Decision core: 243 cases decided completely (`decision_core`);
    lifted to all rows by `lift_effective` + `sortBy_congr`. -/
theorem order_preserved (src dst : NullOrdering) (sup : Option Bool) (ob : OrderBy) (rows : Table) :
    sortBy (dstKeys src dst sup ob) rows = sortBy (srcKeys src ob) rows :=
  sortBy_congr _ _ (keys_preserved src dst sup ob) rows

/-- the four dialect pairs, with the classes and support flags read from the live classes on this run -/
theorem order_preserved_engines (s d : Engine) (ob : OrderBy) (rows : Table) :
    sortBy (dstKeys (nullOrdering s) (nullOrdering d) (nullOrderingSupported d) ob) rows
      = sortBy (srcKeys (nullOrdering s) ob) rows :=
  order_preserved _ _ _ ob rows

/-- TABLE FACT (finite, decided completely): the dialects' declared NULL_ORDERING is the class the engines were
    observed to have (assumption A-engine: SQLite treats NULL as smallest, DuckDB puts NULLs last in both
    directions).  A changed declaration breaks this obligation even though `order_preserved` stays self-consistent. -/
theorem null_ordering_matches_engines :
    nullOrdering .sqlite = .small ∧ nullOrdering .duckdb = .last ∧
    nullOrderingSupported .sqlite = some true ∧ nullOrderingSupported .duckdb = some true := by decide

example : (dstKeys .small .last (some true) [(⟨none, none⟩, col 0)]).map (fun k => (k.desc, k.nullsFirst))
    = [(false, true)] := by decide

/-- non-vacuity / necessity: had DuckDB's dialect declared `nulls_are_small` (so no NULLS clause is printed for
    `ORDER BY x`) while the engine puts NULLs last, a NULL and a non-NULL row would compare the other way round -/
theorem order_needs_matching_null_ordering :
    cmpKeys ((genOrdered .small (some true) (parseOrdered .small ⟨none, none⟩)).map (keySem .last (col 0)))
        [.null] [.int 1]
      ≠ cmpKey (specSem .small (col 0) ⟨none, none⟩) [.null] [.int 1] := by decide

/-- **The generator's NULLS decision does not depend on what kind of expression the key is** (column, comparison,
    LIKE, IN, BETWEEN, arithmetic, CASE, function, IS NULL, NOT …).  Model statement; the harness enumerates the key
    kind against the real `ordered_sql` (top level and window specs), so a step that clears the clause for
    "predicate" keys shows up as a correspondence failure, and `order_preserved` (which quantifies over EVERY key
    function `Row → Val`) is the reason the kind must not matter. -/
theorem genOrdered_independent_of_key (k1 k2 : KeyKind) (no : NullOrdering) (sup : Option Bool) (o : Ordered) :
    genOrderedFor k1 no sup o = genOrderedFor k2 no sup o := rfl

/-- NECESSITY: a comparison key over a nullable operand IS nullable.  Key `a > 1`, SQLite source `ORDER BY a > 1`
    (NULL keys first), DuckDB target: without the NULLS FIRST clause a NULL-key row and a FALSE-key row compare the
    other way round -/
theorem order_predicate_key_needs_nulls_clause :
    cmpKeys ([(⟨.expr, none, none⟩ : OutKey)].map (keySem .last (fun r => b3Val (gt3 (col 0 r) (.int 1)))))
        [.null] [.int 0]
      ≠ cmpKey (specSem .small (fun r => b3Val (gt3 (col 0 r) (.int 1))) ⟨none, none⟩) [.null] [.int 0] ∧
    cmpKeys ((genOrderedFor .comparison .last (some true) (parseOrdered .small ⟨none, none⟩)).map
          (keySem .last (fun r => b3Val (gt3 (col 0 r) (.int 1))))) [.null] [.int 0]
      = cmpKey (specSem .small (fun r => b3Val (gt3 (col 0 r) (.int 1))) ⟨none, none⟩) [.null] [.int 0] := by decide

/-- TABLE FACT (decided completely against the token sets read from the live classes): SQLiteParser.ARITHMETIC_TOKENS
    contains every operator of the BITWISE, TERM and FACTOR tiers (all bind looser than `||` in SQLite and tighter
    or equal elsewhere), so a `||` chain next to any of them is captured as a Paren — on both sides -/
theorem dpipe_paren_tokens_complete :
    (∀ t ∈ tierBitwise ++ tierTerm ++ tierFactor, t ≠ "COLLATE" → t ∈ sqliteArithmeticTokens) ∧
    (∀ t ∈ ["AMP", "PIPE", "PLUS", "DASH", "STAR", "SLASH", "MOD"],
        dpipeNeedsParen sqliteArithmeticTokens (some t) none true = true ∧
        dpipeNeedsParen sqliteArithmeticTokens none (some t) true = true) ∧
    factorOperandShapeOk = true := by decide

/-- the CASE-WHEN-IS-NULL simulation branch is exercised by the general theorem (target without NULLS support) -/
example : genOrdered .small none (parseOrdered .last ⟨some true, some true⟩)
    = [⟨.isNullFlag, some true, none⟩, ⟨.expr, some true, none⟩] := by decide

/-- what `transpile(read=src, write=dst)` turns `l / r` into, by operand annotation (flags from the live classes) -/
abbrev transDiv (src dst : Engine) (la ra : Ann) : DEx :=
  genDiv (typedDivision dst) (safeDivision dst) (parseDiv (typedDivision src) (safeDivision src)) la ra

/-- **Division.** For the four pairs, every operand annotation and ALL integer-or-NULL operand values in the class
    `DivOK` (identity pairs: everything; DuckDB->SQLite: non-zero divisor; SQLite->DuckDB: a REAL-annotated operand,
    or an exact quotient, or a zero divisor outside the INT/INT-annotated shape) the transpiled division evaluates
    on the target engine to the value of `l / r` on the source engine. -/
theorem div_preserved (src dst : Engine) (la ra : Ann) (l r : Option Int)
    (h : DivOK src dst la ra l r = true) :
    DV.same (evalDiv dst (transDiv src dst la ra) (operandVal la l) (operandVal ra r))
            (evalDiv src (.div .l .r) (operandVal la l) (operandVal ra r)) = true := by
  cases l with
  | none =>
    have hl : operandVal la none = .null := rfl
    rw [hl]
    cases src <;> cases dst <;> cases la <;> cases ra <;>
      simp [transDiv, genDiv, parseDiv, typedDivision, safeDivision, evalDiv, castDoubleV, castBigintV]
  | some lv =>
    cases r with
    | none =>
      have hr : operandVal ra none = .null := rfl
      rw [hr]
      cases src <;> cases dst <;> cases la <;> cases ra <;>
        simp [transDiv, genDiv, parseDiv, typedDivision, safeDivision, evalDiv, operandVal, castDoubleV,
          castBigintV]
    | some rv =>
      by_cases hz : rv = 0
      · subst hz
        cases src <;> cases dst <;> cases la <;> cases ra <;>
          simp [DivOK, transDiv, genDiv, parseDiv, typedDivision, safeDivision, evalDiv, operandVal,
            nullif0_int, nullif0_real, divV_sqlite_int, divV_duckdb_int, divV_real_l, divV_real_r, divV_real_rr,
            same_refl] at h ⊢
      · cases src <;> cases dst <;> cases la <;> cases ra <;>
          simp [DivOK, hz, transDiv, genDiv, parseDiv, typedDivision, safeDivision, evalDiv, operandVal,
            castDoubleV, castBigintV, nullif0_int, nullif0_real, divV_sqlite_int, divV_duckdb_int, divV_real_l,
            divV_real_r, divV_real_rr, DV.same, DV.num?, castBigintNum] at h ⊢
        all_goals first
          | exact (tdiv_mul_of_emod lv rv h).symm
          | simp [h]

example : DivOK .sqlite .duckdb .none .none (some 6) (some 3) = true := by decide
example : DivOK .duckdb .sqlite .int .none (some 7) (some 2) = true := by decide

/-- KNOWN (DESIGN §6): SQLite -> DuckDB, untyped `id / id` over integer columns, 7 / 3: SQLite yields 2, the
    transpiled `l / NULLIF(r, 0)` yields 7/3 on DuckDB -/
theorem div_untyped_sqlite_to_duckdb_counterexample :
    transDiv .sqlite .duckdb .none .none = .div .l (.nullif0 .r) ∧
    evalDiv .sqlite (.div .l .r) (.int 7) (.int 3) = .int 2 ∧
    evalDiv .duckdb (transDiv .sqlite .duckdb .none .none) (.int 7) (.int 3) = .real 7 3 ∧
    DV.same (.real 7 3) (.int 2) = false := by decide

/-- clean-tree finding: with both operands INTEGER-typed the result is `CAST(l / r AS BIGINT)`, which ROUNDS on
    DuckDB: 7 / 2 is 3 on SQLite and 4 on DuckDB -/
theorem div_typed_sqlite_to_duckdb_rounding_counterexample :
    transDiv .sqlite .duckdb .int .int = .castBigint (.div .l .r) ∧
    evalDiv .sqlite (.div .l .r) (.int 7) (.int 2) = .int 3 ∧
    evalDiv .duckdb (transDiv .sqlite .duckdb .int .int) (.int 7) (.int 2) = .int 4 := by decide

/-- clean-tree finding: the same branch drops the NULLIF wrapper, so a zero divisor is a conversion error on
    DuckDB where SQLite yields NULL -/
theorem div_typed_sqlite_to_duckdb_zero_counterexample :
    evalDiv .sqlite (.div .l .r) (.int 7) (.int 0) = .null ∧
    evalDiv .duckdb (transDiv .sqlite .duckdb .int .int) (.int 7) (.int 0) = .err := by decide

/-- KNOWN (DESIGN §6): DuckDB -> SQLite with a zero divisor: DuckDB 1.5 yields inf, `CAST(l AS REAL) / r` yields
    NULL on SQLite -/
theorem div_duckdb_to_sqlite_zero_counterexample :
    transDiv .duckdb .sqlite .none .none = .div (.castDouble .l) .r ∧
    evalDiv .duckdb (.div .l .r) (.int 2) (.int 0) = .inf false ∧
    evalDiv .sqlite (transDiv .duckdb .sqlite .none .none) (.int 2) (.int 0) = .null := by decide

/-- TABLE FACT: the flags `div_preserved` was proved for are the ones the classes carry today -/
theorem division_flags_table :
    typedDivision .sqlite = true ∧ safeDivision .sqlite = true ∧
    typedDivision .duckdb = false ∧ safeDivision .duckdb = false ∧
    dpipeIsStringConcat .sqlite = true ∧ dpipeIsStringConcat .duckdb = true := by decide

/-- LIMIT n [OFFSET o], LIMIT o, n, OFFSET o: re-spelling keeps the selected slice of ANY row list -/
theorem limit_offset_preserved (f : LimitForm) (t : Table) :
    limitSem (genLimit (parseLimit f)) t = limitSem f t := limit_roundtrip f t

example : limitSem (genLimit (parseLimit (.comma 1 2))) [[.int 1], [.int 2], [.int 3], [.int 4]]
    = [[.int 2], [.int 3]] := by decide

/-- `eliminate_semi_and_anti_joins`: SEMI JOIN = WHERE EXISTS (correlated subquery), for all tables and any
    3-valued ON condition -/
theorem semi_join_as_exists (on : Row → Row → B3) (l r : Table) :
    semiAsExists on l r = semiJoin on l r := by
  simp only [semiAsExists, semiJoin, select, exists3]
  congr 1
  funext a
  induction r with
  | nil => rfl
  | cons b bs ih =>
    simp only [List.filter_cons, List.any_cons]
    cases hb : Bag.isTrue (on a b) <;> simp_all [Bag.isTrue]

/-- ANTI JOIN = WHERE NOT EXISTS -/
theorem anti_join_as_not_exists (on : Row → Row → B3) (l r : Table) :
    antiAsNotExists on l r = antiJoin on l r := by
  simp only [antiAsNotExists, antiJoin, select, exists3, not3]
  congr 1
  funext a
  induction r with
  | nil => rfl
  | cons b bs ih =>
    simp only [List.filter_cons, List.any_cons]
    cases hb : Bag.isTrue (on a b) <;> simp_all [Bag.isTrue]

example : semiJoin (fun a b => eq3 (col 0 a) (col 0 b)) [[.int 1], [.null], [.int 2]] [[.int 1], [.null]]
    = [[.int 1]] := by decide
example : antiJoin (fun a b => eq3 (col 0 a) (col 0 b)) [[.int 1], [.null], [.int 2]] [[.int 1], [.null]]
    = [[.null], [.int 2]] := by decide

/-- `eliminate_qualify`: QUALIFY = filter on the window column computed in a subquery, then project the original
    columns; the window function is arbitrary.  Hypothesis: every input row has the declared width. -/
theorem qualify_as_filter_on_window_column (w : Table → Row → Val) (cond : Row → B3) (proj : Row → Row)
    (width : Nat) (t : Table) (hw : ∀ r ∈ t, r.length = width) :
    qualifyRewritten w cond proj width t = qualifySem w cond proj t := by
  simp only [qualifyRewritten, qualifySem, project, select, List.filter_map, List.map_map]
  apply List.map_congr_left
  intro r hr
  have hr' : r ∈ t := (List.mem_filter.mp hr).1
  simp [Function.comp, hw r hr']

example : qualifySem (fun t _ => .int t.length) (fun r => gt3 (col 1 r) (.int 1)) id [[.int 5], [.int 6]]
    = [[.int 5], [.int 6]] := by decide

/-- clean-tree finding (`eliminate_qualify` keeps ORDER BY / LIMIT *inside* the subquery it filters): QUALIFY then
    LIMIT is not LIMIT then filter — two rows, window value = position, condition `w <= 1`, LIMIT 1 -/
theorem qualify_limit_does_not_commute :
    limitOffset (some 1) 0 (qualifySem (fun _ r => col 0 r) (fun r => gt3 (col 1 r) (.int 1)) id [[.int 1], [.int 2]])
      ≠ qualifyRewritten (fun _ r => col 0 r) (fun r => gt3 (col 1 r) (.int 1)) id 1
          (limitOffset (some 1) 0 [[.int 1], [.int 2]]) := by decide

-- ------------------------------------------------------------------------------------------ division chains
/-- **DuckDB -> SQLite, chains of ANY length** `o₀ / o₁ / … / o_k` without parentheses over integer (untyped or
    INTEGER-cast) operands with non-zero divisors: the generated text — one CAST per level, because the wrapped left
    operand leaves `Generator.binary`'s flattening and goes back through `div_sql` — evaluates on SQLite to exactly
    the number DuckDB computes.  (Flags from the live classes.) -/
theorem div_chain_preserved (anns : Nat → Ann) (h : ∀ i, anns i ≠ .real) (v : Nat → Int) (k : Nat)
    (hz : ∀ i, 1 ≤ i → i ≤ k + 1 → v i ≠ 0) :
    evalC .sqlite (fun i => .int (v i))
        (genT (typedDivision .sqlite) (safeDivision .sqlite) (parseDiv (typedDivision .duckdb) (safeDivision .duckdb))
          anns (chainT (k + 1)))
      = evalC .duckdb (fun i => .int (v i)) (plainT (chainT (k + 1))) := by
  obtain ⟨n, d, hd, hs⟩ := chain_eval anns h v k hz
  have e : genT (typedDivision .sqlite) (safeDivision .sqlite) (parseDiv (typedDivision .duckdb) (safeDivision .duckdb))
      anns = toSqlite anns := by
    simp [toSqlite, typedDivision, safeDivision, parseDiv]
  rw [e, hd, hs]

example : showCEx (genT true true ⟨false, false⟩ (fun _ => .none) (chainT 2))
    = "(div (double (div (double o0) o1)) o2)" := by decide

/-- a single division in the tree model is the single-node model `genDiv` (decided over all flags and annotations) -/
theorem div_tree_single_is_genDiv :
    ∀ dt ∈ [true, false], ∀ ds ∈ [true, false], ∀ st ∈ [true, false], ∀ ss ∈ [true, false],
    ∀ la ∈ [Ann.none, .int, .real], ∀ ra ∈ [Ann.none, .int, .real],
      showCEx (genT dt ds ⟨st, ss⟩ (fun i => if i = 0 then la else ra) (chainT 1))
        = (match genDiv dt ds ⟨st, ss⟩ la ra with
           | .div .l .r => "(div o0 o1)"
           | .div .l (.nullif0 .r) => "(div o0 (nullif0 o1))"
           | .div (.castDouble .l) .r => "(div (double o0) o1)"
           | .div (.castDouble .l) (.nullif0 .r) => "(div (double o0) (nullif0 o1))"
           | .castBigint (.div .l .r) => "(bigint (div o0 o1))"
           | _ => "?") := by decide

/-- the seeded regression "skip the cast when the left operand is itself a Div" as an UNREPAIRED VARIANT: the inner
    division then stays inside `binary`'s flattened spine, never sees `div_sql`, and runs as integer division:
    7 / 2 / 2 is 7/4 on DuckDB and 1 on SQLite -/
theorem div_chain_inner_cast_skipped_counterexample :
    evalC .duckdb (fun i => .int ([7, 2, 2].getD i 0)) (plainT (chainT 2)) = .real 7 4 ∧
    evalC .sqlite (fun i => .int ([7, 2, 2].getD i 0)) (.div (.div (.opnd 0) (.opnd 1)) (.opnd 2)) = .int 1 ∧
    evalC .sqlite (fun i => .int ([7, 2, 2].getD i 0)) (genT true true ⟨false, false⟩ (fun _ => .none) (chainT 2))
      = .real 7 4 := by decide

/-- clean-tree finding (DuckDB -> SQLite): a REAL-typed RIGHT operand suppresses the cast of the left operand; when
    that left operand is a Div it is flattened and its division runs on integers: `a / b / CAST(c AS REAL)` with
    (7, 2, 1) is 3.5 on DuckDB and 3 on SQLite -/
theorem div_chain_real_right_operand_counterexample :
    showCEx (genT true true ⟨false, false⟩ (fun i => if i = 2 then .real else .none) (chainT 2))
      = "(div (div o0 o1) o2)" ∧
    evalC .duckdb (fun i => [DV.int 7, .int 2, .real 1 1].getD i .null) (plainT (chainT 2)) = .real 7 2 ∧
    evalC .sqlite (fun i => [DV.int 7, .int 2, .real 1 1].getD i .null)
        (genT true true ⟨false, false⟩ (fun i => if i = 2 then .real else .none) (chainT 2)) = .real 3 1 := by decide

/-- clean-tree finding (SQLite -> DuckDB): only the TOP divisor of a flattened chain gets its NULLIF; a zero INNER
    divisor is NULL on SQLite and inf on DuckDB: `a / b / c` with (8, 0, 2) -/
theorem div_chain_inner_nullif_missing_counterexample :
    showCEx (genT false false ⟨true, true⟩ (fun _ => .none) (chainT 2)) = "(div (div o0 o1) (nullif0 o2))" ∧
    showCEx (genT false false ⟨true, true⟩ (fun _ => .none) (.div (.paren (chainT 1)) (.opnd 2)))
      = "(div (paren (div o0 (nullif0 o1))) (nullif0 o2))" ∧
    evalC .sqlite (fun i => .int ([8, 0, 2].getD i 0)) (plainT (chainT 2)) = .null ∧
    evalC .duckdb (fun i => .int ([8, 0, 2].getD i 0)) (genT false false ⟨true, true⟩ (fun _ => .none) (chainT 2))
      = .inf false := by decide

-- ------------------------------------------------------------------------------------------ transforms.preprocess
/-- **every transform of the chain reaches every SELECT that is printed** (FINITE: all 8 feature combinations decided
    completely): whatever combination of DISTINCT ON / QUALIFY / SEMI-ANTI join a SELECT carries, none of the SELECTs
    the SQLite generator prints for it — wrappers and wrapped — carries any of them any more -/
theorem preprocess_chain_reaches_every_select :
    ∀ d ∈ [true, false], ∀ q ∈ [true, false], ∀ s ∈ [true, false],
      (genSelects 4 ⟨d, q, s⟩).all PFlags.clean = true := by decide

/-- the seeded regression as a witness: QUALIFY together with a SEMI join — the flagged input node is the wrapped
    subquery, the chain is skipped for it and SEMI JOIN is printed verbatim -/
theorem preprocess_flag_on_input_node_counterexample :
    genSelectsFlagged ⟨false, true, true⟩ = [⟨false, false, false⟩, ⟨false, false, true⟩] ∧
    (genSelects 4 ⟨false, true, true⟩).all PFlags.clean = true := by decide

/-- TABLE FACT (ast of transforms.preprocess._to_sql): the chain runs unconditionally (no memo / early exit) -/
theorem preprocess_chain_unconditional : preprocessChainUnconditional = true := by decide

-- ------------------------------------------------------------------------------------------ set-operation chains
/-- **`Generator.set_operations` prints a chain exactly in order**: for every tree of UNION / EXCEPT / INTERSECT
    [ALL] nodes (any shape, any length) the explicit-stack flattening loop emits operand, operator-of-THAT-node,
    operand, … — the in-order operator sequence of the tree -/
theorem set_operations_print_inorder (t : SetTree) : printSetOps t = t.inorder := by
  unfold printSetOps
  rw [setOpsLoop_spec t.weight [.tree t] [] (by simp [SetItem.weight])]
  simp [SetItem.flat]

example : printSetOps (.op .union false (.op .union true (.leaf 0) (.leaf 1)) (.leaf 2))
    = [.branch 0, .kw .union true, .branch 1, .kw .union false, .branch 2] := by decide

/-- the seeded regression C02-6 as an UNREPAIRED VARIANT: with the keyword cached per operation class,
    `a UNION b UNION ALL c` (the root — UNION ALL — is popped first) is printed `a UNION ALL b UNION ALL c` -/
theorem set_operations_keyword_cache_counterexample :
    setOpsLoopCached 10 [] [.tree (.op .union false (.op .union true (.leaf 0) (.leaf 1)) (.leaf 2))] []
      = [.branch 0, .kw .union false, .branch 1, .kw .union false, .branch 2] ∧
    (SetTree.op .union false (.op .union true (.leaf 0) (.leaf 1)) (.leaf 2)).inorder
      = [.branch 0, .kw .union true, .branch 1, .kw .union false, .branch 2] := by decide

/-- TABLE FACT (ast of Generator.set_operations, re-read every run): the keyword is computed per popped node -/
theorem set_operation_keyword_per_node : setOpKeywordPerNode = true := by decide

-- ------------------------------------------------------------------------------------------ alias generation
/-- **`eliminate_qualify` hoists every window under its OWN alias**: whatever names the SELECT already uses and however
    many windows the QUALIFY condition contains, the aliases produced by repeated `find_new_name(named_selects, "_w")`
    are pairwise distinct, none collides with an existing name, and there is one per window -/
theorem hoisted_aliases_distinct (base : String) (taken : List String) (k : Nat) (names : List String)
    (h : hoistAliases base taken k = some names) :
    names.Nodup ∧ (∀ n ∈ names, n ∉ taken) ∧ names.length = k :=
  hoistAliases_spec base k taken names h

/-- `find_new_name` never returns a taken name -/
theorem find_new_name_fresh (taken : List String) (base n : String) (h : findNewName taken base = some n) :
    n ∉ taken := findNewName_fresh taken base n h

example : hoistAliases "_w" ["a", "_w", "_w_3"] 3 = some ["_w_2", "_w_4", "_w_5"] := by decide

/-- the seeded regression "one alias `_w` for several hoisted windows" as a model fact: reusing the alias is exactly
    what the loop must not do -/
theorem hoisted_alias_reuse_not_distinct : ¬ (["_w", "_w"] : List String).Nodup ∧
    hoistAliases "_w" ["a"] 2 = some ["_w", "_w_2"] := by decide

-- ------------------------------------------------------------------------------------------ DISTINCT ON
/-- `eliminate_distinct_on`'s core: keeping `ROW_NUMBER() OVER (PARTITION BY key ORDER BY …) = 1` is keeping the first
    row of every key — for every ordered input, as sequences -/
theorem distinct_on_as_row_number (key : Row → Val) (t : Table) : rowNumberOne key t = firstPerKey key t :=
  rowNumberOneAux_eq key t [] [] (fun v => by simp)

/-- **When is DISTINCT ON a plain SELECT DISTINCT?**  Exactly when the projection IS the ON key: then for every
    ordered input the picked rows, projected, are the distinct key values.  With a projection that is a STRICT
    SUBSET of the ON keys it is not (seeded regression C02-7 "subset shortcut"): ON (a, b) projecting a over
    {(1,1), (1,2)} has two groups and returns a = 1 twice; SELECT DISTINCT a returns it once. -/
theorem distinct_on_eq_select_distinct_iff :
    (∀ (key : Row → Val) (t : Table), (firstPerKey key t).map key = dedupVals (t.map key)) ∧
    ((firstPerKey (fun r => match col 0 r, col 1 r with
                            | .int a, .int b => .int (a * 10 + b)
                            | _, _ => .null) [[.int 1, .int 1], [.int 1, .int 2]]).map (col 0) = [.int 1, .int 1] ∧
     dedupVals ([[Val.int 1, .int 1], [.int 1, .int 2]].map (col 0)) = [.int 1]) :=
  ⟨fun key t => firstPerKeyAux_map_key key t [], by decide⟩

/-- TABLE FACT (ast of transforms.eliminate_distinct_on, re-read every run): the transform has ONE rewrite path —
    two `return`s (the rewritten query, the untouched expression) and it never clears DISTINCT's `on` in place -/
theorem distinct_on_single_rewrite_path : distinctOnReturnCount = 2 ∧ distinctOnClearsOnInPlace = false := by decide

/-- PARTIAL (side condition: NO outer LIMIT/OFFSET; conclusion only as a BAG because the rewritten query has no
    outer ORDER BY): the rewritten DISTINCT ON query returns the rows of the original -/
theorem eliminate_distinct_on_partial (key : Row → Val) (ord : Table → Table) (t : Table) :
    BagEq (distinctOnEliminated key ord none t) (distinctOnOriginal key ord none t) := by
  simp only [distinctOnEliminated, distinctOnOriginal, limitOffset, List.drop_zero]
  rw [distinct_on_as_row_number]

/-- clean-tree finding C02-distinct-on-rewrite-limits-before-filter, precisely: with LIMIT 1 the original keeps one
    row per key and then limits; the rewrite limits the unordered input first -/
theorem eliminate_distinct_on_limit_counterexample :
    distinctOnOriginal (col 0) id (some 2) [[.int 1, .int 1], [.int 1, .int 2], [.int 2, .int 3]]
      = [[.int 1, .int 1], [.int 2, .int 3]] ∧
    distinctOnEliminated (col 0) id (some 2) [[.int 1, .int 1], [.int 1, .int 2], [.int 2, .int 3]]
      = [[.int 1, .int 1]] := by decide

/-- clean-tree finding C02-distinct-on-loses-outer-order, precisely: the rewritten query reads a derived table and has
    no ORDER BY, so every permutation of its rows is an admissible answer; one of them is not the original sequence -/
theorem eliminate_distinct_on_order_counterexample :
    ∃ answer : Table,
      BagEq answer (distinctOnEliminated (col 0) List.reverse none [[.int 1], [.int 2]]) ∧
      answer ≠ distinctOnOriginal (col 0) List.reverse none [[.int 1], [.int 2]] :=
  ⟨[[.int 1], [.int 2]], by decide, by decide⟩

-- ------------------------------------------------------------------------------------------ QUALIFY with ORDER BY / LIMIT
/-- PARTIAL (side condition: NO LIMIT/OFFSET; conclusion as a BAG — with an ORDER BY the rewrite leaves it inside the
    subquery): for every window function, condition, projection, table and every ORDER BY (any permutation of its
    input) `eliminate_qualify` returns the rows of the original -/
theorem eliminate_qualify_partial (w : Table → Row → Val) (cond : Row → B3) (proj : Row → Row) (width : Nat)
    (ord : Table → Table) (hord : ∀ u, (ord u).Perm u) (t : Table) :
    BagEq (qualifyEliminated w cond proj width ord none t) (qualifyOriginal w cond proj width ord none t) := by
  simp only [qualifyEliminated, qualifyOriginal, limitOffset, List.drop_zero, project, select]
  refine List.Perm.map _ ?_
  exact ((hord _).filter _).trans (hord _).symm

/-- clean-tree finding C02-qualify-rewrite-limits-before-filter, precisely: QUALIFY runs before LIMIT; the rewrite
    limits first.  Window = the first column, condition `w > 1`, LIMIT 1 -/
theorem eliminate_qualify_limit_counterexample :
    qualifyOriginal (fun _ r => col 0 r) (fun r => gt3 (col 1 r) (.int 1)) id 1 id (some 1) [[.int 1], [.int 2]]
      = [[.int 2]] ∧
    qualifyEliminated (fun _ r => col 0 r) (fun r => gt3 (col 1 r) (.int 1)) id 1 id (some 1) [[.int 1], [.int 2]]
      = [] := by decide

/-- clean-tree finding C02-qualify-rewrite-loses-outer-order, precisely (same argument as for DISTINCT ON) -/
theorem eliminate_qualify_order_counterexample :
    ∃ answer : Table,
      BagEq answer (qualifyEliminated (fun _ r => col 0 r) (fun _ => some true) id 1 List.reverse none [[.int 1], [.int 2]]) ∧
      answer ≠ qualifyOriginal (fun _ r => col 0 r) (fun _ => some true) id 1 List.reverse none [[.int 1], [.int 2]] :=
  ⟨[[.int 1], [.int 2]], by decide, by decide⟩

end SqlglotModel.Properties.C02
