/-
  C07 — Formatting options never change the meaning (the modelled helpers of sqlglot/generator.py).
  Only property theorems, non-vacuity examples and counter-example witnesses live here.
  Proved for ALL pad / indent / max_text_width (unbounded naturals), leading_comma and skip flags; the per-node
  `*_sql` methods that call the helpers are covered by the search oracle only.
-/
import SqlglotModel.Proofs.Pretty

namespace SqlglotModel.Properties.C07
open SqlglotModel.Pretty

/-- `indent` only adds whitespace: with all whitespace stripped the text is unchanged -/
theorem indent_ws_only (o : Opts) (sql : Str) (level : Nat) (pad : Option Nat) (skipFirst skipLast : Bool) :
    stripWs (indent o sql level pad skipFirst skipLast) = stripWs sql :=
  stripWs_indent o sql level pad skipFirst skipLast

example : indent ⟨true, 2, 2, 80, false⟩ "a\nb".toList 1 none true false = "a\n    b".toList := by decide +kernel

/-- `sep` / `seg`: pretty and plain variants differ only in whitespace -/
theorem sep_seg_ws_only (o o' : Opts) (sql s : Str) : stripWs (seg o sql s) = stripWs (seg o' sql s) := by
  simp only [seg, stripWs_append, stripWs_sep]

/-- `wrap`: pretty and plain variants differ only in whitespace -/
theorem wrap_ws_only (o o' : Opts) (sql : Str) : stripWs (wrap o sql) = stripWs (wrap o' sql) := by
  simp only [wrap]
  split
  · rfl
  · have h1 : ∀ p : Opts, stripWs ('(' :: (sep p [] ++ indent p sql 1 (some 0) false false ++ seg p [')'] []))
        = '(' :: (stripWs sql ++ [')']) := by
      intro p
      rw [show ('(' :: (sep p [] ++ indent p sql 1 (some 0) false false ++ seg p [')'] []))
            = ['('] ++ (sep p [] ++ indent p sql 1 (some 0) false false ++ seg p [')'] []) from rfl]
      simp only [stripWs_append, seg, stripWs_sep, stripWs_indent]
      simp [stripWs, isWs]
    rw [h1 o, h1 o']

/-- the sentinel round trip is the identity on texts without an underscore (a sufficient condition: no character of
    the text can take part in an occurrence of the sentinel) -/
theorem sentinel_roundtrip (s : Str) (hs : '_' ∉ s) :
    replace SENTINEL ['\n'] (replace ['\n'] SENTINEL s) = s := by
  have h1 : replace ['\n'] SENTINEL s = expand s := replaceF_nl s s.length (Nat.le_refl _)
  rw [h1]
  exact replaceF_sent s hs (expand s).length (Nat.le_refl _)

example : replace SENTINEL ['\n'] (replace ['\n'] SENTINEL "a\nb c\n".toList) = "a\nb c\n".toList :=
  sentinel_roundtrip _ (by decide)

/-- KNOWN FINDING (DESIGN §6): the sentinel is in-band. `SELECT '__SQLGLOT__LB__'` under pretty=True: the literal's
    value is replaced by a newline -/
theorem sentinel_in_literal_changes_value :
    literalOut ⟨true, 2, 2, 80, false⟩ "__SQLGLOT__LB__".toList = "'\n'".toList ∧
    literalOut ⟨false, 2, 2, 80, false⟩ "__SQLGLOT__LB__".toList = "'__SQLGLOT__LB__'".toList := by decide +kernel

/-- NEW variant: the value does not even contain the sentinel — a proper prefix of it followed by a newline is enough,
    so `sentinel_roundtrip` really needs a hypothesis stronger than "the sentinel does not occur in the text" -/
theorem sentinel_overlap_changes_value :
    literalOut ⟨true, 2, 2, 80, false⟩ "__SQLGLOT__LB_\n_".toList = "'\n_SQLGLOT__LB___'".toList := by decide +kernel

/-- `sanitize_comment` on `*/` and `/*` (finite examples, labelled as such): no comment terminator survives -/
theorem sanitize_comment_examples :
    sanitizeComment "a */ b".toList = " a * / b ".toList ∧ sanitizeComment "/*x*/".toList = " / *x* / ".toList := by
  decide +kernel

end SqlglotModel.Properties.C07
