/-
  C07 — Formatting options never change the meaning (the modelled helpers of sqlglot/generator.py).
  Only property theorems, non-vacuity examples and counter-example witnesses live here.
  Proved for ALL pad / indent / max_text_width (unbounded naturals), leading_comma and skip flags; the per-node
  `*_sql` methods that call the helpers are covered by the search oracle only.
-/
import SqlglotModel.Proofs.Pretty
import SqlglotModel.Generated.C07

namespace SqlglotModel.Properties.C07
open SqlglotModel.Pretty

/-- `indent` only adds whitespace: with all whitespace stripped the text is unchanged -/
theorem indent_ws_only (o : Opts) (sql : Str) (level : Nat) (pad : Option Nat) (skipFirst skipLast : Bool) :
    stripWs (indent o sql level pad skipFirst skipLast) = stripWs sql :=
  stripWs_indent o sql level pad skipFirst skipLast

example : indent ⟨true, 2, 2, 80, false⟩ "a\nb".toList 1 none true false = "a\n    b".toList := by decide +kernel

/-- `sep` / `seg`: pretty and plain variants differ only in whitespace -/
theorem sep_seg_ws_only (o o' : Opts) (sql s : Str) : stripWs (seg o sql s) = stripWs (seg o' sql s) := by
  simp only [seg, stripWs_append, stripWs_sep]

/-- `wrap`: pretty and plain variants differ only in whitespace -/
theorem wrap_ws_only (o o' : Opts) (sql : Str) : stripWs (wrap o sql) = stripWs (wrap o' sql) := by
  simp only [wrap]
  split
  · rfl
  · have h1 : ∀ p : Opts, stripWs ('(' :: (sep p [] ++ indent p sql 1 (some 0) false false ++ seg p [')'] []))
        = '(' :: (stripWs sql ++ [')']) := by
      intro p
      rw [show ('(' :: (sep p [] ++ indent p sql 1 (some 0) false false ++ seg p [')'] []))
            = ['('] ++ (sep p [] ++ indent p sql 1 (some 0) false false ++ seg p [')'] []) from rfl]
      simp only [stripWs_append, seg, stripWs_sep, stripWs_indent]
      simp [stripWs, isWs]
    rw [h1 o, h1 o']

/-- `expressions(...)`: whatever the options (plain / pretty / leading_comma / dynamic + too_wide / new_line, any pad,
    indent, max_text_width, skip flags), the output with whitespace stripped is the items with their prefix, separated
    by the separator — so any two option sets differ only in whitespace.  Hypothesis: no item is the empty string
    (`expressions` skips empty items but keeps their index, so with an empty FIRST item leading_comma emits a leading
    separator and with an empty LAST item the other styles emit a trailing one — see the example below). -/
theorem expressions_ws_only (o o' : Opts) (items : List Str) (hne : ∀ s ∈ items, s ≠ [])
    (flat doIndent skipFirst skipLast : Bool) (sepS pre : Str) (dynamic newLine : Bool) :
    stripWs (expressions o items flat doIndent skipFirst skipLast sepS pre dynamic newLine)
      = stripWs (expressions o' items flat doIndent skipFirst skipLast sepS pre dynamic newLine) := by
  cases items with
  | nil => simp [expressions]
  | cons x xs =>
    cases flat with
    | true => simp [expressions]
    | false =>
      rw [stripWs_expressions_nonflat o (x :: xs) hne (by simp), stripWs_expressions_nonflat o' (x :: xs) hne (by simp)]

example : expressions ⟨true, 2, 2, 5, false⟩ ["a".toList, "b + 1".toList] false true false false ", ".toList [] true false
    = "  a,\n  b + 1".toList := by decide +kernel

/-- the hypothesis of `expressions_ws_only` is needed: with an empty first item the leading-comma style differs from
    the plain one in a non-whitespace character -/
theorem expressions_empty_item_witness :
    expressions ⟨true, 0, 0, 80, true⟩ [[], ['a']] false false false false [','] [] false false = [',', 'a'] ∧
    expressions ⟨false, 0, 0, 80, false⟩ [[], ['a']] false false false false [','] [] false false = ['a'] := by
  decide +kernel

/-- the replace chain extracted from `Generator.generate` (the `sql = sql.replace(<pattern>, "\n")` calls under
    `if self.pretty`) is the chain the model's `finish` runs: the sentinel, then its lower-cased form -/
theorem generated_sentinel_chain_ok : SqlglotModel.Generated.C07.sentinelChain = sentinelChain := by decide +kernel

/-- whatever reaches the end of `generate()` under pretty=True, the returned text contains no occurrence of the
    sentinel NOR of its lower-cased form (no suffix of the output starts with either) — for every input text.
    SCOPE: the modelled TAIL of generate() (strip + the replace chain). Other case-variants (mixed case) are not claimed
    by this theorem; the search oracle checks "no case-variant of the sentinel in any output". -/
theorem sentinel_absent_in_output (o : Opts) (hp : o.pretty = true) (sql : Str) (k : Nat) :
    isPrefix SENTINEL ((finish o sql).drop k) = false ∧ isPrefix SENTINEL_LOWER ((finish o sql).drop k) = false := by
  have h1 : NoOcc SENTINEL (replace SENTINEL ['\n'] (strip sql)) :=
    noOcc_replace_self '_' SENTINEL.tail sentinel_no_nl _
  have h2 : NoOcc SENTINEL (replace SENTINEL_LOWER ['\n'] (replace SENTINEL ['\n'] (strip sql))) :=
    noOcc_replace_other '_' SENTINEL_LOWER.tail '_' SENTINEL.tail sentinel_no_nl _ h1
  have h3 : NoOcc SENTINEL_LOWER (replace SENTINEL_LOWER ['\n'] (replace SENTINEL ['\n'] (strip sql))) :=
    noOcc_replace_self '_' SENTINEL_LOWER.tail sentinel_lower_no_nl _
  have hf : finish o sql = replace SENTINEL_LOWER ['\n'] (replace SENTINEL ['\n'] (strip sql)) := by
    simp [finish, finishWith, sentinelChain, hp]
  rw [hf]
  exact ⟨h2 k, h3 k⟩

/-- the single-replace tail (the source before the lower-cased sentinel was handled) removes the sentinel as spelled -/
theorem sentinel_absent_in_output_old (o : Opts) (hp : o.pretty = true) (sql : Str) (k : Nat) :
    isPrefix SENTINEL ((finishOld o sql).drop k) = false := by
  have hf : finishOld o sql = replace SENTINEL ['\n'] (strip sql) := by simp [finishOld, finishWith, hp]
  rw [hf]
  exact noOcc_replace_self '_' SENTINEL.tail sentinel_no_nl _ k

/-- every generator method that does position-dependent string surgery on rendered text (found by ast, re-extracted every
    run) is on the audited allow-list (finite table, decided completely) -/
theorem generated_surgery_sites_audited :
    ∀ s ∈ SqlglotModel.Generated.C07.surgerySites, s ∈ auditedSurgerySites := by decide +kernel

/-- every method whose rendering path branches on `self.pretty` outside the whitespace helpers (found by ast, re-extracted
    every run) is on the audited allow-list (finite table, decided completely): a NEW pretty-only rendering path is not
    covered by the whitespace theorems above and must be audited and given a corpus statement first -/
theorem pretty_only_structural_branches_audited :
    ∀ s ∈ SqlglotModel.Generated.C07.prettyBranchSites, s ∈ auditedPrettyBranches := by decide +kernel

/-! ### Athena: generator options are applied by the engine the GENERATOR picks, the output is re-read by the engine the
TOKENIZER picks (shared model: Model/Engine.lean, also used by C01) -/

/-- FINITE TABLE, decided completely: on every enumerated statement shape the model's two predicates give what the real
    `_tokenize_as_hive` / `_generate_as_hive` give on the shape's sample statement (re-evaluated every run) -/
theorem athena_engine_model_matches_source :
    ∀ r ∈ SqlglotModel.Generated.C07.athenaShapes,
      SqlglotModel.Engine.tokHive r.2.1 = r.2.2.1 ∧ SqlglotModel.Engine.genHive r.2.1 = r.2.2.2 := by decide +kernel

/-- every enumerated `CREATE TABLE … AS <query>` sample (plain, set operation, parenthesised, WITH, over a subquery) is
    generated and re-tokenized by the same engine — otherwise `identify` / `pretty` output written by Hive (backticks) is
    re-read by Trino and falls back to a Command -/
theorem generated_athena_ctas_engines_agree :
    ∀ r ∈ SqlglotModel.Generated.C07.athenaShapes, r.2.1.first = .create → r.2.1.kind = .table →
      SqlglotModel.Engine.bodyIsQuery r.2.1.body = true → r.2.2.1 = r.2.2.2 := by decide +kernel

/-- a generator-side guard that accepts only unwrapped queries sends a parenthesised CTAS body to Hive while the tokenizer
    sends the text to Trino -/
theorem athena_unwrapped_only_variant_witness :
    SqlglotModel.Engine.tokHive ⟨.create, .table, false, .paren, false⟩ = false ∧
    SqlglotModel.Engine.genHiveWith .unwrappedOnly ⟨.create, .table, false, .paren, false⟩ = true ∧
    SqlglotModel.Engine.genHiveWith .unwrappedOnly ⟨.create, .table, false, .setop, false⟩ = false ∧
    SqlglotModel.Engine.genHive ⟨.create, .table, false, .paren, false⟩ = false := by decide

/-- `_embed_ignore_nulls` as the source does it (render the call WITHOUT comments, drop its closing parenthesis, append
    the modifier and `)`, then attach the comments): the modifier lands directly before the call's own closing
    parenthesis and the comments follow the call — whatever characters the comment texts contain -/
theorem embed_before_paren_comment_independent (o : Opts) (body text : Str) (cs : List Str) :
    embedSlice o ⟨body, cs⟩ text = (body ++ ' ' :: text ++ [')']) ++ renderComments o cs := by
  simp only [embedSlice, renderComments, List.dropLast_concat]
  rw [maybeComment_append]

example : embedSlice ⟨false, 2, 2, 80, false⟩ ⟨"ARRAY_AGG(x".toList, ["a) b".toList]⟩ "IGNORE NULLS".toList
    = "ARRAY_AGG(x IGNORE NULLS) /* a) b */".toList := by decide +kernel

/-- the variant that renders WITH comments and inserts before the LAST `)` of the text: a `)` inside the trailing comment
    is taken for the call's closing parenthesis and the modifier moves into the comment -/
theorem embed_rfind_counterexample :
    embedRfind ⟨false, 2, 2, 80, false⟩ ⟨"ARRAY_AGG(x".toList, ["non-null values (sorted)".toList]⟩ "IGNORE NULLS".toList
      = "ARRAY_AGG(x) /* non-null values (sorted IGNORE NULLS) */".toList ∧
    embedSlice ⟨false, 2, 2, 80, false⟩ ⟨"ARRAY_AGG(x".toList, ["non-null values (sorted)".toList]⟩ "IGNORE NULLS".toList
      = "ARRAY_AGG(x IGNORE NULLS) /* non-null values (sorted) */".toList := by decide +kernel

/-- Doc view of the modelled printer (C01 `gen`): render every soft break `sp` as ANY whitespace string (space, or
    newline + indentation of any width, chosen per position): the text without whitespace is the same — pretty and
    plain renderings of a Doc differ only in whitespace, for unbounded pad / indent / width -/
theorem doc_render_ws_only (tbl : SqlglotModel.Expr.Tables) (ws ws' : Nat → Str)
    (h : ∀ i, stripWs (ws i) = []) (h' : ∀ i, stripWs (ws' i) = []) (ps : List SqlglotModel.Gen.Piece) (i j : Nat) :
    stripWs (renderDoc tbl ws i ps) = stripWs (renderDoc tbl ws' j ps) := by
  induction ps generalizing i j with
  | nil => rfl
  | cons p ps ih =>
    cases p with
    | t k => simp only [renderDoc, stripWs_append]; rw [ih (i + 1) (j + 1)]
    | sp => simp only [renderDoc, stripWs_append, h, h']; exact congrArg _ (ih (i + 1) (j + 1))

/-- the sentinel round trip is the identity on texts without an underscore (a sufficient condition: no character of
    the text can take part in an occurrence of the sentinel) -/
theorem sentinel_roundtrip (s : Str) (hs : '_' ∉ s) :
    replace SENTINEL ['\n'] (replace ['\n'] SENTINEL s) = s := by
  have h1 : replace ['\n'] SENTINEL s = expand s := replaceF_nl s s.length (Nat.le_refl _)
  rw [h1]
  exact replaceF_sent s hs (expand s).length (Nat.le_refl _)

example : replace SENTINEL ['\n'] (replace ['\n'] SENTINEL "a\nb c\n".toList) = "a\nb c\n".toList :=
  sentinel_roundtrip _ (by decide)

/-- KNOWN FINDING (DESIGN §6): the sentinel is in-band. `SELECT '__SQLGLOT__LB__'` under pretty=True: the literal's
    value is replaced by a newline -/
theorem sentinel_in_literal_changes_value :
    literalOut ⟨true, 2, 2, 80, false⟩ "__SQLGLOT__LB__".toList = "'\n'".toList ∧
    literalOut ⟨false, 2, 2, 80, false⟩ "__SQLGLOT__LB__".toList = "'__SQLGLOT__LB__'".toList := by decide +kernel

/-- NEW variant: the value does not even contain the sentinel — a proper prefix of it followed by a newline is enough,
    so `sentinel_roundtrip` really needs a hypothesis stronger than "the sentinel does not occur in the text" -/
theorem sentinel_overlap_changes_value :
    literalOut ⟨true, 2, 2, 80, false⟩ "__SQLGLOT__LB_\n_".toList = "'\n_SQLGLOT__LB___'".toList := by decide +kernel

/-- SNAPSHOT WITNESS (finding fixed in the source since): `SELECT "a\nB"(1)` with pretty=True,
    normalize_functions="lower": the rendered quoted name `"a__SQLGLOT__LB__B"` is lower-cased before the tail of
    generate() runs; under the OLD single-replace tail the lower-cased sentinel survived, the current chain restores
    the line break -/
theorem sentinel_lowercased_survives :
    finishOld ⟨true, 2, 2, 80, false⟩
        (lowerAscii ('"' :: 'a' :: (replaceLineBreaks ⟨true, 2, 2, 80, false⟩ ['\n'] ++ ['B', '"', '(', '1', ')'])))
      = "\"a__sqlglot__lb__b\"(1)".toList ∧
    finish ⟨true, 2, 2, 80, false⟩
        (lowerAscii ('"' :: 'a' :: (replaceLineBreaks ⟨true, 2, 2, 80, false⟩ ['\n'] ++ ['B', '"', '(', '1', ')'])))
      = "\"a\nb\"(1)".toList := by decide +kernel

/-- `sanitize_comment` on `*/` and `/*` (finite examples, labelled as such): no comment terminator survives -/
theorem sanitize_comment_examples :
    sanitizeComment "a */ b".toList = " a * / b ".toList ∧ sanitizeComment "/*x*/".toList = " / *x* / ".toList := by
  decide +kernel

end SqlglotModel.Properties.C07
