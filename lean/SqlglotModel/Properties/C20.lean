/-
  C20 — An AST diff accounts for every node once and is empty only for equal trees.
  Only property theorems, non-vacuity examples and counter-example witnesses live here.

  Layer A theorems quantify over an ARBITRARY `Env`: any leaf lists, any index lists without duplicates, any
  similarity oracles (`sameType`, `dice`, `psim`, `innerSim`), any move detector and any Keep/Update decision.
  `PreOk` is what the docstring of `diff()` asks of caller matchings (nodes of the two trees, here also injective).
-/
import SqlglotModel.Proofs.Diff
import SqlglotModel.Generated.C20

namespace SqlglotModel.Properties.C20
open SqlglotModel.Diff

/-- **the matching is injective on both sides** (no source and no target node is paired twice), for arbitrary oracles -/
theorem matching_injective (E : Env) (pre : List (Id × Id)) (hS : E.srcIndex.Nodup) (hT : E.tgtIndex.Nodup)
    (hp : PreOk E pre) :
    (fsts (matchAll E pre).all).Nodup ∧ (snds (matchAll E pre).all).Nodup := by
  constructor
  · apply List.nodup_iff_count.mpr
    intro a
    have := matchAll_count_src E pre hS hp a
    have := List.nodup_iff_count.mp hS a
    omega
  · apply List.nodup_iff_count.mpr
    intro a
    have := matchAll_count_tgt E pre hT hp a
    have := List.nodup_iff_count.mp hT a
    omega

/-- **matched nodes have the same type**: every pair the algorithm computes passed `_is_same_type`; with same-typed
    caller matchings so does every pair of the final matching -/
theorem matched_same_type (E : Env) (pre : List (Id × Id)) :
    (∀ p ∈ (matchAll E pre).computed, E.sameType p.1 p.2 = true) ∧
    ((∀ p ∈ pre, E.sameType p.1 p.2 = true) → ∀ p ∈ (matchAll E pre).all, E.sameType p.1 p.2 = true) := by
  refine ⟨matchAll_computed_sameType E pre, ?_⟩
  intro hpre p hp
  have hall : (matchAll E pre).all = (matchAll E pre).computed ++ pre := by simp [matchAll]
  rw [hall, List.mem_append] at hp
  rcases hp with hp | hp
  · exact matchAll_computed_sameType E pre p hp
  · exact hpre p hp

/-- matched nodes are nodes of the two indexes (non-identifier nodes of the two trees) -/
theorem matched_in_index (E : Env) (pre : List (Id × Id)) (hS : E.srcIndex.Nodup) (hT : E.tgtIndex.Nodup)
    (hp : PreOk E pre) :
    ∀ p ∈ (matchAll E pre).all, p.1 ∈ E.srcIndex ∧ p.2 ∈ E.tgtIndex := by
  intro p hp'
  constructor
  · have := matchAll_count_src E pre hS hp p.1
    have h1 : 0 < (fsts (matchAll E pre).all).count p.1 :=
      List.count_pos_iff.mpr (List.mem_map.mpr ⟨p, hp', rfl⟩)
    exact List.count_pos_iff.mp (by omega)
  · have := matchAll_count_tgt E pre hT hp p.2
    have h1 : 0 < (snds (matchAll E pre).all).count p.2 :=
      List.count_pos_iff.mpr (List.mem_map.mpr ⟨p, hp', rfl⟩)
    exact List.count_pos_iff.mp (by omega)

/-- **caller matchings are respected**: each supplied pair is in the final matching, and its source (target) is
    the source (target) of no other pair -/
theorem prematch_respected (E : Env) (pre : List (Id × Id)) (hS : E.srcIndex.Nodup) (hT : E.tgtIndex.Nodup)
    (hp : PreOk E pre) :
    ∀ p ∈ pre, p ∈ (matchAll E pre).all ∧
      ∀ q ∈ (matchAll E pre).all, (q.1 = p.1 ∨ q.2 = p.2) → q = p := by
  intro p hpp
  have hin : p ∈ (matchAll E pre).all := by simp [matchAll, hpp]
  refine ⟨hin, ?_⟩
  obtain ⟨h1, h2⟩ := matching_injective E pre hS hT hp
  intro q hq hor
  rcases hor with h | h
  · exact nodup_map_inj (fun x : Id × Id => x.1) (matchAll E pre).all (by simpa [fsts] using h1) q p hq hin h
  · exact nodup_map_inj (fun x : Id × Id => x.2) (matchAll E pre).all (by simpa [snds] using h2) q p hq hin h

/-- **source partition**: every node of the source index (= every non-identifier source node) is, in the full edit
    script, exactly once either removed or the source side of a Keep/Update pair -/
theorem source_partition (E : Env) (pre : List (Id × Id)) (hS : E.srcIndex.Nodup) (hp : PreOk E pre)
    (n : Id) (hn : n ∈ E.srcIndex) :
    (script E (matchAll E pre)).countP (Edit.removes n) + (script E (matchAll E pre)).countP (Edit.pairsSrc n) = 1 := by
  have hc := matchAll_count_src E pre hS hp n
  rw [hS.count] at hc
  simp only [hn, if_true] at hc
  simp only [script, List.countP_append]
  rw [countP_map_remove, countP_pairs E _ _ _ _ (pairEdits_countP_remove E _ n), sum_map_zero,
    countP_pairs E _ _ _ _ (pairEdits_countP_src E _ n), sum_map_ite_fst]
  rw [countP_zero_of_forall (Edit.removes n) (List.map Edit.insert _) (by
        intro x hx; obtain ⟨a, _, rfl⟩ := List.mem_map.mp hx; rfl),
      countP_zero_of_forall (Edit.pairsSrc n) (List.map Edit.remove _) (by
        intro x hx; obtain ⟨a, _, rfl⟩ := List.mem_map.mp hx; rfl),
      countP_zero_of_forall (Edit.pairsSrc n) (List.map Edit.insert _) (by
        intro x hx; obtain ⟨a, _, rfl⟩ := List.mem_map.mp hx; rfl)]
  omega

/-- **target partition**: every node of the target index is exactly once either inserted or the target side of a
    Keep/Update pair -/
theorem target_partition (E : Env) (pre : List (Id × Id)) (hT : E.tgtIndex.Nodup) (hp : PreOk E pre)
    (n : Id) (hn : n ∈ E.tgtIndex) :
    (script E (matchAll E pre)).countP (Edit.inserts n) + (script E (matchAll E pre)).countP (Edit.pairsTgt n) = 1 := by
  have hc := matchAll_count_tgt E pre hT hp n
  rw [hT.count] at hc
  simp only [hn, if_true] at hc
  simp only [script, List.countP_append]
  rw [countP_map_insert, countP_pairs E _ _ _ _ (pairEdits_countP_insert E _ n), sum_map_zero,
    countP_pairs E _ _ _ _ (pairEdits_countP_tgt E _ n), sum_map_ite_snd]
  rw [countP_zero_of_forall (Edit.inserts n) (List.map Edit.remove _) (by
        intro x hx; obtain ⟨a, _, rfl⟩ := List.mem_map.mp hx; rfl),
      countP_zero_of_forall (Edit.pairsTgt n) (List.map Edit.remove _) (by
        intro x hx; obtain ⟨a, _, rfl⟩ := List.mem_map.mp hx; rfl),
      countP_zero_of_forall (Edit.pairsTgt n) (List.map Edit.insert _) (by
        intro x hx; obtain ⟨a, _, rfl⟩ := List.mem_map.mp hx; rfl)]
  omega

/-- `delta_only=True` yields the full script minus its Keep edits: nothing else is dropped, no Keep survives -/
theorem delta_only_drops_exactly_keeps (E : Env) (M : Matching) :
    (∀ e ∈ script E M, e ∈ delta E M ∨ e.isKeep = true) ∧ (∀ e ∈ delta E M, e ∈ script E M ∧ e.isKeep = false) := by
  constructor
  · intro e he
    by_cases hk : e.isKeep = true
    · exact Or.inr hk
    · exact Or.inl (List.mem_filter.mpr ⟨he, by simpa using hk⟩)
  · intro e he
    have := List.mem_filter.mp he
    exact ⟨this.1, by simpa using this.2⟩

/-! ### the same statements for the tree-level model `diffTrees` (what the driver runs) -/

theorem diffTrees_matching_injective (P : Params) (S T : Tree) (dice : Id → Id → Nat) (pre : List (Id × Id))
    (hS : S.index.Nodup) (hT : T.index.Nodup) (hp : PreOk (envOf P S T dice) pre) (d : Bool) :
    (fsts (diffTrees P S T dice pre d).matching).Nodup ∧ (snds (diffTrees P S T dice pre d).matching).Nodup :=
  matching_injective (envOf P S T dice) pre hS hT hp

theorem diffTrees_source_partition (P : Params) (S T : Tree) (dice : Id → Id → Nat) (pre : List (Id × Id))
    (hS : S.index.Nodup) (hp : PreOk (envOf P S T dice) pre) (n : Id) (hn : n ∈ S.index) :
    (diffTrees P S T dice pre false).edits.countP (Edit.removes n) +
      (diffTrees P S T dice pre false).edits.countP (Edit.pairsSrc n) = 1 :=
  source_partition (envOf P S T dice) pre hS hp n hn

theorem diffTrees_target_partition (P : Params) (S T : Tree) (dice : Id → Id → Nat) (pre : List (Id × Id))
    (hT : T.index.Nodup) (hp : PreOk (envOf P S T dice) pre) (n : Id) (hn : n ∈ T.index) :
    (diffTrees P S T dice pre false).edits.countP (Edit.inserts n) +
      (diffTrees P S T dice pre false).edits.countP (Edit.pairsTgt n) = 1 :=
  target_partition (envOf P S T dice) pre hT hp n hn

/-! ### a tree against its copy -/

/-- **the matching of a tree against its copy is the identity**: under the oracle facts `CopyOk` (twins have the same
    type, `dice x x'` is maximal and passes `f`, no pair beats a twin pair's parent similarity, twins pass the inner
    leaf-similarity test once the leaves are matched) nothing stays unmatched and every node is paired with its twin.
    The proof is the tie-break argument on the heap key `(-dice, -parent_similarity, push index)`. -/
theorem copy_identity_matching (E : Env) (φ : Id → Id) (h : CopyOk E φ) :
    (matchAll E []).unmatchedS = [] ∧ (matchAll E []).unmatchedT = [] ∧
      (∀ p ∈ (matchAll E []).all, p.2 = φ p.1) ∧ (∀ x ∈ E.srcIndex, (x, φ x) ∈ (matchAll E []).all) := by
  have hu0 : ∀ idx : List Id, unmatched0 idx [] = idx := by intro idx; simp [unmatched0]
  have hg := greedy_copy h (popOrder E) ⟨E.srcIndex, E.tgtIndex, []⟩ (popOrder_sorted E)
    (fun c hc => by simpa [popOrder] using hc)
    (by intro p hp; simp at hp) h.tgtIndex
    (by
      intro x hx _
      have hraw : (x, φ x) ∈ rawCands E := by
        rw [rawCands_eq]; exact List.mem_flatMap.mpr ⟨x, hx, twin_in_raw h hx⟩
      obtain ⟨c, hc, h1, h2⟩ := enumFrom_surj E 0 _ _ hraw
      exact ⟨c, by simpa [popOrder, cands] using hc, h1, h2⟩)
    h.srcNodup
  have hlp : leafPass E [] = greedy (popOrder E) ⟨E.srcIndex, E.tgtIndex, []⟩ := by
    simp [leafPass, hu0]
  obtain ⟨g1, g2, _, _, g5⟩ := hg
  rw [← hlp] at g1 g2 g5
  have hsub : ∀ s ∈ (leafPass E []).us, s ∈ E.srcIndex := by
    intro s hs
    have := greedy_count_src (popOrder E) ⟨E.srcIndex, E.tgtIndex, []⟩ s
    rw [← hlp] at this
    have h1 : 0 < (leafPass E []).us.count s := List.count_pos_iff.mpr hs
    simp at this
    exact List.count_pos_iff.mp (by omega)
  have hlm : innerLm E [] (leafPass E []).acc = (leafPass E []).acc := by simp [innerLm]
  have hi := innerLoop_copy (innerCond E (innerLm E [] (leafPass E []).acc)) φ (leafPass E []).us
    ⟨(leafPass E []).us, (leafPass E []).ut, []⟩ rfl g2
    (by
      intro s hs
      simp only [innerCond, Bool.and_eq_true]
      rw [hlm]
      exact ⟨h.twinType s, h.innerTwin _ (fun l hl hli => g5 l hl hli) s (hsub s hs)⟩)
    (by intro p hp; simp at hp)
  have hall : ∀ p ∈ (matchAll E []).all, p.2 = φ p.1 := by
    intro p hp
    simp only [matchAll, List.append_nil, List.mem_append] at hp
    rcases hp with hp | hp
    · exact g1 p hp
    · exact hi.2.2 p hp
  refine ⟨hi.1, hi.2.1, hall, ?_⟩
  intro x hx
  have hc := matchAll_count_src E [] h.srcNodup ⟨by simp, by simp, by simp, by simp⟩ x
  have hS : (matchAll E []).unmatchedS = [] := hi.1
  rw [hS, h.srcNodup.count] at hc
  simp only [hx, if_true, List.count_nil, Nat.zero_add] at hc
  have hmem : x ∈ fsts (matchAll E []).all := List.count_pos_iff.mp (by omega)
  obtain ⟨p, hp, hp1⟩ := List.mem_map.mp hmem
  have := hall p hp
  obtain ⟨a, b⟩ := p
  simp only at hp1 this
  subst hp1; subst this
  exact hp

/-- **the delta of a tree against its copy is empty**: with, in addition, twins `==`-identical with equal
    non-expression leaves (`isUpdate` false) and no Move for a twin pair whose parents are matched as twins -/
theorem copy_delta_empty (E : Env) (φ : Id → Id) (h : CopyOk E φ)
    (hupd : ∀ x ∈ E.srcIndex, E.isUpdate x (φ x) = false)
    (hmov : ∀ m u x, (∀ p ∈ m, p.2 = φ p.1) → (∀ y ∈ E.srcIndex, (y, φ y) ∈ m) → x ∈ E.srcIndex →
      E.moves m u x (φ x) = []) :
    delta E (matchAll E []) = [] := by
  obtain ⟨h1, h2, h3, h4⟩ := copy_identity_matching E φ h
  have hidx := matched_in_index E [] h.srcNodup
    (by rw [h.tgtIndex, List.Nodup, List.pairwise_map]; exact h.srcNodup.imp (fun hab hφ => hab (h.inj _ _ hφ)))
    ⟨by simp, by simp, by simp, by simp⟩
  simp only [delta, script, h1, h2, List.map_nil, List.nil_append]
  rw [List.filter_eq_nil_iff]
  intro e he
  obtain ⟨p, hp, hep⟩ := List.mem_flatMap.mp he
  have hp2 := h3 p hp
  have hpi := (hidx p hp).1
  simp only [pairEdits] at hep
  rw [hp2, hmov _ _ p.1 h3 h4 hpi, hupd p.1 hpi] at hep
  simp at hep
  simp [hep, Edit.isKeep]

/-- `CopyOk` and the extra oracle facts are satisfiable: two leaves under a root, twins shifted by 10 -/
def copyEnv : Env where
  srcLeaves := [1, 2]
  tgtLeaves := [11, 12]
  srcIndex := [0, 1, 2]
  tgtIndex := [10, 11, 12]
  sameType := fun _ _ => true
  dice := fun _ _ => 1
  psim := fun _ _ => 0
  f := 1
  innerSim := fun _ _ _ => true
  moves := fun _ _ _ _ => []
  isUpdate := fun _ _ => false
  countPre := false

example : CopyOk copyEnv (· + 10) where
  tgtLeaves := rfl
  tgtIndex := rfl
  inj := by intro a b hab; simp at hab; exact hab
  srcNodup := by decide
  leavesNodup := by decide
  twinType := fun _ => rfl
  diceTop := fun _ _ _ => Nat.le_refl _
  fLe := fun _ => Nat.le_refl _
  psimTwin := fun _ _ => ⟨Nat.le_refl _, Nat.le_refl _⟩
  innerTwin := fun _ _ _ _ => rfl

/-! ### empty delta -/

/-- Layer A: an empty delta means nothing is unmatched and every matched pair produced no Move and ended in Keep -/
theorem delta_empty_layerA (E : Env) (M : Matching) (h : delta E M = []) :
    M.unmatchedS = [] ∧ M.unmatchedT = [] ∧
      ∀ p ∈ M.all, E.isUpdate p.1 p.2 = false ∧ E.moves M.all M.unmatchedS p.1 p.2 = [] := by
  have hk : ∀ e ∈ script E M, e.isKeep = true := by
    intro e he
    rcases (delta_only_drops_exactly_keeps E M).1 e he with h' | h'
    · rw [h] at h'; simp at h'
    · exact h'
  refine ⟨?_, ?_, ?_⟩
  · cases hu : M.unmatchedS with
    | nil => rfl
    | cons a l =>
      have := hk (.remove a) (by simp [script, hu])
      simp [Edit.isKeep] at this
  · cases hu : M.unmatchedT with
    | nil => rfl
    | cons a l =>
      have := hk (.insert a) (by simp [script, hu])
      simp [Edit.isKeep] at this
  · intro p hp
    have hsub : ∀ e ∈ pairEdits E M p, e.isKeep = true := by
      intro e he
      exact hk e (by simp only [script, List.mem_append, List.mem_flatMap]; exact Or.inr ⟨p, hp, he⟩)
    constructor
    · by_cases hu : E.isUpdate p.1 p.2 = true
      · have := hsub (.update p.1 p.2) (by simp [pairEdits, hu])
        simp [Edit.isKeep] at this
      · simpa using hu
    · cases hm : E.moves M.all M.unmatchedS p.1 p.2 with
      | nil => rfl
      | cons m l =>
        have := hsub (moveToEdit m) (by simp [pairEdits, hm])
        rw [(moveToEdit_not 0 m).2.2.2.2] at this
        cases this

/-- **delta empty ⇒ equal, the part that holds today** (`…_partial`): with an empty delta every non-identifier node of
    both trees is matched (injectively, same type by `matched_same_type`), every matched pair has equal non-expression
    leaves, is `==`-identical whenever its type is updatable, and no child changed parent or order.
    MISSING for full equality: the Identifier children of a non-identical pair of NON-updatable type are compared only
    when `cmpIdents` holds (the proposed repair), and argument keys are never compared — see the counterexample below. -/
theorem delta_empty_imp_equal_partial (P : Params) (S T : Tree) (dice : Id → Id → Nat) (pre : List (Id × Id))
    (h : (diffTrees P S T dice pre true).edits = []) :
    let M := matchAll (envOf P S T dice) pre
    M.unmatchedS = [] ∧ M.unmatchedT = [] ∧
      ∀ p ∈ (diffTrees P S T dice pre true).matching,
        S.nel p.1 = T.nel p.2 ∧
        (S.updatable p.1 = true → S.eqc p.1 = T.eqc p.2) ∧
        (P.cmpIdents = true → P.identsAsDict = false → S.eqc p.1 = T.eqc p.2 ∨ S.idk p.1 = T.idk p.2) ∧
        movesOf S T M.all M.unmatchedS p.1 p.2 = [] := by
  intro M
  have hA := delta_empty_layerA (envOf P S T dice) M (by simpa [diffTrees] using h)
  refine ⟨hA.1, hA.2.1, ?_⟩
  intro p hp
  obtain ⟨hu, hm⟩ := hA.2.2 p (by simpa [diffTrees] using hp)
  simp only [envOf, isUpdateOf] at hu
  by_cases hc : (!S.updatable p.1 || identical S T p.1 p.2) = true
  · rw [if_pos hc] at hu
    simp only [Bool.or_eq_false_iff, Bool.and_eq_false_iff] at hu
    obtain ⟨hnel, hid⟩ := hu
    refine ⟨by simpa using hnel, ?_, ?_, hm⟩
    · intro hup
      simpa [hup, identical] using hc
    · intro hci hdict
      by_cases he : S.eqc p.1 = T.eqc p.2
      · exact Or.inl he
      · right
        have hni : identical S T p.1 p.2 = false := by simp [identical, he]
        simp [hci, hni, identsEq, hdict] at hid
        exact hid
  · rw [if_neg hc] at hu; cases hu

/-- the DESIGN §6 instance `SELECT a.b.c.d.e` vs `SELECT a.b.c.d.f`, as model trees: Select(0) → Dot(1) → [Column(2), Identifier(3)]
    against ids 10..13; the two Identifier leaves differ, hence the Dots and the Selects are not `==` -/
def witS : Tree where
  root := 0
  size := 5
  cls := fun i => i
  ty := fun i => i
  parent := fun i => match i with | 1 => some 0 | 2 => some 1 | 3 => some 1 | _ => none
  kids := fun i => match i with | 0 => [1] | 1 => [2, 3] | _ => []
  ignored := fun i => i == 3
  updatable := fun i => i == 2
  nel := fun _ => 0
  eqc := fun i => i
  akey := fun _ => 0
  txt := fun i => i
  lay := fun _ => 0

def witT : Tree where
  root := 10
  size := 5
  cls := fun i => i - 10
  ty := fun i => i - 10
  parent := fun i => match i with | 11 => some 10 | 12 => some 11 | 13 => some 11 | _ => none
  kids := fun i => match i with | 10 => [11] | 11 => [12, 13] | _ => []
  ignored := fun i => i == 13
  updatable := fun i => i == 12
  nel := fun _ => 0
  eqc := fun i => if i == 12 then 2 else i + 100
  akey := fun _ => 0
  txt := fun i => i
  lay := fun _ => 0

def witP (fix : Bool) : Params := ⟨1, (3, 5), (4, 5), (2, 5), 4, fix, false, false⟩
def witDice : Id → Id → Nat := fun _ _ => 2

/-- **`delta_empty_imp_equal` is false for the algorithm as it stands**: the delta is empty, the roots are not equal.
    With the proposed repair (`cmpIdents`) the same pair yields `Update(Dot, Dot)`. -/
theorem delta_empty_imp_equal_counterexample :
    (diffTrees (witP false) witS witT witDice [] true).edits = [] ∧
    witS.eqc witS.root ≠ witT.eqc witT.root ∧
    (diffTrees (witP true) witS witT witDice [] true).edits = [.update 1 11] := by
  decide +kernel

/-- the partial theorem's hypothesis is satisfiable (by the very same instance) -/
example : (diffTrees (witP false) witS witT witDice [] true).edits = [] := by decide +kernel

/-! ### equal ⇒ empty delta, on trees -/

/-- **equal ⇒ empty delta, the part that holds** (`…_partial`): for a well-formed tree `S` and a node-for-node copy `T`
    (same classes, same-type keys, non-expression leaves, `==` classes and rendered text, i.e. equality in the
    structural, case-SENSITIVE sense) the delta is empty and the matching is the identity — for every `f ≤ 1`, every `t`,
    assuming only the dice axiomatisation `DiceOk` (validated by the harness on every shipped pair) instead of the
    oracle facts of `copy_identity_matching`.  NOT covered: trees that are merely `==` (`Expr.__eq__` lower-cases
    string arguments) — see the counterexample. -/
theorem equal_imp_delta_empty_partial (P : Params) (S T : Tree) (dice : Id → Id → Nat) (φ : Id → Id) (top : Nat)
    (hc : IsCopy S T φ) (hw : TreeWF S) (hd : DiceOk S T dice top) (hf : P.f ≤ top) (hhi : P.hi.1 ≤ P.hi.2) :
    (diffTrees P S T dice [] true).edits = [] ∧
      (∀ p ∈ (diffTrees P S T dice [] true).matching, p.2 = φ p.1) ∧
      (∀ x ∈ S.index, (x, φ x) ∈ (diffTrees P S T dice [] true).matching) := by
  have hok := copyOk_of_isCopy P S T dice φ top hc hw hd hf hhi
  have h1 := copy_identity_matching (envOf P S T dice) φ hok
  have h2 := copy_delta_empty (envOf P S T dice) φ hok
    (fun x _ => isUpdateOf_twin hc x)
    (fun m u x hm hall hx => movesOf_twin hc hw m u x hm hall hx)
  exact ⟨by simpa [diffTrees] using h2, h1.2.2.1, h1.2.2.2⟩

/-- `SELECT Foo(x)` vs `SELECT FOO(x)` as model trees: Select(0) → Anonymous(1) → Column(2) → Identifier(3).  Every node is
    `==` its counterpart (same `eqc`), but the Anonymous names differ in case: different `_is_same_type` key, different
    non-expression leaves, different text. -/
def caseS : Tree where
  root := 0
  size := 5
  cls := fun i => i
  ty := fun i => i
  parent := fun i => match i with | 1 => some 0 | 2 => some 1 | 3 => some 2 | _ => none
  kids := fun i => match i with | 0 => [1] | 1 => [2] | 2 => [3] | _ => []
  ignored := fun i => i == 3
  updatable := fun i => i == 2
  nel := fun i => i
  eqc := fun i => i
  akey := fun _ => 0
  txt := fun i => i
  lay := fun _ => 0

def caseT : Tree where
  root := 10
  size := 5
  cls := fun i => i - 10
  ty := fun i => if i == 11 then 77 else i - 10
  parent := fun i => match i with | 11 => some 10 | 12 => some 11 | 13 => some 12 | _ => none
  kids := fun i => match i with | 10 => [11] | 11 => [12] | 12 => [13] | _ => []
  ignored := fun i => i == 13
  updatable := fun i => i == 12
  nel := fun i => if i == 11 then 77 else i - 10
  eqc := fun i => i - 10
  akey := fun _ => 0
  txt := fun i => if i == 11 || i == 10 then i + 70 else i - 10
  lay := fun _ => 0

/-- **`equal ⇒ empty delta` is false for `==`-equality**: the roots are `==` (same class) yet the delta is
    Remove(Anonymous) + Insert(Anonymous) + Move(Column) -/
theorem equal_imp_delta_empty_counterexample :
    caseS.eqc caseS.root = caseT.eqc caseT.root ∧
    (diffTrees (witP true) caseS caseT witDice [] true).edits = [.remove 1, .insert 11, .move 2 12] := by
  decide +kernel

/-- the hypotheses of `equal_imp_delta_empty_partial` are satisfiable: the witness source tree against its shifted copy -/
def witCopy : Tree where
  root := 10
  size := 5
  cls := fun i => i - 10
  ty := fun i => i - 10
  parent := fun i => match i with | 11 => some 10 | 12 => some 11 | 13 => some 11 | _ => none
  kids := fun i => match i with | 10 => [11] | 11 => [12, 13] | _ => []
  ignored := fun i => i == 13
  updatable := fun i => i == 12
  nel := fun _ => 0
  eqc := fun i => i - 10
  akey := fun _ => 0
  txt := fun i => i - 10
  lay := fun _ => 0

example : TreeWF witS := wf_imp witS (by decide +kernel)

example : IsCopy witS witCopy (· + 10) where
  inj := by intro a b h; simpa using h
  root := rfl
  size := rfl
  kids := by intro x; match x with | 0 | 1 | 2 | 3 => rfl | (n + 4) => simp [witS, witCopy]
  parent := by intro x; match x with | 0 | 1 | 2 | 3 => rfl | (n + 4) => simp [witS, witCopy]
  cls := by intro x; simp [witS, witCopy]
  ty := by intro x; simp [witS, witCopy]
  ignored := by intro x; simp [witS, witCopy]
  nel := by intro x; rfl
  eqc := by intro x; simp [witS, witCopy]
  txt := by intro x; simp [witS, witCopy]

/-- **delta empty ⇒ equal** (tree model, `==` classes as shipped), with the identifier-children comparison of fix f25f43a
    (`cmpIdents`, extracted from the source as `comparesIgnoredLeaves`).  For well-formed trees, same-typed well-formed
    caller matchings and ANY similarity oracle: if the delta is empty then the two roots are `==`.
    Assumed about the real `Expr.__eq__`: the structural congruence `EqcCongr` (validated on every shipped pair) and that
    the same-type key refines the class.
    THE REMAINING GAP, stated as hypothesis `hlay`: kept pairs have the same child layout (argument keys).  diff.py never
    compares argument keys, and without `hlay` the statement is false — `delta_empty_imp_equal_argkey_counterexample`
    (`x IN (y)` vs `x IN y`). -/
theorem delta_empty_imp_equal (P : Params) (S T : Tree) (dice : Id → Id → Nat) (pre : List (Id × Id))
    (hci : P.cmpIdents = true) (hdict : P.identsAsDict = false) (hwS : TreeWF S) (hwT : TreeWF T) (hrS : S.root ∈ S.index)
    (hp : PreOk (envOf P S T dice) pre) (hpty : ∀ p ∈ pre, S.ty p.1 = T.ty p.2)
    (hty : ∀ s t, S.ty s = T.ty t → S.cls s = T.cls t) (hcg : EqcCongr S T)
    (h : (diffTrees P S T dice pre true).edits = [])
    (hlay : ∀ p ∈ (diffTrees P S T dice pre true).matching, S.lay p.1 = T.lay p.2) :
    S.eqc S.root = T.eqc T.root := by
  have hS : (envOf P S T dice).srcIndex.Nodup := hwS.bfsNodup.filter _
  have hT : (envOf P S T dice).tgtIndex.Nodup := hwT.bfsNodup.filter _
  obtain ⟨hu1, hu2, hpairs⟩ := delta_empty_imp_equal_partial P S T dice pre h
  have hmall : (diffTrees P S T dice pre true).matching = (matchAll (envOf P S T dice) pre).all := rfl
  rw [hmall] at hpairs hlay
  obtain ⟨hm1, hm2⟩ := matching_injective (envOf P S T dice) pre hS hT hp
  have hidx := matched_in_index (envOf P S T dice) pre hS hT hp
  have hsame := (matched_same_type (envOf P S T dice) pre).2 (by
    intro p hpp; simpa [envOf] using hpty p hpp)
  have hsurjT : ∀ y ∈ T.index, y ∈ snds (matchAll (envOf P S T dice) pre).all := by
    intro y hy
    have hc := matchAll_count_tgt (envOf P S T dice) pre hT hp y
    rw [hu2, hT.count] at hc
    have hy' : y ∈ (envOf P S T dice).tgtIndex := hy
    simp only [hy', if_true, List.count_nil, Nat.zero_add] at hc
    exact List.count_pos_iff.mp (by omega)
  have hident := kept_pairs_identical S T (matchAll (envOf P S T dice) pre).all hwS hwT hm1 hm2
    (fun p hp' => hidx p hp') hsurjT
    (fun p hp' => hty _ _ (by simpa [envOf] using hsame p hp'))
    (fun p hp' => (hpairs p hp').1)
    (fun p hp' => (hpairs p hp').2.1)
    (fun p hp' => (hpairs p hp').2.2.1 hci hdict)
    hlay
    (fun p hp' => by have := (hpairs p hp').2.2.2; rwa [hu1] at this)
    hcg
  -- the root's partner is the target root
  have hroot : S.root ∈ fsts (matchAll (envOf P S T dice) pre).all := by
    have hc := matchAll_count_src (envOf P S T dice) pre hS hp S.root
    rw [hu1, hS.count] at hc
    have hr' : S.root ∈ (envOf P S T dice).srcIndex := hrS
    simp only [hr', if_true, List.count_nil, Nat.zero_add] at hc
    exact List.count_pos_iff.mp (by omega)
  obtain ⟨q, hq, hq1⟩ := List.mem_map.mp hroot
  obtain ⟨r, t0⟩ := q
  simp only at hq1; subst hq1
  have hid := hident _ hq
  simp only at hid
  have hmv := (hpairs _ hq).2.2.2
  have hidb : identical S T S.root t0 = true := by simp [identical, hid]
  simp only [movesOf, hidb, Bool.or_true, if_true] at hmv
  have hpm : parentMoved S T (matchAll (envOf P S T dice) pre).all S.root t0 = false := by
    cases hpmv : parentMoved S T (matchAll (envOf P S T dice) pre).all S.root t0 with
    | false => rfl
    | true => simp [hpmv] at hmv
  simp only [parentMoved, hwS.rootParent] at hpm
  have ht0 : t0 = T.root := by
    rcases hwT.parent t0 (hidx _ hq).2 with ⟨p', hp', _⟩ | ⟨_, hr⟩
    · simp [hp'] at hpm
    · exact hr
  rw [hid, ht0]

/-- `SELECT x IN (y)` (In: this=x, expressions=[y]) vs `SELECT x IN y` (In: this=x, field=y) as model trees:
    Select(0) → In(1) → [Column x (2), Column y (3)]; only the layout class of the In node differs -/
def akS : Tree where
  root := 0
  size := 5
  cls := fun i => i
  ty := fun i => i
  parent := fun i => match i with | 1 => some 0 | 2 => some 1 | 3 => some 1 | _ => none
  kids := fun i => match i with | 0 => [1] | 1 => [2, 3] | _ => []
  ignored := fun _ => false
  updatable := fun i => i == 2 || i == 3
  nel := fun _ => 0
  eqc := fun i => i
  akey := fun _ => 0
  txt := fun i => i
  lay := fun _ => 0

def akT : Tree where
  root := 10
  size := 5
  cls := fun i => i - 10
  ty := fun i => i - 10
  parent := fun i => match i with | 11 => some 10 | 12 => some 11 | 13 => some 11 | _ => none
  kids := fun i => match i with | 10 => [11] | 11 => [12, 13] | _ => []
  ignored := fun _ => false
  updatable := fun i => i == 12 || i == 13
  nel := fun _ => 0
  eqc := fun i => if i == 12 || i == 13 then i - 10 else i + 100
  akey := fun _ => 0
  txt := fun i => i - 10
  lay := fun i => if i == 11 then 9 else 0

def akDice : Id → Id → Nat := fun s t => if s + 10 == t then 2 else 0

/-- **the gap is real**: with the identifier fix in place the delta of this pair is still empty although the roots are
    not `==`; the only difference is the In node's layout class (hypothesis `hlay` of `delta_empty_imp_equal` fails) -/
theorem delta_empty_imp_equal_argkey_counterexample :
    (diffTrees (witP true) akS akT akDice [] true).edits = [] ∧
    akS.eqc akS.root ≠ akT.eqc akT.root ∧ akS.lay 1 ≠ akT.lay 11 ∧ akS.wf = true ∧ akT.wf = true := by
  decide +kernel

/-! ### Move generation -/

/-- the modelled `_lcs` returns a common subsequence: a subsequence of the first sequence, aligned elementwise
    (`equal(l, r)`) with a subsequence of the second -/
theorem lcs_is_common_subseq (eq : Id → Id → Bool) (as bs : List Id) :
    List.Sublist (lcs eq as bs) as ∧ ∃ bs', List.Sublist bs' bs ∧ Aligned eq (lcs eq as bs) bs' :=
  SqlglotModel.Diff.lcs_is_common_subseq eq as bs

/-- … and a longest one -/
theorem lcs_maximal (eq : Id → Id → Bool) (as bs l l' : List Id)
    (h1 : List.Sublist l as) (h2 : List.Sublist l' bs) (h3 : Aligned eq l l') : l.length ≤ (lcs eq as bs).length :=
  SqlglotModel.Diff.lcs_maximal eq as bs l l' h1 h2 h3

/-- `_generate_move_edits` emits `Move(a, matchings[a])` for a child `a` of the source node exactly when `a` is matched
    and not in the longest common subsequence of the two child lists under the matching -/
theorem move_iff_not_in_lcs (S T : Tree) (m : List (Id × Id)) (u : List Id) (s t a : Id) (b : Option Id) :
    (a, b) ∈ moveEdits S T m u s t ↔
      a ∈ S.exprArgs s ∧ a ∉ lcs (fun l r => lookup m l == some r) (S.exprArgs s) (T.exprArgs t) ∧ a ∉ u ∧
        b = lookup m a :=
  SqlglotModel.Diff.move_iff_not_in_lcs S T m u s t a b

/-! ### `diff()`: copies and hash caches -/
section WrapperProps
open SqlglotModel.Diff.Wrapper

/-- today's `diff()` (after b176b7b) leaves every input node's `_hash` cache exactly as it found it, in both branches,
    whatever the ChangeDistiller hashes meanwhile; objects outside the inputs and the copies are never touched -/
theorem diff_leaves_inputs_untouched (sw tw : Walk) (fs ft : Nat → Id) (hasM : Bool) (touched hash0 : Id → Bool)
    (hfs : ∀ i, fs i ∉ objs sw ++ objs tw) (hft : ∀ i, ft i ∉ objs sw ++ objs tw) :
    (∀ x ∈ objs sw ++ objs tw, (runDiff today sw tw fs ft hasM touched hash0).hashAfter x = hash0 x) ∧
    (∀ y, y ∉ objs sw ++ objs tw →
      y ∉ objs (runDiff today sw tw fs ft hasM touched hash0).seenS ++ objs (runDiff today sw tw fs ft hasM touched hash0).seenT →
      (runDiff today sw tw fs ft hasM touched hash0).hashAfter y = hash0 y) :=
  Wrapper.diff_leaves_inputs_untouched sw tw fs ft hasM touched hash0 hfs hft

/-- the ChangeDistiller never sees an object reachable from both roots (or twice from one), and every object it sees has
    its `.parent` inside the tree it is seen in -/
theorem diff_copies_when_shared (sw tw : Walk) (fs ft : Nat → Id) (hasM : Bool) (touched hash0 : Id → Bool)
    (hfsInj : ∀ i j, fs i = fs j → i = j) (hftInj : ∀ i j, ft i = ft j → i = j) (hdisj : ∀ i j, fs i ≠ ft j) :
    (objs (runDiff today sw tw fs ft hasM touched hash0).seenS ++
      objs (runDiff today sw tw fs ft hasM touched hash0).seenT).Nodup ∧
    (ValidPos sw → ValidPos tw → (needCopy sw tw = false → Consistent sw ∧ Consistent tw) →
      Consistent (runDiff today sw tw fs ft hasM touched hash0).seenS ∧
      Consistent (runDiff today sw tw fs ft hasM touched hash0).seenT) :=
  Wrapper.diff_copies_when_shared sw tw fs ft hasM touched hash0 hfsInj hftInj hdisj

/-- two trees sharing object 2, attached to the source last: its single `.parent` pointer is the source root 0 -/
def graftS : Walk := [⟨0, none, none⟩, ⟨2, some 0, some 0⟩]
def graftT : Walk := [⟨10, none, none⟩, ⟨2, some 0, some 0⟩]

/-- the seeded regression's shape: only the source is copied, hashes cleared unconditionally -/
def onlySourceCopied : Policy := ⟨.whenShared, .whenSelfDup, .always⟩
/-- `diff()` before fix 6c26962 -/
def beforeHashFix : Policy := ⟨.whenShared, .whenShared, .whenNotCopied⟩

/-- **why both trees must be copied**: with only the source copied the distiller receives a target containing an object
    whose parent lies in the other tree (the spurious-Move regression); today's policy hands it two consistent trees -/
theorem only_source_copied_witness :
    consistentB (runDiff onlySourceCopied graftS graftT (· + 100) (· + 200) false (fun _ => false) (fun _ => false)).seenT = false ∧
    consistentB (runDiff today graftS graftT (· + 100) (· + 200) false (fun _ => false) (fun _ => false)).seenT = true ∧
    consistentB (runDiff today graftS graftT (· + 100) (· + 200) false (fun _ => false) (fun _ => false)).seenS = true := by
  decide +kernel

/-- `diff()` between 6c26962 and b176b7b: evicts every input node's hash -/
def evictAllInputs : Policy := ⟨.whenShared, .whenShared, .unlessCopiesHashed⟩

/-- a subtree input of an already hashed tree: object 0 is the outer root (not an input), 1 and 11 are the inputs -/
def subS : Walk := [⟨1, none, some 0⟩]
def subT : Walk := [⟨11, none, none⟩]

/-- **why `finally` may evict only what `diff()` cached itself**: diffing the subtree 1 of the hashed tree 0 → 1 under
    the evict-all policy leaves the ancestor 0 hashed above an unhashed 1 (a later edit below 1 stops invalidating at 1:
    the root keeps a stale hash); today's policy leaves both as they were -/
theorem evict_all_breaks_ancestors_witness :
    (runDiff evictAllInputs subS subT (· + 100) (· + 200) false (fun _ => false) (fun x => x == 0 || x == 1)).hashAfter 1 = false ∧
    (runDiff evictAllInputs subS subT (· + 100) (· + 200) false (fun _ => false) (fun x => x == 0 || x == 1)).hashAfter 0 = true ∧
    (runDiff today subS subT (· + 100) (· + 200) false (fun _ => false) (fun x => x == 0 || x == 1)).hashAfter 1 = true ∧
    (runDiff today subS subT (· + 100) (· + 200) false (fun _ => false) (fun x => x == 0 || x == 1)).hashAfter 11 = false := by
  decide +kernel

/-- **why the `finally` guard is `not (copy and matchings)`** (explicit snapshot of the policy before 6c26962):
    `diff(t, t)` without matchings under the old guard leaves `_hash` cached on the input -/
theorem stale_hash_witness :
    (runDiff beforeHashFix [⟨0, none, none⟩] [⟨0, none, none⟩] (· + 100) (· + 200) false (fun _ => false) (fun _ => false)).hashAfter 0 = true ∧
    (runDiff today [⟨0, none, none⟩] [⟨0, none, none⟩] (· + 100) (· + 200) false (fun _ => false) (fun _ => false)).hashAfter 0 = false := by
  decide +kernel

/-- the freshness hypotheses are satisfiable -/
example : ∀ i : Nat, i + 100 ∉ objs graftS ++ objs graftT := by
  intro i; simp [objs, graftS, graftT]

/-- the copy condition, which trees are copied and the `finally` guard, as extracted from `diff()` on this run, are the
    ones the two theorems are about -/
theorem generated_wrapper_policy_ok : SqlglotModel.Generated.C20.wrapperPolicy = Wrapper.today := by decide +kernel

end WrapperProps

/-- the source compares the Identifier children of a kept, non-identical pair (fix f25f43a): the hypothesis `cmpIdents`
    of `delta_empty_imp_equal` holds for the parameters the driver runs with -/
theorem generated_compares_ignored_leaves : SqlglotModel.Generated.C20.comparesIgnoredLeaves = true := by decide +kernel

/-! ### the parent-link invariant -/

/-- **copy ⇒ empty delta, UNDER the link invariant on both inputs.**  `T` is a structural copy of `S` (same shape and
    payload, fresh objects — no assumption about `.parent` pointers), and both trees satisfy the C08 link invariant
    (`LinkInv`: every `.parent` pointer is the structural owner).  Then the delta is empty and the matching is the
    identity.  The Move test of `_generate_edit_script` compares `.parent` objects, so this assumption is essential:
    `missing_parent_link_move_witness`. -/
theorem copy_imp_delta_empty_linked (P : Params) (S T : Tree) (dice : Id → Id → Nat) (φ : Id → Id) (top : Nat)
    (hc : IsStructCopy S T φ) (hS : LinkInv S) (hT : LinkInv T) (hw : TreeWF S) (hd : DiceOk S T dice top)
    (hf : P.f ≤ top) (hhi : P.hi.1 ≤ P.hi.2) :
    (diffTrees P S T dice [] true).edits = [] ∧
      (∀ p ∈ (diffTrees P S T dice [] true).matching, p.2 = φ p.1) :=
  let h := equal_imp_delta_empty_partial P S T dice φ top (isCopy_of_struct hc hS hT) hw hd hf hhi
  ⟨h.1, h.2.1⟩

/-- `SELECT {abc: UInt32}` (ClickHouse query parameter): Select(0) → Placeholder(1) → [Var(2), DataType(3)].
    `linked = false` is the tree a constructor builds when Placeholder's children are not wired (`parent = None`),
    `linked = true` the same tree with its links — and what `.copy()` always produces. -/
def phTree (off : Nat) (linked : Bool) : Tree where
  root := off
  size := 5
  cls := fun i => i - off
  ty := fun i => i - off
  parent := fun i =>
    if i == off + 1 then some off
    else if (i == off + 2 || i == off + 3) && linked then some (off + 1) else none
  kids := fun i => if i == off then [off + 1] else if i == off + 1 then [off + 2, off + 3] else []
  ignored := fun _ => false
  updatable := fun i => i == off + 3
  nel := fun i => i - off
  eqc := fun i => i - off
  akey := fun _ => 0
  txt := fun i => i - off
  lay := fun _ => 0

/-- **without the link invariant a Move appears**: a tree whose Placeholder children have no parent pointer, diffed
    against its properly linked copy, yields `Move(Var)` and `Move(DataType)` although the two trees are `==`;
    with the links in place the delta is empty -/
theorem missing_parent_link_move_witness :
    (phTree 0 false).linkedB = false ∧ (phTree 10 true).linkedB = true ∧
    (phTree 0 false).eqc 0 = (phTree 10 true).eqc 10 ∧
    (diffTrees (witP true) (phTree 0 false) (phTree 10 true) witDice [] true).edits = [.move 2 12, .move 3 13] ∧
    (diffTrees (witP true) (phTree 10 true) (phTree 0 false) witDice [] true).edits = [.move 12 2, .move 13 3] ∧
    (diffTrees (witP true) (phTree 0 true) (phTree 10 true) witDice [] true).edits = [] := by
  decide +kernel

/-! ### the leaf predicate shared by diff and `==` (finite decision tables, decided completely) -/

/-- **diff's 'ignored values' are exactly `==`'s 'no value' set** over the nine scalar value classes
    (absent, None, False, [], 0, "", 1, "x", True), for the tables extracted from `_get_non_expression_leaves` and
    `Expr.__hash__` on this run.  Finite table, decided completely. -/
theorem diff_leaf_skip_matches_eq :
    ∀ v ∈ ValClass.all, SqlglotModel.Generated.C20.leafPolicy.diffSkips v = SqlglotModel.Generated.C20.leafPolicy.eqIgnores v := by
  decide +kernel

/-- consequently, for every pair of values of one argument, the Keep-vs-Update test sees a difference exactly when
    `==` does (81 pairs, decided completely) — what `EqcCongr` needs from the leaf dictionaries -/
theorem leaf_difference_seen_iff_eq_sees :
    ∀ a ∈ ValClass.all, ∀ b ∈ ValClass.all,
      sameUnder SqlglotModel.Generated.C20.leafPolicy.diffSkips a b =
        sameUnder SqlglotModel.Generated.C20.leafPolicy.eqIgnores a b := by
  decide +kernel

/-- **the `not value` variant breaks it**: 0 on one side, absent on the other — indistinguishable for the leaf
    dictionaries (Keep), distinguishable for `==` (unequal trees): an empty delta for unequal trees -/
theorem not_value_variant_witness :
    sameUnder (notValuePolicy SqlglotModel.Generated.C20.leafPolicy.eqIgnores).diffSkips .zero .absent = true ∧
    sameUnder (notValuePolicy SqlglotModel.Generated.C20.leafPolicy.eqIgnores).eqIgnores .zero .absent = false ∧
    sameUnder (notValuePolicy SqlglotModel.Generated.C20.leafPolicy.eqIgnores).diffSkips .emptyStr .false_ = true ∧
    sameUnder (notValuePolicy SqlglotModel.Generated.C20.leafPolicy.eqIgnores).eqIgnores .emptyStr .false_ = false := by
  decide +kernel

/-! ### the Keep-vs-Update decision and Move detection, inside the model -/

/-- **`matched_pair_keep_iff_locally_equal`.**  For a matched pair that is not (updatable and changed), the script emits
    `Keep` exactly when the non-expression leaves agree AND (the nodes are `==` or) the ignored leaves — the ordered list of
    (arg key, Identifier) children modelled by `Tree.idk` — agree as LISTS; otherwise it emits `Update`.  With the partition
    theorems (every node is in exactly one kept/updated pair or removed/inserted) this is what makes an empty delta imply
    equal trees for all trees (`delta_empty_imp_equal`). -/
theorem matched_pair_keep_iff_locally_equal (P : Params) (S T : Tree) (dice : Id → Id → Nat) (M : Matching) (s t : Id)
    (hci : P.cmpIdents = true) (hdict : P.identsAsDict = false)
    (hnu : S.updatable s = false ∨ S.eqc s = T.eqc t) :
    (Edit.keep s t ∈ pairEdits (envOf P S T dice) M (s, t) ↔
      (S.nel s = T.nel t ∧ (S.eqc s = T.eqc t ∨ S.idk s = T.idk t))) ∧
    (Edit.update s t ∈ pairEdits (envOf P S T dice) M (s, t) ↔
      ¬(S.nel s = T.nel t ∧ (S.eqc s = T.eqc t ∨ S.idk s = T.idk t))) := by
  have hc : (!S.updatable s || identical S T s t) = true := by
    rcases hnu with h | h
    · simp [h]
    · simp [identical, h]
  have hmv : ∀ e ∈ ((envOf P S T dice).moves M.all M.unmatchedS s t).map moveToEdit, e ≠ Edit.keep s t ∧ e ≠ Edit.update s t := by
    intro e he
    obtain ⟨m, _, rfl⟩ := List.mem_map.mp he
    obtain ⟨a, b⟩ := m
    cases b <;> simp [moveToEdit]
  have hup : (envOf P S T dice).isUpdate s t = true ↔ ¬(S.nel s = T.nel t ∧ (S.eqc s = T.eqc t ∨ S.idk s = T.idk t)) := by
    show isUpdateOf P S T s t = true ↔ _
    unfold isUpdateOf
    rw [if_pos hc]
    simp only [hci, identsEq, hdict, identical]
    by_cases h1 : S.nel s = T.nel t <;> by_cases h2 : S.eqc s = T.eqc t <;> by_cases h3 : S.idk s = T.idk t <;>
      simp [h1, h2, h3]
  constructor
  · simp only [pairEdits, List.mem_append, List.mem_singleton]
    constructor
    · rintro (h | h)
      · exact absurd rfl (hmv _ h).1
      · by_cases hu : (envOf P S T dice).isUpdate s t = true
        · simp [hu] at h
        · exact Classical.not_not.mp (fun hn => hu (hup.mpr hn))
    · intro h
      right
      have : ¬ (envOf P S T dice).isUpdate s t = true := fun hu => (hup.mp hu) h
      simp [this]
  · simp only [pairEdits, List.mem_append, List.mem_singleton]
    constructor
    · rintro (h | h)
      · exact absurd rfl (hmv _ h).2
      · by_cases hu : (envOf P S T dice).isUpdate s t = true
        · exact hup.mp hu
        · simp [hu] at h
    · intro h
      right
      simp [hup.mpr h]

/-- an updatable pair that is not `==` is always an `Update` -/
theorem updatable_changed_pair_is_update (P : Params) (S T : Tree) (dice : Id → Id → Nat) (M : Matching) (s t : Id)
    (hu : S.updatable s = true) (hne : S.eqc s ≠ T.eqc t) :
    pairEdits (envOf P S T dice) M (s, t) = [Edit.update s t] := by
  have h1 : movesOf S T M.all M.unmatchedS s t = [] := by simp [movesOf, hu, identical, hne]
  have h2 : isUpdateOf P S T s t = true := by simp [isUpdateOf, hu, identical, hne]
  simp [pairEdits, envOf, h1, h2]

/-- **what the code guarantees for EVERY class** (`…_partial`): a difference of a matched, non-`==` pair that shows in its
    non-expression leaves or in its Identifier children surfaces as `Update` ON THAT PAIR — whether or not the class is
    in `UPDATABLE_EXPRESSION_TYPES` (updatable classes get it unconditionally).  Hence no class needs an updatable ancestor
    for such a difference.  EXCLUDED (not guaranteed by the code): differences confined to the argument-key layout
    (`delta_empty_imp_equal_argkey_counterexample`), and the ignored classes themselves (Identifier nodes are never
    matched: their difference is exactly what the owner's `idk` comparison surfaces). -/
theorem local_difference_surfaces_partial (P : Params) (S T : Tree) (dice : Id → Id → Nat) (M : Matching) (s t : Id)
    (hci : P.cmpIdents = true) (hdict : P.identsAsDict = false) (hne : S.eqc s ≠ T.eqc t)
    (hdiff : S.nel s ≠ T.nel t ∨ S.idk s ≠ T.idk t) :
    Edit.update s t ∈ pairEdits (envOf P S T dice) M (s, t) := by
  cases hu : S.updatable s with
  | true => rw [updatable_changed_pair_is_update P S T dice M s t hu hne]; simp
  | false =>
    refine ((matched_pair_keep_iff_locally_equal P S T dice M s t hci hdict (Or.inl hu)).2).mpr ?_
    rintro ⟨h1, h2 | h2⟩
    · exact hne h2
    · rcases hdiff with h | h
      · exact h h1
      · exact h h2

/-- **Move detection for `==` pairs**: a matched pair of identical nodes gets `Move(s, t)` exactly when their parents are
    not matched to each other (one has no parent and the other has, or both have and the pair of parents is not in the
    matching); nothing else is emitted as a Move for it.  Tied to the real code by the edit-multiset correspondence. -/
theorem move_iff_parents_not_matched (S T : Tree) (m : List (Id × Id)) (u : List Id) (s t : Id)
    (hN : (fsts m).Nodup) (hid : S.eqc s = T.eqc t) :
    (movesOf S T m u s t = [(s, some t)] ∨ movesOf S T m u s t = []) ∧
    (movesOf S T m u s t = [(s, some t)] ↔
      match S.parent s, T.parent t with
      | some ps, some pt => (ps, pt) ∉ m
      | none, none => False
      | _, _ => True) := by
  have hidb : identical S T s t = true := by simp [identical, hid]
  have hform : movesOf S T m u s t = if parentMoved S T m s t then [(s, some t)] else [] := by
    simp [movesOf, hidb]
  constructor
  · rw [hform]; split <;> simp
  · rw [hform]
    cases hs : S.parent s with
    | none =>
      cases ht : T.parent t with
      | none => simp [parentMoved, hs, ht]
      | some pt => simp [parentMoved, hs, ht]
    | some ps =>
      cases ht : T.parent t with
      | none => simp [parentMoved, hs, ht]
      | some pt =>
        simp only [parentMoved, hs, ht]
        by_cases hl : lookup m ps = some pt
        · have := lookup_mem hl
          simp [hl, this]
        · have hnm : (ps, pt) ∉ m := fun hm => hl (lookup_of_mem hN hm)
          simp [hl, hnm]

/-- `USING (a, b)` vs `USING (c, b)`: Select(0) → Join-like node(1) whose only children are two Identifiers under the SAME
    list argument; the first identifier differs -/
def usingTree (off first : Nat) : Tree where
  root := off
  size := 5
  cls := fun i => i - off
  ty := fun i => i - off
  parent := fun i => if i == off + 1 then some off else if i == off + 2 || i == off + 3 then some (off + 1) else none
  kids := fun i => if i == off then [off + 1] else if i == off + 1 then [off + 2, off + 3] else []
  ignored := fun i => i == off + 2 || i == off + 3
  updatable := fun _ => false
  nel := fun _ => 0
  eqc := fun i => if i == off + 2 then first else if i == off + 3 then 21 else if i == off + 1 then 50 + first else 80 + first
  akey := fun i => if i == off + 2 || i == off + 3 then 7 else 0
  txt := fun i => i - off
  lay := fun _ => 0

/-- **why the ignored leaves must be compared as a list**: keyed by arg key (a dict) the two identifiers of one list
    argument collapse to the last one, `USING (a, b)` vs `USING (c, b)` ends in Keep and the delta of two unequal trees is
    empty; compared as lists the pair is an Update -/
theorem ident_dict_collapse_witness :
    (usingTree 0 20).idk 1 = [(7, 20), (7, 21)] ∧ (usingTree 10 22).idk 11 = [(7, 22), (7, 21)] ∧
    (usingTree 0 20).eqc 0 ≠ (usingTree 10 22).eqc 10 ∧
    (diffTrees ⟨1, (3, 5), (4, 5), (2, 5), 4, true, false, true⟩ (usingTree 0 20) (usingTree 10 22) witDice [] true).edits = [] ∧
    (diffTrees ⟨1, (3, 5), (4, 5), (2, 5), 4, true, false, false⟩ (usingTree 0 20) (usingTree 10 22) witDice [] true).edits
      = [.update 1 11] := by
  decide +kernel

/-- **decision over the live class tables** (every Expression subclass, `isinstance` semantics, decided completely): no
    class is both updatable and ignored, some class is ignored, some is updatable.  Together with
    `local_difference_surfaces_partial` (which holds for every class, updatable or not) and `updatable_changed_pair_is_update`
    this is the whole interplay: an updatable class surfaces ANY change of a matched pair as Update; every other
    non-ignored class surfaces scalar-argument and Identifier-child changes as Update on the pair itself; an ignored class
    is never diffed and is covered by its owner's `idk` comparison. -/
theorem class_tables_decision :
    (SqlglotModel.Generated.C20.classTable.all fun e => !(e.1 && e.2)) = true ∧
    (SqlglotModel.Generated.C20.classTable.any fun e => e.2) = true ∧
    (SqlglotModel.Generated.C20.classTable.any fun e => e.1) = true := by
  decide +kernel

/-- the source builds the ignored leaves as an ordered list (pinned by ast on this run) -/
theorem generated_ignored_leaves_are_lists : SqlglotModel.Generated.C20.ignoredLeavesAsDict = false := by decide +kernel

/-- constants re-extracted from sqlglot/diff.py on this run satisfy what the copy theorems need:
    the high leaf-similarity threshold and the default `f` are at most 1, and Identifier is the only ignored type -/
theorem generated_constants_ok :
    SqlglotModel.Generated.C20.thrHi.1 ≤ SqlglotModel.Generated.C20.thrHi.2 ∧
    0 < SqlglotModel.Generated.C20.thrHi.2 ∧
    SqlglotModel.Generated.C20.defaultF.1 ≤ SqlglotModel.Generated.C20.defaultF.2 ∧
    SqlglotModel.Generated.C20.ignoredLeafTypes = ["Identifier"] := by
  decide +kernel

end SqlglotModel.Properties.C20
