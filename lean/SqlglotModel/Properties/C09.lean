/-
  C09 — Non-mutating APIs leave their arguments untouched and copies are independent (modelled fragment).
  Only property theorems and non-vacuity examples live here (model: Model/Tree.lean; lemmas: Proofs/Tree*.lean).

  What is proved about the model of `Expression`:
    * footprints: `set` / `append` / `replace` / `pop` write only (i) `_hash` along the parent chain of the node they are
      called on, (ii) that node's `args`, (iii) the pointer fields of inserted nodes and of old occupants of the slot;
      `hash()` / `==` write only `_hash` fields;
    * the frame theorem: a region closed under parent pointers and children is never left by an edit made inside it,
      so editing one of two disjoint trees leaves every cell of the other (args, pointers AND caches) unchanged;
    * `copy_equal_disjoint` for the REAL iterative `__deepcopy__`: the copy's abstraction (`shape`: classes, arg keys in
      dict order, scalars, list order — no ids, pointers or caches) equals the original's, the original keeps its own
      abstraction and every one of its cells, the two node sets are disjoint, and the new cells form a region;
    * `transform(fun, copy=True)` leaves every pre-existing cell untouched (frame corollary), for a user function that
      works inside the copy.
  NOT modelled: the generator / optimizer / diff / lineage code paths — the frame theorem is parametric in them ("a callee
  that only applies these primitives inside the copy's region"), and that premise is what the write monitor checks;
  the deep copies of `comments`, `_type`, `_meta`.
-/
import SqlglotModel.Proofs.TreeCopyShape
import SqlglotModel.Proofs.TreeWalk
import SqlglotModel.Proofs.TreeBuilders
import SqlglotModel.Generated.C09

namespace SqlglotModel.Properties.C09
open SqlglotModel.Tree

variable {H : Type}

/-- footprint of `self.set(k, v, index, overwrite)` -/
theorem set_frame (fuel : Nat) (h h' : Heap H) (self : Id) (k : String) (v : Value) (idx : Option Nat) (ow : Bool)
    (he : opSet fuel h self k v idx ow = some h') (m : Id)
    (hm : ¬ (OnChain h (some self) m ∨ SetFoot h self k v m)) : h' m = h m := opSet_frame he m hm

/-- footprint of `self.append(k, item)` -/
theorem append_frame (fuel : Nat) (h h' : Heap H) (self : Id) (k : String) (it : Item)
    (he : opAppend fuel h self k it = some h') (m : Id)
    (hm : ¬ (OnChain h (some self) m ∨ it = .node m)) : h' m = h m := opAppend_frame he m hm

/-- footprint of `self.replace(v)` (and of `self.pop()` = `replace(None)`) -/
theorem replace_frame (fuel : Nat) (h h' : Heap H) (self : Id) (v : Value)
    (he : opReplace fuel h self v = some h') (m : Id)
    (hm : ¬ (OnChain h (some self) m ∨
      ∃ p k, (h self).parent = some p ∧ (h self).argKey = some k ∧ SetFoot h p k v m)) : h' m = h m :=
  opReplace_frame he m hm

/-- `hash(n)` changes nothing but `_hash` fields (class, args and the three back pointers of every node stay) -/
theorem hash_touches_only_caches (F : HashFns H) (fuel : Nat) (h h' : Heap H) (n : Id) (hI : Inv F h)
    (he : fill F fuel h n = some h') : HashOnly h h' := (inv_fill F hI he).2.1

/-- `a == b` changes nothing but `_hash` fields -/
theorem eq_touches_only_caches [DecidableEq H] (F : HashFns H) (fuel : Nat) (h h' : Heap H) (a b : Id) (r : Bool)
    (hI : Inv F h) (he : opEq F fuel h a b = some (h', r)) : HashOnly h h' := (inv_opEq F hI he).2

/-- THE FRAME THEOREM for `set`: an edit made inside a region (target and inserted nodes in it) writes no cell
    outside it — neither args, nor pointers, nor hash caches. -/
theorem frame_set (fuel : Nat) (h h' : Heap H) (R : Id → Prop) (hR : Region h R) (self : Id) (k : String)
    (v : Value) (idx : Option Nat) (ow : Bool) (hs : R self) (hv : ∀ c, Item.node c ∈ itemOfValue v → R c)
    (he : opSet fuel h self k v idx ow = some h') (m : Id) (hm : ¬ R m) : h' m = h m := by
  apply opSet_frame he m
  rintro (hc | hf)
  · exact hm (onChain_in_region hR.up hc (fun n hn => by cases hn; exact hs))
  · rcases hf with e | e | ⟨j, hst⟩
    · exact hm (e ▸ hs)
    · exact hm (hv m e)
    · exact hm (hR.down _ _ _ _ hs hst)

theorem frame_append (fuel : Nat) (h h' : Heap H) (R : Id → Prop) (hR : Region h R) (self : Id) (k : String)
    (it : Item) (hs : R self) (hv : ∀ c, it = .node c → R c)
    (he : opAppend fuel h self k it = some h') (m : Id) (hm : ¬ R m) : h' m = h m := by
  apply opAppend_frame he m
  rintro (hc | hf)
  · exact hm (onChain_in_region hR.up hc (fun n hn => by cases hn; exact hs))
  · exact hm (hv m hf)

/-- the frame theorem for `replace` / `pop` -/
theorem frame_replace (fuel : Nat) (h h' : Heap H) (R : Id → Prop) (hR : Region h R) (self : Id) (v : Value)
    (hs : R self) (hv : ∀ c, Item.node c ∈ itemOfValue v → R c)
    (he : opReplace fuel h self v = some h') (m : Id) (hm : ¬ R m) : h' m = h m := by
  apply opReplace_frame he m
  rintro (hc | ⟨p, k, hp, _, hf⟩)
  · exact hm (onChain_in_region hR.up hc (fun n hn => by cases hn; exact hs))
  · have hRp : R p := hR.up self p hs hp
    rcases hf with e | e | ⟨j, hst⟩
    · exact hm (e ▸ hRp)
    · exact hm (hv m e)
    · exact hm (hR.down _ _ _ _ hRp hst)

theorem frame_pop (fuel : Nat) (h h' : Heap H) (R : Id → Prop) (hR : Region h R) (self : Id) (hs : R self)
    (he : opPop fuel h self = some h') (m : Id) (hm : ¬ R m) : h' m = h m :=
  frame_replace fuel h h' R hR self .none hs (fun c hc => by simp [itemOfValue] at hc) he m hm

/-- **`copy_equal_disjoint`** for the iterative `__deepcopy__`: a copy has the same abstraction as the original, the
    original keeps its abstraction, and the two trees share no node (the copy's nodes are exactly new cells). -/
theorem copy_equal_disjoint (F : HashFns H) (fuel fuel' : Nat) (h h' : Heap H) (n c : Id) (base nx : Nat)
    (hI : Inv F h) (hf : FreshFrom h base) (hn : base > n) (he : opDeepcopy fuel h n base = some (h', nx, c)) :
    shape fuel' h' c = shape fuel' h n ∧ shape fuel' h' n = shape fuel' h n ∧
    (∀ m, Reach h' c m → ¬ Reach h' n m) := by
  obtain ⟨s1, s2⟩ := deepcopy_shape hI hf hn he fuel'
  obtain ⟨d1, d2⟩ := deepcopy_disjoint hI hf hn he
  refine ⟨s1, s2, ?_⟩
  intro m hc hn'
  have a := d1 m hc
  have b := d2 m hn'
  omega

/-- `copy()` writes only fresh cells: every existing cell keeps its args, pointers and caches; the copy's root is the
    first fresh cell, and the new cells are closed under parent pointers and children (a region: so by `frame_*` later
    edits of the copy never touch the original, and edits of the original never touch the copy) -/
theorem copy_original_untouched (F : HashFns H) (fuel : Nat) (h h' : Heap H) (n c : Id) (base nx : Nat)
    (hI : Inv F h) (hf : FreshFrom h base) (hn : base > n) (he : opDeepcopy fuel h n base = some (h', nx, c)) :
    (∀ m, m < base → h' m = h m) ∧ c = base ∧ Region h' (fun m => base ≤ m) := by
  obtain ⟨_, _, a, b, c', _⟩ := deepcopy_spec hI hf hn he
  exact ⟨a, c', b⟩

/-- `transform(fun, copy=True)` — the default — leaves the argument untouched: every cell that existed before the call
    is unchanged (structure, pointers and caches), the invariant holds afterwards, and the RESULT SHARES NO NODE WITH THE
    ARGUMENT; for any user function that works inside the copy (`TransformFr`) and hands back admissible values
    (`TransformAdm`). -/
theorem transform_copy_pure (F : HashFns H) (fuel : Nat) (fn : UserFun H) (h h' : Heap H) (base nx' : Nat) (root : Id)
    (r : Value) (hI : Inv F h) (hf : FreshFrom h base) (hn : base > root)
    (hfn : ∀ h1 nx1 c, opDeepcopy fuel h root base = some (h1, nx1, c) →
      TransformFr (fun m => base ≤ m) fuel fn h1 nx1 c ∧ TransformAdm F fuel fn h1 nx1 c)
    (he : opTransformCopy fuel fn h base root = some (h', nx', r)) :
    (∀ m, m < base → h' m = h m) ∧ Inv F h' ∧
    (∀ c m, Item.node c ∈ itemOfValue r → Reach h' c m → ¬ Reach h' root m) := opTransformCopy_pure F hI hf hn hfn he

/-- `exp.expand(tree, sources, copy=True)` IS `tree.transform(_expand, copy=True)` (pinned by `expand_returns_through_the_copy`),
    with `_expand` replacing a Table that names a source by a fresh subquery. For EVERY source map (any admissible user
    function) the result shares no node with the argument and the argument is untouched. -/
theorem expand_result_disjoint (F : HashFns H) (fuel : Nat) (expandFn : UserFun H) (h h' : Heap H) (base nx' : Nat)
    (root : Id) (r : Value) (hI : Inv F h) (hf : FreshFrom h base) (hn : base > root)
    (hfn : ∀ h1 nx1 c, opDeepcopy fuel h root base = some (h1, nx1, c) →
      TransformFr (fun m => base ≤ m) fuel expandFn h1 nx1 c ∧ TransformAdm F fuel expandFn h1 nx1 c)
    (he : opTransformCopy fuel expandFn h base root = some (h', nx', r)) :
    (∀ m, m < base → h' m = h m) ∧ (∀ c m, Item.node c ∈ itemOfValue r → Reach h' c m → ¬ Reach h' root m) :=
  let x := opTransformCopy_pure F hI hf hn hfn he
  ⟨x.1, x.2.2⟩

/-- the "nothing to expand" case (empty sources, or no Table names a source: `_expand` returns every node unchanged):
    the result is still the fresh copy — a different root, no shared node, the argument untouched. A fast path that
    returns the input is therefore a refutation of the modelled code, not an optimisation of it. -/
theorem expand_nothing_to_do_still_copies (F : HashFns H) (fuel : Nat) (h h' : Heap H) (base nx' : Nat) (root : Id)
    (r : Value) (hI : Inv F h) (hf : FreshFrom h base) (hn : base > root)
    (he : opTransformCopy fuel (idFun (H := H)) h base root = some (h', nx', r)) :
    r = .node base ∧ r ≠ .node root ∧ (∀ m, m < base → h' m = h m) ∧ (∀ m, Reach h' base m → ¬ Reach h' root m) := by
  obtain ⟨a, b, c⟩ := opTransformCopy_id F hI hf hn he
  refine ⟨a, ?_, b, c⟩
  rw [a]
  intro e
  simp only [Value.node.injEq] at e
  rw [e] at hn
  exact Nat.lt_irrefl _ hn

/-- **The builder layer under copy=True** (`_apply_builder` … `_apply_cte_builder`, `_apply_set_operation`, for the shape
    in which `copy` is threaded to the receiver copy AND to the argument parse): for every heap, every receiver tree and
    every argument tree, and whatever fresh wrapper nodes the builder assembles (`Where`, `And`, `CTE`, `With`, a set
    operation …) — every pre-existing cell is unchanged (receiver, argument, any other tree: args, pointers, caches), the
    invariant holds, and the result shares no node with the receiver or with the argument. -/
theorem builder_copy_both_pure (F : HashFns H) (fuel : Nat) (h h3 : Heap H) (base nx : Nat) (inst arg c : Id)
    (assemble : Nat → Id → Id → List BOp) (hI : Inv F h) (hf : FreshFrom h base) (hi : base > inst) (ha : base > arg)
    (hreg : ∀ nx2 c a, base ≤ c → base ≤ a → base ≤ nx2 → ∀ op, op ∈ assemble nx2 c a → InRegionB (fun m => base ≤ m) op)
    (hadm : ∀ h2 nx2 c a, Inv F h2 → FreshFrom h2 nx2 → AdmRunB fuel h2 (assemble nx2 c a))
    (he : builderCopyBoth fuel h base inst arg assemble = some (h3, nx, c)) :
    (∀ m, m < base → h3 m = h m) ∧ Inv F h3 ∧ (∀ m, Reach h3 c m → ¬ Reach h3 inst m ∧ ¬ Reach h3 arg m) :=
  let x := builderCopyBoth_pure F hI hf hi ha hreg hadm he
  ⟨x.1, x.2.1, x.2.2.2⟩

/-- the two concrete assemblies (`q.where(cond)` on a query without WHERE; `q.with_(alias, as_=expr)`) stay inside the
    fresh region, as `builder_copy_both_pure` requires -/
theorem where_and_cte_assemblies_in_region (base nx : Nat) (c a : Id) (hc : base ≤ c) (ha : base ≤ a) (hn : base ≤ nx) :
    (∀ op, op ∈ whereAssembly nx c a → InRegionB (fun m => base ≤ m) op) ∧
    (∀ op, op ∈ cteAssembly nx c a → InRegionB (fun m => base ≤ m) op) := by
  constructor
  · intro op hop
    simp only [whereAssembly, List.mem_cons, List.mem_nil_iff, or_false] at hop
    rcases hop with e | e | e <;> subst e <;> simp [InRegionB, itemOfValue] <;> omega
  · intro op hop
    simp only [cteAssembly, List.mem_cons, List.mem_nil_iff, or_false] at hop
    rcases hop with e | e | e | e | e <;> subst e <;> simp [InRegionB, itemOfValue] <;> omega

/-- which copy decisions each `_apply_*` helper makes, re-extracted (ast) on every run: the receiver is always
    `maybe_copy(instance, copy)`; `_apply_builder` / `_apply_list_builder` / `_apply_child_list_builder` use an Expr
    argument as-is (documented); the conjunction, CTE and set-operation builders thread `copy=copy` into the argument
    parse; and every public method that calls a helper passes `copy=copy` on. A dropped `copy=copy` (C09-6) breaks this
    build. -/
theorem builders_thread_copy :
    SqlglotModel.Generated.C09.builderCopyDecisions =
      ["_apply_builder: maybe_copy(instance;copy=copy), maybe_parse(expression;copy=-)",
       "_apply_child_list_builder: maybe_copy(instance;copy=copy), maybe_parse(expression;copy=-)",
       "_apply_conjunction_builder: and_(*filtered;copy=copy), maybe_copy(instance;copy=copy), maybe_copy(instance;copy=copy)",
       "_apply_cte_builder: _apply_child_list_builder(cte;copy=copy), maybe_parse(alias;copy=-), maybe_parse(as_;copy=copy)",
       "_apply_list_builder: maybe_copy(instance;copy=copy), maybe_parse(expression;copy=-)",
       "_apply_set_operation: maybe_parse(e;copy=copy)"] ∧
    SqlglotModel.Generated.C09.builderCallSitesNotThreadingCopy = [] := by decide +kernel

/-- dialect generators that override `generate` (Athena today, which picks the Hive or the Trino printer per statement):
    the override does not reassign its tree parameter and hands THAT SAME object, with the caller's own `copy` flag, to
    every delegate — so the one copy made downstream is the copy that gets printed. Re-extracted (ast) on every run; an
    override that copies into one variable and delegates another (C09-7) breaks this build. -/
theorem generate_overrides_pass_same_object :
    SqlglotModel.Generated.C09.generateOverrides =
      ["sqlglot/generators/athena.py:AthenaGenerator.generate(expression) | assigns: - | delegates: self._hive_generator.generate(expression, copy=copy); self._trino_generator.generate(expression, copy=copy)"] := by
  decide +kernel

/-- every `return` of `exp.expand` (its own body, not the nested `_expand`) goes through the copying transform, and
    `lineage` hands `maybe_parse` the caller's `copy` flag unconditionally — re-extracted (ast) on every run. A new
    return path (a fast path returning the input) or a conditional copy breaks this build. -/
theorem expand_returns_through_the_copy :
    SqlglotModel.Generated.C09.expandReturnSites = ["return expression.transform(_expand, copy=copy)"] ∧
    SqlglotModel.Generated.C09.lineageCopiesInput = true := by decide +kernel

/-- the copy defaults the property rests on, re-extracted (ast) from the source on every run: `Generator.generate`
    copies its argument by default before preprocessing/printing, `Expression.sql(copy=True)`, `transform` copies when
    asked (default), `optimize` parses with `copy=True`, `__deepcopy__` carries `_hash` over before the arg loop (so
    that the copy's own `set`/`append` calls evict it wherever structure is rebuilt). A change breaks this build. -/
theorem generated_copy_defaults_ok :
    SqlglotModel.Generated.C09.generateCopiesByDefault = true ∧
    SqlglotModel.Generated.C09.sqlCopiesByDefault = true ∧
    SqlglotModel.Generated.C09.transformCopiesWhenAsked = true ∧
    SqlglotModel.Generated.C09.optimizeCopiesInput = true ∧
    SqlglotModel.Generated.C09.deepcopyCarriesHashBeforeArgs = true ∧
    SqlglotModel.Generated.C09.deepcopyUsesSetAndAppend = true := by decide

/-- `generate(copy=True)` is the only barrier between the in-place rewrites of the `*_sql` methods
    (`Generated.C09.printingMutates`) and the caller's tree. Every call of `.sql` / `.generate` inside sqlglot that does
    not pass the default is on this reviewed allow-list: `transpile` (both) print trees they parsed themselves;
    `Expression.sql`, `Dialect.generate` and the Athena generator forward the caller's own `copy` flag; `table_name`
    prints bare identifiers of a Table. A new `copy=False` call site (e.g. inside `diff`) breaks this build. -/
theorem copy_false_sites_allowed :
    SqlglotModel.Generated.C09.copyFalseSites =
      ["sqlglot/__init__.py:transpile:generate:False",
       "sqlglot/dialects/dialect.py:generate:generate:copy",
       "sqlglot/dialects/dialect.py:transpile:generate:False",
       "sqlglot/expressions/builders.py:table_name:sql:False",
       "sqlglot/expressions/core.py:sql:generate:copy",
       "sqlglot/generators/athena.py:generate:generate:copy"] := by decide +kernel

/-- non-vacuity of `expand_nothing_to_do_still_copies`: the identity run exists in the model and returns the copy's root -/
example : ((run freeHash 8 empty [.new 0 "paren" false, .new 1 "literal" true, .set 1 "this" (.leaf (.str "1")) none true,
      .set 0 "this" (.node 1) none true]).bind (fun h => opTransformCopy 8 idFun h 2 0)).map (fun r => (r.2.1, r.2.2)) =
    some (4, Value.node 2) := by decide +kernel

/-- non-vacuity of `builder_copy_both_pure`: `q.where(cond)` in the model — Select(0; expressions=[col 1]) and a condition
    Literal 2; receiver copy in cells 3,4, argument copy in cell 5, the fresh `Where` in cell 6 -/
example : ((run freeHash 8 empty [.new 0 "select" false, .new 1 "column" false, .new 2 "literal" true,
      .set 2 "this" (.leaf (.str "1")) none true, .set 0 "expressions" (.list [.node 1]) none true]).bind
      (fun h => builderCopyBoth 8 h 3 0 2 whereAssembly)).map
      (fun r => (r.2.1, r.2.2, getKey "where" (r.1 3).args, getKey "this" (r.1 6).args, getKey "where" (r.1 0).args)) =
    some (6, 3, some (.one 6), some (.one 5), none) := by decide +kernel

/-! ### non-vacuity -/

/-- the whole id space is a region; so is the empty set -/
example (h : Heap H) : Region h (fun _ => True) := ⟨fun _ _ _ _ => trivial, fun _ _ _ _ _ _ => trivial⟩

/-- a concrete copy in the model: Paren(this=Literal) copied into the fresh cells 2, 3; the Literal's carried hash stays -/
def demo : List Op :=
  [.new 0 "paren" false, .new 1 "literal" true, .set 1 "this" (.leaf (.str "1")) none true,
   .set 0 "this" (.node 1) none true, .hash 0]

example : ((run freeHash 8 empty demo).bind (fun h => opDeepcopy 8 h 0 2)).map
    (fun r => (r.2.1, r.2.2, (r.1 2).hash.isNone, (r.1 3).hash.isSome, (r.1 0).hash.isSome)) =
    some (4, 2, true, true, true) := by decide +kernel

end SqlglotModel.Properties.C09
