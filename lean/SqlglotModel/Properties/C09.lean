/-
  C09 — Non-mutating APIs leave their arguments untouched and copies are independent (modelled fragment).
  Only property theorems and non-vacuity examples live here (model: Model/Tree.lean; lemmas: Proofs/Tree*.lean).

  What is proved about the model of `Expression`:
    * footprints: `set` / `append` / `replace` / `pop` write only (i) `_hash` along the parent chain of the node they are
      called on, (ii) that node's `args`, (iii) the pointer fields of inserted nodes and of old occupants of the slot;
      `hash()` / `==` write only `_hash` fields; `copy()` writes only fresh cells;
    * the frame theorem: a region closed under parent pointers and children is never left by an edit made inside it,
      so editing one of two disjoint trees leaves every cell of the other (args, pointers AND caches) unchanged;
    * `copy` leaves every existing cell unchanged and returns a fresh root (`copy_original_untouched`).
  `copy_equal_disjoint` is proved in this PARTIAL form (`…_partial`): disjointness and untouched original are theorems;
  that the copy's abstraction equals the original's and that the copied region is closed is tied by the
  model-vs-implementation correspondence (dump of every cell after `copy`) and the real-code oracle, not proved.
  NOT modelled: the generator / optimizer / diff / lineage code paths — the theorem is parametric in them ("a callee
  that only applies these primitives inside the copy's region"), and that premise is what the write monitor checks.
-/
import SqlglotModel.Proofs.TreeFrame
import SqlglotModel.Generated.C09

namespace SqlglotModel.Properties.C09
open SqlglotModel.Tree

variable {H : Type}

/-- footprint of `self.set(k, v, index, overwrite)` -/
theorem set_frame (fuel : Nat) (h h' : Heap H) (self : Id) (k : String) (v : Value) (idx : Option Nat) (ow : Bool)
    (he : opSet fuel h self k v idx ow = some h') (m : Id)
    (hm : ¬ (OnChain h (some self) m ∨ SetFoot h self k v m)) : h' m = h m := opSet_frame he m hm

/-- footprint of `self.append(k, item)` -/
theorem append_frame (fuel : Nat) (h h' : Heap H) (self : Id) (k : String) (it : Item)
    (he : opAppend fuel h self k it = some h') (m : Id)
    (hm : ¬ (OnChain h (some self) m ∨ it = .node m)) : h' m = h m := opAppend_frame he m hm

/-- footprint of `self.replace(v)` (and of `self.pop()` = `replace(None)`) -/
theorem replace_frame (fuel : Nat) (h h' : Heap H) (self : Id) (v : Value)
    (he : opReplace fuel h self v = some h') (m : Id)
    (hm : ¬ (OnChain h (some self) m ∨
      ∃ p k, (h self).parent = some p ∧ (h self).argKey = some k ∧ SetFoot h p k v m)) : h' m = h m :=
  opReplace_frame he m hm

/-- `hash(n)` changes nothing but `_hash` fields (class, args and the three back pointers of every node stay) -/
theorem hash_touches_only_caches (F : HashFns H) (fuel : Nat) (h h' : Heap H) (n : Id) (hI : Inv F h)
    (he : fill F fuel h n = some h') : HashOnly h h' := (inv_fill F hI he).2.1

/-- `a == b` changes nothing but `_hash` fields -/
theorem eq_touches_only_caches [DecidableEq H] (F : HashFns H) (fuel : Nat) (h h' : Heap H) (a b : Id) (r : Bool)
    (hI : Inv F h) (he : opEq F fuel h a b = some (h', r)) : HashOnly h h' := (inv_opEq F hI he).2

/-- a region: closed under parent pointers and under stored children -/
structure Region (h : Heap H) (R : Id → Prop) : Prop where
  up : UpClosed h R
  down : ∀ p k j c, R p → Stored h p k j c → R c

/-- THE FRAME THEOREM for `set`: an edit made inside a region (target and inserted nodes in it) writes no cell
    outside it — neither args, nor pointers, nor hash caches. -/
theorem frame_set (fuel : Nat) (h h' : Heap H) (R : Id → Prop) (hR : Region h R) (self : Id) (k : String)
    (v : Value) (idx : Option Nat) (ow : Bool) (hs : R self) (hv : ∀ c, Item.node c ∈ itemOfValue v → R c)
    (he : opSet fuel h self k v idx ow = some h') (m : Id) (hm : ¬ R m) : h' m = h m := by
  apply opSet_frame he m
  rintro (hc | hf)
  · exact hm (onChain_in_region hR.up hc (fun n hn => by cases hn; exact hs))
  · rcases hf with e | e | ⟨j, hst⟩
    · exact hm (e ▸ hs)
    · exact hm (hv m e)
    · exact hm (hR.down _ _ _ _ hs hst)

theorem frame_append (fuel : Nat) (h h' : Heap H) (R : Id → Prop) (hR : Region h R) (self : Id) (k : String)
    (it : Item) (hs : R self) (hv : ∀ c, it = .node c → R c)
    (he : opAppend fuel h self k it = some h') (m : Id) (hm : ¬ R m) : h' m = h m := by
  apply opAppend_frame he m
  rintro (hc | hf)
  · exact hm (onChain_in_region hR.up hc (fun n hn => by cases hn; exact hs))
  · exact hm (hv m hf)

/-- the frame theorem for `replace` / `pop` -/
theorem frame_replace (fuel : Nat) (h h' : Heap H) (R : Id → Prop) (hR : Region h R) (self : Id) (v : Value)
    (hs : R self) (hv : ∀ c, Item.node c ∈ itemOfValue v → R c)
    (he : opReplace fuel h self v = some h') (m : Id) (hm : ¬ R m) : h' m = h m := by
  apply opReplace_frame he m
  rintro (hc | ⟨p, k, hp, _, hf⟩)
  · exact hm (onChain_in_region hR.up hc (fun n hn => by cases hn; exact hs))
  · have hRp : R p := hR.up self p hs hp
    rcases hf with e | e | ⟨j, hst⟩
    · exact hm (e ▸ hRp)
    · exact hm (hv m e)
    · exact hm (hR.down _ _ _ _ hRp hst)

theorem frame_pop (fuel : Nat) (h h' : Heap H) (R : Id → Prop) (hR : Region h R) (self : Id) (hs : R self)
    (he : opPop fuel h self = some h') (m : Id) (hm : ¬ R m) : h' m = h m :=
  frame_replace fuel h h' R hR self .none hs (fun c hc => by simp [itemOfValue] at hc) he m hm

/-- `copy()` writes only fresh cells: every existing cell (below `base`) is unchanged — the original keeps its
    args, pointers and caches — and the root of the copy is a fresh id, hence a node the original does not contain. -/
theorem copy_original_untouched (fuel : Nat) (h h' : Heap H) (n : Id) (base nx : Nat) (c : Id)
    (he : opCopy fuel h n base = some (h', nx, c)) :
    (∀ m, m < base → h' m = h m) ∧ base ≤ c ∧ nx > c := copyNode_frame fuel h base n h' nx c he

/-- partial form of `copy_equal_disjoint`: no node of the original (ids below `base`) is written, the copy's root is
    not one of them, and (cache clause) a `_hash` carried over to the copy's root is the original's. -/
theorem copy_equal_disjoint_partial (fuel : Nat) (h h' : Heap H) (n : Id) (base nx : Nat) (c : Id) (hn : n < base)
    (he : opCopy fuel h n base = some (h', nx, c)) :
    h' n = h n ∧ c ≠ n ∧ (h' c).cls = (h n).cls ∧ (h' c).raw = (h n).raw ∧ (h' c).parent = none := by
  obtain ⟨f, g1, g2⟩ := copy_original_untouched fuel h h' n base nx c he
  refine ⟨f n hn, ?_, ?_⟩
  · intro e; rw [e] at g1; exact Nat.lt_irrefl _ (Nat.lt_of_lt_of_le hn g1)
  · cases fuel with
    | zero => simp [opCopy, copyNode] at he
    | succ f' =>
      simp only [opCopy, copyNode] at he
      split at he
      · cases he
      · simp only [Option.some.injEq, Prod.mk.injEq] at he
        obtain ⟨e1, _, e3⟩ := he; subst e1; subst e3
        simp

/-- the copy defaults the property rests on, re-extracted (ast) from the source on every run: `Generator.generate`
    copies its argument by default before preprocessing/printing, `Expression.sql(copy=True)`, `transform` copies when
    asked (default), `optimize` parses with `copy=True`, `__deepcopy__` carries `_hash` over before the arg loop (so
    that the copy's own `set`/`append` calls evict it wherever structure is rebuilt). A change breaks this build. -/
theorem generated_copy_defaults_ok :
    SqlglotModel.Generated.C09.generateCopiesByDefault = true ∧
    SqlglotModel.Generated.C09.sqlCopiesByDefault = true ∧
    SqlglotModel.Generated.C09.transformCopiesWhenAsked = true ∧
    SqlglotModel.Generated.C09.optimizeCopiesInput = true ∧
    SqlglotModel.Generated.C09.deepcopyCarriesHashBeforeArgs = true := by decide

/-! ### non-vacuity -/

/-- the whole id space is a region; so is the empty set -/
example (h : Heap H) : Region h (fun _ => True) := ⟨fun _ _ _ _ => trivial, fun _ _ _ _ _ _ => trivial⟩

/-- a concrete copy in the model: Paren(this=Literal) copied into fresh cells 2,3 -/
def demo : List Op :=
  [.new 0 "paren" false, .new 1 "literal" true, .set 1 "this" (.leaf (.str "1")) none true,
   .set 0 "this" (.node 1) none true, .hash 0]

example : ((run freeHash 8 empty demo).bind (fun h => opCopy 8 h 0 2)).map (fun r => (r.2.1, r.2.2)) = some (4, 2) := by
  decide +kernel

end SqlglotModel.Properties.C09
