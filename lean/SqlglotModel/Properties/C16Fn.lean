/-
  C16 — the duckdb EXPRESSION_METADATA entries that are not individually modelled ("generic functions"): for every such class
  whose generic instantiation with 1 or 2 scalar arguments renders to duckdb SQL that parses back to the same tree and whose
  entry has a modelled shape (returns / by-args / binary / unary), the class of the type the entry yields is decided
  against the engine's class table (Generated/C16Fn.lean: regenerated from the live metadata and the installed DuckDB).
-/
import SqlglotModel.Model.Types
import SqlglotModel.Generated.C16
import SqlglotModel.Generated.C16Fn

namespace SqlglotModel.Properties.C16Fn
open SqlglotModel.Types

abbrev T0 : Tables := SqlglotModel.Generated.C16.tables
abbrev F0 : FnTables := SqlglotModel.Generated.C16Fn.tables

/-- complete finite decision: every generic entry × typed operand summaries × compatible engine classes on which DuckDB gives
    a type in one of the property's classes agrees, except exactly the known disagreement `famFn` (ArrayPosition typed as a
    Binary) -/
theorem metadata_functions_exact : fnCheck T0 F0 = true := by decide +kernel

/-- the decision is not vacuous: there are agreeing combinations, and the known disagreement occurs -/
theorem metadata_functions_census : (censusFn T0 F0).1 > 1000 ∧ (censusFn T0 F0).2 > 0 := by decide +kernel

end SqlglotModel.Properties.C16Fn
