/-
  C06 — Simplification and normal forms preserve SQL three-valued logic exactly.
  Only property theorems, non-vacuity examples and counter-example witnesses live here.
  `eval` is 3-valued: NULL, TRUE and FALSE are distinct results (Sem/ThreeVL.lean).
-/
import SqlglotModel.Proofs.Simplify
import SqlglotModel.Generated.C06

namespace SqlglotModel.Properties.C06
open SqlglotModel.ThreeVL SqlglotModel.Simplify

/-- what a COMPLEMENT_COMPARISONS table must satisfy for `NOT (a op b) → a op' b` -/
def ComplementOK (c : Cmp → Cmp) : Prop := ∀ op x y, (c op).test x y = !op.test x y
/-- what INVERSE_COMPARISONS (identity default) must satisfy for swapping the operands of a comparison -/
def InverseOK (c : Cmp → Cmp) : Prop := ∀ op x y, (c op).test y x = op.test x y

/-- the tables regenerated from the source on this run have the required properties (complete case analysis) -/
theorem generated_complement_ok : ComplementOK Generated.C06.complement := by
  intro op x y; cases op <;> simp [Generated.C06.complement, Cmp.test] <;> (rw [Bool.eq_iff_iff]; simp)
theorem generated_inverse_ok : InverseOK Generated.C06.inverseCmp := by
  intro op x y; cases op <;> simp [Generated.C06.inverseCmp, Cmp.test] <;> first | omega | (constructor <;> intro h <;> omega) | trace_state
theorem generated_inverse_ops_ok :
    Generated.C06.addInverseIsSub = true ∧ Generated.C06.subInverseIsAdd = true := by decide

/-- the rule pipeline of `Simplifier._simplify` extracted from the source on this run is the one the model and the
    observer were written for (in particular sort_comparison runs on the children before the parent's
    simplify_connectors, which is what puts the shared column of `_simplify_comparison` on the left) -/
theorem generated_pipeline_known :
    Generated.C06.preOrder = ["rewrite_between", "uniq_sort", "absorb_and_eliminate", "simplify_concat",
      "simplify_conditionals", "propagate_constants"] ∧
    Generated.C06.postOrder = ["simplify_not", "flatten", "simplify_connectors", "remove_complements", "simplify_coalesce",
      "simplify_literals", "simplify_equality", "simplify_parens", "simplify_datetrunc", "sort_comparison",
      "simplify_startswith"] := by decide

/-- rewrite_between is exact (whatever the parent: the only thing the parent decides is a pair of parentheses) -/
theorem rewrite_between_sound (p : PK) (e : E) (env : Env) : eval env (rewriteBetween p e) = eval env e := by
  cases e <;> simp [rewriteBetween, eval]
  split <;> simp [eval]

example : rewriteBetween .none (.between (.icol 0 false) (.int 1) (.int 3)) ≠ .between (.icol 0 false) (.int 1) (.int 3) := by
  decide

/-- text level (5af9b60): the AND that replaces a BETWEEN stays grouped under IS, a comparison, IN, arithmetic, unary
    minus and NOT; simplify_parens does not drop that Paren again; and it is needed — an AND is not `reparseSafe` in any of
    those operand slots.  Under a connector or at the top it is left bare (and that is safe). -/
theorem rewrite_between_keeps_grouping :
    ([PK.is, .cmp, .inList, .add, .sub, .mul, .neg, .not].all fun pk =>
      rewriteBetween pk (.between (.icol 0 false) (.int 1) (.int 2))
        == .paren (.and (.cmp .gte (.icol 0 false) (.int 1)) (.cmp .lte (.icol 0 false) (.int 2))) &&
      simplifyParens pk (.paren (.and (.cmp .gte (.icol 0 false) (.int 1)) (.cmp .lte (.icol 0 false) (.int 2))))
        == .paren (.and (.cmp .gte (.icol 0 false) (.int 1)) (.cmp .lte (.icol 0 false) (.int 2)))) = true ∧
    ([PKind.is, .eq, .rel, .add, .sub, .mul, .neg, .not].all fun p => [0, 1].all fun pos => !reparseSafe p pos .and) = true ∧
    reparseSafe .inList 0 .and = false ∧
    ([PK.none, .and, .or, .paren].all fun pk =>
      rewriteBetween pk (.between (.icol 0 false) (.int 1) (.int 2))
        == .and (.cmp .gte (.icol 0 false) (.int 1)) (.cmp .lte (.icol 0 false) (.int 2))) = true ∧
    reparseSafe .and 0 .and = true ∧ reparseSafe .or 1 .and = true := by decide

/-- why: rewrite_between as it was before 5af9b60 (snapshot `rewriteBetweenNotOnly`: parentheses under NOT only) puts a bare
    AND into the subject slot of IS — `x BETWEEN 1 AND 2 IS NULL → x >= 1 AND x <= 2 IS NULL` — which is not `reparseSafe` -/
theorem rewrite_between_not_only_witness :
    rewriteBetweenNotOnly .is (.between (.icol 0 false) (.int 1) (.int 2))
      = .and (.cmp .gte (.icol 0 false) (.int 1)) (.cmp .lte (.icol 0 false) (.int 2)) ∧
    reparseSafe .is 0 .and = false := by decide

theorem cmpVal_complement (c : Cmp → Cmp) (hc : ComplementOK c) (op : Cmp) (x y : Val) :
    cmpVal (c op) x y = ofB3 (not3 (truth (cmpVal op x y))) := by
  unfold cmpVal
  cases toInt? x <;> cases toInt? y <;> simp [truth, not3, ofB3, hc op]

/-- simplify_not (NOT NULL, comparison complement, De Morgan, constants, double negation behind the dialect flag and
    the boolean-type premise) is exact -/
theorem simplify_not_sound (c : Cmp → Cmp) (hc : ComplementOK c) (fl : Flags) (p : PK) (innerBool : Bool) (e : E)
    (hb : innerBool = true → ∀ x, e = .not (.not x) → boolish x = true) (env : Env) :
    eval env (simplifyNot c fl p innerBool e) = eval env e := by
  cases e <;> simp only [simplifyNot]
  rename_i this
  cases this with
  | null => simp [notNull, eval, and3, not3, truth, ofB3]
  | cmp op a b => simp [eval, cmpVal_complement c hc]
  | paren x =>
    simp only [simplifyNotParen]
    have hu := eval_unnest env (.paren x)
    split
    · rename_i l r h; rw [h] at hu; simp [eval, not3_and3] at hu ⊢; rw [← hu]; simp [not3_and3]
    · rename_i l r h; rw [h] at hu; simp [eval, not3_or3] at hu ⊢; rw [← hu]; simp [not3_or3]
    · rename_i h; rw [h] at hu; simp [eval] at hu; simp [notNull, eval, ← hu, and3, not3, truth, ofB3]
    · rfl
  | not inner =>
    simp only [simplifyNotTail, alwaysTrue, isFalseE]
    simp only [Bool.false_eq_true, if_false]
    split
    · rename_i h
      simp only [Bool.and_eq_true] at h
      have := boolish_val env inner (hb h.2 inner rfl)
      simp [eval, not3_not3, this]
    · rfl
  | bool v => cases v <;> simp [simplifyNotTail, alwaysTrue, isFalseE, eval, truth, not3, ofB3]
  | int n =>
    simp only [simplifyNotTail, alwaysTrue, isFalseE]
    by_cases h : n = 0 <;> simp [h, eval, truth, not3, ofB3]
  | _ => simp [simplifyNotTail, alwaysTrue, isFalseE]

example : simplifyNot Generated.C06.complement ⟨true, false⟩ .none true (.not (.not (.bcol 0 false))) = .bcol 0 false := by
  decide


/-- the constant part of the AND / OR pair table: the replacement has the same 3-valued truth value as the pair … -/
theorem conn_const_sound (isAnd : Bool) (l r x : E) (h : connConst isAnd l r = some x) (env : Env) :
    ofB3 (truth (eval env x)) = eval env (if isAnd then .and l r else .or l r) := by
  unfold connConst at h
  cases isAnd
  · simp only [Bool.false_eq_true, if_false] at h ⊢
    split at h
    · rename_i hc; simp only [Bool.or_eq_true] at hc; cases h
      rcases hc with hc | hc <;> simp [eval, alwaysTrue_truth env _ hc, or3_true, true_or3] <;> rfl
    · split at h
      · rename_i hc; cases h
        simp only [Bool.or_eq_true, Bool.and_eq_true] at hc
        rcases hc with (⟨h1, h2⟩ | ⟨h1, h2⟩) | ⟨h1, h2⟩
        · rw [isNullE_eq l h1, isNullE_eq r h2]; rfl
        · rw [isNullE_eq l h1]
          have := alwaysFalse_truth env r h2
          rcases hr : truth (eval env r) with _ | _ | _ <;> simp_all [eval, truth, or3, ofB3]
        · rw [isNullE_eq r h2]
          have := alwaysFalse_truth env l h1
          rcases hl : truth (eval env l) with _ | _ | _ <;> simp_all [eval, truth, or3, ofB3]
      · split at h
        · rename_i hc; cases h; rw [isFalseE_eq l hc]; simp [eval, truth, false_or3]
        · split at h
          · rename_i hc; cases h; rw [isFalseE_eq r hc]; simp [eval, truth, or3_false]
          · cases h
  · simp only [if_true] at h ⊢
    split at h
    · rename_i hc; simp only [Bool.or_eq_true] at hc; cases h
      rcases hc with hc | hc
      · rw [isFalseE_eq l hc]; simp [eval, truth, false_and3]
      · rw [isFalseE_eq r hc]; simp [eval, truth, and3_false]
    · split at h
      · rename_i hc; simp only [Bool.or_eq_true] at hc; cases h
        rcases hc with hc | hc
        · rw [isZeroE_eq l hc]; simp [eval, truth, false_and3]
        · rw [isZeroE_eq r hc]; simp [eval, truth, and3_false]
      · split at h
        · rename_i hc; cases h
          simp only [Bool.or_eq_true, Bool.and_eq_true] at hc
          rcases hc with (⟨h1, h2⟩ | ⟨h1, h2⟩) | ⟨h1, h2⟩
          · rw [isNullE_eq l h1, isNullE_eq r h2]; rfl
          · rw [isNullE_eq l h1]; simp [eval, alwaysTrue_truth env r h2]; rfl
          · rw [isNullE_eq r h2]; simp [eval, alwaysTrue_truth env l h1]; rfl
        · split at h
          · rename_i hc; cases h; simp only [Bool.and_eq_true] at hc
            simp [eval, alwaysTrue_truth env l hc.1, alwaysTrue_truth env r hc.2]; rfl
          · split at h
            · rename_i hc; cases h; simp [eval, alwaysTrue_truth env l hc, true_and3]
            · split at h
              · rename_i hc; cases h; simp [eval, alwaysTrue_truth env r hc, and3_true]
              · cases h

/-- … and the same *value* when the replacement is boolean-valued (`A AND TRUE → A` for a boolean `A`) -/
theorem conn_const_exact (isAnd : Bool) (l r x : E) (h : connConst isAnd l r = some x) (hb : boolish x = true)
    (env : Env) : eval env x = eval env (if isAnd then .and l r else .or l r) := by
  rw [← conn_const_sound isAnd l r x h env, boolish_val env x hb]

example : connConst true (.bool true) (.bcol 0 false) = some (.bcol 0 false) := by decide

/-- literal folding (`_simplify_binary`) is exact -/
theorem bin_pair_sound (k : BinK) (pIf sp : Bool) (a b x : E) (h : binPair k pIf sp a b = some x) (env : Env) :
    eval env x = eval env (k.mk a b) := by
  have hnum : ∀ x, binPairNum k sp a b = some x → eval env x = eval env (k.mk a b) := by
    intro x hx
    unfold binPairNum at hx
    split at hx
    · rename_i u v hu hv
      have ea := numVal_eval env a u hu
      have eb := numVal_eval env b v hv
      cases k <;> simp only [] at hx
      · cases hx; simp [BinK.mk, eval, ea, eb, cmpVal, toInt?]
      · cases hx
      · cases hx; simp [BinK.mk, eval, ea, eb, eval_mkNum, arith, toInt?]
      · split at hx
        · cases hx; simp [BinK.mk, eval, ea, eb, eval_mkNum, arith, toInt?]
        · cases hx
      · cases hx; simp [BinK.mk, eval, ea, eb, eval_mkNum, arith, toInt?]
    · cases hx
  unfold binPair at h
  split at h
  · split at h
    · rename_i hb; rw [isNullE_eq b hb]
      split at h
      · rename_i hl; cases h; cases a <;> simp_all [isLiteral, BinK.mk, eval, isVal]
      · split at h
        · rename_i ha; cases h; rw [isNullE_eq a ha]; simp [BinK.mk, eval, isVal]
        · rw [← isNullE_eq b hb]; exact hnum x h
    · exact hnum x h
  · split at h
    · rename_i hk hc; cases h
      simp only [Bool.and_eq_true, Bool.or_eq_true] at hc
      rcases hc.1 with hn | hn
      · rw [isNullE_eq a hn]; cases k <;> simp_all [BinK.mk, eval, cmpVal, arith, toInt?]
      · rw [isNullE_eq b hn]; cases k <;> simp_all [BinK.mk, eval, cmpVal, arith, toInt?]
        all_goals (cases toInt? (eval env a) <;> rfl)
    · exact hnum x h

example : binPair .sub false true (.int 2) (.int 5) = some (.neg (.int 3)) := by decide

/-- `- - x → x` keeps the numeric value -/
theorem simplify_neg_neg_sound (e : E) (env : Env) : toInt? (eval env (simplifyNegNeg e)) = toInt? (eval env e) := by
  unfold simplifyNegNeg
  split
  · simp only [eval, negVal]
    cases h : toInt? (eval env _) <;> simp [toInt?]
  · rfl

/-- property of INVERSE_COMPARISONS needed by `5 - x < 2 → x > 5 - 2` -/
def SubFlipOK (c : Cmp → Cmp) : Prop := ∀ op a x r, (c op).test x (a - r) = op.test (a - x) r
theorem generated_subflip_ok : SubFlipOK Generated.C06.inverseCmp := by
  intro op a x r; cases op <;> simp only [Generated.C06.inverseCmp, Cmp.test] <;> (try rw [Bool.eq_iff_iff]) <;> (try simp only [decide_eq_true_eq, decide_eq_false_iff_not, Bool.not_eq_eq_eq_not, Bool.not_true]) <;> omega

theorem cmp_shift_add (op : Cmp) (x b r : Int) : op.test x (r - b) = op.test (x + b) r := by
  cases op <;> simp only [Cmp.test] <;> (try rw [Bool.eq_iff_iff]) <;> (try simp only [decide_eq_true_eq, decide_eq_false_iff_not, Bool.not_eq_eq_eq_not, Bool.not_true]) <;> omega
theorem cmp_shift_add' (op : Cmp) (x a r : Int) : op.test x (r - a) = op.test (a + x) r := by
  cases op <;> simp only [Cmp.test] <;> (try rw [Bool.eq_iff_iff]) <;> (try simp only [decide_eq_true_eq, decide_eq_false_iff_not, Bool.not_eq_eq_eq_not, Bool.not_true]) <;> omega
theorem cmp_shift_sub (op : Cmp) (x b r : Int) : op.test x (r + b) = op.test (x - b) r := by
  cases op <;> simp only [Cmp.test] <;> (try rw [Bool.eq_iff_iff]) <;> (try simp only [decide_eq_true_eq, decide_eq_false_iff_not, Bool.not_eq_eq_eq_not, Bool.not_true]) <;> omega

theorem val_shift_add (op : Cmp) (v : Val) (b r : Int) :
    cmpVal op v (arith (· - ·) (.i r) (.i b)) = cmpVal op (arith (· + ·) v (.i b)) (.i r) := by
  cases v <;> simp [cmpVal, arith, toInt?, cmp_shift_add]
theorem val_shift_add' (op : Cmp) (v : Val) (a r : Int) :
    cmpVal op v (arith (· - ·) (.i r) (.i a)) = cmpVal op (arith (· + ·) (.i a) v) (.i r) := by
  cases v <;> simp [cmpVal, arith, toInt?, cmp_shift_add']
theorem val_shift_sub (op : Cmp) (v : Val) (b r : Int) :
    cmpVal op v (arith (· + ·) (.i r) (.i b)) = cmpVal op (arith (· - ·) v (.i b)) (.i r) := by
  cases v <;> simp [cmpVal, arith, toInt?, cmp_shift_sub]
theorem val_flip_sub (c : Cmp → Cmp) (hc : SubFlipOK c) (op : Cmp) (v : Val) (a r : Int) :
    cmpVal (c op) v (arith (· - ·) (.i a) (.i r)) = cmpVal op (arith (· - ·) (.i a) v) (.i r) := by
  cases v <;> simp [cmpVal, arith, toInt?, hc op]

/-- simplify_equality (`x + 1 = 3 → x = 3 - 1`, `5 - x < 2 → x > 5 - 2`) is exact over the (unbounded) integers -/
theorem simplify_equality_sound (c : Cmp → Cmp) (hc : SubFlipOK c) (ai si : Bool) (e : E) (env : Env) :
    eval env (simplifyEquality c ai si e) = eval env e := by
  unfold simplifyEquality
  split
  · rename_i op l r
    split
    · rfl
    · rename_i hr
      obtain ⟨rv, hrv⟩ : ∃ rv, numVal? r = some rv := by
        cases h : numVal? r <;> simp_all
      have er := numVal_eval env r rv hrv
      split
      · rename_i a b
        split; · rfl
        split
        · rename_i hab
          obtain ⟨bv, hbv⟩ : ∃ bv, numVal? b = some bv := by cases h : numVal? b <;> simp_all
          have eb := numVal_eval env b bv hbv
          simp only [eval, er, eb]
          exact val_shift_add op _ bv rv
        · split
          · rename_i hab
            obtain ⟨av, hav⟩ : ∃ av, numVal? a = some av := by cases h : numVal? a <;> simp_all
            have ea := numVal_eval env a av hav
            simp only [eval, er, ea]
            exact val_shift_add' op _ av rv
          · rfl
      · rename_i a b
        split; · rfl
        split
        · rename_i hab
          obtain ⟨bv, hbv⟩ : ∃ bv, numVal? b = some bv := by cases h : numVal? b <;> simp_all
          have eb := numVal_eval env b bv hbv
          simp only [eval, er, eb]
          exact val_shift_sub op _ bv rv
        · split
          · rename_i hab
            obtain ⟨av, hav⟩ : ∃ av, numVal? a = some av := by cases h : numVal? a <;> simp_all
            have ea := numVal_eval env a av hav
            simp only [eval, er, ea]
            exact val_flip_sub c hc op _ av rv
          · rfl
      · rfl
  · rfl

example : simplifyEquality Generated.C06.inverseCmp true true (.cmp .lt (.sub (.int 5) (.icol 0 false)) (.int 2))
    = .cmp .gt (.icol 0 false) (.sub (.int 5) (.int 2)) := by decide

/-- TEXT LEVEL (complete decision table, decided exhaustively): wherever the guard list of simplify_parens — regenerated
    from the source on this run — drops the parentheses of a child of kind `c` under a parent of kind `p`, the printed SQL
    parses back with the same meaning in every operand slot (`reparseSafe`, the abstracted precedence ladder); no
    exception.  (BETWEEN parents are excluded: rewrite_between, earlier in the pinned pipeline, removes them before
    simplify_parens runs.)  Dropping a guard atom such as `parent_is_predicate` breaks this. -/
theorem generated_parens_guard_reparse_safe :
    (parentKinds.all fun p => childKinds.all fun c => [0, 1, 2].all fun pos =>
      !Generated.C06.parensGuard c p || reparseSafe p pos c) = true := by decide

/-- … as a ∀-statement -/
theorem simplify_parens_text_safe (p c : PKind) (pos : Nat) (hp : p ∈ parentKinds) (hc : c ∈ childKinds) (hpos : pos ∈ [0, 1, 2])
    (h : Generated.C06.parensGuard c p = true) : reparseSafe p pos c = true := by
  have := generated_parens_guard_reparse_safe
  simp only [List.all_eq_true] at this
  have h3 := this p hp c hc pos hpos
  simpa [h] using h3

/-- why the repaired guard atoms are needed: the guard list as it was before the fix (explicit snapshot `oldParensGuard`)
    dropped the parentheses in slots that are unsafe, and exactly the `knownUnsafeParens` slots were the unsafe ones -/
theorem parens_known_unsafe_witness :
    oldParensGuard .not .add = true ∧ reparseSafe .add 0 .not = false ∧
    oldParensGuard .inList .neg = true ∧ reparseSafe .neg 0 .inList = false ∧
    (parentKinds.all fun p => childKinds.all fun c => [0, 1, 2].all fun pos =>
      !oldParensGuard c p || reparseSafe p pos c || knownUnsafeParens p c) = true := by decide

def pkOfPKind : PKind → List PK
  | .none => [.none] | .func => [.coalesce, .case, .iff] | .paren => [.paren] | .or => [.or] | .and => [.and] | .not => [.not]
  | .eq => [.cmp] | .rel => [.cmp] | .is => [.is] | .between => [.between] | .inList => [.inList]
  | .add => [.add] | .sub => [.sub] | .mul => [.mul] | .neg => [.neg] | .atom => []

def repOfPKind : PKind → List E
  | .paren => [.paren (.icol 0 false)] | .or => [.or (.bcol 0 false) (.bcol 1 false)] | .and => [.and (.bcol 0 false) (.bcol 1 false)]
  | .not => [.not (.bcol 0 false)] | .eq => [.cmp .eq (.icol 0 false) (.int 1), .cmp .neq (.icol 0 false) (.int 1)]
  | .rel => [.cmp .lt (.icol 0 false) (.int 1), .cmp .gte (.icol 0 false) (.int 1)] | .is => [.is (.icol 0 false) .null]
  | .between => [.between (.icol 0 false) (.int 1) (.int 2)] | .inList => [.inList (.icol 0 false) (.cons (.int 1) .nil)]
  | .add => [.add (.icol 0 false) (.int 1)] | .sub => [.sub (.icol 0 false) (.int 1)] | .mul => [.mul (.icol 0 false) (.int 2)]
  | .neg => [.neg (.icol 0 false)] | .atom => [.icol 0 false, .int 1, .bool true, .null]
  | .func => [.coalesce (.cons (.icol 0 false) .nil), .case .nil .absent, .iff (.bcol 0 false) (.int 1) .absent]
  | .none => []

/-- the hand-written mirror `simplifyParens` and the regenerated guard list agree on every (parent kind, child kind)
    (complete table over representative terms; BETWEEN parents included) -/
theorem generated_parens_guard_matches_model :
    ((PKind.between :: parentKinds).all fun p => childKinds.all fun c => (pkOfPKind p).all fun pk => (repOfPKind c).all fun e =>
      (simplifyParens pk (.paren e) == e) == Generated.C06.parensGuard c p) = true := by decide

/-- simplify_parens only ever drops a pair of parentheses -/
theorem simplify_parens_sound (p : PK) (e : E) (env : Env) : eval env (simplifyParens p e) = eval env e := by
  unfold simplifyParens
  split
  · rename_i this
    repeat' split
    all_goals simp [eval]
  · rfl

theorem flattenChild_sound (isAnd : Bool) (e : E) (env : Env) : eval env (flattenChild isAnd e) = eval env e := by
  unfold flattenChild
  split
  · rename_i a b h; rw [← h]; simp
  · rename_i a b h; rw [← h]; simp
  · rfl

/-- flatten (`A AND (B AND C) → A AND B AND C`) is exact -/
theorem flatten_sound (e : E) (env : Env) : eval env (flatten1 e) = eval env e := by
  cases e <;> simp [flatten1, eval, flattenChild_sound]

/-- the IF branch of simplify_conditionals is exact -/
theorem simplify_conditionals_if_sound (pc : PK) (c t f : E) (env : Env) :
    eval env (simplifyConditionals pc (.iff c t f)) = eval env (.iff c t f) := by
  simp only [simplifyConditionals]
  split; · rfl
  split
  · rename_i h; simp [eval, alwaysTrue_truth env c h]
  · split
    · rename_i h
      have := alwaysFalse_truth env c h
      rw [eval_wrapForParent]
      split
      · rename_i hf; subst hf; simp [eval, this]
      · simp [eval, this]
    · rfl

/-- simplify_conditionals (CASE loop as repaired by 9cbbc29, IF, and the parenthesised branch of a4faa75) is exact: a
    constant-TRUE condition collapses the CASE only when it is the first remaining branch; constant-FALSE/NULL branches
    are dropped; the branch that replaces the CASE / IF is wrapped in parentheses under a Binary / Unary / Predicate parent -/
theorem simplify_conditionals_sound (pc : PK) (e : E) (env : Env) :
    eval env (simplifyConditionals pc e) = eval env e := by
  cases e with
  | case ifs d => simp only [simplifyConditionals]; rw [caseLoop_sound]; rfl
  | iff c t f => exact simplify_conditionals_if_sound pc c t f env
  | _ => rfl

example : simplifyConditionals .none (.case (.cons (.iff (.bool false) (.int 1) .absent)
    (.cons (.iff (.bool true) (.int 2) .absent) .nil)) .absent)
    = .case (.cons (.iff (.bool true) (.int 2) .absent) .nil) .absent := by decide

-- the mirror iterates like the Python for-loop over the list it pops from: the branch right after a popped one is SKIPPED
-- (kept unexamined), which is why `WHEN TRUE` in third place does not collapse the CASE here …
example : simplifyConditionals .none (.case (.cons (.iff (.bool false) (.int 10) .absent) (.cons (.iff (.bcol 0 false) (.int 20) .absent)
    (.cons (.iff (.bool true) (.int 30) .absent) .nil))) .absent)
    = .case (.cons (.iff (.bcol 0 false) (.int 20) .absent) (.cons (.iff (.bool true) (.int 30) .absent) .nil)) .absent := by decide
-- … and a constant-false branch in the skipped position survives this pass (the fixpoint driver removes it next time)
example : simplifyConditionals .none (.case (.cons (.iff (.bool false) (.int 10) .absent) (.cons (.iff (.bool false) (.int 20) .absent)
    (.cons (.iff (.bcol 0 false) (.int 30) .absent) .nil))) .absent)
    = .case (.cons (.iff (.bool false) (.int 20) .absent) (.cons (.iff (.bcol 0 false) (.int 30) .absent) .nil)) .absent := by decide

/-- why the identity test `case is ifs[0]` cannot be replaced by a "some earlier branch was visited" flag: the loop pops from
    the list it iterates, so the branch after a popped one is never visited and never sets the flag (`caseLoopFlag`):
    `CASE WHEN FALSE THEN 10 WHEN b THEN 20 WHEN TRUE THEN 30 END → 30`, wrong when `b` is TRUE -/
theorem simplify_conditionals_flag_skips_after_pop :
    ∃ ifs env, caseLoopFlag .none .absent (listLen ifs + 1) false [] ifs = .int 30 ∧
      eval env (caseLoopFlag .none .absent (listLen ifs + 1) false [] ifs) ≠ eval env (.case ifs .absent) :=
  ⟨.cons (.iff (.bool false) (.int 10) .absent) (.cons (.iff (.bcol 0 false) (.int 20) .absent) (.cons (.iff (.bool true) (.int 30) .absent) .nil)),
   ⟨fun _ => some true, fun _ => none⟩, by decide, by decide⟩

/-- why the "first remaining branch" test is needed: the unrepaired loop (`firstOnly = false`, the code before
    9cbbc29) turns `CASE WHEN b THEN 1 WHEN TRUE THEN 2 END` into `2`, wrong when `b` is TRUE -/
theorem simplify_conditionals_needs_first_branch :
    ∃ ifs env, eval env (caseLoop false .none .absent (listLen ifs + 1) [] ifs) ≠ eval env (.case ifs .absent) :=
  ⟨.cons (.iff (.bcol 0 false) (.int 1) .absent) (.cons (.iff (.bool true) (.int 2) .absent) .nil),
   ⟨fun _ => some true, fun _ => none⟩, by decide⟩

/-- text level (a4faa75): the branch that replaces `IF(TRUE, a OR b, c)` under an AND keeps its grouping, and
    simplify_parens does not drop it again (an OR under an AND is not `reparseSafe`) -/
theorem simplify_conditionals_keeps_grouping :
    simplifyConditionals .and (.iff (.bool true) (.or (.bcol 0 false) (.bcol 1 false)) (.bcol 2 false))
      = .paren (.or (.bcol 0 false) (.bcol 1 false)) ∧
    simplifyParens .and (.paren (.or (.bcol 0 false) (.bcol 1 false))) = .paren (.or (.bcol 0 false) (.bcol 1 false)) ∧
    reparseSafe .and 0 .or = false := by decide

/-- the parentheses are necessary for same-operator nesting that is not associative: `x - IF(TRUE, a - b, 0)` becomes
    `x - (a - b)`, simplify_parens keeps that Paren, and a subtraction in the RIGHT slot of a subtraction is not
    `reparseSafe` (`x - a - b` parses as `(x - a) - b`); AND / OR / + / * in the same slot are.  The variant that skips the
    wrap for same-operator parents (`wrapForParentSkipSameOp`) leaves the bare `a - b` there. -/
theorem wrap_needed_for_same_op_subtraction :
    simplifyConditionals .sub (.iff (.bool true) (.sub (.icol 0 false) (.icol 1 false)) (.int 0))
      = .paren (.sub (.icol 0 false) (.icol 1 false)) ∧
    simplifyParens .sub (.paren (.sub (.icol 0 false) (.icol 1 false))) = .paren (.sub (.icol 0 false) (.icol 1 false)) ∧
    reparseSafe .sub 1 .sub = false ∧
    reparseSafe .add 1 .add = true ∧ reparseSafe .mul 1 .mul = true ∧ reparseSafe .and 1 .and = true ∧ reparseSafe .or 1 .or = true ∧
    wrapForParentSkipSameOp (.sub (.icol 0 false) (.icol 1 false)) .sub = .sub (.icol 0 false) (.icol 1 false) ∧
    (∃ env, eval env (.sub (.icol 2 false) (.sub (.icol 0 false) (.icol 1 false)))
          ≠ eval env (.sub (.sub (.icol 2 false) (.icol 0 false)) (.icol 1 false))) :=
  ⟨by decide, by decide, by decide, by decide, by decide, by decide, by decide, by decide,
   ⟨⟨fun _ => none, fun _ => some 1⟩, by decide⟩⟩

/-- `COALESCE(x) → x` and `COALESCE(<non-null constant>, …) → <that constant>` are exact -/
theorem simplify_coalesce_head_sound (fl : Flags) (p : PK) (first rest : E) (env : Env) :
    eval env (simplifyCoalesce fl p (.coalesce (.cons first rest))) = eval env (.coalesce (.cons first rest)) := by
  simp only [simplifyCoalesce]
  split
  · rename_i h
    rw [eval_wrapForParent]
    simp only [Bool.or_eq_true, decide_eq_true_eq] at h
    rcases h with h | h
    · subst h; simp only [eval, evalCoalesce]; cases eval env first <;> rfl
    · cases first <;> simp_all [isNonnullConstant, eval, evalCoalesce]
  · rfl

/-- the comparison branch of simplify_coalesce (operand order as repaired by daebc58):
    `COALESCE(x, …, c, …) op k  →  ((NOT this IS NULL AND COALESCE(x, …) op k) OR (this IS NULL AND c op k))`
    is exact (the argument that ends the COALESCE is a constant other than the NULL literal, e0979fa) -/
theorem simplify_coalesce_cmp_sound (op : Cmp) (left : Bool) (first rest other x : E)
    (h : coalesceRewrite true (some op) left first rest other = some x) (env : Env) :
    eval env x = eval env (if left then .cmp op (.coalesce (.cons first rest)) other
                           else .cmp op other (.coalesce (.cons first rest))) := by
  unfold coalesceRewrite at h
  split at h; · cases h
  cases hs : splitAtConst true rest with
  | none => simp [hs] at h
  | some pc =>
    obtain ⟨pre, c⟩ := pc
    simp only [hs] at h
    cases h
    have hsplit := evalCoalesce_split env true rest pre c hs
      (endsCoalesce_ne_null env c (splitAtConst_ends true rest pre c hs)) first
    have hthis : eval env (wrapNotSubject (if pre = .nil then first else .coalesce (.cons first pre))) = evalCoalesce env (.cons first pre) := by
      rw [eval_wrapNotSubject]
      split
      · rename_i hp; subst hp; simp only [evalCoalesce]; cases eval env first <;> rfl
      · rfl
    generalize hv : evalCoalesce env (.cons first pre) = v at hsplit hthis
    cases left
    · simp only [Bool.false_eq_true, if_false, mkCmpLike, eval, eval_mkOr, eval_mkAnd, hthis, hsplit, hv, truth_ofB3]
      cases v <;> simp [isVal, truth, not3, and3, or3, ofB3_truth_cmpVal] <;>
        (first | (rw [← ofB3_truth_cmpVal]; cases truth (cmpVal op (eval env other) _) with
                  | none => rfl
                  | some b => cases b <;> rfl))
    · simp only [if_true, mkCmpLike, eval, eval_mkOr, eval_mkAnd, hthis, hsplit, hv, truth_ofB3]
      cases v <;> simp [isVal, truth, not3, and3, or3, ofB3_truth_cmpVal] <;>
        (first | (rw [← ofB3_truth_cmpVal]; cases truth (cmpVal op _ (eval env other)) with
                  | none => rfl
                  | some b => cases b <;> rfl))

example : coalesceRewrite true (some .lt) false (.icol 0 false) (.cons (.int 1) .nil) (.int 2)
    = some (.paren (mkOr (mkAnd (.not (.is (.icol 0 false) .null)) (.cmp .lt (.int 2) (.coalesce (.cons (.icol 0 false) .nil))))
                         (mkAnd (.is (.icol 0 false) .null) (.cmp .lt (.int 2) (.int 1))))) := by decide

-- `simplify_coalesce_cmp_sound` is for ANY number of arguments before the constant (`evalCoalesce_split` is by induction
-- over the prefix); with two of them the guard subject is the truncated COALESCE(x, y), not x:
example : coalesceRewrite true (some .eq) true (.icol 0 false) (.cons (.icol 1 false) (.cons (.int 1) .nil)) (.int 2)
    = some (.paren (mkOr
        (mkAnd (.not (.is (.coalesce (.cons (.icol 0 false) (.cons (.icol 1 false) .nil))) .null))
               (.cmp .eq (.coalesce (.cons (.icol 0 false) (.cons (.icol 1 false) .nil))) (.int 2)))
        (mkAnd (.is (.coalesce (.cons (.icol 0 false) (.cons (.icol 1 false) .nil))) .null) (.cmp .eq (.int 1) (.int 2))))) := by decide

/-- text level (b0a036f): a NOT guard subject stays grouped — `COALESCE(NOT b, TRUE) = TRUE` builds `(NOT b) IS NULL`, and a NOT
    in the subject slot of IS is not `reparseSafe` -/
theorem simplify_coalesce_not_subject_grouped :
    coalesceRewrite true (some .eq) true (.not (.bcol 0 false)) (.cons (.bool true) .nil) (.bool true)
      = some (.paren (mkOr
          (mkAnd (.not (.is (.paren (.not (.bcol 0 false))) .null)) (.cmp .eq (.coalesce (.cons (.not (.bcol 0 false)) .nil)) (.bool true)))
          (mkAnd (.is (.paren (.not (.bcol 0 false))) .null) (.cmp .eq (.bool true) (.bool true))))) ∧
    reparseSafe .is 0 .not = false := by decide

/-- why the guard subject must be the whole truncated COALESCE: with the first argument alone
    (`coalesceRewriteFirstArgGuard`) `COALESCE(x, y, 1) = 2` is FALSE for x NULL, y = 2 where the input is TRUE -/
theorem simplify_coalesce_guard_subject_needed :
    ∃ x env, coalesceRewriteFirstArgGuard (some .eq) (.icol 0 false) (.cons (.icol 1 false) (.cons (.int 1) .nil)) (.int 2) = some x ∧
      eval env x ≠ eval env (.cmp .eq (.coalesce (.cons (.icol 0 false) (.cons (.icol 1 false) (.cons (.int 1) .nil)))) (.int 2)) :=
  ⟨_, ⟨fun _ => none, fun k => if k = 1 then some 2 else none⟩, rfl, by decide⟩

/-- why the NULL literal must not end the COALESCE: the earlier rule (`skipNull = false`, before e0979fa) loses the
    arguments after it — `COALESCE(x, NULL, y) = 1` became `(NOT x IS NULL AND x = 1) OR (x IS NULL AND NULL = 1)` -/
theorem simplify_coalesce_needs_nonnull_constant :
    ∃ first rest other x env, coalesceRewrite false (some .eq) true first rest other = some x ∧
      eval env x ≠ eval env (.cmp .eq (.coalesce (.cons first rest)) other) :=
  ⟨.icol 0 false, .cons .null (.cons (.icol 1 false) .nil), .int 1, _,
   ⟨fun _ => none, fun k => if k = 1 then some 1 else none⟩, rfl, by decide⟩

example : simplifyCoalesce ⟨false, false⟩ .none (.cmp .eq (.coalesce (.cons (.icol 0 false) (.cons .null (.cons (.icol 1 false) .nil)))) (.int 1))
    = .cmp .eq (.coalesce (.cons (.icol 0 false) (.cons .null (.cons (.icol 1 false) .nil)))) (.int 1) := by decide

/-- the step checker is sound: an accepted step has the same 3-valued truth value under every assignment … -/
theorem checkStep_sound (c : Cmp → Cmp) (hc : InverseOK c) (r : Rule) (a b : E) (h : checkStep c r a b = true)
    (env : Env) : truth (eval env a) = truth (eval env b) := by
  have tt : (a == b || ttCheck a b) = true → truth (eval env a) = truth (eval env b) := by
    intro h
    simp only [Bool.or_eq_true, beq_iff_eq] at h
    rcases h with h | h
    · rw [h]
    · exact ttCheck_sound a b h env
  cases r <;> simp only [checkStep] at h <;> try exact tt h
  simp only [checkSortComparison, Bool.or_eq_true, beq_iff_eq] at h
  rcases h with h | h
  · rw [h]
  · split at h
    · rename_i op l r'
      simp only [beq_iff_eq] at h; subst h
      simp only [eval, cmpVal]
      cases toInt? (eval env l) <;> cases toInt? (eval env r') <;> simp [hc op]
    · cases h

/-- … and the same value (NULL, TRUE, FALSE distinct) when both sides are boolean-valued expressions -/
theorem checkStep_exact (c : Cmp → Cmp) (hc : InverseOK c) (r : Rule) (a b : E) (h : checkStep c r a b = true)
    (ha : boolish a = true) (hb : boolish b = true) (env : Env) : eval env a = eval env b := by
  rw [← boolish_val env a ha, ← boolish_val env b hb, checkStep_sound c hc r a b h env]

-- the checker accepts the rewrites it is meant for (non-vacuity) and rejects the NULL-unsafe ones
example : checkStep Generated.C06.inverseCmp .absorbAndEliminate
    (.and (.bcol 0 false) (.paren (.or (.bcol 0 false) (.bcol 1 false)))) (.bcol 0 false) = true := by decide
example : checkStep Generated.C06.inverseCmp .removeComplements
    (.and (.bcol 0 false) (.not (.bcol 0 false))) (.bool false) = false := by decide
example : checkStep Generated.C06.inverseCmp .removeComplements
    (.and (.bcol 0 true) (.not (.bcol 0 true))) (.bool false) = true := by decide
example : checkStep Generated.C06.inverseCmp .distributiveLaw
    (.or (.paren (.and (.bcol 0 false) (.bcol 1 false))) (.bcol 2 false))
    (.and (.paren (.or (.bcol 0 false) (.bcol 2 false))) (.paren (.or (.bcol 1 false) (.bcol 2 false)))) = true := by decide

/-- why the `nonnull` gate of remove_complements / absorb_and_eliminate exists: `A AND NOT A` is NULL, not FALSE, for A NULL -/
theorem nonnull_needed : ∃ env, eval env (.and (.bcol 0 false) (.not (.bcol 0 false))) ≠ .b false :=
  ⟨⟨fun _ => none, fun _ => none⟩, by decide⟩
theorem nonnull_needed_absorb :
    ∃ env, eval env (.and (.bcol 0 false) (.paren (.or (.not (.bcol 0 false)) (.bcol 1 false))))
      ≠ eval env (.and (.bcol 0 false) (.bcol 1 false)) :=
  ⟨⟨fun k => if k = 0 then none else some false, fun _ => none⟩, by decide⟩

theorem and3_some_some (a b : Bool) : and3 (some a) (some b) = some (a && b) := by cases a <;> cases b <;> rfl
theorem or3_some_some (a b : Bool) : or3 (some a) (some b) = some (a || b) := by cases a <;> cases b <;> rfl

/-- the range rules of `_simplify_comparison` on two upper bounds (LT/LTE) or two lower bounds (GT/GTE) of the same
    term `c` (as repaired by a8389e4: on equal constants AND keeps the strict bound, OR the inclusive one) are exact in
    3-valued logic — for every value of `c` including NULL, for both operand orders, for AND and OR -/
theorem simplify_comparison_bounds_sound (or_ : Bool) (opl opr : Cmp) (c l r x : E) (lv rv : Int)
    (hl : numVal? l = some lv) (hr : numVal? r = some rv)
    (hops : ((isLtLte (some opl) && isLtLte (some opr)) || (isGtGte (some opl) && isGtGte (some opr))) = true)
    (h : cmpDecide true or_ (.cmp opl c l) (.cmp opr c r) (some opl) lv (some opr) rv = .res x) (env : Env) :
    eval env x = eval env (if or_ then .or (.cmp opl c l) (.cmp opr c r) else .and (.cmp opl c l) (.cmp opr c r)) := by
  have el := numVal_eval env l lv hl
  have er := numVal_eval env r rv hr
  cases hv : toInt? (eval env c) with
  | none =>
    have hx : x = .cmp opl c l ∨ x = .cmp opr c r := by
      cases opl <;> cases opr <;> simp [isLtLte, isGtGte] at hops <;> cases or_ <;>
        simp [cmpDecide, firstSome, cmpStep, isLtLte, isGtGte] at h <;>
        (repeat' split at h) <;> simp_all
    rcases hx with hx | hx <;> subst hx <;> cases or_ <;> simp [eval, cmpVal, hv, truth, and3, or3, ofB3]
  | some k =>
    have cl : ∀ op n, cmpVal op (eval env c) (.i n) = .b (op.test k n) := by
      intro op n; unfold cmpVal; rw [hv]; rfl
    cases opl <;> cases opr <;> simp [isLtLte, isGtGte] at hops <;> cases or_ <;>
      simp [cmpDecide, firstSome, cmpStep, isLtLte, isGtGte] at h <;> subst h <;>
      (repeat' split) <;> (try contradiction) <;>
      simp only [eval, el, er, cl, truth, and3_some_some, or3_some_some, ofB3, Cmp.test, Val.b.injEq] <;>
      (try rw [Bool.eq_iff_iff]) <;>
      (try simp only [Bool.and_eq_true, Bool.or_eq_true, decide_eq_true_eq]) <;> omega

example : cmpDecide true false (.cmp .lte (.icol 0 false) (.int 1)) (.cmp .lt (.icol 0 false) (.int 1)) (some .lte) 1 (some .lt) 1
    = .res (.cmp .lt (.icol 0 false) (.int 1)) := by decide

/-- why the tie rule is needed: before a8389e4 (`tie = false`) the first operand won on equal constants, so
    `x <= 1 AND x < 1` (which `NOT x > 1 AND x < 1` reaches unsorted) became `x <= 1`: TRUE at x = 1, the input is FALSE -/
theorem simplify_comparison_tie_needed :
    ∃ x env, cmpDecide false false (.cmp .lte (.icol 0 false) (.int 1)) (.cmp .lt (.icol 0 false) (.int 1)) (some .lte) 1 (some .lt) 1 = .res x ∧
      eval env x ≠ eval env (.and (.cmp .lte (.icol 0 false) (.int 1)) (.cmp .lt (.icol 0 false) (.int 1))) :=
  ⟨_, ⟨fun _ => none, fun _ => some 1⟩, rfl, by decide⟩

/-- every result of `_simplify_comparison` on `c opl l`, `c opr r` (either bound merged, `a` kept, or FALSE) is exact when the
    shared term `c` is not NULL — all 36 operator pairs, AND and OR -/
theorem simplify_comparison_nonnull_sound (or_ : Bool) (opl opr : Cmp) (c l r x : E) (lv rv k : Int)
    (hl : numVal? l = some lv) (hr : numVal? r = some rv)
    (h : cmpDecide true or_ (.cmp opl c l) (.cmp opr c r) (some opl) lv (some opr) rv = .res x) (env : Env)
    (hv : toInt? (eval env c) = some k) :
    eval env x = eval env (if or_ then .or (.cmp opl c l) (.cmp opr c r) else .and (.cmp opl c l) (.cmp opr c r)) := by
  have el := numVal_eval env l lv hl
  have er := numVal_eval env r rv hr
  have cl : ∀ op n, cmpVal op (eval env c) (.i n) = .b (op.test k n) := by
    intro op n; unfold cmpVal; rw [hv]; rfl
  rw [cmpDecide, firstSome_res] at h
  cases opl <;> cases opr <;> cases or_ <;>
    simp [cmpStep, isLtLte, isGtGte] at h <;>
    (try (rcases h with h | h)) <;>
    (try (obtain ⟨h1, h⟩ := h)) <;> (try (obtain ⟨h2, h⟩ := h)) <;> (try subst h) <;>
    (repeat' split) <;> (try contradiction) <;>
    simp only [eval, el, er, cl, truth, and3_some_some, or3_some_some, ofB3, Cmp.test, Val.b.injEq, if_true, if_false, Bool.false_eq_true] <;>
    (try rw [Bool.eq_iff_iff]) <;>
    (try simp only [Bool.and_eq_true, Bool.or_eq_true, decide_eq_true_eq, Bool.not_eq_true', decide_eq_false_iff_not, Bool.false_eq_true, false_iff, iff_false, not_and, Bool.not_eq_eq_eq_not, Bool.not_true]) <;>
    (first | omega | (intros; omega) | trace_state)

/-- … and WHERE-equivalent always: the result is TRUE exactly when the input is TRUE (NULL and FALSE may be confused) -/
theorem simplify_comparison_where_sound (or_ : Bool) (opl opr : Cmp) (c l r x : E) (lv rv : Int)
    (hl : numVal? l = some lv) (hr : numVal? r = some rv)
    (h : cmpDecide true or_ (.cmp opl c l) (.cmp opr c r) (some opl) lv (some opr) rv = .res x) (env : Env) :
    (truth (eval env x) = some true ↔
      truth (eval env (if or_ then .or (.cmp opl c l) (.cmp opr c r) else .and (.cmp opl c l) (.cmp opr c r))) = some true) := by
  cases hv : toInt? (eval env c) with
  | some k => rw [simplify_comparison_nonnull_sound or_ opl opr c l r x lv rv k hl hr h env hv]
  | none =>
    have el := numVal_eval env l lv hl
    have er := numVal_eval env r rv hr
    have cn : ∀ op n, cmpVal op (eval env c) (.i n) = .null := by
      intro op n; unfold cmpVal; rw [hv]
    rw [cmpDecide, firstSome_res] at h
    cases opl <;> cases opr <;> cases or_ <;>
      simp [cmpStep, isLtLte, isGtGte] at h <;>
      (try (rcases h with h | h)) <;>
      (try (obtain ⟨h1, h⟩ := h)) <;> (try (obtain ⟨h2, h⟩ := h)) <;> (try subst h) <;>
      (repeat' split) <;> (try contradiction) <;>
      simp [eval, el, er, cn, truth, and3, or3, ofB3]

/-- the known finding's exact boundary, for the `→ FALSE` results: the input is FALSE whenever the shared term is not NULL -/
theorem simplify_comparison_false_nonnull (opl opr : Cmp) (c l r : E) (lv rv k : Int)
    (hl : numVal? l = some lv) (hr : numVal? r = some rv)
    (h : cmpDecide true false (.cmp opl c l) (.cmp opr c r) (some opl) lv (some opr) rv = .res (.bool false)) (env : Env)
    (hv : toInt? (eval env c) = some k) :
    eval env (.and (.cmp opl c l) (.cmp opr c r)) = .b false := by
  have := simplify_comparison_nonnull_sound false opl opr c l r (.bool false) lv rv k hl hr h env hv
  simpa [eval] using this.symm

/-- … and under NOT the rewrite is not even WHERE-equivalent: `NOT (x = 5 AND x < 3)` is NULL (row dropped) for x NULL,
    `NOT FALSE` is TRUE (row kept) -/
theorem simplify_comparison_not_where_counterexample :
    ∃ env, truth (eval env (.not (.paren (.and (.cmp .eq (.icol 0 false) (.int 5)) (.cmp .lt (.icol 0 false) (.int 3)))))) ≠ some true ∧
      truth (eval env (.not (.bool false))) = some true :=
  ⟨⟨fun _ => none, fun _ => none⟩, by decide, by decide⟩

/-- every result other than FALSE is exact for every value of the shared term, NULL included -/
theorem simplify_comparison_nonfalse_sound (or_ : Bool) (opl opr : Cmp) (c l r x : E) (lv rv : Int)
    (hl : numVal? l = some lv) (hr : numVal? r = some rv)
    (h : cmpDecide true or_ (.cmp opl c l) (.cmp opr c r) (some opl) lv (some opr) rv = .res x) (hx : x ≠ .bool false)
    (env : Env) :
    eval env x = eval env (if or_ then .or (.cmp opl c l) (.cmp opr c r) else .and (.cmp opl c l) (.cmp opr c r)) := by
  cases hv : toInt? (eval env c) with
  | some k => exact simplify_comparison_nonnull_sound or_ opl opr c l r x lv rv k hl hr h env hv
  | none =>
    have el := numVal_eval env l lv hl
    have er := numVal_eval env r rv hr
    have cn : ∀ op n, cmpVal op (eval env c) (.i n) = .null := by
      intro op n; unfold cmpVal; rw [hv]
    rw [cmpDecide, firstSome_res] at h
    cases opl <;> cases opr <;> cases or_ <;>
      simp [cmpStep, isLtLte, isGtGte] at h <;>
      (try (rcases h with h | h)) <;>
      (try (obtain ⟨h1, h⟩ := h)) <;> (try (obtain ⟨h2, h⟩ := h)) <;> (try subst h) <;>
      (repeat' split) <;> (try contradiction) <;> (try (simp_all; done)) <;>
      simp [eval, el, er, cn, truth, and3, or3, ofB3]

theorem ofB3_inj (x y : B3) (h : ofB3 x = ofB3 y) : x = y := by
  have := congrArg truth h; simpa using this

/-- the exact part of the pair table of simplify_connectors preserves the 3-valued truth value of the pair -/
theorem exact_pair_sound (isAnd : Bool) (a b r : E) (h : exactPair isAnd a b = some r) (env : Env) :
    (if isAnd then and3 else or3) (truth (eval env a)) (truth (eval env b)) = truth (eval env r) := by
  unfold exactPair at h
  cases hc : connConst isAnd a b with
  | some x =>
    simp only [hc] at h
    cases h
    have := conn_const_sound isAnd a b r hc env
    cases isAnd <;> simp [eval] at this ⊢ <;> exact (ofB3_inj _ _ this).symm
  | none =>
    simp only [hc] at h
    cases a with
    | cmp opl c l =>
      cases b with
      | cmp opr c' r' =>
        simp only [] at h
        split at h
        · rename_i hcc; subst hcc
          cases hl : numVal? l with
          | none => simp [hl] at h
          | some lv =>
            cases hr : numVal? r' with
            | none => simp [hl, hr] at h
            | some rv =>
              simp only [hl, hr] at h
              cases hd : cmpDecide true (!isAnd) (.cmp opl c l) (.cmp opr c r') (some opl) lv (some opr) rv with
              | res x =>
                simp only [hd] at h
                split at h
                · cases h
                · rename_i hx
                  cases h
                  have := simplify_comparison_nonfalse_sound (!isAnd) opl opr c l r' r lv rv hl hr hd hx env
                  cases isAnd <;> simp [eval] at this ⊢ <;> rw [this] <;> simp
              | none => simp [hd] at h
              | same => simp [hd] at h
        · cases h
      | _ => simp at h
    | _ => simp at h

/-- `_flat_simplify` (queue algorithm) is sound for any pair function that is sound w.r.t. a commutative monoid on the
    semantics — the design's `flat_simplify_sound`, generic form (see `flatSimplify_sound` in Proofs) -/
theorem flat_simplify_sound {α : Type} (op : α → α → α) (u : α) (sem : E → α)
    (hassoc : ∀ a b c, op (op a b) c = op a (op b c)) (hcomm : ∀ a b, op a b = op b a) (hunit : ∀ a, op u a = a)
    (k : FK) (hmk : ∀ a b, sem (k.mk a b) = op (sem a) (sem b))
    (pair : E → E → Option E) (hp : ∀ a b r, pair a b = some r → op (sem a) (sem b) = sem r) (gate : Bool) (e : E) :
    sem (flatSimplify k pair gate e) = sem e :=
  flatSimplify_sound op u sem hassoc hcomm hunit k hmk pair hp gate e

/-- end to end for simplify_connectors on the exact sub-table (constant table + every non-FALSE `_simplify_comparison`
    result): the whole queue run over an AND / OR chain of any length keeps the 3-valued truth value -/
theorem simplify_connectors_exact_sound (isAnd gate : Bool) (e : E) (env : Env) :
    truth (eval env (flatSimplify (if isAnd then .and else .or) (exactPair isAnd) gate e)) = truth (eval env e) := by
  cases isAnd
  · exact flatSimplify_sound or3 (some false) (fun e => truth (eval env e)) or3_assoc or3_comm false_or3 .or
      (by intro a b; simp [FK.mk, eval]) (exactPair false) (fun a b r h => exact_pair_sound false a b r h env) gate e
  · exact flatSimplify_sound and3 (some true) (fun e => truth (eval env e)) and3_assoc and3_comm true_and3 .and
      (by intro a b; simp [FK.mk, eval]) (exactPair true) (fun a b r h => exact_pair_sound true a b r h env) gate e

def addO : Option Int → Option Int → Option Int
  | some a, some b => some (a + b)
  | _, _ => none
def mulO : Option Int → Option Int → Option Int
  | some a, some b => some (a * b)
  | _, _ => none

theorem toInt_arith (f : Int → Int → Int) (x y : Val) :
    toInt? (arith f x y) = (match toInt? x, toInt? y with | some a, some b => some (f a b) | _, _ => none) := by
  unfold arith; cases toInt? x <;> cases toInt? y <;> rfl

/-- simplify_literals on a sum / product chain of any length (queue algorithm over `_simplify_binary`) keeps the numeric value -/
theorem simplify_literals_add_sound (pif gate : Bool) (e : E) (env : Env) :
    toInt? (eval env (flatSimplify .add (binPair .add pif true) gate e)) = toInt? (eval env e) := by
  refine flatSimplify_sound addO (some 0) (fun e => toInt? (eval env e)) ?_ ?_ ?_ .add ?_ _ ?_ gate e
  · intro a b c; cases a <;> cases b <;> cases c <;> simp [addO, Int.add_assoc]
  · intro a b; cases a <;> cases b <;> simp [addO, Int.add_comm]
  · intro a; cases a <;> simp [addO]
  · intro a b; simp only [FK.mk, eval, toInt_arith]; cases toInt? (eval env a) <;> cases toInt? (eval env b) <;> rfl
  · intro a b r h
    have := bin_pair_sound .add pif true a b r h env
    simp only [this, BinK.mk, eval, toInt_arith]; cases toInt? (eval env a) <;> cases toInt? (eval env b) <;> rfl

theorem simplify_literals_mul_sound (pif gate : Bool) (e : E) (env : Env) :
    toInt? (eval env (flatSimplify .mul (binPair .mul pif true) gate e)) = toInt? (eval env e) := by
  refine flatSimplify_sound mulO (some 1) (fun e => toInt? (eval env e)) ?_ ?_ ?_ .mul ?_ _ ?_ gate e
  · intro a b c; cases a <;> cases b <;> cases c <;> simp [mulO, Int.mul_assoc]
  · intro a b; cases a <;> cases b <;> simp [mulO, Int.mul_comm]
  · intro a; cases a <;> simp [mulO]
  · intro a b; simp only [FK.mk, eval, toInt_arith]; cases toInt? (eval env a) <;> cases toInt? (eval env b) <;> rfl
  · intro a b r h
    have := bin_pair_sound .mul pif true a b r h env
    simp only [this, BinK.mk, eval, toInt_arith]; cases toInt? (eval env a) <;> cases toInt? (eval env b) <;> rfl

example : flatSimplify .and (exactPair true) true
    (.and (.and (.cmp .lt (.icol 0 false) (.int 3)) (.bcol 0 false)) (.and (.bool true) (.cmp .lte (.icol 0 false) (.int 5))))
    = .and (.cmp .lt (.icol 0 false) (.int 3)) (.bcol 0 false) := by decide

/-- KNOWN FINDING (clean tree, pinned by the repo's fixtures): `_simplify_comparison` rewrites `x = 5 AND x < 3` to FALSE.
    For `x` NULL the input is NULL, not FALSE, and under NOT the difference reaches a WHERE filter. -/
theorem simplify_comparison_and_false_counterexample :
    cmpPair false (.cmp .eq (.icol 0 false) (.int 5)) (.cmp .lt (.icol 0 false) (.int 3)) = .res (.bool false) ∧
    ∃ env, eval env (.and (.cmp .eq (.icol 0 false) (.int 5)) (.cmp .lt (.icol 0 false) (.int 3))) ≠ eval env (.bool false) ∧
      eval env (.not (.paren (.and (.cmp .eq (.icol 0 false) (.int 5)) (.cmp .lt (.icol 0 false) (.int 3)))))
        ≠ eval env (.not (.bool false)) :=
  ⟨by decide, ⟨fun _ => none, fun _ => none⟩, by decide, by decide⟩

/-- `distributive_law` (children first, then `_distribute` at OR-over-AND / AND-over-OR nodes, both polarities, the
    same-polarity cross product included) is exact in 3-valued logic, for any sound `uniq_sort` -/
theorem distributive_law_sound (us : E → E) (hus : ∀ e env, eval env (us e) = eval env e) (dnf : Bool) (e : E) (env : Env) :
    eval env (distLaw us dnf e) = eval env e :=
  (distLaw_all us hus dnf env e).1

/-- `_distribute(a, b)` alone: exact Kleene distributivity -/
theorem distribute_exact (us : E → E) (hus : ∀ e env, eval env (us e) = eval env e) (toAnd : Bool) (a b : E) (env : Env) :
    eval env (distribute us toAnd a b) = eval env (rawConn (!toAnd) a b) := by
  rw [distribute_sound us hus]; simp

example : distLaw id false (.or (.paren (.and (.bcol 0 false) (.bcol 1 false))) (.bcol 2 false))
    = .and (.paren (.or (.bcol 2 false) (.bcol 0 false))) (.paren (.or (.bcol 2 false) (.bcol 1 false))) := by decide

/-- OBJECT LEVEL (complete decision over the regenerated use table): `_distribute` as it is in the source never moves one
    operand object into two places of its output — every operand that is used more than once (`b.left` / `b.right` once per
    child of `a`, the loop variable `c` and `a` once per clause) is deep-copied for all uses but at most one -/
theorem generated_distribute_no_sharing : noSharing Generated.C06.distributeUses = true := by decide

/-- why: building the second clause with `copy=False` (snapshot `distributeUsesCopyFalse`) moves `b.right` once per child of
    `a`, so one subtree object sits in two clauses and the next in-place distribution step rewrites both -/
theorem distribute_copy_false_shares :
    noSharing distributeUsesCopyFalse = false ∧ hasDup [(DOp.bRight, 0), (DOp.bRight, 0)] = true ∧
    (movedObjects distributeUsesCopyFalse).contains (DOp.bRight, 0) = true := by decide

/-- what `normalize` returns, as checked on every run: from the Boolean check alone — nothing assumed — the result is in
    the requested normal form (mirrored `normalized`) or is the input (possibly with BETWEEN rewritten), and it has the
    same 3-valued truth value as the input under every assignment -/
theorem normalize_result (c : Cmp → Cmp) (hc : InverseOK c) (dnf : Bool) (e e' : E)
    (h : checkNormalize c dnf e e' = true) :
    (normalizedM dnf e' = true ∨ e' = e ∨ e' = rbAll e) ∧ ∀ env, truth (eval env e') = truth (eval env e) := by
  simp only [checkNormalize, Bool.and_eq_true, Bool.or_eq_true, beq_iff_eq] at h
  refine ⟨?_, fun env => (checkStep_sound c hc .normalize e e' h.1 env).symm⟩
  rcases h.2 with (h2 | h2) | h2
  · exact Or.inl h2
  · exact Or.inr (Or.inl h2)
  · exact Or.inr (Or.inr h2)

/-- propagate_constants (conjunct-only harvesting, 9e10c4d) is WHERE-equivalent: the rewritten AND is TRUE exactly when
    the input is (for integer-typed bound columns; `none` = two conjuncts bind the same column, not modelled) -/
theorem propagate_constants_where_sound (gate : Bool) (e e' : E) (h : propagateConstants gate e = some e')
    (hI : ∀ c n, (c, n) ∈ conjBindings e → isIcol c = true) (env : Env) :
    (truth (eval env e') = some true ↔ truth (eval env e) = some true) := by
  unfold propagateConstants at h
  split at h
  · split at h
    · simp only [] at h
      split at h
      · cases h
      · cases h; exact substSpine_where env _ hI
    · cases h; exact Iff.rfl
  · cases h; exact Iff.rfl

/-- … and exact (NULL, TRUE, FALSE distinct) under every assignment in which no bound column is NULL -/
theorem propagate_constants_nonnull_sound (gate : Bool) (e e' : E) (h : propagateConstants gate e = some e')
    (hI : ∀ c n, (c, n) ∈ conjBindings e → isIcol c = true) (env : Env)
    (hnn : ∀ c n, (c, n) ∈ conjBindings e → eval env c ≠ .null) :
    eval env e' = eval env e := by
  unfold propagateConstants at h
  split at h
  · split at h
    · simp only [] at h
      split at h
      · cases h
      · cases h; exact substSpine_nonnull env _ _ hI hnn
    · cases h; rfl
  · cases h; rfl

/-- KNOWN FINDING (by design of the rule): for a NULL column the rewrite turns NULL into FALSE:
    `x = 5 AND x < 3 → x = 5 AND 5 < 3` -/
theorem propagate_constants_null_counterexample :
    ∃ e e' env, propagateConstants true e = some e' ∧ eval env e' ≠ eval env e :=
  ⟨.and (.cmp .eq (.icol 0 false) (.int 5)) (.cmp .lt (.icol 0 false) (.int 3)),
   .and (.cmp .eq (.icol 0 false) (.int 5)) (.cmp .lt (.int 5) (.int 3)),
   ⟨fun _ => none, fun _ => none⟩, by decide, by decide⟩

/-- uniq_sort as a mirrored function (the operand order of the result is a parameter; the real one comes from sorting
    `gen()` texts): every duplicate-free rearrangement of the operands keeps the 3-valued truth value -/
theorem uniq_sort_sound (order : List E) (gate : Bool) (e : E) (env : Env) :
    truth (eval env (uniqSortWith order gate e)) = truth (eval env e) :=
  uniqSortWith_sound order gate e env

example : uniqSortWith [.bcol 0 false, .bcol 1 false] true (.and (.bcol 1 false) (.and (.bcol 0 false) (.bcol 1 false)))
    = .and (.bcol 0 false) (.bcol 1 false) := by decide

/-- remove_complements as a mirrored function is exact under its `nonnull` gate -/
theorem remove_complements_sound (gate nonnull : Bool) (e : E) (hn : nonnull = true → nonNullE e = true) (env : Env) :
    eval env (removeComplements gate nonnull e) = eval env e :=
  removeComplements_sound gate nonnull e hn env

example : removeComplements true true (.and (.bcol 0 true) (.not (.bcol 0 true))) = .bool false := by decide

/-- the fixpoint driver (`while_changing`): iterating a sound pass any number of times is sound -/
def iterate (f : E → E) : Nat → E → E
  | 0, e => e
  | n + 1, e => iterate f n (f e)
theorem while_changing_sound (f : E → E) (hf : ∀ e env, eval env (f e) = eval env e) (n : Nat) (e : E) (env : Env) :
    eval env (iterate f n e) = eval env e := by
  induction n generalizing e with
  | zero => rfl
  | succ n ih => simp [iterate, ih, hf]

end SqlglotModel.Properties.C06
