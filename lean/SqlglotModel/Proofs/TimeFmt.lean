/-
  C01 — `format_time` is the identity on strings none of whose characters starts a mapping key
  (in particular for the empty mapping).
-/
import SqlglotModel.Model.TimeFmt

namespace SqlglotModel.TimeFmt

/-- no character of `s` is the first character of a key -/
def NoKeyStart (keys : List (List Char)) (s : List Char) : Prop :=
  ∀ c ∈ s, ∀ k ∈ keys, k.head? ≠ some c

theorem trieStep_failed (keys : List (List Char)) (c : Char) (h : ∀ k ∈ keys, k.head? ≠ some c) :
    trieStep keys [] c = .failed := by
  have h1 : keys.contains ([] ++ [c]) = false := by
    simp only [List.nil_append, List.contains_eq_mem, decide_eq_false_iff_not]
    intro hm
    exact h [c] hm rfl
  have h2 : keys.any (fun k => isPrefixOf ([] ++ [c]) k) = false := by
    simp only [List.any_eq_false]
    intro k hk
    have := h k hk
    cases k with
    | nil => simp [isPrefixOf]
    | cons x xs =>
      simp only [List.head?_cons, ne_eq, Option.some.injEq] at this
      simp [isPrefixOf, this]
  simp only [trieStep, h1, h2]
  simp

theorem ftLoop_id (keys : List (List Char)) (rest : List Char) :
    ∀ f chunks, rest.length < f → NoKeyStart keys rest →
      ftLoop keys f rest 1 [] none chunks = some (chunks ++ rest.map (fun c => [c])) := by
  induction rest with
  | nil =>
    intro f chunks hf _
    obtain ⟨f', rfl⟩ : ∃ f', f = f' + 1 := ⟨f - 1, by omega⟩
    simp [ftLoop]
  | cons c cs ih =>
    intro f chunks hf hk
    obtain ⟨f', rfl⟩ : ∃ f', f = f' + 1 := ⟨f - 1, by omega⟩
    have hc := trieStep_failed keys c (hk c (List.mem_cons_self ..))
    have hlen : ¬ (1 > (c :: cs).length) := by simp
    simp only [ftLoop, hlen, if_false, List.take_succ_cons, List.take_zero, List.getLast?_singleton, hc,
      List.drop_succ_cons, List.drop_zero]
    rw [ih f' (chunks ++ [[c]]) (by simp at hf; omega) (fun x hx => hk x (List.mem_cons_of_mem _ hx))]
    simp

theorem lookupC_none (m : List (List Char × List Char)) (c : Char)
    (h : ∀ k ∈ m.map (·.1), k.head? ≠ some c) : lookupC m [c] = none := by
  induction m with
  | nil => rfl
  | cons a as ih =>
    obtain ⟨k, v⟩ := a
    simp only [List.map_cons, List.mem_cons, forall_eq_or_imp] at h
    simp only [lookupC]
    have : k ≠ [c] := by
      intro e; subst e; exact h.1 rfl
    rw [if_neg this]
    exact ih h.2

theorem mapChunks_id (m : List (List Char × List Char)) (s : List Char) (h : NoKeyStart (m.map (·.1)) s) :
    mapChunks m (s.map (fun c => [c])) = s := by
  induction s with
  | nil => rfl
  | cons c cs ih =>
    simp only [List.map_cons, mapChunks]
    rw [lookupC_none m c (h c (List.mem_cons_self ..)), ih (fun x hx => h x (List.mem_cons_of_mem _ hx))]
    simp

theorem formatTimeL_id (m : List (List Char × List Char)) (s : List Char) (hs : s ≠ [])
    (h : NoKeyStart (m.map (·.1)) s) : formatTimeL s m = some (some s) := by
  have he : s.isEmpty = false := by cases s <;> simp_all
  simp only [formatTimeL, he, Bool.false_eq_true, if_false]
  rw [ftLoop_id _ s _ [] (by omega) h]
  simp [mapChunks_id m s h]

end SqlglotModel.TimeFmt
