/- Helper lemmas for the `_find_parser` model (C05). Core Lean only. -/
import SqlglotModel.Model.FindParser

namespace SqlglotModel.FindParser

theorem consHead_ne_nil (c : Char) (l : List Str) : consHead c l ≠ [] := by
  cases l <;> simp [consHead]

theorem splitOn_ne_nil (sep : Char) (s : Str) : splitOn sep s ≠ [] := by
  cases s with
  | nil => simp [splitOn]
  | cons c cs =>
    simp only [splitOn]
    split
    · simp
    · exact consHead_ne_nil _ _

theorem joinWith_consHead (sep c : Char) (l : List Str) (h : l ≠ []) :
    joinWith sep (consHead c l) = c :: joinWith sep l := by
  cases l with
  | nil => exact absurd rfl h
  | cons w ws =>
    cases ws with
    | nil => simp [consHead, joinWith]
    | cons w2 ws => simp [consHead, joinWith]

theorem joinWith_cons_ne (sep : Char) (w : Str) (l : List Str) (h : l ≠ []) :
    joinWith sep (w :: l) = w ++ sep :: joinWith sep l := by
  cases l with
  | nil => exact absurd rfl h
  | cons w2 ws => simp [joinWith]

/-- `sep.join(s.split(sep)) == s` -/
theorem join_split (sep : Char) (s : Str) : joinWith sep (splitOn sep s) = s := by
  induction s with
  | nil => simp [splitOn, joinWith]
  | cons c cs ih =>
    simp only [splitOn]
    split
    · rename_i h
      rw [joinWith_cons_ne sep [] _ (splitOn_ne_nil sep cs), ih, h]
      simp
    · rw [joinWith_consHead sep c _ (splitOn_ne_nil sep cs), ih]

theorem joinWith_append (sep : Char) (a b : List Str) (ha : a ≠ []) (hb : b ≠ []) :
    joinWith sep (a ++ b) = joinWith sep a ++ sep :: joinWith sep b := by
  induction a with
  | nil => exact absurd rfl ha
  | cons w ws ih =>
    cases ws with
    | nil => simp only [List.cons_append, List.nil_append]; rw [joinWith_cons_ne sep w b hb]; simp [joinWith]
    | cons w2 ws =>
      have h1 : (w2 :: ws) ++ b ≠ [] := by simp
      simp only [List.cons_append] at ih ⊢
      rw [joinWith_cons_ne sep w _ (by simp), ih (by simp), joinWith_cons_ne sep w (w2 :: ws) (by simp)]
      simp

/-- joining the words of all token texts gives the same string as joining the raw token texts -/
theorem join_flatMap_split (sep : Char) (this : List Str) :
    joinWith sep (this.flatMap (splitOn sep)) = joinWith sep this := by
  induction this with
  | nil => simp [joinWith]
  | cons t ts ih =>
    cases ts with
    | nil => simp [join_split, joinWith]
    | cons t2 ts =>
      have hne : (t2 :: ts).flatMap (splitOn sep) ≠ [] := by
        simp only [List.flatMap_cons]
        intro h
        have := splitOn_ne_nil sep t2
        cases hs : splitOn sep t2 with
        | nil => exact this hs
        | cons a b => simp [hs] at h
      rw [List.flatMap_cons, joinWith_append sep _ _ (splitOn_ne_nil sep t) hne, ih, join_split,
        joinWith_cons_ne sep t (t2 :: ts) (by simp)]

theorem flatMap_append_single (f : Str → List Str) (this : List Str) (t : Str) :
    (this ++ [t]).flatMap f = this.flatMap f ++ f t := by
  simp [List.flatMap_append]

/-- the invariant of the loop: with `split(" ")` as the trie key function the words walked so far are the words of
    the texts consumed so far, and then an EXISTS answer of the trie names a key the dict has -/
theorem walk_no_keyError (keys : List Str) :
    ∀ (toks this walked : List Str), walked = this.flatMap (splitOn ' ') →
      ∀ k, walk (splitOn ' ') keys toks this walked ≠ .keyError k := by
  intro toks
  induction toks with
  | nil => intro this walked _ k; simp [walk]
  | cons t ts ih =>
    intro this walked hw k
    unfold walk
    split
    · simp
    · split
      · rename_i hex
        -- the joined raw texts are the key whose words the trie found
        obtain ⟨k0, hk0, hsplit⟩ := List.mem_map.mp hex
        have hj : joinWith ' ' (this ++ [t]) = k0 := by
          have h1 : (this ++ [t]).flatMap (splitOn ' ') = splitOn ' ' k0 := by
            rw [flatMap_append_single, ← hw, hsplit]
          rw [← join_flatMap_split ' ' (this ++ [t]), h1, join_split]
        rw [hj]
        simp [hk0]
      · split
        · exact ih (this ++ [t]) (walked ++ splitOn ' ' t) (by rw [flatMap_append_single, hw]) k
        · simp

end SqlglotModel.FindParser
