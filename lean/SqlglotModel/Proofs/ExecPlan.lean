/-
  Proofs for the single-table fragment (Model/ExecPlan.lean): name resolution, the laws of the ORDER BY comparison,
  and `exec (plan q) = Sem.Query.eval q` (bag; sequence under a total ORDER BY).  Core Lean only.
-/
import SqlglotModel.Proofs.Exec
import SqlglotModel.Model.ExecPlan

namespace SqlglotModel.Exec
open SqlglotModel.Sem

/-! ### name resolution -/
theorem colIdx_none_of_not_mem (cols : List String) (n : String) (h : ¬ n ∈ cols) : colIdx cols n = none := by
  induction cols with
  | nil => rfl
  | cons c cs ih =>
    simp only [List.mem_cons, not_or] at h
    simp only [colIdx, ih h.2]
    rw [if_neg (fun e => h.1 e.symm)]

/-- in a duplicate-free column tuple a name resolves to its position -/
theorem colIdx_nodup (cols : List String) (hn : cols.Nodup) (i : Nat) (hi : i < cols.length) :
    colIdx cols cols[i] = some i := by
  induction cols generalizing i with
  | nil => simp at hi
  | cons c cs ih =>
    rw [List.nodup_cons] at hn
    cases i with
    | zero =>
      simp only [List.getElem_cons_zero, colIdx, colIdx_none_of_not_mem cs c hn.1, if_true]
    | succ j =>
      simp only [List.getElem_cons_succ, colIdx]
      rw [ih hn.2 j (by simpa using hi)]

/-- the last column of a name wins: a name of the appended part resolves there -/
theorem colIdx_append_right (a b : List String) (n : String) (i : Nat) (h : colIdx b n = some i) :
    colIdx (a ++ b) n = some (a.length + i) := by
  induction a with
  | nil => simpa using h
  | cons c cs ih =>
    simp only [List.cons_append, colIdx, ih, List.length_cons]
    congr 1; omega

theorem colIdx_append_left (a b : List String) (n : String) (h : ¬ n ∈ b) : colIdx (a ++ b) n = colIdx a n := by
  induction a with
  | nil => simp only [List.nil_append, colIdx_none_of_not_mem b n h, colIdx]
  | cons c cs ih => simp only [List.cons_append, colIdx, ih]

theorem colIdx_lt (cols : List String) (n : String) (i : Nat) (h : colIdx cols n = some i) : i < cols.length ∧ cols[i]? = some n := by
  induction cols generalizing i with
  | nil => simp [colIdx] at h
  | cons c cs ih =>
    simp only [colIdx] at h
    cases hc : colIdx cs n with
    | some j =>
      rw [hc] at h; simp at h; subst h
      have := ih j hc
      exact ⟨by simp; omega, by simpa using this.2⟩
    | none =>
      rw [hc] at h
      by_cases e : c = n
      · rw [if_pos e] at h; simp at h; subst h; simp [e]
      · rw [if_neg e] at h; cases h

theorem resolve_map {α} (cols : List String) (xs : List α) (name : α → String) (idx : α → Nat)
    (h : ∀ x ∈ xs, colIdx cols (name x) = some (idx x)) : resolve cols (xs.map name) = some (xs.map idx) := by
  induction xs with
  | nil => rfl
  | cons x xs ih =>
    simp only [List.map_cons, resolve, h x (by simp), ih (fun y hy => h y (by simp [hy]))]

theorem colName_get (cols : List String) (i : Nat) (hi : i < cols.length) : colName cols i = cols[i] := by
  simp [colName, List.getD, List.getElem?_eq_getElem hi]

/-! ### laws of the ORDER BY comparison -/
/-- what a three-way comparison must satisfy for sorting: antisymmetric orientation and transitivity of `≤` -/
structure OrdLaws {α} (c : α → α → Ordering) : Prop where
  swap : ∀ a b, c b a = (c a b).swap
  le_trans : ∀ a b d, c a b ≠ .gt → c b d ≠ .gt → c a d ≠ .gt

theorem OrdLaws.eq_trans {α} {c : α → α → Ordering} (h : OrdLaws c) (a b d : α) (h1 : c a b = .eq) (h2 : c b d = .eq) :
    c a d = .eq := by
  have l1 := h.le_trans a b d (by simp [h1]) (by simp [h2])
  have s1 : c b a = .eq := by rw [h.swap a b, h1]; rfl
  have s2 : c d b = .eq := by rw [h.swap b d, h2]; rfl
  have l2 := h.le_trans d b a (by simp [s2]) (by simp [s1])
  rw [h.swap a d] at l2
  cases hc : c a d <;> simp_all [Ordering.swap]

theorem cmp_le_trans (a b d : Val) (h1 : Val.cmp a b ≠ .gt) (h2 : Val.cmp b d ≠ .gt) : Val.cmp a d ≠ .gt := by
  cases hab : Val.cmp a b with
  | gt => exact absurd hab h1
  | eq => have := (cmp_eq_iff a b).1 hab; subst this; exact h2
  | lt =>
    cases hbd : Val.cmp b d with
    | gt => exact absurd hbd h2
    | eq => have := (cmp_eq_iff b d).1 hbd; subst this; simp [hab]
    | lt => simp [cmp_lt_trans a b d hab hbd]

theorem valCmp_laws : OrdLaws Val.cmp := ⟨fun a b => cmp_swap a b, cmp_le_trans⟩

theorem OrdLaws.flip {α} {c : α → α → Ordering} (h : OrdLaws c) : OrdLaws (fun a b => c b a) :=
  ⟨fun a b => h.swap b a, fun a b d h1 h2 => h.le_trans d b a h2 h1⟩

theorem OrdLaws.on {α β} {c : α → α → Ordering} (h : OrdLaws c) (f : β → α) : OrdLaws (fun a b => c (f a) (f b)) :=
  ⟨fun a b => h.swap _ _, fun a b d => h.le_trans _ _ _⟩

theorem cmpKey_laws (desc nf : Bool) : OrdLaws (cmpKey desc nf) := by
  constructor
  · intro a b
    cases ha : a.isNull <;> cases hb : b.isNull <;> simp only [cmpKey, ha, hb]
    · cases desc
      · simp only [Bool.false_eq_true, if_false]; exact cmp_swap a b
      · simp only [if_true]; exact cmp_swap b a
    · cases nf <;> rfl
    · cases nf <;> rfl
    · rfl
  · intro a b d h1 h2
    cases ha : a.isNull <;> cases hb : b.isNull <;> cases hd : d.isNull <;>
      simp only [cmpKey, ha, hb, hd] at h1 h2 ⊢ <;>
      cases desc <;> cases nf <;>
      simp only [Bool.false_eq_true, if_false, if_true, ne_eq, reduceCtorEq, not_false_eq_true, not_true] at h1 h2 ⊢ <;>
      first
        | exact cmp_le_trans _ _ _ h1 h2
        | exact cmp_le_trans _ _ _ h2 h1
        | exact h1.elim
        | exact h2.elim
        | trivial

/-- lexicographic composition keeps the laws -/
def lexThen (o next : Ordering) : Ordering :=
  match o with
  | .eq => next
  | .lt => .lt
  | .gt => .gt

theorem lex_laws {α} (c1 c2 : α → α → Ordering) (h1 : OrdLaws c1) (h2 : OrdLaws c2) :
    OrdLaws (fun a b => lexThen (c1 a b) (c2 a b)) := by
  constructor
  · intro a b
    show lexThen (c1 b a) (c2 b a) = (lexThen (c1 a b) (c2 a b)).swap
    rw [h1.swap a b, h2.swap a b]
    cases c1 a b <;> rfl
  · intro a b d l1 l2
    show lexThen (c1 a d) (c2 a d) ≠ .gt
    replace l1 : lexThen (c1 a b) (c2 a b) ≠ .gt := l1
    replace l2 : lexThen (c1 b d) (c2 b d) ≠ .gt := l2
    revert l1 l2
    simp only [lexThen]
    intro l1 l2
    cases hab : c1 a b with
    | gt => rw [hab] at l1; exact absurd rfl l1
    | eq =>
      rw [hab] at l1
      cases hbd : c1 b d with
      | gt => rw [hbd] at l2; exact absurd rfl l2
      | eq =>
        rw [hbd] at l2
        rw [h1.eq_trans a b d hab hbd]
        exact h2.le_trans a b d l1 l2
      | lt =>
        have hle := h1.le_trans a b d (by simp [hab]) (by simp [hbd])
        cases had : c1 a d with
        | gt => exact absurd had hle
        | lt => simp
        | eq =>
          -- then d ≤ a = b, so b ≤ d and d ≤ b: c1 b d = eq, contradiction
          have hda : c1 d a = .eq := by rw [h1.swap a d, had]; rfl
          have := h1.eq_trans d a b hda hab
          rw [h1.swap b d, hbd] at this; cases this
    | lt =>
      cases hbd : c1 b d with
      | gt => rw [hbd] at l2; exact absurd rfl l2
      | lt =>
        have hle := h1.le_trans a b d (by simp [hab]) (by simp [hbd])
        cases had : c1 a d with
        | gt => exact absurd had hle
        | lt => simp
        | eq =>
          have hda : c1 d a = .eq := by rw [h1.swap a d, had]; rfl
          have hle2 := h1.le_trans d a b (by simp [hda]) (by simp [hab])
          rw [h1.swap b d, hbd] at hle2; exact absurd rfl hle2
      | eq =>
        have hle := h1.le_trans a b d (by simp [hab]) (by simp [hbd])
        cases had : c1 a d with
        | gt => exact absurd had hle
        | lt => simp
        | eq =>
          have hdb : c1 d b = .eq := by rw [h1.swap b d, hbd]; rfl
          have := h1.eq_trans a d b had hdb
          rw [hab] at this; cases this

theorem const_eq_laws {α} : OrdLaws (fun (_ _ : α) => Ordering.eq) := ⟨fun _ _ => rfl, fun _ _ _ _ _ => by simp⟩

theorem cmpRows_laws (items : List ((Row → Val) × Bool × Bool)) : OrdLaws (cmpRows items) := by
  induction items with
  | nil => exact const_eq_laws
  | cons it items ih =>
    obtain ⟨f, d, nf⟩ := it
    have := lex_laws (fun a b => cmpKey d nf (f a) (f b)) (cmpRows items) ((cmpKey_laws d nf).on f) ih
    have e : ∀ a b, cmpRows ((f, d, nf) :: items) a b = lexThen (cmpKey d nf (f a) (f b)) (cmpRows items a b) := by
      intro a b
      simp only [cmpRows, lexThen]
      cases cmpKey d nf (f a) (f b) <;> rfl
    refine ⟨?_, ?_⟩
    · intro a b; rw [e, e]; exact this.swap a b
    · intro a b x; rw [e, e, e]; exact this.le_trans a b x

/-- two sorted arrangements of one bag under a comparison that separates distinct elements coincide -/
theorem sorted_perm_unique {α} (c : α → α → Ordering) (hl : OrdLaws c) (l1 l2 : List α)
    (htot : ∀ a ∈ l1, ∀ b ∈ l1, c a b = .eq → a = b)
    (h1 : l1.Pairwise (fun a b => c a b ≠ .gt)) (h2 : l2.Pairwise (fun a b => c a b ≠ .gt)) (hp : l1.Perm l2) : l1 = l2 := by
  induction l1 generalizing l2 with
  | nil => exact (List.nil_perm.1 hp).symm ▸ rfl
  | cons a l1 ih =>
    cases l2 with
    | nil => exact absurd hp.length_eq (by simp)
    | cons b l2 =>
      rw [List.pairwise_cons] at h1 h2
      have hab : a = b := by
        have hb_mem : b ∈ a :: l1 := hp.mem_iff.2 (by simp)
        have ha_mem : a ∈ b :: l2 := hp.mem_iff.1 (by simp)
        by_cases e : a = b
        · exact e
        · have l_ab : c a b ≠ .gt := by
            simp only [List.mem_cons] at hb_mem
            rcases hb_mem with rfl | hb
            · exact absurd rfl e
            · exact h1.1 b hb
          have l_ba : c b a ≠ .gt := by
            simp only [List.mem_cons] at ha_mem
            rcases ha_mem with rfl | ha
            · exact absurd rfl e
            · exact h2.1 a ha
          rw [hl.swap a b] at l_ba
          have : c a b = .eq := by cases h : c a b <;> simp_all [Ordering.swap]
          exact htot a (by simp) b hb_mem this
      subst hab
      congr 1
      exact ih l2 (fun x hx y hy => htot x (by simp [hx]) y (by simp [hy])) h1.2 h2.2 hp.cons_inv

theorem mergeSort_sorted_of_laws {α} (c : α → α → Ordering) (hl : OrdLaws c) (l : List α) :
    (stableSort (fun a b => c a b != .gt) l).Pairwise (fun a b => c a b ≠ .gt) := by
  have := pairwise_stableSort (le := fun a b => c a b != .gt)
    (fun a b d h1 h2 => by
      simp only [bne_iff_ne, ne_eq] at h1 h2 ⊢
      exact hl.le_trans a b d h1 h2)
    (fun a b => by
      simp only [Bool.or_eq_true, bne_iff_ne, ne_eq]
      rw [hl.swap a b]
      cases c a b <;> simp [Ordering.swap]) l
  exact List.Pairwise.imp (fun h => by simpa using h) this

/-- sorting two arrangements of one bag by a separating comparison gives the same sequence -/
theorem mergeSort_perm_unique {α} (c : α → α → Ordering) (hl : OrdLaws c) (l1 l2 : List α) (hp : l1.Perm l2)
    (htot : ∀ a ∈ l1, ∀ b ∈ l1, c a b = .eq → a = b) :
    stableSort (fun a b => c a b != .gt) l1 = stableSort (fun a b => c a b != .gt) l2 := by
  apply sorted_perm_unique c hl
  · intro a ha b hb
    exact htot a ((stableSort_perm _ _).mem_iff.1 ha) b ((stableSort_perm _ _).mem_iff.1 hb)
  · exact mergeSort_sorted_of_laws c hl l1
  · exact mergeSort_sorted_of_laws c hl l2
  · exact (stableSort_perm _ _).trans (hp.trans (stableSort_perm _ _).symm)


/-! ### steps of the DAG; plain selects -/
def Out.src : Out → Nat
  | .col c _ => c
  | .agg _ c _ => c

def Out.isCol : Out → Bool
  | .col _ _ => true
  | .agg _ _ _ => false

theorem selectWhere_none (rows : List Row) : selectWhere none none rows = rows := by
  unfold selectWhere
  have h1 : rows.filter (keeps none) = rows := by rw [List.filter_eq_self]; intro a _; rfl
  have h2 : projRow none = id := by funext r; rfl
  rw [h1, h2, List.map_id]

theorem scan_table_id (rows : List Row) : scan (.table rows) none none none = rows := by
  rw [scan_spec]; simp only [takeCap, selectWhere_none]

theorem exec_scan (c : Cfg) (t : Tbl) : exec c t .scan = some t := by
  simp only [exec, scan_table_id]

theorem withOffset_zero (t : Tbl) : withOffset 0 t = t := by
  simp [withOffset, applyOffset]

theorem projectFilter_none_cap (cond : Option (Row → Val)) (projs : Option (Row → Row)) (rows : List Row) :
    projectFilter cond projs none rows = selectWhere cond projs rows := by
  unfold projectFilter
  rw [projectFilterLoop_spec _ _ _ _ [] (by intro n h; cases h)]
  rfl

theorem keeps_where (w : Option Expr) (hw : ∀ e, w = some e → wfExpr e) (r : Row) :
    keeps (w.map (condFn stdCfg)) r = whereHolds w r := by
  cases w with
  | none => rfl
  | some e => simp only [Option.map, keeps, condFn, whereHolds, eval_spec r e (hw e rfl), Option.getD_some]

/-- the Join step (no joins) over the Scan leaf: WHERE, then the projections by name -/
theorem exec_join_scan (t : Tbl) (w : Option Expr) (hw : ∀ e, w = some e → wfExpr e) (projs : List NProj) (idxs : List Nat)
    (hres : resolve t.cols (projs.map (·.src)) = some idxs) :
    exec stdCfg t (.join .scan w projs none 0)
      = some (if projs.isEmpty then ⟨t.cols, t.rows.filter (whereHolds w)⟩
              else ⟨projs.map (·.alias), (t.rows.filter (whereHolds w)).map (pickCols idxs)⟩) := by
  simp only [exec, scan_table_id, Option.bind_some, execJoin]
  have hk : keeps (w.map (condFn stdCfg)) = whereHolds w := funext (keeps_where w hw)
  by_cases hp : projs.isEmpty = true
  · simp only [hp, Bool.and_true, if_true]
    cases w with
    | none =>
      simp only [Option.isNone_none, if_true, withOffset_zero]
      congr 1
      have : t.rows.filter (whereHolds none) = t.rows := by
        rw [List.filter_eq_self]; intro a _; rfl
      rw [this]
    | some e =>
      simp only [Option.isNone_some, Bool.false_eq_true, if_false, projectFilterTbl, hp, if_true, capOf, Option.map_none,
        projectFilter_none_cap, Option.map_some, withOffset_zero]
      have h2 : projRow none = id := by funext r; rfl
      simp only [selectWhere, h2, List.map_id, ← hk, Option.map_some]
  · have hp' : projs.isEmpty = false := by simpa using hp
    simp only [hp', Bool.and_false, Bool.false_eq_true, if_false, projectFilterTbl, hres, capOf, Option.map_none,
      projectFilter_none_cap, Option.map_some, withOffset_zero]
    have h3 : projRow (some (pickCols idxs)) = pickCols idxs := by funext r; rfl
    simp only [selectWhere, h3, hk]

/-- the aggregate table's column tuple for a grouped query -/
def aggTableCols (q : Query) (keys : List Nat) : List String :=
  aggCols (groupSpec q.cols keys) (aggSpecs q) q.having.isSome

/-- Preconditions of `single_table_query_spec`.  Three of them exclude KNOWN executor / planner defects that are
    expressible in this fragment (each has a `…_counterexample` theorem in Properties/C11.lean):
    `aliasesNodup` (duplicate output names), `noDistinctOrder` (DISTINCT loses ORDER BY), `noShadow` (an output alias
    that re-uses the name of a different table column hijacks ORDER BY in the Sort sink). -/
structure QWF (q : Query) : Prop where
  colsNodup : q.cols.Nodup
  srcInRange : ∀ o ∈ q.outs, Out.src o < q.cols.length
  outsNonempty : q.outs ≠ []
  whereWF : ∀ e, q.where_ = some e → wfExpr e
  aliasesNodup : (q.outs.map Out.alias).Nodup
  noDistinctOrder : q.distinct = true → q.order = []
  limitNeedsOrder : q.order = [] → q.limit = none ∧ q.offset = 0
  orderInRange : ∀ it ∈ q.order, it.1 < q.outs.length
  plainCols : q.group = none → (∀ o ∈ q.outs, Out.isCol o = true) ∧ q.having = none
  noShadow : q.group = none → ∀ o ∈ q.outs, ∀ k (hk : k < q.cols.length), Out.alias o = q.cols[k] → Out.src o = k
  grouped : ∀ keys, q.group = some keys →
    keys.Nodup ∧ (∀ k ∈ keys, k < q.cols.length) ∧ (∀ o ∈ q.outs, Out.isCol o = true → Out.src o ∈ keys)
    ∧ (∀ h, q.having = some h → h.src < q.cols.length) ∧ (aggTableCols q keys).Nodup

theorem pickCols_map {α} (xs : List α) (f : α → Nat) (r : Row) : pickCols (xs.map f) r = xs.map fun x => Sem.getCol r (f x) := by
  simp [pickCols, List.map_map, Function.comp]

def projA (q : Query) (r : Row) : Row := q.outs.map fun o => Sem.getCol r (Out.src o)

theorem finalProjs_plain (q : Query) (hg : q.group = none) :
    finalProjs q = q.outs.map fun o => ⟨colName q.cols (Out.src o), Out.alias o⟩ := by
  simp only [finalProjs, hg]
  apply List.map_congr_left
  intro o _
  cases o <;> rfl

theorem resolve_plain (q : Query) (h : QWF q) (hg : q.group = none) :
    resolve q.cols ((finalProjs q).map (·.src)) = some (q.outs.map Out.src) := by
  rw [finalProjs_plain q hg, List.map_map]
  apply resolve_map
  intro o ho
  have hi := h.srcInRange o ho
  simp only [Function.comp]
  rw [colName_get _ _ hi]
  exact colIdx_nodup _ h.colsNodup _ hi

theorem finalProjs_alias (q : Query) : (finalProjs q).map (·.alias) = q.outs.map Out.alias := by
  unfold finalProjs
  cases q.group with
  | none => simp only [List.map_map]; apply List.map_congr_left; intro o _; cases o <;> rfl
  | some keys => simp only [List.map_map]; apply List.map_congr_left; intro o _; cases o <;> rfl

theorem finalProjs_isEmpty (q : Query) (h : q.outs ≠ []) : (finalProjs q).isEmpty = false := by
  have : (finalProjs q).length = q.outs.length := by
    unfold finalProjs; cases q.group <;> simp
  cases hf : finalProjs q with
  | nil => rw [hf] at this; simp at this; exact absurd (List.eq_nil_of_length_eq_zero this.symm) h
  | cons _ _ => rfl

theorem body_plain (q : Query) (h : QWF q) (hg : q.group = none) (rows : List Row) :
    q.body rows = (rows.filter (whereHolds q.where_)).map (projA q) := by
  simp only [Query.body, hg, projA]
  apply List.map_congr_left
  intro r _
  apply List.map_congr_left
  intro o ho
  have := (h.plainCols hg).1 o ho
  cases o with
  | col c a => rfl
  | agg f c a => simp [Out.isCol] at this

theorem orderBy_nil (rows : List Row) : orderBy (orderItems []) none 0 rows = rows := by
  simp only [orderBy, orderItems, List.map_nil, limitOffset, List.drop_zero]
  apply stableSort_of_pairwise
  exact List.pairwise_of_forall (by intro a b; rfl)

/-- shape A: SELECT cols FROM t [WHERE] -/
theorem spec_plain_unordered (q : Query) (h : QWF q) (rows : List Row) (hg : q.group = none) (ho : q.order = [])
    (hd : q.distinct = false) :
    exec stdCfg ⟨q.cols, rows⟩ (plan q) = some ⟨q.outs.map Out.alias, q.eval rows⟩ := by
  obtain ⟨hl, hoff⟩ := h.limitNeedsOrder ho
  have hpl : plan q = .join .scan q.where_ (finalProjs q) none 0 := by
    simp [plan, hg, ho, hd, hl, hoff]
  rw [hpl, exec_join_scan ⟨q.cols, rows⟩ q.where_ h.whereWF (finalProjs q) _ (resolve_plain q h hg)]
  simp only [finalProjs_isEmpty q h.outsNonempty, Bool.false_eq_true, if_false, finalProjs_alias]
  simp only [Query.eval, hd, Bool.false_eq_true, if_false, ho, hl, hoff, orderBy_nil, body_plain q h hg]
  have : pickCols (q.outs.map Out.src) = projA q := by
    funext r; simp [pickCols, projA, List.map_map]
  rw [this]


/-! ### the Sort step; ordered plain selects -/
theorem cut_offset_eq (limit : Option Nat) (offset : Nat) (rows : List Row) :
    applyOffset offset (cutRows limit offset rows) = limitOffset limit offset rows := by
  have := slice_limit_offset limit offset rows
  cases limit with
  | none => rfl
  | some n => simpa [sliceLimitOffset, cutRows, applyOffset] using this

theorem limitOffset_map (limit : Option Nat) (offset : Nat) (f : Row → Row) (rows : List Row) :
    (limitOffset limit offset rows).map f = limitOffset limit offset (rows.map f) := by
  cases limit with
  | none => simp [limitOffset, List.map_drop]
  | some n => simp [limitOffset, List.map_drop, List.map_take]

/-- the Sort step: extend every row by the projections, sort by the keys resolved in the extended tuple, slice, keep
    the projection part = ORDER BY … LIMIT … OFFSET on the projected rows, when the resolved keys read the projected
    values -/
theorem execSort_spec (src : Tbl) (key : List (String × Bool × Bool)) (projs : List NProj) (limit : Option Nat) (offset : Nat)
    (pIdx kIdx : List Nat)
    (hp : resolve src.cols (projs.map (·.src)) = some pIdx)
    (hk : resolve (src.cols ++ projs.map (·.alias)) (key.map (·.1)) = some kIdx)
    (hne : projs.isEmpty = false) (hw : ∀ r ∈ src.rows, r.length = src.cols.length) (hlen : pIdx.length = projs.length)
    (items' : List ((Row → Val) × Bool × Bool))
    (hcmp : ∀ r1 ∈ src.rows, ∀ r2 ∈ src.rows,
      sortKeyCmp stdCfg (sortItems kIdx key) (r1 ++ pickCols pIdx r1) (r2 ++ pickCols pIdx r2)
        = cmpRows items' (pickCols pIdx r1) (pickCols pIdx r2)) :
    execSort stdCfg src key projs limit offset
      = some ⟨projs.map (·.alias), orderBy items' limit offset (src.rows.map (pickCols pIdx))⟩ := by
  simp only [execSort, hp, hk, hne, Bool.false_eq_true, if_false, withOffset]
  congr 2
  let π : Row → Row := fun r => (r.drop src.cols.length).take projs.length
  have hπ : ∀ r ∈ src.rows, π (r ++ pickCols pIdx r) = pickCols pIdx r := by
    intro r hr
    show ((r ++ pickCols pIdx r).drop src.cols.length).take projs.length = _
    rw [List.drop_left' (hw r hr), List.take_of_length_le (by simp [pickCols, hlen])]
  show applyOffset offset ((cutRows limit offset _).map π) = _
  have e1 : ∀ l : List Row, applyOffset offset ((cutRows limit offset l).map π) = (applyOffset offset (cutRows limit offset l)).map π := by
    intro l; simp [applyOffset, List.map_drop]
  rw [e1, cut_offset_eq, limitOffset_map]
  unfold orderBy
  congr 1
  unfold sortRows
  rw [map_stableSort (s := fun a b => cmpRows items' a b != .gt)]
  · congr 1
    rw [List.map_map]
    apply List.map_congr_left
    intro r hr
    exact hπ r hr
  · intro a ha b hb
    simp only [List.mem_map] at ha hb
    obtain ⟨r1, hr1, rfl⟩ := ha
    obtain ⟨r2, hr2, rfl⟩ := hb
    show (sortKeyCmp stdCfg (sortItems kIdx key) _ _ != .gt) = (cmpRows items' (π _) (π _) != .gt)
    rw [hπ r1 hr1, hπ r2 hr2, hcmp r1 hr1 r2 hr2]

theorem sortCmp_aligned (order : List (Nat × Bool × Bool)) (kidx : Nat × Bool × Bool → Nat)
    (name : Nat × Bool × Bool → String) (A B a b : Row)
    (h : ∀ it ∈ order, Sem.getCol A (kidx it) = Sem.getCol a it.1 ∧ Sem.getCol B (kidx it) = Sem.getCol b it.1) :
    sortKeyCmp stdCfg (sortItems (order.map kidx) (order.map fun it => (name it, it.2.1, it.2.2))) A B
      = cmpRows (orderItems order) a b := by
  induction order with
  | nil => rfl
  | cons it order ih =>
    obtain ⟨p, d, nf⟩ := it
    have h0 := h (p, d, nf) (by simp)
    have ih' := ih (fun x hx => h x (by simp [hx]))
    simp only [sortItems, List.map_cons, List.zip_cons_cons, sortKeyCmp, orderItems, cmpRows, ordered_key_spec] at ih' ⊢
    rw [h0.1, h0.2]
    cases hc : cmpKey d nf (Sem.getCol a p) (Sem.getCol b p) with
    | eq => simpa [sortItems, orderItems] using ih'
    | lt => rfl
    | gt => rfl

theorem getCol_append_left (r x : Row) (c : Nat) (h : c < r.length) : Sem.getCol (r ++ x) c = Sem.getCol r c := by
  simp [Sem.getCol, List.getD, List.getElem?_append_left h]

theorem getCol_append_right (r x : Row) (j : Nat) : Sem.getCol (r ++ x) (r.length + j) = Sem.getCol x j := by
  simp [Sem.getCol, List.getD, List.getElem?_append_right]

theorem colIdx_none_iff (cols : List String) (n : String) (h : colIdx cols n = none) : ¬ n ∈ cols := by
  induction cols with
  | nil => simp
  | cons c cs ih =>
    simp only [colIdx] at h
    cases hc : colIdx cs n with
    | some j => rw [hc] at h; cases h
    | none =>
      rw [hc] at h
      by_cases e : c = n
      · rw [if_pos e] at h; cases h
      · simp only [List.mem_cons, not_or]; exact ⟨fun x => e x.symm, ih hc⟩

/-- where the key of a plain select (a table column's name) lands in the Sort sink `cols ++ aliases` -/
def keyIdxPlain (q : Query) (c : Nat) : Nat :=
  match colIdx (q.outs.map Out.alias) (colName q.cols c) with
  | some j => q.cols.length + j
  | none => c

theorem keyIdxPlain_resolves (q : Query) (h : QWF q) (c : Nat) (hc : c < q.cols.length) :
    colIdx (q.cols ++ q.outs.map Out.alias) (colName q.cols c) = some (keyIdxPlain q c) := by
  unfold keyIdxPlain
  cases hj : colIdx (q.outs.map Out.alias) (colName q.cols c) with
  | some j => exact colIdx_append_right _ _ _ _ hj
  | none =>
    rw [colIdx_append_left _ _ _ (colIdx_none_iff _ _ hj), colName_get _ _ hc]
    exact colIdx_nodup _ h.colsNodup _ hc

theorem keyIdxPlain_value (q : Query) (h : QWF q) (hg : q.group = none) (c : Nat) (hc : c < q.cols.length) (r : Row)
    (hr : r.length = q.cols.length) :
    Sem.getCol (r ++ projA q r) (keyIdxPlain q c) = Sem.getCol r c := by
  unfold keyIdxPlain
  cases hj : colIdx (q.outs.map Out.alias) (colName q.cols c) with
  | none => exact getCol_append_left _ _ c (by omega)
  | some j =>
    show Sem.getCol (r ++ projA q r) (q.cols.length + j) = _
    rw [← hr, getCol_append_right]
    obtain ⟨hjl, hje⟩ := colIdx_lt _ _ _ hj
    simp only [List.length_map] at hjl
    have hje' : Out.alias q.outs[j] = q.cols[c] := by
      rw [List.getElem?_map, List.getElem?_eq_getElem hjl] at hje
      simp only [Option.map_some, Option.some.injEq] at hje
      rw [hje, colName_get _ _ hc]
    have hs := h.noShadow hg q.outs[j] (List.getElem_mem hjl) c hc hje'
    simp only [projA, Sem.getCol, List.getD, List.getElem?_map, List.getElem?_eq_getElem hjl, Option.map_some, Option.getD_some]
    rw [hs]

theorem getCol_projA (q : Query) (r : Row) (p : Nat) (hp : p < q.outs.length) :
    Sem.getCol (projA q r) p = Sem.getCol r (Out.src q.outs[p]) := by
  simp [projA, Sem.getCol, List.getD, List.getElem?_map, List.getElem?_eq_getElem hp]

theorem exec_sort_step (c : Cfg) (t : Tbl) (dep : Step) (key : List (String × Bool × Bool)) (projs : List NProj)
    (limit : Option Nat) (offset : Nat) :
    exec c t (.sort dep key projs limit offset) = (exec c t dep).bind fun src => execSort c src key projs limit offset := rfl

theorem exec_aggregate_step (c : Cfg) (t : Tbl) (dep : Step) (group : List (String × String)) (aggs : List AggSpec)
    (hav : Option HavingSpec) (projs : List NProj) (limit : Option Nat) (offset : Nat) :
    exec c t (.aggregate dep group aggs hav projs limit offset)
      = (exec c t dep).bind fun src => execAggregate c src group aggs hav projs limit offset := rfl

theorem sortKey_plain (q : Query) (h : QWF q) (hg : q.group = none) :
    sortKey q = q.order.map fun it => (colName q.cols (Out.src (q.outs.getD it.1 (.col 0 ""))), it.2.1, it.2.2) := by
  unfold sortKey
  apply List.map_congr_left
  intro it hit
  obtain ⟨p, d, nf⟩ := it
  have hp := h.orderInRange _ hit
  simp only [hg, List.getElem?_eq_getElem hp, List.getD, Option.getD_some]
  have := (h.plainCols hg).1 _ (List.getElem_mem hp)
  cases ho : q.outs[p] with
  | col c a => rfl
  | agg f c a => rw [ho] at this; simp [Out.isCol] at this

/-- shape B: SELECT cols FROM t [WHERE] ORDER BY … [LIMIT … OFFSET …]: the same SEQUENCE as the reference -/
theorem spec_plain_ordered (q : Query) (h : QWF q) (rows : List Row) (hrows : ∀ r ∈ rows, r.length = q.cols.length)
    (hg : q.group = none) (ho : q.order ≠ []) :
    exec stdCfg ⟨q.cols, rows⟩ (plan q) = some ⟨q.outs.map Out.alias, q.eval rows⟩ := by
  have hd : q.distinct = false := by
    cases hdd : q.distinct with
    | false => rfl
    | true => exact absurd (h.noDistinctOrder hdd) ho
  have hoe : q.order.isEmpty = false := by
    cases hq : q.order with
    | nil => exact absurd hq ho
    | cons _ _ => rfl
  have hpl : plan q = .sort (.join .scan q.where_ [] none 0) (sortKey q) (finalProjs q) q.limit q.offset := by
    simp [plan, hg, hd, hoe]
  rw [hpl, exec_sort_step]
  rw [exec_join_scan ⟨q.cols, rows⟩ q.where_ h.whereWF [] [] rfl]
  simp only [List.isEmpty_nil, if_true, Option.bind_some]
  let kept := rows.filter (whereHolds q.where_)
  let kfun : Nat × Bool × Bool → Nat := fun it => keyIdxPlain q (Out.src (q.outs.getD it.1 (.col 0 "")))
  have hsrc : ∀ it ∈ q.order, Out.src (q.outs.getD it.1 (.col 0 "")) < q.cols.length := by
    intro it hit
    have hp := h.orderInRange _ hit
    simp only [List.getD, List.getElem?_eq_getElem hp, Option.getD_some]
    exact h.srcInRange _ (List.getElem_mem hp)
  have hpick : pickCols (q.outs.map Out.src) = projA q := by
    funext r; simp [pickCols, projA, List.map_map]
  rw [execSort_spec ⟨q.cols, kept⟩ (sortKey q) (finalProjs q) q.limit q.offset (q.outs.map Out.src) (q.order.map kfun)
      (resolve_plain q h hg) ?_ (finalProjs_isEmpty q h.outsNonempty) ?_ ?_ (orderItems q.order) ?_]
  · simp only [finalProjs_alias, Query.eval, hd, Bool.false_eq_true, if_false, body_plain q h hg, hpick]
    rfl
  · -- keys resolve in cols ++ aliases
    rw [finalProjs_alias, sortKey_plain q h hg, List.map_map]
    apply resolve_map
    intro it hit
    exact keyIdxPlain_resolves q h _ (hsrc it hit)
  · intro r hr
    exact hrows r (List.mem_filter.1 hr).1
  · simp [finalProjs, hg]
  · intro r1 hr1 r2 hr2
    rw [sortKey_plain q h hg, hpick]
    apply sortCmp_aligned q.order kfun
    intro it hit
    have hp := h.orderInRange _ hit
    have e : ∀ r, r ∈ kept → Sem.getCol (r ++ projA q r) (kfun it) = Sem.getCol (projA q r) it.1 := by
      intro r hr
      rw [getCol_projA q r it.1 hp]
      have := keyIdxPlain_value q h hg _ (hsrc it hit) r (hrows r (List.mem_filter.1 hr).1)
      simp only [kfun, List.getD, List.getElem?_eq_getElem hp, Option.getD_some] at this ⊢
      exact this
    exact ⟨e r1 hr1, e r2 hr2⟩


/-! ### the aggregate table -/
theorem pyExtremum_eq (dir : Ordering) (vs : List Val) : pyExtremum dir vs = extremum dir vs := by
  cases vs <;> rfl

/-- the ENV aggregates are the reference aggregates -/
theorem envAgg_eq (f : AggFn) (vs : List Val) : envAgg stdCfg f vs = f.apply vs := by
  have s := agg_functions_spec vs
  cases f with
  | sum => exact s.2.1
  | count => exact s.1
  | min =>
    simp only [envAgg, envMin, filterNulls, stdCfg, AggFn.apply, nonNull, and_true, pyExtremum_eq]
    split
    · rename_i h; rw [h]; rfl
    · rfl
  | max =>
    simp only [envAgg, envMax, filterNulls, stdCfg, AggFn.apply, nonNull, and_true, pyExtremum_eq]
    split
    · rename_i h; rw [h]; rfl
    · rfl

theorem aggFn_perm (f : AggFn) (vs ws : List Val) (h : List.Perm vs ws) : f.apply vs = f.apply ws := by
  rw [← envAgg_eq, ← envAgg_eq]
  have := env_aggs_perm vs ws h
  cases f with
  | sum => exact this.2.1
  | count => exact this.1
  | min => exact this.2.2.1
  | max => exact this.2.2.2

/-- what aggregate() returns for a table: the GROUP BY of the key-sorted rows; one row of aggregates over nothing for an
    empty input without GROUP BY -/
def aggTbl (keyOf : Row → Key) (aggF : List Row → Row) (hasGroup : Bool) (R : List Row) : List Row :=
  if R = [] then (if hasGroup then [] else [aggF []]) else groupAgg keyOf aggF (sortByGroupKey keyOf R)

theorem aggregate_eq (keyOf : Row → Key) (aggF : List Row → Row) (hasGroup : Bool) (R : List Row) :
    aggregate stdCfg keyOf aggF hasGroup none none R = aggTbl keyOf aggF hasGroup R := by
  unfold aggregate aggTbl
  by_cases hR : R = []
  · subst hR
    have : sortByGroupKey keyOf [] = [] := rfl
    rw [this, if_pos rfl]
    cases hasGroup <;> rfl
  · rw [if_neg hR]
    have hs : sortByGroupKey keyOf R ≠ [] := by
      intro e
      have := (sortByGroupKey_perm keyOf R).length_eq
      rw [e] at this
      exact hR (List.eq_nil_of_length_eq_zero this.symm)
    rw [aggregate_runs_spec keyOf aggF _ hs hasGroup none]
    exact runs_groups keyOf aggF _ (sortByGroupKey_clustered keyOf R)

/-- reference shape of the aggregate table: one row per group, key values then the aggregate values -/
def semAggTable (keys : List Nat) (aggF : List Row → Row) (R : List Row) : List Row :=
  (groupsOf keys R).map fun g => pickCols keys (g.headD []) ++ aggF g

theorem dedup_const {α} [DecidableEq α] (k : α) (l : List α) (hne : l ≠ []) (h : ∀ x ∈ l, x = k) : dedup l = [k] := by
  have := dedup_const_prefix k l [] h hne (by simp)
  simpa [dedup] using this

theorem aggTbl_perm_sem (keys : List Nat) (aggF : List Row → Row) (hagg : ∀ a b, List.Perm a b → aggF a = aggF b)
    (R : List Row) :
    List.Perm (aggTbl (pickCols keys) aggF (!keys.isEmpty) R) (semAggTable keys aggF R) := by
  unfold aggTbl semAggTable groupsOf
  by_cases hk : keys = []
  · subst hk
    simp only [List.isEmpty_nil, Bool.not_true, Bool.false_eq_true, if_false, if_true, List.map_cons, List.map_nil]
    by_cases hR : R = []
    · subst hR; simp [pickCols]
    · rw [if_neg hR]
      have hs : sortByGroupKey (pickCols []) R ≠ [] := by
        intro e
        have := (sortByGroupKey_perm (pickCols []) R).length_eq
        rw [e] at this
        exact hR (List.eq_nil_of_length_eq_zero this.symm)
      have hd : dedup ((sortByGroupKey (pickCols []) R).map (pickCols [])) = [[]] :=
        dedup_const [] _ (by simpa using hs) (by intro x hx; obtain ⟨_, _, rfl⟩ := List.mem_map.1 hx; rfl)
      simp only [groupAgg, hd, List.map_cons, List.map_nil]
      have hf : (sortByGroupKey (pickCols []) R).filter (fun r => pickCols [] r = []) = sortByGroupKey (pickCols []) R := by
        rw [List.filter_eq_self]; intro a _; simp [pickCols]
      simp only [hf]
      have e : aggF (sortByGroupKey (pickCols []) R) = aggF R := hagg _ _ (sortByGroupKey_perm _ R)
      rw [e]
      simp [pickCols]
  · have hke : keys.isEmpty = false := by cases keys <;> simp_all
    simp only [hke, Bool.not_false, if_true, hk, if_false]
    by_cases hR : R = []
    · subst hR; simp [dedup]
    · rw [if_neg hR]
      refine (groupAgg_perm (pickCols keys) aggF hagg _ R (sortByGroupKey_perm _ R)).trans ?_
      unfold groupAgg
      rw [List.map_map]
      have hk' : (fun r : Row => keys.map (Sem.getCol r)) = pickCols keys := by funext r; rfl
      rw [hk']
      apply List.Perm.of_eq
      apply List.map_congr_left
      intro k hkm
      rw [mem_dedup] at hkm
      obtain ⟨r, hr, rfl⟩ := List.mem_map.1 hkm
      show pickCols keys r ++ aggF (R.filter fun x => decide (pickCols keys x = pickCols keys r))
        = pickCols keys ((R.filter fun x => decide (pickCols keys x = pickCols keys r)).headD [])
          ++ aggF (R.filter fun x => decide (pickCols keys x = pickCols keys r))
      congr 1
      have hfne : R.filter (fun x => decide (pickCols keys x = pickCols keys r)) ≠ [] := by
        intro e
        have : r ∈ R.filter (fun x => decide (pickCols keys x = pickCols keys r)) := by simp [List.mem_filter, hr]
        rw [e] at this; cases this
      cases hf : R.filter (fun x => decide (pickCols keys x = pickCols keys r)) with
      | nil => exact absurd hf hfne
      | cons x xs =>
        have : x ∈ R.filter (fun x => decide (pickCols keys x = pickCols keys r)) := by rw [hf]; simp
        simp only [List.mem_filter, decide_eq_true_eq] at this
        simp only [List.headD_cons]
        exact this.2.symm


/-! ### grouped queries: positions and values in the aggregate table -/
/-- the aggregate outputs of a query, in SELECT-list order -/
def aggOuts (q : Query) : List (AggFn × Nat × String) :=
  q.outs.filterMap fun o => match o with
    | .col _ _ => none
    | .agg f c a => some (f, c, a)

theorem aggSpecs_eq (q : Query) : aggSpecs q = (aggOuts q).map fun t => ⟨t.1, colName q.cols t.2.1, t.2.2⟩ := by
  unfold aggSpecs aggOuts
  rw [List.map_filterMap]
  congr 1
  funext o
  cases o <;> rfl

theorem dedup_of_nodup {α} [DecidableEq α] (l : List α) (h : l.Nodup) : dedup l = l := by
  induction l with
  | nil => rfl
  | cons a l ih =>
    rw [List.nodup_cons] at h
    simp only [dedup, ih h.2]
    congr 1
    rw [List.filter_eq_self]
    intro x hx
    simp only [decide_eq_true_eq]
    intro e; subst e; exact h.1 hx

theorem nodup_of_map {α β} (f : α → β) (l : List α) (h : (l.map f).Nodup) : l.Nodup := by
  unfold List.Nodup at h ⊢
  rw [List.pairwise_map] at h
  exact List.Pairwise.imp (fun hne e => hne (by rw [e])) h

theorem aggSpecs_alias_sublist (outs : List Out) :
    ((outs.filterMap fun o => match o with
        | .col _ _ => none
        | .agg f c a => some (f, c, a)).map (·.2.2)).Sublist (outs.map Out.alias) := by
  induction outs with
  | nil => exact List.Sublist.slnil
  | cons o outs ih =>
    cases o with
    | col c a => simp only [List.filterMap_cons, List.map_cons]; exact List.Sublist.cons _ ih
    | agg f c a => simp only [List.filterMap_cons, List.map_cons, Out.alias]; exact List.Sublist.cons₂ _ ih

theorem aggSpecs_nodup (q : Query) (hal : (q.outs.map Out.alias).Nodup) : (aggSpecs q).Nodup := by
  rw [aggSpecs_eq]
  apply nodup_of_map (·.alias)
  rw [List.map_map]
  have : ((fun s : AggSpec => s.alias) ∘ fun t : AggFn × Nat × String => (⟨t.1, colName q.cols t.2.1, t.2.2⟩ : AggSpec)) = (·.2.2) := rfl
  rw [this]
  exact (aggSpecs_alias_sublist q.outs).nodup hal

theorem dedup_aggSpecs (q : Query) (h : QWF q) : dedup (aggSpecs q) = aggSpecs q :=
  dedup_of_nodup _ (aggSpecs_nodup q h.aliasesNodup)

/-- HAVING's value on a group, as the `_h` aggregation computes it -/
def havVals (q : Query) (g : List Row) : Row :=
  match q.having with
  | none => []
  | some h => [triVal (cmp3 h.op (h.fn.apply (colVals g h.src)) h.lit)]

/-- the aggregation values of a group: one per aggregate output, then `_h` -/
def aggVals (q : Query) (g : List Row) : Row :=
  ((aggOuts q).map fun t => t.1.apply (colVals g t.2.1)) ++ havVals q g

theorem aggVals_perm (q : Query) (a b : List Row) (h : List.Perm a b) : aggVals q a = aggVals q b := by
  unfold aggVals havVals colVals
  congr 1
  · apply List.map_congr_left
    intro t _
    exact aggFn_perm _ _ _ (h.map _)
  · cases q.having with
    | none => rfl
    | some hv => simp only []; rw [aggFn_perm _ _ _ (h.map _)]

theorem aggTableCols_eq (q : Query) (keys : List Nat) :
    aggTableCols q keys = (List.range keys.length).map groupName ++ (aggOuts q).map (·.2.2)
      ++ (if q.having.isSome then ["_h"] else []) := by
  simp only [aggTableCols, aggCols, groupSpec, aggSpecs_eq, List.map_map]
  rfl

/-- position of an output column in the aggregate table -/
def projIdx (q : Query) (keys : List Nat) : Out → Nat
  | .col c _ => posOf keys c
  | .agg _ _ a => keys.length + ((aggOuts q).map (·.2.2)).idxOf a

theorem idxOf_lt {α} [DecidableEq α] (l : List α) (a : α) (h : a ∈ l) : l.idxOf a < l.length :=
  List.idxOf_lt_length_iff.2 h

theorem mem_aggOuts (q : Query) (f : AggFn) (c : Nat) (a : String) (h : Out.agg f c a ∈ q.outs) : (f, c, a) ∈ aggOuts q := by
  unfold aggOuts
  rw [List.mem_filterMap]
  exact ⟨_, h, rfl⟩

/-- the name a final projection reads in the aggregate table -/
def srcName (keys : List Nat) : Out → String
  | .col c _ => groupName (posOf keys c)
  | .agg _ _ a => a

theorem finalProjs_grouped (q : Query) (keys : List Nat) (hg : q.group = some keys) :
    (finalProjs q).map (·.src) = q.outs.map (srcName keys) := by
  simp only [finalProjs, hg, List.map_map]
  apply List.map_congr_left
  intro o _
  cases o <;> rfl

theorem names_at_key (q : Query) (keys : List Nat) (i : Nat) (hi : i < keys.length) :
    (aggTableCols q keys)[i]? = some (groupName i) := by
  rw [aggTableCols_eq, List.append_assoc, List.getElem?_append_left (by simpa using hi)]
  simp [List.getElem?_map, List.getElem?_range hi]

theorem names_at_agg (q : Query) (keys : List Nat) (j : Nat) (hj : j < (aggOuts q).length) :
    (aggTableCols q keys)[keys.length + j]? = some ((aggOuts q)[j]).2.2 := by
  rw [aggTableCols_eq, List.append_assoc, List.getElem?_append_right (by simp)]
  simp only [List.length_map, List.length_range, Nat.add_sub_cancel_left]
  rw [List.getElem?_append_left (by simpa using hj)]
  simp [List.getElem?_map, List.getElem?_eq_getElem hj]

theorem colIdx_at (names : List String) (hn : names.Nodup) (i : Nat) (n : String) (h : names[i]? = some n) :
    colIdx names n = some i := by
  have hi : i < names.length := by
    rcases Nat.lt_or_ge i names.length with h' | h'
    · exact h'
    · rw [List.getElem?_eq_none h'] at h; cases h
  rw [List.getElem?_eq_getElem hi] at h
  have := colIdx_nodup names hn i hi
  simp only [Option.some.injEq] at h
  rw [h] at this; exact this

theorem aggAliases_nodup (q : Query) (keys : List Nat) (hn : (aggTableCols q keys).Nodup) :
    ((aggOuts q).map (·.2.2)).Nodup := by
  rw [aggTableCols_eq, List.append_assoc, List.nodup_append] at hn
  have := hn.2.1
  rw [List.nodup_append] at this
  exact this.1

theorem posOf_lt (keys : List Nat) (c : Nat) (h : c ∈ keys) : posOf keys c < keys.length :=
  List.idxOf_lt_length_iff.2 h

/-- the final projections of a grouped query resolve to their positions in the aggregate table -/
theorem resolve_grouped (q : Query) (h : QWF q) (keys : List Nat) (hg : q.group = some keys) :
    resolve (aggTableCols q keys) ((finalProjs q).map (·.src)) = some (q.outs.map (projIdx q keys)) := by
  obtain ⟨_, _, hkeys, _, hnd⟩ := h.grouped keys hg
  rw [finalProjs_grouped q keys hg]
  apply resolve_map
  intro o ho
  cases o with
  | col c a =>
    have hc : c ∈ keys := hkeys _ ho rfl
    exact colIdx_at _ hnd _ _ (names_at_key q keys _ (posOf_lt keys c hc))
  | agg f c a =>
    have hm : a ∈ (aggOuts q).map (·.2.2) := List.mem_map.2 ⟨_, mem_aggOuts q f c a ho, rfl⟩
    have hj := List.idxOf_lt_length_iff.2 hm
    simp only [List.length_map] at hj
    apply colIdx_at _ hnd
    show (aggTableCols q keys)[keys.length + ((aggOuts q).map (·.2.2)).idxOf a]? = some a
    rw [names_at_agg q keys _ hj]
    have := List.getElem_idxOf (x := a) (xs := (aggOuts q).map (·.2.2)) (by simpa using hj)
    simp only [List.getElem_map] at this
    rw [this]

/-- the aggregate-table row of a group: key values (read off any row `rep` of the group), then the aggregations -/
def aggRowOf (q : Query) (keys : List Nat) (rep : Row) (g : List Row) : Row := pickCols keys rep ++ aggVals q g

theorem getCol_pickCols (keys : List Nat) (r : Row) (i : Nat) (hi : i < keys.length) :
    Sem.getCol (pickCols keys r) i = Sem.getCol r keys[i] := by
  simp [pickCols, Sem.getCol, List.getD, List.getElem?_map, List.getElem?_eq_getElem hi]

/-- reading an output column out of the aggregate-table row gives the reference value of that output -/
theorem aggRow_value (q : Query) (h : QWF q) (keys : List Nat) (hg : q.group = some keys) (rep : Row) (g : List Row)
    (o : Out) (ho : o ∈ q.outs) :
    Sem.getCol (aggRowOf q keys rep g) (projIdx q keys o) = Out.eval rep g o := by
  obtain ⟨_, _, hkeys, _, hnd⟩ := h.grouped keys hg
  have hlen : (pickCols keys rep).length = keys.length := by simp [pickCols]
  cases o with
  | col c a =>
    have hc : c ∈ keys := hkeys _ ho rfl
    have hi := posOf_lt keys c hc
    simp only [aggRowOf, projIdx, Out.eval]
    rw [getCol_append_left _ _ _ (by omega), getCol_pickCols keys rep _ hi]
    congr 1
    exact List.getElem_idxOf hi
  | agg f c a =>
    have hmem := mem_aggOuts q f c a ho
    have hm : a ∈ (aggOuts q).map (·.2.2) := List.mem_map.2 ⟨_, hmem, rfl⟩
    have hj := List.idxOf_lt_length_iff.2 hm
    simp only [List.length_map] at hj
    obtain ⟨j', hj', hej'⟩ := List.getElem_of_mem hmem
    have hnd' := aggAliases_nodup q keys hnd
    have hidx : ((aggOuts q).map (·.2.2)).idxOf a = j' := by
      have := hnd'.idxOf_getElem j' (by simpa using hj')
      simp only [List.getElem_map, hej'] at this
      exact this
    simp only [aggRowOf, projIdx, Out.eval, hidx]
    rw [← hlen, getCol_append_right]
    simp only [aggVals]
    rw [getCol_append_left _ _ _ (by simpa using hj')]
    simp [Sem.getCol, List.getD, List.getElem?_map, List.getElem?_eq_getElem hj', hej']

theorem pick_aggRow (q : Query) (h : QWF q) (keys : List Nat) (hg : q.group = some keys) (rep : Row) (g : List Row) :
    pickCols (q.outs.map (projIdx q keys)) (aggRowOf q keys rep g) = q.outs.map (Out.eval rep g) := by
  rw [pickCols_map]
  apply List.map_congr_left
  intro o ho
  exact aggRow_value q h keys hg rep g o ho


/-! ### the Aggregate step of a grouped query -/
theorem range_map_getD (keys : List Nat) : (List.range keys.length).map (fun i => keys.getD i 0) = keys := by
  apply List.ext_getElem
  · simp
  · intro i h1 h2
    simp [List.getD, List.getElem?_eq_getElem (by simpa using h1 : i < keys.length)]

theorem resolve_groupSpec (q : Query) (h : QWF q) (keys : List Nat) (hg : q.group = some keys) :
    resolve q.cols ((groupSpec q.cols keys).map (·.2)) = some keys := by
  obtain ⟨_, hin, _, _, _⟩ := h.grouped keys hg
  have : (groupSpec q.cols keys).map (·.2) = (List.range keys.length).map fun i => colName q.cols (keys.getD i 0) := by
    simp [groupSpec, List.map_map, Function.comp]
  rw [this]
  have := resolve_map q.cols (List.range keys.length) (fun i => colName q.cols (keys.getD i 0)) (fun i => keys.getD i 0)
    (by
      intro i hi
      have hi' : i < keys.length := by simpa using hi
      have hk : keys.getD i 0 < q.cols.length := by
        simp only [List.getD, List.getElem?_eq_getElem hi', Option.getD_some]
        exact hin _ (List.getElem_mem hi')
      rw [colName_get _ _ hk]
      exact colIdx_nodup _ h.colsNodup _ hk)
  rw [this, range_map_getD]

theorem aggOuts_src_lt (q : Query) (h : QWF q) (t : AggFn × Nat × String) (ht : t ∈ aggOuts q) : t.2.1 < q.cols.length := by
  unfold aggOuts at ht
  rw [List.mem_filterMap] at ht
  obtain ⟨o, ho, he⟩ := ht
  cases o with
  | col c a => cases he
  | agg f c a =>
    simp only [Option.some.injEq] at he
    subst he
    exact h.srcInRange _ ho

theorem resolve_aggSpecs (q : Query) (h : QWF q) :
    resolve q.cols ((aggSpecs q).map (·.src)) = some ((aggOuts q).map (·.2.1)) := by
  rw [aggSpecs_eq, List.map_map]
  apply resolve_map
  intro t ht
  have hc := aggOuts_src_lt q h t ht
  simp only [Function.comp]
  rw [colName_get _ _ hc]
  exact colIdx_nodup _ h.colsNodup _ hc

/-- the resolved HAVING aggregation -/
def havResolved (q : Query) : Option (HavingSpec × Nat) :=
  q.having.map fun hv => (⟨hv.fn, colName q.cols hv.src, hv.op, hv.lit⟩, hv.src)

theorem resolveHav_eq (q : Query) (h : QWF q) (keys : List Nat) (hg : q.group = some keys) :
    resolveHav q.cols (havingSpec q) = some (havResolved q) := by
  obtain ⟨_, _, _, hhav, _⟩ := h.grouped keys hg
  unfold havingSpec havResolved
  cases hh : q.having with
  | none => rfl
  | some hv =>
    have hc := hhav hv hh
    simp only [Option.map_some, resolveHav]
    rw [colName_get _ _ hc, colIdx_nodup _ h.colsNodup _ hc]
    rfl

theorem zip_map_map {α β γ} (l : List α) (f : α → β) (g : α → γ) : (l.map f).zip (l.map g) = l.map fun a => (f a, g a) := by
  induction l with
  | nil => rfl
  | cons a l ih => simp [ih]

theorem aggRow_eq (q : Query) (g : List Row) :
    aggRow stdCfg ((aggSpecs q).zip ((aggOuts q).map (·.2.1))) (havResolved q) g = aggVals q g := by
  unfold aggRow aggVals
  congr 1
  · rw [aggSpecs_eq, zip_map_map, List.map_map]
    apply List.map_congr_left
    intro t _
    simp only [Function.comp, envAgg_eq]
    rfl
  · unfold havPart havResolved havVals
    cases q.having with
    | none => rfl
    | some hv =>
      simp only [Option.map_some, havingVal, envAgg_eq, nullIfAny_cmp]
      rfl

theorem groupSpec_isEmpty (cols : List String) (keys : List Nat) : (groupSpec cols keys).isEmpty = keys.isEmpty := by
  cases keys <;> simp [groupSpec, List.range_succ]

/-- HAVING as `_project_and_filter` evaluates it on a row of the aggregate table -/
def keepH (q : Query) (keys : List Nat) (row : Row) : Bool :=
  if q.having.isSome then truthy (Sem.getCol row (keys.length + (aggOuts q).length)) else true

theorem hIdx (q : Query) (keys : List Nat) (hs : q.having.isSome = true) :
    colIdx (aggTableCols q keys) "_h" = some (keys.length + (aggOuts q).length) := by
  rw [aggTableCols_eq, hs, if_pos rfl]
  have := colIdx_append_right ((List.range keys.length).map groupName ++ (aggOuts q).map (·.2.2)) ["_h"] "_h" 0 (by simp [colIdx])
  simpa using this

/-- the executor's aggregate table of a grouped query (before the step's own HAVING filter / projection) -/
def execAggRows (q : Query) (keys : List Nat) (R : List Row) : List Row :=
  aggTbl (pickCols keys) (aggVals q) (!keys.isEmpty) R

theorem execAggregate_grouped (q : Query) (h : QWF q) (keys : List Nat) (hg : q.group = some keys) (R : List Row)
    (projs : List NProj) (hp : projs = [] ∨ projs = finalProjs q) :
    execAggregate stdCfg ⟨q.cols, R⟩ (groupSpec q.cols keys) (aggSpecs q) (havingSpec q) projs none 0
      = some (if projs.isEmpty then ⟨aggTableCols q keys, (execAggRows q keys R).filter (keepH q keys)⟩
              else ⟨q.outs.map Out.alias,
                    ((execAggRows q keys R).filter (keepH q keys)).map (pickCols (q.outs.map (projIdx q keys)))⟩) := by
  have hsome : (havingSpec q).isSome = q.having.isSome := by unfold havingSpec; cases q.having <;> rfl
  have hnone : (havingSpec q).isNone = q.having.isNone := by unfold havingSpec; cases q.having <;> rfl
  simp only [execAggregate, resolve_groupSpec q h keys hg, resolve_aggSpecs q h, resolveHav_eq q h keys hg, capOf, Option.map_none,
    hsome, hnone, groupSpec_isEmpty]
  have hagg : (fun g => aggRow stdCfg ((aggSpecs q).zip ((aggOuts q).map (·.2.1))) (havResolved q) g) = aggVals q :=
    funext (aggRow_eq q)
  have hcols : aggCols (groupSpec q.cols keys) (aggSpecs q) q.having.isSome = aggTableCols q keys := rfl
  simp only [hcols]
  have hrows : aggregate stdCfg (pickCols keys) (aggRow stdCfg ((aggSpecs q).zip ((aggOuts q).map (·.2.1))) (havResolved q))
      (!keys.isEmpty) (if q.having.isSome then none else none) none R = execAggRows q keys R := by
    have : (if q.having.isSome then (none : Option Nat) else none) = none := by split <;> rfl
    rw [this]
    have e : aggRow stdCfg ((aggSpecs q).zip ((aggOuts q).map (·.2.1))) (havResolved q) = aggVals q := hagg
    rw [e, aggregate_eq]
    rfl
  simp only [hrows, withOffset_zero]
  cases hh : q.having.isSome with
  | false =>
    have hn : q.having.isNone = true := by cases hq : q.having <;> simp_all
    have hk : keepH q keys = fun _ => true := by funext r; simp [keepH, hh]
    have hf : (execAggRows q keys R).filter (keepH q keys) = execAggRows q keys R := by
      rw [hk, List.filter_eq_self]; intro a _; rfl
    simp only [hn, Bool.and_true, havCond, Bool.false_eq_true, if_false, hf]
    rcases hp with rfl | rfl
    · simp
    · have hne := finalProjs_isEmpty q h.outsNonempty
      simp only [hne, Bool.false_eq_true, if_false, projectFilterTbl, resolve_grouped q h keys hg, finalProjs_alias,
        projectFilter_none_cap, Option.map_some, withOffset_zero]
      simp only [selectWhere]
      have h1 : (execAggRows q keys R).filter (keeps none) = execAggRows q keys R := by
        rw [List.filter_eq_self]; intro a _; rfl
      have h2 : projRow (some (pickCols (q.outs.map (projIdx q keys)))) = pickCols (q.outs.map (projIdx q keys)) := by
        funext r; rfl
      rw [h1, h2]
  | true =>
    have hn : q.having.isNone = false := by cases hq : q.having <;> simp_all
    simp only [hn, Bool.and_false, Bool.false_eq_true, if_false, havCond, if_true, hIdx q keys hh, Option.map_some]
    have hk : keeps (some fun r => Sem.getCol r (keys.length + (aggOuts q).length)) = keepH q keys := by
      funext r; simp [keeps, keepH, hh]
    rcases hp with rfl | rfl
    · simp only [projectFilterTbl, List.isEmpty_nil, if_true, projectFilter_none_cap, Option.map_some, withOffset_zero, selectWhere, hk]
      have h2 : projRow none = id := by funext r; rfl
      rw [h2, List.map_id]
    · have hne := finalProjs_isEmpty q h.outsNonempty
      simp only [hne, Bool.false_eq_true, if_false, projectFilterTbl, resolve_grouped q h keys hg, finalProjs_alias,
        projectFilter_none_cap, Option.map_some, withOffset_zero, selectWhere, hk]
      have h2 : projRow (some (pickCols (q.outs.map (projIdx q keys)))) = pickCols (q.outs.map (projIdx q keys)) := by
        funext r; rfl
      rw [h2]


/-! ### grouped and DISTINCT queries without ORDER BY -/
theorem truthy_triVal (t : Tri) : truthy (triVal t) = decide (t = some true) := by
  cases t with
  | none => rfl
  | some b => cases b <;> rfl

theorem aggRowOf_length (q : Query) (keys : List Nat) (rep : Row) (g : List Row) :
    (aggRowOf q keys rep g).length = (aggTableCols q keys).length := by
  simp only [aggRowOf, aggVals, havVals, aggTableCols_eq, pickCols, List.length_append, List.length_map, List.length_range]
  cases q.having <;> simp <;> omega

theorem keepH_aggRow (q : Query) (keys : List Nat) (rep : Row) (g : List Row) :
    keepH q keys (aggRowOf q keys rep g) = havingHolds q.having g := by
  unfold keepH havingHolds
  cases hh : q.having with
  | none => rfl
  | some hv =>
    simp only [Option.isSome_some, if_true, aggRowOf, aggVals]
    have hl : (pickCols keys rep ++ (aggOuts q).map fun t => t.1.apply (colVals g t.2.1)).length = keys.length + (aggOuts q).length := by
      simp [pickCols]
    rw [← List.append_assoc, ← hl]
    have := getCol_append_right (pickCols keys rep ++ (aggOuts q).map fun t => t.1.apply (colVals g t.2.1)) (havVals q g) 0
    rw [Nat.add_zero] at this
    rw [this]
    simp only [havVals, hh, Sem.getCol, List.getD, List.getElem?_cons_zero, Option.getD_some, truthy_triVal]

/-- the reference rows of the aggregate table -/
def semAggRows (q : Query) (keys : List Nat) (R : List Row) : List Row :=
  (groupsOf keys R).map fun g => aggRowOf q keys (g.headD []) g

theorem execAggRows_perm (q : Query) (keys : List Nat) (R : List Row) :
    List.Perm (execAggRows q keys R) (semAggRows q keys R) :=
  aggTbl_perm_sem keys (aggVals q) (aggVals_perm q) R

theorem execAggRows_mem (q : Query) (keys : List Nat) (R : List Row) (y : Row) (hy : y ∈ execAggRows q keys R) :
    ∃ rep g, y = aggRowOf q keys rep g := by
  have := (execAggRows_perm q keys R).mem_iff.1 hy
  obtain ⟨g, _, rfl⟩ := List.mem_map.1 this
  exact ⟨_, _, rfl⟩

/-- having-filtered, projected aggregate table = the reference body of a grouped query, as bags -/
theorem grouped_body_perm (q : Query) (h : QWF q) (keys : List Nat) (hg : q.group = some keys) (rows : List Row) :
    List.Perm
      (((execAggRows q keys (rows.filter (whereHolds q.where_))).filter (keepH q keys)).map (pickCols (q.outs.map (projIdx q keys))))
      (q.body rows) := by
  refine (((execAggRows_perm q keys _).filter _).map _).trans (List.Perm.of_eq ?_)
  simp only [Query.body, hg, semAggRows, List.filter_map, List.map_map]
  have hf : (keepH q keys ∘ fun g : List Row => aggRowOf q keys (g.headD []) g) = havingHolds q.having := by
    funext g; exact keepH_aggRow q keys _ g
  rw [hf]
  apply List.map_congr_left
  intro g _
  exact pick_aggRow q h keys hg _ g

/-- shape D: SELECT keys, aggregates FROM t [WHERE] [GROUP BY] [HAVING] -/
theorem spec_grouped_unordered (q : Query) (h : QWF q) (rows : List Row) (keys : List Nat) (hg : q.group = some keys)
    (ho : q.order = []) (hd : q.distinct = false) :
    ∃ out, exec stdCfg ⟨q.cols, rows⟩ (plan q) = some ⟨q.outs.map Out.alias, out⟩ ∧ List.Perm out (q.eval rows) := by
  obtain ⟨hl, hoff⟩ := h.limitNeedsOrder ho
  have hpl : plan q = .aggregate (.join .scan q.where_ [] none 0) (groupSpec q.cols keys) (aggSpecs q) (havingSpec q)
      (finalProjs q) none 0 := by
    simp [plan, hg, ho, hd, hl, hoff, dedup_aggSpecs q h]
  rw [hpl, exec_aggregate_step, exec_join_scan ⟨q.cols, rows⟩ q.where_ h.whereWF [] [] rfl]
  simp only [List.isEmpty_nil, if_true, Option.bind_some]
  rw [execAggregate_grouped q h keys hg _ _ (Or.inr rfl)]
  simp only [finalProjs_isEmpty q h.outsNonempty, Bool.false_eq_true, if_false]
  refine ⟨_, rfl, ?_⟩
  simp only [Query.eval, hd, Bool.false_eq_true, if_false, ho, hl, hoff, orderBy_nil]
  exact grouped_body_perm q h keys hg rows

theorem pickCols_self (names : List String) (hn : names.Nodup) (x : Row) (hx : x.length = names.length) :
    pickCols (names.map fun a => names.idxOf a) x = x := by
  apply List.ext_getElem
  · simp [pickCols, hx]
  · intro i h1 h2
    have hi : i < names.length := by simpa [pickCols] using h1
    simp only [pickCols, List.getElem_map]
    show Sem.getCol x (names.idxOf names[i]) = x[i]
    rw [hn.idxOf_getElem i hi]
    simp [Sem.getCol, List.getD, List.getElem?_eq_getElem h2]

/-- the extra Aggregate step of SELECT DISTINCT over a table with duplicate-free column names: the distinct rows -/
theorem execAggregate_distinct (names : List String) (hn : names.Nodup) (hne : names ≠ []) (X : List Row)
    (hX : ∀ x ∈ X, x.length = names.length) :
    ∃ out, execAggregate stdCfg ⟨names, X⟩ ((dedup names).map fun a => (a, a)) [] none [] none 0 = some ⟨names, out⟩
      ∧ List.Perm out (dedup X) := by
  rw [dedup_of_nodup names hn]
  have hres : resolve names ((names.map fun a => (a, a)).map (·.2)) = some (names.map fun a => names.idxOf a) := by
    rw [List.map_map]
    apply resolve_map
    intro a ha
    have hi := List.idxOf_lt_length_iff.2 ha
    apply colIdx_at names hn
    rw [List.getElem?_eq_getElem hi, List.getElem_idxOf hi]
    rfl
  have hcols : aggCols (names.map fun a => (a, a)) [] false = names := by
    simp only [aggCols, List.map_map, List.map_nil, List.append_nil, Bool.false_eq_true, if_false]
    have : ((fun x : String × String => x.1) ∘ fun a : String => (a, a)) = id := rfl
    rw [this, List.map_id]
  have hemp : (names.map fun a => (a, a)).isEmpty = false := by cases names <;> simp_all
  simp only [execAggregate, hres, List.map_nil, resolve, resolveHav, Option.isSome_none, Bool.false_eq_true, if_false, capOf,
    Option.map_none, List.isEmpty_nil, Option.isNone_none, Bool.and_self, if_true, withOffset_zero, hcols, hemp, Bool.not_false,
    List.zip_nil_right]
  refine ⟨_, rfl, ?_⟩
  rw [aggregate_eq]
  unfold aggTbl
  by_cases hXe : X = []
  · subst hXe; simp [dedup]
  · rw [if_neg hXe]
    let key := pickCols (names.map fun a => names.idxOf a)
    let aggF : List Row → Row := aggRow stdCfg [] none
    have haggF : ∀ g, aggF g = [] := by intro g; rfl
    refine (groupAgg_perm key aggF (by intro a b _; rfl) _ X (sortByGroupKey_perm key X)).trans (List.Perm.of_eq ?_)
    unfold groupAgg
    have hk : X.map key = X := by
      rw [List.map_congr_left (g := id) (by intro x hx; exact pickCols_self names hn x (hX x hx)), List.map_id]
    rw [hk]
    rw [List.map_congr_left (g := id) (by intro k _; simp [haggF]), List.map_id]

theorem body_len (q : Query) (rows : List Row) (x : Row) (hx : x ∈ q.body rows) : x.length = q.outs.length := by
  unfold Query.body at hx
  cases hg : q.group with
  | none => rw [hg] at hx; simp only [List.mem_map] at hx; obtain ⟨_, _, rfl⟩ := hx; simp
  | some keys => rw [hg] at hx; simp only [List.mem_map] at hx; obtain ⟨_, _, rfl⟩ := hx; simp

/-- shapes C and F: SELECT DISTINCT … (no ORDER BY) -/
theorem spec_distinct (q : Query) (h : QWF q) (rows : List Row) (hd : q.distinct = true) :
    ∃ out, exec stdCfg ⟨q.cols, rows⟩ (plan q) = some ⟨q.outs.map Out.alias, out⟩ ∧ List.Perm out (q.eval rows) := by
  have ho := h.noDistinctOrder hd
  obtain ⟨hl, hoff⟩ := h.limitNeedsOrder ho
  have hnames_ne : q.outs.map Out.alias ≠ [] := by
    intro e; exact h.outsNonempty (List.map_eq_nil_iff.1 e)
  have heval : q.eval rows = dedup (q.body rows) := by
    simp only [Query.eval, hd, if_true, ho, hl, hoff, orderBy_nil]
  -- the DAG below the DISTINCT step yields the body as a bag, under the output names
  have hinner : ∃ X, ∃ inner, plan q = .aggregate inner ((dedup (q.outs.map Out.alias)).map fun a => (a, a)) [] none [] none 0
      ∧ exec stdCfg ⟨q.cols, rows⟩ inner = some ⟨q.outs.map Out.alias, X⟩ ∧ List.Perm X (q.body rows) := by
    cases hg : q.group with
    | none =>
      refine ⟨(rows.filter (whereHolds q.where_)).map (projA q), .join .scan q.where_ (finalProjs q) none 0, ?_, ?_, ?_⟩
      · simp [plan, hg, ho, hd, hl, hoff]
      · rw [exec_join_scan ⟨q.cols, rows⟩ q.where_ h.whereWF (finalProjs q) _ (resolve_plain q h hg)]
        simp only [finalProjs_isEmpty q h.outsNonempty, Bool.false_eq_true, if_false, finalProjs_alias]
        have : pickCols (q.outs.map Out.src) = projA q := by funext r; simp [pickCols, projA, List.map_map]
        rw [this]
      · rw [body_plain q h hg]
    | some keys =>
      refine ⟨((execAggRows q keys (rows.filter (whereHolds q.where_))).filter (keepH q keys)).map (pickCols (q.outs.map (projIdx q keys))),
        .aggregate (.join .scan q.where_ [] none 0) (groupSpec q.cols keys) (aggSpecs q) (havingSpec q) (finalProjs q) none 0,
        ?_, ?_, ?_⟩
      · simp [plan, hg, ho, hd, hl, hoff, dedup_aggSpecs q h]
      · rw [exec_aggregate_step, exec_join_scan ⟨q.cols, rows⟩ q.where_ h.whereWF [] [] rfl]
        simp only [List.isEmpty_nil, if_true, Option.bind_some]
        rw [execAggregate_grouped q h keys hg _ _ (Or.inr rfl)]
        simp only [finalProjs_isEmpty q h.outsNonempty, Bool.false_eq_true, if_false]
      · exact grouped_body_perm q h keys hg rows
  obtain ⟨X, inner, hpl, hex, hperm⟩ := hinner
  have hXlen : ∀ x ∈ X, x.length = (q.outs.map Out.alias).length := by
    intro x hx
    rw [List.length_map]
    exact body_len q rows x (hperm.mem_iff.1 hx)
  obtain ⟨out, hout, hp⟩ := execAggregate_distinct (q.outs.map Out.alias) h.aliasesNodup hnames_ne X hXlen
  refine ⟨out, ?_, ?_⟩
  · rw [hpl, exec_aggregate_step, hex]
    exact hout
  · rw [heval]
    exact hp.trans (dedup_perm _ _ hperm)


/-! ### grouped ordered queries; the main theorem -/
theorem sortKey_grouped (q : Query) (h : QWF q) (keys : List Nat) (hg : q.group = some keys) :
    sortKey q = q.order.map fun it => (Out.alias (q.outs.getD it.1 (.col 0 "")), it.2.1, it.2.2) := by
  unfold sortKey
  apply List.map_congr_left
  intro it hit
  obtain ⟨p, d, nf⟩ := it
  have hp := h.orderInRange _ hit
  simp only [hg, List.getElem?_eq_getElem hp, List.getD, Option.getD_some]

/-- ORDER BY separates the rows it sorts (a "total ORDER BY"): needed to speak about THE sequence -/
def TotalOn (q : Query) (l : List Row) : Prop :=
  ∀ a ∈ l, ∀ b ∈ l, cmpRows (orderItems q.order) a b = .eq → a = b

theorem orderBy_perm_total (items : List ((Row → Val) × Bool × Bool)) (limit : Option Nat) (offset : Nat) (l1 l2 : List Row)
    (hp : List.Perm l1 l2) (htot : ∀ a ∈ l1, ∀ b ∈ l1, cmpRows items a b = .eq → a = b) :
    orderBy items limit offset l1 = orderBy items limit offset l2 := by
  unfold orderBy
  rw [mergeSort_perm_unique (cmpRows items) (cmpRows_laws items) l1 l2 hp htot]

/-- shape E: SELECT keys, aggregates … GROUP BY … [HAVING] ORDER BY … [LIMIT … OFFSET …], total ORDER BY: the sequence -/
theorem spec_grouped_ordered (q : Query) (h : QWF q) (rows : List Row) (keys : List Nat) (hg : q.group = some keys)
    (ho : q.order ≠ []) :
    ∃ out, exec stdCfg ⟨q.cols, rows⟩ (plan q) = some ⟨q.outs.map Out.alias, out⟩
      ∧ (TotalOn q (q.body rows) → out = q.eval rows) := by
  have hd : q.distinct = false := by
    cases hdd : q.distinct with
    | false => rfl
    | true => exact absurd (h.noDistinctOrder hdd) ho
  have hoe : q.order.isEmpty = false := by
    cases hq : q.order with
    | nil => exact absurd hq ho
    | cons _ _ => rfl
  have hpl : plan q = .sort (.aggregate (.join .scan q.where_ [] none 0) (groupSpec q.cols keys) (aggSpecs q) (havingSpec q)
      [] none 0) (sortKey q) (finalProjs q) q.limit q.offset := by
    simp [plan, hg, hd, hoe, dedup_aggSpecs q h]
  rw [hpl, exec_sort_step, exec_aggregate_step, exec_join_scan ⟨q.cols, rows⟩ q.where_ h.whereWF [] [] rfl]
  simp only [List.isEmpty_nil, if_true, Option.bind_some]
  rw [execAggregate_grouped q h keys hg _ _ (Or.inl rfl)]
  simp only [List.isEmpty_nil, if_true, Option.bind_some]
  let Y := (execAggRows q keys (rows.filter (whereHolds q.where_))).filter (keepH q keys)
  let names := aggTableCols q keys
  have hYlen : ∀ y ∈ Y, y.length = names.length := by
    intro y hy
    obtain ⟨rep, g, rfl⟩ := execAggRows_mem q keys _ y (List.mem_filter.1 hy).1
    exact aggRowOf_length q keys rep g
  let kfun : Nat × Bool × Bool → Nat := fun it => names.length + it.1
  rw [execSort_spec ⟨names, Y⟩ (sortKey q) (finalProjs q) q.limit q.offset (q.outs.map (projIdx q keys)) (q.order.map kfun)
      (resolve_grouped q h keys hg) ?_ (finalProjs_isEmpty q h.outsNonempty) hYlen ?_ (orderItems q.order) ?_]
  · simp only [finalProjs_alias]
    refine ⟨_, rfl, ?_⟩
    intro htot
    simp only [Query.eval, hd, Bool.false_eq_true, if_false]
    have hperm := grouped_body_perm q h keys hg rows
    apply orderBy_perm_total _ _ _ _ _ hperm
    intro a ha b hb
    exact htot a (hperm.mem_iff.1 ha) b (hperm.mem_iff.1 hb)
  · rw [finalProjs_alias, sortKey_grouped q h keys hg, List.map_map]
    apply resolve_map
    intro it hit
    have hp := h.orderInRange _ hit
    apply colIdx_append_right
    apply colIdx_at _ h.aliasesNodup
    simp [List.getD, List.getElem?_map, List.getElem?_eq_getElem hp]
  · simp [finalProjs, hg]
  · intro r1 hr1 r2 hr2
    rw [sortKey_grouped q h keys hg]
    apply sortCmp_aligned q.order kfun
    intro it _
    have e : ∀ y ∈ Y, Sem.getCol (y ++ pickCols (q.outs.map (projIdx q keys)) y) (kfun it)
        = Sem.getCol (pickCols (q.outs.map (projIdx q keys)) y) it.1 := by
      intro y hy
      show Sem.getCol _ (names.length + it.1) = _
      rw [← hYlen y hy, getCol_append_right]
    exact ⟨e r1 hr1, e r2 hr2⟩

theorem cmpKey_eq (d nf : Bool) (x y : Val) (h : cmpKey d nf x y = .eq) : x = y := by
  cases hx : x.isNull <;> cases hy : y.isNull <;> simp only [cmpKey, hx, hy] at h
  · cases d
    · exact (cmp_eq_iff x y).1 (by simpa using h)
    · exact ((cmp_eq_iff y x).1 (by simpa using h)).symm
  · cases nf <;> simp at h
  · cases nf <;> simp at h
  · cases x <;> cases y <;> simp_all [Val.isNull]

theorem cmpRows_eq_all (items : List ((Row → Val) × Bool × Bool)) (a b : Row) (h : cmpRows items a b = .eq) :
    ∀ it ∈ items, it.1 a = it.1 b := by
  induction items with
  | nil => intro it hit; cases hit
  | cons it items ih =>
    obtain ⟨f, d, nf⟩ := it
    simp only [cmpRows] at h
    cases hc : cmpKey d nf (f a) (f b) with
    | eq =>
      rw [hc] at h
      intro it hit
      simp only [List.mem_cons] at hit
      rcases hit with rfl | hit
      · exact cmpKey_eq d nf _ _ hc
      · exact ih h it hit
    | lt => rw [hc] at h; cases h
    | gt => rw [hc] at h; cases h

/-- an ORDER BY that mentions every output column is total on rows of the output width -/
theorem total_of_all_positions (q : Query) (l : List Row) (hl : ∀ x ∈ l, x.length = q.outs.length)
    (hall : ∀ p, p < q.outs.length → ∃ it ∈ q.order, it.1 = p) : TotalOn q l := by
  intro a ha b hb hc
  have hall' := cmpRows_eq_all _ a b hc
  apply List.ext_getElem
  · rw [hl a ha, hl b hb]
  · intro p h1 h2
    obtain ⟨it, hit, rfl⟩ := hall p (by rw [← hl a ha]; exact h1)
    have := hall' ((fun r => Sem.getCol r it.1), it.2.1, it.2.2) (by
      simp only [orderItems, List.mem_map]
      exact ⟨it, hit, rfl⟩)
    simpa [Sem.getCol, List.getD, List.getElem?_eq_getElem h1, List.getElem?_eq_getElem h2] using this

/-- **single_table_query_spec** (for the proved configuration): executing the planner's Step DAG of a well-formed
    single-table query yields the reference answer: its column names; its rows as a bag when there is no ORDER BY;
    exactly its row sequence under a total ORDER BY (and always for a query without aggregation). -/
theorem single_table_query_spec_std (q : Query) (rows : List Row) (h : QWF q)
    (hrows : ∀ r ∈ rows, r.length = q.cols.length) :
    ∃ out, exec stdCfg ⟨q.cols, rows⟩ (plan q) = some ⟨q.outs.map Out.alias, out⟩
      ∧ (q.order = [] → List.Perm out (q.eval rows))
      ∧ (q.order ≠ [] → TotalOn q (q.body rows) → out = q.eval rows)
      ∧ (q.group = none → q.distinct = false → out = q.eval rows) := by
  by_cases ho : q.order = []
  · cases hd : q.distinct with
    | true =>
      obtain ⟨out, he, hp⟩ := spec_distinct q h rows hd
      exact ⟨out, he, fun _ => hp, fun hne => absurd ho hne, fun _ hdf => by cases hdf⟩
    | false =>
      cases hg : q.group with
      | none =>
        have := spec_plain_unordered q h rows hg ho hd
        exact ⟨_, this, fun _ => List.Perm.refl _, fun hne => absurd ho hne, fun _ _ => rfl⟩
      | some keys =>
        obtain ⟨out, he, hp⟩ := spec_grouped_unordered q h rows keys hg ho hd
        exact ⟨out, he, fun _ => hp, fun hne => absurd ho hne, fun hgn => by cases hgn⟩
  · cases hg : q.group with
    | none =>
      have := spec_plain_ordered q h rows hrows hg ho
      exact ⟨_, this, fun e => absurd e ho, fun _ _ => rfl, fun _ _ => rfl⟩
    | some keys =>
      obtain ⟨out, he, hp⟩ := spec_grouped_ordered q h rows keys hg ho
      exact ⟨out, he, fun e => absurd e ho, fun _ ht => hp ht, fun hgn => by cases hgn⟩

end SqlglotModel.Exec
