/-
  Whole-run lemmas for C13: every control path of the tokenizer model `lex` keeps the full phase invariants
  (`SInv` inside a token, `CInv` between tokens).  Core Lean only.
-/
import SqlglotModel.Proofs.Lex

namespace SqlglotModel.Lex

/-! ### hypotheses on the shipped CPython character classes (validated exhaustively by the harness) -/

/-- blanks and line-break characters are `isspace`; alphanumeric characters are never CR/LF -/
def WF (sql : Sql) : Prop :=
  ∀ (j : Nat) (ch : Ch), sql[j]? = some ch →
    ((ch.c = ' ' ∨ ch.c = '\t' ∨ ch.c = '\n' ∨ ch.c = '\r') → ch.space = true) ∧
    (ch.alnum = true → ch.c ≠ '\n' ∧ ch.c ≠ '\r')

def isSpaceAt (sql : Sql) (p : Nat) : Bool :=
  match sql[p]? with | some ch => ch.space | none => false

/-- offset p is whitespace, inside a token, or inside a region consumed as a comment -/
def covered (sql : Sql) (st : St) (p : Nat) : Prop :=
  isSpaceAt sql p = true ∨ (∃ t ∈ st.toks, t.start ≤ p ∧ p ≤ t.stop) ∨ (∃ s ∈ st.spans, s.1 ≤ p ∧ p ≤ s.2)

/-- unless a jump skipped a line break (`skew`), the cursor and every token stamped so far are exact -/
def PIs (sql : Sql) (st : St) : Prop :=
  st.skew = false → PInv sql st ∧ ∀ t ∈ st.toks, LC sql t

/-- inside one `_scan` iteration, before the token is added -/
structure SInv (sql : Sql) (st : St) : Prop where
  lt : st.start < st.current
  le : st.current ≤ sql.size
  sorted : st.toks.Pairwise (fun a b => a.stop < b.start)
  toks : ∀ t ∈ st.toks, TokBounds sql t ∧ t.stop < st.start
  cov : ∀ p, p < st.start → covered sql st p
  pi : PIs sql st

/-- between two `_scan` iterations -/
structure CInv (sql : Sql) (st : St) : Prop where
  le : st.current ≤ sql.size
  sorted : st.toks.Pairwise (fun a b => a.stop < b.start)
  toks : ∀ t ∈ st.toks, TokBounds sql t ∧ t.stop < st.current
  cov : ∀ p, p < st.current → covered sql st p
  pi : PIs sql st

/-- a cursor move inside the token phase: only current/line/col/skew change, the cursor does not go back,
    and exactness is kept unless `skew` is raised -/
structure Fw (sql : Sql) (st st' : St) : Prop where
  start_eq : st'.start = st.start
  toks_eq : st'.toks = st.toks
  spans_eq : st'.spans = st.spans
  cur_le : st.current ≤ st'.current
  le : st'.current ≤ sql.size
  skew_mono : st'.skew = false → st.skew = false
  pinv : st'.skew = false → PInv sql st → PInv sql st'

theorem Fw.refl {sql : Sql} {st : St} (h : st.current ≤ sql.size) : Fw sql st st :=
  ⟨rfl, rfl, rfl, Nat.le_refl _, h, id, fun _ h => h⟩

theorem Fw.trans {sql : Sql} {a b c : St} (h1 : Fw sql a b) (h2 : Fw sql b c) : Fw sql a c :=
  ⟨h2.start_eq.trans h1.start_eq, h2.toks_eq.trans h1.toks_eq, h2.spans_eq.trans h1.spans_eq,
   Nat.le_trans h1.cur_le h2.cur_le, h2.le, fun h => h1.skew_mono (h2.skew_mono h),
   fun h p => h2.pinv h (h1.pinv (h2.skew_mono h) p)⟩

theorem covered_congr {sql : Sql} {st st' : St} (ht : st'.toks = st.toks) (hs : st'.spans = st.spans) (p : Nat) :
    covered sql st' p ↔ covered sql st p := by
  simp only [covered, ht, hs]

theorem SInv.fw {sql : Sql} {st st' : St} (hS : SInv sql st) (h : Fw sql st st') : SInv sql st' := by
  refine ⟨by rw [h.start_eq]; exact Nat.lt_of_lt_of_le hS.lt h.cur_le, h.le, by rw [h.toks_eq]; exact hS.sorted, ?_, ?_, ?_⟩
  · intro t ht; rw [h.toks_eq] at ht; rw [h.start_eq]; exact hS.toks t ht
  · intro p hp; rw [h.start_eq] at hp; exact (covered_congr h.toks_eq h.spans_eq p).2 (hS.cov p hp)
  · intro hs
    have := hS.pi (h.skew_mono hs)
    exact ⟨h.pinv hs this.1, by rw [h.toks_eq]; exact this.2⟩

theorem bind_ok {α β : Type} {r : Res α} {f : α → Res β} {b : β} (h : r.bind f = .ok b) :
    ∃ a, r = .ok a ∧ f a = .ok b := by
  cases r with
  | ok a => exact ⟨a, rfl, h⟩
  | error c => cases h
  | unsupported w => cases h
  | fuel => cases h

theorem advance_fw {sql : Sql} {st st' : St} {i : Nat} (h : advance sql st i = .ok st') :
    Fw sql st st' ∧ st'.current = st.current + i ∧ 1 ≤ i := by
  have h0 := h
  obtain ⟨hi, hle, he⟩ := advance_ok h
  refine ⟨⟨by subst he; rfl, by subst he; rfl, by subst he; rfl, by subst he; simp only; omega, by subst he; exact hle,
    ?_, ?_⟩, by subst he; rfl, hi⟩
  · intro hs; subst he; simp only [Bool.or_eq_false_iff] at hs; exact hs.1
  · intro hs hP
    have : hasNL sql st.current (i - 1) = false := by
      subst he; simp only [Bool.or_eq_false_iff] at hs; exact hs.2
    exact advance_pinv_aux sql st st' i hi hP this h0

/-! ### the alnum batch -/

theorem alnumRun_spec (sql : Sql) (f cur : Nat) :
    cur ≤ alnumRun sql f cur ∧ (cur ≤ sql.size → alnumRun sql f cur ≤ sql.size) ∧
    ∀ j ch, cur ≤ j → j < alnumRun sql f cur → sql[j]? = some ch → ch.alnum = true := by
  induction f generalizing cur with
  | zero => simp only [alnumRun]; exact ⟨Nat.le_refl _, id, fun j ch h1 h2 => by omega⟩
  | succ f ih =>
    simp only [alnumRun]
    cases hc : sql[cur]? with
    | none => simp only; exact ⟨Nat.le_refl _, id, fun j ch h1 h2 => by omega⟩
    | some ch0 =>
      simp only
      by_cases ha : ch0.alnum = true
      · simp only [ha, if_true]
        obtain ⟨i1, i2, i3⟩ := ih (cur + 1)
        have hlt : cur < sql.size := by
          rcases Nat.lt_or_ge cur sql.size with h | h
          · exact h
          · have : sql[cur]? = none := Array.getElem?_eq_none h
            rw [this] at hc; cases hc
        refine ⟨by omega, fun _ => i2 (by omega), ?_⟩
        intro j ch h1 h2 hj
        by_cases hj0 : j = cur
        · subst hj0; rw [hc] at hj; cases hj; exact ha
        · exact i3 j ch (by omega) h2 hj
      · have ha' : ch0.alnum = false := by cases h : ch0.alnum <;> simp_all
        simp only [ha', Bool.false_eq_true, if_false]
        exact ⟨Nat.le_refl _, id, fun j ch h1 h2 => by omega⟩

theorem not_nl_of_alnum {sql : Sql} (hW : WF sql) {j : Nat} {ch : Ch} (hj : sql[j]? = some ch) (ha : ch.alnum = true) :
    isNL sql j = false := by
  have := (hW j ch hj).2 ha
  simp only [isNL, isLF, isCR, hj, Bool.or_eq_false_iff, beq_eq_false_iff_ne, ne_eq]
  exact this

/-- a jump from a non-line-break character over non-line-break characters: col += n, line unchanged -/
theorem shift_pinv {sql : Sql} {st : St} {n : Nat} (hc : 1 ≤ st.current)
    (hcur : isNL sql (st.current - 1) = false) (hno : hasNL sql st.current (n - 1) = false)
    (hle : st.current + n ≤ sql.size) (hP : PInv sql st) :
    PInv sql { st with current := st.current + n, col := st.col + n } := by
  by_cases hn : n = 0
  · subst hn; simpa using hP
  · have hb : isBreak sql (st.current - 1) = false := not_break_of_not_nl hcur
    have : advance sql st n = .ok { st with current := st.current + n, col := st.col + n, skew := st.skew || hasNL sql st.current (n - 1) } := by
      unfold advance
      have h1 : ¬ (st.current + n > sql.size) := by omega
      simp [hn, h1, hb, hcur]
    have := advance_pinv_aux sql st _ n (by omega) hP hno this
    rcases this with ⟨h0, _, _⟩ | ⟨h1, h2, h3⟩
    · simp only at h0; omega
    · right; exact ⟨h1, h2, h3⟩

theorem hasNL_of_forall {sql : Sql} {a n : Nat} (h : ∀ j, a ≤ j → j < a + n → isNL sql j = false) :
    hasNL sql a n = false := by
  induction n generalizing a with
  | zero => rfl
  | succ n ih =>
    simp only [hasNL, Bool.or_eq_false_iff]
    exact ⟨h a (Nat.le_refl _) (by omega), ih (fun j h1 h2 => h j (by omega) (by omega))⟩

theorem advanceAlnum_fw {sql : Sql} (hW : WF sql) {st st' : St} (h : advanceAlnum sql st = .ok st') :
    Fw sql st st' ∧ st.current < st'.current := by
  unfold advanceAlnum at h
  cases h1 : advance sql st 1 with
  | ok st1 =>
    rw [h1] at h
    simp only at h
    obtain ⟨f1, hc1, _⟩ := advance_fw h1
    cases hch : char sql st1 with
    | none => rw [hch] at h; simp only at h; cases h; exact ⟨f1, by omega⟩
    | some ch =>
      rw [hch] at h; simp only at h
      by_cases ha : ch.alnum = true
      · simp only [ha, if_true] at h
        cases h
        obtain ⟨r1, r2, r3⟩ := alnumRun_spec sql (sql.size - st1.current) st1.current
        have r2 := r2 f1.le
        have hcur1 : 1 ≤ st1.current := by omega
        have hget : sql[st1.current - 1]? = some ch := by
          unfold char at hch
          have : ¬ st1.current = 0 := by omega
          simpa [this] using hch
        refine ⟨Fw.trans f1 ⟨rfl, rfl, rfl, r1, r2, id, ?_⟩, by simp only; omega⟩
        intro _ hP
        have e : alnumRun sql (sql.size - st1.current) st1.current
            = st1.current + (alnumRun sql (sql.size - st1.current) st1.current - st1.current) := by omega
        have := shift_pinv (sql := sql) (st := st1)
          (n := alnumRun sql (sql.size - st1.current) st1.current - st1.current) hcur1
          (not_nl_of_alnum hW hget ha)
          (hasNL_of_forall (fun j h1 h2 => by
            rcases Nat.lt_or_ge j sql.size with hj | hj
            · have hsome : sql[j]? = some sql[j] := Array.getElem?_eq_getElem hj
              exact not_nl_of_alnum hW hsome (r3 j _ h1 (by omega) hsome)
            · omega))
          (by omega) hP
        rw [← e] at this
        exact this
      · simp only [ha] at h
        cases h; exact ⟨f1, by omega⟩
  | error c => rw [h1] at h; cases h
  | unsupported w => rw [h1] at h; cases h
  | fuel => rw [h1] at h; cases h


/-! ### the str.find fast path of `_extract_string` -/

theorem countLF_snoc (sql : Sql) (a n : Nat) :
    countLF sql a (n + 1) = countLF sql a n + (if isLF sql (a + n) then 1 else 0) := by
  induction n generalizing a with
  | zero => simp [countLF]
  | succ n ih =>
    have e : a + (n + 1) = (a + 1) + n := by omega
    rw [countLF, ih (a + 1), e]
    simp only [countLF]
    omega

theorem hasLoneCR_false {sql : Sql} {a n : Nat} (h : hasLoneCR sql a n = false) :
    ∀ j, a ≤ j → j < a + n → (isBreak sql j && isCR sql j) = false := by
  induction n generalizing a with
  | zero => intro j h1 h2; omega
  | succ n ih =>
    simp only [hasLoneCR, Bool.or_eq_false_iff] at h
    intro j h1 h2
    by_cases hj : j = a
    · subst hj; exact h.1
    · exact ih h.2 j (by omega) (by omega)

theorem break_eq_lf_of_no_lone_cr {sql : Sql} {j : Nat} (h : (isBreak sql j && isCR sql j) = false) :
    isBreak sql j = isLF sql j := by
  cases hl : isLF sql j
  · cases hc : isCR sql j
    · simp [isBreak, hl, hc]
    · cases hb : isBreak sql j
      · rfl
      · simp [hb, hc] at h
  · simp [isBreak, hl]

/-- with no lone CR in [a, a+n): the line breaks of the region are exactly its LFs -/
theorem region_lf {sql : Sql} {a n : Nat} (h : ∀ j, a ≤ j → j < a + n → (isBreak sql j && isCR sql j) = false) :
    lineOf sql (a + n) = lineOf sql a + countLF sql a n ∧
    lineStart sql (a + n) = (match rfindLF sql a n with | some r => r + 1 | none => lineStart sql a) ∧
    (rfindLF sql a n = none → countLF sql a n = 0) := by
  induction n with
  | zero => simp [countLF, rfindLF]
  | succ n ih =>
    obtain ⟨i1, i2, i3⟩ := ih (fun j h1 h2 => h j h1 (by omega))
    have hb := break_eq_lf_of_no_lone_cr (h (a + n) (by omega) (by omega))
    have e : a + (n + 1) = (a + n) + 1 := by omega
    rw [e, countLF_snoc]
    simp only [lineOf, lineStart, rfindLF, hb]
    cases hl : isLF sql (a + n)
    · simp only [Bool.false_eq_true, if_false, Nat.add_zero]
      exact ⟨i1, i2, i3⟩
    · simp only [if_true]
      refine ⟨by omega, trivial, fun h => by cases h⟩

/-- THE fast-path lemma: if the literal [pos, e) contains no lone CR and the character at e is not LF, the
    count/rfind bookkeeping of the fast path lands exactly on (lineOf e, colOf e) -/
theorem fastPos_exact {sql : Sql} {line col pos e : Nat} (hpe : pos ≤ e)
    (hcr : hasLoneCR sql pos (e - pos) = false) (hd : isLF sql e = false)
    (hl : line = lineOf sql pos) (hc : col + crlfAdj sql pos = colOf sql pos) :
    (fastPos sql line col pos e).1 = lineOf sql e ∧
    (fastPos sql line col pos e).2 + crlfAdj sql e = colOf sql e := by
  have hreg := hasLoneCR_false hcr
  obtain ⟨r1, r2, r3⟩ := region_lf (sql := sql) (a := pos) (n := e - pos) hreg
  have ee : pos + (e - pos) = e := by omega
  rw [ee] at r1 r2
  have a1 : crlfAdj sql e = 0 := crlfAdj_zero_of_cur hd
  have hls := lineStart_le sql pos
  unfold fastPos
  by_cases hn : countLF sql pos (e - pos) > 0
  · simp only [hn, if_true]
    refine ⟨by rw [r1, hl], ?_⟩
    cases hr : rfindLF sql pos (e - pos) with
    | none => have := r3 hr; omega
    | some r =>
      rw [hr] at r2
      simp only [colOf, r2, a1]
      omega
  · simp only [hn, if_false]
    have h0 : countLF sql pos (e - pos) = 0 := by omega
    refine ⟨by rw [r1, hl, h0]; rfl, ?_⟩
    by_cases hpe' : pos = e
    · subst hpe'; simpa using hc
    · -- no LF in the region, so the character at pos is not the LF of a CRLF pair
      have hlfpos : isLF sql pos = false := by
        cases hl' : isLF sql pos
        · rfl
        · have : countLF sql pos (e - pos) ≥ 1 := by
            obtain ⟨m, hm⟩ : ∃ m, e - pos = m + 1 := ⟨e - pos - 1, by omega⟩
            rw [hm, countLF, hl']; simp
          omega
      have a0 : crlfAdj sql pos = 0 := crlfAdj_zero_of_cur hlfpos
      have hnone : rfindLF sql pos (e - pos) = none := by
        cases hr : rfindLF sql pos (e - pos) with
        | none => rfl
        | some r =>
          exfalso
          -- an LF found by rfind would have been counted
          have : ∀ n, rfindLF sql pos n = some r → countLF sql pos n ≥ 1 := by
            intro n
            induction n with
            | zero => intro h; simp [rfindLF] at h
            | succ n ih =>
              intro h
              rw [countLF_snoc]
              simp only [rfindLF] at h
              cases hl2 : isLF sql (pos + n)
              · simp only [hl2, Bool.false_eq_true, if_false] at h
                have := ih h; omega
              · simp
          have := this _ hr; omega
      rw [hnone] at r2
      simp only [colOf, r2, a0, a1] at hc ⊢
      omega

theorem findCh_spec (sql : Sql) (d : Char) : ∀ (f p e : Nat), findCh sql d f p = some e →
    p ≤ e ∧ e < sql.size ∧ ∃ ch, sql[e]? = some ch ∧ ch.c = d := by
  intro f
  induction f with
  | zero => intro p e h; simp [findCh] at h
  | succ f ih =>
    intro p e h
    simp only [findCh] at h
    cases hc : sql[p]? with
    | none => rw [hc] at h; cases h
    | some ch =>
      rw [hc] at h
      simp only at h
      by_cases hd : (ch.c == d) = true
      · simp only [hd, if_true] at h
        cases h
        have hlt : p < sql.size := by
          rcases Nat.lt_or_ge p sql.size with h | h
          · exact h
          · have : sql[p]? = none := Array.getElem?_eq_none h
            rw [this] at hc; cases hc
        exact ⟨Nat.le_refl _, hlt, ch, hc, by simpa using hd⟩
      · simp only [hd] at h
        obtain ⟨h1, h2, h3⟩ := ih _ _ h
        exact ⟨by omega, h2, h3⟩

theorem fastString_fw {cfg : Cfg} {sql : Sql} {st st' : St} {x : XCfg} {text : List Char}
    (hc : 1 ≤ st.current) (h : fastString cfg sql st x = some (st', text)) : Fw sql st st' := by
  unfold fastString at h
  split at h
  · rename_i d
    split at h
    · cases h
    · rename_i e he
      split at h
      · cases h
      · injection h with h
        injection h with h _
        obtain ⟨hpe, hlt, ch, hch, hcd⟩ := findCh_spec _ _ _ _ _ he
        subst h
        refine ⟨rfl, rfl, rfl, by simp only; omega, by simp only; omega, ?_, ?_⟩
        · intro hs; simp only [Bool.or_eq_false_iff] at hs; exact hs.1.1
        · intro hs hP
          simp only [Bool.or_eq_false_iff] at hs
          obtain ⟨⟨_, hcr⟩, hdn⟩ := hs
          have hd : isLF sql e = false := by
            simp only [isLF, hch, hcd]; exact hdn
          rcases hP with ⟨h0, _, _⟩ | ⟨_, hl, hco⟩
          · omega
          · have := fastPos_exact (sql := sql) (line := st.line) (col := st.col) hpe hcr hd hl hco
            right
            exact ⟨by simp only; omega, by simpa using this.1, by simpa using this.2⟩
  · cases h


/-! ### the remaining cursor movers -/

theorem advance2_fw {cfg : Cfg} {sql : Sql} {st st' : St} (h : advance2 cfg sql st = .ok st') :
    Fw sql st st' ∧ st.current < st'.current := by
  unfold advance2 at h
  split at h
  · obtain ⟨s, h1, h2⟩ := bind_ok h
    obtain ⟨f1, c1, _⟩ := advance_fw h1
    obtain ⟨f2, c2, _⟩ := advance_fw h2
    exact ⟨f1.trans f2, by omega⟩
  · obtain ⟨f1, c1, _⟩ := advance_fw h
    exact ⟨f1, by omega⟩

theorem stepN_fw {sql : Sql} : ∀ (n : Nat) (st st' : St), st.current ≤ sql.size → stepN sql n st = .ok st' → Fw sql st st' := by
  intro n
  induction n with
  | zero => intro st st' hle h; simp only [stepN] at h; cases h; exact Fw.refl hle
  | succ n ih =>
    intro st st' hle h
    simp only [stepN] at h
    obtain ⟨s, h1, h2⟩ := bind_ok h
    obtain ⟨f1, _, _⟩ := advance_fw h1
    exact f1.trans (ih s st' f1.le h2)

theorem advanceKw_fw {cfg : Cfg} {sql : Sql} {st st' : St} {n : Nat} (hle : st.current ≤ sql.size)
    (h : advanceKw cfg sql st n = .ok st') : Fw sql st st' := by
  unfold advanceKw at h
  split at h
  · cases h
  · split at h
    · exact stepN_fw n st st' hle h
    · exact (advance_fw h).1

theorem slowString_fw {cfg : Cfg} {sql : Sql} (hW : WF sql) {x : XCfg} :
    ∀ (f : Nat) (st : St) (text : List Char) (r : St × List Char), st.current ≤ sql.size →
      slowString cfg sql x f st text = .ok r → Fw sql st r.1 := by
  intro f
  induction f with
  | zero => intro st text r _ h; simp only [slowString] at h; cases h
  | succ f ih =>
    intro st text r hle h
    simp only [slowString] at h
    split at h
    · obtain ⟨s, h1, h2⟩ := bind_ok h
      obtain ⟨f1, _⟩ := advance2_fw h1
      exact f1.trans (ih _ _ _ f1.le h2)
    · split at h
      · split at h
        · obtain ⟨s, h1, h2⟩ := bind_ok h
          obtain ⟨f1, _⟩ := advance2_fw h1
          exact f1.trans (ih _ _ _ f1.le h2)
        · cases h
      · split at h
        · split at h
          · obtain ⟨s, h1, h2⟩ := bind_ok h
            cases h2
            exact (advance_fw h1).1
          · cases h; exact Fw.refl hle
        · split at h
          · cases h
          · obtain ⟨s, h1, h2⟩ := bind_ok h
            obtain ⟨f1, _⟩ := advanceAlnum_fw hW h1
            exact f1.trans (ih _ _ _ f1.le h2)

theorem extractString_fw {cfg : Cfg} {sql : Sql} (hW : WF sql) {x : XCfg} {st : St} {r : St × List Char}
    (hc : 1 ≤ st.current) (hle : st.current ≤ sql.size) (h : extractString cfg sql st x = .ok r) : Fw sql st r.1 := by
  unfold extractString at h
  split at h
  · rename_i r' hf
    cases h
    obtain ⟨s, t⟩ := r
    exact fastString_fw hc hf
  · exact slowString_fw hW _ _ _ _ hle h

theorem litLoop_fw {cfg : Cfg} {sql : Sql} :
    ∀ (f : Nat) (st : St) (acc : List Ch) (r : St × List Ch), st.current ≤ sql.size →
      litLoop cfg sql f st acc = .ok r →
      Fw sql st r.1 ∧ r.1.current + acc.length = st.current + r.2.length := by
  intro f
  induction f with
  | zero => intro st acc r _ h; simp only [litLoop] at h; cases h
  | succ f ih =>
    intro st acc r hle h
    simp only [litLoop] at h
    split at h
    · split at h
      · obtain ⟨s, h1, h2⟩ := bind_ok h
        obtain ⟨f1, c1, _⟩ := advance_fw h1
        obtain ⟨i1, i2⟩ := ih _ _ _ f1.le h2
        refine ⟨f1.trans i1, ?_⟩
        simp only [List.length_append, List.length_singleton] at i2
        omega
      · cases h; exact ⟨Fw.refl hle, by simp only⟩
    · cases h; exact ⟨Fw.refl hle, by simp only⟩

theorem varLoop_fw {cfg : Cfg} {sql : Sql} (hW : WF sql) :
    ∀ (f : Nat) (st st' : St), st.current ≤ sql.size → varLoop cfg sql f st = .ok st' → Fw sql st st' := by
  intro f
  induction f with
  | zero => intro st st' _ h; simp only [varLoop] at h; cases h
  | succ f ih =>
    intro st st' hle h
    simp only [varLoop] at h
    split at h
    · cases h; exact Fw.refl hle
    · split at h
      · cases h; exact Fw.refl hle
      · split at h
        · cases h; exact Fw.refl hle
        · obtain ⟨s, h1, h2⟩ := bind_ok h
          obtain ⟨f1, _⟩ := advanceAlnum_fw hW h1
          exact f1.trans (ih _ _ f1.le h2)

theorem valueLoop_fw {cfg : Cfg} {sql : Sql} (hW : WF sql) :
    ∀ (f : Nat) (st st' : St), st.current ≤ sql.size → valueLoop cfg sql f st = .ok st' → Fw sql st st' := by
  intro f
  induction f with
  | zero => intro st st' _ h; simp only [valueLoop] at h; cases h
  | succ f ih =>
    intro st st' hle h
    simp only [valueLoop] at h
    split at h
    · cases h; exact Fw.refl hle
    · split at h
      · obtain ⟨s, h1, h2⟩ := bind_ok h
        obtain ⟨f1, _⟩ := advanceAlnum_fw hW h1
        exact f1.trans (ih _ _ f1.le h2)
      · cases h; exact Fw.refl hle

theorem lineCommentLoop_fw {sql : Sql} (hW : WF sql) :
    ∀ (f : Nat) (st st' : St), st.current ≤ sql.size → lineCommentLoop sql f st = .ok st' → Fw sql st st' := by
  intro f
  induction f with
  | zero => intro st st' _ h; simp only [lineCommentLoop] at h; cases h
  | succ f ih =>
    intro st st' hle h
    simp only [lineCommentLoop] at h
    split at h
    · cases h; exact Fw.refl hle
    · split at h
      · cases h; exact Fw.refl hle
      · obtain ⟨s, h1, h2⟩ := bind_ok h
        obtain ⟨f1, _⟩ := advanceAlnum_fw hW h1
        exact f1.trans (ih _ _ f1.le h2)

theorem commentLoop_fw {cfg : Cfg} {sql : Sql} (hW : WF sql) {cs ce : List Char} :
    ∀ (f : Nat) (st st' : St) (count : Nat), st.current ≤ sql.size →
      commentLoop cfg sql cs ce f st count = .ok st' → Fw sql st st' := by
  intro f
  induction f with
  | zero => intro st st' c _ h; simp only [commentLoop] at h; cases h
  | succ f ih =>
    intro st st' c hle h
    simp only [commentLoop] at h
    split at h
    · cases h; exact Fw.refl hle
    · split at h
      · cases h; exact Fw.refl hle
      · obtain ⟨s, h1, h2⟩ := bind_ok h
        obtain ⟨f1, _⟩ := advanceAlnum_fw hW h1
        split at h2
        · obtain ⟨s2, h3, h4⟩ := bind_ok h2
          obtain ⟨f2, _, _⟩ := advance_fw h3
          exact f1.trans (f2.trans (ih _ _ _ f2.le h4))
        · exact f1.trans (ih _ _ _ f1.le h2)


/-! ### scanners: from the token phase (`SInv`) back to the between-tokens phase (`CInv`) -/

theorem covered_mono {sql : Sql} {st st' : St} {p : Nat}
    (ht : ∀ t, t ∈ st.toks → t ∈ st'.toks) (hs : ∀ x, x ∈ st.spans → x ∈ st'.spans)
    (h : covered sql st p) : covered sql st' p := by
  rcases h with h | ⟨t, ht1, ht2⟩ | ⟨x, hx1, hx2⟩
  · exact Or.inl h
  · exact Or.inr (Or.inl ⟨t, ht t ht1, ht2⟩)
  · exact Or.inr (Or.inr ⟨x, hs x hx1, hx2⟩)

theorem add_full {cfg : Cfg} {sql : Sql} {st st' : St} {ty : String} {text : Option (List Char)}
    (hS : SInv sql st) (h : add cfg sql st ty text = .ok st') : CInv sql st' ∧ st.start < st'.current := by
  unfold add at h
  split at h
  · cases h
  · injection h with h
    subst h
    have hlt := hS.lt
    have hle := hS.le
    refine ⟨⟨hle, ?_, ?_, ?_, ?_⟩, hlt⟩
    · simp only [List.pairwise_append, List.pairwise_cons, List.mem_singleton]
      refine ⟨hS.sorted, ⟨(by intro a h; cases h), List.Pairwise.nil⟩, ?_⟩
      intro a ha b hb
      rw [hb]
      exact (hS.toks a ha).2
    · intro t ht
      simp only [List.mem_append, List.mem_singleton] at ht
      rcases ht with ht | ht
      · have := hS.toks t ht
        exact ⟨this.1, by simp only; omega⟩
      · subst ht
        exact ⟨⟨by simp only; omega, by simp only; omega⟩, by simp only; omega⟩
    · intro p hp
      simp only at hp
      by_cases hps : p < st.start
      · exact covered_mono (st := st) (fun t ht => by simp only [List.mem_append]; exact Or.inl ht) (fun x hx => hx) (hS.cov p hps)
      · refine Or.inr (Or.inl ⟨_, by simp only [List.mem_append, List.mem_singleton]; exact Or.inr rfl, ?_, ?_⟩)
        · simp only; omega
        · simp only; omega
    · intro hs
      have := hS.pi hs
      refine ⟨this.1, ?_⟩
      intro t ht
      simp only [List.mem_append, List.mem_singleton] at ht
      rcases ht with ht | ht
      · exact this.2 t ht
      · subst ht
        rcases this.1 with ⟨h0, _, _⟩ | ⟨_, hl, hc⟩
        · omega
        · exact ⟨hl, hc⟩

theorem finishNumber_full {cfg : Cfg} {sql : Sql} {st st' : St} {us : Bool}
    (hS : SInv sql st) (h : finishNumber cfg sql st us = .ok st') : CInv sql st' ∧ st.start < st'.current := by
  unfold finishNumber at h
  exact add_full hS h

/-- the rewind: everything but current/col/skew unchanged; exact unless it flags `skew` -/
theorem retreat_spec {sql : Sql} {s s2 : St} {n : Nat} (h : retreat sql s n = .ok s2) :
    s2.start = s.start ∧ s2.toks = s.toks ∧ s2.spans = s.spans ∧ s2.current = s.current - n ∧ n < s.current ∧
    (s2.skew = false → s.skew = false) ∧ (s2.skew = false → PInv sql s → PInv sql s2) := by
  have h0 := h
  unfold retreat at h
  split at h
  · cases h
  · rename_i hn
    simp only at h
    split at h
    · cases h
    · injection h with h
      refine ⟨by subst h; rfl, by subst h; rfl, by subst h; rfl, by subst h; rfl, by omega, ?_, ?_⟩
      · intro hs; subst h; simp only [Bool.or_eq_false_iff] at hs; exact hs.1
      · intro hs hP
        have : hasNL sql (s.current - 1 - n) n = false := by
          subst h; simp only [Bool.or_eq_false_iff] at hs; exact hs.2
        exact retreat_pinv_aux sql s s2 n hP this h0

theorem numIdentTail_full {cfg : Cfg} {sql : Sql} {st st' : St} {us : Bool}
    (hS : SInv sql st) (h : numIdentTail cfg sql st us = .ok st') : CInv sql st' ∧ st.start < st'.current := by
  unfold numIdentTail at h
  obtain ⟨r, h1, h2⟩ := bind_ok h
  obtain ⟨f1, hcount⟩ := litLoop_fw _ _ _ _ hS.le h1
  have hS1 := hS.fw f1
  split at h2
  · cases h2
  · split at h2
    · have := add_full hS1 h2
      exact ⟨this.1, by rw [← f1.start_eq]; exact this.2⟩
    · obtain ⟨s2, h3, h4⟩ := bind_ok h2
      obtain ⟨e1, e2, e3, e4, e5, e6, e7⟩ := retreat_spec h3
      simp only [List.length_nil, Nat.add_zero] at hcount
      have hcur : s2.current = st.current := by omega
      have hS2 : SInv sql s2 := by
        refine ⟨by rw [e1, f1.start_eq, hcur]; exact hS.lt, by rw [hcur]; exact hS.le, by rw [e2]; exact hS1.sorted, ?_, ?_, ?_⟩
        · intro t ht; rw [e2] at ht; rw [e1]; exact hS1.toks t ht
        · intro p hp; rw [e1] at hp; exact (covered_congr e2 e3 p).2 (hS1.cov p hp)
        · intro hs
          have := hS1.pi (e6 hs)
          exact ⟨e7 hs this.1, by rw [e2]; exact this.2⟩
      have := finishNumber_full hS2 h4
      exact ⟨this.1, by rw [← f1.start_eq, ← e1]; exact this.2⟩

theorem numLoop_full {cfg : Cfg} {sql : Sql} :
    ∀ (f : Nat) (st st' : St) (dec : Bool) (sci : Nat) (us : Bool), SInv sql st →
      numLoop cfg sql f st dec sci us = .ok st' → CInv sql st' ∧ st.start < st'.current := by
  intro f
  induction f with
  | zero => intro st st' _ _ _ _ h; simp only [numLoop] at h; cases h
  | succ f ih =>
    intro st st' dec sci us hS h
    have step : ∀ {i : Nat} {d : Bool} {sc : Nat} {u : Bool},
        ((advance sql st i).bind fun s => numLoop cfg sql f s d sc u) = .ok st' →
        CInv sql st' ∧ st.start < st'.current := by
      intro i d sc u h
      obtain ⟨s, h1, h2⟩ := bind_ok h
      obtain ⟨f1, _, _⟩ := advance_fw h1
      have := ih _ _ _ _ _ (hS.fw f1) h2
      exact ⟨this.1, by rw [← f1.start_eq]; exact this.2⟩
    simp only [numLoop] at h
    split at h
    · exact finishNumber_full hS h
    · split at h
      · exact step h
      · split at h
        · split at h
          · exact finishNumber_full hS h
          · exact step h
        · split at h
          · split at h
            · exact step h
            · exact finishNumber_full hS h
          · split at h
            · exact step h
            · split at h
              · exact step h
              · split at h
                · exact numIdentTail_full hS h
                · exact finishNumber_full hS h

theorem radixAdd_full {cfg : Cfg} {sql : Sql} {st st' : St} {base : Nat} {ty : String}
    (hS : SInv sql st) (h : radixAdd cfg sql st base ty = .ok st') : CInv sql st' ∧ st.start < st'.current := by
  unfold radixAdd at h
  split at h
  · cases h
  · exact add_full hS h
  · exact add_full hS h

theorem scanRadix_full {cfg : Cfg} {sql : Sql} (hW : WF sql) {st st' : St} {base : Nat} {ty : String}
    (hS : SInv sql st) (h : scanRadix cfg sql st base ty = .ok st') : CInv sql st' ∧ st.start < st'.current := by
  unfold scanRadix at h
  obtain ⟨s, h1, h2⟩ := bind_ok h
  obtain ⟨s2, h3, h4⟩ := bind_ok h2
  obtain ⟨f1, _, _⟩ := advance_fw h1
  have f12 := f1.trans (valueLoop_fw hW _ _ _ f1.le h3)
  have := radixAdd_full (hS.fw f12) h4
  exact ⟨this.1, by rw [← f12.start_eq]; exact this.2⟩

theorem scanNumber_full {cfg : Cfg} {sql : Sql} (hW : WF sql) {st st' : St}
    (hS : SInv sql st) (h : scanNumber cfg sql st = .ok st') : CInv sql st' ∧ st.start < st'.current := by
  unfold scanNumber at h
  split at h
  · split at h
    · exact scanRadix_full hW hS h
    · exact add_full hS h
  · split at h
    · split at h
      · exact scanRadix_full hW hS h
      · exact add_full hS h
    · exact numLoop_full _ _ _ _ _ _ hS h

theorem scanVar_full {cfg : Cfg} {sql : Sql} (hW : WF sql) {st st' : St}
    (hS : SInv sql st) (h : scanVar cfg sql st = .ok st') : CInv sql st' ∧ st.start < st'.current := by
  unfold scanVar at h
  obtain ⟨s, h1, h2⟩ := bind_ok h
  have f1 := varLoop_fw hW _ _ _ hS.le h1
  have := add_full (hS.fw f1) h2
  exact ⟨this.1, by rw [← f1.start_eq]; exact this.2⟩

theorem scanIdentifier_full {cfg : Cfg} {sql : Sql} (hW : WF sql) {st st' : St} {e : String}
    (hS : SInv sql st) (h : scanIdentifier cfg sql st e = .ok st') : CInv sql st' ∧ st.start < st'.current := by
  unfold scanIdentifier at h
  obtain ⟨s, h1, h2⟩ := bind_ok h
  obtain ⟨f1, hc1, _⟩ := advance_fw h1
  obtain ⟨r, h3, h4⟩ := bind_ok h2
  have f2 := extractString_fw hW (by omega) f1.le h3
  have f12 := f1.trans f2
  have := add_full (hS.fw f12) h4
  exact ⟨this.1, by rw [← f12.start_eq]; exact this.2⟩

theorem stringAdd_full {cfg : Cfg} {sql : Sql} {st st' : St} {ty : String} {text : List Char}
    (hS : SInv sql st) (h : stringAdd cfg sql st ty text = .ok st') : CInv sql st' ∧ st.start < st'.current := by
  unfold stringAdd at h
  split at h
  · split at h
    · cases h
    · exact add_full hS h
    · cases h
  · exact add_full hS h

theorem stringBody_full {cfg : Cfg} {sql : Sql} (hW : WF sql) {st st' : St} {w : List Char} {e ty : String}
    (hS : SInv sql st) (h : stringBody cfg sql st w e ty = .ok st') : CInv sql st' ∧ st.start < st'.current := by
  unfold stringBody at h
  split at h
  · cases h
  · obtain ⟨s, h1, h2⟩ := bind_ok h
    obtain ⟨f1, hc1, _⟩ := advance_fw h1
    obtain ⟨r, h3, h4⟩ := bind_ok h2
    have f2 := extractString_fw hW (by omega) f1.le h3
    have f12 := f1.trans f2
    have := stringAdd_full (hS.fw f12) h4
    exact ⟨this.1, by rw [← f12.start_eq]; exact this.2⟩

theorem scanString_full {cfg : Cfg} {sql : Sql} (hW : WF sql) {st st' : St} {w : List Char} {res : Res St}
    (hS : SInv sql st) (h : scanString cfg sql st w = some res) (hr : res = .ok st') :
    CInv sql st' ∧ st.start < st'.current := by
  unfold scanString at h
  split at h
  · cases h; exact stringBody_full hW hS hr
  · split at h
    · cases h; exact stringBody_full hW hS hr
    · cases h

theorem SInv.pushSpan {sql : Sql} {st : St} (hS : SInv sql st) : SInv sql (pushSpan st) := by
  refine ⟨hS.lt, hS.le, hS.sorted, hS.toks, ?_, hS.pi⟩
  intro p hp
  exact covered_mono (st := st) (fun t ht => ht) (fun x hx => by show x ∈ st.spans ++ _; exact List.mem_append.2 (Or.inl hx)) (hS.cov p hp)

theorem finishComment_full {cfg : Cfg} {sql : Sql} {st st' : St} {w : List Char}
    (hS : SInv sql st) (h : finishComment cfg sql st w = .ok st') : CInv sql st' ∧ st.start < st'.current := by
  unfold finishComment at h
  split at h
  · have := add_full hS.pushSpan h
    exact this
  · cases h
    have hp := hS.pushSpan
    refine ⟨⟨hS.le, hS.sorted, ?_, ?_, hp.pi⟩, hS.lt⟩
    · intro t ht
      have := hS.toks t ht
      have hlt := hS.lt
      exact ⟨this.1, by simp only [pushSpan]; omega⟩
    · intro p hp'
      simp only [pushSpan] at hp'
      by_cases hps : p < st.start
      · exact hp.cov p hps
      · refine Or.inr (Or.inr ⟨(st.start, st.current - 1), by simp [pushSpan], ?_, ?_⟩)
        · simp only; omega
        · simp only; omega

theorem scanComment_full {cfg : Cfg} {sql : Sql} (hW : WF sql) {st st' : St} {w : List Char} {res : Res St}
    (hS : SInv sql st) (h : scanComment cfg sql st w = some res) (hr : res = .ok st') :
    CInv sql st' ∧ st.start < st'.current := by
  unfold scanComment at h
  split at h
  · cases h
    obtain ⟨s, h1, h2⟩ := bind_ok hr
    have f1 := lineCommentLoop_fw hW _ _ _ hS.le h1
    have := finishComment_full (hS.fw f1) h2
    exact ⟨this.1, by rw [← f1.start_eq]; exact this.2⟩
  · split at h
    · cases h
      obtain ⟨s, h1, h2⟩ := bind_ok hr
      obtain ⟨f1, _, _⟩ := advance_fw h1
      obtain ⟨s2, h3, h4⟩ := bind_ok h2
      have f2 := commentLoop_fw hW _ _ _ _ f1.le h3
      obtain ⟨s3, h5, h6⟩ := bind_ok h4
      have f3 : Fw sql s2 s3 := by
        split at h5
        · exact (advance_fw h5).1
        · cases h5; exact Fw.refl f2.le
      have f123 := (f1.trans f2).trans f3
      have := finishComment_full (hS.fw f123) h6
      exact ⟨this.1, by rw [← f123.start_eq]; exact this.2⟩
    · cases h

theorem kwAdd_full {cfg : Cfg} {sql : Sql} {st st' : St} {w : List Char}
    (hS : SInv sql st) (h : kwAdd cfg sql st w = .ok st') : CInv sql st' ∧ st.start < st'.current := by
  unfold kwAdd at h
  split at h
  · exact add_full hS h
  · cases h

theorem kwFallback_full {cfg : Cfg} {sql : Sql} (hW : WF sql) {st st' : St} {c0 : Char}
    (hS : SInv sql st) (h : kwFallback cfg sql st c0 = .ok st') : CInv sql st' ∧ st.start < st'.current := by
  unfold kwFallback at h
  split at h
  · exact add_full hS h
  · exact scanVar_full hW hS h

theorem scanWord_full {cfg : Cfg} {sql : Sql} (hW : WF sql) {st st' : St} {c0 : Char} {r : KwR} {w : List Char}
    (hS : SInv sql st) (h : scanWord cfg sql st c0 r w = .ok st') : CInv sql st' ∧ st.start < st'.current := by
  unfold scanWord at h
  split at h
  · rename_i res hres
    exact scanString_full hW hS hres h
  · split at h
    · rename_i res hres
      exact scanComment_full hW hS hres h
    · split at h
      · split at h
        · exact kwAdd_full hS h
        · obtain ⟨s, h1, h2⟩ := bind_ok h
          have f1 := advanceKw_fw hS.le h1
          have := kwAdd_full (hS.fw f1) h2
          exact ⟨this.1, by rw [← f1.start_eq]; exact this.2⟩
      · exact kwFallback_full hW hS h

theorem scanKeywords_full {cfg : Cfg} {sql : Sql} (hW : WF sql) {st st' : St}
    (hS : SInv sql st) (h : scanKeywords cfg sql st = .ok st') : CInv sql st' ∧ st.start < st'.current := by
  unfold scanKeywords at h
  split at h
  · cases h
  · split at h
    · exact scanWord_full hW hS h
    · exact kwFallback_full hW hS h


/-! ### one `_scan` iteration, the loop, the whole run -/

theorem skipBlanks_spec (sql : Sql) : ∀ (f cur : Nat),
    cur ≤ skipBlanks sql f cur ∧ (cur ≤ sql.size → skipBlanks sql f cur ≤ sql.size) ∧
    ∀ j, cur ≤ j → j < skipBlanks sql f cur → ∃ ch, sql[j]? = some ch ∧ (ch.c = ' ' ∨ ch.c = '\t') := by
  intro f
  induction f with
  | zero => intro cur; simp only [skipBlanks]; exact ⟨Nat.le_refl _, id, fun j h1 h2 => by omega⟩
  | succ f ih =>
    intro cur
    simp only [skipBlanks]
    cases hc : sql[cur]? with
    | none => simp only; exact ⟨Nat.le_refl _, id, fun j h1 h2 => by omega⟩
    | some ch0 =>
      simp only
      by_cases hb : (ch0.c == ' ' || ch0.c == '\t') = true
      · simp only [hb, if_true]
        obtain ⟨i1, i2, i3⟩ := ih (cur + 1)
        have hlt : cur < sql.size := by
          rcases Nat.lt_or_ge cur sql.size with h | h
          · exact h
          · have : sql[cur]? = none := Array.getElem?_eq_none h
            rw [this] at hc; cases hc
        refine ⟨by omega, fun _ => i2 (by omega), ?_⟩
        intro j h1 h2
        by_cases hj0 : j = cur
        · subst hj0
          refine ⟨ch0, hc, ?_⟩
          simpa [Bool.or_eq_true, beq_iff_eq] using hb
        · exact i3 j (by omega) h2
      · have hb' : (ch0.c == ' ' || ch0.c == '\t') = false := by
          cases h : (ch0.c == ' ' || ch0.c == '\t') <;> simp_all
        simp only [hb', Bool.false_eq_true, if_false]
        exact ⟨Nat.le_refl _, id, fun j h1 h2 => by omega⟩

theorem dispatch_full {cfg : Cfg} {sql : Sql} (hW : WF sql) {s st' : St} {ch : Ch}
    (hS : SInv sql s) (hone : s.current = s.start + 1) (hch : char sql s = some ch)
    (h : dispatch cfg sql s ch = .ok st') : CInv sql st' ∧ s.start < st'.current := by
  unfold dispatch at h
  split at h
  · rename_i hsp
    cases h
    have hget : sql[s.start]? = some ch := by
      unfold char at hch
      have : ¬ s.current = 0 := by omega
      simp only [this, if_false] at hch
      have e : s.current - 1 = s.start := by omega
      rw [e] at hch; exact hch
    refine ⟨⟨hS.le, hS.sorted, ?_, ?_, hS.pi⟩, hS.lt⟩
    · intro t ht
      have := hS.toks t ht
      exact ⟨this.1, by omega⟩
    · intro p hp
      by_cases hps : p < s.start
      · exact hS.cov p hps
      · have : p = s.start := by omega
        subst this
        exact Or.inl (by simp only [isSpaceAt, hget]; exact hsp)
  · split at h
    · exact scanNumber_full hW hS h
    · split at h
      · exact scanIdentifier_full hW hS h
      · exact scanKeywords_full hW hS h

theorem scanStep_full {cfg : Cfg} {sql : Sql} (hW : WF sql) {st st' : St}
    (hC : CInv sql st) (h : scanStep cfg sql st = .ok st') : CInv sql st' ∧ st.current < st'.current := by
  unfold scanStep at h
  obtain ⟨s, h1, h2⟩ := bind_ok h
  obtain ⟨fw, hcur, hoff⟩ := advance_fw h1
  obtain ⟨b1, b2, b3⟩ := skipBlanks_spec sql (sql.size - st.current) st.current
  have b2 := b2 hC.le
  have hstart : s.start = blankEnd sql st := fw.start_eq
  have htoks : s.toks = st.toks := fw.toks_eq
  have hspans : s.spans = st.spans := fw.spans_eq
  have hpi : PIs sql s := by
    intro hs
    have := hC.pi (fw.skew_mono hs)
    exact ⟨fw.pinv hs this.1, by rw [htoks]; exact this.2⟩
  simp only at hcur
  split at h2
  · cases h2
  · rename_i ch hch
    by_cases hbl : blankEnd sql st > st.current
    · -- blanks were skipped: the cursor stands on the last blank
      have hoffv : stepOff sql st = blankEnd sql st - st.current := by simp [stepOff, hbl]
      have hscur : s.current = blankEnd sql st := by rw [hcur, hoffv]; omega
      obtain ⟨chb, hgetb, hblank⟩ := b3 (blankEnd sql st - 1) (by unfold blankEnd at hbl ⊢; omega) (by unfold blankEnd at hbl ⊢; omega)
      have hget : sql[s.current - 1]? = some ch := by
        unfold char at hch
        have : ¬ s.current = 0 := by omega
        simpa [this] using hch
      rw [hscur] at hget
      rw [hgetb] at hget
      have hceq : chb = ch := Option.some.inj hget
      have hsp : ch.space = true := by
        rw [← hceq]; exact (hW _ _ hgetb).1 (by rcases hblank with h | h <;> simp [h])
      unfold dispatch at h2
      simp only [hsp, if_true] at h2
      cases h2
      refine ⟨⟨fw.le, by rw [htoks]; exact hC.sorted, ?_, ?_, hpi⟩, by omega⟩
      · intro t ht
        rw [htoks] at ht
        have := hC.toks t ht
        exact ⟨this.1, by omega⟩
      · intro p hp
        rw [hscur] at hp
        by_cases hpc : p < st.current
        · exact (covered_congr htoks hspans p).2 (hC.cov p hpc)
        · obtain ⟨chp, hgp, hbp⟩ := b3 p (by omega) (by unfold blankEnd at hp; exact hp)
          have := (hW _ _ hgp).1 (by rcases hbp with h | h <;> simp [h])
          exact Or.inl (by simp only [isSpaceAt, hgp]; exact this)
    · -- no blanks: a token (or a single whitespace character) starts at the old cursor
      have hbe : blankEnd sql st = st.current := by unfold blankEnd at hbl ⊢; omega
      have hoffv : stepOff sql st = 1 := by simp [stepOff, hbl]
      have hscur : s.current = st.current + 1 := by rw [hcur, hoffv]
      have hS : SInv sql s := by
        refine ⟨by omega, fw.le, by rw [htoks]; exact hC.sorted, ?_, ?_, hpi⟩
        · intro t ht
          rw [htoks] at ht
          have := hC.toks t ht
          exact ⟨this.1, by omega⟩
        · intro p hp
          exact (covered_congr htoks hspans p).2 (hC.cov p (by omega))
      have := dispatch_full hW hS (by omega) hch h2
      exact ⟨this.1, by omega⟩

theorem scanLoop_full {cfg : Cfg} {sql : Sql} (hW : WF sql) :
    ∀ (f : Nat) (st st' : St), CInv sql st → scanLoop cfg sql f st = .ok st' →
      CInv sql st' ∧ st.current ≤ st'.current ∧ (sql.size = 0 ∨ st'.current = sql.size) := by
  intro f
  induction f with
  | zero => intro st st' _ h; simp only [scanLoop] at h; cases h
  | succ f ih =>
    intro st st' hC h
    simp only [scanLoop] at h
    split at h
    · rename_i hend
      cases h
      refine ⟨hC, Nat.le_refl _, ?_⟩
      simp only [Bool.or_eq_true, decide_eq_true_eq, ge_iff_le] at hend
      rcases hend with h | h
      · exact Or.inl h
      · exact Or.inr (Nat.le_antisymm hC.le h)
    · obtain ⟨s, h1, h2⟩ := bind_ok h
      obtain ⟨c1, c2⟩ := scanStep_full hW hC h1
      obtain ⟨i1, i2, i3⟩ := ih _ _ c1 h2
      exact ⟨i1, by omega, i3⟩

theorem cinv_init (sql : Sql) : CInv sql {} := by
  refine ⟨Nat.zero_le _, List.Pairwise.nil, ?_, ?_, ?_⟩
  · intro t ht; cases ht
  · intro p hp; exact absurd hp (Nat.not_lt_zero _)
  · intro _
    exact ⟨Or.inl ⟨rfl, rfl, rfl⟩, by intro t ht; cases ht⟩

theorem lex_full {cfg : Cfg} {sql : Sql} (hW : WF sql) {st : St} (h : lex cfg sql = .ok st) :
    CInv sql st ∧ (sql.size = 0 ∨ st.current = sql.size) := by
  unfold lex at h
  obtain ⟨c, _, e⟩ := scanLoop_full hW _ _ _ (cinv_init sql) h
  exact ⟨c, e⟩


/-! ### unconditional versions used by the property file -/

theorem hasLoneCR_of_no_cr {sql : Sql} {a n : Nat} (h : hasCh sql '\r' a n = false) : hasLoneCR sql a n = false := by
  induction n generalizing a with
  | zero => rfl
  | succ n ih =>
    simp only [hasCh, Bool.or_eq_false_iff] at h
    simp only [hasLoneCR, Bool.or_eq_false_iff]
    refine ⟨?_, ih h.2⟩
    have : isCR sql a = false := by
      unfold isCR
      cases hc : sql[a]? with
      | none => rfl
      | some ch => have := h.1; rw [hc] at this; exact this
    simp [this]

/-- `_advance(alnum=True)`: one exact step followed by the alnum batch (a jump over alphanumeric characters) -/
theorem advanceAlnum_pinv {sql : Sql} (hW : WF sql) {st st' : St} (hP : PInv sql st)
    (h : advanceAlnum sql st = .ok st') : PInv sql st' ∧ st'.skew = st.skew := by
  unfold advanceAlnum at h
  cases h1 : advance sql st 1 with
  | ok st1 =>
    rw [h1] at h
    simp only at h
    have hP1 : PInv sql st1 := advance_pinv_aux sql st st1 1 (Nat.le_refl 1) hP rfl h1
    obtain ⟨_, hle1, he1⟩ := advance_ok h1
    have hsk : st1.skew = st.skew := by subst he1; simp [hasNL]
    have hc1 : st1.current = st.current + 1 := by subst he1; rfl
    cases hch : char sql st1 with
    | none => rw [hch] at h; simp only at h; cases h; exact ⟨hP1, hsk⟩
    | some ch =>
      rw [hch] at h; simp only at h
      by_cases ha : ch.alnum = true
      · simp only [ha, if_true] at h
        cases h
        obtain ⟨r1, r2, r3⟩ := alnumRun_spec sql (sql.size - st1.current) st1.current
        have r2 := r2 (by omega)
        have hcur1 : 1 ≤ st1.current := by omega
        have hget : sql[st1.current - 1]? = some ch := by
          unfold char at hch
          have : ¬ st1.current = 0 := by omega
          simpa [this] using hch
        refine ⟨?_, hsk⟩
        have e : alnumRun sql (sql.size - st1.current) st1.current
            = st1.current + (alnumRun sql (sql.size - st1.current) st1.current - st1.current) := by omega
        have := shift_pinv (sql := sql) (st := st1)
          (n := alnumRun sql (sql.size - st1.current) st1.current - st1.current) hcur1
          (not_nl_of_alnum hW hget ha)
          (hasNL_of_forall (fun j h1 h2 => by
            rcases Nat.lt_or_ge j sql.size with hj | hj
            · have hsome : sql[j]? = some sql[j] := Array.getElem?_eq_getElem hj
              exact not_nl_of_alnum hW hsome (r3 j _ h1 (by omega) hsome)
            · omega))
          (by omega) hP1
        rw [← e] at this
        exact this
      · simp only [ha] at h
        cases h; exact ⟨hP1, hsk⟩
  | error c => rw [h1] at h; cases h
  | unsupported w => rw [h1] at h; cases h
  | fuel => rw [h1] at h; cases h

/-- the repaired fast path (guard: no CR in the literal) never raises `skew` unless the delimiter is LF -/
theorem fastString_fixed_skew {cfg : Cfg} {sql : Sql} {st st' : St} {x : XCfg} {text : List Char}
    (hfix : cfg.fixLoneCR = true) (hd : x.delim ≠ ['\n'])
    (h : fastString cfg sql st x = some (st', text)) : st'.skew = st.skew := by
  unfold fastString at h
  split at h
  · rename_i d hdel
    split at h
    · cases h
    · split at h
      · cases h
      · rename_i hg
        injection h with h
        injection h with h _
        subst h
        simp only [fastBlocked, hfix, Bool.true_and, Bool.or_eq_true, not_or, Bool.not_eq_true, decide_eq_true_eq] at hg
        have hcr := hasLoneCR_of_no_cr hg.1.2
        have hdn : (d == '\n') = false := by
          cases hq : (d == '\n')
          · rfl
          · exfalso; apply hd; rw [hdel]; simpa using hq
        simp [hcr, hdn]
  · cases h

end SqlglotModel.Lex
