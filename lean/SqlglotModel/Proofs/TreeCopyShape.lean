/-
  Proofs/TreeCopyShape.lean — the copy made by `__deepcopy__` has the same abstraction as the original
  (C09 `copy_equal_disjoint`).
-/
import SqlglotModel.Proofs.TreeCopy

namespace SqlglotModel.Tree

variable {H : Type}

/-! ### the pointer-free abstraction of the tree below a node -/

/-- exact structure: classes, arg keys in dict order, scalars verbatim, lists in order — no ids, no back pointers,
    no hash caches -/
inductive Shape where
  | leaf (s : Scalar)
  | list (items : List Shape)
  | node (cls : String) (raw : Bool) (args : List (String × Shape))

def shapeItems (rec : Id → Option Shape) : List Item → Option (List Shape)
  | [] => some []
  | .leaf s :: r =>
    match shapeItems rec r with
    | some r' => some (.leaf s :: r')
    | none => none
  | .node c :: r =>
    match rec c, shapeItems rec r with
    | some x, some r' => some (x :: r')
    | _, _ => none

def shapeArg (rec : Id → Option Shape) : Arg → Option Shape
  | .leaf s => some (.leaf s)
  | .one c => rec c
  | .many items => (shapeItems rec items).map .list

def shapeArgs (rec : Id → Option Shape) : List (String × Arg) → Option (List (String × Shape))
  | [] => some []
  | (k, a) :: r =>
    match shapeArg rec a, shapeArgs rec r with
    | some x, some r' => some ((k, x) :: r')
    | _, _ => none

/-- `abs`: the abstraction of the tree below `n` (`none`: fuel exhausted) -/
def shape : Nat → Heap H → Id → Option Shape
  | 0, _, _ => none
  | f + 1, h, n => (shapeArgs (shape f h) (h n).args).map (.node (h n).cls (h n).raw)

/-- the nodes of the tree below `r` -/
inductive Reach (h : Heap H) (r : Id) : Id → Prop where
  | refl : Reach h r r
  | step {p c : Id} {k : String} {i : Option Nat} : Reach h r p → Stored h p k i c → Reach h r c

theorem reach_in_region {h : Heap H} {R : Id → Prop} (hR : Region h R) {r m : Id} (hr : R r) (hm : Reach h r m) :
    R m := by
  induction hm with
  | refl => exact hr
  | step _ hs ih => exact hR.down _ _ _ _ ih hs

/-! ### simulation between an original and its copy -/

def ItemRel (ρ : Id → Id → Prop) : Item → Item → Prop
  | .leaf s, .leaf t => s = t
  | .node a, .node b => ρ a b
  | _, _ => False

def ItemsRel (ρ : Id → Id → Prop) : List Item → List Item → Prop
  | [], [] => True
  | x :: xs, y :: ys => ItemRel ρ x y ∧ ItemsRel ρ xs ys
  | _, _ => False

def ArgRel (ρ : Id → Id → Prop) : Arg → Arg → Prop
  | .leaf s, .leaf t => s = t
  | .one a, .one b => ρ a b
  | .many xs, .many ys => ItemsRel ρ xs ys
  | _, _ => False

def ArgsRel (ρ : Id → Id → Prop) : List (String × Arg) → List (String × Arg) → Prop
  | [], [] => True
  | (k, x) :: xs, (k', y) :: ys => k = k' ∧ ArgRel ρ x y ∧ ArgsRel ρ xs ys
  | _, _ => False

theorem ItemsRel.mono {ρ ρ' : Id → Id → Prop} (hm : ∀ a b, ρ a b → ρ' a b) :
    ∀ {xs ys : List Item}, ItemsRel ρ xs ys → ItemsRel ρ' xs ys
  | [], [], _ => trivial
  | [], _ :: _, h => h.elim
  | _ :: _, [], h => h.elim
  | x :: xs, y :: ys, ⟨h1, h2⟩ => by
    refine ⟨?_, ItemsRel.mono hm h2⟩
    cases x <;> cases y <;> simp_all [ItemRel]

theorem ArgRel.mono {ρ ρ' : Id → Id → Prop} (hm : ∀ a b, ρ a b → ρ' a b) {x y : Arg} (h : ArgRel ρ x y) :
    ArgRel ρ' x y := by
  cases x <;> cases y <;> simp_all [ArgRel]
  exact ItemsRel.mono hm h

theorem ArgsRel.mono {ρ ρ' : Id → Id → Prop} (hm : ∀ a b, ρ a b → ρ' a b) :
    ∀ {xs ys : List (String × Arg)}, ArgsRel ρ xs ys → ArgsRel ρ' xs ys
  | [], [], _ => trivial
  | [], _ :: _, h => h.elim
  | _ :: _, [], h => h.elim
  | (k, x) :: xs, (k', y) :: ys, ⟨h1, h2, h3⟩ => ⟨h1, ArgRel.mono hm h2, ArgsRel.mono hm h3⟩

theorem ItemsRel.snoc {ρ : Id → Id → Prop} : ∀ {xs ys : List Item} {x y : Item}, ItemsRel ρ xs ys → ItemRel ρ x y →
    ItemsRel ρ (xs ++ [x]) (ys ++ [y])
  | [], [], _, _, _, h => ⟨h, trivial⟩
  | [], _ :: _, _, _, h, _ => h.elim
  | _ :: _, [], _, _, h, _ => h.elim
  | _ :: _, _ :: _, _, _, ⟨h1, h2⟩, h => ⟨h1, ItemsRel.snoc h2 h⟩

theorem ArgsRel.snoc {ρ : Id → Id → Prop} : ∀ {xs ys : List (String × Arg)} {k : String} {x y : Arg},
    ArgsRel ρ xs ys → ArgRel ρ x y → ArgsRel ρ (xs ++ [(k, x)]) (ys ++ [(k, y)])
  | [], [], _, _, _, _, h => ⟨rfl, h, trivial⟩
  | [], _ :: _, _, _, _, h, _ => h.elim
  | _ :: _, [], _, _, _, h, _ => h.elim
  | (_, _) :: _, (_, _) :: _, _, _, _, ⟨h1, h2, h3⟩, h => ⟨h1, h2, ArgsRel.snoc h3 h⟩

theorem ArgsRel.keys {ρ : Id → Id → Prop} : ∀ {xs ys : List (String × Arg)}, ArgsRel ρ xs ys →
    xs.map Prod.fst = ys.map Prod.fst
  | [], [], _ => rfl
  | [], _ :: _, h => h.elim
  | _ :: _, [], h => h.elim
  | (k, _) :: xs, (k', _) :: ys, ⟨h1, _, h3⟩ => by simp [h1, ArgsRel.keys h3]

/-- a simulation: related nodes have the same class and pointwise related args -/
def Sim (h h' : Heap H) (ρ : Id → Id → Prop) : Prop :=
  ∀ a b, ρ a b → (h' b).cls = (h a).cls ∧ (h' b).raw = (h a).raw ∧ ArgsRel ρ (h a).args (h' b).args

theorem shapeItems_sim {ρ : Id → Id → Prop} {r r' : Id → Option Shape} (hr : ∀ a b, ρ a b → r a = r' b) :
    ∀ {xs ys : List Item}, ItemsRel ρ xs ys → shapeItems r xs = shapeItems r' ys
  | [], [], _ => rfl
  | [], _ :: _, h => h.elim
  | _ :: _, [], h => h.elim
  | x :: xs, y :: ys, ⟨h1, h2⟩ => by
    have ih := shapeItems_sim hr h2
    cases x <;> cases y <;> simp only [ItemRel] at h1
    · simp only [shapeItems]; rw [hr _ _ h1, ih]
    · subst h1; simp only [shapeItems]; rw [ih]

theorem shapeArgs_sim {ρ : Id → Id → Prop} {r r' : Id → Option Shape} (hr : ∀ a b, ρ a b → r a = r' b) :
    ∀ {xs ys : List (String × Arg)}, ArgsRel ρ xs ys → shapeArgs r xs = shapeArgs r' ys
  | [], [], _ => rfl
  | [], _ :: _, h => h.elim
  | _ :: _, [], h => h.elim
  | (k, x) :: xs, (k', y) :: ys, ⟨h1, h2, h3⟩ => by
    have ih := shapeArgs_sim hr h3
    subst h1
    have ha : shapeArg r x = shapeArg r' y := by
      cases x <;> cases y <;> simp only [ArgRel] at h2
      · simp only [shapeArg]; exact hr _ _ h2
      · subst h2; rfl
      · simp only [shapeArg]; rw [shapeItems_sim hr h2]
    simp only [shapeArgs]; rw [ha, ih]

/-- related nodes have the same abstraction -/
theorem shape_sim {h h' : Heap H} {ρ : Id → Id → Prop} (hs : Sim h h' ρ) :
    ∀ (fuel : Nat) (a b : Id), ρ a b → shape fuel h a = shape fuel h' b
  | 0, _, _, _ => rfl
  | f + 1, a, b, hab => by
    obtain ⟨e1, e2, e3⟩ := hs a b hab
    simp only [shape]
    rw [e1, e2, shapeArgs_sim (fun a' b' h' => shape_sim hs f a' b' h') e3]

/-! ### what the copy steps leave alone -/

theorem new_edit_static {fuel : Nat} {h hi : Heap H} {nx : Nat} {c : Id} {cls : String} {raw : Bool}
    (hinv : inval fuel (opNew h nx cls raw) (some c) = some hi) {m : Id} (hm : m ≠ nx) :
    (hi m).args = (h m).args ∧ (hi m).cls = (h m).cls ∧ (hi m).raw = (h m).raw := by
  have ho := inval_hashOnly fuel _ _ hi hinv m
  rw [opNew_other _ _ _ hm] at ho
  exact ⟨ho.2.2.1, ho.1, ho.2.1⟩

theorem setChild_static {fuel : Nat} {h h2 : Heap H} {nx : Nat} {c : Id} {k cls : String} {raw : Bool}
    (he : opSet fuel (opNew h nx cls raw) c k (.node nx) none true = some h2) (m : Id) (h1 : m ≠ c) (h2' : m ≠ nx) :
    (h2 m).args = (h m).args ∧ (h2 m).cls = (h m).cls ∧ (h2 m).raw = (h m).raw := by
  obtain ⟨hi, hinv, h2def⟩ := opSet_node_spec he
  have e : h2 m = hi m := by rw [h2def, setPtr_other _ _ _ _ h2']; simp [setArgs, upd, h1]
  rw [e]; exact new_edit_static hinv h2'

theorem appendChild_static {fuel : Nat} {h h2 : Heap H} {nx : Nat} {c : Id} {k cls : String} {raw : Bool}
    (he : opAppend fuel (opNew h nx cls raw) c k (.node nx) = some h2) (m : Id) (h1 : m ≠ c) (h2' : m ≠ nx) :
    (h2 m).args = (h m).args ∧ (h2 m).cls = (h m).cls ∧ (h2 m).raw = (h m).raw := by
  obtain ⟨hi, hinv, h2def⟩ := opAppend_spec he
  have e : h2 m = hi m := by
    rw [h2def]; unfold appendCoreSpec
    simp only
    rw [setPtr_other _ _ _ _ h2']; simp [setArgs, upd, h1]
  rw [e]; exact new_edit_static hinv h2'

theorem appendLeaf_static {fuel : Nat} {h h2 : Heap H} {c : Id} {k : String} {s : Scalar}
    (he : opAppend fuel h c k (.leaf s) = some h2) (m : Id) (h1 : m ≠ c) :
    (h2 m).args = (h m).args ∧ (h2 m).cls = (h m).cls ∧ (h2 m).raw = (h m).raw := by
  obtain ⟨hi, hinv, h2def⟩ := opAppend_spec he
  have e : h2 m = hi m := by
    rw [h2def]; unfold appendCoreSpec
    simp [setArgs, upd, h1]
  have ho := inval_hashOnly fuel _ _ hi hinv m
  rw [e]; exact ⟨ho.2.2.1, ho.1, ho.2.1⟩

/-! ### dict facts for a key that sits at the end -/

theorem getKey_none_of_notin {k : String} {A : List (String × Arg)} (hk : k ∉ A.map Prod.fst) : getKey k A = none :=
  getKey_none_of_not_hasKey (by
    cases hh : hasKey k A with
    | false => rfl
    | true => exact absurd (hasKey_iff.mp hh) hk)

theorem listOf_snoc {k : String} {A : List (String × Arg)} {zs : List Item} (hk : k ∉ A.map Prod.fst) :
    listOf k (A ++ [(k, .many zs)]) = zs := by
  unfold listOf
  rw [getKey_append_of_none (getKey_none_of_notin hk)]
  simp

theorem map_noKey {k : String} {v : Arg} : ∀ {A : List (String × Arg)}, k ∉ A.map Prod.fst →
    A.map (fun e => if e.1 = k then (k, v) else e) = A
  | [], _ => rfl
  | (k', a) :: r, hk => by
    simp only [List.map_cons, List.mem_cons, not_or] at hk
    have : ¬ k' = k := fun e => hk.1 e.symm
    simp only [List.map_cons, this, if_false]
    rw [map_noKey hk.2]

theorem setKey_snoc {k : String} {u v : Arg} {A : List (String × Arg)} (hk : k ∉ A.map Prod.fst) :
    setKey k v (A ++ [(k, u)]) = A ++ [(k, v)] := by
  unfold setKey
  have hh : hasKey k (A ++ [(k, u)]) = true := hasKey_iff.mpr (by simp)
  simp only [hh, if_true, List.map_append, List.map_cons, List.map_nil]
  rw [map_noKey hk]

theorem ArgsRel.unsnoc {ρ : Id → Id → Prop} : ∀ {d ys : List (String × Arg)} {k : String} {x : Arg},
    ArgsRel ρ (d ++ [(k, x)]) ys → ∃ A y, ys = A ++ [(k, y)] ∧ ArgsRel ρ d A ∧ ArgRel ρ x y
  | [], [], _, _, h => h.elim
  | [], [(k', y)], _, _, ⟨h1, h2, _⟩ => ⟨[], y, by rw [h1]; rfl, trivial, h2⟩
  | [], _ :: _ :: _, _, _, ⟨_, _, h3⟩ => h3.elim
  | _ :: _, [], _, _, h => h.elim
  | (k0, x0) :: d, (k0', y0) :: ys, k, x, ⟨h1, h2, h3⟩ => by
    obtain ⟨A, y, e, r1, r2⟩ := ArgsRel.unsnoc (d := d) (ys := ys) (k := k) (x := x) h3
    exact ⟨(k0', y0) :: A, y, by rw [e]; rfl, ⟨h1, h2, r1⟩, r2⟩

/-! ### the simulation invariant of the copy loop -/

/-- pairs (original, copy) known so far: already visited, or still on the stack -/
def rho (vis st : List (Id × Id)) : Id → Id → Prop := fun a b => (a, b) ∈ vis ∨ (a, b) ∈ st

theorem rho_mono_push {vis st : List (Id × Id)} {q p : Id × Id} (a b : Id) (hr : rho vis (q :: st) a b) :
    rho vis (q :: p :: st) a b := by
  rcases hr with h | h
  · exact .inl h
  · rcases List.mem_cons.mp h with e | e
    · exact .inr (by rw [e]; simp)
    · exact .inr (by simp [e])

/-- during the visit of `(n, c)` with the arguments `d` of `n` processed -/
structure VS (h0 : Heap H) (n c : Id) (d : List (String × Arg)) (vis : List (Id × Id)) (h : Heap H) (nx : Nat)
    (st : List (Id × Id)) : Prop where
  visOK : ∀ p, p ∈ vis → nx > p.2 ∧ p.2 ≠ c ∧ (h p.2).cls = (h0 p.1).cls ∧ (h p.2).raw = (h0 p.1).raw ∧
    ArgsRel (rho vis ((n, c) :: st)) (h0 p.1).args (h p.2).args
  disj : ∀ p, p ∈ vis → ∀ q, q ∈ st → p.2 ≠ q.2
  cur : ArgsRel (rho vis ((n, c) :: st)) d (h c).args

theorem VS.keys {h0 h : Heap H} {n c : Id} {d : List (String × Arg)} {vis st : List (Id × Id)} {nx : Nat}
    (s : VS h0 n c d vis h nx st) : d.map Prod.fst = (h c).args.map Prod.fst := ArgsRel.keys s.cur

/-- a step that changes only `c`'s args (by `newArgs`) and keeps the fields of every other old cell -/
theorem VS.step {h0 h h2 : Heap H} {n c : Id} {d d' : List (String × Arg)} {vis st st' : List (Id × Id)} {nx nx' : Nat}
    (s : VS h0 n c d vis h nx st) (hnx : nx ≤ nx')
    (hst : ∀ a b, rho vis ((n, c) :: st) a b → rho vis ((n, c) :: st') a b)
    (hstatic : ∀ m, m ≠ c → nx > m → (h2 m).args = (h m).args ∧ (h2 m).cls = (h m).cls ∧ (h2 m).raw = (h m).raw)
    (hdisj : ∀ p, p ∈ vis → ∀ q, q ∈ st' → p.2 ≠ q.2)
    (hcur : ArgsRel (rho vis ((n, c) :: st')) d' (h2 c).args) : VS h0 n c d' vis h2 nx' st' := by
  refine ⟨?_, hdisj, hcur⟩
  intro p hp
  obtain ⟨a1, a2, a3, a4, a5⟩ := s.visOK p hp
  obtain ⟨b1, b2, b3⟩ := hstatic p.2 a2 a1
  exact ⟨by omega, a2, by rw [b2]; exact a3, by rw [b3]; exact a4, by rw [b1]; exact ArgsRel.mono hst a5⟩

/-- the shape of `c`'s args while the list argument `k` is being filled -/
theorem cur_list {ρ : Id → Id → Prop} {d ys : List (String × Arg)} {k : String} {is1 : List Item}
    (hc : ArgsRel ρ (d ++ [(k, .many is1)]) ys) (hk : k ∉ d.map Prod.fst) :
    ∃ A zs, ys = A ++ [(k, .many zs)] ∧ ArgsRel ρ d A ∧ ItemsRel ρ is1 zs ∧ k ∉ A.map Prod.fst := by
  obtain ⟨A, y, e, r1, r2⟩ := ArgsRel.unsnoc hc
  cases y with
  | many zs => exact ⟨A, zs, e, r1, r2, by rw [← ArgsRel.keys r1]; exact hk⟩
  | one c => simp [ArgRel] at r2
  | leaf s => simp [ArgRel] at r2

theorem dcItems_sim {F : HashFns H} {h0 : Heap H} {base : Nat} {n c : Id} {fuel : Nat} {k : String}
    {d : List (String × Arg)} {vis : List (Id × Id)} (hk : k ∉ d.map Prod.fst) :
    ∀ (items is1 : List Item) (h : Heap H) (nx : Nat) (st : List (Id × Id)) (dv : List (String × Arg)) (x : Option Id)
      (h' : Heap H) (nx' : Nat) (st' : List (Id × Id)),
      (∀ w, Item.node w ∈ items → base > w) → V F h0 base n c dv x h nx st →
      VS h0 n c (d ++ [(k, .many is1)]) vis h nx st →
      dcItems fuel c k h nx st items = some (h', nx', st') →
      VS h0 n c (d ++ [(k, .many (is1 ++ items))]) vis h' nx' st'
  | [], is1, h, nx, st, dv, x, h', nx', st', _, _, s, he => by
    simp only [dcItems, Option.some.injEq, Prod.mk.injEq] at he
    obtain ⟨e1, e2, e3⟩ := he; subst e1; subst e2; subst e3
    simpa using s
  | .leaf sc :: r, is1, h, nx, st, dv, x, h', nx', st', hw, v, s, he => by
    simp only [dcItems] at he
    split at he
    · next h1 h1e =>
      obtain ⟨r1, r2, r3, r4, r5, r6⟩ := dc_appendLeaf v.dc v.hx v.cge v.clt h1e
      have v1 : V F h0 base n c dv none h1 nx st := v.plain r1 r2 r3 r4 r6
      obtain ⟨A, zs, eA, rA, rI, hkA⟩ := cur_list s.cur hk
      have s1 : VS h0 n c (d ++ [(k, .many (is1 ++ [.leaf sc]))]) vis h1 nx st := by
        refine s.step (Nat.le_refl _) (fun _ _ hr => hr) (fun m hm _ => appendLeaf_static h1e m hm) s.disj ?_
        rw [r5, eA, listOf_snoc hkA, setKey_snoc hkA]
        exact ArgsRel.snoc rA (show ArgRel _ (.many _) (.many _) from ItemsRel.snoc rI (show ItemRel _ (.leaf sc) (.leaf sc) from rfl))
      have := dcItems_sim hk r (is1 ++ [.leaf sc]) h1 nx st dv none h' nx' st'
        (fun w hm => hw w (List.mem_cons_of_mem _ hm)) v1 s1 he
      simpa using this
    · cases he
  | .node w :: r, is1, h, nx, st, dv, x, h', nx', st', hw, v, s, he => by
    simp only [dcItems] at he
    split at he
    · next h1 h1e =>
      obtain ⟨r1, r2, r3, r4, r5, r6, r7⟩ := dc_appendChild v.dc v.hx v.cge v.clt h1e
      have v1 : V F h0 base n c dv none h1 (nx + 1) ((w, nx) :: st) := v.push (hw w (by simp)) r1 r2 r3 r4 r6 r7
      obtain ⟨A, zs, eA, rA, rI, hkA⟩ := cur_list s.cur hk
      have s1 : VS h0 n c (d ++ [(k, .many (is1 ++ [.node w]))]) vis h1 (nx + 1) ((w, nx) :: st) := by
        refine s.step (Nat.le_succ _) (fun a b hr => rho_mono_push a b hr)
          (fun m hm hlt => appendChild_static h1e m hm (Nat.ne_of_lt hlt)) ?_ ?_
        · intro p hp q hq
          rcases List.mem_cons.mp hq with e | e
          · subst e; exact Nat.ne_of_lt (s.visOK p hp).1
          · exact s.disj p hp q e
        · rw [r5, eA, listOf_snoc hkA, setKey_snoc hkA]
          refine ArgsRel.snoc (ArgsRel.mono (fun a b hr => rho_mono_push a b hr) rA)
            (show ArgRel _ (.many _) (.many _) from ItemsRel.snoc (ItemsRel.mono (fun a b hr => rho_mono_push a b hr) rI) ?_)
          show rho vis ((n, c) :: (w, nx) :: st) w nx
          exact .inr (by simp)
      have := dcItems_sim hk r (is1 ++ [.node w]) h1 (nx + 1) ((w, nx) :: st) dv none h' nx' st'
        (fun w' hm => hw w' (List.mem_cons_of_mem _ hm)) v1 s1 he
      simpa using this
    · cases he

theorem VS.assign {h0 h : Heap H} {n c : Id} {d : List (String × Arg)} {vis st : List (Id × Id)} {nx : Nat} {k : String}
    {a : Arg} (s : VS h0 n c d vis h nx st) (hk : k ∉ d.map Prod.fst) (ha : a = .many [] ∨ ∃ sc, a = .leaf sc) :
    VS h0 n c (d ++ [(k, a)]) vis (assignArg h c k a) nx st := by
  obtain ⟨ec, eo⟩ := assign_cell h c k a
  refine s.step (Nat.le_refl _) (fun _ _ hr => hr) (fun m hm _ => by rw [eo m hm]; exact ⟨rfl, rfl, rfl⟩) s.disj ?_
  rw [ec]; simp only
  rw [setKey_fresh (by rw [← s.keys]; exact hk)]
  apply ArgsRel.snoc s.cur
  rcases ha with e | ⟨sc, e⟩ <;> subst e
  · exact (trivial : ItemsRel _ [] [])
  · exact (rfl : sc = sc)

theorem dcArgs_sim {F : HashFns H} {h0 : Heap H} {base : Nat} {n c : Id} {fuel : Nat} {vis : List (Id × Id)}
    (hI0 : Inv F h0) (hf0 : FreshFrom h0 base) :
    ∀ (r d : List (String × Arg)) (h : Heap H) (nx : Nat) (st : List (Id × Id)) (x : Option Id)
      (h' : Heap H) (nx' : Nat) (st' : List (Id × Id)),
      (h0 n).args = d ++ r → V F h0 base n c d x h nx st → VS h0 n c d vis h nx st →
      dcArgs fuel c h nx st r = some (h', nx', st') → VS h0 n c (h0 n).args vis h' nx' st'
  | [], d, h, nx, st, x, h', nx', st', hs, _, s, he => by
    simp only [dcArgs, Option.some.injEq, Prod.mk.injEq] at he
    obtain ⟨e1, e2, e3⟩ := he; subst e1; subst e2; subst e3
    rw [List.append_nil] at hs
    exact hs ▸ s
  | (k, .leaf sc) :: r, d, h, nx, st, x, h', nx', st', hs, v, s, he => by
    simp only [dcArgs] at he
    have hk := key_fresh_of_split (hI0.keys n) hs
    exact dcArgs_sim hI0 hf0 r (d ++ [(k, .leaf sc)]) _ nx st x h' nx' st' (by rw [hs]; simp)
      (v.assign hk (.inr ⟨sc, rfl⟩)) (s.assign hk (.inr ⟨sc, rfl⟩)) he
  | (k, .one w) :: r, d, h, nx, st, x, h', nx', st', hs, v, s, he => by
    simp only [dcArgs] at he
    split at he
    · next h1 h1e =>
      have hk := key_fresh_of_split (hI0.keys n) hs
      obtain ⟨r1, r2, r3, r4, r5, r6, r7⟩ := dc_setChild v.dc v.hx v.cge v.clt h1e
      have hw : base > w := child_below hI0 hf0 (k := k) (a := .one w) (by rw [hs]; simp) (j := none) (by simp [ArgHas])
      have v1 : V F h0 base n c (d ++ [(k, .one w)]) none h1 (nx + 1) ((w, nx) :: st) :=
        v.push hw r1 r2 r3 r4 r6 r7
      have s1 : VS h0 n c (d ++ [(k, .one w)]) vis h1 (nx + 1) ((w, nx) :: st) := by
        refine s.step (Nat.le_succ _) (fun a b hr => rho_mono_push a b hr)
          (fun m hm hlt => setChild_static h1e m hm (Nat.ne_of_lt hlt)) ?_ ?_
        · intro p hp q hq
          rcases List.mem_cons.mp hq with e | e
          · subst e; exact Nat.ne_of_lt (s.visOK p hp).1
          · exact s.disj p hp q e
        · rw [r5, setKey_fresh (by rw [← s.keys]; exact hk)]
          refine ArgsRel.snoc (ArgsRel.mono (fun a b hr => rho_mono_push a b hr) s.cur) ?_
          show rho vis ((n, c) :: (w, nx) :: st) w nx
          exact .inr (by simp)
      exact dcArgs_sim hI0 hf0 r _ h1 (nx + 1) _ none h' nx' st' (by rw [hs]; simp) v1 s1 he
    · cases he
  | (k, .many items) :: r, d, h, nx, st, x, h', nx', st', hs, v, s, he => by
    simp only [dcArgs] at he
    split at he
    · next h1 nx1 st1 h1e =>
      have hk := key_fresh_of_split (hI0.keys n) hs
      have hw : ∀ w, Item.node w ∈ items → base > w := by
        intro w hm
        obtain ⟨j, hj⟩ := List.mem_iff_getElem?.mp hm
        exact child_below hI0 hf0 (k := k) (a := .many items) (by rw [hs]; simp) (j := some j) (by simpa [ArgHas] using hj)
      have v0 := v.assign (a := .many []) hk (.inl rfl)
      have s0 := s.assign (a := .many []) hk (.inl rfl)
      have s1 := dcItems_sim hk items [] _ nx st _ x h1 nx1 st1 hw v0 s0 h1e
      simp only [List.nil_append] at s1
      -- the next V
      have v1 : ∃ x1, V F h0 base n c (d ++ [(k, .many items)]) x1 h1 nx1 st1 := by
        cases items with
        | nil =>
          obtain ⟨e1, e2, e3⟩ := (dcItems_spec [] _ nx st _ x h1 nx1 st1 hw v0 h1e).1 rfl
          rw [e1, e2, e3]; exact ⟨x, v0⟩
        | cons i is => exact ⟨none, (dcItems_spec (i :: is) _ nx st _ x h1 nx1 st1 hw v0 h1e).2 (by simp) _⟩
      obtain ⟨x1, v1⟩ := v1
      exact dcArgs_sim hI0 hf0 r _ h1 nx1 st1 x1 h' nx' st' (by rw [hs]; simp) v1 s1 he
    · cases he

/-! ### the loop -/

structure LIS (h0 : Heap H) (n0 : Id) (base : Nat) (vis : List (Id × Id)) (h : Heap H) (nx : Nat)
    (st : List (Id × Id)) : Prop where
  visOK : ∀ p, p ∈ vis → nx > p.2 ∧ (h p.2).cls = (h0 p.1).cls ∧ (h p.2).raw = (h0 p.1).raw ∧
    ArgsRel (rho vis st) (h0 p.1).args (h p.2).args
  disj : ∀ p, p ∈ vis → ∀ q, q ∈ st → p.2 ≠ q.2
  root : (n0, base) ∈ vis ∨ st = [(n0, base)]

theorem rho_move {vis st : List (Id × Id)} {q : Id × Id} (a b : Id) (hr : rho vis (q :: st) a b) :
    rho (q :: vis) st a b := by
  rcases hr with h | h
  · exact .inl (List.mem_cons_of_mem _ h)
  · rcases List.mem_cons.mp h with e | e
    · exact .inl (by rw [e]; simp)
    · exact .inr e

theorem dcVisit_sim {F : HashFns H} {h0 : Heap H} {base : Nat} {fuel : Nat} {n0 : Id} (hI0 : Inv F h0)
    (hf0 : FreshFrom h0 base) {h : Heap H} {nx : Nat} {st : List (Id × Id)} {n c : Id} {h1 : Heap H} {nx1 : Nat}
    {st1 : List (Id × Id)} {vis : List (Id × Id)} (li : LI F h0 base h nx ((n, c) :: st))
    (ls : LIS h0 n0 base vis h nx ((n, c) :: st)) (he : dcVisit fuel h nx st n c = some (h1, nx1, st1)) :
    LIS h0 n0 base ((n, c) :: vis) h1 nx1 st1 := by
  obtain ⟨pn, pc1, pc2, pargs, phash, pcls, praw⟩ := li.pend (n, c) (by simp)
  simp only at pn pc1 pc2 pargs phash pcls praw
  have hfn : h n = h0 n := li.dc.frame n pn
  have hnd : (c :: st.map Prod.snd).Nodup := by simpa using li.nodup
  have pend' : ∀ p, p ∈ st → Pending h0 base h nx p := fun p hp => li.pend p (List.mem_cons_of_mem _ hp)
  -- the two starting states (with / without a carried hash) share everything the simulation looks at
  have start : ∀ (hs : Heap H), (∀ m, (hs m).args = (h m).args ∧ (hs m).cls = (h m).cls ∧ (hs m).raw = (h m).raw) →
      VS h0 n c [] vis hs nx st := by
    intro hs hfe
    refine ⟨?_, fun p hp q hq => ls.disj p hp q (List.mem_cons_of_mem _ hq), ?_⟩
    · intro p hp
      obtain ⟨a1, a3, a4, a5⟩ := ls.visOK p hp
      have a2 : p.2 ≠ c := ls.disj p hp (n, c) (by simp)
      obtain ⟨b1, b2, b3⟩ := hfe p.2
      exact ⟨a1, a2, by rw [b2]; exact a3, by rw [b3]; exact a4, by rw [b1]; exact a5⟩
    · rw [(hfe c).1, pargs]; trivial
  have finish : ∀ {x' : Option Id}, V F h0 base n c (h0 n).args x' h1 nx1 st1 → VS h0 n c (h0 n).args vis h1 nx1 st1 →
      LIS h0 n0 base ((n, c) :: vis) h1 nx1 st1 := by
    intro x' v1 s1
    refine ⟨?_, ?_, ?_⟩
    · intro p hp
      rcases List.mem_cons.mp hp with e | e
      · subst e
        exact ⟨v1.clt, v1.cls, v1.raw, ArgsRel.mono (fun a b hr => rho_move a b hr) s1.cur⟩
      · obtain ⟨a1, _, a3, a4, a5⟩ := s1.visOK p e
        exact ⟨a1, a3, a4, ArgsRel.mono (fun a b hr => rho_move a b hr) a5⟩
    · intro p hp q hq
      rcases List.mem_cons.mp hp with e | e
      · subst e
        have hnd1 := v1.nodup
        rw [List.nodup_cons] at hnd1
        intro e'; exact hnd1.1 (List.mem_map.mpr ⟨q, hq, e'.symm⟩)
      · exact s1.disj p e q hq
    · rcases ls.root with hr | hr
      · exact .inl (List.mem_cons_of_mem _ hr)
      · simp only [List.cons.injEq] at hr
        exact .inl (by rw [hr.1]; simp)
  unfold dcVisit at he
  simp only at he
  rw [hfn] at he
  cases hy : (h0 n).hash with
  | none =>
    rw [hy] at he
    simp only at he
    have v0 : V F h0 base n c [] none h nx st :=
      ⟨li.dc, pc1, pc2, pcls, praw, .inl ⟨rfl, phash⟩, pend', hnd⟩
    have s0 := start h (fun m => ⟨rfl, rfl, rfl⟩)
    obtain ⟨x', v1⟩ := dcArgs_spec hI0 hf0 (h0 n).args [] h nx st none h1 nx1 st1 (by simp) v0 he
    exact finish v1 (dcArgs_sim hI0 hf0 (h0 n).args [] h nx st none h1 nx1 st1 (by simp) v0 s0 he)
  | some y =>
    rw [hy] at he
    simp only at he
    have v0 : V F h0 base n c [] (some c) (setHash h c (some y)) nx st := by
      refine ⟨dc_carry li.dc pc1 pc2 phash y, pc1, pc2, by simpa using pcls, by simpa using praw,
        .inr ⟨rfl, by simp [hy], by simpa using pargs, rfl⟩, ?_, hnd⟩
      intro p hp
      have hne : p.2 ≠ c := by
        rw [List.nodup_cons] at hnd
        intro e; exact hnd.1 (List.mem_map.mpr ⟨p, hp, e⟩)
      exact (pend' p hp).mono (Nat.le_refl _) (by simp [setHash, upd, hne])
    have s0 := start (setHash h c (some y)) (fun m => by simp)
    obtain ⟨x', v1⟩ := dcArgs_spec hI0 hf0 (h0 n).args [] _ nx st (some c) h1 nx1 st1 (by simp) v0 he
    exact finish v1 (dcArgs_sim hI0 hf0 (h0 n).args [] _ nx st (some c) h1 nx1 st1 (by simp) v0 s0 he)

theorem dcLoop_sim {F : HashFns H} {h0 : Heap H} {base : Nat} {fuel : Nat} {n0 : Id} (hI0 : Inv F h0)
    (hf0 : FreshFrom h0 base) :
    ∀ (f : Nat) (h : Heap H) (nx : Nat) (st vis : List (Id × Id)) (h' : Heap H) (nx' : Nat),
      LI F h0 base h nx st → LIS h0 n0 base vis h nx st → dcLoop fuel f h nx st = some (h', nx') →
      ∃ vis', LIS h0 n0 base vis' h' nx' []
  | 0, _, _, _, _, _, _, _, _, he => by simp [dcLoop] at he
  | f + 1, h, nx, [], vis, h', nx', _, ls, he => by
    simp only [dcLoop, Option.some.injEq, Prod.mk.injEq] at he
    obtain ⟨e1, e2⟩ := he; subst e1; subst e2; exact ⟨vis, ls⟩
  | f + 1, h, nx, (n, c) :: st, vis, h', nx', li, ls, he => by
    simp only [dcLoop] at he
    split at he
    · next h1 nx1 st1 hv =>
      exact dcLoop_sim hI0 hf0 f h1 nx1 st1 _ h' nx' (dcVisit_spec hI0 hf0 li hv) (dcVisit_sim hI0 hf0 li ls hv) he
    · cases he

/-- reflexive relatedness of the untouched original cells -/
theorem argsRel_refl {ρ : Id → Id → Prop} : ∀ (args : List (String × Arg)),
    (∀ k a, (k, a) ∈ args → ∀ j w, ArgHas a j w → ρ w w) → ArgsRel ρ args args
  | [], _ => trivial
  | (k, a) :: r, hc => by
    refine ⟨rfl, ?_, argsRel_refl r (fun k' a' hm => hc k' a' (List.mem_cons_of_mem _ hm))⟩
    cases a with
    | leaf s => exact (rfl : s = s)
    | one w => exact hc k (.one w) (by simp) none w (by simp [ArgHas])
    | many items =>
      have : ∀ (pre xs : List Item), items = pre ++ xs → ItemsRel ρ xs xs := by
        intro pre xs
        induction xs generalizing pre with
        | nil => intro _; trivial
        | cons x xs ih =>
          intro e
          refine ⟨?_, ih (pre ++ [x]) (by rw [e]; simp)⟩
          cases x with
          | leaf s => exact (rfl : s = s)
          | node w =>
            refine hc k (.many items) (by simp) (some pre.length) w ?_
            simp [ArgHas, e]
      exact this [] items rfl

/-- **the copy has the same abstraction as the original, and the original keeps its own** -/
theorem deepcopy_shape {F : HashFns H} {h0 h' : Heap H} {base nx : Nat} {n c : Id} {fuel : Nat} (hI0 : Inv F h0)
    (hf0 : FreshFrom h0 base) (hn : base > n) (he : opDeepcopy fuel h0 n base = some (h', nx, c)) (fuel' : Nat) :
    shape fuel' h' c = shape fuel' h0 n ∧ shape fuel' h' n = shape fuel' h0 n := by
  have hspec := deepcopy_spec hI0 hf0 hn he
  unfold opDeepcopy at he
  split at he
  · next h1 nx1 hl =>
    simp only [Option.some.injEq, Prod.mk.injEq] at he
    obtain ⟨e1, e2, e3⟩ := he; subst e1; subst e2; subst e3
    have d0 := dc_initial hI0 hf0
    obtain ⟨l1, k1, c1, r1, u1, b1⟩ := dc_opNew d0 (h0 n).cls (h0 n).raw
    have li : LI F h0 base (opNew h0 base (h0 n).cls (h0 n).raw) (base + 1) [(n, base)] := by
      refine ⟨⟨l1, k1, c1, ?_, Nat.le_succ _, ?_, r1⟩, ?_, by simp⟩
      · intro m hm
        exact ⟨b1 m hm, unstored_of_blank_links l1 (b1 m hm)⟩
      · intro m hm; exact opNew_other _ _ _ (Nat.ne_of_lt hm)
      · intro p hp
        simp only [List.mem_singleton] at hp; subst hp
        refine ⟨hn, Nat.le_refl _, Nat.lt_succ_self _, ?_, ?_, ?_, ?_⟩ <;> simp only [opNew_self] <;> rfl
    have ls : LIS h0 n base [] (opNew h0 base (h0 n).cls (h0 n).raw) (base + 1) [(n, base)] :=
      ⟨(fun p hp => nomatch hp), (fun p hp => nomatch hp), Or.inr rfl⟩
    obtain ⟨vis, lf⟩ := dcLoop_sim hI0 hf0 fuel _ _ _ _ _ _ li ls hl
    have hroot : (n, base) ∈ vis := by
      rcases lf.root with hr | hr
      · exact hr
      · cases hr
    have hsim : Sim h0 h1 (fun a b => (a, b) ∈ vis) := by
      intro a b hab
      obtain ⟨_, a2, a3, a4⟩ := lf.visOK (a, b) hab
      refine ⟨a2, a3, ArgsRel.mono ?_ a4⟩
      intro a' b' hr
      rcases hr with hr | hr
      · exact hr
      · cases hr
    refine ⟨(shape_sim hsim fuel' n base hroot).symm, ?_⟩
    -- the original: identical cells, children below `base`
    have hsim2 : Sim h0 h1 (fun a b => a = b ∧ base > a) := by
      intro a b ⟨e, ha⟩
      subst e
      have hcell := hspec.2.2.1 a ha
      rw [hcell]
      refine ⟨rfl, rfl, argsRel_refl _ ?_⟩
      intro k x hm j w hw
      exact ⟨rfl, child_below hI0 hf0 hm hw⟩
    exact (shape_sim hsim2 fuel' n n ⟨rfl, hn⟩).symm
  · cases he

/-- the nodes of the copy are new cells, the nodes of the original are old cells: the two trees share no node -/
theorem deepcopy_disjoint {F : HashFns H} {h0 h' : Heap H} {base nx : Nat} {n c : Id} {fuel : Nat} (hI0 : Inv F h0)
    (hf0 : FreshFrom h0 base) (hn : base > n) (he : opDeepcopy fuel h0 n base = some (h', nx, c)) :
    (∀ m, Reach h' c m → base ≤ m) ∧ (∀ m, Reach h' n m → base > m) := by
  obtain ⟨_, _, hfr, hreg, hc, _⟩ := deepcopy_spec hI0 hf0 hn he
  subst hc
  refine ⟨fun m hm => reach_in_region hreg (Nat.le_refl _) hm, ?_⟩
  intro m hm
  induction hm with
  | refl => exact hn
  | step _ hs ih =>
    obtain ⟨a, hg, ha⟩ := hs
    rw [hfr _ ih] at hg
    exact child_below hI0 hf0 (getKey_mem hg) ha

end SqlglotModel.Tree
