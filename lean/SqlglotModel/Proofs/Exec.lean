/-
  Helper definitions and lemmas for C11 (core Lean only).  The property theorems themselves are restated in
  Properties/C11.lean against the configuration regenerated from the source.
-/
import SqlglotModel.Model.Exec

namespace SqlglotModel.Exec
open SqlglotModel.Sem

/-! ## the stable sort -/
theorem insertSorted_perm {α} (le : α → α → Bool) (x : α) (l : List α) : List.Perm (insertSorted le x l) (x :: l) := by
  induction l with
  | nil => exact List.Perm.refl _
  | cons y ys ih =>
    simp only [insertSorted]
    split
    · exact List.Perm.refl _
    · exact ((List.Perm.cons y ih).trans (List.Perm.swap x y ys))

theorem stableSort_perm {α} (l : List α) (le : α → α → Bool) : List.Perm (stableSort le l) l := by
  induction l with
  | nil => exact List.Perm.refl _
  | cons x xs ih => exact (insertSorted_perm le x _).trans (List.Perm.cons x ih)

theorem pairwise_insertSorted {α} {le : α → α → Bool} (trans : ∀ a b c, le a b = true → le b c = true → le a c = true)
    (total : ∀ a b, (le a b || le b a) = true) (x : α) (l : List α) (h : l.Pairwise fun a b => le a b = true) :
    (insertSorted le x l).Pairwise fun a b => le a b = true := by
  induction l with
  | nil => simp [insertSorted]
  | cons y ys ih =>
    rw [List.pairwise_cons] at h
    simp only [insertSorted]
    by_cases hxy : le x y = true
    · rw [if_pos hxy]
      rw [List.pairwise_cons]
      refine ⟨?_, List.pairwise_cons.2 h⟩
      intro z hz
      simp only [List.mem_cons] at hz
      rcases hz with rfl | hz
      · exact hxy
      · exact trans x y z hxy (h.1 z hz)
    · rw [if_neg hxy]
      have hyx : le y x = true := by
        have := total x y
        simp only [Bool.or_eq_true] at this
        rcases this with h1 | h1
        · exact absurd h1 hxy
        · exact h1
      rw [List.pairwise_cons]
      refine ⟨?_, ih h.2⟩
      intro z hz
      have := (insertSorted_perm le x ys).mem_iff.1 hz
      simp only [List.mem_cons] at this
      rcases this with rfl | hz'
      · exact hyx
      · exact h.1 z hz'

theorem pairwise_stableSort {α} {le : α → α → Bool} (trans : ∀ a b c, le a b = true → le b c = true → le a c = true)
    (total : ∀ a b, (le a b || le b a) = true) (l : List α) : (stableSort le l).Pairwise fun a b => le a b = true := by
  induction l with
  | nil => simp [stableSort]
  | cons x xs ih => exact pairwise_insertSorted trans total x _ ih

theorem map_insertSorted {α β} {r : α → α → Bool} {s : β → β → Bool} {f : α → β} (x : α) (l : List α)
    (h : ∀ y ∈ l, r x y = s (f x) (f y)) : (insertSorted r x l).map f = insertSorted s (f x) (l.map f) := by
  induction l with
  | nil => rfl
  | cons y ys ih =>
    simp only [insertSorted, List.map_cons]
    rw [h y (by simp)]
    split
    · rfl
    · simp only [List.map_cons, ih (fun z hz => h z (by simp [hz]))]

theorem map_stableSort {α β} {r : α → α → Bool} {s : β → β → Bool} {f : α → β} {l : List α}
    (hxs : ∀ a ∈ l, ∀ b ∈ l, r a b = s (f a) (f b)) : (stableSort r l).map f = stableSort s (l.map f) := by
  induction l with
  | nil => rfl
  | cons x xs ih =>
    simp only [stableSort, List.map_cons]
    rw [map_insertSorted x _ (fun y hy => hxs x (by simp) y (by simp [(stableSort_perm xs r).mem_iff.1 hy]))]
    rw [ih (fun a ha b hb => hxs a (by simp [ha]) b (by simp [hb]))]

theorem stableSort_of_pairwise {α} {le : α → α → Bool} {l : List α} (h : l.Pairwise fun a b => le a b = true) :
    stableSort le l = l := by
  induction l with
  | nil => rfl
  | cons x xs ih =>
    rw [List.pairwise_cons] at h
    simp only [stableSort, ih h.2]
    cases xs with
    | nil => rfl
    | cons y ys => simp only [insertSorted]; rw [if_pos (h.1 y (by simp))]

/-! ## Kleene logic, IN, comparisons -/
theorem norm_eq (v : Val) : norm v = triVal (toTri v) := by cases v <;> rfl
theorem toTri_triVal (t : Tri) : toTri (triVal t) = t := by
  cases t with
  | none => rfl
  | some b => cases b <;> rfl

theorem tri_cases (P : Tri → Tri → Prop)
    (h : P none none ∧ P none (some true) ∧ P none (some false) ∧ P (some true) none ∧ P (some true) (some true)
      ∧ P (some true) (some false) ∧ P (some false) none ∧ P (some false) (some true) ∧ P (some false) (some false)) :
    ∀ x y, P x y := by
  intro x y
  obtain ⟨h1, h2, h3, h4, h5, h6, h7, h8, h9⟩ := h
  cases x with
  | none => cases y with
    | none => exact h1
    | some b => cases b <;> assumption
  | some a => cases a <;> cases y with
    | none => assumption
    | some b => cases b <;> assumption

theorem sqlNot_spec (a : Val) : toTri (sqlNot a) = not3 (toTri a) := by
  cases a <;> simp [sqlNot, toTri, not3, truthy]

theorem sqlAnd_spec (a b : Val) : toTri (sqlAnd a b) = and3 (toTri a) (toTri b) := by
  simp only [sqlAnd, norm_eq]
  generalize toTri a = x
  generalize toTri b = y
  revert x y
  apply tri_cases
  decide

theorem sqlOr_spec (a b : Val) : toTri (sqlOr a b) = or3 (toTri a) (toTri b) := by
  simp only [sqlOr, norm_eq]
  generalize toTri a = x
  generalize toTri b = y
  revert x y
  apply tri_cases
  decide

/-- sql_and / sql_or return None, True or False only, and `is True` means both operands are truthy -/
theorem sqlAnd_is_true (a b : Val) : sqlAnd a b = .bool true ↔ (toTri a = some true ∧ toTri b = some true) := by
  simp only [sqlAnd, norm_eq]
  generalize toTri a = x
  generalize toTri b = y
  revert x y
  apply tri_cases
  decide

theorem cmp_eq_iff (a b : Val) : Val.cmp a b = .eq ↔ a = b := by
  cases a <;> cases b <;> simp [Val.cmp, Val.tag]

theorem cmp_swap (a b : Val) : Val.cmp b a = (Val.cmp a b).swap := by
  cases a <;> cases b <;> simp only [Val.cmp, Val.tag] <;> first | rfl | exact Std.OrientedOrd.eq_swap | decide

theorem eq_spec (c : Cfg) (name : String) (op : CmpOp) (h : lookup name c.cmpOps = some op) (a b : Val) :
    (envBin c name a b).map toTri = some (cmp3 op a b) := by
  simp only [envBin, h, Option.map, nullIfAny2]
  cases a <;> cases b <;> simp [cmp3, toTri, pyCmp, truthy]

theorem sqlInLoop_spec (v : Val) (hv : v ≠ .null) (cs : List Val) (hn : Bool) :
    toTri (sqlInLoop v cs hn) = or3 (in3 v cs) (if hn then none else some false) := by
  induction cs generalizing hn with
  | nil => cases hn <;> simp [sqlInLoop, in3, toTri, or3, truthy]
  | cons c cs ih =>
    simp only [sqlInLoop, in3]
    by_cases hc : c = .null
    · subst hc
      simp only [if_true]
      rw [ih]
      have : cmp3 .eq v .null = none := by cases v <;> rfl
      rw [this]
      generalize in3 v cs = x
      cases hn <;> (revert x; intro x; cases x with | none => rfl | some b => cases b <;> rfl)
    · simp only [hc, if_false]
      by_cases hvc : v = c
      · subst hvc
        have : cmp3 .eq v v = some true := by
          cases v <;> simp_all [cmp3, CmpOp.test, cmp_eq_iff]
        simp only [if_true, this]
        generalize in3 v cs = x
        cases hn <;> (cases x with | none => rfl | some b => cases b <;> rfl)
      · have : cmp3 .eq v c = some false := by
          have h2 : Val.cmp v c ≠ .eq := fun h => hvc ((cmp_eq_iff v c).1 h)
          cases v <;> cases c <;> simp_all [cmp3, CmpOp.test]
        simp only [hvc, if_false, this]
        rw [ih]
        generalize in3 v cs = x
        cases hn <;> (cases x with | none => rfl | some b => cases b <;> rfl)

theorem sqlIn_spec (v : Val) (cs : List Val) (hcs : cs ≠ []) : toTri (sqlIn v cs) = in3 v cs := by
  unfold sqlIn
  by_cases hv : v = .null
  · subst hv
    simp only [if_true]
    cases cs with
    | nil => exact absurd rfl hcs
    | cons c cs =>
      clear hcs
      induction cs generalizing c with
      | nil => simp [in3, cmp3, or3, toTri]
      | cons d ds ih =>
        have := ih d
        simp only [in3] at this ⊢
        rw [← this]; simp [cmp3, or3, toTri]
  · simp only [hv, if_false]
    rw [sqlInLoop_spec v hv]
    generalize in3 v cs = x
    cases x with | none => rfl | some b => cases b <;> rfl

/-! ## ordered() -/
theorem ordered_key_spec (a b : Val) (desc nf : Bool) :
    tupleCmp (ordered stdCfg a desc nf) (ordered stdCfg b desc nf) = some (cmpKey desc nf a b) := by
  by_cases ha : a = .null <;> by_cases hb : b = .null
  · subst ha; subst hb; cases desc <;> cases nf <;> rfl
  · subst ha
    have : b.isNull = false := by cases b <;> simp_all [Val.isNull]
    cases desc <;> cases nf <;> simp [ordered, hb, tupleCmp, stdCfg, cmpKey, this, Val.isNull]
  · subst hb
    have : a.isNull = false := by cases a <;> simp_all [Val.isNull]
    cases desc <;> cases nf <;> simp [ordered, ha, tupleCmp, stdCfg, cmpKey, this, Val.isNull]
  · have h1 : a.isNull = false := by cases a <;> simp_all [Val.isNull]
    have h2 : b.isNull = false := by cases b <;> simp_all [Val.isNull]
    have hsw := cmp_swap a b
    have heq := cmp_eq_iff a b
    cases desc <;> cases nf <;> simp only [ordered, ha, hb, tupleCmp, cmpKey, h1, h2, OVal.eq?, OVal.lt?, if_false, ne_eq, not_true, Bool.false_eq_true] <;>
      (by_cases hab : a = b
       · subst hab; simp [(cmp_eq_iff a a).2 rfl]
       · have hba : ¬ b = a := fun h => hab h.symm
         have hne : Val.cmp a b ≠ .eq := fun h => hab (heq.1 h)
         cases hc : Val.cmp a b <;> simp_all [Ordering.swap])

/-! ## set_operation() -/
theorem count_cons' (r row : Row) (l : List Row) : List.count r (row :: l) = List.count r l + (if row = r then 1 else 0) := by
  rw [List.count_cons]; simp

theorem intersectAll_count (rest : List Row) (rc : Counter) (seen : List Row) (r : Row) :
    List.count r (intersectLoop false rest rc seen) = min (List.count r rest) (rc r) := by
  induction rest generalizing rc seen with
  | nil => simp [intersectLoop]
  | cons row rest ih =>
    by_cases h : rc row ≠ 0
    · have hc : rc row ≠ 0 ∧ ((!false) = true ∨ ¬ row ∈ seen) := ⟨h, Or.inl rfl⟩
      rw [intersectLoop, if_pos hc, count_cons', ih, count_cons']
      by_cases hr : row = r
      · subst hr; simp [Counter.dec]; omega
      · have : ¬ r = row := fun e => hr e.symm
        simp [hr, this, Counter.dec]
    · have hc : ¬ (rc row ≠ 0 ∧ ((!false) = true ∨ ¬ row ∈ seen)) := fun x => h x.1
      rw [intersectLoop, if_neg hc, ih, count_cons']
      by_cases hr : row = r
      · subst hr; simp at h; simp [h]
      · simp [hr]

theorem intersectDistinct_count (rest : List Row) (rc : Counter) (seen : List Row) (r : Row) :
    List.count r (intersectLoop true rest rc seen) = if r ∈ rest ∧ rc r ≠ 0 ∧ ¬ r ∈ seen then 1 else 0 := by
  induction rest generalizing seen with
  | nil => simp [intersectLoop]
  | cons row rest ih =>
    by_cases h : rc row ≠ 0 ∧ ¬ row ∈ seen
    · have hc : rc row ≠ 0 ∧ ((!true) = true ∨ ¬ row ∈ seen) := ⟨h.1, Or.inr h.2⟩
      rw [intersectLoop, if_pos hc, count_cons']
      have e : (if (!true) = true then rc.dec row else rc) = rc := by simp
      rw [e, ih]
      by_cases hr : row = r
      · subst hr; simp [h.1, h.2]
      · have : ¬ r = row := fun e => hr e.symm
        simp [hr, this]
    · have hc : ¬ (rc row ≠ 0 ∧ ((!true) = true ∨ ¬ row ∈ seen)) := by
        intro x; exact h ⟨x.1, x.2.resolve_left (by simp)⟩
      rw [intersectLoop, if_neg hc, ih]
      by_cases hr : row = r
      · subst hr
        by_cases h1 : row ∈ rest ∧ rc row ≠ 0 ∧ ¬ row ∈ seen
        · exact absurd h1.2 h
        · have h2 : ¬ (row ∈ row :: rest ∧ rc row ≠ 0 ∧ ¬ row ∈ seen) := fun x => h x.2
          rw [if_neg h1, if_neg h2]
      · have : ¬ r = row := fun e => hr e.symm
        simp [this]

theorem exceptAll_count (rest : List Row) (rc : Counter) (seen : List Row) (r : Row) :
    List.count r (exceptLoop false rest rc seen) = List.count r rest - rc r := by
  induction rest generalizing rc seen with
  | nil => simp [exceptLoop]
  | cons row rest ih =>
    by_cases h : rc row ≠ 0
    · have hc : rc row ≠ 0 ∧ (!false) = true := ⟨h, rfl⟩
      rw [exceptLoop, if_pos hc, ih, count_cons']
      by_cases hr : row = r
      · subst hr; simp [Counter.dec]; omega
      · have : ¬ r = row := fun e => hr e.symm
        simp [hr, this, Counter.dec]
    · have h0 : rc row = 0 := by omega
      have hc : ¬ (rc row ≠ 0 ∧ (!false) = true) := fun x => h x.1
      have hd : rc row = 0 ∧ ((!false) = true ∨ ¬ row ∈ seen) := ⟨h0, Or.inl rfl⟩
      rw [exceptLoop, if_neg hc, if_pos hd, count_cons', ih, count_cons']
      by_cases hr : row = r
      · subst hr; simp [h0]
      · simp [hr]

theorem exceptDistinct_count (rest : List Row) (rc : Counter) (seen : List Row) (r : Row) :
    List.count r (exceptLoop true rest rc seen) = if r ∈ rest ∧ rc r = 0 ∧ ¬ r ∈ seen then 1 else 0 := by
  induction rest generalizing seen with
  | nil => simp [exceptLoop]
  | cons row rest ih =>
    have hc : ¬ (rc row ≠ 0 ∧ (!true) = true) := by simp
    by_cases h : rc row = 0 ∧ ¬ row ∈ seen
    · have hd : rc row = 0 ∧ ((!true) = true ∨ ¬ row ∈ seen) := ⟨h.1, Or.inr h.2⟩
      rw [exceptLoop, if_neg hc, if_pos hd, count_cons', ih]
      by_cases hr : row = r
      · subst hr; simp [h.1, h.2]
      · have : ¬ r = row := fun e => hr e.symm
        simp [hr, this]
    · have hd : ¬ (rc row = 0 ∧ ((!true) = true ∨ ¬ row ∈ seen)) := by
        intro x; exact h ⟨x.1, x.2.resolve_left (by simp)⟩
      rw [exceptLoop, if_neg hc, if_neg hd, ih]
      by_cases hr : row = r
      · subst hr
        by_cases h1 : row ∈ rest ∧ rc row = 0 ∧ ¬ row ∈ seen
        · exact absurd h1.2 h
        · have h2 : ¬ (row ∈ row :: rest ∧ rc row = 0 ∧ ¬ row ∈ seen) := fun x => h x.2
          rw [if_neg h1, if_neg h2]
      · have : ¬ r = row := fun e => hr e.symm
        simp [this]

theorem count_filter_ne (a r : Row) (l : List Row) :
    List.count r (l.filter (· ≠ a)) = if r = a then 0 else List.count r l := by
  by_cases h : r = a
  · subst h; simp [List.count_eq_zero]
  · simp only [h, if_false]; exact List.count_filter (by simpa using h)

theorem dedup_count (l : List Row) (r : Row) : List.count r (dedup l) = if r ∈ l then 1 else 0 := by
  induction l with
  | nil => simp [dedup]
  | cons a l ih =>
    simp only [dedup, count_cons', count_filter_ne, ih]
    by_cases h : a = r
    · subst h; simp
    · have : ¬ r = a := fun e => h e.symm
      simp [h, this]

theorem count_ne_zero_iff (r : Row) (l : List Row) : List.count r l ≠ 0 ↔ r ∈ l := by
  rw [Ne, List.count_eq_zero]; simp

/-- set_operation(): every row's multiplicity in the output is the SQL one -/
theorem set_operation_spec (l r : List Row) (x : Row) :
    List.count x (setOperation .intersect false l r) = multIntersectAll (List.count x l) (List.count x r)
    ∧ List.count x (setOperation .intersect true l r) = multIntersect (List.count x l) (List.count x r)
    ∧ List.count x (setOperation .except false l r) = multExceptAll (List.count x l) (List.count x r)
    ∧ List.count x (setOperation .except true l r) = multExcept (List.count x l) (List.count x r)
    ∧ List.count x (setOperation .union false l r) = multUnionAll (List.count x l) (List.count x r)
    ∧ List.count x (setOperation .union true l r) = multUnion (List.count x l) (List.count x r) := by
  refine ⟨?_, ?_, ?_, ?_, ?_, ?_⟩
  · simp [setOperation, intersectAll_count, Counter.ofRows, multIntersectAll]
  · simp only [setOperation, intersectDistinct_count, Counter.ofRows, multIntersect, count_ne_zero_iff]; simp
  · simp [setOperation, exceptAll_count, Counter.ofRows, multExceptAll]
  · simp only [setOperation, exceptDistinct_count, Counter.ofRows, multExcept, count_ne_zero_iff, List.count_eq_zero]; simp
  · simp [setOperation, multUnionAll, List.count_append]
  · simp only [setOperation, if_true, dedup_count, multUnion, count_ne_zero_iff, List.mem_append]

/-! ## aggregate() -/
/-- maximal runs of consecutive rows with equal key, left to right; `cur` is the run being collected -/
def runsFrom (keyOf : Row → Key) (cur : List Row) (k : Key) : List Row → List (Key × List Row)
  | [] => [(k, cur)]
  | r :: rs => if keyOf r = k then runsFrom keyOf (cur ++ [r]) k rs else (k, cur) :: runsFrom keyOf [r] (keyOf r) rs

def runs (keyOf : Row → Key) : List Row → List (Key × List Row)
  | [] => []
  | r :: rs => runsFrom keyOf [r] (keyOf r) rs

def emitRuns (agg : List Row → Row) (rs : List (Key × List Row)) : List Row := rs.map fun p => p.1 ++ agg p.2

theorem slice_succ (rows : List Row) (s i : Nat) (r : Row) (rest : List Row)
    (hd : rows.drop i = r :: rest) (hs : s ≤ i) : slice rows s (i + 1) = slice rows s i ++ [r] := by
  unfold slice
  have e : i + 1 - s = (i - s) + 1 := by omega
  rw [e, List.take_succ]
  congr 1
  have : rows[i]? = some r := by
    have := congrArg (fun l => l[0]?) hd
    simpa using this
  rw [List.getElem?_drop]
  have e2 : s + (i - s) = i := by omega
  rw [e2, this]; rfl

theorem slice_one (rows : List Row) (i : Nat) (r : Row) (rest : List Row)
    (hd : rows.drop i = r :: rest) : slice rows i (i + 1) = [r] := by
  unfold slice
  rw [hd]; simp

theorem length_of_drop (rows : List Row) (i : Nat) (r : Row) (rest : List Row)
    (hd : rows.drop i = r :: rest) : rows.length = i + 1 + rest.length := by
  have := congrArg List.length hd
  simp at this; omega

theorem aggLoop_step (keyOf : Row → Key) (agg : List Row → Row) (rows : List Row) (i : Nat) (r : Row) (rest : List Row)
    (k : Key) (s e : Nat) (out : List Row) :
    aggLoop stdCfg keyOf agg rows none i (r :: rest) ⟨some k, s, e, out⟩ =
      aggLoop stdCfg keyOf agg rows none (i + 1) rest
        ⟨some (if keyOf r ≠ k then keyOf r else k), (if keyOf r ≠ k then e + 1 - 2 else s), e + 1,
          (if i = rows.length - 1 then
            (if keyOf r ≠ k then out ++ [k ++ agg (slice rows s (e + 1 - 2))] else out)
              ++ [(if keyOf r ≠ k then keyOf r else k) ++ agg (slice rows (if keyOf r ≠ k then e + 1 - 2 else s) (e + 1 - 1))]
           else (if keyOf r ≠ k then out ++ [k ++ agg (slice rows s (e + 1 - 2))] else out))⟩ := by
  rfl

theorem aggLoop_first (keyOf : Row → Key) (agg : List Row → Row) (rows : List Row) (r : Row) (rest : List Row) :
    aggLoop stdCfg keyOf agg rows none 0 (r :: rest) ⟨none, 0, 1, []⟩ =
      aggLoop stdCfg keyOf agg rows none 1 rest
        ⟨some (keyOf r), 0, 2, (if 0 = rows.length - 1 then [keyOf r ++ agg (slice rows 0 1)] else [])⟩ := by
  rw [aggLoop]
  simp [capReached, stdCfg]

theorem aggLoop_nil (keyOf : Row → Key) (agg : List Row → Row) (rows : List Row) (i : Nat) (st : AggSt) :
    aggLoop stdCfg keyOf agg rows none i [] st = st.out := rfl

theorem aggLoop_inv (keyOf : Row → Key) (agg : List Row → Row) (rows : List Row) (rest : List Row) :
    ∀ (r : Row) (i s : Nat) (k : Key) (out : List Row), rows.drop i = r :: rest → s ≤ i →
    aggLoop stdCfg keyOf agg rows none i (r :: rest) ⟨some k, s, i + 1, out⟩
      = out ++ emitRuns agg (runsFrom keyOf (slice rows s i) k (r :: rest)) := by
  induction rest with
  | nil =>
    intro r i s k out hd hs
    have hl := length_of_drop rows i r [] hd
    have hlast : i = rows.length - 1 := by simp at hl; omega
    rw [aggLoop_step, aggLoop_nil]
    simp only []
    rw [if_pos hlast]
    have e1 : i + 1 + 1 - 2 = i := by omega
    have e2 : i + 1 + 1 - 1 = i + 1 := by omega
    rw [e1, e2]
    by_cases hk : keyOf r = k
    · simp [hk, runsFrom, emitRuns, slice_succ rows s i r [] hd hs]
    · simp [hk, runsFrom, emitRuns, slice_one rows i r [] hd]
  | cons r' rest' ih =>
    intro r i s k out hd hs
    have hl := length_of_drop rows i r (r' :: rest') hd
    have hlast : ¬ i = rows.length - 1 := by simp at hl; omega
    have hd' : rows.drop (i + 1) = r' :: rest' := by
      have : rows.drop (i + 1) = (rows.drop i).drop 1 := by simp [List.drop_drop]
      rw [this, hd]; rfl
    rw [aggLoop_step]
    rw [if_neg hlast]
    have e1 : i + 1 + 1 - 2 = i := by omega
    rw [e1]
    by_cases hk : keyOf r = k
    · have hk2 : ¬ keyOf r ≠ k := by simpa using hk
      rw [if_neg hk2, if_neg hk2, if_neg hk2]
      rw [ih r' (i + 1) s k out hd' (by omega)]
      conv => rhs; rw [runsFrom, if_pos hk]
      rw [slice_succ rows s i r _ hd hs]
    · have hk2 : keyOf r ≠ k := hk
      rw [if_pos hk2, if_pos hk2, if_pos hk2]
      rw [ih r' (i + 1) i (keyOf r) _ hd' (by omega)]
      conv => rhs; rw [runsFrom, if_neg hk]
      rw [slice_one rows i r _ hd]
      simp [emitRuns]

/-- aggregate()'s index loop emits every maximal run of equal keys exactly once, in order -/
theorem aggregate_runs_spec (keyOf : Row → Key) (agg : List Row → Row) (rows : List Row) (hne : rows ≠ []) (g : Bool) (lim : Option Nat) :
    aggregateSorted stdCfg keyOf agg g none lim rows = emitRuns agg (runs keyOf rows) := by
  cases rows with
  | nil => exact absurd rfl hne
  | cons r rest =>
    have hlen : (r :: rest).length ≠ 0 := by simp
    unfold aggregateSorted
    rw [if_pos hlen]
    show aggLoop stdCfg keyOf agg (r :: rest) none 0 (r :: rest) ⟨none, 0, 1, []⟩ = _
    rw [aggLoop_first]
    cases rest with
    | nil =>
      rw [aggLoop_nil]
      simp [runs, runsFrom, emitRuns, slice]
    | cons r' rest' =>
      have hl : ¬ (0 = (r :: r' :: rest').length - 1) := by simp
      rw [if_neg hl]
      rw [aggLoop_inv keyOf agg (r :: r' :: rest') rest' r' 1 0 (keyOf r) [] (by simp) (by omega)]
      simp [slice, runs]

/-! ## joins -/
theorem mem_enumFrom {α} (l : List α) (n i : Nat) (a : α) :
    (i, a) ∈ enumFrom n l ↔ n ≤ i ∧ l[i - n]? = some a := by
  induction l generalizing n with
  | nil => simp [enumFrom]
  | cons b l ih =>
    simp only [enumFrom, List.mem_cons, Prod.mk.injEq, ih]
    constructor
    · rintro (⟨rfl, rfl⟩ | ⟨h1, h2⟩)
      · simp
      · refine ⟨by omega, ?_⟩
        have : i - n = (i - (n + 1)) + 1 := by omega
        rw [this]; simpa using h2
    · rintro ⟨h1, h2⟩
      by_cases h : i = n
      · subst h; simp at h2; exact Or.inl ⟨rfl, h2.symm⟩
      · right
        refine ⟨by omega, ?_⟩
        have : i - n = (i - (n + 1)) + 1 := by omega
        rw [this] at h2; simpa using h2

theorem enumFrom_fst_inj {α} (l : List α) (n i : Nat) (a b : α)
    (ha : (i, a) ∈ enumFrom n l) (hb : (i, b) ∈ enumFrom n l) : a = b := by
  rw [mem_enumFrom] at ha hb
  have := ha.2.symm.trans hb.2
  simpa using this

theorem enumFrom_map_snd {α} (l : List α) (n : Nat) : (enumFrom n l).map (·.2) = l := by
  induction l generalizing n with
  | nil => rfl
  | cons b l ih => simp [enumFrom, ih]

theorem mem_enumFrom_snd {α} (l : List α) (n : Nat) (a : α) : (∃ i, (i, a) ∈ enumFrom n l) ↔ a ∈ l := by
  constructor
  · rintro ⟨i, h⟩
    have : a ∈ (enumFrom n l).map (·.2) := List.mem_map.2 ⟨(i, a), h, rfl⟩
    rwa [enumFrom_map_snd] at this
  · intro h
    rw [← enumFrom_map_snd l n] at h
    obtain ⟨⟨i, b⟩, hm, rfl⟩ := List.mem_map.1 h
    exact ⟨i, hm⟩

theorem nodup_enumFrom {α} (l : List α) (n : Nat) : (enumFrom n l).Nodup := by
  induction l generalizing n with
  | nil => simp [enumFrom]
  | cons b l ih =>
    simp only [enumFrom, List.nodup_cons]
    refine ⟨?_, ih _⟩
    intro h
    rw [mem_enumFrom] at h
    omega

theorem enum_filter_map {α β} (l : List α) (n : Nat) (p : α → Bool) (f : α → β) :
    ((enumFrom n l).filter (fun e => p e.2)).map (fun e => f e.2) = (l.filter p).map f := by
  induction l generalizing n with
  | nil => rfl
  | cons b l ih =>
    simp only [enumFrom, List.filter_cons]
    split <;> simp [ih]

theorem enum_flatMap {α β} (l : List α) (n : Nat) (f : α → List β) :
    (enumFrom n l).flatMap (fun e => f e.2) = l.flatMap f := by
  induction l generalizing n with
  | nil => rfl
  | cons b l ih => simp [enumFrom, ih]

theorem nestedHits_rows (m : Row → Row → Bool) (L R : List Row) :
    (nestedHits m L R).map (fun h => h.1.2 ++ h.2.2) = matchesOf m L R := by
  unfold nestedHits matchesOf
  rw [List.map_flatMap]
  simp only [List.map_map]
  have : ∀ s : Nat × Row, List.map ((fun h : Hit => h.1.2 ++ h.2.2) ∘ fun j => (s, j)) (List.filter (fun j => m s.2 j.2) (enumFrom 0 R))
      = (R.filter (m s.2)).map (s.2 ++ ·) := by
    intro s
    exact enum_filter_map R 0 (m s.2) (fun r => s.2 ++ r)
  simp only [this]
  exact enum_flatMap L 0 (fun l => (R.filter (m l)).map (l ++ ·))

theorem mem_nestedHits (m : Row → Row → Bool) (L R : List Row) (h : Hit) :
    h ∈ nestedHits m L R ↔ h.1 ∈ enumFrom 0 L ∧ h.2 ∈ enumFrom 0 R ∧ m h.1.2 h.2.2 = true := by
  unfold nestedHits
  simp only [List.mem_flatMap, List.mem_map, List.mem_filter]
  constructor
  · rintro ⟨s, hs, j, ⟨hj, hm⟩, rfl⟩
    exact ⟨hs, hj, hm⟩
  · rintro ⟨h1, h2, h3⟩
    exact ⟨h.1, h1, h.2, ⟨h2, h3⟩, rfl⟩

theorem matchedSrc_iff (m : Row → Row → Bool) (L R : List Row) (i : Nat) (l : Row) (he : (i, l) ∈ enumFrom 0 L) :
    ((nestedHits m L R).map (·.1.1)).contains i = R.any (m l) := by
  rw [Bool.eq_iff_iff]
  simp only [List.contains_iff_mem, List.mem_map, List.any_eq_true, mem_nestedHits]
  constructor
  · rintro ⟨h, ⟨h1, h2, h3⟩, rfl⟩
    have : h.1.2 = l := enumFrom_fst_inj L 0 h.1.1 _ _ h1 he
    rw [this] at h3
    exact ⟨h.2.2, (mem_enumFrom_snd R 0 _).1 ⟨h.2.1, h2⟩, h3⟩
  · rintro ⟨r, hr, hm⟩
    obtain ⟨j, hj⟩ := (mem_enumFrom_snd R 0 r).2 hr
    exact ⟨((i, l), (j, r)), ⟨he, hj, hm⟩, rfl⟩

theorem matchedJn_iff (m : Row → Row → Bool) (L R : List Row) (j : Nat) (r : Row) (he : (j, r) ∈ enumFrom 0 R) :
    ((nestedHits m L R).map (·.2.1)).contains j = L.any (m · r) := by
  rw [Bool.eq_iff_iff]
  simp only [List.contains_iff_mem, List.mem_map, List.any_eq_true, mem_nestedHits]
  constructor
  · rintro ⟨h, ⟨h1, h2, h3⟩, rfl⟩
    have : h.2.2 = r := enumFrom_fst_inj R 0 h.2.1 _ _ h2 he
    rw [this] at h3
    exact ⟨h.1.2, (mem_enumFrom_snd L 0 _).1 ⟨h.1.1, h1⟩, h3⟩
  · rintro ⟨l, hl, hm⟩
    obtain ⟨i, hi⟩ := (mem_enumFrom_snd L 0 l).2 hl
    exact ⟨((i, l), (j, r)), ⟨hi, he, hm⟩, rfl⟩

/-- nested_loop_join (index sets, unmatched rows appended with NULL padding computed from the first row) is the
    reference join, row for row in the same order -/
theorem nested_loop_join_spec (side : Side) (m : Row → Row → Bool) (wS wJ : Nat) (L R : List Row)
    (hL : ∀ l ∈ L, l.length = wS) (hR : ∀ r ∈ R, r.length = wJ) :
    nestedLoopJoin stdCfg (sideStr side) (wS + wJ) m L R = join side m wS wJ L R := by
  unfold nestedLoopJoin finishJoin join appendUnmatched
  rw [nestedHits_rows, List.append_assoc]
  congr 1
  congr 1
  · have hc : stdCfg.leftSides.contains (sideStr side) = side.keepsLeft := by cases side <;> decide
    rw [hc]
    cases hk : side.keepsLeft with
    | false => rfl
    | true =>
      simp only [if_true]
      unfold leftUnmatched
      have hf : (enumFrom 0 L).filter (fun e => !((nestedHits m L R).map (·.1.1)).contains e.1)
          = (enumFrom 0 L).filter (fun e => !R.any (m e.2)) := by
        apply List.filter_congr
        intro e he
        rw [matchedSrc_iff m L R e.1 e.2 he]
      rw [hf]
      cases L with
      | nil => rfl
      | cons l0 L' =>
        have : wS + wJ - l0.length = wJ := by rw [hL l0 (by simp)]; omega
        simp only [this]
        exact enum_filter_map (l0 :: L') 0 (fun l => !R.any (m l)) (fun l => l ++ nulls wJ)
  · have hc : stdCfg.rightSides.contains (sideStr side) = side.keepsRight := by cases side <;> decide
    rw [hc]
    cases hk : side.keepsRight with
    | false => rfl
    | true =>
      simp only [if_true]
      unfold rightUnmatched
      have hf : (enumFrom 0 R).filter (fun e => !((nestedHits m L R).map (·.2.1)).contains e.1)
          = (enumFrom 0 R).filter (fun e => !L.any (m · e.2)) := by
        apply List.filter_congr
        intro e he
        rw [matchedJn_iff m L R e.1 e.2 he]
      rw [hf]
      cases R with
      | nil => rfl
      | cons r0 R' =>
        have : wS + wJ - r0.length = wS := by rw [hR r0 (by simp)]; omega
        simp only [this]
        exact enum_filter_map (r0 :: R') 0 (fun r => !L.any (m · r)) (fun r => nulls wS ++ r)

theorem addSrc_get (d : Buckets) (k0 k : Key) (e : Nat × Row) :
    (d.addSrc k0 e).get k = if k = k0 then ((d.get k0).1 ++ [e], (d.get k0).2) else d.get k := rfl
theorem addJn_get (d : Buckets) (k0 k : Key) (e : Nat × Row) :
    (d.addJn k0 e).get k = if k = k0 then ((d.get k0).1, (d.get k0).2 ++ [e]) else d.get k := rfl

theorem buildSrc_get (ks : Row → Key) (es : List (Nat × Row)) (d : Buckets) (k : Key) :
    (buildSrc ks es d).get k
      = ((d.get k).1 ++ es.filter (fun e => keyOk (ks e.2) && (ks e.2 == k)), (d.get k).2) := by
  induction es generalizing d with
  | nil => simp [buildSrc]
  | cons e es ih =>
    rw [buildSrc, ih]
    by_cases hok : keyOk (ks e.2) = true
    · rw [if_pos hok, addSrc_get]
      by_cases hk : k = ks e.2
      · subst hk; simp [List.filter_cons, hok]
      · have : ¬ ks e.2 = k := fun x => hk x.symm
        simp [List.filter_cons, hk, this]
    · rw [if_neg hok]
      simp [List.filter_cons, hok]

theorem buildJn_get (kj : Row → Key) (es : List (Nat × Row)) (d : Buckets) (k : Key) :
    (buildJn kj es d).get k
      = ((d.get k).1, (d.get k).2 ++ es.filter (fun e => keyOk (kj e.2) && (kj e.2 == k))) := by
  induction es generalizing d with
  | nil => simp [buildJn]
  | cons e es ih =>
    rw [buildJn, ih]
    by_cases hok : keyOk (kj e.2) = true
    · rw [if_pos hok, addJn_get]
      by_cases hk : k = kj e.2
      · subst hk; simp [List.filter_cons, hok]
      · have : ¬ kj e.2 = k := fun x => hk x.symm
        simp [List.filter_cons, hk, this]
    · rw [if_neg hok]
      simp [List.filter_cons, hok]

theorem touch_nodup (d : Buckets) (k : Key) (h : d.keys.Nodup) : (d.touch k).Nodup := by
  unfold Buckets.touch
  by_cases hc : d.keys.contains k = true
  · rw [if_pos hc]; exact h
  · rw [if_neg hc]
    have hn : ¬ k ∈ d.keys := by simpa using hc
    rw [List.nodup_append]
    refine ⟨h, by simp, ?_⟩
    intro a ha b hb
    simp at hb; subst hb
    intro e; subst e; exact hn ha

theorem mem_touch (d : Buckets) (k k' : Key) : k' ∈ d.touch k ↔ k' ∈ d.keys ∨ k' = k := by
  unfold Buckets.touch
  by_cases hc : d.keys.contains k = true
  · rw [if_pos hc]
    have hm : k ∈ d.keys := by simpa using hc
    constructor
    · exact Or.inl
    · rintro (h | rfl)
      · exact h
      · exact hm
  · rw [if_neg hc]; simp

theorem buildSrc_keys (ks : Row → Key) (es : List (Nat × Row)) (d : Buckets) (hd : d.keys.Nodup) :
    (buildSrc ks es d).keys.Nodup ∧
    ∀ k, k ∈ (buildSrc ks es d).keys ↔ (k ∈ d.keys ∨ ∃ e ∈ es, keyOk (ks e.2) = true ∧ ks e.2 = k) := by
  induction es generalizing d with
  | nil => simp [buildSrc, hd]
  | cons e es ih =>
    rw [buildSrc]
    by_cases hok : keyOk (ks e.2) = true
    · rw [if_pos hok]
      have := ih (d.addSrc (ks e.2) e) (touch_nodup d _ hd)
      refine ⟨this.1, ?_⟩
      intro k
      rw [this.2 k]
      show (k ∈ d.touch (ks e.2) ∨ _) ↔ _
      rw [mem_touch]
      constructor
      · rintro ((h | rfl) | ⟨e', he', h1, h2⟩)
        · exact Or.inl h
        · exact Or.inr ⟨e, by simp, hok, rfl⟩
        · exact Or.inr ⟨e', by simp [he'], h1, h2⟩
      · rintro (h | ⟨e', he', h1, h2⟩)
        · exact Or.inl (Or.inl h)
        · simp at he'
          rcases he' with rfl | he'
          · exact Or.inl (Or.inr h2.symm)
          · exact Or.inr ⟨e', he', h1, h2⟩
    · rw [if_neg hok]
      have := ih d hd
      refine ⟨this.1, ?_⟩
      intro k
      rw [this.2 k]
      constructor
      · rintro (h | ⟨e', he', h1, h2⟩)
        · exact Or.inl h
        · exact Or.inr ⟨e', by simp [he'], h1, h2⟩
      · rintro (h | ⟨e', he', h1, h2⟩)
        · exact Or.inl h
        · simp at he'
          rcases he' with rfl | he'
          · exact absurd h1 hok
          · exact Or.inr ⟨e', he', h1, h2⟩

theorem buildJn_keys (kj : Row → Key) (es : List (Nat × Row)) (d : Buckets) (hd : d.keys.Nodup) :
    (buildJn kj es d).keys.Nodup ∧
    ∀ k, k ∈ (buildJn kj es d).keys ↔ (k ∈ d.keys ∨ ∃ e ∈ es, keyOk (kj e.2) = true ∧ kj e.2 = k) := by
  induction es generalizing d with
  | nil => simp [buildJn, hd]
  | cons e es ih =>
    rw [buildJn]
    by_cases hok : keyOk (kj e.2) = true
    · rw [if_pos hok]
      have := ih (d.addJn (kj e.2) e) (touch_nodup d _ hd)
      refine ⟨this.1, ?_⟩
      intro k
      rw [this.2 k]
      show (k ∈ d.touch (kj e.2) ∨ _) ↔ _
      rw [mem_touch]
      constructor
      · rintro ((h | rfl) | ⟨e', he', h1, h2⟩)
        · exact Or.inl h
        · exact Or.inr ⟨e, by simp, hok, rfl⟩
        · exact Or.inr ⟨e', by simp [he'], h1, h2⟩
      · rintro (h | ⟨e', he', h1, h2⟩)
        · exact Or.inl (Or.inl h)
        · simp at he'
          rcases he' with rfl | he'
          · exact Or.inl (Or.inr h2.symm)
          · exact Or.inr ⟨e', he', h1, h2⟩
    · rw [if_neg hok]
      have := ih d hd
      refine ⟨this.1, ?_⟩
      intro k
      rw [this.2 k]
      constructor
      · rintro (h | ⟨e', he', h1, h2⟩)
        · exact Or.inl h
        · exact Or.inr ⟨e', by simp [he'], h1, h2⟩
      · rintro (h | ⟨e', he', h1, h2⟩)
        · exact Or.inl h
        · simp at he'
          rcases he' with rfl | he'
          · exact absurd h1 hok
          · exact Or.inr ⟨e', he', h1, h2⟩

theorem mem_product {α β} (a : List α) (b : List β) (x : α × β) : x ∈ product a b ↔ x.1 ∈ a ∧ x.2 ∈ b := by
  unfold product
  simp only [List.mem_flatMap, List.mem_map]
  constructor
  · rintro ⟨y, hy, z, hz, rfl⟩; exact ⟨hy, hz⟩
  · rintro ⟨h1, h2⟩; exact ⟨x.1, h1, x.2, h2, rfl⟩

theorem nodup_product {α β} (a : List α) (b : List β) (ha : a.Nodup) (hb : b.Nodup) : (product a b).Nodup := by
  unfold product List.Nodup
  rw [List.pairwise_flatMap]
  constructor
  · intro x _
    rw [List.pairwise_map]
    exact List.Pairwise.imp (fun h e => h (by simpa using e)) hb
  · exact List.Pairwise.imp (fun {x y} (h : x ≠ y) p hp q hq e => by
      simp only [List.mem_map] at hp hq
      obtain ⟨_, _, rfl⟩ := hp
      obtain ⟨_, _, rfl⟩ := hq
      exact h (by simpa using congrArg Prod.fst e)) ha

theorem nodup_nestedHits (m : Row → Row → Bool) (L R : List Row) : (nestedHits m L R).Nodup := by
  unfold nestedHits List.Nodup
  rw [List.pairwise_flatMap]
  constructor
  · intro s _
    rw [List.pairwise_map]
    have := (nodup_enumFrom R 0)
    exact List.Pairwise.imp (fun h e => h (by simpa using e)) (List.Pairwise.filter _ this)
  · exact List.Pairwise.imp (fun {x y} (h : x ≠ y) p hp q hq e => by
      simp only [List.mem_map] at hp hq
      obtain ⟨_, _, rfl⟩ := hp
      obtain ⟨_, _, rfl⟩ := hq
      exact h (by simpa using congrArg Prod.fst e)) (nodup_enumFrom L 0)

theorem hashPairs_perm (ks kj : Row → Key) (L R : List Row) :
    List.Perm (hashPairs ks kj L R) (nestedHits (keyMatch ks kj) L R) := by
  have hS := buildSrc_keys ks (enumFrom 0 L) Buckets.empty (by simp [Buckets.empty])
  have hJ := buildJn_keys kj (enumFrom 0 R) (buildSrc ks (enumFrom 0 L) Buckets.empty) hS.1
  have hget : ∀ k, (buildJn kj (enumFrom 0 R) (buildSrc ks (enumFrom 0 L) Buckets.empty)).get k
      = ((enumFrom 0 L).filter (fun e => keyOk (ks e.2) && (ks e.2 == k)),
         (enumFrom 0 R).filter (fun e => keyOk (kj e.2) && (kj e.2 == k))) := by
    intro k
    rw [buildJn_get, buildSrc_get]
    simp [Buckets.empty]
  rw [List.perm_ext_iff_of_nodup]
  · intro h
    rw [mem_nestedHits]
    unfold hashPairs
    simp only [List.mem_flatMap, hget, mem_product, List.mem_filter, Bool.and_eq_true, beq_iff_eq]
    constructor
    · rintro ⟨k, _, ⟨h1, h2, h3⟩, ⟨h4, h5, h6⟩⟩
      refine ⟨h1, h4, ?_⟩
      simp only [keyMatch, h2, h5, Bool.and_self, Bool.true_and, beq_iff_eq]
      exact h3.trans h6.symm
    · rintro ⟨h1, h2, h3⟩
      simp only [keyMatch, Bool.and_eq_true, beq_iff_eq] at h3
      refine ⟨ks h.1.2, ?_, ⟨h1, h3.1.1, rfl⟩, ⟨h2, h3.1.2, h3.2.symm⟩⟩
      rw [hJ.2, hS.2]
      exact Or.inl (Or.inr ⟨h.1, h1, h3.1.1, rfl⟩)
  · unfold hashPairs List.Nodup
    rw [List.pairwise_flatMap]
    constructor
    · intro k _
      rw [hget]
      exact nodup_product _ _ (List.Pairwise.filter _ (nodup_enumFrom L 0)) (List.Pairwise.filter _ (nodup_enumFrom R 0))
    · exact List.Pairwise.imp (fun {k1 k2} (hne : k1 ≠ k2) p hp q hq e => by
        rw [hget, mem_product] at hp hq
        simp only [List.mem_filter, Bool.and_eq_true, beq_iff_eq] at hp hq
        subst e
        exact hne (hp.1.2.2.symm.trans hq.1.2.2)) hJ.1
  · exact nodup_nestedHits _ L R

theorem nestedHits_and (a b : Row → Row → Bool) (L R : List Row) :
    nestedHits (fun l r => a l r && b l r) L R = (nestedHits a L R).filter (fun h => b h.1.2 h.2.2) := by
  unfold nestedHits
  rw [List.filter_flatMap]
  congr 1
  funext s
  rw [List.filter_map, List.filter_filter]
  congr 1
  congr 1
  funext j
  simp [Bool.and_comm]

theorem finishJoin_perm (c : Cfg) (side : String) (width : Nat) (L R : List Row) (h1 h2 : List Hit)
    (hp : List.Perm h1 h2) : List.Perm (finishJoin c side width L R h1) (finishJoin c side width L R h2) := by
  unfold finishJoin
  have hs : ∀ i, (h1.map (·.1.1)).contains i = (h2.map (·.1.1)).contains i := by
    intro i; rw [Bool.eq_iff_iff]; simp only [List.contains_iff_mem]; exact (hp.map _).mem_iff
  have hj : ∀ i, (h1.map (·.2.1)).contains i = (h2.map (·.2.1)).contains i := by
    intro i; rw [Bool.eq_iff_iff]; simp only [List.contains_iff_mem]; exact (hp.map _).mem_iff
  have : appendUnmatched c side width L R (h1.map (·.1.1)) (h1.map (·.2.1))
       = appendUnmatched c side width L R (h2.map (·.1.1)) (h2.map (·.2.1)) := by
    unfold appendUnmatched
    simp only [hs, hj]
  rw [this]
  exact List.Perm.append (hp.map _) (List.Perm.refl _)

/-- hash_join returns the rows of nested_loop_join for ON k = k' AND residual, up to order, for every side -/
theorem hash_join_perm_nested (c : Cfg) (side : String) (width : Nat) (ks kj : Row → Key) (cond : Option (Row → Val))
    (L R : List Row) :
    List.Perm (hashJoin c side width ks kj cond L R)
      (nestedLoopJoin c side width (fun l r => keyMatch ks kj l r && joinMatches cond (l ++ r)) L R) := by
  unfold hashJoin nestedLoopJoin
  apply finishJoin_perm
  rw [nestedHits_and]
  exact (hashPairs_perm ks kj L R).filter _


/-! ## expression evaluation, aggregate functions -/
theorem sqlAnd_eq (a b : Val) : sqlAnd a b = triVal (and3 (toTri a) (toTri b)) := by
  simp only [sqlAnd, norm_eq]
  generalize toTri a = x
  generalize toTri b = y
  revert x y
  apply tri_cases
  decide

theorem sqlOr_eq (a b : Val) : sqlOr a b = triVal (or3 (toTri a) (toTri b)) := by
  simp only [sqlOr, norm_eq]
  generalize toTri a = x
  generalize toTri b = y
  revert x y
  apply tri_cases
  decide

theorem sqlNot_eq (a : Val) : sqlNot a = triVal (not3 (toTri a)) := by
  cases a <;> simp [sqlNot, toTri, not3, triVal]

theorem sqlInLoop_range (v : Val) (cs : List Val) (hn : Bool) : ∃ t, sqlInLoop v cs hn = triVal t := by
  induction cs generalizing hn with
  | nil => cases hn
           · exact ⟨some false, rfl⟩
           · exact ⟨none, rfl⟩
  | cons c cs ih =>
    simp only [sqlInLoop]
    split
    · exact ih true
    · split
      · exact ⟨some true, rfl⟩
      · exact ih hn

theorem sqlIn_eq (v : Val) (cs : List Val) (hcs : cs ≠ []) : sqlIn v cs = triVal (in3 v cs) := by
  have h := sqlIn_spec v cs hcs
  have : ∃ t, sqlIn v cs = triVal t := by
    unfold sqlIn
    split
    · exact ⟨none, rfl⟩
    · exact sqlInLoop_range v cs false
  obtain ⟨t, ht⟩ := this
  rw [ht, toTri_triVal] at h
  rw [ht, h]

theorem envBin_cmp (op : CmpOp) (x y : Val) : envBin stdCfg (cmpName op) x y = some (triVal (cmp3 op x y)) := by
  have : envBin stdCfg (cmpName op) x y = some (nullIfAny2 (pyCmp op) x y) := by
    cases op <;> rfl
  rw [this]
  cases x <;> cases y <;> simp [nullIfAny2, cmp3, triVal, pyCmp]

/-- expressions of the fragment: IN lists are non-empty (SQL has no empty IN list) -/
def wfExpr : Expr → Prop
  | .col _ => True
  | .lit _ => True
  | .cmp _ a b => wfExpr a ∧ wfExpr b
  | .and a b => wfExpr a ∧ wfExpr b
  | .or a b => wfExpr a ∧ wfExpr b
  | .not a => wfExpr a
  | .isNull a _ => wfExpr a
  | .inList a vs => wfExpr a ∧ vs ≠ []

theorem eval_spec (row : Row) (e : Expr) (h : wfExpr e) : SqlglotModel.Exec.eval stdCfg row e = some (Sem.eval row e) := by
  induction e with
  | col i => rfl
  | lit v => rfl
  | cmp op a b iha ihb =>
    have h' : wfExpr a ∧ wfExpr b := h
    simp only [SqlglotModel.Exec.eval, iha h'.1, ihb h'.2, envBin_cmp, Sem.eval]
  | and a b iha ihb =>
    have h' : wfExpr a ∧ wfExpr b := h
    simp only [SqlglotModel.Exec.eval, iha h'.1, ihb h'.2, sqlAnd_eq, Sem.eval]
  | or a b iha ihb =>
    have h' : wfExpr a ∧ wfExpr b := h
    simp only [SqlglotModel.Exec.eval, iha h'.1, ihb h'.2, sqlOr_eq, Sem.eval]
  | not a iha =>
    have h' : wfExpr a := h
    simp only [SqlglotModel.Exec.eval, iha h', sqlNot_eq, Sem.eval, Option.map]
  | isNull a n iha =>
    have h' : wfExpr a := h
    simp only [SqlglotModel.Exec.eval, iha h', Sem.eval, Option.map]
  | inList a vs iha =>
    have h' : wfExpr a ∧ vs ≠ [] := h
    simp only [SqlglotModel.Exec.eval, iha h'.1, Sem.eval, Option.map, sqlIn_eq _ vs h'.2]

theorem foldl_count (vs : List Val) (n : Int) : vs.foldl (fun acc _ => acc + 1) n = n + vs.length := by
  induction vs generalizing n with
  | nil => simp
  | cons v vs ih => simp [List.foldl, ih]; omega

theorem foldl_sum (vs : List Val) (n : Int) : vs.foldl (fun acc v => acc + v.toInt) n = n + (vs.map Val.toInt).sum := by
  induction vs generalizing n with
  | nil => simp
  | cons v vs ih => simp [List.foldl, ih]; omega

theorem cmp_lt_trans (a b c : Val) (h1 : Val.cmp a b = .lt) (h2 : Val.cmp b c = .lt) : Val.cmp a c = .lt := by
  cases a <;> cases b <;> cases c <;> simp only [Val.cmp, Val.tag] at h1 h2 ⊢ <;>
    first
    | exact Std.TransCmp.lt_trans h1 h2
    | (exfalso; revert h1; decide)
    | (exfalso; revert h2; decide)
    | decide

theorem cmp_gt_trans (a b c : Val) (h1 : Val.cmp a b = .gt) (h2 : Val.cmp b c = .gt) : Val.cmp a c = .gt := by
  have e1 : Val.cmp b a = .lt := by rw [cmp_swap a b, h1]; rfl
  have e2 : Val.cmp c b = .lt := by rw [cmp_swap b c, h2]; rfl
  have := cmp_lt_trans c b a e2 e1
  rw [cmp_swap c a, this]; rfl

theorem cmp_dir_trans (dir : Ordering) (hd : dir = .lt ∨ dir = .gt) (a b c : Val)
    (h1 : Val.cmp a b = dir) (h2 : Val.cmp b c = dir) : Val.cmp a c = dir := by
  rcases hd with rfl | rfl
  · exact cmp_lt_trans a b c h1 h2
  · exact cmp_gt_trans a b c h1 h2

theorem extremum_foldl (dir : Ordering) (hd : dir = .lt ∨ dir = .gt) (vs : List Val) (m : Val) (seen : List Val)
    (hm : m ∈ seen) (hs : ∀ x ∈ seen, Val.cmp x m ≠ dir) :
    let r := vs.foldl (fun m x => if Val.cmp x m = dir then x else m) m
    r ∈ seen ++ vs ∧ ∀ x ∈ seen ++ vs, Val.cmp x r ≠ dir := by
  induction vs generalizing m seen with
  | nil => simpa using ⟨hm, hs⟩
  | cons v vs ih =>
    simp only [List.foldl]
    by_cases hv : Val.cmp v m = dir
    · rw [if_pos hv]
      have := ih v (seen ++ [v]) (by simp) (by
        intro x hx
        simp at hx
        rcases hx with hx | rfl
        · intro hxv
          exact hs x hx (cmp_dir_trans dir hd x v m hxv hv)
        · rw [(cmp_eq_iff x x).2 rfl]
          rcases hd with rfl | rfl <;> simp)
      simpa using this
    · rw [if_neg hv]
      have := ih m (seen ++ [v]) (by simp [hm]) (by
        intro x hx
        simp at hx
        rcases hx with hx | rfl
        · exact hs x hx
        · exact hv)
      simpa using this

theorem pyExtremum_spec (dir : Ordering) (hd : dir = .lt ∨ dir = .gt) (vs : List Val) (hne : vs ≠ []) :
    IsExtremum dir vs (pyExtremum dir vs) := by
  cases vs with
  | nil => exact absurd rfl hne
  | cons v vs =>
    have := extremum_foldl dir hd vs v [v] (by simp) (by
      intro x hx
      simp at hx; subst hx
      rw [(cmp_eq_iff x x).2 rfl]
      rcases hd with rfl | rfl <;> simp)
    simpa [IsExtremum, pyExtremum] using this

/-- the ENV aggregates ignore NULLs; COUNT of nothing is 0, SUM / MIN / MAX of nothing is NULL -/
theorem agg_functions_spec (vs : List Val) :
    envCount stdCfg vs = aggCount vs
    ∧ envSum stdCfg vs = aggSum vs
    ∧ (nonNull vs = [] → envMin stdCfg vs = .null ∧ envMax stdCfg vs = .null)
    ∧ (nonNull vs ≠ [] → IsExtremum .lt (nonNull vs) (envMin stdCfg vs) ∧ IsExtremum .gt (nonNull vs) (envMax stdCfg vs)) := by
  refine ⟨?_, ?_, ?_, ?_⟩
  · simp [envCount, filterNulls, stdCfg, pyCount, aggCount, nonNull, foldl_count]
  · simp only [envSum, filterNulls, stdCfg, pySum, aggSum, nonNull, foldl_sum, and_true]
    by_cases h : List.filter (fun x => !x.isNull) vs = []
    · simp [h]
    · simp [h]
  · intro h
    simp only [nonNull] at h
    simp [envMin, envMax, filterNulls, stdCfg, h]
  · intro h
    simp only [nonNull] at h
    simp only [envMin, envMax, filterNulls, stdCfg, h, false_and, if_false, nonNull]
    exact ⟨pyExtremum_spec .lt (Or.inl rfl) _ h, pyExtremum_spec .gt (Or.inr rfl) _ h⟩

/-- aggregate() over an empty input: one row of aggregates over nothing when there is no GROUP BY (and LIMIT > 0),
    no row at all under GROUP BY -/
theorem aggregate_empty_spec (keyOf : Row → Key) (agg : List Row → Row) (cap : Option Nat) :
    aggregateSorted stdCfg keyOf agg false cap none [] = globalAgg agg []
    ∧ aggregateSorted stdCfg keyOf agg true cap none [] = groupAgg keyOf agg [] := by
  constructor <;> rfl


/-! ## sort -/
def semItems (items : List OrdItem) : List ((Row → Val) × Bool × Bool) :=
  items.map fun it => ((fun r => Sem.getCol r it.col), it.desc, it.nullsFirst)

theorem sortKeyCmp_spec (items : List OrdItem) (a b : Row) :
    sortKeyCmp stdCfg items a b = cmpRows (semItems items) a b := by
  induction items with
  | nil => rfl
  | cons it items ih =>
    simp only [sortKeyCmp, semItems, List.map_cons, cmpRows, ordered_key_spec]
    cases h : cmpKey it.desc it.nullsFirst (Sem.getCol a it.col) (Sem.getCol b it.col) with
    | eq => simpa [semItems] using ih
    | lt => rfl
    | gt => rfl

theorem slice_limit_offset (limit : Option Nat) (offset : Nat) (rows : List Row) :
    sliceLimitOffset limit offset rows = limitOffset limit offset rows := by
  cases limit with
  | none => rfl
  | some n =>
    simp only [sliceLimitOffset, limitOffset]
    rw [List.drop_take]
    congr 1
    omega

/-- Sort step (ORDERED keys, Python tuple comparison, `rows[0 : offset + limit]` then `rows[offset:]`) is
    ORDER BY … LIMIT … OFFSET of the reference semantics -/
theorem sort_step_spec (items : List OrdItem) (limit : Option Nat) (offset : Nat) (rows : List Row) :
    sortStep stdCfg items limit offset rows = orderBy (semItems items) limit offset rows := by
  unfold sortStep orderBy sortRows
  rw [slice_limit_offset]
  congr 2
  funext a b
  rw [sortKeyCmp_spec]

theorem sort_rows_perm (c : Cfg) (items : List OrdItem) (rows : List Row) : List.Perm (sortRows c items rows) rows :=
  stableSort_perm _ _


/-! ## runs of a clustered list are the GROUP BY groups -/
theorem mem_dedup {α} [DecidableEq α] (l : List α) (x : α) : x ∈ dedup l ↔ x ∈ l := by
  induction l with
  | nil => simp [dedup]
  | cons a l ih =>
    simp only [dedup, List.mem_cons, List.mem_filter, ih, decide_eq_true_eq]
    constructor
    · rintro (h | ⟨h, _⟩)
      · exact Or.inl h
      · exact Or.inr h
    · rintro (h | h)
      · exact Or.inl h
      · by_cases hx : x = a
        · exact Or.inl hx
        · exact Or.inr ⟨h, hx⟩

theorem dedup_const_prefix {α} [DecidableEq α] (k : α) (l m : List α) (hl : ∀ x ∈ l, x = k) (hne : l ≠ []) (hk : ¬ k ∈ m) :
    dedup (l ++ m) = k :: dedup m := by
  have hfilter : (dedup m).filter (fun x => decide (x ≠ k)) = dedup m := by
    rw [List.filter_eq_self]
    intro x hx
    rw [mem_dedup] at hx
    simp only [decide_eq_true_eq]
    intro e; subst e; exact hk hx
  induction l with
  | nil => exact absurd rfl hne
  | cons x l ih =>
    have hx : x = k := hl x (by simp)
    subst hx
    cases l with
    | nil => simp only [List.cons_append, List.nil_append, dedup]; rw [hfilter]
    | cons y l' =>
      have := ih (fun z hz => hl z (by simp [hz])) (by simp)
      simp only [List.cons_append, dedup] at this ⊢
      rw [this]
      simp only [List.filter_cons, ne_eq, not_true, decide_false, Bool.false_eq_true, if_false]
      rw [hfilter]

def RunsOk (keyOf : Row → Key) (rs : List (Key × List Row)) : Prop :=
  ∀ p ∈ rs, p.2 ≠ [] ∧ ∀ r ∈ p.2, keyOf r = p.1

theorem runsFrom_flat (keyOf : Row → Key) (rest : List Row) : ∀ (cur : List Row) (k : Key),
    (runsFrom keyOf cur k rest).flatMap (·.2) = cur ++ rest := by
  induction rest with
  | nil => intro cur k; simp [runsFrom]
  | cons r rest ih =>
    intro cur k
    simp only [runsFrom]
    split
    · rw [ih]; simp
    · simp [ih]

theorem runsFrom_ok (keyOf : Row → Key) (rest : List Row) : ∀ (cur : List Row) (k : Key),
    cur ≠ [] → (∀ r ∈ cur, keyOf r = k) → RunsOk keyOf (runsFrom keyOf cur k rest) := by
  induction rest with
  | nil =>
    intro cur k hne hk p hp
    simp [runsFrom] at hp; subst hp
    exact ⟨hne, hk⟩
  | cons r rest ih =>
    intro cur k hne hk
    simp only [runsFrom]
    split
    · rename_i h
      apply ih
      · simp
      · intro x hx
        simp at hx
        rcases hx with hx | rfl
        · exact hk x hx
        · exact h
    · intro p hp
      simp at hp
      rcases hp with rfl | hp
      · exact ⟨hne, hk⟩
      · exact ih [r] (keyOf r) (by simp) (by simp) p hp

theorem groupAgg_of_runs (keyOf : Row → Key) (agg : List Row → Row) (rs : List (Key × List Row))
    (hok : RunsOk keyOf rs) (hnd : (rs.map (·.1)).Nodup) :
    groupAgg keyOf agg (rs.flatMap (·.2)) = emitRuns agg rs := by
  induction rs with
  | nil => rfl
  | cons p rs ih =>
    obtain ⟨k, run⟩ := p
    have hp := hok (k, run) (by simp)
    have hok' : RunsOk keyOf rs := fun q hq => hok q (by simp [hq])
    simp only [List.map_cons, List.nodup_cons] at hnd
    have ih' := ih hok' hnd.2
    have hkeys : ∀ r ∈ rs.flatMap (·.2), keyOf r ≠ k := by
      intro r hr
      simp only [List.mem_flatMap] at hr
      obtain ⟨q, hq, hrq⟩ := hr
      rw [(hok' q hq).2 r hrq]
      intro e
      exact hnd.1 (List.mem_map.2 ⟨q, hq, e⟩)
    have hknot : ¬ k ∈ (rs.flatMap (·.2)).map keyOf := by
      intro h
      obtain ⟨r, hr, e⟩ := List.mem_map.1 h
      exact hkeys r hr e
    simp only [groupAgg, emitRuns, List.flatMap_cons, List.map_append, List.map_cons] at ih' ⊢
    rw [dedup_const_prefix k (run.map keyOf) _ (by
          intro x hx
          obtain ⟨r, hr, rfl⟩ := List.mem_map.1 hx
          exact hp.2 r hr) (by simpa using hp.1) hknot]
    simp only [List.map_cons]
    congr 1
    · congr 2
      rw [List.filter_append]
      have h1 : run.filter (fun r => decide (keyOf r = k)) = run := by
        rw [List.filter_eq_self]; intro r hr; simpa using hp.2 r hr
      have h2 : (rs.flatMap (·.2)).filter (fun r => decide (keyOf r = k)) = [] := by
        rw [List.filter_eq_nil_iff]; intro r hr; simpa using hkeys r hr
      rw [h1, h2]; simp
    · rw [← ih']
      apply List.map_congr_left
      intro k' hk'
      rw [mem_dedup] at hk'
      have hne : k' ≠ k := fun e => hknot (e ▸ hk')
      congr 2
      rw [List.filter_append]
      have : run.filter (fun r => decide (keyOf r = k')) = [] := by
        rw [List.filter_eq_nil_iff]; intro r hr
        simp only [decide_eq_true_eq]
        rw [hp.2 r hr]; exact fun e => hne e.symm
      rw [this]; rfl

/-- every key forms exactly one run (what sorting by the group key establishes) -/
def Clustered (keyOf : Row → Key) (rows : List Row) : Prop := ((runs keyOf rows).map (·.1)).Nodup

theorem runs_groups (keyOf : Row → Key) (agg : List Row → Row) (rows : List Row) (h : Clustered keyOf rows) :
    emitRuns agg (runs keyOf rows) = groupAgg keyOf agg rows := by
  cases rows with
  | nil => rfl
  | cons r rest =>
    have hflat : (runs keyOf (r :: rest)).flatMap (·.2) = r :: rest := by
      simp only [runs]; rw [runsFrom_flat]; rfl
    have hok : RunsOk keyOf (runs keyOf (r :: rest)) := by
      simp only [runs]; exact runsFrom_ok keyOf rest [r] (keyOf r) (by simp) (by simp)
    have := groupAgg_of_runs keyOf agg _ hok h
    rw [hflat] at this
    exact this.symm


/-! ## the group-key order; sorting clusters the keys -/
/-- comparison of one component of Context.sort's key `(t is None, t)` -/
def elemCmp (a b : Val) : Ordering :=
  match compare a.isNull b.isNull with
  | .eq => Val.cmp a b
  | o => o

theorem groupKeyCmp_cons (a b : Val) (as bs : Key) :
    groupKeyCmp (a :: as) (b :: bs) = match elemCmp a b with | .eq => groupKeyCmp as bs | o => o := by
  simp only [groupKeyCmp, elemCmp]
  cases compare a.isNull b.isNull <;> simp
  cases Val.cmp a b <;> simp

theorem elemCmp_eq_iff (a b : Val) : elemCmp a b = .eq ↔ a = b := by
  cases a <;> cases b <;> simp [elemCmp, Val.isNull, Val.cmp, Val.tag]
theorem elemCmp_swap (a b : Val) : elemCmp b a = (elemCmp a b).swap := by
  cases a <;> cases b <;> simp only [elemCmp, Val.isNull, Val.cmp, Val.tag] <;> first | rfl | exact Std.OrientedOrd.eq_swap | decide
theorem elemCmp_lt_trans (a b c : Val) (h1 : elemCmp a b = .lt) (h2 : elemCmp b c = .lt) : elemCmp a c = .lt := by
  cases a <;> cases b <;> cases c <;> simp only [elemCmp, Val.isNull, Val.cmp, Val.tag] at h1 h2 ⊢ <;>
    first
    | exact Std.TransCmp.lt_trans h1 h2
    | (exfalso; revert h1; decide)
    | (exfalso; revert h2; decide)
    | decide
    | (simp at h1 h2 ⊢; exact Std.TransCmp.lt_trans h1 h2)

theorem groupKeyCmp_eq_iff (x y : Key) : groupKeyCmp x y = .eq ↔ x = y := by
  induction x generalizing y with
  | nil => cases y <;> simp [groupKeyCmp]
  | cons a as ih =>
    cases y with
    | nil => simp [groupKeyCmp]
    | cons b bs =>
      rw [groupKeyCmp_cons]
      cases h : elemCmp a b with
      | eq => simp only [ih bs, List.cons.injEq, (elemCmp_eq_iff a b).1 h, true_and]
      | lt =>
        have : a ≠ b := fun e => by rw [(elemCmp_eq_iff a b).2 e] at h; cases h
        simp [this]
      | gt =>
        have : a ≠ b := fun e => by rw [(elemCmp_eq_iff a b).2 e] at h; cases h
        simp [this]

theorem groupKeyCmp_swap (x y : Key) : groupKeyCmp y x = (groupKeyCmp x y).swap := by
  induction x generalizing y with
  | nil => cases y <;> rfl
  | cons a as ih =>
    cases y with
    | nil => rfl
    | cons b bs =>
      rw [groupKeyCmp_cons, groupKeyCmp_cons, elemCmp_swap a b]
      cases h : elemCmp a b <;> simp [Ordering.swap, ih bs]

theorem groupKeyCmp_lt_trans (x y z : Key) (h1 : groupKeyCmp x y = .lt) (h2 : groupKeyCmp y z = .lt) :
    groupKeyCmp x z = .lt := by
  induction x generalizing y z with
  | nil =>
    cases y with
    | nil => simp [groupKeyCmp] at h1
    | cons b bs => cases z with
      | nil => simp [groupKeyCmp] at h2
      | cons c cs => rfl
  | cons a as ih =>
    cases y with
    | nil => simp [groupKeyCmp] at h1
    | cons b bs =>
      cases z with
      | nil => simp [groupKeyCmp] at h2
      | cons c cs =>
        rw [groupKeyCmp_cons] at h1 h2 ⊢
        cases hab : elemCmp a b with
        | gt => rw [hab] at h1; cases h1
        | eq =>
          have e := (elemCmp_eq_iff a b).1 hab
          subst e
          rw [hab] at h1
          cases hbc : elemCmp a c with
          | gt => rw [hbc] at h2; cases h2
          | lt => rfl
          | eq => rw [hbc] at h2; exact ih bs cs h1 h2
        | lt =>
          cases hbc : elemCmp b c with
          | gt => rw [hbc] at h2; cases h2
          | eq =>
            have e := (elemCmp_eq_iff b c).1 hbc
            subst e
            rw [hab]
          | lt => rw [elemCmp_lt_trans a b c hab hbc]

/-- the `<=` of Context.sort's key -/
def keyLe (x y : Key) : Bool := groupKeyCmp x y != .gt

theorem keyLe_trans (x y z : Key) (h1 : keyLe x y = true) (h2 : keyLe y z = true) : keyLe x z = true := by
  unfold keyLe at *
  cases hxy : groupKeyCmp x y with
  | gt => simp [hxy] at h1
  | eq =>
    have := (groupKeyCmp_eq_iff x y).1 hxy
    subst this; exact h2
  | lt =>
    cases hyz : groupKeyCmp y z with
    | gt => simp [hyz] at h2
    | eq =>
      have := (groupKeyCmp_eq_iff y z).1 hyz
      subst this; simp [hxy]
    | lt => simp [groupKeyCmp_lt_trans x y z hxy hyz]

theorem keyLe_total (x y : Key) : (keyLe x y || keyLe y x) = true := by
  unfold keyLe
  rw [groupKeyCmp_swap x y]
  cases groupKeyCmp x y <;> rfl

theorem lt_of_le_of_ne (x y : Key) (h : keyLe x y = true) (hne : x ≠ y) : groupKeyCmp x y = .lt := by
  unfold keyLe at h
  cases hxy : groupKeyCmp x y with
  | lt => rfl
  | gt => simp [hxy] at h
  | eq => exact absurd ((groupKeyCmp_eq_iff x y).1 hxy) hne

/-- on a list sorted by the group key, the run keys are strictly increasing -/
theorem runsFrom_sorted (keyOf : Row → Key) (rest : List Row) : ∀ (cur : List Row) (k : Key),
    (∀ r ∈ rest, keyLe k (keyOf r) = true) →
    List.Pairwise (fun a b => keyLe (keyOf a) (keyOf b) = true) rest →
    ∃ ks, (runsFrom keyOf cur k rest).map (·.1) = k :: ks ∧ List.Pairwise (fun a b => groupKeyCmp a b = .lt) (k :: ks) := by
  induction rest with
  | nil => intro cur k _ _; exact ⟨[], by simp [runsFrom], by simp⟩
  | cons r rest ih =>
    intro cur k h1 h2
    rw [List.pairwise_cons] at h2
    simp only [runsFrom]
    by_cases hk : keyOf r = k
    · rw [if_pos hk]
      exact ih _ k (fun x hx => h1 x (by simp [hx])) h2.2
    · rw [if_neg hk]
      obtain ⟨ks, e, hp⟩ := ih [r] (keyOf r) (fun x hx => h2.1 x hx) h2.2
      refine ⟨keyOf r :: ks, by simp [e], ?_⟩
      rw [List.pairwise_cons]
      refine ⟨?_, hp⟩
      have hlt : groupKeyCmp k (keyOf r) = .lt := lt_of_le_of_ne _ _ (h1 r (by simp)) (fun e => hk e.symm)
      intro k' hk'
      simp only [List.mem_cons] at hk'
      rcases hk' with rfl | hk'
      · exact hlt
      · rw [List.pairwise_cons] at hp
        exact groupKeyCmp_lt_trans _ _ _ hlt (hp.1 k' hk')

theorem sortByGroupKey_sorted (keyOf : Row → Key) (rows : List Row) :
    List.Pairwise (fun a b => keyLe (keyOf a) (keyOf b) = true) (sortByGroupKey keyOf rows) := by
  unfold sortByGroupKey
  exact pairwise_stableSort (le := fun a b => groupKeyCmp (keyOf a) (keyOf b) != .gt)
    (fun a b c h1 h2 => keyLe_trans _ _ _ h1 h2) (fun a b => keyLe_total _ _) rows

/-- `context.sort(group_by)` puts every key into exactly one run -/
theorem sorted_clustered (keyOf : Row → Key) (rows : List Row)
    (hs : List.Pairwise (fun a b => keyLe (keyOf a) (keyOf b) = true) rows) : Clustered keyOf rows := by
  unfold Clustered
  cases rows with
  | nil => simp [runs]
  | cons r rest =>
    rw [List.pairwise_cons] at hs
    obtain ⟨ks, e, hp⟩ := runsFrom_sorted keyOf rest [r] (keyOf r) hs.1 hs.2
    simp only [runs]
    rw [e]
    exact List.Pairwise.imp (fun {a b} (h : groupKeyCmp a b = .lt) (e : a = b) => by
      subst e; rw [(groupKeyCmp_eq_iff a a).2 rfl] at h; cases h) hp

theorem sortByGroupKey_clustered (keyOf : Row → Key) (rows : List Row) : Clustered keyOf (sortByGroupKey keyOf rows) :=
  sorted_clustered keyOf _ (sortByGroupKey_sorted keyOf rows)

theorem sortByGroupKey_perm (keyOf : Row → Key) (rows : List Row) : List.Perm (sortByGroupKey keyOf rows) rows :=
  stableSort_perm _ _

/-! ## GROUP BY depends on the bag of rows only -/
theorem nodup_dedup {α} [DecidableEq α] (l : List α) : (dedup l).Nodup := by
  induction l with
  | nil => simp [dedup]
  | cons a l ih =>
    simp only [dedup, List.nodup_cons]
    constructor
    · simp [List.mem_filter]
    · exact List.Pairwise.filter _ ih

theorem dedup_perm {α} [DecidableEq α] (l1 l2 : List α) (h : List.Perm l1 l2) : List.Perm (dedup l1) (dedup l2) := by
  rw [List.perm_ext_iff_of_nodup (nodup_dedup l1) (nodup_dedup l2)]
  intro a
  rw [mem_dedup, mem_dedup]
  exact h.mem_iff

/-- GROUP BY is a function of the bag of input rows (up to the order of the output rows) when the aggregates are -/
theorem groupAgg_perm (keyOf : Row → Key) (agg : List Row → Row) (hagg : ∀ a b, List.Perm a b → agg a = agg b)
    (r1 r2 : List Row) (h : List.Perm r1 r2) : List.Perm (groupAgg keyOf agg r1) (groupAgg keyOf agg r2) := by
  unfold groupAgg
  have hF : ∀ k, k ++ agg (r1.filter fun r => keyOf r = k) = k ++ agg (r2.filter fun r => keyOf r = k) := by
    intro k; rw [hagg _ _ (h.filter _)]
  simp only [hF]
  exact (dedup_perm _ _ (h.map keyOf)).map _

theorem perm_sum_int (l1 l2 : List Int) (h : List.Perm l1 l2) : l1.sum = l2.sum := by
  induction h with
  | nil => rfl
  | cons x _ ih => simp [ih]
  | swap x y l => simp; omega
  | trans _ _ ih1 ih2 => exact ih1.trans ih2

theorem extremum_unique (dir : Ordering) (hd : dir = .lt ∨ dir = .gt) (vs : List Val) (m1 m2 : Val)
    (h1 : IsExtremum dir vs m1) (h2 : IsExtremum dir vs m2) : m1 = m2 := by
  have a := h1.2 m2 h2.1   -- cmp m2 m1 ≠ dir
  have b := h2.2 m1 h1.1   -- cmp m1 m2 ≠ dir
  rw [cmp_swap m1 m2] at a
  apply (cmp_eq_iff m1 m2).1
  rcases hd with rfl | rfl <;> cases h : Val.cmp m1 m2 <;> simp_all [Ordering.swap]

/-- the ENV aggregates depend only on the bag of their inputs -/
theorem env_aggs_perm (vs ws : List Val) (h : List.Perm vs ws) :
    envCount stdCfg vs = envCount stdCfg ws ∧ envSum stdCfg vs = envSum stdCfg ws
    ∧ envMin stdCfg vs = envMin stdCfg ws ∧ envMax stdCfg vs = envMax stdCfg ws := by
  have hn : List.Perm (nonNull vs) (nonNull ws) := h.filter _
  have s1 := agg_functions_spec vs
  have s2 := agg_functions_spec ws
  refine ⟨?_, ?_, ?_, ?_⟩
  · rw [s1.1, s2.1]; simp [aggCount, hn.length_eq]
  · rw [s1.2.1, s2.2.1]
    unfold aggSum
    by_cases e : nonNull vs = []
    · have : nonNull ws = [] := by rw [e] at hn; exact List.perm_nil.1 hn.symm |> fun x => x
      simp [e, this]
    · have : nonNull ws ≠ [] := fun x => e (by rw [x] at hn; exact List.perm_nil.1 hn)
      simp [e, this, perm_sum_int _ _ (hn.map Val.toInt)]
  · by_cases e : nonNull vs = []
    · have : nonNull ws = [] := by rw [e] at hn; exact List.nil_perm.1 hn
      rw [(s1.2.2.1 e).1, (s2.2.2.1 this).1]
    · have e2 : nonNull ws ≠ [] := fun x => e (by rw [x] at hn; exact List.perm_nil.1 hn)
      have a := (s1.2.2.2 e).1
      have b := (s2.2.2.2 e2).1
      have b' : IsExtremum .lt (nonNull vs) (envMin stdCfg ws) :=
        ⟨hn.mem_iff.2 b.1, fun x hx => b.2 x (hn.mem_iff.1 hx)⟩
      exact extremum_unique .lt (Or.inl rfl) _ _ _ a b'
  · by_cases e : nonNull vs = []
    · have : nonNull ws = [] := by rw [e] at hn; exact List.nil_perm.1 hn
      rw [(s1.2.2.1 e).2, (s2.2.2.1 this).2]
    · have e2 : nonNull ws ≠ [] := fun x => e (by rw [x] at hn; exact List.perm_nil.1 hn)
      have a := (s1.2.2.2 e).2
      have b := (s2.2.2.2 e2).2
      have b' : IsExtremum .gt (nonNull vs) (envMax stdCfg ws) :=
        ⟨hn.mem_iff.2 b.1, fun x hx => b.2 x (hn.mem_iff.1 hx)⟩
      exact extremum_unique .gt (Or.inr rfl) _ _ _ a b'

/-! ## aggregate()'s limit break -/
theorem aggLoop_step_cap (keyOf : Row → Key) (agg : List Row → Row) (rows : List Row) (n i : Nat) (r : Row) (rest : List Row)
    (k : Key) (s e : Nat) (out : List Row) :
    aggLoop stdCfg keyOf agg rows (some n) i (r :: rest) ⟨some k, s, e, out⟩ =
      if n ≤ (if keyOf r ≠ k then out ++ [k ++ agg (slice rows s (e + 1 - 2))] else out).length
      then (if keyOf r ≠ k then out ++ [k ++ agg (slice rows s (e + 1 - 2))] else out)
      else aggLoop stdCfg keyOf agg rows (some n) (i + 1) rest
        ⟨some (if keyOf r ≠ k then keyOf r else k), (if keyOf r ≠ k then e + 1 - 2 else s), e + 1,
          (if i = rows.length - 1 then
            (if keyOf r ≠ k then out ++ [k ++ agg (slice rows s (e + 1 - 2))] else out)
              ++ [(if keyOf r ≠ k then keyOf r else k) ++ agg (slice rows (if keyOf r ≠ k then e + 1 - 2 else s) (e + 1 - 1))]
           else (if keyOf r ≠ k then out ++ [k ++ agg (slice rows s (e + 1 - 2))] else out))⟩ := by
  rw [aggLoop]
  simp only [capReached, stdCfg, Option.getD_some, ge_iff_le, decide_eq_true_eq]

theorem aggLoop_nil_cap (keyOf : Row → Key) (agg : List Row → Row) (rows : List Row) (c : Option Nat) (i : Nat) (st : AggSt) :
    aggLoop stdCfg keyOf agg rows c i [] st = st.out := rfl

theorem take_append_one_more {α} (l : List α) (x : α) (m : List α) (n : Nat) (h : l.length + 1 = n) :
    (l ++ x :: m).take n = l ++ [x] := by
  subst h
  have : l ++ x :: m = (l ++ [x]) ++ m := by simp
  rw [this]
  have hl : (l ++ [x]).length = l.length + 1 := by simp
  rw [← hl, List.take_left']
  rfl

theorem aggLoop_inv_cap (keyOf : Row → Key) (agg : List Row → Row) (rows : List Row) (n : Nat) (rest : List Row) :
    ∀ (r : Row) (i s : Nat) (k : Key) (out : List Row), rows.drop i = r :: rest → s ≤ i → out.length < n →
    aggLoop stdCfg keyOf agg rows (some n) i (r :: rest) ⟨some k, s, i + 1, out⟩
      = (out ++ emitRuns agg (runsFrom keyOf (slice rows s i) k (r :: rest))).take n := by
  induction rest with
  | nil =>
    intro r i s k out hd hs hlen
    have hl := length_of_drop rows i r [] hd
    have hlast : i = rows.length - 1 := by simp at hl; omega
    rw [aggLoop_step_cap, aggLoop_nil_cap]
    simp only []
    rw [if_pos hlast]
    have e1 : i + 1 + 1 - 2 = i := by omega
    have e2 : i + 1 + 1 - 1 = i + 1 := by omega
    rw [e1, e2]
    by_cases hk : keyOf r = k
    · have hk2 : ¬ keyOf r ≠ k := by simpa using hk
      simp only [hk2, if_false]
      rw [if_neg (by omega)]
      simp only [runsFrom, if_pos hk, emitRuns, List.map_cons, List.map_nil]
      rw [slice_succ rows s i r [] hd hs, List.take_of_length_le (by simp; omega)]
    · have hk2 : keyOf r ≠ k := hk
      simp only [hk2, if_true, ne_eq, not_false_eq_true]
      simp only [runsFrom, if_neg hk, emitRuns, List.map_cons, List.map_nil, slice_one rows i r [] hd]
      by_cases hn : n ≤ (out ++ [k ++ agg (slice rows s i)]).length
      · rw [if_pos hn]
        simp at hn
        rw [take_append_one_more out _ _ n (by omega)]
      · rw [if_neg hn]
        simp at hn
        rw [List.take_of_length_le (by simp; omega)]
        simp
  | cons r' rest' ih =>
    intro r i s k out hd hs hlen
    have hl := length_of_drop rows i r (r' :: rest') hd
    have hlast : ¬ i = rows.length - 1 := by simp at hl; omega
    have hd' : rows.drop (i + 1) = r' :: rest' := by
      have : rows.drop (i + 1) = (rows.drop i).drop 1 := by simp [List.drop_drop]
      rw [this, hd]; rfl
    rw [aggLoop_step_cap]
    rw [if_neg hlast]
    have e1 : i + 1 + 1 - 2 = i := by omega
    rw [e1]
    by_cases hk : keyOf r = k
    · have hk2 : ¬ keyOf r ≠ k := by simpa using hk
      simp only [if_neg hk2]
      rw [if_neg (by omega)]
      rw [ih r' (i + 1) s k out hd' (by omega) hlen]
      conv => rhs; rw [runsFrom, if_pos hk]
      rw [slice_succ rows s i r _ hd hs]
    · have hk2 : keyOf r ≠ k := hk
      simp only [if_pos hk2]
      conv => rhs; rw [runsFrom, if_neg hk]
      by_cases hn : n ≤ (out ++ [k ++ agg (slice rows s i)]).length
      · rw [if_pos hn]
        simp at hn
        simp only [emitRuns, List.map_cons]
        rw [take_append_one_more out _ _ n (by omega)]
      · rw [if_neg hn]
        simp at hn
        rw [ih r' (i + 1) i (keyOf r) _ hd' (by omega) (by simp; omega)]
        rw [slice_one rows i r _ hd]
        simp [emitRuns]

theorem aggLoop_first_cap (keyOf : Row → Key) (agg : List Row → Row) (rows : List Row) (n : Nat) (r : Row) (rest : List Row) :
    aggLoop stdCfg keyOf agg rows (some n) 0 (r :: rest) ⟨none, 0, 1, []⟩ =
      if n = 0 then [] else
      aggLoop stdCfg keyOf agg rows (some n) 1 rest
        ⟨some (keyOf r), 0, 2, (if 0 = rows.length - 1 then [keyOf r ++ agg (slice rows 0 1)] else [])⟩ := by
  rw [aggLoop]
  simp [capReached, stdCfg]

/-- with the limit break (`cap` = offset + limit, no HAVING): the first `cap` runs -/
theorem aggregate_runs_limit_spec (keyOf : Row → Key) (agg : List Row → Row) (rows : List Row) (hne : rows ≠ [])
    (g : Bool) (n : Nat) (lim : Option Nat) :
    aggregateSorted stdCfg keyOf agg g (some n) lim rows = (emitRuns agg (runs keyOf rows)).take n := by
  cases rows with
  | nil => exact absurd rfl hne
  | cons r rest =>
    have hlen : (r :: rest).length ≠ 0 := by simp
    unfold aggregateSorted
    rw [if_pos hlen]
    show aggLoop stdCfg keyOf agg (r :: rest) (some n) 0 (r :: rest) ⟨none, 0, 1, []⟩ = _
    rw [aggLoop_first_cap]
    by_cases hn : n = 0
    · subst hn; simp
    · rw [if_neg hn]
      cases rest with
      | nil =>
        rw [aggLoop_nil_cap]
        simp only [List.length_singleton, Nat.sub_self, if_true, runs, runsFrom, emitRuns, List.map_cons, List.map_nil]
        rw [List.take_of_length_le (by simp; omega)]
        simp [slice]
      | cons r' rest' =>
        have hl : ¬ (0 = (r :: r' :: rest').length - 1) := by simp
        rw [if_neg hl]
        rw [aggLoop_inv_cap keyOf agg (r :: r' :: rest') n rest' r' 1 0 (keyOf r) [] (by simp) (by omega) (by simp; omega)]
        simp [slice, runs]


/-! ## ANY / ALL subquery comparison -/
theorem nullIfAny_cmp (op : CmpOp) (x y : Val) : nullIfAny2 (pyCmp op) x y = triVal (cmp3 op x y) := by
  cases x <;> cases y <;> simp [nullIfAny2, cmp3, triVal, pyCmp]

theorem tri_branch {α} (t : Tri) (isAny : Bool) (A B C : α) :
    (if triVal t = Val.null then A else if truthy (triVal t) = isAny then B else C)
      = match t with
        | none => A
        | some b => if b = isAny then B else C := by
  cases t with
  | none => simp [triVal]
  | some b => cases b <;> simp [triVal, truthy]

theorem subqLoop_any (op : CmpOp) (v : Val) (xs : List Val) (sn : Bool) :
    subqLoop (fun a b => triVal (cmp3 op a b)) true v xs sn
      = triVal (or3 (any3 op v xs) (if sn then none else some false)) := by
  induction xs generalizing sn with
  | nil => cases sn <;> rfl
  | cons x xs ih =>
    simp only [subqLoop, any3]
    rw [tri_branch, ih true, ih sn]
    generalize cmp3 op v x = t
    generalize any3 op v xs = A
    cases t with
    | none => cases A with
      | none => cases sn <;> rfl
      | some b => cases b <;> cases sn <;> rfl
    | some c => cases c <;> (cases A with
      | none => cases sn <;> rfl
      | some b => cases b <;> cases sn <;> rfl)

theorem subqLoop_all (op : CmpOp) (v : Val) (xs : List Val) (sn : Bool) :
    subqLoop (fun a b => triVal (cmp3 op a b)) false v xs sn
      = triVal (and3 (all3 op v xs) (if sn then none else some true)) := by
  induction xs generalizing sn with
  | nil => cases sn <;> rfl
  | cons x xs ih =>
    simp only [subqLoop, all3]
    rw [tri_branch, ih true, ih sn]
    generalize cmp3 op v x = t
    generalize all3 op v xs = A
    cases t with
    | none => cases A with
      | none => cases sn <;> rfl
      | some b => cases b <;> cases sn <;> rfl
    | some c => cases c <;> (cases A with
      | none => cases sn <;> rfl
      | some b => cases b <;> cases sn <;> rfl)

/-- `v op ANY/ALL (subquery)`: the early-exit loop with its saw_null flag is the Kleene disjunction / conjunction -/
theorem subquery_comparison_spec (op : CmpOp) (v : Val) (xs : List Val) :
    subqueryComparison stdCfg (cmpName op) "ANY" v xs = some (triVal (any3 op v xs))
    ∧ subqueryComparison stdCfg (cmpName op) "ALL" v xs = some (triVal (all3 op v xs)) := by
  have hl : lookup (cmpName op) stdCfg.cmpOps = some op := by cases op <;> rfl
  have hf : nullIfAny2 (pyCmp op) = fun a b => triVal (cmp3 op a b) := by
    funext a b; exact nullIfAny_cmp op a b
  constructor
  · simp only [subqueryComparison, hl, hf]
    have : (("ANY" : String) == "ANY") = true := by decide
    rw [this, subqLoop_any]
    cases any3 op v xs with
    | none => rfl
    | some b => cases b <;> rfl
  · simp only [subqueryComparison, hl, hf]
    have : (("ALL" : String) == "ANY") = false := by decide
    rw [this, subqLoop_all]
    cases all3 op v xs with
    | none => rfl
    | some b => cases b <;> rfl


/-! ## scan / _project_and_filter -/
def takeCap (cap : Option Nat) (rows : List Row) : List Row :=
  match cap with | none => rows | some n => rows.take n

theorem projectFilterLoop_spec (cond : Option (Row → Val)) (projs : Option (Row → Row)) (cap : Option Nat)
    (rows sink : List Row) (hs : ∀ n, cap = some n → sink.length ≤ n) :
    projectFilterLoop cond projs cap rows sink = takeCap cap (sink ++ selectWhere cond projs rows) := by
  induction rows generalizing sink with
  | nil =>
    simp only [projectFilterLoop, selectWhere, List.filter_nil, List.map_nil, List.append_nil]
    cases cap with
    | none => rfl
    | some n => simp only [takeCap]; rw [List.take_of_length_le (hs n rfl)]
  | cons row rest ih =>
    simp only [projectFilterLoop]
    by_cases hc : capReached cap sink = true
    · rw [if_pos hc]
      cases cap with
      | none => simp [capReached] at hc
      | some n =>
        simp only [capReached, ge_iff_le, decide_eq_true_eq] at hc
        have := hs n rfl
        simp only [takeCap]
        rw [List.take_left' (by omega)]
    · rw [if_neg hc]
      have hlt : ∀ n, cap = some n → sink.length < n := by
        intro n hn; subst hn
        simp only [capReached, ge_iff_le, decide_eq_true_eq] at hc; omega
      by_cases hk : keeps cond row = true
      · simp only [hk, Bool.not_true, Bool.false_eq_true, if_false]
        rw [ih _ (by intro n hn; have := hlt n hn; simp; omega)]
        simp [selectWhere, List.filter_cons, hk]
      · have hk' : keeps cond row = false := by simpa using hk
        simp only [hk', Bool.not_false, if_true]
        rw [ih sink hs]
        simp [selectWhere, List.filter_cons, hk']

/-- scan / _project_and_filter: the filtered, projected rows, cut at offset + limit -/
theorem scan_spec (src : ScanSource) (cond : Option (Row → Val)) (projs : Option (Row → Row)) (cap : Option Nat) :
    scan src cond projs cap
      = takeCap cap (selectWhere cond projs (match src with | .static => [[]] | .table rows => rows)) := by
  unfold scan projectFilter
  rw [projectFilterLoop_spec _ _ _ _ [] (by intro n _; simp)]
  rfl

/-- … and with `_execute`'s offset slice it is LIMIT / OFFSET of the reference semantics -/
theorem scan_limit_offset_spec (src : ScanSource) (cond : Option (Row → Val)) (projs : Option (Row → Row))
    (limit : Option Nat) (offset : Nat) :
    applyOffset offset (scan src cond projs (capOf limit offset))
      = limitOffset limit offset (selectWhere cond projs (match src with | .static => [[]] | .table rows => rows)) := by
  rw [scan_spec]
  cases limit with
  | none => rfl
  | some n =>
    simp only [capOf, Option.map, takeCap, applyOffset]
    exact slice_limit_offset (some n) offset _


/-! ## join()'s shared rows list / aggregate()'s widening: aliasing -/
/-- all tables of the context hold the same, valid list object -/
def Heap.Shared (h : Heap) : Prop := ∃ a, a < h.cells.length ∧ ∀ v, v < h.views.length → h.addr v = a

theorem ofJoin_shared (rows : List Row) (n : Nat) : (Heap.ofJoin rows n).Shared := by
  refine ⟨0, by simp [Heap.ofJoin], ?_⟩
  intro v hv
  simp only [Heap.ofJoin, List.length_replicate] at hv
  simp [Heap.addr, Heap.ofJoin, List.getD, List.getElem?_replicate, hv]

theorem ofJoin_read (rows : List Row) (n v : Nat) (hv : v < n) : (Heap.ofJoin rows n).read v = rows := by
  simp [Heap.read, Heap.addr, Heap.ofJoin, List.getD, List.getElem?_replicate, hv]

theorem set_shared_read (h : Heap) (hs : h.Shared) (hne : 0 < h.views.length) (new : List Row) (v : Nat)
    (hv : v < h.views.length) :
    (⟨h.cells.set (h.addr 0) new, h.views⟩ : Heap).read v = new
    ∧ (⟨h.cells.set (h.addr 0) new, h.views⟩ : Heap).Shared := by
  obtain ⟨a, ha, hall⟩ := hs
  have h0 : h.addr 0 = a := hall 0 hne
  have hva : h.addr v = a := hall v hv
  constructor
  · show (h.cells.set (h.addr 0) new).getD (h.views.getD v 0) [] = new
    have : h.views.getD v 0 = a := hva
    rw [this, h0]
    simp [List.getD, List.getElem?_set_self ha]
  · exact ⟨a, by simpa using ha, fun w hw => hall w hw⟩

/-- in-place widening (subscript stores) keeps every table of the join on the same rows: all readers see the widened rows -/
theorem widen_in_place_keeps_views (h : Heap) (hs : h.Shared) (hne : 0 < h.views.length) (ops : List Row) (v : Nat)
    (hv : v < h.views.length) :
    (h.widen .subscriptStore ops).read v = widened (h.read 0) ops ∧ (h.widen .subscriptStore ops).Shared :=
  set_shared_read h hs hne _ v hv

theorem sort_in_place_keeps_views (h : Heap) (hs : h.Shared) (hne : 0 < h.views.length) (keyOf : Row → Key) (v : Nat)
    (hv : v < h.views.length) :
    (h.sortInPlace keyOf).read v = sortByGroupKey keyOf (h.read 0) ∧ (h.sortInPlace keyOf).Shared :=
  set_shared_read h hs hne _ v hv

/-- aggregate() over a join, with computed operands: after the in-place widening and the in-place group-key sort, EVERY
    joined table's readers see the same list: the widened rows, sorted (so group keys of any table pair with the right
    operand values) -/
theorem aggregate_views_consistent (rows ops : List Row) (n : Nat) (keyOf : Row → Key) (v : Nat) (hv : v < n) (hn : 0 < n) :
    (((Heap.ofJoin rows n).widen .subscriptStore ops).sortInPlace keyOf).read v
      = sortByGroupKey keyOf (widened rows ops) := by
  have hs0 := ofJoin_shared rows n
  have hl : (Heap.ofJoin rows n).views.length = n := by simp [Heap.ofJoin]
  have w0 := widen_in_place_keeps_views (Heap.ofJoin rows n) hs0 (by omega) ops 0 (by omega)
  have hlw : ((Heap.ofJoin rows n).widen .subscriptStore ops).views.length = n := by simp [Heap.widen, Heap.ofJoin]
  have s := sort_in_place_keeps_views _ w0.2 (by omega) keyOf v (by omega)
  rw [s.1, w0.1, ofJoin_read rows n 0 hn]


/-! ## quantified comparisons: IN / NOT IN / ANY / ALL over a subquery result -/
theorem not_in_empty_true (v : Val) : notInSub v [] = some true := rfl
theorem in_empty_false (v : Val) : inSub v [] = some false := rfl
theorem all_empty_true (op : CmpOp) (v : Val) : all3 op v [] = some true := rfl
theorem any_empty_false (op : CmpOp) (v : Val) : any3 op v [] = some false := rfl

theorem cmp3_null_left (op : CmpOp) (x : Val) : cmp3 op .null x = none := by cases x <;> rfl

/-- a NULL probe against a NON-empty result is UNKNOWN, for ANY and for ALL -/
theorem null_probe_unknown (op : CmpOp) (xs : List Val) (h : xs ≠ []) :
    any3 op .null xs = none ∧ all3 op .null xs = none := by
  induction xs with
  | nil => exact absurd rfl h
  | cons x xs ih =>
    simp only [any3, all3, cmp3_null_left]
    cases xs with
    | nil => exact ⟨rfl, rfl⟩
    | cons y ys =>
      have := ih (by simp)
      rw [this.1, this.2]; exact ⟨rfl, rfl⟩

theorem cmp3_eq_true_iff (v x : Val) : cmp3 .eq v x = some true ↔ (v ≠ .null ∧ x ≠ .null ∧ v = x) := by
  cases v <;> cases x <;> simp [cmp3, CmpOp.test, Val.cmp, Val.tag]

/-- IN is ∃ under three-valued logic: TRUE iff some element matches -/
theorem in_true_iff (v : Val) (xs : List Val) : inSub v xs = some true ↔ (v ≠ .null ∧ v ∈ xs) := by
  unfold inSub
  induction xs with
  | nil => simp [any3]
  | cons x xs ih =>
    simp only [any3]
    constructor
    · intro h
      cases hc : cmp3 .eq v x with
      | some b =>
        cases b with
        | true =>
          have := (cmp3_eq_true_iff v x).1 hc
          exact ⟨this.1, by simp [this.2.2]⟩
        | false =>
          rw [hc] at h
          have h' : any3 .eq v xs = some true := by
            cases ha : any3 .eq v xs with
            | none => rw [ha] at h; cases h
            | some b => cases b <;> simp_all [or3]
          have := ih.1 h'
          exact ⟨this.1, by simp [this.2]⟩
      | none =>
        rw [hc] at h
        have h' : any3 .eq v xs = some true := by
          cases ha : any3 .eq v xs with
          | none => rw [ha] at h; cases h
          | some b => cases b <;> simp_all [or3]
        have := ih.1 h'
        exact ⟨this.1, by simp [this.2]⟩
    · rintro ⟨hv, hm⟩
      simp only [List.mem_cons] at hm
      rcases hm with rfl | hm
      · have : cmp3 .eq v v = some true := (cmp3_eq_true_iff v v).2 ⟨hv, hv, rfl⟩
        rw [this]; cases any3 .eq v xs with
        | none => rfl
        | some b => cases b <;> rfl
      · rw [ih.2 ⟨hv, hm⟩]
        cases cmp3 .eq v x with
        | none => rfl
        | some b => cases b <;> rfl

theorem in_false_iff (v : Val) (xs : List Val) : inSub v xs = some false ↔ (xs = [] ∨ (v ≠ .null ∧ ¬ .null ∈ xs ∧ ¬ v ∈ xs)) := by
  unfold inSub
  induction xs with
  | nil => simp [any3]
  | cons x xs ih =>
    simp only [any3, List.cons_ne_nil, false_or, List.mem_cons, not_or]
    constructor
    · intro h
      have hc : cmp3 .eq v x = some false := by
        cases hc : cmp3 .eq v x with
        | none => rw [hc] at h; cases ha : any3 .eq v xs with
          | none => rw [ha] at h; cases h
          | some b => rw [ha] at h; cases b <;> cases h
        | some b => cases b with
          | false => rfl
          | true => rw [hc] at h; cases h
      rw [hc] at h
      have ha : any3 .eq v xs = some false := by
        cases ha : any3 .eq v xs with
        | none => rw [ha] at h; cases h
        | some b => cases b with
          | false => rfl
          | true => rw [ha] at h; cases h
      have hvx : v ≠ .null ∧ x ≠ .null ∧ v ≠ x := by
        cases v <;> cases x <;> simp_all [cmp3, CmpOp.test, Val.cmp, Val.tag]
      rcases ih.1 ha with rfl | ⟨_, h2, h3⟩
      · exact ⟨hvx.1, ⟨fun e => hvx.2.1 e.symm, by simp⟩, ⟨hvx.2.2, by simp⟩⟩
      · exact ⟨hvx.1, ⟨fun e => hvx.2.1 e.symm, h2⟩, ⟨hvx.2.2, h3⟩⟩
    · rintro ⟨hv, ⟨hx, hn⟩, ⟨hne, hnm⟩⟩
      have hc : cmp3 .eq v x = some false := by
        have hx' : x ≠ .null := fun e => hx e.symm
        cases v <;> cases x <;> simp_all [cmp3, CmpOp.test, Val.cmp, Val.tag]
      have ha : any3 .eq v xs = some false := by
        by_cases hxs : xs = []
        · subst hxs; rfl
        · exact ih.2 (Or.inr ⟨hv, hn, hnm⟩)
      rw [hc, ha]; rfl

/-- a NULL in the subquery result: IN is TRUE on a match and otherwise UNKNOWN, never FALSE -/
theorem in_with_null_unknown_unless_match (v : Val) (xs : List Val) (hv : v ≠ .null) (hn : .null ∈ xs) :
    (v ∈ xs → inSub v xs = some true) ∧ (¬ v ∈ xs → inSub v xs = none) := by
  constructor
  · intro hm; exact (in_true_iff v xs).2 ⟨hv, hm⟩
  · intro hm
    cases h : inSub v xs with
    | none => rfl
    | some b =>
      cases b with
      | true => exact absurd ((in_true_iff v xs).1 h).2 hm
      | false =>
        rcases (in_false_iff v xs).1 h with rfl | ⟨_, h2, _⟩
        · cases hn
        · exact absurd hn h2

/-- NOT IN is ∀ under three-valued logic: `v NOT IN xs` = `v <> ALL xs` (De Morgan for Kleene's connectives) -/
theorem not_in_is_all_ne (v : Val) (xs : List Val) : notInSub v xs = all3 .ne v xs := by
  unfold notInSub
  induction xs with
  | nil => rfl
  | cons x xs ih =>
    simp only [any3, all3, ← ih]
    have hc : cmp3 .ne v x = not3 (cmp3 .eq v x) := by
      cases v <;> cases x <;> simp only [cmp3, not3, CmpOp.test] <;> rfl
    rw [hc]
    cases cmp3 .eq v x with
    | none => cases any3 .eq v xs with
      | none => rfl
      | some b => cases b <;> rfl
    | some c => cases c <;> (cases any3 .eq v xs with
      | none => rfl
      | some b => cases b <;> rfl)

/-- the ENV entry as registered (NOT wrapped) is the quantified comparison, also for a NULL probe -/
theorem subquery_comparison_env_spec (op : CmpOp) (v : Val) (xs : List Val) :
    subqueryComparisonEnv false stdCfg (cmpName op) "ANY" v xs = some (triVal (any3 op v xs))
    ∧ subqueryComparisonEnv false stdCfg (cmpName op) "ALL" v xs = some (triVal (all3 op v xs))
    ∧ notInSubquery false stdCfg v xs = some (triVal (notInSub v xs)) := by
  have h := subquery_comparison_spec op v xs
  have he := subquery_comparison_spec .eq v xs
  refine ⟨by simpa [subqueryComparisonEnv] using h.1, by simpa [subqueryComparisonEnv] using h.2, ?_⟩
  simp only [notInSubquery, subqueryComparisonEnv, Bool.false_and, Bool.false_eq_true, if_false]
  have : subqueryComparison stdCfg "EQ" "ANY" v xs = some (triVal (any3 .eq v xs)) := he.1
  rw [this, Option.map_some, sqlNot_eq, toTri_triVal]
  rfl


/-! ## the subquery-result memo -/
/-- every cached entry is the result for some argument with that key -/
def CacheOk {α κ β} (key : α → κ) (f : α → β) (cache : List (κ × β)) : Prop :=
  ∀ p ∈ cache, ∃ a, key a = p.1 ∧ f a = p.2

theorem assocGet_mem {κ β} [DecidableEq κ] (k : κ) (cache : List (κ × β)) (b : β) (h : assocGet k cache = some b) :
    (k, b) ∈ cache := by
  induction cache with
  | nil => cases h
  | cons p rest ih =>
    obtain ⟨k', b'⟩ := p
    simp only [assocGet] at h
    by_cases e : k' = k
    · rw [if_pos e] at h; cases h; subst e; simp
    · rw [if_neg e] at h; simp [ih h]

/-- generic memo lemma: when the key determines the result, evaluation through the memo is plain evaluation -/
theorem memoRun_transparent {α κ β} [DecidableEq κ] (key : α → κ) (f : α → β)
    (hdet : ∀ a b, key a = key b → f a = f b) (as : List α) (cache : List (κ × β)) (hc : CacheOk key f cache) :
    memoRun key f as cache = as.map f := by
  induction as generalizing cache with
  | nil => rfl
  | cons a as ih =>
    simp only [memoRun, List.map_cons, memoStep]
    cases hg : assocGet (key a) cache with
    | some b =>
      simp only []
      obtain ⟨a', hk, hf⟩ := hc _ (assocGet_mem _ _ _ hg)
      have : b = f a := by
        have hf' : f a' = b := hf
        rw [← hf']; exact hdet a' a hk
      rw [this, ih cache hc]
    | none =>
      simp only []
      rw [ih _ (by
        intro p hp
        simp only [List.mem_cons] at hp
        rcases hp with rfl | hp
        · exact ⟨a, rfl, rfl⟩
        · exact hc p hp)]

/-- the subquery memo: outer rows are value tuples, the subquery result depends on the columns `reads`, the key is the
    value tuple of `keyCols`.  Transparent whenever the key contains every column the subquery reads. -/
theorem subquery_memo_transparent {β} (reads keyCols : List Nat) (g : List Val → β) (hsub : ∀ i ∈ reads, i ∈ keyCols)
    (rows : List Row) :
    memoRun (fun r => keyCols.map (Sem.getCol r)) (fun r => g (reads.map (Sem.getCol r))) rows [] = rows.map fun r => g (reads.map (Sem.getCol r)) := by
  apply memoRun_transparent
  · intro a b hk
    congr 1
    apply List.map_congr_left
    intro i hi
    have hm := hsub i hi
    have : ∀ (l : List Nat), i ∈ l → l.map (Sem.getCol a) = l.map (Sem.getCol b) → Sem.getCol a i = Sem.getCol b i := by
      intro l
      induction l with
      | nil => intro h; cases h
      | cons x xs ih =>
        intro h e
        simp only [List.map_cons, List.cons.injEq] at e
        simp only [List.mem_cons] at h
        rcases h with rfl | h
        · exact e.1
        · exact ih h e.2
    exact this keyCols hm hk
  · intro p hp; cases hp

end SqlglotModel.Exec
