/-
  C04 helper lemmas, token level: what one iteration of the `_scan` loop does on a generated literal / identifier / comment.
-/
import SqlglotModel.Model.StrLex
import SqlglotModel.Proofs.StrFast
import SqlglotModel.Proofs.Comment

namespace SqlglotModel.Str

theorem dropBlanks_cons (c : Char) (r : List Char) (h : isBlank c = false) : dropBlanks (c :: r) = c :: r := by
  simp [dropBlanks, h]

theorem matchLen_ge (keys : List (List Char)) (inp k : List Char) (hk : k ∈ keys) (hp : k.isPrefixOf inp = true) :
    k.length ≤ matchLen keys inp := by
  induction keys with
  | nil => simp at hk
  | cons k0 ks ih =>
    simp only [matchLen]
    rcases List.mem_cons.mp hk with rfl | hk'
    · simp [hp]; omega
    · have := ih hk'
      split <;> omega

theorem matchLen_le (keys : List (List Char)) (inp : List Char) (n : Nat)
    (h : ∀ k ∈ keys, k.isPrefixOf inp = true → k.length ≤ n) : matchLen keys inp ≤ n := by
  induction keys with
  | nil => simp [matchLen]
  | cons k0 ks ih =>
    simp only [matchLen]
    have h1 := ih (fun k hk => h k (List.mem_cons_of_mem _ hk))
    split
    · rename_i hp
      have := h k0 (List.mem_cons_self) hp
      omega
    · exact h1

/-- upper-casing cannot turn a character into `q` unless it is `q` (for `q` outside A–Z) -/
theorem upperAscii_eq (q x : Char) (hq : upperVals.contains q = false) (h : upperAscii x = q) : x = q := by
  unfold upperAscii at h
  cases hl : lookup upperTable x with
  | none => simpa [hl] using h
  | some u =>
    simp [hl] at h
    subst h
    have := lookup_all upperTable (fun p => upperVals.contains p.2) (by decide) x u hl
    simp at this
    simp [this] at hq

/-- a key longer than `S` that is a prefix of `S ++ R` is `S ++ e` with `e` a non-empty prefix of `R` -/
theorem long_prefix_split (k S R : List Char) (hp : k <+: S ++ R) (hl : S.length < k.length) :
    ∃ e, k = S ++ e ∧ e <+: R ∧ e ≠ [] := by
  have hS : S <+: S ++ R := List.prefix_append S R
  have hSk : S <+: k := List.prefix_of_prefix_length_le hS hp (by omega)
  obtain ⟨e, rfl⟩ := hSk
  refine ⟨e, rfl, ?_, ?_⟩
  · exact (List.prefix_append_right_inj S).mp hp
  · intro he; subst he; simp at hl

/-- the trie walk on `start ++ r` stops at `start` -/
theorem matchLen_start (keys : List (List Char)) (start r : List Char) (q : Char)
    (hin : keys.contains (start.map upperAscii) = true)
    (hext : ∀ k ∈ keys, start.length < k.length → (start.map upperAscii).isPrefixOf k = true →
      (k.drop start.length).take 2 = [q, q])
    (hq : upperVals.contains q = false)
    (hr : (∃ k ∈ keys, start.length < k.length ∧ (start.map upperAscii).isPrefixOf k = true) → startsQQ q r = false) :
    matchLen keys ((start ++ r).map upperAscii) = start.length := by
  have hS : (start.map upperAscii).length = start.length := by simp
  apply Nat.le_antisymm
  · apply matchLen_le
    intro k hk hp
    by_cases hlen : start.length < k.length
    · exfalso
      rw [List.map_append] at hp
      have hp' : k <+: start.map upperAscii ++ r.map upperAscii := List.isPrefixOf_iff_prefix.mp hp
      obtain ⟨e, rfl, he, hne⟩ := long_prefix_split k _ _ hp' (by omega)
      have hpre : (start.map upperAscii).isPrefixOf (start.map upperAscii ++ e) = true :=
        List.isPrefixOf_iff_prefix.mpr (List.prefix_append _ _)
      have h2 := hext _ hk hlen hpre
      rw [← hS, List.drop_left] at h2
      have hqq := hr ⟨_, hk, hlen, hpre⟩
      -- `e` starts with q q and is a prefix of the upper-cased `r`
      obtain ⟨t, ht⟩ := he
      match e, h2 with
      | x :: y :: e', h2 =>
        simp at h2
        obtain ⟨rfl, rfl⟩ := h2
        match r, ht with
        | a :: b :: r', ht =>
          simp at ht
          have ha := upperAscii_eq _ a hq ht.1.symm
          have hb := upperAscii_eq _ b hq ht.2.1.symm
          simp [startsQQ, ha, hb] at hqq
        | [a], ht => simp at ht
        | [], ht => simp at ht
      | [x], h2 => simp at h2
      | [], h2 => simp at h2
    · omega
  · have hmem : start.map upperAscii ∈ keys := by simpa using hin
    have hp : (start.map upperAscii).isPrefixOf ((start ++ r).map upperAscii) = true := by
      rw [List.map_append]
      exact List.isPrefixOf_iff_prefix.mpr (List.prefix_append _ _)
    have := matchLen_ge keys _ _ hmem hp
    omega

/-- the generated stream never begins with the delimiter twice when the delimiter is escaped by another character -/
theorem stream_noQQ (c : Cfg) (h : WF c) (hne : c.esc0 ≠ c.q) (v rest : List Char) (hr : rest.head? ≠ some c.q) :
    startsQQ c.q (escapeStr c v ++ c.q :: rest) = false := by
  cases v with
  | nil =>
    cases rest with
    | nil => simp [escapeStr_nil, startsQQ]
    | cons p r =>
      have hp : p ≠ c.q := by simpa using hr
      simp [escapeStr_nil, startsQQ, hp]
  | cons ch v =>
    rw [escapeStr_cons]
    cases hs : seqOf c ch with
    | some ab =>
      obtain ⟨a, b⟩ := ab
      rw [img_seq c h ch a b hs]
      have ha := (h.seq_ok ch a b hs).2.2.1
      simp [startsQQ, ha]
    | none =>
      by_cases hq : ch = c.q
      · subst hq
        rw [img_q c h]
        simp [startsQQ, hne]
      · rw [img_plain c h ch hs hq]
        obtain ⟨t, T, hT⟩ := tail_stream_ne c v rest
        simp only [List.cons_append, List.nil_append, hT]
        simp [startsQQ, hq]

structure StrDispatch (L : LexCfg) (start : List Char) (c : Cfg) (kind : TokKind) : Prop where
  ne : start ≠ []
  blank : ∀ c0, start.head? = some c0 → isBlank c0 = false ∧ isDigitChar c0 = false ∧ lookup L.identifiers c0 = none
  key : L.keys.contains (start.map upperAscii) = true
  info : lookup L.strStarts start = some { kind := kind, delim := [c.q], raw := false, cfg := c }
  sup : isUnsupportedKind kind = false
  ext : ∀ k ∈ L.keys, start.length < k.length → (start.map upperAscii).isPrefixOf k = true →
    (k.drop start.length).take 2 = [c.q, c.q] ∧ c.esc0 ≠ c.q
  qup : upperVals.contains c.q = false
  qsp : c.q ≠ ' '

theorem strDispatch_iff (L : LexCfg) (start : List Char) (c : Cfg) (kind : TokKind)
    (h : strDispatchOk L start c kind = true) : StrDispatch L start c kind := by
  cases start with
  | nil => simp [strDispatchOk] at h
  | cons c0 st =>
    simp only [strDispatchOk, Bool.and_eq_true] at h
    obtain ⟨⟨⟨⟨⟨⟨⟨⟨h1, h2⟩, h3⟩, h4⟩, h5⟩, h6⟩, h7⟩, h8⟩, h9⟩ := h
    refine ⟨by simp, ?_, h4, by simpa using h5, by simpa using h6, ?_, by simpa using h8, by simpa using h9⟩
    · intro x hx
      simp at hx
      subst hx
      refine ⟨by simpa using h1, by simpa using h2, ?_⟩
      cases hl : lookup L.identifiers c0 with
      | none => rfl
      | some v => simp [hl] at h3
    · intro k hk hlen hpre
      have := List.all_eq_true.mp h7 k hk
      simp only [Bool.or_eq_true, Bool.not_eq_true', Bool.and_eq_true, decide_eq_true_eq, Bool.and_eq_false_iff,
        decide_eq_false_iff_not] at this
      rcases this with h | h
      · rcases h with h | h
        · exact absurd hlen h
        · rw [hpre] at h; cases h
      · exact ⟨by simpa using h.1, by simpa using h.2⟩

/-- one iteration of `_scan` on `start ++ r` where `_extract_string` reads `r` as `(t, rest)` -/
theorem stepAt_literal (L : LexCfg) (isSpace : Char → Bool) (other : List Char → Step) (start : List Char) (c : Cfg)
    (kind : TokKind) (hd : StrDispatch L start c kind)
    (hsp : ∀ c0, start.head? = some c0 → isSpace c0 = false)
    (r t rest : List Char) (hr : r ≠ [])
    (hqq : c.esc0 ≠ c.q → startsQQ c.q r = false)
    (hex : extract c r = .ok t rest) :
    stepAt L isSpace other (start ++ r) = .tok ⟨kind, t⟩ rest := by
  have hn := matchLen_start L.keys start r c.q hd.key (fun k hk hl hp => (hd.ext k hk hl hp).1) hd.qup
    (fun ⟨k, hk, hl, hp⟩ => hqq (hd.ext k hk hl hp).2)
  cases start with
  | nil => exact absurd rfl hd.ne
  | cons c0 st =>
    obtain ⟨hb, hdg, hid⟩ := hd.blank c0 rfl
    have hs := hsp c0 rfl
    have hpos : (c0 :: st).length ≠ 0 := by simp
    simp only [List.cons_append] at hn ⊢
    simp only [stepAt, hs, hdg, hid, Bool.false_eq_true, if_false]
    rw [hn]
    simp only [hpos, if_false]
    have htake : (c0 :: (st ++ r)).take (c0 :: st).length = c0 :: st := by
      rw [← List.cons_append, List.take_left]
    have hdrop : (c0 :: (st ++ r)).drop (c0 :: st).length = r := by
      rw [← List.cons_append, List.drop_left]
    rw [htake, hdrop, hd.info]
    cases r with
    | nil => exact absurd rfl hr
    | cons x xs =>
      simp [scanString, hd.sup, hex]

/-- one iteration of `_scan` on a quoted identifier -/
theorem stepAt_identifier (L : LexCfg) (isSpace : Char → Bool) (other : List Char → Step) (i0 : Char) (c : Cfg)
    (hd : idDispatchOk L i0 c = true) (hsp : isSpace i0 = false)
    (r t rest : List Char) (hr : r ≠ []) (hex : extract c r = .ok t rest) :
    stepAt L isSpace other (i0 :: r) = .tok ⟨.ident, t⟩ rest := by
  simp only [idDispatchOk, Bool.and_eq_true] at hd
  obtain ⟨⟨⟨h1, h2⟩, h3⟩, _⟩ := hd
  have h3' : lookup L.identifiers i0 = some c := by simpa using h3
  have h2' : isDigitChar i0 = false := by simpa using h2
  cases r with
  | nil => exact absurd rfl hr
  | cons x xs => simp [stepAt, hsp, h2', h3', hex]

/-- the head of a sanitised comment is a blank or a character for which `strip()` is empty -/
theorem sanitize_head (isSpace : Char → Bool) (c : List Char) (hc : c ≠ []) :
    ∃ x B, sanitizeComment isSpace c = x :: B ∧ (x = ' ' ∨ isSpace x = true) := by
  have hpf : ∃ x P, padFront isSpace c = x :: P ∧ (x = ' ' ∨ isSpace x = true) := by
    cases c with
    | nil => exact absurd rfl hc
    | cons y r =>
      simp only [padFront]
      by_cases hy : isSpace y = true
      · exact ⟨y, r, by simp [hy], Or.inr hy⟩
      · exact ⟨' ', y :: r, by simp [hy], Or.inl rfl⟩
  obtain ⟨x, P, hP, hx⟩ := hpf
  have hpb : (padBack isSpace (padFront isSpace c)).head? = some x := by
    rw [hP]
    simp only [padBack]
    cases hg : (x :: P).getLast? with
    | none => simp at hg
    | some w =>
      simp only
      split <;> simp
  have hh : (sanitizeComment isSpace c).head? = some x := by
    simp only [sanitizeComment]
    rw [head_replace2, head_replace2, hpb]
  cases hs : sanitizeComment isSpace c with
  | nil => rw [hs] at hh; simp at hh
  | cons y B =>
    rw [hs] at hh
    simp at hh
    subst hh
    exact ⟨y, B, rfl, hx⟩

/-- one iteration of `_scan` on a generated block comment: no token, the scanner continues right after `*/` -/
theorem stepAt_comment (L : LexCfg) (isSpace : Char → Bool) (other : List Char → Step)
    (hd : comDispatchOk L = true)
    (hs0 : isSpace '/' = false) (hs1 : isSpace '*' = false)
    (hext : ∀ x, (x = ' ' ∨ isSpace x = true) → (commentExts L).contains (upperAscii x) = false)
    (cm rest : List Char) (hc : cm ≠ []) :
    stepAt L isSpace other ('/' :: '*' :: sanitizeComment isSpace cm ++ '*' :: '/' :: rest) = .skip rest := by
  simp only [comDispatchOk, Bool.and_eq_true] at hd
  obtain ⟨⟨⟨h1, h2⟩, h3⟩, h4⟩ := hd
  have hid : lookup L.identifiers '/' = none := by
    cases hl : lookup L.identifiers '/' with
    | none => rfl
    | some v => simp [hl] at h1
  have hst : lookup L.strStarts ['/', '*'] = none := by
    cases hl : lookup L.strStarts ['/', '*'] with
    | none => rfl
    | some v => simp [hl] at h3
  have hcm : lookup L.comments ['/', '*'] = some ['*', '/'] := by simpa using h4
  obtain ⟨x, B, hx, hxs⟩ := sanitize_head isSpace cm hc
  have hscan := comment_scan_exact_aux isSpace hs0 hs1 L.nested cm rest hc
  rw [hx] at hscan ⊢
  have hn : matchLen L.keys (('/' :: '*' :: (x :: B) ++ '*' :: '/' :: rest).map upperAscii) = 2 := by
    apply Nat.le_antisymm
    · apply matchLen_le
      intro k hk hp
      by_cases hlen : 2 < k.length
      · exfalso
        have hp' := List.isPrefixOf_iff_prefix.mp hp
        simp only [List.cons_append, List.map_cons] at hp'
        have hu1 : upperAscii '/' = '/' := by decide
        have hu2 : upperAscii '*' = '*' := by decide
        rw [hu1, hu2] at hp'
        obtain ⟨t, ht⟩ := hp'
        match k, hlen, ht with
        | a :: b :: d :: k', _, ht =>
          simp at ht
          obtain ⟨rfl, rfl, rfl, _⟩ := ht
          have hmem : (commentExts L).contains (upperAscii x) = true := by
            simp only [commentExts, List.contains_iff_mem, List.mem_filterMap]
            exact ⟨_, hk, by simp [List.isPrefixOf]⟩
          rw [hext x hxs] at hmem
          cases hmem
      · omega
    · have hmem : ['/', '*'] ∈ L.keys := by simpa using h2
      have hp : ['/', '*'].isPrefixOf (('/' :: '*' :: (x :: B) ++ '*' :: '/' :: rest).map upperAscii) = true := by
        have hu1 : upperAscii '/' = '/' := by decide
        have hu2 : upperAscii '*' = '*' := by decide
        simp [List.isPrefixOf, hu1, hu2]
      have := matchLen_ge L.keys _ _ hmem hp
      simpa using this
  have hdg : isDigitChar '/' = false := by decide
  simp only [List.cons_append] at hn ⊢
  simp only [stepAt, hs0, hdg, hid, Bool.false_eq_true, if_false]
  rw [hn]
  simp only [List.cons_append] at hscan
  simp [hst, hcm, scanComment, hscan]

/-! ### the loop -/

theorem lexLoop_unfold (L : LexCfg) (sp : Char → Bool) (o : List Char → Step) (s : List Char) :
    lexLoop L sp o s =
      match stepAt L sp o (dropBlanks s) with
      | .done => some (some [])
      | .err => some none
      | .unsupported => none
      | .skip rest => if rest.length < (dropBlanks s).length then lexLoop L sp o rest else some none
      | .tok t rest =>
        if rest.length < (dropBlanks s).length then (lexLoop L sp o rest).map (·.map (t :: ·)) else some none := by
  rw [lexLoop]
  generalize stepAt L sp o (dropBlanks s) = st
  cases st <;> rfl

theorem lexLoop_blank (L : LexCfg) (sp : Char → Bool) (o : List Char → Step) (s : List Char) :
    lexLoop L sp o (' ' :: s) = lexLoop L sp o s := by
  rw [lexLoop_unfold L sp o (' ' :: s), lexLoop_unfold L sp o s]
  simp [dropBlanks, isBlank]

theorem lexLoop_blank_only (L : LexCfg) (sp : Char → Bool) (o : List Char → Step) :
    lexLoop L sp o [' '] = some (some []) := by
  rw [lexLoop_unfold]
  simp [dropBlanks, isBlank, stepAt]

theorem lexLoop_tok (L : LexCfg) (sp : Char → Bool) (o : List Char → Step) (s rest : List Char) (t : Tok)
    (hb : dropBlanks s = s) (hs : stepAt L sp o s = .tok t rest) (hl : rest.length < s.length) :
    lexLoop L sp o s = (lexLoop L sp o rest).map (·.map (t :: ·)) := by
  rw [lexLoop_unfold, hb, hs]
  simp [hl]

theorem lexLoop_skip (L : LexCfg) (sp : Char → Bool) (o : List Char → Step) (s rest : List Char)
    (hb : dropBlanks s = s) (hs : stepAt L sp o s = .skip rest) (hl : rest.length < s.length) :
    lexLoop L sp o s = lexLoop L sp o rest := by
  rw [lexLoop_unfold, hb, hs]
  simp [hl]

theorem option_map_map_nil (x : Option (Option (List Tok))) : x.map (·.map (([] : List Tok) ++ ·)) = x := by
  cases x with
  | none => rfl
  | some y => cases y <;> simp

theorem option_map_map_comp (x : Option (Option (List Tok))) (ts us : List Tok) :
    (x.map (·.map (us ++ ·))).map (·.map (ts ++ ·)) = x.map (·.map ((ts ++ us) ++ ·)) := by
  cases x with
  | none => rfl
  | some y => cases y <;> simp

theorem boundary_nil (L : LexCfg) (sp : Char → Bool) (o : List Char → Step) : Boundary L sp o [] [] := by
  intro r
  simp [option_map_map_nil]

theorem boundary_append (L : LexCfg) (sp : Char → Bool) (o : List Char → Step) (a b : List Char) (ts us : List Tok)
    (ha : Boundary L sp o a ts) (hb : Boundary L sp o b us) : Boundary L sp o (a ++ ' ' :: b) (ts ++ us) := by
  intro r
  have h1 := ha (b ++ ' ' :: r)
  have h2 := hb r
  rw [List.append_assoc, List.cons_append, h1, lexLoop_blank, h2, option_map_map_comp]

theorem boundary_of_tok (L : LexCfg) (sp : Char → Bool) (o : List Char → Step) (a : List Char) (t : Tok)
    (hne : a ≠ []) (hb : ∀ c0, a.head? = some c0 → isBlank c0 = false)
    (hs : ∀ r, stepAt L sp o (a ++ ' ' :: r) = .tok t (' ' :: r)) : Boundary L sp o a [t] := by
  intro r
  cases a with
  | nil => exact absurd rfl hne
  | cons c0 a' =>
    have hdb : dropBlanks ((c0 :: a') ++ ' ' :: r) = (c0 :: a') ++ ' ' :: r := by
      rw [List.cons_append]
      exact dropBlanks_cons c0 _ (hb c0 rfl)
    rw [lexLoop_tok L sp o _ (' ' :: r) t hdb (hs r) (by simp; omega)]
    rfl

theorem boundary_opaque (L : LexCfg) (sp : Char → Bool) (o : List Char → Step) (w : List Char) (t : Tok)
    (h : Opaque L sp o w t) : Boundary L sp o w [t] :=
  boundary_of_tok L sp o w t h.2.1 h.1 h.2.2

theorem boundary_literal (L : LexCfg) (sp : Char → Bool) (o : List Char → Step) (start : List Char) (c : Cfg)
    (kind : TokKind) (hd : StrDispatch L start c kind) (hw : WF c)
    (hsp : ∀ c0, start.head? = some c0 → sp c0 = false) (v : List Char)
    (hex : ∀ rest, rest.head? ≠ some c.q → extract c (escapeStr c v ++ c.q :: rest) = .ok v rest) :
    Boundary L sp o (start ++ escapeStr c v ++ [c.q]) [⟨kind, v⟩] := by
  apply boundary_of_tok
  · cases start with
    | nil => exact absurd rfl hd.ne
    | cons c0 st => simp
  · intro c0 h0
    cases start with
    | nil => exact absurd rfl hd.ne
    | cons x st =>
      simp at h0
      subst h0
      exact (hd.blank x rfl).1
  · intro r
    have hq : (' ' :: r).head? ≠ some c.q := by
      simp
      exact fun e => hd.qsp e.symm
    have := stepAt_literal L sp o start c kind hd hsp (escapeStr c v ++ c.q :: ' ' :: r) v (' ' :: r) (by simp)
      (fun hne => stream_noQQ c hw hne v (' ' :: r) hq) (hex _ hq)
    simpa [List.append_assoc] using this

theorem boundary_identifier (L : LexCfg) (sp : Char → Bool) (o : List Char → Step) (i0 : Char) (c : Cfg)
    (hd : idDispatchOk L i0 c = true) (hsp : sp i0 = false) (v : List Char)
    (hex : ∀ rest, rest.head? ≠ some c.q → extract c (identifierSql c v ++ c.q :: rest) = .ok v rest) :
    Boundary L sp o (i0 :: identifierSql c v ++ [c.q]) [⟨.ident, v⟩] := by
  have hd' := hd
  simp only [idDispatchOk, Bool.and_eq_true] at hd'
  obtain ⟨⟨⟨h1, _⟩, _⟩, h4⟩ := hd'
  have hqsp : c.q ≠ ' ' := by simpa using h4
  apply boundary_of_tok
  · simp
  · intro c0 h0
    simp at h0
    subst h0
    simpa using h1
  · intro r
    have hq : (' ' :: r).head? ≠ some c.q := by
      simp
      exact fun e => hqsp e.symm
    have := stepAt_identifier L sp o i0 c hd hsp (identifierSql c v ++ c.q :: ' ' :: r) v (' ' :: r) (by simp) (hex _ hq)
    simpa [List.append_assoc] using this

theorem boundary_comment (L : LexCfg) (sp : Char → Bool) (o : List Char → Step)
    (hd : comDispatchOk L = true) (hs0 : sp '/' = false) (hs1 : sp '*' = false)
    (hext : ∀ x, (x = ' ' ∨ sp x = true) → (commentExts L).contains (upperAscii x) = false)
    (cm : List Char) (hc : cm ≠ []) :
    Boundary L sp o ('/' :: '*' :: sanitizeComment sp cm ++ ['*', '/']) [] := by
  intro r
  have hs := stepAt_comment L sp o hd hs0 hs1 hext cm (' ' :: r) hc
  have hdb : dropBlanks ('/' :: '*' :: sanitizeComment sp cm ++ '*' :: '/' :: ' ' :: r)
      = '/' :: '*' :: sanitizeComment sp cm ++ '*' :: '/' :: ' ' :: r := by
    simp only [List.cons_append]
    exact dropBlanks_cons '/' _ (by decide)
  have : ('/' :: '*' :: sanitizeComment sp cm ++ ['*', '/']) ++ ' ' :: r
      = '/' :: '*' :: sanitizeComment sp cm ++ '*' :: '/' :: ' ' :: r := by simp
  rw [this, lexLoop_skip L sp o _ (' ' :: r) hdb hs (by simp; omega), option_map_map_nil]

theorem boundary_maybeComment (L : LexCfg) (sp : Char → Bool) (o : List Char → Step)
    (hd : comDispatchOk L = true) (hs0 : sp '/' = false) (hs1 : sp '*' = false)
    (hext : ∀ x, (x = ' ' ∨ sp x = true) → (commentExts L).contains (upperAscii x) = false)
    (cs : List (List Char)) : ∀ (a : List Char) (ts : List Tok), Boundary L sp o a ts →
      Boundary L sp o (maybeComment sp a cs) ts := by
  induction cs with
  | nil => intro a ts ha; simpa [maybeComment] using ha
  | cons cm cs ih =>
    intro a ts ha
    by_cases hc : cm = []
    · subst hc
      have : maybeComment sp a ([] :: cs) = maybeComment sp a cs := by simp [maybeComment]
      rw [this]
      exact ih a ts ha
    · have h1 := boundary_append L sp o a _ ts [] ha (boundary_comment L sp o hd hs0 hs1 hext cm hc)
      have h2 := ih _ _ h1
      have : maybeComment sp a (cm :: cs)
          = maybeComment sp (a ++ ' ' :: ('/' :: '*' :: sanitizeComment sp cm ++ ['*', '/'])) cs := by
        simp [maybeComment, hc]
      rw [this]
      simpa using h2

/-! ### raw and byte strings: the generator functions coincide with `escape_str` under the stated conditions -/

theorem byteSql_eq (c : Cfg) : ∀ v : List Char, '\\' ∉ v → byteSql c v = escapeStr c v := by
  intro v
  induction v with
  | nil => intro _; simp [byteSql, escapeStr]
  | cons x v ih =>
    intro h
    have hx : x ≠ '\\' := by
      intro e; apply h; simp [e]
    have hv : '\\' ∉ v := by
      intro e; apply h; simp [e]
    have := ih hv
    simp only [byteSql, escapeStr, List.flatMap_cons] at this ⊢
    rw [this]
    simp [imgNoBs, hx]

theorem rawSql_eq (c : Cfg) (h : wfRaw c = true) (v : List Char) : rawSql c v = escapeStr c v := by
  simp only [wfRaw, Bool.and_eq_true] at h
  obtain ⟨⟨h1, h2⟩, h3⟩ := h
  have hq : c.gq ≠ '\\' := by simpa using h2
  have hesc : escQ c '\\' = ['\\'] := by simp [escQ, Ne.symm hq]
  cases hb : c.genBsEsc with
  | true =>
    have hs : seqOf c '\\' = some ('\\', '\\') := by simpa [hb] using h3
    simp only [rawSql, hb, if_true, escapeStr]
    induction v with
    | nil => simp
    | cons x v ih =>
      simp only [List.flatMap_cons, List.flatMap_append, ih]
      by_cases hx : x = '\\'
      · subst hx
        simp [imgNoBs, img, hs, hesc]
      · simp [hx, imgNoBs]
  | false =>
    have hs : seqOf c '\\' = none := by simpa [hb] using h3
    simp only [rawSql, hb, escapeStr, Bool.false_eq_true, if_false]
    induction v with
    | nil => simp
    | cons x v ih =>
      simp only [List.flatMap_cons, ih]
      by_cases hx : x = '\\'
      · subst hx
        simp [imgNoBs, img, hs]
      · simp [hx, imgNoBs]

/-! ### the general loop (`scanG`) specialises to the one-character, non-raw loop (`scan`) the theorems are about -/

theorem escCondG_single (c : Cfg) (rawEsc : Bool) (cur p : Char) :
    escCondG c [c.q] false rawEsc cur p = escCond c cur p := by
  simp [escCondG, escCond, escapedDelimG]

theorem escOutG_single (c : Cfg) (cur p : Char) : escOutG c [c.q] false cur p = escOut c cur p := by
  simp [escOutG, escOut, escapedDelimG]

theorem scanG_eq_scan_aux (c : Cfg) (rawEsc : Bool) : ∀ (n : Nat) (rest : List Char), rest.length ≤ n →
    ∀ (cur : Char) (acc : List Char), scanG c [c.q] false rawEsc cur rest acc = scan c cur rest acc := by
  intro n
  induction n with
  | zero =>
    intro rest h cur acc
    have : rest = [] := by cases rest <;> simp_all
    subst this
    simp [scanG, scan]
  | succ n ih =>
    intro rest h cur acc
    cases rest with
    | nil => simp [scanG, scan]
    | cons p rest =>
      have hl : rest.length ≤ n := by simpa using h
      cases hu : unescLookup c cur p with
      | some u =>
        cases rest with
        | nil => simp [scanG, scan, hu]
        | cons x xs =>
          simp only [scanG, scan, hu, Bool.false_eq_true, if_false]
          exact ih xs (by simp at hl; omega) x _
      | none =>
        cases hc : escCond c cur p with
        | true =>
          cases rest with
          | nil => simp [scanG, scan, hu, hc, escCondG_single]
          | cons x xs =>
            simp only [scanG, scan, hu, hc, escCondG_single, escOutG_single, Bool.false_eq_true, if_false, if_true]
            exact ih xs (by simp at hl; omega) x _
        | false =>
          by_cases hq : cur = c.q
          · subst hq
            cases rest <;> simp [scanG, scan, hu, hc, escCondG_single, List.isPrefixOf]
          · have hp : ([c.q].isPrefixOf (cur :: p :: rest)) = false := by
              simp [List.isPrefixOf]
              exact fun e => hq e.symm
            rw [scan_plain c cur p rest acc hu hc hq]
            cases rest with
            | nil =>
              simp only [scanG, hu, hc, escCondG_single, hp, Bool.false_eq_true, if_false]
              exact ih [] (by simp) p _
            | cons x xs =>
              simp only [scanG, hu, hc, escCondG_single, hp, Bool.false_eq_true, if_false]
              exact ih (x :: xs) hl p _

theorem extractG_single (c : Cfg) (rawEsc : Bool) (s : List Char) : extractG c [c.q] false rawEsc s = extract c s := by
  unfold extractG extract
  simp only [List.length_singleton, if_true]
  cases fastPath c s with
  | some tr => rfl
  | none =>
    cases s with
    | nil => rfl
    | cons x xs => simpa [scanL] using scanG_eq_scan_aux c rawEsc xs.length xs (Nat.le_refl _) x []

/-! ### reading a raw string -/

theorem splitAt_append (q : Char) (v rest : List Char) (h : ∀ x ∈ v, x ≠ q) :
    splitAt q (v ++ q :: rest) = some (v, rest) := by
  induction v with
  | nil => simp [splitAt]
  | cons x v ih =>
    have hx : x ≠ q := h x List.mem_cons_self
    simp [splitAt, hx, ih (fun y hy => h y (List.mem_cons_of_mem _ hy))]

theorem scanG_raw_plain (c : Cfg) (d : List Char) (rawEsc : Bool) (cur p : Char) (r acc : List Char)
    (h1 : escCondG c d true rawEsc cur p = false) (h2 : d.isPrefixOf (cur :: p :: r) = false) :
    scanG c d true rawEsc cur (p :: r) acc = scanG c d true rawEsc p r (acc ++ [cur]) := by
  cases r <;> simp [scanG, h1, h2]

theorem scanG_raw_close (c : Cfg) (rawEsc : Bool) (p : Char) (r acc : List Char)
    (h1 : escCondG c [c.q] true rawEsc c.q p = false) :
    scanG c [c.q] true rawEsc c.q (p :: r) acc = .ok acc (p :: r) := by
  cases r <;> simp [scanG, h1, List.isPrefixOf]

/-- what a raw-string scan needs at the closing delimiter -/
structure RawClose (c : Cfg) (rawEsc : Bool) (rest : List Char) : Prop where
  q_ne_bs : c.q ≠ '\\'
  head : rest.head? ≠ some c.q
  close : rawEsc = true → c.isQuote c.q = true ∨ c.isEsc c.q = false

theorem scanG_raw_aux (c : Cfg) (rawEsc : Bool) (rest : List Char) (hc : RawClose c rawEsc rest) :
    ∀ (v : List Char), (∀ x ∈ v, x ≠ c.q ∧ (rawEsc = true → c.isEsc x = false)) →
      ∀ (t : Char) (T acc : List Char), v ++ c.q :: rest = t :: T →
        scanG c [c.q] true rawEsc t T acc = .ok (acc ++ v) rest := by
  intro v
  induction v with
  | nil =>
    intro _ t T acc hT
    simp at hT
    obtain ⟨rfl, rfl⟩ := hT
    cases rest with
    | nil =>
      have : escCondEnd c c.q = false := by simp [escCondEnd, hc.q_ne_bs]
      simp [scanG, this]
    | cons p r =>
      have hp : p ≠ c.q := by simpa using hc.head
      have hcond : escCondG c [c.q] true rawEsc c.q p = false := by
        cases hr : rawEsc with
        | false => simp [escCondG]
        | true =>
          rcases hc.close hr with h | h
          · have : (c.q == p) = false := by simpa using (fun e => hp e.symm)
            simp [escCondG, h, this]
          · simp [escCondG, h]
      simpa using scanG_raw_close c rawEsc p r acc hcond
  | cons x v ih =>
    intro hv t T acc hT
    simp at hT
    obtain ⟨rfl, rfl⟩ := hT
    obtain ⟨hxq, hxe⟩ := hv x List.mem_cons_self
    have hv' : ∀ y ∈ v, y ≠ c.q ∧ (rawEsc = true → c.isEsc y = false) := fun y hy => hv y (List.mem_cons_of_mem _ hy)
    obtain ⟨t2, T2, hT2⟩ : ∃ t2 T2, v ++ c.q :: rest = t2 :: T2 := by
      cases hS : v ++ c.q :: rest with
      | nil => simp at hS
      | cons a b => exact ⟨a, b, rfl⟩
    have hcond : escCondG c [c.q] true rawEsc x t2 = false := by
      cases hr : rawEsc with
      | false => simp [escCondG]
      | true => simp [escCondG, hxe hr]
    have hpre : ([c.q].isPrefixOf (x :: t2 :: T2)) = false := by
      simp [List.isPrefixOf]
      exact fun e => hxq e.symm
    rw [hT2, scanG_raw_plain c [c.q] rawEsc x t2 T2 acc hcond hpre]
    have := ih hv' t2 T2 (acc ++ [x]) hT2
    simpa using this

theorem extractG_raw (c : Cfg) (rawEsc : Bool) (v rest : List Char) (hc : RawClose c rawEsc rest)
    (hv : ∀ x ∈ v, x ≠ c.q ∧ (rawEsc = true → c.isEsc x = false)) :
    extractG c [c.q] true rawEsc (v ++ c.q :: rest) = .ok v rest := by
  unfold extractG
  simp only [List.length_singleton, if_true]
  cases hf : fastPath c (v ++ c.q :: rest) with
  | some tr =>
    obtain ⟨t, r⟩ := tr
    unfold fastPath at hf
    rw [splitAt_append c.q v rest (fun x hx => (hv x hx).1)] at hf
    simp only at hf
    split at hf
    · simp at hf
      simp [hf.1, hf.2]
    · simp at hf
  | none =>
    obtain ⟨t2, T2, hT2⟩ : ∃ t2 T2, v ++ c.q :: rest = t2 :: T2 := by
      cases hS : v ++ c.q :: rest with
      | nil => simp at hS
      | cons a b => exact ⟨a, b, rfl⟩
    rw [hT2]
    simpa using scanG_raw_aux c rawEsc rest hc v hv t2 T2 [] hT2

end SqlglotModel.Str
