/-
  C19 — helper lemmas about Model/Threads.lean: the step relation in relational form, the invariants kept by every
  step under a re-entrant lock, and what follows from them. Core Lean only.
-/
import SqlglotModel.Model.Threads

namespace SqlglotModel.Threads

/-! ### the step function in relational form (one constructor per branch) -/

inductive Step (cfg : Cfg) (s : State) (t : Tid) : Label → State → Prop
  | fill (m : Mod) (hp : (s.threads t).pending = some m) :
      Step cfg s t (.cset m)
        (setT { s with cache := fun x => if x = m then some (cfg.build m) else s.cache x } t
          { (s.threads t) with pending := none, todo := (s.threads t).todo.tail,
                               results := (s.threads t).results ++ [.disp m (cfg.build m)] })
  | startAccess (m : Mod) (rest : List Op) (hp : (s.threads t).pending = none) (hs : (s.threads t).stack = [])
      (ht : (s.threads t).todo = .access m :: rest) :
      Step cfg s t (.call m) (setT s t { (s.threads t) with stack := [.want m] })
  | genHit (m : Mod) (rest : List Op) (v : Val) (hp : (s.threads t).pending = none)
      (hs : (s.threads t).stack = []) (ht : (s.threads t).todo = .gen m :: rest) (hc : s.cache m = some v) :
      Step cfg s t (.chit m)
        (setT s t { (s.threads t) with todo := rest, results := (s.threads t).results ++ [.disp m v] })
  | genMiss (m : Mod) (rest : List Op) (hp : (s.threads t).pending = none)
      (hs : (s.threads t).stack = []) (ht : (s.threads t).todo = .gen m :: rest) (hc : s.cache m = none) :
      Step cfg s t (.cmiss m) (setT s t { (s.threads t) with pending := some m })
  | acquire (m : Mod) (fs : List Frame) (lk : Option (Tid × Nat)) (hp : (s.threads t).pending = none)
      (hs : (s.threads t).stack = .want m :: fs) (ha : acquire cfg.kind s.lock t = some lk) :
      Step cfg s t .acq (setT { s with lock := lk } t { (s.threads t) with stack := .test m true :: fs })
  | testHit (m : Mod) (l : Bool) (fs : List Frame) (hp : (s.threads t).pending = none)
      (hs : (s.threads t).stack = .test m l :: fs) (h : s.started m = true) :
      Step cfg s t (impLabel m l) (setT s t { (s.threads t) with stack := .leave m l :: fs })
  | testMiss (m : Mod) (l : Bool) (fs : List Frame) (hp : (s.threads t).pending = none)
      (hs : (s.threads t).stack = .test m l :: fs) (h : s.started m = false) :
      Step cfg s t (impLabel m l) (setT s t { (s.threads t) with stack := .load m l :: fs })
  | load (m : Mod) (l : Bool) (fs : List Frame) (hp : (s.threads t).pending = none)
      (hs : (s.threads t).stack = .load m l :: fs) :
      Step cfg s t (.exec m)
        (setT { s with started := fun x => if x = m then true else s.started x,
                       loads := fun x => if x = m then s.loads m + 1 else s.loads x } t
              { (s.threads t) with stack := .body m l (cfg.body m) :: fs })
  | regBody (m : Mod) (l : Bool) (fs : List Frame) (hp : (s.threads t).pending = none)
      (hs : (s.threads t).stack = .body m l [] :: fs) :
      Step cfg s t (.reg m)
        (setT { s with registered := fun x => if x = m then true else s.registered x } t
              { (s.threads t) with stack := .leave m l :: fs })
  | nestLazy (m : Mod) (l : Bool) (d : Mod) (rest : List Item) (fs : List Frame)
      (hp : (s.threads t).pending = none) (hs : (s.threads t).stack = .body m l (.lazy d :: rest) :: fs) :
      Step cfg s t (.call d) (setT s t { (s.threads t) with stack := .want d :: .body m l rest :: fs })
  | nestDirect (m : Mod) (l : Bool) (d : Mod) (rest : List Item) (fs : List Frame)
      (hp : (s.threads t).pending = none) (hs : (s.threads t).stack = .body m l (.direct d :: rest) :: fs) :
      Step cfg s t .tau (setT s t { (s.threads t) with stack := .test d false :: .body m l rest :: fs })
  | leaveLock (m : Mod) (fs : List Frame) (lk : Option (Tid × Nat)) (hp : (s.threads t).pending = none)
      (hs : (s.threads t).stack = .leave m true :: fs) (hr : release cfg.kind s.lock t = some lk) :
      Step cfg s t .rel (setT { s with lock := lk } t (popFrame s (s.threads t) m fs))
  | leaveFree (m : Mod) (fs : List Frame) (hp : (s.threads t).pending = none)
      (hs : (s.threads t).stack = .leave m false :: fs) :
      Step cfg s t .tau (setT s t (popFrame s (s.threads t) m fs))

theorem step_sound {cfg : Cfg} {s : State} {t : Tid} {lbl : Label} {s' : State}
    (h : step cfg s t = some (lbl, s')) : Step cfg s t lbl s' := by
  unfold step at h
  split at h
  · rename_i m hp
    simp only [stepFill, Option.some.injEq, Prod.mk.injEq] at h
    obtain ⟨rfl, rfl⟩ := h
    exact .fill m hp
  · rename_i hp
    split at h
    · rename_i hs
      unfold stepStart at h
      split at h
      · simp at h
      · rename_i m rest ht
        simp only [Option.some.injEq, Prod.mk.injEq] at h
        obtain ⟨rfl, rfl⟩ := h
        exact .startAccess m rest hp hs ht
      · rename_i m rest ht
        split at h
        · rename_i v hc
          simp only [Option.some.injEq, Prod.mk.injEq] at h
          obtain ⟨rfl, rfl⟩ := h
          exact .genHit m rest v hp hs ht hc
        · rename_i hc
          simp only [Option.some.injEq, Prod.mk.injEq] at h
          obtain ⟨rfl, rfl⟩ := h
          exact .genMiss m rest hp hs ht hc
    · rename_i f fs hs
      cases f with
      | want m =>
        simp only [stepFrame] at h
        split at h
        · simp at h
        · rename_i lk ha
          simp only [Option.some.injEq, Prod.mk.injEq] at h
          obtain ⟨rfl, rfl⟩ := h
          exact .acquire m fs lk hp hs ha
      | test m l =>
        simp only [stepFrame] at h
        split at h
        · rename_i hst
          simp only [Option.some.injEq, Prod.mk.injEq] at h
          obtain ⟨rfl, rfl⟩ := h
          exact .testHit m l fs hp hs hst
        · rename_i hst
          simp only [Option.some.injEq, Prod.mk.injEq] at h
          obtain ⟨rfl, rfl⟩ := h
          exact .testMiss m l fs hp hs (by simpa using hst)
      | load m l =>
        simp only [stepFrame, Option.some.injEq, Prod.mk.injEq] at h
        obtain ⟨rfl, rfl⟩ := h
        exact .load m l fs hp hs
      | body m l rest =>
        simp only [stepFrame, Option.some.injEq] at h
        unfold stepBody at h
        split at h
        · simp only [Prod.mk.injEq] at h
          obtain ⟨rfl, rfl⟩ := h
          exact .regBody m l fs hp hs
        · simp only [Prod.mk.injEq] at h
          obtain ⟨rfl, rfl⟩ := h
          exact .nestLazy m l _ _ fs hp hs
        · simp only [Prod.mk.injEq] at h
          obtain ⟨rfl, rfl⟩ := h
          exact .nestDirect m l _ _ fs hp hs
      | leave m l =>
        simp only [stepFrame] at h
        unfold stepLeave at h
        split at h
        · rename_i hl
          subst hl
          split at h
          · simp at h
          · rename_i lk hr
            simp only [Option.some.injEq, Prod.mk.injEq] at h
            obtain ⟨rfl, rfl⟩ := h
            exact .leaveLock m fs lk hp hs hr
        · rename_i hl
          have : l = false := by simpa using hl
          subst this
          simp only [Option.some.injEq, Prod.mk.injEq] at h
          obtain ⟨rfl, rfl⟩ := h
          exact .leaveFree m fs hp hs


/-! ### frame lemmas -/

@[simp] theorem setT_same (s : State) (t : Tid) (th : Thread) : (setT s t th).threads t = th := by simp [setT]
theorem setT_other (s : State) (t : Tid) (th : Thread) (u : Tid) (h : u ≠ t) :
    (setT s t th).threads u = s.threads u := by simp [setT, h]
@[simp] theorem setT_lock (s : State) (t : Tid) (th : Thread) : (setT s t th).lock = s.lock := rfl
@[simp] theorem setT_started (s : State) (t : Tid) (th : Thread) : (setT s t th).started = s.started := rfl
@[simp] theorem setT_registered (s : State) (t : Tid) (th : Thread) : (setT s t th).registered = s.registered := rfl
@[simp] theorem setT_loads (s : State) (t : Tid) (th : Thread) : (setT s t th).loads = s.loads := rfl
@[simp] theorem setT_cache (s : State) (t : Tid) (th : Thread) : (setT s t th).cache = s.cache := rfl

@[simp] theorem popFrame_stack (s : State) (th : Thread) (m : Mod) (fs : List Frame) :
    (popFrame s th m fs).stack = fs := by cases fs <;> rfl
@[simp] theorem popFrame_pending (s : State) (th : Thread) (m : Mod) (fs : List Frame) :
    (popFrame s th m fs).pending = th.pending := by cases fs <;> rfl

/-- a step of `t` leaves every other thread alone -/
theorem Step.others {cfg : Cfg} {s s' : State} {t : Tid} {l : Label} (h : Step cfg s t l s') (u : Tid) (hu : u ≠ t) :
    s'.threads u = s.threads u := by
  cases h <;> exact setT_other _ _ _ _ hu

/-! ### the lock discipline -/

def depthOf (lock : Option (Tid × Nat)) (t : Tid) : Nat :=
  match lock with
  | some (o, d) => if o = t then d else 0
  | none => 0

/-- shape of a thread's stack: everything below the top is a module body, and the outermost frame either still
    waits for the lock or holds it -/
def wfStack : List Frame → Bool
  | [] => true
  | [f] => f.isWant || f.holding
  | _ :: g :: rest => g.isBody && wfStack (g :: rest)

theorem wf_top {f f' : Frame} {fs : List Frame} (h : wfStack (f :: fs) = true)
    (h' : fs = [] → (f'.isWant || f'.holding) = true) : wfStack (f' :: fs) = true := by
  cases fs with
  | nil => simpa [wfStack] using h' rfl
  | cons g rest => simpa [wfStack] using h

theorem wf_pop {f : Frame} {fs : List Frame} (h : wfStack (f :: fs) = true) : wfStack fs = true := by
  cases fs with
  | nil => rfl
  | cons g rest => simp [wfStack] at h; exact h.2

theorem wf_single_holding {b : Frame} (h : wfStack [b] = true) (hb : b.isWant = false) : b.holding = true := by
  simpa [wfStack, hb] using h

theorem wf_push {b b' n : Frame} {fs : List Frame} (h : wfStack (b :: fs) = true) (hb : b.isWant = false)
    (hb' : b'.isBody = true) (hh : b'.holding = b.holding) : wfStack (n :: b' :: fs) = true := by
  have h1 : wfStack (b' :: fs) = true := by
    apply wf_top h
    intro hfs
    subst hfs
    rw [hh, wf_single_holding h hb]
    simp
  simp [wfStack, hb', h1]

theorem held_pos_of_critical : ∀ (st : List Frame), wfStack st = true → (st.any fun f => !f.isWant) = true →
    0 < st.countP Frame.holding
  | [], _, h => by simp at h
  | [f], hw, h => by
    simp [wfStack] at hw h
    simp [List.countP_cons, h] at hw ⊢
    simp [hw]
  | f :: g :: rest, hw, _ => by
    simp only [wfStack, Bool.and_eq_true] at hw
    have hg : ((g :: rest).any fun f => !f.isWant) = true := by
      cases g <;> simp_all [Frame.isBody, Frame.isWant]
    have := held_pos_of_critical (g :: rest) hw.2 hg
    rw [List.countP_cons]
    omega

structure LockInv (s : State) : Prop where
  depth : ∀ t, (s.threads t).held = depthOf s.lock t
  wf : ∀ t, wfStack (s.threads t).stack = true
  pos : ∀ o d, s.lock = some (o, d) → 0 < d

theorem LockInv.owner_of_critical {s : State} (h : LockInv s) {t : Tid} (hc : (s.threads t).critical = true) :
    ∃ d, 0 < d ∧ s.lock = some (t, d) := by
  have hp := held_pos_of_critical _ (h.wf t) hc
  have hd := h.depth t
  unfold Thread.held at hd
  rw [hd] at hp
  unfold depthOf at hp
  split at hp
  · rename_i o d hl
    split at hp
    · rename_i ho; subst ho; exact ⟨d, hp, hl⟩
    · omega
  · omega

theorem LockInv.mutex {s : State} (h : LockInv s) {t u : Tid} (ht : (s.threads t).critical = true)
    (hu : (s.threads u).critical = true) : t = u := by
  obtain ⟨d, _, h1⟩ := h.owner_of_critical ht
  obtain ⟨e, _, h2⟩ := h.owner_of_critical hu
  rw [h1] at h2
  simp at h2
  exact h2.1


theorem depthOf_other {o u : Tid} {d : Nat} (h : u ≠ o) : depthOf (some (o, d)) u = 0 := by
  have : ¬ o = u := fun e => h e.symm
  simp [depthOf, this]

theorem acquire_rlock_pos {lock lk : Option (Tid × Nat)} {t : Tid} (h : acquire .rlock lock t = some lk) :
    ∀ o d, lk = some (o, d) → 0 < d := by
  intro o' d' hl
  cases lock with
  | none => simp [acquire] at h; subst h; simp at hl; omega
  | some p =>
    obtain ⟨o, d⟩ := p
    simp only [acquire] at h
    split at h
    · simp at h; subst h; simp at hl; omega
    · simp at h

theorem release_rlock_pos {lock lk : Option (Tid × Nat)} {t : Tid} (h : release .rlock lock t = some lk) :
    ∀ o d, lk = some (o, d) → 0 < d := by
  intro o' d' hl
  cases lock with
  | none => simp [release] at h
  | some p =>
    obtain ⟨o, d⟩ := p
    simp only [release] at h
    split at h
    · split at h
      · simp at h; subst h; simp at hl
      · simp at h; subst h; simp at hl; omega
    · simp at h

theorem acquire_rlock {lock lk : Option (Tid × Nat)} {t : Tid} (h : acquire .rlock lock t = some lk) :
    depthOf lk t = depthOf lock t + 1 ∧ ∀ u, u ≠ t → depthOf lk u = depthOf lock u := by
  cases lock with
  | none =>
    simp [acquire] at h; subst h
    exact ⟨by simp [depthOf], fun u hu => by rw [depthOf_other hu]; rfl⟩
  | some p =>
    obtain ⟨o, d⟩ := p
    simp only [acquire] at h
    split at h
    · rename_i ho; subst ho
      simp at h; subst h
      exact ⟨by simp [depthOf], fun u hu => by rw [depthOf_other hu, depthOf_other hu]⟩
    · simp at h

theorem release_rlock {lock lk : Option (Tid × Nat)} {t : Tid} (h : release .rlock lock t = some lk) :
    depthOf lk t = depthOf lock t - 1 ∧ ∀ u, u ≠ t → depthOf lk u = depthOf lock u := by
  cases lock with
  | none => simp [release] at h
  | some p =>
    obtain ⟨o, d⟩ := p
    simp only [release] at h
    split at h
    · rename_i ho; subst ho
      split at h
      · simp at h; subst h
        exact ⟨by simp [depthOf]; omega, fun u hu => by rw [depthOf_other hu]; rfl⟩
      · simp at h; subst h
        exact ⟨by simp [depthOf], fun u hu => by rw [depthOf_other hu, depthOf_other hu]⟩
    · simp at h

/-- packaging: the new state differs from the old one only in thread `t` and the lock -/
theorem LockInv.of_update {s s' : State} {t : Tid} (h : LockInv s)
    (hoth : ∀ u, u ≠ t → s'.threads u = s.threads u)
    (hdo : ∀ u, u ≠ t → depthOf s'.lock u = depthOf s.lock u)
    (hdt : (s'.threads t).held = depthOf s'.lock t)
    (hwf : wfStack (s'.threads t).stack = true)
    (hpos : ∀ o d, s'.lock = some (o, d) → 0 < d := by exact h.pos) : LockInv s' := by
  refine ⟨?_, ?_, hpos⟩
  · intro u
    by_cases hu : u = t
    · subst hu; exact hdt
    · rw [hoth u hu, hdo u hu]; exact h.depth u
  · intro u
    by_cases hu : u = t
    · subst hu; exact hwf
    · rw [hoth u hu]; exact h.wf u

theorem LockInv.step {cfg : Cfg} (hk : cfg.kind = .rlock) {s s' : State} {t : Tid} {l : Label}
    (h : LockInv s) (hs : Step cfg s t l s') : LockInv s' := by
  have hd := h.depth t
  have hw := h.wf t
  unfold Thread.held at hd
  cases hs with
  | fill m hp =>
    exact h.of_update (fun u hu => setT_other _ _ _ _ hu) (fun _ _ => rfl) (by simpa [Thread.held] using hd) (by simpa using hw)
  | startAccess m rest hp hst ht =>
    refine h.of_update (fun u hu => setT_other _ _ _ _ hu) (fun _ _ => rfl) ?_ (by simp [wfStack, Frame.isWant])
    rw [hst] at hd
    simpa [Thread.held, Frame.holding] using hd
  | genHit m rest v hp hst ht hc =>
    exact h.of_update (fun u hu => setT_other _ _ _ _ hu) (fun _ _ => rfl) (by simpa [Thread.held] using hd) (by simpa using hw)
  | genMiss m rest hp hst ht hc =>
    exact h.of_update (fun u hu => setT_other _ _ _ _ hu) (fun _ _ => rfl) (by simpa [Thread.held] using hd) (by simpa using hw)
  | acquire m fs lk hp hst ha =>
    rw [hk] at ha
    obtain ⟨h1, h2⟩ := acquire_rlock ha
    rw [hst] at hd hw
    refine h.of_update (fun u hu => setT_other _ _ _ _ hu) (fun u hu => h2 u hu) ?_ ?_ (acquire_rlock_pos ha)
    · simp [Thread.held, Frame.holding, List.countP_cons] at hd ⊢
      rw [h1, hd]
    · simp only [setT_same]
      exact wf_top hw (fun _ => by simp [Frame.holding])
  | testHit m l fs hp hst hstart =>
    rw [hst] at hd hw
    refine h.of_update (fun u hu => setT_other _ _ _ _ hu) (fun _ _ => rfl) ?_ ?_
    · cases l <;> simpa [Thread.held, Frame.holding, List.countP_cons] using hd
    · simp only [setT_same]
      exact wf_top hw (fun e => by subst e; simpa [wfStack, Frame.isWant, Frame.holding] using hw)
  | testMiss m l fs hp hst hstart =>
    rw [hst] at hd hw
    refine h.of_update (fun u hu => setT_other _ _ _ _ hu) (fun _ _ => rfl) ?_ ?_
    · cases l <;> simpa [Thread.held, Frame.holding, List.countP_cons] using hd
    · simp only [setT_same]
      exact wf_top hw (fun e => by subst e; simpa [wfStack, Frame.isWant, Frame.holding] using hw)
  | load m l fs hp hst =>
    rw [hst] at hd hw
    refine h.of_update (fun u hu => setT_other _ _ _ _ hu) (fun _ _ => rfl) ?_ ?_
    · cases l <;> simpa [Thread.held, Frame.holding, List.countP_cons] using hd
    · simp only [setT_same]
      exact wf_top hw (fun e => by subst e; simpa [wfStack, Frame.isWant, Frame.holding] using hw)
  | regBody m l fs hp hst =>
    rw [hst] at hd hw
    refine h.of_update (fun u hu => setT_other _ _ _ _ hu) (fun _ _ => rfl) ?_ ?_
    · cases l <;> simpa [Thread.held, Frame.holding, List.countP_cons] using hd
    · simp only [setT_same]
      exact wf_top hw (fun e => by subst e; simpa [wfStack, Frame.isWant, Frame.holding] using hw)
  | nestLazy m l d rest fs hp hst =>
    rw [hst] at hd hw
    refine h.of_update (fun u hu => setT_other _ _ _ _ hu) (fun _ _ => rfl) ?_ ?_
    · cases l <;> simpa [Thread.held, Frame.holding, List.countP_cons] using hd
    · simp only [setT_same]
      exact wf_push hw rfl rfl rfl
  | nestDirect m l d rest fs hp hst =>
    rw [hst] at hd hw
    refine h.of_update (fun u hu => setT_other _ _ _ _ hu) (fun _ _ => rfl) ?_ ?_
    · cases l <;> simpa [Thread.held, Frame.holding, List.countP_cons] using hd
    · simp only [setT_same]
      exact wf_push hw rfl rfl rfl
  | leaveLock m fs lk hp hst hr =>
    rw [hk] at hr
    obtain ⟨h1, h2⟩ := release_rlock hr
    rw [hst] at hd hw
    refine h.of_update (fun u hu => setT_other _ _ _ _ hu) (fun u hu => h2 u hu) ?_ ?_ (release_rlock_pos hr)
    · simp [Thread.held, Frame.holding, List.countP_cons] at hd ⊢
      rw [h1, ← hd]; omega
    · simp only [setT_same, popFrame_stack]
      exact wf_pop hw
  | leaveFree m fs hp hst =>
    rw [hst] at hd hw
    refine h.of_update (fun u hu => setT_other _ _ _ _ hu) (fun _ _ => rfl) ?_ ?_
    · simpa [Thread.held, Frame.holding, List.countP_cons] using hd
    · simp only [setT_same, popFrame_stack]
      exact wf_pop hw


/-! ### loading happens once -/

structure LoadInv (s : State) : Prop where
  loads : ∀ m, s.loads m = if s.started m = true then 1 else 0
  loadTop : ∀ t m l fs, (s.threads t).stack = .load m l :: fs → s.started m = false

theorem critical_of_top {th : Thread} {f : Frame} {fs : List Frame} (h : th.stack = f :: fs) (hf : f.isWant = false) :
    th.critical = true := by
  simp [Thread.critical, h, hf]

theorem LoadInv.step {cfg : Cfg} {s s' : State} {t : Tid} {l : Label}
    (hL : LockInv s) (h : LoadInv s) (hs : Step cfg s t l s') : LoadInv s' := by
  have hoth := hs.others
  -- every step except `load` keeps `started`/`loads`; we treat `load` separately
  by_cases hload : ∃ m l fs, (s.threads t).stack = .load m l :: fs ∧ (s.threads t).pending = none ∧
      s' = setT { s with started := fun x => if x = m then true else s.started x,
                         loads := fun x => if x = m then s.loads m + 1 else s.loads x } t
                { (s.threads t) with stack := .body m l (cfg.body m) :: fs }
  · obtain ⟨m, l, fs, hst, hp, rfl⟩ := hload
    have hm := h.loadTop t m l fs hst
    constructor
    · intro x
      by_cases hx : x = m
      · subst hx
        have := h.loads x
        simp [hm] at this
        simp [this]
      · simp [hx]; simpa using h.loads x
    · intro u m' l' fs' hu
      by_cases hut : u = t
      · subst hut; simp at hu
      · rw [setT_other _ _ _ _ hut] at hu
        by_cases hx : m' = m
        · subst hx
          exact absurd (hL.mutex (critical_of_top hu rfl) (critical_of_top hst rfl)) hut
        · simp [hx]; exact h.loadTop u m' l' fs' hu
  · have hsame : s'.started = s.started ∧ s'.loads = s.loads := by
      cases hs <;> first | exact ⟨rfl, rfl⟩ | (exfalso; exact hload ⟨_, _, _, ‹_›, ‹_›, rfl⟩)
    constructor
    · intro x; rw [hsame.1, hsame.2]; exact h.loads x
    · intro u m' l' fs' hu
      rw [hsame.1]
      by_cases hut : u = t
      · subst hut
        have hw := hL.wf u
        cases hs with
        | fill m hp => exact h.loadTop u m' l' fs' (by simpa using hu)
        | startAccess m rest hp hst ht => simp at hu
        | genHit m rest v hp hst ht hc => exact h.loadTop u m' l' fs' (by simpa using hu)
        | genMiss m rest hp hst ht hc => exact h.loadTop u m' l' fs' (by simpa using hu)
        | acquire m fs lk hp hst ha => simp at hu
        | testHit m l fs hp hst hstart => simp at hu
        | testMiss m l fs hp hst hstart =>
          simp at hu; obtain ⟨⟨rfl, rfl⟩, rfl⟩ := hu; exact hstart
        | load m l fs hp hst => exact absurd ⟨m, l, fs, hst, hp, rfl⟩ hload
        | regBody m l fs hp hst => simp at hu
        | nestLazy m l d rest fs hp hst => simp at hu
        | nestDirect m l d rest fs hp hst => simp at hu
        | leaveLock m fs lk hp hst hr =>
          simp at hu; subst hu; rw [hst] at hw; simp [wfStack, Frame.isBody] at hw
        | leaveFree m fs hp hst =>
          simp at hu; subst hu; rw [hst] at hw; simp [wfStack, Frame.isBody] at hw
      · rw [hoth u hut] at hu
        exact h.loadTop u m' l' fs' hu

/-! ### a started module is registered, or its body is still on the stack of the lock holder -/

def hasBody (st : List Frame) (m : Mod) : Prop := ∃ l rest, Frame.body m l rest ∈ st

def Frame.after : Frame → Bool
  | .body _ _ _ => true
  | .leave _ _ => true
  | _ => false

structure RegInv (s : State) : Prop where
  reg : ∀ m, s.started m = true → s.registered m = true ∨ ∃ t, hasBody (s.threads t).stack m
  startedOf : ∀ t f, f ∈ (s.threads t).stack → f.after = true → s.started f.mod = true

theorem hasBody_tail {f : Frame} {fs : List Frame} {m : Mod} (hf : f.isBody = false) :
    hasBody (f :: fs) m ↔ hasBody fs m := by
  constructor
  · rintro ⟨l, rest, h⟩
    simp only [List.mem_cons] at h
    rcases h with h | h
    · subst h; simp [Frame.isBody] at hf
    · exact ⟨l, rest, h⟩
  · rintro ⟨l, rest, h⟩
    exact ⟨l, rest, List.mem_cons_of_mem _ h⟩

theorem hasBody_body {m' : Mod} {l' : Bool} {r' : List Item} {fs : List Frame} {m : Mod} :
    hasBody (Frame.body m' l' r' :: fs) m ↔ m = m' ∨ hasBody fs m := by
  constructor
  · rintro ⟨l, rest, h⟩
    simp only [List.mem_cons] at h
    rcases h with h | h
    · left; injection h
    · right; exact ⟨l, rest, h⟩
  · rintro (h | ⟨l, rest, h⟩)
    · subst h; exact ⟨l', r', List.mem_cons_self⟩
    · exact ⟨l, rest, List.mem_cons_of_mem _ h⟩

/-- body frames only disappear by completing (which registers the module) -/
theorem Step.body_or_reg {cfg : Cfg} {s s' : State} {t : Tid} {l : Label} (hs : Step cfg s t l s') (u : Tid) (x : Mod)
    (hb : hasBody (s.threads u).stack x) : hasBody (s'.threads u).stack x ∨ s'.registered x = true := by
  by_cases hut : u = t
  · subst hut
    cases hs with
    | fill m hp => left; simpa using hb
    | startAccess m rest hp hst ht => rw [hst] at hb; obtain ⟨_, _, h⟩ := hb; simp at h
    | genHit m rest v hp hst ht hc => left; simpa using hb
    | genMiss m rest hp hst ht hc => left; simpa using hb
    | acquire m fs lk hp hst ha =>
      left; rw [hst, hasBody_tail rfl] at hb; simp only [setT_same]; rw [hasBody_tail rfl]; exact hb
    | testHit m l fs hp hst hstart =>
      left; rw [hst, hasBody_tail rfl] at hb; simp only [setT_same]; rw [hasBody_tail rfl]; exact hb
    | testMiss m l fs hp hst hstart =>
      left; rw [hst, hasBody_tail rfl] at hb; simp only [setT_same]; rw [hasBody_tail rfl]; exact hb
    | load m l fs hp hst =>
      left; rw [hst, hasBody_tail rfl] at hb
      simp only [setT_same]; rw [hasBody_body]; exact Or.inr hb
    | regBody m l fs hp hst =>
      rw [hst, hasBody_body] at hb
      rcases hb with hb | hb
      · right; subst hb; simp
      · left; simp only [setT_same]; rw [hasBody_tail rfl]; exact hb
    | nestLazy m l d rest fs hp hst =>
      left; rw [hst, hasBody_body] at hb
      simp only [setT_same]; rw [hasBody_tail rfl, hasBody_body]; exact hb
    | nestDirect m l d rest fs hp hst =>
      left; rw [hst, hasBody_body] at hb
      simp only [setT_same]; rw [hasBody_tail rfl, hasBody_body]; exact hb
    | leaveLock m fs lk hp hst hr =>
      left; rw [hst, hasBody_tail rfl] at hb; simpa using hb
    | leaveFree m fs hp hst =>
      left; rw [hst, hasBody_tail rfl] at hb; simpa using hb
  · left; rw [hs.others u hut]; exact hb

theorem Step.registered_mono {cfg : Cfg} {s s' : State} {t : Tid} {l : Label} (hs : Step cfg s t l s') (x : Mod)
    (h : s.registered x = true) : s'.registered x = true := by
  cases hs <;> first | exact h | (simp; exact Or.inr h)

theorem Step.started_mono {cfg : Cfg} {s s' : State} {t : Tid} {l : Label} (hs : Step cfg s t l s') (x : Mod)
    (h : s.started x = true) : s'.started x = true := by
  cases hs <;> first | exact h | (simp; exact Or.inr h)

theorem Step.started_new {cfg : Cfg} {s s' : State} {t : Tid} {l : Label} (hs : Step cfg s t l s') (x : Mod)
    (h : s'.started x = true) : s.started x = true ∨ hasBody (s'.threads t).stack x := by
  cases hs <;> first
    | exact Or.inl h
    | (simp at h
       rcases h with h | h
       · right; subst h; simp only [setT_same]; rw [hasBody_body]; exact Or.inl rfl
       · exact Or.inl h)

theorem RegInv.step {cfg : Cfg} {s s' : State} {t : Tid} {l : Label}
    (h : RegInv s) (hs : Step cfg s t l s') : RegInv s' := by
  constructor
  · intro x hx
    rcases hs.started_new x hx with h0 | h0
    · rcases h.reg x h0 with h1 | ⟨u, h1⟩
      · exact Or.inl (hs.registered_mono x h1)
      · rcases hs.body_or_reg u x h1 with h2 | h2
        · exact Or.inr ⟨u, h2⟩
        · exact Or.inl h2
    · exact Or.inr ⟨t, h0⟩
  · intro u f hf ha
    by_cases hut : u = t
    · subst hut
      have old : ∀ g, g ∈ (s.threads u).stack → g.after = true → s'.started g.mod = true :=
        fun g hg hga => hs.started_mono _ (h.startedOf u g hg hga)
      cases hs with
      | fill m hp => exact old f (by simpa using hf) ha
      | startAccess m rest hp hst ht => simp at hf; subst hf; simp [Frame.after] at ha
      | genHit m rest v hp hst ht hc => exact old f (by simpa using hf) ha
      | genMiss m rest hp hst ht hc => exact old f (by simpa using hf) ha
      | acquire m fs lk hp hst ha' =>
        simp at hf
        rcases hf with hf | hf
        · subst hf; simp [Frame.after] at ha
        · exact old f (by rw [hst]; exact List.mem_cons_of_mem _ hf) ha
      | testHit m l fs hp hst hstart =>
        simp at hf
        rcases hf with hf | hf
        · subst hf; simpa [Frame.mod] using hstart
        · exact old f (by rw [hst]; exact List.mem_cons_of_mem _ hf) ha
      | testMiss m l fs hp hst hstart =>
        simp at hf
        rcases hf with hf | hf
        · subst hf; simp [Frame.after] at ha
        · exact old f (by rw [hst]; exact List.mem_cons_of_mem _ hf) ha
      | load m l fs hp hst =>
        simp only [setT_same, List.mem_cons] at hf
        rcases hf with hf | hf
        · subst hf; simp [Frame.mod]
        · exact old f (by rw [hst]; exact List.mem_cons_of_mem _ hf) ha
      | regBody m l fs hp hst =>
        simp only [setT_same, List.mem_cons] at hf
        rcases hf with hf | hf
        · subst hf
          exact old (.body m l []) (by rw [hst]; exact List.mem_cons_self) rfl
        · exact old f (by rw [hst]; exact List.mem_cons_of_mem _ hf) ha
      | nestLazy m l d rest fs hp hst =>
        simp only [setT_same, List.mem_cons] at hf
        rcases hf with hf | hf | hf
        · subst hf; simp [Frame.after] at ha
        · subst hf
          exact old (.body m l (.lazy d :: rest)) (by rw [hst]; exact List.mem_cons_self) rfl
        · exact old f (by rw [hst]; exact List.mem_cons_of_mem _ hf) ha
      | nestDirect m l d rest fs hp hst =>
        simp only [setT_same, List.mem_cons] at hf
        rcases hf with hf | hf | hf
        · subst hf; simp [Frame.after] at ha
        · subst hf
          exact old (.body m l (.direct d :: rest)) (by rw [hst]; exact List.mem_cons_self) rfl
        · exact old f (by rw [hst]; exact List.mem_cons_of_mem _ hf) ha
      | leaveLock m fs lk hp hst hr =>
        simp only [setT_same, popFrame_stack] at hf
        exact old f (by rw [hst]; exact List.mem_cons_of_mem _ hf) ha
      | leaveFree m fs hp hst =>
        simp only [setT_same, popFrame_stack] at hf
        exact old f (by rw [hst]; exact List.mem_cons_of_mem _ hf) ha
    · rw [hs.others u hut] at hf
      exact hs.started_mono _ (h.startedOf u f hf ha)


/-! ### results -/

def botMod : List Frame → Option Mod
  | [] => none
  | [f] => some f.mod
  | _ :: g :: rest => botMod (g :: rest)

theorem botMod_top {f f' : Frame} (fs : List Frame) (h : f'.mod = f.mod) : botMod (f' :: fs) = botMod (f :: fs) := by
  cases fs with
  | nil => simp [botMod, h]
  | cons g rest => simp [botMod]

structure ResInv (cfg : Cfg) (s : State) : Prop where
  cache : ∀ m v, s.cache m = some v → v = cfg.build m
  bottom : ∀ t m, botMod (s.threads t).stack = some m → ∃ rest, (s.threads t).todo = .access m :: rest
  pend : ∀ t m, (s.threads t).pending = some m → ∃ rest, (s.threads t).todo = .gen m :: rest

theorem ResInv.step {cfg : Cfg} {s s' : State} {t : Tid} {l : Label}
    (h : ResInv cfg s) (hs : Step cfg s t l s') : ResInv cfg s' := by
  refine ⟨?_, ?_, ?_⟩
  · intro x v hx
    cases hs <;> first
      | exact h.cache x v hx
      | (simp at hx
         split at hx
         · simp at hx; rename_i e; subst e; exact hx.symm
         · exact h.cache x v hx)
  · intro u x hx
    by_cases hut : u = t
    · subst hut
      have hb := h.bottom u
      cases hs with
      | fill m hp =>
        simp at hx
        obtain ⟨r1, h1⟩ := hb x hx
        obtain ⟨r2, h2⟩ := h.pend u m hp
        rw [h1] at h2; simp at h2
      | startAccess m rest hp hst ht => simp [botMod, Frame.mod] at hx; subst hx; exact ⟨rest, by simpa using ht⟩
      | genHit m rest v hp hst ht hc => simp [hst, botMod] at hx
      | genMiss m rest hp hst ht hc => simp [hst, botMod] at hx
      | acquire m fs lk hp hst ha =>
        simp only [setT_same] at hx ⊢
        have e : botMod (Frame.test m true :: fs) = botMod (Frame.want m :: fs) := botMod_top fs rfl
        rw [e, ← hst] at hx; exact hb x hx
      | testHit m l fs hp hst hstart =>
        simp only [setT_same] at hx ⊢
        have e : botMod (Frame.leave m l :: fs) = botMod (Frame.test m l :: fs) := botMod_top fs rfl
        rw [e, ← hst] at hx; exact hb x hx
      | testMiss m l fs hp hst hstart =>
        simp only [setT_same] at hx ⊢
        have e : botMod (Frame.load m l :: fs) = botMod (Frame.test m l :: fs) := botMod_top fs rfl
        rw [e, ← hst] at hx; exact hb x hx
      | load m l fs hp hst =>
        simp only [setT_same] at hx ⊢
        have e : botMod (Frame.body m l (cfg.body m) :: fs) = botMod (Frame.load m l :: fs) := botMod_top fs rfl
        rw [e, ← hst] at hx; exact hb x hx
      | regBody m l fs hp hst =>
        simp only [setT_same] at hx ⊢
        have e : botMod (Frame.leave m l :: fs) = botMod (Frame.body m l [] :: fs) := botMod_top fs rfl
        rw [e, ← hst] at hx; exact hb x hx
      | nestLazy m l d rest fs hp hst =>
        simp only [setT_same, botMod] at hx ⊢
        have e : botMod (Frame.body m l rest :: fs) = botMod (Frame.body m l (.lazy d :: rest) :: fs) := botMod_top fs rfl
        rw [e, ← hst] at hx; exact hb x hx
      | nestDirect m l d rest fs hp hst =>
        simp only [setT_same, botMod] at hx ⊢
        have e : botMod (Frame.body m l rest :: fs) = botMod (Frame.body m l (.direct d :: rest) :: fs) := botMod_top fs rfl
        rw [e, ← hst] at hx; exact hb x hx
      | leaveLock m fs lk hp hst hr =>
        simp only [setT_same, popFrame_stack] at hx
        cases fs with
        | nil => simp [botMod] at hx
        | cons g rest =>
          simp only [setT_same, popFrame]
          have := hb x (by rw [hst]; simpa [botMod] using hx)
          exact this
      | leaveFree m fs hp hst =>
        simp only [setT_same, popFrame_stack] at hx
        cases fs with
        | nil => simp [botMod] at hx
        | cons g rest =>
          simp only [setT_same, popFrame]
          have := hb x (by rw [hst]; simpa [botMod] using hx)
          exact this
    · rw [hs.others u hut] at hx ⊢
      exact h.bottom u x hx
  · intro u x hx
    by_cases hut : u = t
    · subst hut
      have hp' := h.pend u x
      cases hs with
      | fill m hp => simp at hx
      | genMiss m rest hp hst ht hc => simp at hx; subst hx; exact ⟨rest, by simpa using ht⟩
      | startAccess m rest hp hst ht => simp [hp] at hx
      | genHit m rest v hp hst ht hc => simp [hp] at hx
      | acquire m fs lk hp hst ha => simp [hp] at hx
      | testHit m l fs hp hst hstart => simp [hp] at hx
      | testMiss m l fs hp hst hstart => simp [hp] at hx
      | load m l fs hp hst => simp [hp] at hx
      | regBody m l fs hp hst => simp [hp] at hx
      | nestLazy m l d rest fs hp hst => simp [hp] at hx
      | nestDirect m l d rest fs hp hst => simp [hp] at hx
      | leaveLock m fs lk hp hst hr => simp [hp] at hx
      | leaveFree m fs hp hst => simp [hp] at hx
    · rw [hs.others u hut] at hx ⊢
      exact h.pend u x hx

theorem critical_of_hasBody {th : Thread} {m : Mod} (h : hasBody th.stack m) : th.critical = true := by
  obtain ⟨l, rest, hm⟩ := h
  simp only [Thread.critical, List.any_eq_true]
  exact ⟨_, hm, rfl⟩

/-- a top-level access returns only after the module has been registered -/
theorem registered_of_leave_single {s : State} {t : Tid} {m : Mod} {l : Bool} (hL : LockInv s) (hR : RegInv s)
    (hst : (s.threads t).stack = [.leave m l]) : s.registered m = true := by
  have hstart : s.started m = true := hR.startedOf t (.leave m l) (by simp [hst]) rfl
  rcases hR.reg m hstart with h | ⟨u, hu⟩
  · exact h
  · have hcu := critical_of_hasBody hu
    have hct : (s.threads t).critical = true := critical_of_top hst rfl
    have := hL.mutex hcu hct
    subst this
    rw [hst, hasBody_tail rfl] at hu
    obtain ⟨_, _, h⟩ := hu
    simp at h

/-- what the thread will have returned once it is done, assuming every remaining call gives the sequential answer -/
def final (cfg : Cfg) (th : Thread) : List Res := th.results ++ th.todo.map (expected cfg)

theorem Step.final_eq {cfg : Cfg} {s s' : State} {t : Tid} {l : Label}
    (hL : LockInv s) (hR : RegInv s) (hV : ResInv cfg s) (hs : Step cfg s t l s') (u : Tid) :
    final cfg (s'.threads u) = final cfg (s.threads u) := by
  by_cases hut : u = t
  · subst hut
    cases hs with
    | fill m hp =>
      obtain ⟨rest, hr⟩ := hV.pend u m hp
      simp [final, hr, expected]
    | startAccess m rest hp hst ht => simp [final]
    | genHit m rest v hp hst ht hc =>
      have := hV.cache m v hc
      subst this
      simp [final, ht, expected]
    | genMiss m rest hp hst ht hc => simp [final]
    | acquire m fs lk hp hst ha => simp [final]
    | testHit m l fs hp hst hstart => simp [final]
    | testMiss m l fs hp hst hstart => simp [final]
    | load m l fs hp hst => simp [final]
    | regBody m l fs hp hst => simp [final]
    | nestLazy m l d rest fs hp hst => simp [final]
    | nestDirect m l d rest fs hp hst => simp [final]
    | leaveLock m fs lk hp hst hr =>
      cases fs with
      | nil =>
        obtain ⟨rest, hr⟩ := hV.bottom u m (by rw [hst]; rfl)
        have := registered_of_leave_single hL hR hst
        simp [final, popFrame, hr, expected, this]
      | cons g rest => simp [final, popFrame]
    | leaveFree m fs hp hst =>
      cases fs with
      | nil =>
        obtain ⟨rest, hr⟩ := hV.bottom u m (by rw [hst]; rfl)
        have := registered_of_leave_single hL hR hst
        simp [final, popFrame, hr, expected, this]
      | cons g rest => simp [final, popFrame]
  · rw [hs.others u hut]

/-! ### everything together, over all reachable states -/

structure Inv (cfg : Cfg) (s : State) : Prop where
  lock : LockInv s
  load : LoadInv s
  reg : RegInv s
  res : ResInv cfg s

theorem Inv.init (cfg : Cfg) (progs : Tid → List Op) : Inv cfg (initState progs) := by
  refine ⟨⟨?_, ?_, ?_⟩, ⟨?_, ?_⟩, ⟨?_, ?_⟩, ⟨?_, ?_, ?_⟩⟩ <;>
    simp [initState, initThread, Thread.held, depthOf, wfStack, botMod]

theorem Inv.step {cfg : Cfg} (hk : cfg.kind = .rlock) {s s' : State} {t : Tid} {l : Label}
    (h : Inv cfg s) (hs : Step cfg s t l s') : Inv cfg s' :=
  ⟨h.lock.step hk hs, h.load.step h.lock hs, h.reg.step hs, h.res.step hs⟩

/-- states reachable from `s0` by any number of steps of any threads -/
inductive Reach (cfg : Cfg) (s0 : State) : State → Prop
  | init : Reach cfg s0 s0
  | next {s s' : State} {t : Tid} {l : Label} : Reach cfg s0 s → step cfg s t = some (l, s') → Reach cfg s0 s'

theorem Inv.reach {cfg : Cfg} (hk : cfg.kind = .rlock) {progs : Tid → List Op} {s : State}
    (h : Reach cfg (initState progs) s) : Inv cfg s := by
  induction h with
  | init => exact Inv.init cfg progs
  | next _ hs ih => exact ih.step hk (step_sound hs)

theorem reach_runSched {cfg : Cfg} {s0 s : State} (h : Reach cfg s0 s) (sched : List Tid) :
    Reach cfg s0 (runSched cfg s sched) := by
  induction sched generalizing s with
  | nil => exact h
  | cons t ts ih =>
    simp only [runSched]
    split
    · rename_i l s' hs; exact ih (.next h hs)
    · exact ih h

theorem final_reach {cfg : Cfg} (hk : cfg.kind = .rlock) {progs : Tid → List Op} {s : State}
    (h : Reach cfg (initState progs) s) (u : Tid) : final cfg (s.threads u) = seqResults cfg (progs u) := by
  induction h with
  | init => simp [final, initState, initThread, seqResults]
  | next hr hs ih =>
    have hI := Inv.reach hk hr
    rw [(step_sound hs).final_eq hI.lock hI.reg hI.res u, ih]

/-! ### progress -/

theorem step_isSome_of {cfg : Cfg} (hk : cfg.kind = .rlock) {s : State} (hL : LockInv s) (t : Tid)
    (hnf : (s.threads t).finished = false) (hlock : s.lock = none ∨ ∃ d, s.lock = some (t, d)) :
    (step cfg s t).isSome = true := by
  have hd := hL.depth t
  unfold step
  split
  · rfl
  · rename_i hp
    split
    · rename_i hst
      unfold stepStart
      split
      · rename_i htd; simp [Thread.finished, hp, hst, htd] at hnf
      · rfl
      · split <;> rfl
    · rename_i f fs hst
      cases f with
      | want m =>
        simp only [stepFrame, hk]
        rcases hlock with hl | ⟨d, hl⟩ <;> simp [hl, acquire]
      | test m l => simp only [stepFrame]; split <;> rfl
      | load m l => rfl
      | body m l rest => rfl
      | leave m l =>
        simp only [stepFrame, stepLeave]
        cases l with
        | false => rfl
        | true =>
          simp only [hk, if_true]
          rcases hlock with hl | ⟨d, hl⟩
          · rw [hl] at hd
            simp [Thread.held, hst, Frame.holding, List.countP_cons, depthOf] at hd
          · simp only [hl, release]
            simp only [if_true]
            by_cases hd1 : d ≤ 1 <;> simp [hd1]

theorem progress {cfg : Cfg} (hk : cfg.kind = .rlock) {s : State} (hL : LockInv s) (hnc : ¬ Complete s) :
    ∃ t, (step cfg s t).isSome = true := by
  cases hl : s.lock with
  | none =>
    have : ∃ t, (s.threads t).finished = false := by
      apply Classical.byContradiction
      intro hne
      apply hnc
      intro t
      cases hf : (s.threads t).finished with
      | true => rfl
      | false => exact absurd ⟨t, hf⟩ hne
    obtain ⟨t, ht⟩ := this
    exact ⟨t, step_isSome_of hk hL t ht (Or.inl hl)⟩
  | some p =>
    obtain ⟨o, d⟩ := p
    have hpos := hL.pos o d hl
    have hd := hL.depth o
    rw [hl] at hd
    simp [depthOf] at hd
    refine ⟨o, step_isSome_of hk hL o ?_ (Or.inr ⟨d, hl⟩)⟩
    cases hst : (s.threads o).stack with
    | nil => simp [Thread.held, hst] at hd; omega
    | cons f fs => simp [Thread.finished, hst]


/-! ### the two routes: a consistent lock order excludes dead-lock -/
namespace Routes

structure RInv (s : RState) : Prop where
  a1 : ∀ t, (s.pc t).holdsP = true → s.pkg = some (t, 1)
  a2 : ∀ o d, s.pkg = some (o, d) → (s.pc o).holdsP = true
  b1 : ∀ t m, (s.pc t).holdsM = some m → s.modLock m = some t
  b2 : ∀ m o, s.modLock m = some o → (s.pc o).holdsM = some m
  c : ∀ t, (s.pc t).isRe = false

theorem RInv.init (progs : Tid → List Route) : RInv (rinit progs) := by
  constructor <;> simp [rinit, Pc.holdsP, Pc.holdsM, Pc.isRe]

theorem RInv.step {cfg : RCfg} (hno : ∀ m, cfg.reentry m = false) {s s' : RState} {t : Tid}
    (h : RInv s) (hs : rstep cfg s t = some s') : RInv s' := by
  obtain ⟨a1, a2, b1, b2, c⟩ := h
  have a1t := a1 t
  have b1t := b1 t
  have ct := c t
  unfold rstep at hs
  split at hs
  · -- idle
    rename_i hpc
    unfold rstepIdle at hs
    split at hs
    · simp at hs
    all_goals
      simp only [Option.some.injEq] at hs
      subst hs
      refine ⟨?_, ?_, ?_, ?_, ?_⟩
      · intro u hu
        by_cases hut : u = t
        · subst hut; simp [Pc.holdsP] at hu
        · simp only [hut, if_false] at hu; exact a1 u hu
      · intro o d ho
        have := a2 o d ho
        by_cases hot : o = t
        · subst hot; simp [hpc, Pc.holdsP] at this
        · simp only [hot, if_false]; exact this
      · intro u m hu
        by_cases hut : u = t
        · subst hut; simp [Pc.holdsM] at hu
        · simp only [hut, if_false] at hu; exact b1 u m hu
      · intro m o ho
        have := b2 m o ho
        by_cases hot : o = t
        · subst hot; simp [hpc, Pc.holdsM] at this
        · simp only [hot, if_false]; exact this
      · intro u
        by_cases hut : u = t
        · subst hut; simp [Pc.isRe]
        · simp only [hut, if_false]; exact c u
  · -- wantP
    rename_i m hpc
    split at hs
    · simp at hs
    · rename_i lk hacq
      simp only [Option.some.injEq] at hs
      subst hs
      have hlk : lk = some (t, 1) := by
        cases hp : s.pkg with
        | none => simp [hp, acquire] at hacq; exact hacq.symm
        | some p =>
          obtain ⟨o, d⟩ := p
          simp only [hp, acquire] at hacq
          split at hacq
          · rename_i hot; subst hot
            have := a2 o d hp
            simp [hpc, Pc.holdsP] at this
          · simp at hacq
      subst hlk
      have hfree : ∀ u, u ≠ t → (s.pc u).holdsP = false := by
        intro u hut
        cases hh : (s.pc u).holdsP with
        | false => rfl
        | true =>
          have h1 := a1 u hh
          cases hp : s.pkg with
          | none => rw [hp] at h1; simp at h1
          | some p =>
            obtain ⟨o, d⟩ := p
            rw [hp] at h1; simp at h1
            simp only [hp, acquire] at hacq
            rw [h1.1] at hacq
            simp [hut] at hacq
      refine ⟨?_, ?_, ?_, ?_, ?_⟩
      · intro u hu
        by_cases hut : u = t
        · subst hut; rfl
        · simp [setPc, hut] at hu; rw [hfree u hut] at hu; simp at hu
      · intro o d ho
        simp [setPc] at ho ⊢
        simp [ho.1, Pc.holdsP]
      · intro u m' hu
        by_cases hut : u = t
        · subst hut; simp [setPc, Pc.holdsM] at hu
        · simp [setPc, hut] at hu ⊢; exact b1 u m' hu
      · intro m' o ho
        have := b2 m' o (by simpa [setPc] using ho)
        by_cases hot : o = t
        · subst hot; simp [hpc, Pc.holdsM] at this
        · simp [setPc, hot]; exact this
      · intro u
        by_cases hut : u = t
        · subst hut; simp [setPc, Pc.isRe]
        · simp [setPc, hut]; exact c u
  · -- wantM
    rename_i m v hpc
    split at hs
    · simp at hs
    · rename_i hml
      simp only [Option.some.injEq] at hs
      subst hs
      refine ⟨?_, ?_, ?_, ?_, ?_⟩
      · intro u hu
        by_cases hut : u = t
        · subst hut
          simp [setPc, Pc.holdsP] at hu
          simpa [setPc] using a1 u (by simp [hpc, Pc.holdsP, hu])
        · simp [setPc, hut] at hu ⊢; exact a1 u hu
      · intro o d ho
        have := a2 o d (by simpa [setPc] using ho)
        by_cases hot : o = t
        · subst hot; simpa [setPc, hpc, Pc.holdsP] using this
        · simp [setPc, hot]; exact this
      · intro u m' hu
        by_cases hut : u = t
        · subst hut; simp [setPc, Pc.holdsM] at hu; subst hu; simp [setPc]
        · simp [setPc, hut] at hu ⊢
          have := b1 u m' hu
          by_cases hm : m' = m
          · subst hm; rw [hml] at this; simp at this
          · simp [hm]; exact this
      · intro m' o ho
        simp only [setPc] at ho ⊢
        by_cases hm : m' = m
        · subst hm; simp at ho; subst ho; simp [Pc.holdsM]
        · simp [hm] at ho
          have := b2 m' o ho
          by_cases hot : o = t
          · subst hot; simp [hpc, Pc.holdsM] at this
          · simp [hot]; exact this
      · intro u
        by_cases hut : u = t
        · subst hut; simp [setPc, Pc.isRe]
        · simp [setPc, hut]; exact c u
  · -- body
    rename_i m v hpc
    simp only [Option.some.injEq] at hs
    subst hs
    unfold rstepBody
    simp only [hno m, Bool.false_eq_true, if_false]
    have key : ∀ (s0 : RState), s0.pkg = s.pkg → s0.modLock = s.modLock → s0.pc = s.pc → RInv (setPc s0 t (.relM m v)) := by
      intro s0 e1 e2 e3
      refine ⟨?_, ?_, ?_, ?_, ?_⟩
      · intro u hu
        by_cases hut : u = t
        · subst hut
          simp [setPc, Pc.holdsP] at hu
          simpa [setPc, e1] using a1 u (by simp [hpc, Pc.holdsP, hu])
        · simp [setPc, hut, e3] at hu ⊢; rw [e1]; exact a1 u hu
      · intro o d ho
        have := a2 o d (by simpa [setPc, e1] using ho)
        by_cases hot : o = t
        · subst hot; simpa [setPc, hpc, Pc.holdsP] using this
        · simp [setPc, hot, e3]; exact this
      · intro u m' hu
        by_cases hut : u = t
        · subst hut; simp [setPc, Pc.holdsM] at hu; subst hu
          simpa [setPc, e2] using b1 u m (by simp [hpc, Pc.holdsM])
        · simp [setPc, hut, e3] at hu ⊢; rw [e2]; exact b1 u m' hu
      · intro m' o ho
        have := b2 m' o (by simpa [setPc, e2] using ho)
        by_cases hot : o = t
        · subst hot; simpa [setPc, hpc, Pc.holdsM] using this
        · simp [setPc, hot, e3]; exact this
      · intro u
        by_cases hut : u = t
        · subst hut; simp [setPc, Pc.isRe]
        · simp [setPc, hut, e3]; exact c u
    split
    · exact key s rfl rfl rfl
    · exact key _ rfl rfl rfl
  · -- reWantP: unreachable
    rename_i m v hpc
    simp [hpc, Pc.isRe] at ct
  · rename_i m v hpc
    simp [hpc, Pc.isRe] at ct
  · -- relM
    rename_i m v hpc
    simp only [Option.some.injEq] at hs
    subst hs
    have hown : s.modLock m = some t := b1 t m (by simp [hpc, Pc.holdsM])
    refine ⟨?_, ?_, ?_, ?_, ?_⟩
    · intro u hu
      by_cases hut : u = t
      · subst hut
        have : v = true := by cases v <;> simp [setPc, Pc.holdsP] at hu ⊢
        subst this
        simpa [setPc] using a1 u (by simp [hpc, Pc.holdsP])
      · simp [setPc, hut] at hu ⊢; exact a1 u hu
    · intro o d ho
      have := a2 o d (by simpa [setPc] using ho)
      by_cases hot : o = t
      · subst hot
        have hv : v = true := by simpa [hpc, Pc.holdsP] using this
        subst hv; simp [setPc, Pc.holdsP]
      · simp [setPc, hot]; exact this
    · intro u m' hu
      by_cases hut : u = t
      · subst hut; cases v <;> simp [setPc, Pc.holdsM] at hu
      · simp [setPc, hut] at hu ⊢
        have := b1 u m' hu
        by_cases hm : m' = m
        · subst hm; rw [hown] at this; simp at this; exact absurd this.symm hut
        · simp [hm]; exact this
    · intro m' o ho
      simp only [setPc] at ho ⊢
      by_cases hm : m' = m
      · subst hm; simp at ho
      · simp [hm] at ho
        have := b2 m' o ho
        by_cases hot : o = t
        · subst hot; simp [hpc, Pc.holdsM] at this; exact absurd this.symm hm
        · simp [hot]; exact this
    · intro u
      by_cases hut : u = t
      · subst hut; cases v <;> simp [setPc, Pc.isRe]
      · simp [setPc, hut]; exact c u
  · -- relP
    rename_i m hpc
    have hp : s.pkg = some (t, 1) := a1 t (by simp [hpc, Pc.holdsP])
    simp [hp, release] at hs
    subst hs
    refine ⟨?_, ?_, ?_, ?_, ?_⟩
    · intro u hu
      by_cases hut : u = t
      · subst hut; simp [setPc, Pc.holdsP] at hu
      · simp [setPc, hut] at hu
        have := a1 u hu
        rw [hp] at this; simp at this; exact absurd this.symm hut
    · intro o d ho; simp [setPc] at ho
    · intro u m' hu
      by_cases hut : u = t
      · subst hut; simp [setPc, Pc.holdsM] at hu
      · simp [setPc, hut] at hu ⊢; exact b1 u m' hu
    · intro m' o ho
      have := b2 m' o (by simpa [setPc] using ho)
      by_cases hot : o = t
      · subst hot; simp [hpc, Pc.holdsM] at this
      · simp [setPc, hot]; exact this
    · intro u
      by_cases hut : u = t
      · subst hut; simp [setPc, Pc.isRe]
      · simp [setPc, hut]; exact c u

inductive RReach (cfg : RCfg) (s0 : RState) : RState → Prop
  | init : RReach cfg s0 s0
  | next {s s' : RState} {t : Tid} : RReach cfg s0 s → rstep cfg s t = some s' → RReach cfg s0 s'

theorem RInv.reach {cfg : RCfg} (hno : ∀ m, cfg.reentry m = false) {progs : Tid → List Route} {s : RState}
    (h : RReach cfg (rinit progs) s) : RInv s := by
  induction h with
  | init => exact RInv.init progs
  | next _ hs ih => exact ih.step hno hs

theorem rreach_rrun {cfg : RCfg} {s0 s : RState} (h : RReach cfg s0 s) (sched : List Tid) :
    RReach cfg s0 (rrun cfg s sched) := by
  induction sched generalizing s with
  | nil => exact h
  | cons t ts ih =>
    simp only [rrun]
    split
    · rename_i s' hs; exact ih (.next h hs)
    · exact ih h

/-- a thread that holds a module lock can always move (no re-entry: it never asks for anything else) -/
theorem enabled_of_holdsM {cfg : RCfg} {s : RState} (h : RInv s) {o : Tid} {m : Mod}
    (ho : (s.pc o).holdsM = some m) : (rstep cfg s o).isSome = true := by
  have hc := h.c o
  unfold rstep
  cases hpc : s.pc o <;> simp [hpc, Pc.holdsM, Pc.isRe] at ho hc ⊢

theorem enabled_wantM {cfg : RCfg} {s : RState} (h : RInv s) {u : Tid} {m : Mod} {v : Bool}
    (hpc : s.pc u = .wantM m v) : ∃ t, (rstep cfg s t).isSome = true := by
  cases hml : s.modLock m with
  | none => exact ⟨u, by simp [rstep, hpc, hml]⟩
  | some o => exact ⟨o, enabled_of_holdsM h (h.b2 m o hml)⟩

theorem rprogress {cfg : RCfg} {s : RState} (h : RInv s) (hnc : ¬ RComplete s) :
    ∃ t, (rstep cfg s t).isSome = true := by
  have : ∃ t, ¬ (s.pc t = .idle ∧ s.todo t = []) := Classical.not_forall.mp hnc
  obtain ⟨t, ht⟩ := this
  cases hpc : s.pc t with
  | idle =>
    refine ⟨t, ?_⟩
    have : s.todo t ≠ [] := fun e => ht ⟨hpc, e⟩
    unfold rstep rstepIdle
    simp only [hpc]
    cases htd : s.todo t with
    | nil => exact absurd htd this
    | cons r rest => cases r <;> rfl
  | wantP m =>
    cases hp : s.pkg with
    | none => exact ⟨t, by simp [rstep, hpc, hp, acquire]⟩
    | some p =>
      obtain ⟨o, d⟩ := p
      have ho := h.a2 o d hp
      have hc := h.c o
      have h1 := h.a1 o ho
      cases hpo : s.pc o with
      | idle => simp [hpo, Pc.holdsP] at ho
      | wantP m' => simp [hpo, Pc.holdsP] at ho
      | wantM m' v => exact enabled_wantM h hpo
      | body m' v => exact ⟨o, enabled_of_holdsM (m := m') h (by simp [hpo, Pc.holdsM])⟩
      | reWantP m' v => simp [hpo, Pc.isRe] at hc
      | reHasP m' v => simp [hpo, Pc.isRe] at hc
      | relM m' v => exact ⟨o, enabled_of_holdsM (m := m') h (by simp [hpo, Pc.holdsM])⟩
      | relP m' => exact ⟨o, by simp [rstep, hpo, h1, release]⟩
  | wantM m v => exact enabled_wantM h hpc
  | body m v => exact ⟨t, enabled_of_holdsM (m := m) h (by simp [hpc, Pc.holdsM])⟩
  | reWantP m v => have := h.c t; simp [hpc, Pc.isRe] at this
  | reHasP m v => have := h.c t; simp [hpc, Pc.isRe] at this
  | relM m v => exact ⟨t, enabled_of_holdsM (m := m) h (by simp [hpc, Pc.holdsM])⟩
  | relP m =>
    have h1 := h.a1 t (by simp [hpc, Pc.holdsP])
    exact ⟨t, by simp [rstep, hpc, h1, release]⟩


theorem rstep_others {cfg : RCfg} {s s' : RState} {t u : Tid} (hs : rstep cfg s t = some s') (hu : u ≠ t) :
    s'.pc u = s.pc u ∧ s'.todo u = s.todo u := by
  unfold rstep at hs
  split at hs
  · unfold rstepIdle at hs
    split at hs
    · simp at hs
    all_goals (simp only [Option.some.injEq] at hs; subst hs; simp [hu])
  · split at hs
    · simp at hs
    · simp only [Option.some.injEq] at hs; subst hs; simp [setPc, hu]
  · split at hs
    · simp at hs
    · simp only [Option.some.injEq] at hs; subst hs; simp [setPc, hu]
  · simp only [Option.some.injEq] at hs; subst hs
    unfold rstepBody
    split
    · simp [setPc, hu]
    · split <;> simp [setPc, hu]
  · split at hs
    · simp at hs
    · simp only [Option.some.injEq] at hs; subst hs; simp [setPc, hu]
  · split at hs
    · simp at hs
    · simp only [Option.some.injEq] at hs; subst hs; simp [setPc, hu]
  · simp only [Option.some.injEq] at hs; subst hs; simp [setPc, hu]
  · split at hs
    · simp at hs
    · simp only [Option.some.injEq] at hs; subst hs; simp [setPc, hu]

theorem rrun_others (cfg : RCfg) (u : Tid) : ∀ (sched : List Tid) (s : RState), u ∉ sched →
    (rrun cfg s sched).pc u = s.pc u ∧ (rrun cfg s sched).todo u = s.todo u
  | [], _, _ => ⟨rfl, rfl⟩
  | t :: ts, s, h => by
    simp only [List.mem_cons, not_or] at h
    simp only [rrun]
    split
    · rename_i s' hs
      have h1 := rrun_others cfg u ts s' h.2
      have h2 := rstep_others hs h.1
      exact ⟨h1.1.trans h2.1, h1.2.trans h2.2⟩
    · exact rrun_others cfg u ts s h.2

theorem rstep_none_of_done (cfg : RCfg) (s : RState) (t : Tid) (h1 : s.pc t = .idle) (h2 : s.todo t = []) :
    rstep cfg s t = none := by
  simp [rstep, h1, rstepIdle, h2]

end Routes


/-! ## the full model (package lock + module locks, both routes, class configuration, dispatch fill) -/
namespace Full

abbrev Th (s : FState) (t : Tid) : Thread := s.threads t

inductive FStep (cfg : FCfg) (s : FState) (t : Tid) : FState → Prop
  -- dispatch fill in flight
  | fillEarlyInc (m : Mod) (n : Nat) (hp : (Th s t).pending = some (m, n)) (he : cfg.publishEarly = true)
      (hk : (s.cache m).getD 0 < cfg.tableSize m) :
      FStep cfg s t (setT { s with cache := fun x => if x = m then some ((s.cache m).getD 0 + 1) else s.cache x } t (Th s t))
  | fillEarlyDone (m : Mod) (n : Nat) (hp : (Th s t).pending = some (m, n)) (he : cfg.publishEarly = true)
      (hk : ¬ (s.cache m).getD 0 < cfg.tableSize m) :
      FStep cfg s t (setT s t { finishOp (Th s t) (.disp m ((s.cache m).getD 0)) with pending := none })
  | fillLocalInc (m : Mod) (n : Nat) (hp : (Th s t).pending = some (m, n)) (he : cfg.publishEarly = false)
      (hk : n < cfg.tableSize m) :
      FStep cfg s t (setT s t { (Th s t) with pending := some (m, n + 1) })
  | fillLocalStore (m : Mod) (n : Nat) (hp : (Th s t).pending = some (m, n)) (he : cfg.publishEarly = false)
      (hk : ¬ n < cfg.tableSize m) :
      FStep cfg s t (setT { s with cache := fun x => if x = m then some n else s.cache x } t
        { finishOp (Th s t) (.disp m n) with pending := none })
  -- starting an operation
  | accessFast (m : Mod) (rest : List Op) (hp : (Th s t).pending = none) (hst : (Th s t).stack = [])
      (ht : (Th s t).todo = .access m :: rest) (hf : cfg.fastPath = true) (hs : s.started m = true) :
      FStep cfg s t (setT s t (finishOp (Th s t) (.attr m (s.done m))))
  | accessStart (m : Mod) (rest : List Op) (hp : (Th s t).pending = none) (hst : (Th s t).stack = [])
      (ht : (Th s t).todo = .access m :: rest) (hf : (cfg.fastPath && s.started m) = false) :
      FStep cfg s t (setT s t { (Th s t) with stack := [.wantP m] })
  | lookupHit (m : Mod) (rest : List Op) (hp : (Th s t).pending = none) (hst : (Th s t).stack = [])
      (ht : (Th s t).todo = .lookup m :: rest) (hr : s.registered m = true)
      (hw : (!cfg.lookupWaits || !initializing s m) = true) :
      FStep cfg s t (setT s t (finishOp (Th s t) (.cls m true (s.confDone m) (s.done m))))
  | lookupLoad (m : Mod) (rest : List Op) (hp : (Th s t).pending = none) (hst : (Th s t).stack = [])
      (ht : (Th s t).todo = .lookup m :: rest)
      (hw : (s.registered m && (!cfg.lookupWaits || !initializing s m)) = false) :
      FStep cfg s t (setT s t { (Th s t) with stack := [.wantM m false] })
  | genHit (m : Mod) (rest : List Op) (n : Nat) (hp : (Th s t).pending = none) (hst : (Th s t).stack = [])
      (ht : (Th s t).todo = .gen m :: rest) (hc : s.cache m = some n) :
      FStep cfg s t (setT s t (finishOp (Th s t) (.disp m n)))
  | genMissEarly (m : Mod) (rest : List Op) (hp : (Th s t).pending = none) (hst : (Th s t).stack = [])
      (ht : (Th s t).todo = .gen m :: rest) (hc : s.cache m = none) (he : cfg.publishEarly = true) :
      FStep cfg s t (setT { s with cache := fun x => if x = m then some 0 else s.cache x } t
        { (Th s t) with pending := some (m, 0) })
  | genMissLocal (m : Mod) (rest : List Op) (hp : (Th s t).pending = none) (hst : (Th s t).stack = [])
      (ht : (Th s t).todo = .gen m :: rest) (hc : s.cache m = none) (he : cfg.publishEarly = false) :
      FStep cfg s t (setT s t { (Th s t) with pending := some (m, 0) })
  -- frames
  | acqP (m : Mod) (fs : List Frame) (lk : Option (Tid × Nat)) (hp : (Th s t).pending = none)
      (hst : (Th s t).stack = .wantP m :: fs) (ha : acquire .rlock s.pkg t = some lk) :
      FStep cfg s t (setT { s with pkg := lk } t { (Th s t) with stack := .wantM m true :: fs })
  | acqM (m : Mod) (l : Bool) (fs : List Frame) (ml : Option (Tid × Nat)) (hp : (Th s t).pending = none)
      (hst : (Th s t).stack = .wantM m l :: fs) (ha : acquire .rlock (s.mlock m) t = some ml) :
      FStep cfg s t (setT { s with mlock := fun x => if x = m then ml else s.mlock x } t
        { (Th s t) with stack := .test m l :: fs })
  | testHit (m : Mod) (l : Bool) (fs : List Frame) (hp : (Th s t).pending = none)
      (hst : (Th s t).stack = .test m l :: fs) (h : s.started m = true) :
      FStep cfg s t (setT s t { (Th s t) with stack := .leave m l :: fs })
  | testMiss (m : Mod) (l : Bool) (fs : List Frame) (hp : (Th s t).pending = none)
      (hst : (Th s t).stack = .test m l :: fs) (h : s.started m = false) :
      FStep cfg s t (setT s t { (Th s t) with stack := .load m l :: fs })
  | load (m : Mod) (l : Bool) (fs : List Frame) (hp : (Th s t).pending = none)
      (hst : (Th s t).stack = .load m l :: fs) :
      FStep cfg s t (setT { s with started := fun x => if x = m then true else s.started x,
                                   loads := fun x => if x = m then s.loads m + 1 else s.loads x } t
        { (Th s t) with stack := .body m l (cfg.body m) :: fs })
  | nestLazy (m : Mod) (l : Bool) (d : Mod) (rest : List Item) (fs : List Frame) (hp : (Th s t).pending = none)
      (hst : (Th s t).stack = .body m l (.lazy d :: rest) :: fs) :
      FStep cfg s t (setT s t { (Th s t) with stack := .wantP d :: .body m l rest :: fs })
  | nestDirect (m : Mod) (l : Bool) (d : Mod) (rest : List Item) (fs : List Frame) (hp : (Th s t).pending = none)
      (hst : (Th s t).stack = .body m l (.direct d :: rest) :: fs) :
      FStep cfg s t (setT s t { (Th s t) with stack := .wantM d false :: .body m l rest :: fs })
  | bodyEnd (m : Mod) (l : Bool) (fs : List Frame) (hp : (Th s t).pending = none)
      (hst : (Th s t).stack = .body m l [] :: fs) :
      FStep cfg s t (setT { s with registered := fun x => if x = m then (cfg.registerFirst || s.registered m) else s.registered x } t
        { (Th s t) with stack := .conf m l (cfg.cfgSteps m) :: fs })
  | confStep (m : Mod) (l : Bool) (k : Nat) (fs : List Frame) (hp : (Th s t).pending = none)
      (hst : (Th s t).stack = .conf m l (k + 1) :: fs) :
      FStep cfg s t (setT s t { (Th s t) with stack := .conf m l k :: fs })
  | confEnd (m : Mod) (l : Bool) (fs : List Frame) (hp : (Th s t).pending = none)
      (hst : (Th s t).stack = .conf m l 0 :: fs) :
      FStep cfg s t (setT { s with confDone := fun x => if x = m then true else s.confDone x,
                                   registered := fun x => if x = m then true else s.registered x } t
        { (Th s t) with stack := .fin m l :: fs })
  | fin (m : Mod) (l : Bool) (fs : List Frame) (hp : (Th s t).pending = none)
      (hst : (Th s t).stack = .fin m l :: fs) :
      FStep cfg s t (setT { s with done := fun x => if x = m then true else s.done x } t
        { (Th s t) with stack := .leave m l :: fs })
  | leaveLock (m : Mod) (fs : List Frame) (ml lk : Option (Tid × Nat)) (hp : (Th s t).pending = none)
      (hst : (Th s t).stack = .leave m true :: fs) (hm : release .rlock (s.mlock m) t = some ml)
      (hr : release .rlock s.pkg t = some lk) :
      FStep cfg s t (setT { s with mlock := fun x => if x = m then ml else s.mlock x, pkg := lk } t
        (popFrame s (Th s t) m fs))
  | leaveFree (m : Mod) (fs : List Frame) (ml : Option (Tid × Nat)) (hp : (Th s t).pending = none)
      (hst : (Th s t).stack = .leave m false :: fs) (hm : release .rlock (s.mlock m) t = some ml) :
      FStep cfg s t (setT { s with mlock := fun x => if x = m then ml else s.mlock x } t (popFrame s (Th s t) m fs))

theorem fstep_sound {cfg : FCfg} {s s' : FState} {t : Tid} (h : fstep cfg s t = some s') : FStep cfg s t s' := by
  unfold fstep at h
  split at h
  · rename_i m n hp
    simp only [Option.some.injEq] at h
    subst h
    unfold stepFill
    by_cases he : cfg.publishEarly = true
    · simp only [he, if_true]
      by_cases hk : (s.cache m).getD 0 < cfg.tableSize m
      · simp only [hk, if_true]; exact .fillEarlyInc m n hp he hk
      · simp only [hk, if_false]; exact .fillEarlyDone m n hp he hk
    · have he' : cfg.publishEarly = false := by simpa using he
      simp only [he', Bool.false_eq_true, if_false]
      by_cases hk : n < cfg.tableSize m
      · simp only [hk, if_true]; exact .fillLocalInc m n hp he' hk
      · simp only [hk, if_false]; exact .fillLocalStore m n hp he' hk
  · rename_i hp
    split at h
    · rename_i hst
      unfold stepStart at h
      split at h
      · simp at h
      · rename_i m rest ht
        split at h
        · rename_i hf
          simp only [Option.some.injEq] at h; subst h
          simp only [Bool.and_eq_true] at hf
          exact .accessFast m rest hp hst ht hf.1 hf.2
        · rename_i hf
          simp only [Option.some.injEq] at h; subst h
          exact .accessStart m rest hp hst ht (by simpa using hf)
      · rename_i m rest ht
        split at h
        · rename_i hf
          simp only [Option.some.injEq] at h; subst h
          simp only [Bool.and_eq_true] at hf
          exact .lookupHit m rest hp hst ht hf.1 hf.2
        · rename_i hf
          simp only [Option.some.injEq] at h; subst h
          exact .lookupLoad m rest hp hst ht (by simpa using hf)
      · rename_i m rest ht
        split at h
        · rename_i n hc
          simp only [Option.some.injEq] at h; subst h
          exact .genHit m rest n hp hst ht hc
        · rename_i hc
          split at h
          · rename_i he
            simp only [Option.some.injEq] at h; subst h
            exact .genMissEarly m rest hp hst ht hc he
          · rename_i he
            simp only [Option.some.injEq] at h; subst h
            exact .genMissLocal m rest hp hst ht hc (by simpa using he)
    · rename_i f fs hst
      cases f with
      | wantP m =>
        simp only [stepFrame] at h
        split at h
        · simp at h
        · rename_i lk ha
          simp only [Option.some.injEq] at h; subst h
          exact .acqP m fs lk hp hst ha
      | wantM m l =>
        simp only [stepFrame] at h
        split at h
        · simp at h
        · rename_i ml ha
          simp only [Option.some.injEq] at h; subst h
          exact .acqM m l fs ml hp hst ha
      | test m l =>
        simp only [stepFrame] at h
        split at h
        · rename_i hs
          simp only [Option.some.injEq] at h; subst h
          exact .testHit m l fs hp hst hs
        · rename_i hs
          simp only [Option.some.injEq] at h; subst h
          exact .testMiss m l fs hp hst (by simpa using hs)
      | load m l =>
        simp only [stepFrame, Option.some.injEq] at h; subst h
        exact .load m l fs hp hst
      | body m l rest =>
        simp only [stepFrame, Option.some.injEq] at h; subst h
        unfold stepBody
        split
        · exact .bodyEnd m l fs hp hst
        · exact .nestLazy m l _ _ fs hp hst
        · exact .nestDirect m l _ _ fs hp hst
      | conf m l k =>
        cases k with
        | zero =>
          simp only [stepFrame, Option.some.injEq] at h; subst h
          exact .confEnd m l fs hp hst
        | succ k =>
          simp only [stepFrame, Option.some.injEq] at h; subst h
          exact .confStep m l k fs hp hst
      | fin m l =>
        simp only [stepFrame, Option.some.injEq] at h; subst h
        exact .fin m l fs hp hst
      | leave m l =>
        simp only [stepFrame] at h
        unfold stepLeave at h
        split at h
        · simp at h
        · rename_i ml hm
          cases l with
          | true =>
            simp only [if_true] at h
            split at h
            · simp at h
            · rename_i lk hr
              simp only [Option.some.injEq] at h; subst h
              exact .leaveLock m fs ml lk hp hst hm hr
          | false =>
            simp only [Bool.false_eq_true, if_false, Option.some.injEq] at h; subst h
            exact .leaveFree m fs ml hp hst hm


/-! ### frame lemmas -/

@[simp] theorem fsetT_same (s : FState) (t : Tid) (th : Thread) : (setT s t th).threads t = th := by simp [setT]
theorem fsetT_other (s : FState) (t : Tid) (th : Thread) (u : Tid) (h : u ≠ t) :
    (setT s t th).threads u = s.threads u := by simp [setT, h]
@[simp] theorem fsetT_pkg (s : FState) (t : Tid) (th : Thread) : (setT s t th).pkg = s.pkg := rfl
@[simp] theorem fsetT_mlock (s : FState) (t : Tid) (th : Thread) : (setT s t th).mlock = s.mlock := rfl
@[simp] theorem fsetT_started (s : FState) (t : Tid) (th : Thread) : (setT s t th).started = s.started := rfl
@[simp] theorem fsetT_done (s : FState) (t : Tid) (th : Thread) : (setT s t th).done = s.done := rfl
@[simp] theorem fsetT_registered (s : FState) (t : Tid) (th : Thread) : (setT s t th).registered = s.registered := rfl
@[simp] theorem fsetT_confDone (s : FState) (t : Tid) (th : Thread) : (setT s t th).confDone = s.confDone := rfl
@[simp] theorem fsetT_loads (s : FState) (t : Tid) (th : Thread) : (setT s t th).loads = s.loads := rfl
@[simp] theorem fsetT_cache (s : FState) (t : Tid) (th : Thread) : (setT s t th).cache = s.cache := rfl

@[simp] theorem finishOp_stack (th : Thread) (r : Res) : (finishOp th r).stack = th.stack := rfl
@[simp] theorem finishOp_pending (th : Thread) (r : Res) : (finishOp th r).pending = th.pending := rfl
@[simp] theorem fpopFrame_stack (s : FState) (th : Thread) (m : Mod) (fs : List Frame) :
    (popFrame s th m fs).stack = fs := by cases fs <;> rfl
@[simp] theorem fpopFrame_pending (s : FState) (th : Thread) (m : Mod) (fs : List Frame) :
    (popFrame s th m fs).pending = th.pending := by cases fs <;> rfl

theorem FStep.others {cfg : FCfg} {s s' : FState} {t : Tid} (h : FStep cfg s t s') (u : Tid) (hu : u ≠ t) :
    s'.threads u = s.threads u := by
  cases h <;> exact fsetT_other _ _ _ _ hu

/-! ### importlib's module locks: depth = nesting, one owner -/

def mheld (st : List Frame) (m : Mod) : Nat := st.countP (fun f => f.holdsMod == some m)

def shapeOk : List Frame → Bool
  | [] => true
  | _ :: rest => rest.all Frame.isBody

structure MInv (s : FState) : Prop where
  depth : ∀ t m, mheld (Th s t).stack m = depthOf (s.mlock m) t
  shape : ∀ t, shapeOk (Th s t).stack = true

theorem mheld_pos {st : List Frame} {f : Frame} {m : Mod} (hf : f ∈ st) (hm : f.holdsMod = some m) :
    0 < mheld st m := by
  unfold mheld
  rw [List.countP_pos_iff]
  exact ⟨f, hf, by simp [hm]⟩

theorem MInv.mutex {s : FState} (h : MInv s) {t u : Tid} {m : Mod} (ht : 0 < mheld (Th s t).stack m)
    (hu : 0 < mheld (Th s u).stack m) : t = u := by
  rw [h.depth t m] at ht
  rw [h.depth u m] at hu
  unfold depthOf at ht hu
  cases hl : s.mlock m with
  | none => simp [hl] at ht
  | some p =>
    obtain ⟨o, d⟩ := p
    simp only [hl] at ht hu
    split at ht
    · split at hu
      · rename_i h1 h2; rw [← h1, ← h2]
      · omega
    · omega

theorem MInv.of_update {s s' : FState} {t : Tid} (h : MInv s)
    (hoth : ∀ u, u ≠ t → s'.threads u = s.threads u)
    (hdo : ∀ m u, u ≠ t → depthOf (s'.mlock m) u = depthOf (s.mlock m) u)
    (hdt : ∀ m, mheld (Th s' t).stack m = depthOf (s'.mlock m) t)
    (hsh : shapeOk (Th s' t).stack = true) : MInv s' := by
  constructor
  · intro u m
    by_cases hu : u = t
    · subst hu; exact hdt m
    · show mheld (s'.threads u).stack m = _
      rw [hoth u hu, hdo m u hu]; exact h.depth u m
  · intro u
    by_cases hu : u = t
    · subst hu; exact hsh
    · show shapeOk (s'.threads u).stack = true
      rw [hoth u hu]; exact h.shape u

theorem shape_top {f f' : Frame} {fs : List Frame} (h : shapeOk (f :: fs) = true) : shapeOk (f' :: fs) = true := h

theorem shape_pop {f : Frame} {fs : List Frame} (h : shapeOk (f :: fs) = true) : shapeOk fs = true := by
  cases fs with
  | nil => rfl
  | cons g rest =>
    simp only [shapeOk, List.all_cons, Bool.and_eq_true] at h
    exact h.2

theorem shape_push {b b' n : Frame} {fs : List Frame} (h : shapeOk (b :: fs) = true) (hb : b'.isBody = true) :
    shapeOk (n :: b' :: fs) = true := by
  simp only [shapeOk, List.all_cons, Bool.and_eq_true] at h ⊢
  exact ⟨hb, h⟩

theorem MInv.step {cfg : FCfg} {s s' : FState} {t : Tid} (h : MInv s) (hs : FStep cfg s t s') : MInv s' := by
  have hd := h.depth t
  have hw := h.shape t
  unfold mheld at hd
  -- steps that neither touch the module locks nor the set of lock-holding frames of `t`
  have same : ∀ (s1 : FState) (th : Thread), s1.threads = s.threads → s1.mlock = s.mlock →
      (∀ m, mheld th.stack m = mheld (Th s t).stack m) → shapeOk th.stack = true → MInv (setT s1 t th) := by
    intro s1 th e0 e1 e2 e3
    refine h.of_update (t := t) (fun u hu => by rw [fsetT_other _ _ _ _ hu, e0]) (fun m u _ => by simp [e1]) ?_
      (by simpa [Th] using e3)
    intro m
    simp only [Th, fsetT_same, fsetT_mlock, e1]
    rw [e2 m]; exact h.depth t m
  cases hs with
  | fillEarlyInc m n hp he hk => exact same _ _ rfl rfl (fun _ => rfl) hw
  | fillEarlyDone m n hp he hk => exact same _ _ rfl rfl (fun _ => rfl) hw
  | fillLocalInc m n hp he hk => exact same _ _ rfl rfl (fun _ => rfl) hw
  | fillLocalStore m n hp he hk => exact same _ _ rfl rfl (fun _ => rfl) hw
  | accessFast m rest hp hst ht hf hs => exact same _ _ rfl rfl (fun _ => rfl) hw
  | accessStart m rest hp hst ht hf =>
    exact same _ _ rfl rfl (fun m' => by simp [mheld, Th, hst, Frame.holdsMod]) (by simp [shapeOk])
  | lookupHit m rest hp hst ht hr hw' => exact same _ _ rfl rfl (fun _ => rfl) hw
  | lookupLoad m rest hp hst ht hw' =>
    exact same _ _ rfl rfl (fun m' => by simp [mheld, Th, hst, Frame.holdsMod]) (by simp [shapeOk])
  | genHit m rest n hp hst ht hc => exact same _ _ rfl rfl (fun _ => rfl) hw
  | genMissEarly m rest hp hst ht hc he => exact same _ _ rfl rfl (fun _ => rfl) hw
  | genMissLocal m rest hp hst ht hc he => exact same _ _ rfl rfl (fun _ => rfl) hw
  | acqP m fs lk hp hst ha =>
    exact same _ _ rfl rfl (fun m' => by simp [mheld, Th, hst, Frame.holdsMod, List.countP_cons]) (by rw [Th, hst] at hw; exact shape_top hw)
  | acqM m l fs ml hp hst ha =>
    obtain ⟨h1, h2⟩ := acquire_rlock ha
    rw [Th, hst] at hw
    refine h.of_update (fun u hu => fsetT_other _ _ _ _ hu) ?_ ?_ (by simpa using shape_top hw)
    · intro m' u hu
      simp only [fsetT_mlock]
      by_cases hm : m' = m
      · subst hm; simp only [if_true]; exact h2 u hu
      · simp [hm]
    · intro m'
      have := h.depth t m'
      simp only [Th, fsetT_same, fsetT_mlock] at this ⊢
      rw [hst] at this
      by_cases hm : m' = m
      · subst hm
        simp only [if_true, h1, ← this]
        simp [mheld, List.countP_cons, Frame.holdsMod, Frame.mod]
      · simp only [hm, if_false, ← this]
        have : ¬ m = m' := fun e => hm e.symm
        simp [mheld, List.countP_cons, Frame.holdsMod, Frame.mod, this]
  | testHit m l fs hp hst hstart =>
    exact same _ _ rfl rfl (fun m' => by simp [mheld, Th, hst, Frame.holdsMod, Frame.mod, List.countP_cons]) (by rw [Th, hst] at hw; exact shape_top hw)
  | testMiss m l fs hp hst hstart =>
    exact same _ _ rfl rfl (fun m' => by simp [mheld, Th, hst, Frame.holdsMod, Frame.mod, List.countP_cons]) (by rw [Th, hst] at hw; exact shape_top hw)
  | load m l fs hp hst =>
    exact same _ _ rfl rfl (fun m' => by simp [mheld, Th, hst, Frame.holdsMod, Frame.mod, List.countP_cons]) (by rw [Th, hst] at hw; exact shape_top hw)
  | nestLazy m l d rest fs hp hst =>
    exact same _ _ rfl rfl (fun m' => by simp [mheld, Th, hst, Frame.holdsMod, Frame.mod, List.countP_cons])
      (by rw [Th, hst] at hw; exact shape_push hw rfl)
  | nestDirect m l d rest fs hp hst =>
    exact same _ _ rfl rfl (fun m' => by simp [mheld, Th, hst, Frame.holdsMod, Frame.mod, List.countP_cons])
      (by rw [Th, hst] at hw; exact shape_push hw rfl)
  | bodyEnd m l fs hp hst =>
    exact same _ _ rfl rfl (fun m' => by simp [mheld, Th, hst, Frame.holdsMod, Frame.mod, List.countP_cons]) (by rw [Th, hst] at hw; exact shape_top hw)
  | confStep m l k fs hp hst =>
    exact same _ _ rfl rfl (fun m' => by simp [mheld, Th, hst, Frame.holdsMod, Frame.mod, List.countP_cons]) (by rw [Th, hst] at hw; exact shape_top hw)
  | confEnd m l fs hp hst =>
    exact same _ _ rfl rfl (fun m' => by simp [mheld, Th, hst, Frame.holdsMod, Frame.mod, List.countP_cons]) (by rw [Th, hst] at hw; exact shape_top hw)
  | fin m l fs hp hst =>
    exact same _ _ rfl rfl (fun m' => by simp [mheld, Th, hst, Frame.holdsMod, Frame.mod, List.countP_cons]) (by rw [Th, hst] at hw; exact shape_top hw)
  | leaveLock m fs ml lk hp hst hm hr =>
    obtain ⟨h1, h2⟩ := release_rlock hm
    rw [Th, hst] at hw
    refine h.of_update (fun u hu => fsetT_other _ _ _ _ hu) ?_ ?_ (by simpa using shape_pop hw)
    · intro m' u hu
      simp only [fsetT_mlock]
      by_cases hmm : m' = m
      · subst hmm; simp only [if_true]; exact h2 u hu
      · simp [hmm]
    · intro m'
      have := h.depth t m'
      simp only [Th, fsetT_same, fsetT_mlock, fpopFrame_stack] at this ⊢
      rw [hst] at this
      by_cases hmm : m' = m
      · subst hmm
        simp only [if_true, h1, ← this]
        simp [mheld, List.countP_cons, Frame.holdsMod, Frame.mod]
      · simp only [hmm, if_false, ← this]
        have : ¬ m = m' := fun e => hmm e.symm
        simp [mheld, List.countP_cons, Frame.holdsMod, Frame.mod, this]
  | leaveFree m fs ml hp hst hm =>
    obtain ⟨h1, h2⟩ := release_rlock hm
    rw [Th, hst] at hw
    refine h.of_update (fun u hu => fsetT_other _ _ _ _ hu) ?_ ?_ (by simpa using shape_pop hw)
    · intro m' u hu
      simp only [fsetT_mlock]
      by_cases hmm : m' = m
      · subst hmm; simp only [if_true]; exact h2 u hu
      · simp [hmm]
    · intro m'
      have := h.depth t m'
      simp only [Th, fsetT_same, fsetT_mlock, fpopFrame_stack] at this ⊢
      rw [hst] at this
      by_cases hmm : m' = m
      · subst hmm
        simp only [if_true, h1, ← this]
        simp [mheld, List.countP_cons, Frame.holdsMod, Frame.mod]
      · simp only [hmm, if_false, ← this]
        have : ¬ m = m' := fun e => hmm e.symm
        simp [mheld, List.countP_cons, Frame.holdsMod, Frame.mod, this]


/-! ### loading happens once (by the module lock alone) -/

structure FLoadInv (s : FState) : Prop where
  loads : ∀ m, s.loads m = if s.started m = true then 1 else 0
  loadTop : ∀ t m l fs, (Th s t).stack = .load m l :: fs → s.started m = false

theorem shape_tail_body {f g : Frame} {fs : List Frame} (h : shapeOk (f :: g :: fs) = true) : g.isBody = true := by
  simp only [shapeOk, List.all_cons, Bool.and_eq_true] at h
  exact h.1

theorem FLoadInv.step {cfg : FCfg} {s s' : FState} {t : Tid} (hM : MInv s) (h : FLoadInv s)
    (hs : FStep cfg s t s') : FLoadInv s' := by
  have hoth := hs.others
  have hw := hM.shape t
  by_cases hload : ∃ m l fs, (Th s t).stack = .load m l :: fs ∧
      s' = setT { s with started := fun x => if x = m then true else s.started x,
                         loads := fun x => if x = m then s.loads m + 1 else s.loads x } t
                { (Th s t) with stack := .body m l (cfg.body m) :: fs }
  · obtain ⟨m, l, fs, hst, rfl⟩ := hload
    have hm := h.loadTop t m l fs hst
    constructor
    · intro x
      by_cases hx : x = m
      · subst hx
        have := h.loads x
        simp [hm] at this
        simp [this]
      · simp [hx]; simpa using h.loads x
    · intro u m' l' fs' hu
      by_cases hut : u = t
      · subst hut; simp [Th] at hu
      · simp only [Th] at hu
        rw [fsetT_other _ _ _ _ hut] at hu
        have hu' : (s.threads u).stack = .load m' l' :: fs' := hu
        by_cases hx : m' = m
        · subst hx
          have h1 : 0 < mheld (Th s u).stack m' := mheld_pos (f := .load m' l') (by simp [Th, hu']) rfl
          have h2 : 0 < mheld (Th s t).stack m' := mheld_pos (f := .load m' l) (by simp [hst]) rfl
          exact absurd (hM.mutex h1 h2) hut
        · simp [hx]; exact h.loadTop u m' l' fs' hu'
  · have hsame : s'.started = s.started ∧ s'.loads = s.loads := by
      cases hs <;> first | exact ⟨rfl, rfl⟩ | (exfalso; exact hload ⟨_, _, _, ‹_›, rfl⟩)
    constructor
    · intro x; rw [hsame.1, hsame.2]; exact h.loads x
    · intro u m' l' fs' hu
      rw [hsame.1]
      by_cases hut : u = t
      · subst hut
        simp only [Th] at hu
        cases hs with
        | fillEarlyInc m n hp he hk => exact h.loadTop u m' l' fs' (by simpa using hu)
        | fillEarlyDone m n hp he hk => exact h.loadTop u m' l' fs' (by simpa using hu)
        | fillLocalInc m n hp he hk => exact h.loadTop u m' l' fs' (by simpa using hu)
        | fillLocalStore m n hp he hk => exact h.loadTop u m' l' fs' (by simpa using hu)
        | accessFast m rest hp hst ht hf hs => exact h.loadTop u m' l' fs' (by simpa using hu)
        | accessStart m rest hp hst ht hf => simp at hu
        | lookupHit m rest hp hst ht hr hw' => exact h.loadTop u m' l' fs' (by simpa using hu)
        | lookupLoad m rest hp hst ht hw' => simp at hu
        | genHit m rest n hp hst ht hc => exact h.loadTop u m' l' fs' (by simpa using hu)
        | genMissEarly m rest hp hst ht hc he => exact h.loadTop u m' l' fs' (by simpa using hu)
        | genMissLocal m rest hp hst ht hc he => exact h.loadTop u m' l' fs' (by simpa using hu)
        | acqP m fs lk hp hst ha => simp at hu
        | acqM m l fs ml hp hst ha => simp at hu
        | testHit m l fs hp hst hstart => simp at hu
        | testMiss m l fs hp hst hstart => simp at hu; obtain ⟨⟨rfl, rfl⟩, rfl⟩ := hu; exact hstart
        | load m l fs hp hst => exact absurd ⟨m, l, fs, hst, rfl⟩ hload
        | nestLazy m l d rest fs hp hst => simp at hu
        | nestDirect m l d rest fs hp hst => simp at hu
        | bodyEnd m l fs hp hst => simp at hu
        | confStep m l k fs hp hst => simp at hu
        | confEnd m l fs hp hst => simp at hu
        | fin m l fs hp hst => simp at hu
        | leaveLock m fs ml lk hp hst hm hr =>
          simp at hu; subst hu; rw [Th, hst] at hw; have := shape_tail_body hw; simp [Frame.isBody] at this
        | leaveFree m fs ml hp hst hm =>
          simp at hu; subst hu; rw [Th, hst] at hw; have := shape_tail_body hw; simp [Frame.isBody] at this
      · simp only [Th] at hu
        rw [hoth u hut] at hu
        exact h.loadTop u m' l' fs' hu

/-! ### module / class life cycle flags -/

def hasProg (st : List Frame) (m : Mod) : Prop := ∃ f ∈ st, f.inProgress = some m

def Frame.after : Frame → Bool
  | .body _ _ _ => true
  | .conf _ _ _ => true
  | .fin _ _ => true
  | .leave _ _ => true
  | _ => false

/-- a frame past the test belongs to a module that is in sys.modules; the class of a `fin` frame is configured -/
@[reducible] def frameOk (s : FState) (f : Frame) : Prop :=
  (f.after = true → s.started f.mod = true) ∧ (∀ m l, f = Frame.fin m l → s.confDone m = true)

structure FlagInv (cfg : FCfg) (s : FState) : Prop where
  prog : ∀ m, s.started m = true → s.done m = true ∨ ∃ t, hasProg (Th s t).stack m
  fr : ∀ t f, f ∈ (Th s t).stack → frameOk s f
  d2c : ∀ m, s.done m = true → s.confDone m = true
  c2r : ∀ m, s.confDone m = true → s.registered m = true
  r2s : ∀ m, s.registered m = true → s.started m = true
  regLast : cfg.registerFirst = false → ∀ m, s.registered m = true → s.confDone m = true

theorem FStep.started_mono {cfg : FCfg} {s s' : FState} {t : Tid} (hs : FStep cfg s t s') (x : Mod)
    (h : s.started x = true) : s'.started x = true := by
  cases hs <;> first | exact h | (simp; exact Or.inr h)

theorem FStep.done_mono {cfg : FCfg} {s s' : FState} {t : Tid} (hs : FStep cfg s t s') (x : Mod)
    (h : s.done x = true) : s'.done x = true := by
  cases hs <;> first | exact h | (simp; exact Or.inr h)

theorem FStep.confDone_mono {cfg : FCfg} {s s' : FState} {t : Tid} (hs : FStep cfg s t s') (x : Mod)
    (h : s.confDone x = true) : s'.confDone x = true := by
  cases hs <;> first | exact h | (simp; exact Or.inr h)

theorem FStep.registered_mono {cfg : FCfg} {s s' : FState} {t : Tid} (hs : FStep cfg s t s') (x : Mod)
    (h : s.registered x = true) : s'.registered x = true := by
  cases hs <;> first
    | exact h
    | (simp; exact Or.inr h)
    | (simp only [fsetT_registered]; split <;> simp_all)

theorem hasProg_cons {f : Frame} {fs : List Frame} {m : Mod} :
    hasProg (f :: fs) m ↔ f.inProgress = some m ∨ hasProg fs m := by
  simp [hasProg]

theorem FStep.prog_or_done {cfg : FCfg} {s s' : FState} {t : Tid} (hs : FStep cfg s t s') (u : Tid) (x : Mod)
    (hb : hasProg (Th s u).stack x) : hasProg (Th s' u).stack x ∨ s'.done x = true := by
  by_cases hut : u = t
  · subst hut
    simp only [Th] at hb ⊢
    cases hs with
    | fillEarlyInc m n hp he hk => left; simpa using hb
    | fillEarlyDone m n hp he hk => left; simpa using hb
    | fillLocalInc m n hp he hk => left; simpa using hb
    | fillLocalStore m n hp he hk => left; simpa using hb
    | accessFast m rest hp hst ht hf hs => left; simpa using hb
    | accessStart m rest hp hst ht hf => simp [Th] at hst; simp [hst, hasProg] at hb
    | lookupHit m rest hp hst ht hr hw' => left; simpa using hb
    | lookupLoad m rest hp hst ht hw' => simp [Th] at hst; simp [hst, hasProg] at hb
    | genHit m rest n hp hst ht hc => left; simpa using hb
    | genMissEarly m rest hp hst ht hc he => left; simpa using hb
    | genMissLocal m rest hp hst ht hc he => left; simpa using hb
    | acqP m fs lk hp hst ha =>
      simp only [Th] at hst; rw [hst, hasProg_cons] at hb; left
      simp only [fsetT_same]; rw [hasProg_cons]; simpa [Frame.inProgress] using hb
    | acqM m l fs ml hp hst ha =>
      simp only [Th] at hst; rw [hst, hasProg_cons] at hb; left
      simp only [fsetT_same]; rw [hasProg_cons]; simpa [Frame.inProgress] using hb
    | testHit m l fs hp hst hstart =>
      simp only [Th] at hst; rw [hst, hasProg_cons] at hb; left
      simp only [fsetT_same]; rw [hasProg_cons]; simpa [Frame.inProgress] using hb
    | testMiss m l fs hp hst hstart =>
      simp only [Th] at hst; rw [hst, hasProg_cons] at hb; left
      simp only [fsetT_same]; rw [hasProg_cons]; simpa [Frame.inProgress] using hb
    | load m l fs hp hst =>
      simp only [Th] at hst; rw [hst, hasProg_cons] at hb; left
      simp only [fsetT_same]; rw [hasProg_cons]; right; simpa [Frame.inProgress] using hb
    | nestLazy m l d rest fs hp hst =>
      simp only [Th] at hst; rw [hst, hasProg_cons] at hb; left
      simp only [fsetT_same]; rw [hasProg_cons, hasProg_cons]; right; simpa [Frame.inProgress] using hb
    | nestDirect m l d rest fs hp hst =>
      simp only [Th] at hst; rw [hst, hasProg_cons] at hb; left
      simp only [fsetT_same]; rw [hasProg_cons, hasProg_cons]; right; simpa [Frame.inProgress] using hb
    | bodyEnd m l fs hp hst =>
      simp only [Th] at hst; rw [hst, hasProg_cons] at hb; left
      simp only [fsetT_same]; rw [hasProg_cons]; simpa [Frame.inProgress] using hb
    | confStep m l k fs hp hst =>
      simp only [Th] at hst; rw [hst, hasProg_cons] at hb; left
      simp only [fsetT_same]; rw [hasProg_cons]; simpa [Frame.inProgress] using hb
    | confEnd m l fs hp hst =>
      simp only [Th] at hst; rw [hst, hasProg_cons] at hb; left
      simp only [fsetT_same]; rw [hasProg_cons]; simpa [Frame.inProgress] using hb
    | fin m l fs hp hst =>
      simp only [Th] at hst; rw [hst, hasProg_cons] at hb
      rcases hb with hb | hb
      · right; simp [Frame.inProgress] at hb; subst hb; simp
      · left; simp only [fsetT_same]; rw [hasProg_cons]; exact Or.inr hb
    | leaveLock m fs ml lk hp hst hm hr =>
      simp only [Th] at hst; rw [hst, hasProg_cons] at hb; left
      simpa [Frame.inProgress] using hb
    | leaveFree m fs ml hp hst hm =>
      simp only [Th] at hst; rw [hst, hasProg_cons] at hb; left
      simpa [Frame.inProgress] using hb
  · left; simp only [Th]; rw [hs.others u hut]; exact hb

theorem FStep.started_new {cfg : FCfg} {s s' : FState} {t : Tid} (hs : FStep cfg s t s') (x : Mod)
    (h : s'.started x = true) : s.started x = true ∨ hasProg (Th s' t).stack x := by
  cases hs <;> first
    | exact Or.inl h
    | (simp at h
       rcases h with h | h
       · right; subst h; simp only [Th, fsetT_same]; rw [hasProg_cons]; exact Or.inl rfl
       · exact Or.inl h)


theorem FStep.frameOk_mono {cfg : FCfg} {s s' : FState} {t : Tid} (hs : FStep cfg s t s') {f : Frame}
    (h : frameOk s f) : frameOk s' f :=
  ⟨fun ha => hs.started_mono _ (h.1 ha), fun m l e => hs.confDone_mono _ (h.2 m l e)⟩

theorem frameOk_noafter {s : FState} {f : Frame} (h1 : f.after = false) (h2 : ∀ m l, f ≠ Frame.fin m l) : frameOk s f :=
  ⟨fun ha => (by rw [h1] at ha; cases ha), fun m l e => absurd e (h2 m l)⟩

theorem FlagInv.step {cfg : FCfg} {s s' : FState} {t : Tid} (h : FlagInv cfg s) (hs : FStep cfg s t s') :
    FlagInv cfg s' := by
  have hfrt := h.fr t
  refine ⟨?_, ?_, ?_, ?_, ?_, ?_⟩
  · -- prog
    intro x hx
    rcases hs.started_new x hx with h0 | h0
    · rcases h.prog x h0 with h1 | ⟨u, h1⟩
      · exact Or.inl (hs.done_mono x h1)
      · rcases hs.prog_or_done u x h1 with h2 | h2
        · exact Or.inr ⟨u, h2⟩
        · exact Or.inl h2
    · exact Or.inr ⟨t, h0⟩
  · -- frames
    intro u f hf
    by_cases hut : u = t
    · subst hut
      have old : ∀ g, g ∈ (Th s u).stack → frameOk s' g := fun g hg => hs.frameOk_mono (hfrt g hg)
      simp only [Th] at hf old
      cases hs with
      | fillEarlyInc m n hp he hk => exact old f (by simpa using hf)
      | fillEarlyDone m n hp he hk => exact old f (by simpa using hf)
      | fillLocalInc m n hp he hk => exact old f (by simpa using hf)
      | fillLocalStore m n hp he hk => exact old f (by simpa using hf)
      | accessFast m rest hp hst ht hf' hs => exact old f (by simpa using hf)
      | accessStart m rest hp hst ht hf' =>
        simp at hf; subst hf; exact frameOk_noafter rfl (fun _ _ e => by cases e)
      | lookupHit m rest hp hst ht hr hw' => exact old f (by simpa using hf)
      | lookupLoad m rest hp hst ht hw' =>
        simp at hf; subst hf; exact frameOk_noafter rfl (fun _ _ e => by cases e)
      | genHit m rest n hp hst ht hc => exact old f (by simpa using hf)
      | genMissEarly m rest hp hst ht hc he => exact old f (by simpa using hf)
      | genMissLocal m rest hp hst ht hc he => exact old f (by simpa using hf)
      | acqP m fs lk hp hst ha =>
        simp only [Th] at hst
        simp only [fsetT_same, List.mem_cons] at hf
        rcases hf with hf | hf
        · subst hf; exact frameOk_noafter rfl (fun _ _ e => by cases e)
        · exact old f (by rw [hst]; exact List.mem_cons_of_mem _ hf)
      | acqM m l fs ml hp hst ha =>
        simp only [Th] at hst
        simp only [fsetT_same, List.mem_cons] at hf
        rcases hf with hf | hf
        · subst hf; exact frameOk_noafter rfl (fun _ _ e => by cases e)
        · exact old f (by rw [hst]; exact List.mem_cons_of_mem _ hf)
      | testHit m l fs hp hst hstart =>
        simp only [Th] at hst
        simp only [fsetT_same, List.mem_cons] at hf
        rcases hf with hf | hf
        · subst hf; exact ⟨fun _ => hstart, fun _ _ e => by cases e⟩
        · exact old f (by rw [hst]; exact List.mem_cons_of_mem _ hf)
      | testMiss m l fs hp hst hstart =>
        simp only [Th] at hst
        simp only [fsetT_same, List.mem_cons] at hf
        rcases hf with hf | hf
        · subst hf; exact frameOk_noafter rfl (fun _ _ e => by cases e)
        · exact old f (by rw [hst]; exact List.mem_cons_of_mem _ hf)
      | load m l fs hp hst =>
        simp only [Th] at hst
        simp only [fsetT_same, List.mem_cons] at hf
        rcases hf with hf | hf
        · subst hf; exact ⟨fun _ => by simp [Frame.mod], fun _ _ e => by cases e⟩
        · exact old f (by rw [hst]; exact List.mem_cons_of_mem _ hf)
      | nestLazy m l d rest fs hp hst =>
        simp only [Th] at hst
        simp only [fsetT_same, List.mem_cons] at hf
        rcases hf with hf | hf | hf
        · subst hf; exact frameOk_noafter rfl (fun _ _ e => by cases e)
        · subst hf
          have := old (.body m l (.lazy d :: rest)) (by rw [hst]; exact List.mem_cons_self)
          exact ⟨fun _ => this.1 rfl, fun _ _ e => by cases e⟩
        · exact old f (by rw [hst]; exact List.mem_cons_of_mem _ hf)
      | nestDirect m l d rest fs hp hst =>
        simp only [Th] at hst
        simp only [fsetT_same, List.mem_cons] at hf
        rcases hf with hf | hf | hf
        · subst hf; exact frameOk_noafter rfl (fun _ _ e => by cases e)
        · subst hf
          have := old (.body m l (.direct d :: rest)) (by rw [hst]; exact List.mem_cons_self)
          exact ⟨fun _ => this.1 rfl, fun _ _ e => by cases e⟩
        · exact old f (by rw [hst]; exact List.mem_cons_of_mem _ hf)
      | bodyEnd m l fs hp hst =>
        simp only [Th] at hst
        simp only [fsetT_same, List.mem_cons] at hf
        rcases hf with hf | hf
        · subst hf
          have := old (.body m l []) (by rw [hst]; exact List.mem_cons_self)
          exact ⟨fun _ => this.1 rfl, fun _ _ e => by cases e⟩
        · exact old f (by rw [hst]; exact List.mem_cons_of_mem _ hf)
      | confStep m l k fs hp hst =>
        simp only [Th] at hst
        simp only [fsetT_same, List.mem_cons] at hf
        rcases hf with hf | hf
        · subst hf
          have := old (.conf m l (k + 1)) (by rw [hst]; exact List.mem_cons_self)
          exact ⟨fun _ => this.1 rfl, fun _ _ e => by cases e⟩
        · exact old f (by rw [hst]; exact List.mem_cons_of_mem _ hf)
      | confEnd m l fs hp hst =>
        simp only [Th] at hst
        simp only [fsetT_same, List.mem_cons] at hf
        rcases hf with hf | hf
        · subst hf
          have := old (.conf m l 0) (by rw [hst]; exact List.mem_cons_self)
          refine ⟨fun _ => this.1 rfl, fun m' l' e => ?_⟩
          injection e with e1 e2; subst e1; simp
        · exact old f (by rw [hst]; exact List.mem_cons_of_mem _ hf)
      | fin m l fs hp hst =>
        simp only [Th] at hst
        simp only [fsetT_same, List.mem_cons] at hf
        rcases hf with hf | hf
        · subst hf
          have := old (.fin m l) (by rw [hst]; exact List.mem_cons_self)
          exact ⟨fun _ => this.1 rfl, fun _ _ e => by cases e⟩
        · exact old f (by rw [hst]; exact List.mem_cons_of_mem _ hf)
      | leaveLock m fs ml lk hp hst hm hr =>
        simp only [Th] at hst
        simp only [fsetT_same, fpopFrame_stack] at hf
        exact old f (by rw [hst]; exact List.mem_cons_of_mem _ hf)
      | leaveFree m fs ml hp hst hm =>
        simp only [Th] at hst
        simp only [fsetT_same, fpopFrame_stack] at hf
        exact old f (by rw [hst]; exact List.mem_cons_of_mem _ hf)
    · simp only [Th] at hf
      rw [hs.others u hut] at hf
      exact hs.frameOk_mono (h.fr u f hf)
  · -- done → confDone
    intro x hx
    cases hs <;> first
      | exact h.d2c x hx
      | (rename_i m l fs hp hst
         simp at hx
         rcases hx with hx | hx
         · subst hx
           exact (hfrt (.fin x l) (by simp only [Th] at hst ⊢; rw [hst]; exact List.mem_cons_self)).2 x l rfl
         · exact h.d2c x hx)
      | (simp; exact Or.inr (h.d2c x hx))
  · -- confDone → registered
    intro x hx
    cases hs with
    | bodyEnd m l fs hp hst =>
      simp only [fsetT_registered, fsetT_confDone] at hx ⊢
      by_cases hxm : x = m
      · subst hxm; simp [h.c2r x hx]
      · simp [hxm]; exact h.c2r x hx
    | confEnd m l fs hp hst =>
      simp only [fsetT_registered, fsetT_confDone] at hx ⊢
      by_cases hxm : x = m
      · subst hxm; simp
      · simp [hxm] at hx ⊢; exact h.c2r x hx
    | _ => exact h.c2r x hx
  · -- registered → started
    intro x hx
    cases hs with
    | load m l fs hp hst => simp; exact Or.inr (h.r2s x hx)
    | bodyEnd m l fs hp hst =>
      simp only [fsetT_registered, fsetT_started] at hx ⊢
      by_cases hxm : x = m
      · subst hxm
        exact (hfrt (.body x l []) (by simp only [Th] at hst ⊢; rw [hst]; exact List.mem_cons_self)).1 rfl
      · simp [hxm] at hx; exact h.r2s x hx
    | confEnd m l fs hp hst =>
      simp only [fsetT_registered, fsetT_started] at hx ⊢
      by_cases hxm : x = m
      · subst hxm
        exact (hfrt (.conf x l 0) (by simp only [Th] at hst ⊢; rw [hst]; exact List.mem_cons_self)).1 rfl
      · simp [hxm] at hx; exact h.r2s x hx
    | _ => exact h.r2s x hx
  · -- registered → confDone when the store comes last
    intro hrf x hx
    cases hs with
    | bodyEnd m l fs hp hst =>
      simp only [fsetT_registered, fsetT_confDone] at hx ⊢
      by_cases hxm : x = m
      · subst hxm; simp [hrf] at hx; exact h.regLast hrf x hx
      · simp [hxm] at hx; exact h.regLast hrf x hx
    | confEnd m l fs hp hst =>
      simp only [fsetT_registered, fsetT_confDone] at hx ⊢
      by_cases hxm : x = m
      · subst hxm; simp
      · simp [hxm] at hx ⊢; exact h.regLast hrf x hx
    | _ => exact h.regLast hrf x hx


/-! ### results -/

def botMod : List Frame → Option Mod
  | [] => none
  | [f] => some f.mod
  | _ :: g :: rest => botMod (g :: rest)

theorem botMod_top {f f' : Frame} (fs : List Frame) (h : f'.mod = f.mod) : botMod (f' :: fs) = botMod (f :: fs) := by
  cases fs with
  | nil => simp [botMod, h]
  | cons g rest => simp [botMod]

structure FResInv (cfg : FCfg) (s : FState) : Prop where
  cacheOk : cfg.publishEarly = false → ∀ m n, s.cache m = some n → n = cfg.tableSize m
  pendLe : cfg.publishEarly = false → ∀ t m n, (Th s t).pending = some (m, n) → n ≤ cfg.tableSize m
  bottom : ∀ t m, botMod (Th s t).stack = some m →
    ∃ rest, (Th s t).todo = .access m :: rest ∨ (Th s t).todo = .lookup m :: rest
  pend : ∀ t m n, (Th s t).pending = some (m, n) → ∃ rest, (Th s t).todo = .gen m :: rest

theorem FResInv.step {cfg : FCfg} {s s' : FState} {t : Tid} (h : FResInv cfg s) (hs : FStep cfg s t s') :
    FResInv cfg s' := by
  have hbt := h.bottom t
  have hpt := h.pend t
  refine ⟨?_, ?_, ?_, ?_⟩
  · intro hpe x v hx
    have hc := h.cacheOk hpe
    cases hs with
    | fillEarlyInc m n hp he hk => rw [hpe] at he; cases he
    | genMissEarly m rest hp hst ht hc' he => rw [hpe] at he; cases he
    | fillLocalStore m n hp he hk =>
      simp only [fsetT_cache] at hx
      split at hx
      · rename_i e; subst e
        simp at hx; subst hx
        have := h.pendLe hpe t x n hp
        omega
      · exact hc x v hx
    | _ => exact hc x v hx
  · intro hpe u x v hx
    have hl := h.pendLe hpe
    by_cases hut : u = t
    · subst hut
      simp only [Th] at hx
      cases hs with
      | fillEarlyInc m n hp he hk => rw [hpe] at he; cases he
      | fillEarlyDone m n hp he hk => simp at hx
      | fillLocalInc m n hp he hk =>
        simp at hx; obtain ⟨rfl, rfl⟩ := hx; omega
      | fillLocalStore m n hp he hk => simp at hx
      | genMissEarly m rest hp hst ht hc he => rw [hpe] at he; cases he
      | genMissLocal m rest hp hst ht hc he => simp at hx; obtain ⟨rfl, rfl⟩ := hx; omega
      | accessFast m rest hp hst ht hf hs => simp [Th] at hp; simp [hp] at hx
      | accessStart m rest hp hst ht hf => simp [Th] at hp; simp [hp] at hx
      | lookupHit m rest hp hst ht hr hw' => simp [Th] at hp; simp [hp] at hx
      | lookupLoad m rest hp hst ht hw' => simp [Th] at hp; simp [hp] at hx
      | genHit m rest n hp hst ht hc => simp [Th] at hp; simp [hp] at hx
      | acqP m fs lk hp hst ha => simp [Th] at hp; simp [hp] at hx
      | acqM m l fs ml hp hst ha => simp [Th] at hp; simp [hp] at hx
      | testHit m l fs hp hst hstart => simp [Th] at hp; simp [hp] at hx
      | testMiss m l fs hp hst hstart => simp [Th] at hp; simp [hp] at hx
      | load m l fs hp hst => simp [Th] at hp; simp [hp] at hx
      | nestLazy m l d rest fs hp hst => simp [Th] at hp; simp [hp] at hx
      | nestDirect m l d rest fs hp hst => simp [Th] at hp; simp [hp] at hx
      | bodyEnd m l fs hp hst => simp [Th] at hp; simp [hp] at hx
      | confStep m l k fs hp hst => simp [Th] at hp; simp [hp] at hx
      | confEnd m l fs hp hst => simp [Th] at hp; simp [hp] at hx
      | fin m l fs hp hst => simp [Th] at hp; simp [hp] at hx
      | leaveLock m fs ml lk hp hst hm hr => simp [Th] at hp; simp [hp] at hx
      | leaveFree m fs ml hp hst hm => simp [Th] at hp; simp [hp] at hx
    · simp only [Th] at hx
      rw [hs.others u hut] at hx
      exact hl u x v hx
  · intro u x hx
    by_cases hut : u = t
    · subst hut
      simp only [Th] at hx hbt hpt ⊢
      cases hs with
      | fillEarlyInc m n hp he hk => simp only [fsetT_same] at hx ⊢; exact hbt x hx
      | fillEarlyDone m n hp he hk =>
        obtain ⟨r1, h1⟩ := hbt x (by simpa using hx)
        obtain ⟨r2, h2⟩ := hpt m n hp
        rcases h1 with h1 | h1 <;> (rw [h1] at h2; simp at h2)
      | fillLocalInc m n hp he hk => simp only [fsetT_same] at hx ⊢; exact hbt x hx
      | fillLocalStore m n hp he hk =>
        obtain ⟨r1, h1⟩ := hbt x (by simpa using hx)
        obtain ⟨r2, h2⟩ := hpt m n hp
        rcases h1 with h1 | h1 <;> (rw [h1] at h2; simp at h2)
      | accessFast m rest hp hst ht hf hs => simp [Th] at hst; simp [hst, botMod] at hx
      | accessStart m rest hp hst ht hf =>
        simp [botMod, Frame.mod] at hx; subst hx; exact ⟨rest, Or.inl (by simpa [Th] using ht)⟩
      | lookupHit m rest hp hst ht hr hw' => simp [Th] at hst; simp [hst, botMod] at hx
      | lookupLoad m rest hp hst ht hw' =>
        simp [botMod, Frame.mod] at hx; subst hx; exact ⟨rest, Or.inr (by simpa [Th] using ht)⟩
      | genHit m rest n hp hst ht hc => simp [Th] at hst; simp [hst, botMod] at hx
      | genMissEarly m rest hp hst ht hc he => simp [Th] at hst; simp [hst, botMod] at hx
      | genMissLocal m rest hp hst ht hc he => simp [Th] at hst; simp [hst, botMod] at hx
      | acqP m fs lk hp hst ha =>
        simp only [Th] at hst; simp only [fsetT_same] at hx ⊢
        have e : botMod (Frame.wantM m true :: fs) = botMod (Frame.wantP m :: fs) := botMod_top fs rfl
        rw [e, ← hst] at hx; exact hbt x hx
      | acqM m l fs ml hp hst ha =>
        simp only [Th] at hst; simp only [fsetT_same] at hx ⊢
        have e : botMod (Frame.test m l :: fs) = botMod (Frame.wantM m l :: fs) := botMod_top fs rfl
        rw [e, ← hst] at hx; exact hbt x hx
      | testHit m l fs hp hst hstart =>
        simp only [Th] at hst; simp only [fsetT_same] at hx ⊢
        have e : botMod (Frame.leave m l :: fs) = botMod (Frame.test m l :: fs) := botMod_top fs rfl
        rw [e, ← hst] at hx; exact hbt x hx
      | testMiss m l fs hp hst hstart =>
        simp only [Th] at hst; simp only [fsetT_same] at hx ⊢
        have e : botMod (Frame.load m l :: fs) = botMod (Frame.test m l :: fs) := botMod_top fs rfl
        rw [e, ← hst] at hx; exact hbt x hx
      | load m l fs hp hst =>
        simp only [Th] at hst; simp only [fsetT_same] at hx ⊢
        have e : botMod (Frame.body m l (cfg.body m) :: fs) = botMod (Frame.load m l :: fs) := botMod_top fs rfl
        rw [e, ← hst] at hx; exact hbt x hx
      | nestLazy m l d rest fs hp hst =>
        simp only [Th] at hst; simp only [fsetT_same, botMod] at hx ⊢
        have e : botMod (Frame.body m l rest :: fs) = botMod (Frame.body m l (.lazy d :: rest) :: fs) := botMod_top fs rfl
        rw [e, ← hst] at hx; exact hbt x hx
      | nestDirect m l d rest fs hp hst =>
        simp only [Th] at hst; simp only [fsetT_same, botMod] at hx ⊢
        have e : botMod (Frame.body m l rest :: fs) = botMod (Frame.body m l (.direct d :: rest) :: fs) := botMod_top fs rfl
        rw [e, ← hst] at hx; exact hbt x hx
      | bodyEnd m l fs hp hst =>
        simp only [Th] at hst; simp only [fsetT_same] at hx ⊢
        have e : botMod (Frame.conf m l (cfg.cfgSteps m) :: fs) = botMod (Frame.body m l [] :: fs) := botMod_top fs rfl
        rw [e, ← hst] at hx; exact hbt x hx
      | confStep m l k fs hp hst =>
        simp only [Th] at hst; simp only [fsetT_same] at hx ⊢
        have e : botMod (Frame.conf m l k :: fs) = botMod (Frame.conf m l (k + 1) :: fs) := botMod_top fs rfl
        rw [e, ← hst] at hx; exact hbt x hx
      | confEnd m l fs hp hst =>
        simp only [Th] at hst; simp only [fsetT_same] at hx ⊢
        have e : botMod (Frame.fin m l :: fs) = botMod (Frame.conf m l 0 :: fs) := botMod_top fs rfl
        rw [e, ← hst] at hx; exact hbt x hx
      | fin m l fs hp hst =>
        simp only [Th] at hst; simp only [fsetT_same] at hx ⊢
        have e : botMod (Frame.leave m l :: fs) = botMod (Frame.fin m l :: fs) := botMod_top fs rfl
        rw [e, ← hst] at hx; exact hbt x hx
      | leaveLock m fs ml lk hp hst hm hr =>
        simp only [Th] at hst; simp only [fsetT_same, fpopFrame_stack] at hx
        cases fs with
        | nil => simp [botMod] at hx
        | cons g rest =>
          simp only [fsetT_same, popFrame]
          exact hbt x (by rw [hst]; simpa [botMod] using hx)
      | leaveFree m fs ml hp hst hm =>
        simp only [Th] at hst; simp only [fsetT_same, fpopFrame_stack] at hx
        cases fs with
        | nil => simp [botMod] at hx
        | cons g rest =>
          simp only [fsetT_same, popFrame]
          exact hbt x (by rw [hst]; simpa [botMod] using hx)
    · simp only [Th] at hx ⊢
      rw [hs.others u hut] at hx ⊢
      exact h.bottom u x hx
  · intro u x v hx
    by_cases hut : u = t
    · subst hut
      simp only [Th] at hx hpt ⊢
      cases hs with
      | fillEarlyInc m n hp he hk => simp only [fsetT_same] at hx ⊢; exact hpt x v hx
      | fillEarlyDone m n hp he hk => simp at hx
      | fillLocalInc m n hp he hk =>
        simp at hx
        obtain ⟨e1, e2⟩ := hx
        subst e1
        simp only [fsetT_same]
        exact hpt m n hp
      | fillLocalStore m n hp he hk => simp at hx
      | genMissEarly m rest hp hst ht hc he =>
        simp at hx; obtain ⟨rfl, rfl⟩ := hx; exact ⟨rest, by simpa [Th] using ht⟩
      | genMissLocal m rest hp hst ht hc he =>
        simp at hx; obtain ⟨rfl, rfl⟩ := hx; exact ⟨rest, by simpa [Th] using ht⟩
      | accessFast m rest hp hst ht hf hs => simp [Th] at hp; simp [hp] at hx
      | accessStart m rest hp hst ht hf => simp [Th] at hp; simp [hp] at hx
      | lookupHit m rest hp hst ht hr hw' => simp [Th] at hp; simp [hp] at hx
      | lookupLoad m rest hp hst ht hw' => simp [Th] at hp; simp [hp] at hx
      | genHit m rest n hp hst ht hc => simp [Th] at hp; simp [hp] at hx
      | acqP m fs lk hp hst ha => simp [Th] at hp; simp [hp] at hx
      | acqM m l fs ml hp hst ha => simp [Th] at hp; simp [hp] at hx
      | testHit m l fs hp hst hstart => simp [Th] at hp; simp [hp] at hx
      | testMiss m l fs hp hst hstart => simp [Th] at hp; simp [hp] at hx
      | load m l fs hp hst => simp [Th] at hp; simp [hp] at hx
      | nestLazy m l d rest fs hp hst => simp [Th] at hp; simp [hp] at hx
      | nestDirect m l d rest fs hp hst => simp [Th] at hp; simp [hp] at hx
      | bodyEnd m l fs hp hst => simp [Th] at hp; simp [hp] at hx
      | confStep m l k fs hp hst => simp [Th] at hp; simp [hp] at hx
      | confEnd m l fs hp hst => simp [Th] at hp; simp [hp] at hx
      | fin m l fs hp hst => simp [Th] at hp; simp [hp] at hx
      | leaveLock m fs ml lk hp hst hm hr => simp [Th] at hp; simp [hp] at hx
      | leaveFree m fs ml hp hst hm => simp [Th] at hp; simp [hp] at hx
    · simp only [Th] at hx ⊢
      rw [hs.others u hut] at hx ⊢
      exact h.pend u x v hx


theorem holdsMod_of_inProgress {f : Frame} {m : Mod} (h : f.inProgress = some m) : f.holdsMod = some m := by
  cases f <;> simp_all [Frame.inProgress, Frame.holdsMod, Frame.mod]

/-- an import returns to its caller only after the module body has finished — whoever ran it -/
theorem done_of_leave_single {cfg : FCfg} {s : FState} {t : Tid} {m : Mod} {l : Bool} (hM : MInv s)
    (hF : FlagInv cfg s) (hst : (Th s t).stack = [.leave m l]) : s.done m = true := by
  have hstart : s.started m = true := (hF.fr t (.leave m l) (by simp [hst])).1 rfl
  rcases hF.prog m hstart with h | ⟨u, f, hf, hp⟩
  · exact h
  · have h1 : 0 < mheld (Th s u).stack m := mheld_pos hf (holdsMod_of_inProgress hp)
    have h2 : 0 < mheld (Th s t).stack m := mheld_pos (f := .leave m l) (by simp [hst]) rfl
    have := hM.mutex h1 h2
    subst this
    rw [hst] at hf
    simp at hf; subst hf
    simp [Frame.inProgress] at hp

/-- the source shape under which every call gives its sequential answer -/
structure Good (cfg : FCfg) : Prop where
  waits : cfg.lookupWaits = true
  noFast : cfg.fastPath = false
  noEarly : cfg.publishEarly = false

def ffinal (cfg : FCfg) (th : Thread) : List Res := th.results ++ th.todo.map (fexpected cfg)

theorem FStep.final_eq {cfg : FCfg} (hg : Good cfg) {s s' : FState} {t : Tid}
    (hM : MInv s) (hF : FlagInv cfg s) (hV : FResInv cfg s) (hs : FStep cfg s t s') (u : Tid) :
    ffinal cfg (Th s' u) = ffinal cfg (Th s u) := by
  by_cases hut : u = t
  · subst hut
    simp only [Th]
    cases hs with
    | fillEarlyInc m n hp he hk => rw [hg.noEarly] at he; cases he
    | fillEarlyDone m n hp he hk => rw [hg.noEarly] at he; cases he
    | fillLocalInc m n hp he hk => simp [ffinal]
    | fillLocalStore m n hp he hk =>
      obtain ⟨rest, hr⟩ := hV.pend u m n hp
      have := hV.pendLe hg.noEarly u m n hp
      have e : n = cfg.tableSize m := by omega
      simp only [Th] at hr
      simp [ffinal, finishOp, hr, fexpected, e]
    | accessFast m rest hp hst ht hf hs => rw [hg.noFast] at hf; cases hf
    | accessStart m rest hp hst ht hf => simp [ffinal]
    | lookupHit m rest hp hst ht hr hw =>
      have hnot : initializing s m = false := by simpa [hg.waits] using hw
      have hstart := hF.r2s m hr
      have hdone : s.done m = true := by simpa [initializing, hstart] using hnot
      have hconf := hF.d2c m hdone
      simp only [Th] at ht
      simp [ffinal, finishOp, ht, fexpected, hdone, hconf]
    | lookupLoad m rest hp hst ht hw => simp [ffinal]
    | genHit m rest n hp hst ht hc =>
      have := hV.cacheOk hg.noEarly m n hc
      simp only [Th] at ht
      simp [ffinal, finishOp, ht, fexpected, this]
    | genMissEarly m rest hp hst ht hc he => simp [ffinal]
    | genMissLocal m rest hp hst ht hc he => simp [ffinal]
    | acqP m fs lk hp hst ha => simp [ffinal]
    | acqM m l fs ml hp hst ha => simp [ffinal]
    | testHit m l fs hp hst hstart => simp [ffinal]
    | testMiss m l fs hp hst hstart => simp [ffinal]
    | load m l fs hp hst => simp [ffinal]
    | nestLazy m l d rest fs hp hst => simp [ffinal]
    | nestDirect m l d rest fs hp hst => simp [ffinal]
    | bodyEnd m l fs hp hst => simp [ffinal]
    | confStep m l k fs hp hst => simp [ffinal]
    | confEnd m l fs hp hst => simp [ffinal]
    | fin m l fs hp hst => simp [ffinal]
    | leaveLock m fs ml lk hp hst hm hr =>
      cases fs with
      | nil =>
        have hdone := done_of_leave_single hM hF hst
        have hconf := hF.d2c m hdone
        have hreg := hF.c2r m hconf
        obtain ⟨rest, hr⟩ := hV.bottom u m (by rw [hst]; rfl)
        simp only [Th] at hr
        rcases hr with hr | hr <;>
          simp [ffinal, popFrame, finishOp, opResult, hr, fexpected, hdone, hconf, hreg]
      | cons g rest => simp [ffinal, popFrame]
    | leaveFree m fs ml hp hst hm =>
      cases fs with
      | nil =>
        have hdone := done_of_leave_single hM hF hst
        have hconf := hF.d2c m hdone
        have hreg := hF.c2r m hconf
        obtain ⟨rest, hr⟩ := hV.bottom u m (by rw [hst]; rfl)
        simp only [Th] at hr
        rcases hr with hr | hr <;>
          simp [ffinal, popFrame, finishOp, opResult, hr, fexpected, hdone, hconf, hreg]
      | cons g rest => simp [ffinal, popFrame]
  · simp only [Th]; rw [hs.others u hut]

/-! ### what lookups hand out when only the store order is known (register last, no waiting) -/

def clsGood : Res → Prop
  | .cls _ f c _ => f = true → c = true
  | _ => True

def ResGood (s : FState) : Prop := ∀ t r, r ∈ (Th s t).results → clsGood r

theorem ResGood.step {cfg : FCfg} (hrl : cfg.registerFirst = false) {s s' : FState} {t : Tid}
    (hF : FlagInv cfg s) (h : ResGood s) (hs : FStep cfg s t s') : ResGood s' := by
  intro u r hr
  by_cases hut : u = t
  · subst hut
    have old := h u
    have hreg := hF.regLast hrl
    simp only [Th] at hr old
    cases hs with
    | fillEarlyInc m n hp he hk => exact old r (by simpa using hr)
    | fillEarlyDone m n hp he hk =>
      simp [finishOp] at hr; rcases hr with hr | hr
      · exact old r hr
      · subst hr; trivial
    | fillLocalInc m n hp he hk => exact old r (by simpa using hr)
    | fillLocalStore m n hp he hk =>
      simp [finishOp] at hr; rcases hr with hr | hr
      · exact old r hr
      · subst hr; trivial
    | accessFast m rest hp hst ht hf hs =>
      simp [finishOp] at hr; rcases hr with hr | hr
      · exact old r hr
      · subst hr; trivial
    | accessStart m rest hp hst ht hf => exact old r (by simpa using hr)
    | lookupHit m rest hp hst ht hr' hw =>
      simp [finishOp] at hr; rcases hr with hr | hr
      · exact old r hr
      · subst hr; exact fun _ => hreg m hr'
    | lookupLoad m rest hp hst ht hw => exact old r (by simpa using hr)
    | genHit m rest n hp hst ht hc =>
      simp [finishOp] at hr; rcases hr with hr | hr
      · exact old r hr
      · subst hr; trivial
    | genMissEarly m rest hp hst ht hc he => exact old r (by simpa using hr)
    | genMissLocal m rest hp hst ht hc he => exact old r (by simpa using hr)
    | acqP m fs lk hp hst ha => exact old r (by simpa using hr)
    | acqM m l fs ml hp hst ha => exact old r (by simpa using hr)
    | testHit m l fs hp hst hstart => exact old r (by simpa using hr)
    | testMiss m l fs hp hst hstart => exact old r (by simpa using hr)
    | load m l fs hp hst => exact old r (by simpa using hr)
    | nestLazy m l d rest fs hp hst => exact old r (by simpa using hr)
    | nestDirect m l d rest fs hp hst => exact old r (by simpa using hr)
    | bodyEnd m l fs hp hst => exact old r (by simpa using hr)
    | confStep m l k fs hp hst => exact old r (by simpa using hr)
    | confEnd m l fs hp hst => exact old r (by simpa using hr)
    | fin m l fs hp hst => exact old r (by simpa using hr)
    | leaveLock m fs ml lk hp hst hm hr' =>
      cases fs with
      | nil =>
        simp [popFrame, finishOp] at hr; rcases hr with hr | hr
        · exact old r hr
        · subst hr
          unfold opResult
          split
          · exact fun e => hreg m e
          · trivial
      | cons g rest => exact old r (by simpa [popFrame] using hr)
    | leaveFree m fs ml hp hst hm =>
      cases fs with
      | nil =>
        simp [popFrame, finishOp] at hr; rcases hr with hr | hr
        · exact old r hr
        · subst hr
          unfold opResult
          split
          · exact fun e => hreg m e
          · trivial
      | cons g rest => exact old r (by simpa [popFrame] using hr)
  · simp only [Th] at hr
    rw [hs.others u hut] at hr
    exact h u r hr

/-! ### all reachable states -/

structure FInv (cfg : FCfg) (s : FState) : Prop where
  m : MInv s
  load : FLoadInv s
  flag : FlagInv cfg s
  res : FResInv cfg s

theorem FInv.init (cfg : FCfg) (progs : Tid → List Op) : FInv cfg (finit progs) := by
  refine ⟨⟨?_, ?_⟩, ⟨?_, ?_⟩, ⟨?_, ?_, ?_, ?_, ?_, ?_⟩, ⟨?_, ?_, ?_, ?_⟩⟩ <;>
    simp [finit, Th, mheld, depthOf, shapeOk, botMod, hasProg]

theorem FInv.step {cfg : FCfg} {s s' : FState} {t : Tid} (h : FInv cfg s) (hs : FStep cfg s t s') : FInv cfg s' :=
  ⟨h.m.step hs, h.load.step h.m hs, h.flag.step hs, h.res.step hs⟩

inductive FReach (cfg : FCfg) (s0 : FState) : FState → Prop
  | init : FReach cfg s0 s0
  | next {s s' : FState} {t : Tid} : FReach cfg s0 s → fstep cfg s t = some s' → FReach cfg s0 s'

theorem FInv.reach {cfg : FCfg} {progs : Tid → List Op} {s : FState} (h : FReach cfg (finit progs) s) : FInv cfg s := by
  induction h with
  | init => exact FInv.init cfg progs
  | next _ hs ih => exact ih.step (fstep_sound hs)

theorem freach_frun {cfg : FCfg} {s0 s : FState} (h : FReach cfg s0 s) (sched : List Tid) :
    FReach cfg s0 (frun cfg s sched) := by
  induction sched generalizing s with
  | nil => exact h
  | cons t ts ih =>
    simp only [frun]
    split
    · rename_i s' hs; exact ih (.next h hs)
    · exact ih h

theorem ffinal_reach {cfg : FCfg} (hg : Good cfg) {progs : Tid → List Op} {s : FState}
    (h : FReach cfg (finit progs) s) (u : Tid) : ffinal cfg (Th s u) = fseq cfg (progs u) := by
  induction h with
  | init => simp [ffinal, finit, Th, fseq]
  | next hr hs ih =>
    have hI := FInv.reach hr
    rw [(fstep_sound hs).final_eq hg hI.m hI.flag hI.res u, ih]

theorem resGood_reach {cfg : FCfg} (hrl : cfg.registerFirst = false) {progs : Tid → List Op} {s : FState}
    (h : FReach cfg (finit progs) s) : ResGood s := by
  induction h with
  | init => intro t r hr; simp [finit, Th] at hr
  | next hr hs ih => exact ih.step hrl (FInv.reach hr).flag (fstep_sound hs)

theorem frun_others (cfg : FCfg) (u : Tid) : ∀ (sched : List Tid) (s : FState), u ∉ sched →
    (frun cfg s sched).threads u = s.threads u
  | [], _, _ => rfl
  | t :: ts, s, h => by
    simp only [List.mem_cons, not_or] at h
    simp only [frun]
    split
    · rename_i s' hs
      rw [frun_others cfg u ts s' h.2, (fstep_sound hs).others u h.1]
    · exact frun_others cfg u ts s h.2

end Full


/-! ## worker objects -/
namespace Workers

/-- a call in flight on a private worker has emitted exactly the names below its counter, and counter + bumps left is
    the size of the call at the head of `todo` -/
def runOk (th : WThread) : Prop :=
  match th.run with
  | none => True
  | some (r, c, e) => e = List.range c ∧ ∃ rest, th.todo = (r + c) :: rest

def wfinal (th : WThread) : List (List Nat) := th.results ++ th.todo.map List.range

structure WInv (progs : Tid → List Nat) (s : WState) : Prop where
  ok : ∀ t, runOk (s.threads t)
  fin : ∀ t, wfinal (s.threads t) = wseq (progs t)

theorem WInv.init (progs : Tid → List Nat) : WInv progs (winit progs) := by
  constructor <;> intro t <;> simp [winit, runOk, wfinal, wseq]

theorem WInv.step {cfg : WCfg} (hc : cfg.cached = false) {progs : Tid → List Nat} {s s' : WState} {t : Tid}
    (h : WInv progs s) (hs : wstep cfg s t = some s') : WInv progs s' := by
  have hok := h.ok t
  have hfin := h.fin t
  -- the step only touches thread t
  suffices hT : runOk (s'.threads t) ∧ wfinal (s'.threads t) = wfinal (s.threads t) ∧
      ∀ u, u ≠ t → s'.threads u = s.threads u by
    constructor
    · intro u
      by_cases hu : u = t
      · subst hu; exact hT.1
      · rw [hT.2.2 u hu]; exact h.ok u
    · intro u
      by_cases hu : u = t
      · subst hu; rw [hT.2.1]; exact hfin
      · rw [hT.2.2 u hu]; exact h.fin u
  unfold wstep at hs
  split at hs
  · rename_i r c e hrun
    simp only [Option.some.injEq] at hs
    subst hs
    unfold runOk at hok
    simp only [hrun] at hok
    obtain ⟨he, rest, htodo⟩ := hok
    unfold wstepRun
    cases r with
    | zero =>
      refine ⟨?_, ?_, fun u hu => by simp [wset, hu]⟩
      · simp [wset, runOk]
      · simp [wset, wfinal, htodo, he]
    | succ r' =>
      simp only [hc, Bool.false_eq_true, if_false]
      refine ⟨?_, ?_, fun u hu => by simp [wset, hu]⟩
      · simp only [wset, runOk, if_true]
        refine ⟨?_, rest, ?_⟩
        · rw [he, List.range_succ]
        · rw [htodo]; congr 1; omega
      · simp [wset, wfinal]
  · rename_i hrun
    split at hs
    · simp at hs
    · rename_i k rest htodo
      simp only [hc, Bool.false_eq_true, if_false, Option.some.injEq] at hs
      subst hs
      refine ⟨?_, ?_, fun u hu => by simp [wset, hu]⟩
      · simp [wset, runOk, htodo]
      · simp [wset, wfinal]

inductive WReach (cfg : WCfg) (s0 : WState) : WState → Prop
  | init : WReach cfg s0 s0
  | next {s s' : WState} {t : Tid} : WReach cfg s0 s → wstep cfg s t = some s' → WReach cfg s0 s'

theorem WInv.reach {cfg : WCfg} (hc : cfg.cached = false) {progs : Tid → List Nat} {s : WState}
    (h : WReach cfg (winit progs) s) : WInv progs s := by
  induction h with
  | init => exact WInv.init progs
  | next _ hs ih => exact ih.step hc hs

theorem wreach_wrun {cfg : WCfg} {s0 s : WState} (h : WReach cfg s0 s) (sched : List Tid) :
    WReach cfg s0 (wrun cfg s sched) := by
  induction sched generalizing s with
  | nil => exact h
  | cons t ts ih =>
    simp only [wrun]
    split
    · rename_i s' hs; exact ih (.next h hs)
    · exact ih h

end Workers


/-! ## class construction: rebinding has the frame property -/
namespace ClassTables

/-- what a run of rebinding updates keeps, relative to the store `s0` it started from -/
structure Frame (s0 s : Store) (y : Nat) : Prop where
  next_le : s0.next ≤ s.next
  wf : WF s
  others : ∀ x, x ≠ y → ∀ a, s.bind x a = s0.bind x a
  old : ∀ o, o < s0.next → s.heap o = s0.heap o

theorem Frame.step {s0 s : Store} {y : Nat} (h : Frame s0 s y) (u : Upd) (hu : u.isRebind = true) :
    Frame s0 (applyUpd y s u) y := by
  cases u with
  | mutate a extra => simp [Upd.isRebind] at hu
  | rebind a extra =>
    refine ⟨?_, ?_, ?_, ?_⟩
    · simp only [applyUpd]; have := h.next_le; omega
    · intro c a'
      simp only [applyUpd]
      split
      · omega
      · have := h.wf c a'; omega
    · intro x hx a'
      simp only [applyUpd]
      have : ¬ (x = y ∧ a' = a) := fun e => hx e.1
      simp only [this, if_false]
      exact h.others x hx a'
    · intro o ho
      simp only [applyUpd]
      have : ¬ o = s.next := by have := h.next_le; omega
      simp only [this, if_false]
      exact h.old o ho

theorem Frame.foldl {s0 : Store} {y : Nat} : ∀ (us : List Upd) (s : Store), Frame s0 s y →
    (∀ u ∈ us, u.isRebind = true) → Frame s0 (us.foldl (applyUpd y) s) y
  | [], _, h, _ => h
  | u :: us, s, h, hall => by
    simp only [List.foldl_cons]
    exact Frame.foldl us _ (h.step u (hall u List.mem_cons_self)) (fun v hv => hall v (List.mem_cons_of_mem _ hv))

theorem Frame.inherit {s : Store} (hw : WF s) (y b : Nat) : Frame s (inherit s y b) y := by
  refine ⟨Nat.le_refl _, ?_, ?_, fun _ _ => rfl⟩
  · intro c a
    simp only [ClassTables.inherit]
    split
    · exact hw b a
    · exact hw c a
  · intro x hx a
    simp [ClassTables.inherit, hx]

end ClassTables


/-! ## shared read-only table -/
namespace SharedTable

def trunOk (th : TThread) : Prop :=
  match th.run with
  | none => True
  | some (r, c, v, e) => e = (List.range c).map (fun i => (i, v)) ∧ ∃ rest, th.todo = (r + c, v) :: rest

def tfinal (th : TThread) : List (List (Nat × Nat)) := th.results ++ th.todo.map texpected

structure TInv (slot0 : Nat) (progs : Tid → List (Nat × Nat)) (s : TState) : Prop where
  ok : ∀ t, trunOk (s.threads t)
  fin : ∀ t, tfinal (s.threads t) = tseq (progs t)
  slot : s.slot = slot0

theorem TInv.init (slot0 : Nat) (progs : Tid → List (Nat × Nat)) : TInv slot0 progs (tinit slot0 progs) := by
  refine ⟨?_, ?_, rfl⟩ <;> intro t <;> simp [tinit, trunOk, tfinal, tseq]

theorem TInv.step {cfg : TCfg} (hc : cfg.ctorWrites = false) {slot0 : Nat} {progs : Tid → List (Nat × Nat)}
    {s s' : TState} {t : Tid} (h : TInv slot0 progs s) (hs : tstep cfg s t = some s') : TInv slot0 progs s' := by
  have hok := h.ok t
  have hfin := h.fin t
  suffices hT : trunOk (s'.threads t) ∧ tfinal (s'.threads t) = tfinal (s.threads t) ∧
      (∀ u, u ≠ t → s'.threads u = s.threads u) ∧ s'.slot = s.slot by
    refine ⟨?_, ?_, by rw [hT.2.2.2]; exact h.slot⟩
    · intro u
      by_cases hu : u = t
      · subst hu; exact hT.1
      · rw [hT.2.2.1 u hu]; exact h.ok u
    · intro u
      by_cases hu : u = t
      · subst hu; rw [hT.2.1]; exact hfin
      · rw [hT.2.2.1 u hu]; exact h.fin u
  unfold tstep at hs
  split at hs
  · rename_i r c v e hrun
    simp only [Option.some.injEq] at hs
    subst hs
    unfold trunOk at hok
    simp only [hrun] at hok
    obtain ⟨he, rest, htodo⟩ := hok
    unfold tstepRun
    cases r with
    | zero =>
      refine ⟨?_, ?_, fun u hu => by simp [tset, hu], rfl⟩
      · simp [tset, trunOk]
      · simp [tset, tfinal, htodo, he, texpected]
    | succ r' =>
      simp only [hc, Bool.false_eq_true, if_false]
      refine ⟨?_, ?_, fun u hu => by simp [tset, hu], rfl⟩
      · simp only [tset, trunOk, if_true]
        refine ⟨?_, rest, ?_⟩
        · rw [he, List.range_succ, List.map_append]; rfl
        · rw [htodo]; congr 2; omega
      · simp [tset, tfinal]
  · rename_i hrun
    split at hs
    · simp at hs
    · rename_i k v rest htodo
      simp only [hc, Bool.false_eq_true, if_false, Option.some.injEq] at hs
      subst hs
      refine ⟨?_, ?_, fun u hu => by simp [tset, hu], rfl⟩
      · simp [tset, trunOk, htodo]
      · simp [tset, tfinal]

inductive TReach (cfg : TCfg) (s0 : TState) : TState → Prop
  | init : TReach cfg s0 s0
  | next {s s' : TState} {t : Tid} : TReach cfg s0 s → tstep cfg s t = some s' → TReach cfg s0 s'

theorem TInv.reach {cfg : TCfg} (hc : cfg.ctorWrites = false) {slot0 : Nat} {progs : Tid → List (Nat × Nat)}
    {s : TState} (h : TReach cfg (tinit slot0 progs) s) : TInv slot0 progs s := by
  induction h with
  | init => exact TInv.init slot0 progs
  | next _ hs ih => exact ih.step hc hs

theorem treach_trun {cfg : TCfg} {s0 s : TState} (h : TReach cfg s0 s) (sched : List Tid) :
    TReach cfg s0 (trun cfg s sched) := by
  induction sched generalizing s with
  | nil => exact h
  | cons t ts ih =>
    simp only [trun]
    split
    · rename_i s' hs; exact ih (.next h hs)
    · exact ih h

end SharedTable


/-! ## bounded memo -/
namespace Memo

/-- no look-up has raised, none is between pick and delete, and every look-up started has returned or is inserting -/
structure MInvar (progs : Tid → List Nat) (s : MState) : Prop where
  noErr : ∀ t, (s.threads t).errors = 0
  noPick : ∀ t, (s.threads t).pc.isPicked = false
  count : ∀ t, (s.threads t).finished + (s.threads t).todo.length + (if (s.threads t).pc = .idle then 0 else 1)
            = (progs t).length

theorem MInvar.init (cache0 : List Nat) (progs : Tid → List Nat) : MInvar progs (minit cache0 progs) := by
  refine ⟨?_, ?_, ?_⟩ <;> intro t <;> simp [minit, MPc.isPicked]

theorem MInvar.step {cfg : MCfg} (hm : cfg.mode ≠ .nonatomic) {progs : Tid → List Nat} {s s' : MState} {t : Tid}
    (h : MInvar progs s) (hs : mstep cfg s t = some s') : MInvar progs s' := by
  have h1 := h.noErr t
  have h2 := h.noPick t
  have h3 := h.count t
  suffices hT : (s'.threads t).errors = 0 ∧ (s'.threads t).pc.isPicked = false ∧
      ((s'.threads t).finished + (s'.threads t).todo.length + (if (s'.threads t).pc = .idle then 0 else 1)
        = (progs t).length) ∧ ∀ u, u ≠ t → s'.threads u = s.threads u by
    refine ⟨?_, ?_, ?_⟩ <;> intro u <;> by_cases hu : u = t
    · subst hu; exact hT.1
    · rw [hT.2.2.2 u hu]; exact h.noErr u
    · subst hu; exact hT.2.1
    · rw [hT.2.2.2 u hu]; exact h.noPick u
    · subst hu; exact hT.2.2.1
    · rw [hT.2.2.2 u hu]; exact h.count u
  unfold mstep at hs
  split at hs
  · rename_i hpc
    unfold mstepIdle at hs
    split at hs
    · simp at hs
    · rename_i k rest htodo
      simp only [hpc, htodo, if_true, List.length_cons] at h3
      split at hs
      · simp only [Option.some.injEq] at hs; subst hs
        refine ⟨by simpa [mset] using h1, by simp [mset, hpc, MPc.isPicked], ?_, fun u hu => by simp [mset, hu]⟩
        simp [mset, hpc]; omega
      · split at hs
        · simp only [Option.some.injEq] at hs; subst hs
          refine ⟨by simpa [mset] using h1, by simp [mset, MPc.isPicked], ?_, fun u hu => by simp [mset, hu]⟩
          simp [mset]; omega
        · cases hmode : cfg.mode with
          | nonatomic => exact absurd hmode hm
          | noEvict =>
            simp only [hmode, Option.some.injEq] at hs; subst hs
            refine ⟨by simpa [mset] using h1, by simp [mset, MPc.isPicked], ?_, fun u hu => by simp [mset, hu]⟩
            simp [mset]; omega
          | atomic =>
            simp only [hmode, Option.some.injEq] at hs; subst hs
            refine ⟨by simpa [mset] using h1, by simp [mset, hpc, MPc.isPicked], ?_, fun u hu => by simp [mset, hu]⟩
            simp [mset, hpc]; omega
  · rename_i k v hpc
    simp [hpc, MPc.isPicked] at h2
  · rename_i k hpc
    simp only [Option.some.injEq] at hs; subst hs
    simp only [hpc] at h3
    refine ⟨by simpa [mset] using h1, by simp [mset, MPc.isPicked], ?_, fun u hu => by simp [mset, hu]⟩
    simp [mset] at h3 ⊢; omega

inductive MReach (cfg : MCfg) (s0 : MState) : MState → Prop
  | init : MReach cfg s0 s0
  | next {s s' : MState} {t : Tid} : MReach cfg s0 s → mstep cfg s t = some s' → MReach cfg s0 s'

theorem MInvar.reach {cfg : MCfg} (hm : cfg.mode ≠ .nonatomic) {cache0 : List Nat} {progs : Tid → List Nat}
    {s : MState} (h : MReach cfg (minit cache0 progs) s) : MInvar progs s := by
  induction h with
  | init => exact MInvar.init cache0 progs
  | next _ hs ih => exact ih.step hm hs

theorem mreach_mrun {cfg : MCfg} {s0 s : MState} (h : MReach cfg s0 s) (sched : List Tid) :
    MReach cfg s0 (mrun cfg s sched) := by
  induction sched generalizing s with
  | nil => exact h
  | cons t ts ih =>
    simp only [mrun]
    split
    · rename_i s' hs; exact ih (.next h hs)
    · exact ih h

end Memo

end SqlglotModel.Threads
