/- Helper lemmas for C10 (identifier rules and the scope model). -/
import SqlglotModel.Model.Qualify

namespace SqlglotModel.Qualify
open SqlglotModel.Ident

theorem normalize_idem (f : CaseFns) (hf : f.Ok) (s : Strategy) (i : Ident) :
    normalize f s (normalize f s i) = normalize f s i := by
  unfold normalize
  by_cases h : folds s i.quoted = true
  · simp only [h, if_true]
    by_cases hu : foldsUpper s = true
    · simp [hu, hf.upper_idem]
    · simp [hu, hf.lower_idem]
  · simp [h]

end SqlglotModel.Qualify
