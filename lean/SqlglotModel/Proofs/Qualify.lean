/- Helper lemmas for C10 (identifier rules and the scope model). -/
import SqlglotModel.Model.Qualify

namespace SqlglotModel.Qualify
open SqlglotModel.Ident

theorem normalize_idem (f : CaseFns) (hf : f.Ok) (s : Strategy) (i : Ident) :
    normalize f s (normalize f s i) = normalize f s i := by
  unfold normalize
  by_cases h : folds s i.quoted = true
  · simp only [h, if_true]
    by_cases hu : foldsUpper s = true
    · simp [hu, hf.upper_idem]
    · simp [hu, hf.lower_idem]
  · simp [h]

/-! ### sources -/

theorem mkEnv_aliased (g : Gen) (σ : Schema) (outs : List (List String)) :
    ∀ (srcs srcs' : List Src) (env0 : List (Bool × String × List String)),
      mkEnv g σ outs srcs = some (srcs', env0) →
      srcs'.map (·.alias) = env0.map (fun e => some e.2.1) := by
  intro srcs
  induction srcs with
  | nil => intro srcs' env0 h; simp [mkEnv] at h; obtain ⟨rfl, rfl⟩ := h; rfl
  | cons s rest ih =>
    intro srcs' env0 h
    simp only [mkEnv] at h
    split at h
    · rename_i a cols rs env hn hc hr
      simp at h
      obtain ⟨rfl, rfl⟩ := h
      simp [ih rs env hr]
    · simp at h

/-! ### the pipeline reaches `check` -/

theorem qualifyScope_ok (g : Gen) (σ : Schema) (outs : List (List String)) (s s' : Scope)
    (h : qualifyScope g σ outs s = .ok s') :
    ∃ srcs' env0, mkEnv g σ outs s.srcs = some (srcs', env0)
      ∧ hasDup (envNames (refOrder env0)) = false
      ∧ buildScope g (refOrder env0) (joinEnv g env0) srcs' s = .ok s'
      ∧ validate (envNames (refOrder env0)) s' = true := by
  unfold qualifyScope at h
  split at h
  · simp at h
  · rename_i srcs' env0 hm
    split at h
    · simp at h
    · rename_i hd
      split at h
      · rename_i s'' hb
        unfold check at h
        split at h
        · rename_i hv
          simp at h
          subst h
          exact ⟨srcs', env0, hm, by simpa using hd, hb, hv⟩
        · simp at h
      · simp at h

theorem bind_ok {ε α β} {x : Except ε α} {f : α → Except ε β} {b : β}
    (h : (x >>= f) = .ok b) : ∃ a, x = .ok a ∧ f a = .ok b := by
  cases x with
  | error e => simp [bind, Except.bind] at h
  | ok a => exact ⟨a, rfl, by simpa [bind, Except.bind] using h⟩

theorem buildCore_shape (g : Gen) (env jenv : Env) (srcs' : List Src) (ct : ColTables) (jgs : List (Join × Bool))
    (replaced : Bool) (skip : List String) (s s' : Scope)
    (h : buildCore g env jenv srcs' ct jgs replaced skip s = .ok s') : s'.srcs = srcs' ∧ s'.outer = [] := by
  unfold buildCore at h
  obtain ⟨_, _, h⟩ := bind_ok h
  obtain ⟨_, _, h⟩ := bind_ok h
  obtain ⟨_, _, h⟩ := bind_ok h
  obtain ⟨_, _, h⟩ := bind_ok h
  obtain ⟨_, _, h⟩ := bind_ok h
  obtain ⟨_, _, h⟩ := bind_ok h
  obtain ⟨_, _, h⟩ := bind_ok h
  split at h
  · simp at h
  · obtain ⟨_, _, h⟩ := bind_ok h
    obtain ⟨_, _, h⟩ := bind_ok h
    simp [pure, Except.pure] at h
    subst h
    exact ⟨rfl, rfl⟩

/-- `buildScope` is step U followed by `buildCore` -/
theorem buildScope_core (g : Gen) (env jenv : Env) (srcs' : List Src) (s s' : Scope)
    (h : buildScope g env jenv srcs' s = .ok s') :
    ∃ ct jgs replaced skip s1, buildCore g env jenv srcs' ct jgs replaced skip s1 = .ok s' := by
  unfold buildScope at h
  split at h
  · simp at h
  · obtain ⟨u, _, h⟩ := bind_ok h
    exact ⟨_, _, _, _, _, h⟩

theorem buildScope_shape (g : Gen) (env jenv : Env) (srcs' : List Src) (s s' : Scope)
    (h : buildScope g env jenv srcs' s = .ok s') : s'.srcs = srcs' ∧ s'.outer = [] := by
  obtain ⟨ct, jgs, replaced, skip, s1, hc⟩ := buildScope_core g env jenv srcs' s s' h
  exact buildCore_shape g env jenv srcs' ct jgs replaced skip s1 s' hc

/-! ### stars -/

def GoodSrc (e : String × List String) : Prop :=
  e.2.isEmpty = false ∧ e.2.contains "*" = false ∧ hasDup e.2 = false

theorem expandStarTables_ok (exc : List String) :
    ∀ env : Env, (∀ e ∈ env, GoodSrc e) →
      expandStarTables exc env = .ok (env.flatMap (fun e => starCols e.1 exc e.2)) := by
  intro env
  induction env with
  | nil => intro _; rfl
  | cons e rest ih =>
    intro hg
    obtain ⟨t, cols⟩ := e
    have h1 := hg (t, cols) (by simp)
    obtain ⟨ha, hb, hc⟩ := h1
    simp only at ha hb hc
    have := ih (fun e he => hg e (by simp [he]))
    have hb' : ¬ "*" ∈ cols := by simpa using hb
    simp [expandStarTables, ha, hb', hc, this]

theorem qualifyOutputs_cols (cn : Nat → String) :
    ∀ (l : List (String × String)) (i : Nat), (∀ p ∈ l, p.2 ≠ "") →
      qualifyOutputs cn i [] (l.map (fun p => Proj.item (.col (some p.1) p.2) none))
        = l.map (fun p => Proj.item (.col (some p.1) p.2) (some p.2)) := by
  intro l
  induction l with
  | nil => intro i _; rfl
  | cons p rest ih =>
    intro i hne
    have hp : p.2 ≠ "" := hne p (by simp)
    have := ih (i + 1) (fun q hq => hne q (by simp [hq]))
    simp [List.map, qualifyOutputs, outAlias, exprName, this, hp]

theorem refOrder_names (l : List (Bool × String × List String)) (n : String) :
    n ∈ envNames (refOrder l) ↔ ∃ e ∈ l, e.2.1 = n := by
  simp only [envNames, refOrder, List.map_append, List.map_map, List.mem_append, List.mem_map, List.mem_filter,
    Function.comp]
  constructor
  · rintro (⟨e, ⟨he, _⟩, rfl⟩ | ⟨e, ⟨he, _⟩, rfl⟩) <;> exact ⟨e, he, rfl⟩
  · rintro ⟨e, he, rfl⟩
    cases hb : e.1
    · exact Or.inl ⟨e, ⟨he, by simp [hb]⟩, rfl⟩
    · exact Or.inr ⟨e, ⟨he, by simp [hb]⟩, rfl⟩

/-- what `qualify_complete` promises about one qualified scope -/
def Complete (s' : Scope) : Prop :=
  (∀ src ∈ s'.srcs, src.alias.isSome = true) ∧ s'.outer = []
  ∧ ∃ names : List String, validate names s' = true ∧ ∀ n ∈ names, some n ∈ s'.srcs.map (·.alias)

theorem qualifyScope_complete (g : Gen) (σ : Schema) (outs : List (List String)) (s s' : Scope)
    (h : qualifyScope g σ outs s = .ok s') : Complete s' := by
  obtain ⟨srcs', env0, hm, _, hb, hv⟩ := qualifyScope_ok g σ outs s s' h
  obtain ⟨hs, ho⟩ := buildScope_shape g _ _ srcs' s s' hb
  have ha := mkEnv_aliased g σ outs s.srcs srcs' env0 hm
  refine ⟨?_, ho, envNames (refOrder env0), hv, ?_⟩
  · intro src hsrc
    rw [hs] at hsrc
    have : src.alias ∈ srcs'.map (·.alias) := List.mem_map.mpr ⟨src, hsrc, rfl⟩
    rw [ha] at this
    obtain ⟨e, _, he⟩ := List.mem_map.mp this
    rw [← he]; rfl
  · intro n hn
    obtain ⟨e, he, rfl⟩ := (refOrder_names env0 n).mp hn
    rw [hs, ha]
    exact List.mem_map.mpr ⟨e, he, rfl⟩

theorem qualifyFrom_complete (g : Gen) (σ : Schema) :
    ∀ (q : List Scope) (outs : List (List String)) (q' : List Scope),
      qualifyFrom g σ outs q = .ok q' → q'.length = q.length ∧ ∀ s' ∈ q', Complete s' := by
  intro q
  induction q with
  | nil => intro outs q' h; simp [qualifyFrom] at h; subst h; simp
  | cons s rest ih =>
    intro outs q' h
    unfold qualifyFrom at h
    obtain ⟨s', hs', h⟩ := bind_ok h
    obtain ⟨rest', hr, h⟩ := bind_ok h
    simp [pure, Except.pure] at h
    subst h
    obtain ⟨hl, hc⟩ := ih _ _ hr
    refine ⟨by simp [hl], ?_⟩
    intro x hx
    simp at hx
    rcases hx with rfl | hx
    · exact qualifyScope_complete g σ outs s x hs'
    · exact hc x hx

/-! ### second-pass identities of the stages C, D, E -/

theorem expand_fixed (env : Env) (m : AMap) (cl : Clause) (names : List String) :
    ∀ (e : Expr) (ctx : Ctx), visible names [] e = true → expand env m cl ctx e = e := by
  intro e
  induction e with
  | col t n =>
    intro ctx h
    cases t with
    | none => simp [visible] at h
    | some t => rfl
  | lit k => intro _ _; rfl
  | bin op l r ihl ihr =>
    intro ctx h
    simp only [visible, Bool.and_eq_true] at h
    simp [expand, ihl _ h.1, ihr _ h.2]
  | paren e ih =>
    intro ctx h
    simp only [visible] at h
    simp [expand, ih _ h]
  | coalesce args => intro _ _; rfl

def AllAliased : List Proj → Prop
  | [] => True
  | .item _ (some _) :: ps => AllAliased ps
  | _ :: _ => False

theorem qualifyOutputs_fixed (cn : Nat → String) :
    ∀ (ps : List Proj) (i : Nat), AllAliased ps → qualifyOutputs cn i [] ps = ps := by
  intro ps
  induction ps with
  | nil => intro _ _; rfl
  | cons p rest ih =>
    intro i h
    cases p with
    | star t exc => simp [AllAliased] at h
    | item e a =>
      cases a with
      | none => simp [AllAliased] at h
      | some a =>
        simp only [AllAliased] at h
        simp [qualifyOutputs, ih _ h]

theorem allAliased_noStar : ∀ ps : List Proj, AllAliased ps → hasStar ps = false := by
  intro ps
  induction ps with
  | nil => intro _; rfl
  | cons p rest ih =>
    intro h
    cases p with
    | star t exc => simp [AllAliased] at h
    | item e a =>
      cases a with
      | none => simp [AllAliased] at h
      | some a => simp only [AllAliased] at h; simp [hasStar, ih h]

theorem expandStars_fixed (env : Env) :
    ∀ ps : List Proj, AllAliased ps → expandStars env ps = .ok ps := by
  intro ps
  induction ps with
  | nil => intro _; rfl
  | cons p rest ih =>
    intro h
    cases p with
    | star t exc => simp [AllAliased] at h
    | item e a =>
      cases a with
      | none => simp [AllAliased] at h
      | some a => simp only [AllAliased] at h; simp [expandStars, ih h]

/-- `qualify_outputs` always produces fully aliased projections when no star is left -/
theorem qualifyOutputs_allAliased (cn : Nat → String) :
    ∀ (ps : List Proj) (i : Nat) (outer : List String), hasStar ps = false →
      AllAliased (qualifyOutputs cn i outer ps) := by
  intro ps
  induction ps with
  | nil => intro _ _ _; trivial
  | cons p rest ih =>
    intro i outer h
    cases p with
    | star t exc => simp [hasStar] at h
    | item e a =>
      simp only [hasStar] at h
      simp only [qualifyOutputs, AllAliased]
      exact ih _ _ h

/-! ## pipeline-level idempotence -/

/-- every qualified column under `e` passes the `Unknown column` test -/
def ColOk (env : Env) : Expr → Bool
  | .col (some t) n => colCheck env t n
  | .col none _ => true
  | .lit _ => true
  | .bin _ l r => ColOk env l && ColOk env r
  | .paren e => ColOk env e
  | .coalesce args => args.all (fun a => colCheck env a.1 a.2)

def ProjOk (env : Env) : Proj → Bool
  | .star _ _ => true
  | .item e _ => ColOk env e

theorem qcol_some (env : Env) (skip : List String) (t n : String) :
    qcol env skip (.col (some t) n) = if colCheck env t n then .ok (.col (some t) n) else .error .optimize := rfl

theorem qcolHaving_some (env : Env) (t n : String) :
    qcolHaving env (.col (some t) n) = if colCheck env t n then .ok (.col (some t) n) else .error .optimize := rfl

theorem find_of_mem_nodup : ∀ (env : Env) (e : String × List String),
    hasDup (envNames env) = false → e ∈ env → env.find? (fun x => x.1 == e.1) = some e := by
  intro env
  induction env with
  | nil => intro e _ h; simp at h
  | cons h rest ih =>
    intro e hd he
    have hd2 : ((envNames rest).contains h.1 || hasDup (envNames rest)) = false := hd
    obtain ⟨hnc, hd'⟩ := Bool.or_eq_false_iff.mp hd2
    simp only [List.mem_cons] at he
    rcases he with rfl | he
    · simp [List.find?]
    · have hne : (h.1 == e.1) = false := by
        cases hq : (h.1 == e.1) with
        | false => rfl
        | true =>
          have h1 : h.1 = e.1 := by simpa using hq
          have hm : e.1 ∈ envNames rest := List.mem_map.mpr ⟨e, he, rfl⟩
          rw [← h1] at hm
          have h2 : (envNames rest).contains h.1 = true := by simpa using hm
          rw [h2] at hnc
          exact absurd hnc (by simp)
      simp only [List.find?, hne]
      exact ih e hd' he

theorem envCols_of_mem (env : Env) (t : String) (cols : List String)
    (hd : hasDup (envNames env) = false) (he : (t, cols) ∈ env) : envCols env t = some cols := by
  unfold envCols
  rw [find_of_mem_nodup env (t, cols) hd he]
  rfl

theorem unique_colCheck (env : Env) (n t : String) (hd : hasDup (envNames env) = false)
    (h : unique env n = some t) : colCheck env t n = true := by
  unfold unique at h
  split at h
  · rename_i e hf
    simp at h
    subst h
    have hm : e ∈ env.filter (fun e => e.2.contains n) := by rw [hf]; simp
    rw [List.mem_filter] at hm
    obtain ⟨he, hc⟩ := hm
    unfold colCheck
    rw [envCols_of_mem env e.1 e.2 hd he]
    have hc' : n ∈ e.2 := by simpa using hc
    simp [hc']
  · simp at h

theorem qcol_ColOk (env : Env) (skip : List String) (hd : hasDup (envNames env) = false) :
    ∀ e e' : Expr, qcol env skip e = .ok e' → ColOk env e' = true := by
  intro e
  induction e with
  | col t n =>
    intro e' h
    cases t with
    | some t =>
      rw [qcol_some] at h
      split at h
      · rename_i hc; simp at h; subst h; simpa [ColOk] using hc
      · simp at h
    | none =>
      simp only [qcol] at h
      split at h
      · simp at h; subst h; rfl
      · split at h
        · rename_i t hu; simp at h; subst h; simpa [ColOk] using unique_colCheck env n t hd hu
        · simp at h; subst h; rfl
  | lit k => intro e' h; simp [qcol] at h; subst h; rfl
  | bin op l r ihl ihr =>
    intro e' h
    simp only [qcol] at h
    obtain ⟨l', hl, h⟩ := bind_ok h
    obtain ⟨r', hr, h⟩ := bind_ok h
    simp [pure, Except.pure] at h
    subst h
    simp [ColOk, ihl l' hl, ihr r' hr]
  | paren e ih =>
    intro e' h
    simp only [qcol] at h
    obtain ⟨x, hx, h⟩ := bind_ok h
    simp [pure, Except.pure] at h
    subst h
    simp [ColOk, ih x hx]
  | coalesce args =>
    intro e' h
    simp only [qcol] at h
    split at h
    · rename_i hc; simp at h; subst h; simpa [ColOk] using hc
    · simp at h

theorem qcolHaving_ColOk (env : Env) :
    ∀ e e' : Expr, qcolHaving env e = .ok e' → ColOk env e' = true := by
  intro e
  induction e with
  | col t n =>
    intro e' h
    cases t with
    | some t =>
      rw [qcolHaving_some] at h
      split at h
      · rename_i hc; simp at h; subst h; simpa [ColOk] using hc
      · simp at h
    | none => simp [qcolHaving] at h; subst h; rfl
  | lit k => intro e' h; simp [qcolHaving] at h; subst h; rfl
  | bin op l r ihl ihr =>
    intro e' h
    simp only [qcolHaving] at h
    obtain ⟨l', hl, h⟩ := bind_ok h
    obtain ⟨r', hr, h⟩ := bind_ok h
    simp [pure, Except.pure] at h
    subst h
    simp [ColOk, ihl l' hl, ihr r' hr]
  | paren e ih =>
    intro e' h
    simp only [qcolHaving] at h
    obtain ⟨x, hx, h⟩ := bind_ok h
    simp [pure, Except.pure] at h
    subst h
    simp [ColOk, ih x hx]
  | coalesce args =>
    intro e' h
    simp only [qcolHaving] at h
    split at h
    · rename_i hc; simp at h; subst h; simpa [ColOk] using hc
    · simp at h

/-- second pass of step B: a checked expression without resolvable bare names is left alone -/
theorem qcol_fixed (env : Env) (names skip : List String) :
    ∀ e : Expr, ColOk env e = true → visible names skip e = true → qcol env skip e = .ok e := by
  intro e
  induction e with
  | col t n =>
    intro hc hv
    cases t with
    | some t => rw [qcol_some]; simp [ColOk] at hc; simp [hc]
    | none =>
      simp only [visible] at hv
      simp only [qcol, hv, if_true]
  | lit k => intro _ _; rfl
  | bin op l r ihl ihr =>
    intro hc hv
    simp only [ColOk, visible, Bool.and_eq_true] at hc hv
    simp [qcol, ihl hc.1 hv.1, ihr hc.2 hv.2, bind, Except.bind, pure, Except.pure]
  | paren e ih =>
    intro hc hv
    simp only [ColOk, visible] at hc hv
    simp [qcol, ih hc hv, bind, Except.bind, pure, Except.pure]
  | coalesce args =>
    intro hc _
    simp only [ColOk] at hc
    simp [qcol, hc]

theorem qcolHaving_fixed (env : Env) :
    ∀ e : Expr, ColOk env e = true → qcolHaving env e = .ok e := by
  intro e
  induction e with
  | col t n =>
    intro hc
    cases t with
    | some t => rw [qcolHaving_some]; simp [ColOk] at hc; simp [hc]
    | none => rfl
  | lit k => intro _; rfl
  | bin op l r ihl ihr =>
    intro hc
    simp only [ColOk, Bool.and_eq_true] at hc
    simp [qcolHaving, ihl hc.1, ihr hc.2, bind, Except.bind, pure, Except.pure]
  | paren e ih =>
    intro hc
    simp only [ColOk] at hc
    simp [qcolHaving, ih hc, bind, Except.bind, pure, Except.pure]
  | coalesce args =>
    intro hc
    simp only [ColOk] at hc
    simp [qcolHaving, hc]

/-! ### list plumbing -/

theorem mapE_forall {α β ε} (f : α → Except ε β) (P : β → Prop) :
    ∀ (l : List α) (l' : List β), mapE f l = .ok l' → (∀ x y, x ∈ l → f x = .ok y → P y) → ∀ y ∈ l', P y := by
  intro l
  induction l with
  | nil => intro l' h _; simp [mapE] at h; subst h; simp
  | cons x xs ih =>
    intro l' h hp
    simp only [mapE] at h
    obtain ⟨y, hy, h⟩ := bind_ok h
    obtain ⟨ys, hys, h⟩ := bind_ok h
    simp [pure, Except.pure] at h
    subst h
    intro z hz
    simp only [List.mem_cons] at hz
    rcases hz with rfl | hz
    · exact hp x z (by simp) hy
    · exact ih ys hys (fun a b ha hb => hp a b (by simp [ha]) hb) z hz

theorem mapE_fixed {α ε} (f : α → Except ε α) :
    ∀ l : List α, (∀ x ∈ l, f x = .ok x) → mapE f l = .ok l := by
  intro l
  induction l with
  | nil => intro _; rfl
  | cons x xs ih =>
    intro h
    simp [mapE, h x (by simp), ih (fun y hy => h y (by simp [hy])), bind, Except.bind, pure, Except.pure]

theorem optE_fixed {α ε} (f : α → Except ε α) (o : Option α) (h : ∀ x, o = some x → f x = .ok x) :
    optE f o = .ok o := by
  cases o with
  | none => rfl
  | some x => simp [optE, h x rfl, bind, Except.bind, pure, Except.pure]

theorem optE_forall {α β ε} (f : α → Except ε β) (P : β → Prop) (o : Option α) (o' : Option β)
    (h : optE f o = .ok o') (hp : ∀ x y, o = some x → f x = .ok y → P y) : ∀ y, o' = some y → P y := by
  cases o with
  | none => simp [optE] at h; subst h; intro y hy; simp at hy
  | some x =>
    simp only [optE] at h
    obtain ⟨y, hy, h⟩ := bind_ok h
    simp [pure, Except.pure] at h
    subst h
    intro z hz
    simp at hz
    subst hz
    exact hp x y rfl hy

/-! ### step C keeps the column checks -/

def MapOk (env : Env) (m : AMap) : Prop := ∀ x ∈ m, ColOk env x.2.1 = true

theorem alookup_mem (m : AMap) (n : String) (ae : Expr) (i : Nat) (h : alookup m n = some (ae, i)) :
    ∃ k, (k, ae, i) ∈ m := by
  unfold alookup at h
  cases hf : m.find? (fun x => x.1 == n) with
  | none => simp [hf] at h
  | some x =>
    simp [hf] at h
    exact ⟨x.1, by rw [← h]; exact List.mem_of_find?_eq_some hf⟩

theorem substCol_ColOk (env : Env) (m : AMap) (cl : Clause) (ctx : Ctx) (n : String)
    (hd : hasDup (envNames env) = false) (hm : MapOk env m) : ColOk env (substCol env m cl ctx n) = true := by
  unfold substCol
  split
  · rename_i ae i hl
    obtain ⟨k, hk⟩ := alookup_mem m n ae i hl
    have hae : ColOk env ae = true := hm (k, ae, i) hk
    split
    · split <;> rfl
    · split
      · simpa [ColOk] using hae
      · exact hae
  · split
    · split
      · rename_i t hu; simpa [ColOk] using unique_colCheck env n t hd hu
      · rfl
    · rfl

theorem expand_ColOk (env : Env) (m : AMap) (cl : Clause) (hd : hasDup (envNames env) = false) (hm : MapOk env m) :
    ∀ (e : Expr) (ctx : Ctx), ColOk env e = true → ColOk env (expand env m cl ctx e) = true := by
  intro e
  induction e with
  | col t n =>
    intro ctx h
    cases t with
    | some t => simpa [expand] using h
    | none => simpa [expand] using substCol_ColOk env m cl ctx n hd hm
  | lit k => intro _ _; rfl
  | bin op l r ihl ihr =>
    intro ctx h
    simp only [ColOk, Bool.and_eq_true] at h
    simp [expand, ColOk, ihl _ h.1, ihr _ h.2]
  | paren e ih =>
    intro ctx h
    simp only [ColOk] at h
    simp [expand, ColOk, ih _ h]
  | coalesce args => intro ctx h; simpa [expand] using h

theorem expandProjs_ok (env : Env) (hd : hasDup (envNames env) = false) :
    ∀ (ps : List Proj) (m : AMap) (i : Nat), MapOk env m → (∀ p ∈ ps, ProjOk env p = true) →
      (∀ p ∈ (expandProjs env m i ps).1, ProjOk env p = true) ∧ MapOk env (expandProjs env m i ps).2 := by
  intro ps
  induction ps with
  | nil => intro m i hm _; exact ⟨by simp [expandProjs], by simpa [expandProjs] using hm⟩
  | cons p rest ih =>
    intro m i hm hp
    cases p with
    | star t exc =>
      obtain ⟨h1, h2⟩ := ih m (i + 1) hm (fun q hq => hp q (by simp [hq]))
      refine ⟨?_, by simpa [expandProjs] using h2⟩
      intro q hq
      simp only [expandProjs, List.mem_cons] at hq
      rcases hq with rfl | hq
      · rfl
      · exact h1 q hq
    | item e a =>
      have he : ColOk env e = true := by simpa [ProjOk] using hp (.item e a) (by simp)
      have he' := expand_ColOk env m .plain hd hm e .root he
      cases a with
      | none =>
        obtain ⟨h1, h2⟩ := ih m (i + 1) hm (fun q hq => hp q (by simp [hq]))
        refine ⟨?_, by simpa [expandProjs] using h2⟩
        intro q hq
        simp only [expandProjs, List.mem_cons] at hq
        rcases hq with rfl | hq
        · simpa [ProjOk] using he'
        · exact h1 q hq
      | some an =>
        have hm' : MapOk env ((an, expand env m .plain .root e, i + 1) :: m) := by
          intro x hx
          simp only [List.mem_cons] at hx
          rcases hx with rfl | hx
          · exact he'
          · exact hm x hx
        obtain ⟨h1, h2⟩ := ih _ (i + 1) hm' (fun q hq => hp q (by simp [hq]))
        refine ⟨?_, by simpa [expandProjs] using h2⟩
        intro q hq
        simp only [expandProjs, List.mem_cons] at hq
        rcases hq with rfl | hq
        · simpa [ProjOk] using he'
        · exact h1 q hq

/-- second pass of step C on projections without bare names -/
theorem expandProjs_fixed (env : Env) (names : List String) :
    ∀ (ps : List Proj) (m : AMap) (i : Nat), (∀ p ∈ ps, projVisible names p = true) → AllAliased ps →
      (expandProjs env m i ps).1 = ps := by
  intro ps
  induction ps with
  | nil => intro _ _ _ _; rfl
  | cons p rest ih =>
    intro m i hv ha
    cases p with
    | star t exc => simp [AllAliased] at ha
    | item e a =>
      cases a with
      | none => simp [AllAliased] at ha
      | some a =>
        simp only [AllAliased] at ha
        have he : visible names [] e = true := by simpa [projVisible] using hv (.item e (some a)) (by simp)
        simp [expandProjs, expand_fixed env m .plain names e .root he, ih _ _ (fun q hq => hv q (by simp [hq])) ha]

/-! ### steps D, E, F keep the column checks -/

theorem starCols_ok (env : Env) (t : String) (exc cols : List String) (h : envCols env t = some cols) :
    ∀ q ∈ starCols t exc cols, ProjOk env q = true := by
  intro q hq
  simp only [starCols, List.mem_map, List.mem_filter] at hq
  obtain ⟨c, ⟨hc, _⟩, rfl⟩ := hq
  simp [ProjOk, ColOk, colCheck, h, hc]

theorem expandStarTables_projOk (env : Env) (exc : List String) :
    ∀ (l : Env) (qs : List Proj), (∀ e ∈ l, envCols env e.1 = some e.2) →
      expandStarTables exc l = .ok qs → ∀ q ∈ qs, ProjOk env q = true := by
  intro l
  induction l with
  | nil => intro qs _ h; simp [expandStarTables] at h; subst h; simp
  | cons e rest ih =>
    intro qs hl h
    obtain ⟨t, cols⟩ := e
    simp only [expandStarTables] at h
    split at h
    · simp at h
    · split at h
      · rename_i ps hps
        simp at h
        subst h
        intro q hq
        simp only [List.mem_append] at hq
        rcases hq with hq | hq
        · exact starCols_ok env t exc cols (hl (t, cols) (by simp)) q hq
        · exact ih ps (fun e he => hl e (by simp [he])) hps q hq
      · rename_i hr
        exact absurd h (hr _)

theorem expandStars_ok (env : Env) (hd : hasDup (envNames env) = false) :
    ∀ (ps qs : List Proj), (∀ p ∈ ps, ProjOk env p = true) → expandStars env ps = .ok qs →
      ∀ q ∈ qs, ProjOk env q = true := by
  intro ps
  induction ps with
  | nil => intro qs _ h; simp [expandStars] at h; subst h; simp
  | cons p rest ih =>
    intro qs hp h
    have hrest : ∀ q ∈ rest, ProjOk env q = true := fun q hq => hp q (by simp [hq])
    cases p with
    | item e a =>
      simp only [expandStars] at h
      split at h
      · rename_i rs hrs
        simp at h
        subst h
        intro q hq
        simp only [List.mem_cons] at hq
        rcases hq with rfl | hq
        · exact hp _ (by simp)
        · exact ih rs hrest hrs q hq
      · rename_i hr
        exact absurd h (hr _)
    | star t exc =>
      cases t with
      | none =>
        simp only [expandStars] at h
        split at h
        · rename_i q1 hq1
          split at h
          · rename_i rs hrs
            simp at h
            subst h
            intro q hq
            simp only [List.mem_append] at hq
            rcases hq with hq | hq
            · exact expandStarTables_projOk env exc env q1 (fun e he => envCols_of_mem env e.1 e.2 hd he) hq1 q hq
            · exact ih rs hrest hrs q hq
          · rename_i hr
            exact absurd h (hr _)
        · rename_i hr
          exact absurd h (hr _)
      | some t =>
        simp only [expandStars] at h
        split at h
        · simp at h
        · rename_i cols hc
          split at h
          · rename_i q1 hq1
            split at h
            · rename_i rs hrs
              simp at h
              subst h
              intro q hq
              simp only [List.mem_append] at hq
              rcases hq with hq | hq
              · refine expandStarTables_projOk env exc [(t, cols)] q1 ?_ hq1 q hq
                intro e he
                simp at he
                subst he
                exact hc
              · exact ih rs hrest hrs q hq
            · rename_i hr
              exact absurd h (hr _)
          · rename_i hr
            exact absurd h (hr _)

theorem applyStars_ok (env : Env) (hd : hasDup (envNames env) = false) (ps qs : List Proj)
    (hp : ∀ p ∈ ps, ProjOk env p = true) (h : applyStars env ps = .ok qs) : ∀ q ∈ qs, ProjOk env q = true := by
  unfold applyStars at h
  split at h
  · rename_i q1 hq1
    split at h
    · simp at h; subst h; exact hp
    · simp at h; subst h; exact expandStars_ok env hd ps q1 hp hq1
  · simp at h; subst h; exact hp
  · simp at h

theorem qualifyOutputs_ok (env : Env) (cn : Nat → String) :
    ∀ (ps : List Proj) (i : Nat) (outer : List String), (∀ p ∈ ps, ProjOk env p = true) →
      ∀ q ∈ qualifyOutputs cn i outer ps, ProjOk env q = true := by
  intro ps
  induction ps with
  | nil => intro _ _ _ q hq; simp [qualifyOutputs] at hq
  | cons p rest ih =>
    intro i outer hp q hq
    cases p with
    | star t exc =>
      simp only [qualifyOutputs, List.mem_cons] at hq
      rcases hq with rfl | hq
      · rfl
      · exact ih _ _ (fun x hx => hp x (by simp [hx])) q hq
    | item e a =>
      simp only [qualifyOutputs, List.mem_cons] at hq
      rcases hq with rfl | hq
      · simpa [ProjOk] using hp (.item e a) (by simp)
      · exact ih _ _ (fun x hx => hp x (by simp [hx])) q hq

theorem aliasedItem_mem (ps : List Proj) (o : Option Proj) (e : Expr) (a : String)
    (ho : ∀ p, o = some p → p ∈ ps) (h : aliasedItem o = some (e, a)) : Proj.item e (some a) ∈ ps := by
  cases o with
  | none => simp [aliasedItem] at h
  | some p =>
    cases p with
    | star t exc => simp [aliasedItem] at h
    | item e' a' =>
      cases a' with
      | none => simp [aliasedItem] at h
      | some a' =>
        simp [aliasedItem] at h
        obtain ⟨rfl, rfl⟩ := h
        exact ho _ rfl

theorem projAt_mem (ps : List Proj) (k : Nat) (e : Expr) (a : String) (h : projAt ps k = some (e, a)) :
    Proj.item e (some a) ∈ ps := by
  unfold projAt at h
  split at h
  · exact aliasedItem_mem ps _ e a (fun p hp => List.mem_of_getLast? hp) h
  · exact aliasedItem_mem ps _ e a (fun p hp => List.mem_of_getElem? hp) h

theorem groupPos_ok (env : Env) (ps : List Proj) (hp : ∀ p ∈ ps, ProjOk env p = true) (x y : Expr)
    (hx : ColOk env x = true) (h : groupPos ps x = .ok y) : ColOk env y = true := by
  cases x with
  | lit k =>
    simp only [groupPos] at h
    split at h
    · simp at h
    · split at h
      · rename_i e a hpa
        split at h
        · simp at h; subst h; rfl
        · simp at h; subst h
          simpa [ProjOk] using hp _ (projAt_mem ps k e a hpa)
      · simp at h
  | col t n => simp [groupPos] at h; subst h; exact hx
  | bin op l r => simp [groupPos] at h; subst h; exact hx
  | paren e => simp [groupPos] at h; subst h; exact hx
  | coalesce args => simp [groupPos] at h; subst h; exact hx

/-- a GROUP BY element produced by `groupPos` is a fixed point of `groupPos` -/
theorem groupPos_idem (ps : List Proj) (x y : Expr) (h : groupPos ps x = .ok y) : groupPos ps y = .ok y := by
  cases x with
  | lit k =>
    have h0 := h
    simp only [groupPos] at h
    split at h
    · simp at h
    · split at h
      · rename_i e a hpa
        split at h
        · simp at h; subst h; exact h0
        · rename_i hl
          simp at h; subst h
          cases e with
          | lit j => simp [isLit] at hl
          | col t n => rfl
          | bin op l r => rfl
          | paren e => rfl
          | coalesce args => rfl
      · simp at h
  | col t n => simp [groupPos] at h; subst h; rfl
  | bin op l r => simp [groupPos] at h; subst h; rfl
  | paren e => simp [groupPos] at h; subst h; rfl
  | coalesce args => simp [groupPos] at h; subst h; rfl

theorem orderPos_notLit (ps : List Proj) (x y : Expr) (h : orderPos ps x = .ok y) : isLit y = false := by
  cases x with
  | lit k =>
    simp only [orderPos] at h
    split at h
    · simp at h
    · split at h
      · simp at h; subst h; rfl
      · simp at h
  | col t n => simp [orderPos] at h; subst h; rfl
  | bin op l r => simp [orderPos] at h; subst h; rfl
  | paren e => simp [orderPos] at h; subst h; rfl
  | coalesce args => simp [orderPos] at h; subst h; rfl

theorem orderPos_ok (env : Env) (ps : List Proj) (x y : Expr)
    (hx : ColOk env x = true) (h : orderPos ps x = .ok y) : ColOk env y = true := by
  cases x with
  | lit k =>
    simp only [orderPos] at h
    split at h
    · simp at h
    · split at h
      · simp at h; subst h; rfl
      · simp at h
  | col t n => simp [orderPos] at h; subst h; exact hx
  | bin op l r => simp [orderPos] at h; subst h; exact hx
  | paren e => simp [orderPos] at h; subst h; exact hx
  | coalesce args => simp [orderPos] at h; subst h; exact hx

theorem orderPos_fixed (ps : List Proj) (x : Expr) (h : isLit x = false) : orderPos ps x = .ok x := by
  cases x with
  | lit k => simp [isLit] at h
  | col t n => rfl
  | bin op l r => rfl
  | paren e => rfl
  | coalesce args => rfl

theorem orderByAlias_notLit (ps : List Proj) (x : Expr) (h : isLit x = false) : isLit (orderByAlias ps x) = false := by
  unfold orderByAlias
  split
  · rfl
  · exact h

theorem orderByAlias_ok (env : Env) (ps : List Proj) (x : Expr) (h : ColOk env x = true) :
    ColOk env (orderByAlias ps x) = true := by
  unfold orderByAlias
  split
  · rfl
  · exact h

/-- no projection of a validated scope is a bare name, so an alias reference is never rewritten again -/
theorem lastAliasOf_bare (names : List String) (a : String) :
    ∀ ps : List Proj, (∀ p ∈ ps, projVisible names p = true) → lastAliasOf (.col none a) ps = none := by
  intro ps
  induction ps with
  | nil => intro _; rfl
  | cons p rest ih =>
    intro hv
    have hr := ih (fun q hq => hv q (by simp [hq]))
    cases p with
    | star t exc => simpa [lastAliasOf] using hr
    | item e al =>
      cases al with
      | none => simpa [lastAliasOf] using hr
      | some al =>
        have he : visible names [] e = true := by simpa [projVisible] using hv (.item e (some al)) (by simp)
        have hne : (e == Expr.col none a) = false := by
          cases hq : (e == Expr.col none a) with
          | false => rfl
          | true =>
            have : e = Expr.col none a := by simpa using hq
            subst this
            simp [visible] at he
        simp [lastAliasOf, hr, hne]

theorem orderByAlias_idem (names : List String) (ps : List Proj) (hv : ∀ p ∈ ps, projVisible names p = true)
    (x : Expr) : orderByAlias ps (orderByAlias ps x) = orderByAlias ps x := by
  unfold orderByAlias
  cases h : lastAliasOf x ps with
  | none => simp [h]
  | some a => simp [lastAliasOf_bare names a ps hv]

/-! ### what the first pass establishes -/

theorem hasStar_qualifyOutputs (cn : Nat → String) :
    ∀ (ps : List Proj) (i : Nat) (outer : List String), hasStar (qualifyOutputs cn i outer ps) = hasStar ps := by
  intro ps
  induction ps with
  | nil => intro _ _; rfl
  | cons p rest ih =>
    intro i outer
    cases p with
    | star t exc => rfl
    | item e a => simp [qualifyOutputs, hasStar, ih]

theorem qcolProj_ok (env : Env) (hd : hasDup (envNames env) = false) (p q : Proj)
    (h : qcolProj env p = .ok q) : ProjOk env q = true := by
  cases p with
  | star t exc => simp [qcolProj] at h; subst h; rfl
  | item e a =>
    simp only [qcolProj] at h
    obtain ⟨e', he, h⟩ := bind_ok h
    simp [pure, Except.pure] at h
    subst h
    simpa [ProjOk] using qcol_ColOk env [] hd e e' he

structure ScopeInv (env : Env) (s' : Scope) : Prop where
  projs : ∀ p ∈ s'.projs, ProjOk env p = true
  whr : ∀ e, s'.whr = some e → ColOk env e = true
  group : ∀ e ∈ s'.group, ColOk env e = true
  having : ∀ e, s'.having = some e → ColOk env e = true
  order : ∀ e ∈ s'.order, ColOk env e = true
  joins : ∀ j ∈ s'.joins, ∀ e, j.on = some e → ColOk env e = true
  groupFix : ∀ e ∈ s'.group, groupPos s'.projs e = .ok e
  orderNotLit : ∀ e ∈ s'.order, isLit e = false
  orderForm : s'.group = [] ∨ ∀ e ∈ s'.order, ∃ x, e = orderByAlias s'.projs x
  aliased : hasStar s'.projs = false → AllAliased s'.projs

theorem unique_sub_colCheck (env pre : Env) (n t : String) (hd : hasDup (envNames env) = false)
    (hsub : ∀ e ∈ pre, e ∈ env) (h : unique pre n = some t) : colCheck env t n = true := by
  unfold unique at h
  split at h
  · rename_i e hf
    simp at h
    subst h
    have hm : e ∈ pre.filter (fun e => e.2.contains n) := by rw [hf]; simp
    rw [List.mem_filter] at hm
    obtain ⟨he, hc⟩ := hm
    unfold colCheck
    rw [envCols_of_mem env e.1 e.2 hd (hsub e he)]
    have hc' : n ∈ e.2 := by simpa using hc
    simp [hc']
  · simp at h

theorem qcolOn_ColOk (env pre : Env) (hd : hasDup (envNames env) = false) (hsub : ∀ e ∈ pre, e ∈ env) :
    ∀ e e' : Expr, qcolOn env pre e = .ok e' → ColOk env e' = true := by
  intro e
  induction e with
  | col t n =>
    intro e' h
    cases t with
    | some t =>
      simp only [qcolOn] at h
      split at h
      · rename_i hc; simp at h; subst h; simpa [ColOk] using hc
      · simp at h
    | none =>
      simp only [qcolOn] at h
      split at h
      · rename_i t hu; simp at h; subst h; simpa [ColOk] using unique_colCheck env n t hd hu
      · split at h
        · rename_i t hu; simp at h; subst h; simpa [ColOk] using unique_sub_colCheck env pre n t hd hsub hu
        · simp at h; subst h; rfl
  | lit k => intro e' h; simp [qcolOn] at h; subst h; rfl
  | bin op l r ihl ihr =>
    intro e' h
    simp only [qcolOn] at h
    obtain ⟨l', hl, h⟩ := bind_ok h
    obtain ⟨r', hr, h⟩ := bind_ok h
    simp [pure, Except.pure] at h
    subst h
    simp [ColOk, ihl l' hl, ihr r' hr]
  | paren e ih =>
    intro e' h
    simp only [qcolOn] at h
    obtain ⟨x, hx, h⟩ := bind_ok h
    simp [pure, Except.pure] at h
    subst h
    simp [ColOk, ih x hx]
  | coalesce args =>
    intro e' h
    simp only [qcolOn] at h
    split at h
    · rename_i hc; simp at h; subst h; simpa [ColOk] using hc
    · simp at h

/-- **the join-context fallback stays inside the prefix**: a bare ON name that no source of the whole scope owns alone
    is bound, if at all, to a source among those available at that join, and that source has the column -/
theorem qcolOn_prefix (env pre : Env) (n t : String) (hu : unique env n = none)
    (h : qcolOn env pre (.col none n) = .ok (.col (some t) n)) :
    ∃ cols, (t, cols) ∈ pre ∧ cols.contains n = true := by
  simp only [qcolOn, hu] at h
  split at h
  · rename_i t' hp
    simp at h
    subst h
    unfold unique at hp
    split at hp
    · rename_i e hf
      simp at hp
      subst hp
      have hm : e ∈ pre.filter (fun e => e.2.contains n) := by rw [hf]; simp
      rw [List.mem_filter] at hm
      exact ⟨e.2, hm.1, hm.2⟩
    · simp at hp
  · simp at h

theorem qcolJoin_ok (env pre : Env) (hd : hasDup (envNames env) = false) (hsub : ∀ e ∈ pre, e ∈ env) (j0 j : Join)
    (h : qcolJoin env pre false (j0, false) = .ok j) :
    (∀ e, j.on = some e → ColOk env e = true) ∧ j.natural = j0.natural ∧ j.usingCols = j0.usingCols := by
  unfold qcolJoin at h
  split at h
  · rename_i hn
    simp at h; subst h
    simp only at hn
    exact ⟨by intro e he; rw [hn] at he; simp at he, rfl, rfl⟩
  · rename_i e hn
    simp only [Bool.false_and, Bool.false_eq_true, if_false] at h
    split at h
    · obtain ⟨e', he', h⟩ := bind_ok h
      simp [pure, Except.pure] at h
      subst h
      refine ⟨?_, rfl, rfl⟩
      intro x hx
      simp at hx
      subst hx
      exact qcol_ColOk env [] hd e e' he'
    · obtain ⟨e', he', h⟩ := bind_ok h
      simp [pure, Except.pure] at h
      subst h
      refine ⟨?_, rfl, rfl⟩
      intro x hx
      simp at hx
      subst hx
      exact qcolOn_ColOk env pre hd hsub e e' he'

theorem qcolJoins_same (env jenv : Env) (hd : hasDup (envNames env) = false) (hsub : ∀ e ∈ jenv, e ∈ env) :
    ∀ (js0 joinsB : List Join) (i : Nat), qcolJoins env jenv false i (js0.map (fun j => (j, false))) = .ok joinsB →
      joinsB.length = js0.length ∧ hasMerge joinsB = hasMerge js0
      ∧ ∀ j ∈ joinsB, ∀ e, j.on = some e → ColOk env e = true := by
  intro js0
  induction js0 with
  | nil => intro joinsB i h; simp [qcolJoins] at h; subst h; exact ⟨rfl, rfl, by intro j hj; simp at hj⟩
  | cons j0 rest ih =>
    intro joinsB i h
    simp only [List.map, qcolJoins] at h
    obtain ⟨y, hy, h⟩ := bind_ok h
    obtain ⟨ys, hys, h⟩ := bind_ok h
    simp [pure, Except.pure] at h
    subst h
    obtain ⟨hc, hn, hu⟩ := qcolJoin_ok env _ hd (fun e he => hsub e (List.mem_of_mem_take he)) j0 y hy
    obtain ⟨h1, h2, h3⟩ := ih ys (i + 1) hys
    refine ⟨by simp [h1], ?_, ?_⟩
    · simp only [hasMerge, List.any_cons] at h2 ⊢
      rw [h2, hn, hu]
    · intro j hj
      simp only [List.mem_cons] at hj
      rcases hj with rfl | hj
      · exact hc
      · exact h3 j hj

theorem buildCore_inv (g : Gen) (env jenv : Env) (srcs' : List Src) (js0 : List Join) (skip : List String) (s s' : Scope)
    (hd : hasDup (envNames env) = false) (hsub : ∀ e ∈ jenv, e ∈ env)
    (h : buildCore g env jenv srcs' [] (js0.map (fun j => (j, false))) false skip s = .ok s') :
    ScopeInv env s' ∧ s'.joins.length = js0.length ∧ hasMerge s'.joins = hasMerge js0 := by
  unfold buildCore at h
  obtain ⟨projsB, hB1, h⟩ := bind_ok h
  obtain ⟨whrB, hB2, h⟩ := bind_ok h
  obtain ⟨groupB, hB3, h⟩ := bind_ok h
  obtain ⟨havingB, hB4, h⟩ := bind_ok h
  obtain ⟨orderB, hB5, h⟩ := bind_ok h
  obtain ⟨joinsB, hB6, h⟩ := bind_ok h
  obtain ⟨projsD, hD, h⟩ := bind_ok h
  split at h
  · simp at h
  · obtain ⟨groupF, hF1, h⟩ := bind_ok h
    obtain ⟨orderF, hF2, h⟩ := bind_ok h
    simp only [pure, Except.pure, Except.ok.injEq] at h
    have pB : ∀ p ∈ projsB, ProjOk env p = true :=
      mapE_forall _ _ _ _ hB1 (fun x y _ hxy => qcolProj_ok env hd x y hxy)
    have hpc := expandProjs_ok env hd projsB [] 0 (by intro x hx; simp at hx) pB
    have wB : ∀ e, whrB = some e → ColOk env e = true :=
      optE_forall _ _ _ _ hB2 (fun x y _ hxy => qcol_ColOk env [] hd x y hxy)
    have gB : ∀ e ∈ groupB, ColOk env e = true :=
      mapE_forall _ _ _ _ hB3 (fun x y _ hxy => qcol_ColOk env [] hd x y hxy)
    have hvB : ∀ e, havingB = some e → ColOk env e = true :=
      optE_forall _ _ _ _ hB4 (fun x y _ hxy => qcolHaving_ColOk env x y hxy)
    have oB : ∀ e ∈ orderB, ColOk env e = true :=
      mapE_forall _ _ _ _ hB5 (fun x y _ hxy => qcol_ColOk env _ hd x y hxy)
    have jAll := qcolJoins_same env jenv hd hsub js0 joinsB 0 hB6
    have jB := jAll.2.2
    have jLen : joinsB.length = js0.length ∧ hasMerge joinsB = hasMerge js0 := ⟨jAll.1, jAll.2.1⟩
    have pD : ∀ q ∈ projsD, ProjOk env q = true := by
      have : applyStars env (expandProjs env [] 0 projsB).1 = .ok projsD := by simpa [applyStarsU] using hD
      exact applyStars_ok env hd _ projsD hpc.1 this
    have pE := qualifyOutputs_ok env g.colName projsD 0 s.outer pD
    have gC : ∀ e ∈ groupB.map (expand env (expandProjs env [] 0 projsB).2 .group .root), ColOk env e = true := by
      intro e he
      obtain ⟨x, hx, rfl⟩ := List.mem_map.mp he
      exact expand_ColOk env _ _ hd hpc.2 x _ (gB x hx)
    have gF : ∀ e ∈ groupF, ColOk env e = true ∧ groupPos (qualifyOutputs g.colName 0 s.outer projsD) e = .ok e := by
      refine mapE_forall _ (fun y => ColOk env y = true ∧ groupPos (qualifyOutputs g.colName 0 s.outer projsD) y = .ok y) _ _ hF1 ?_
      intro x y hx hxy
      exact ⟨groupPos_ok env _ pE x y (gC x hx) hxy, groupPos_idem _ x y hxy⟩
    have oF : ∀ e ∈ orderF, ColOk env e = true ∧ isLit e = false := by
      refine mapE_forall _ (fun y => ColOk env y = true ∧ isLit y = false) _ _ hF2 ?_
      intro x y hx hxy
      exact ⟨orderPos_ok env _ x y (oB x hx) hxy, orderPos_notLit _ x y hxy⟩
    subst h
    refine ⟨⟨pE, ?_, fun e he => (gF e he).1, ?_, ?_, jB, fun e he => (gF e he).2, ?_, ?_, ?_⟩, jLen.1, jLen.2⟩
    · intro e he
      cases hw : whrB with
      | none => simp [hw] at he
      | some w =>
        simp [hw] at he
        subst he
        exact expand_ColOk env _ _ hd hpc.2 w _ (wB w hw)
    · intro e he
      cases hw : havingB with
      | none => simp [hw] at he
      | some w =>
        simp [hw] at he
        subst he
        exact expand_ColOk env _ _ hd hpc.2 w _ (hvB w hw)
    · intro e he
      simp only at he
      split at he
      · exact (oF e he).1
      · obtain ⟨x, hx, rfl⟩ := List.mem_map.mp he
        exact orderByAlias_ok env _ x (oF x hx).1
    · intro e he
      simp only at he
      split at he
      · exact (oF e he).2
      · obtain ⟨x, hx, rfl⟩ := List.mem_map.mp he
        exact orderByAlias_notLit _ x (oF x hx).2
    · simp only
      cases hg : groupF.isEmpty with
      | true => left; simpa using hg
      | false =>
        right
        intro e he
        simp [hg] at he
        obtain ⟨x, _, rfl⟩ := he
        exact ⟨x, rfl⟩
    · intro hs
      simp only at hs ⊢
      rw [hasStar_qualifyOutputs] at hs
      exact qualifyOutputs_allAliased g.colName projsD 0 s.outer hs

/-- without USING / NATURAL joins step U does nothing -/
theorem buildScope_noMerge (g : Gen) (env jenv : Env) (srcs' : List Src) (s : Scope) (hm : hasMerge s.joins = false) :
    buildScope g env jenv srcs' s =
      if (s.joins.length + 1 != srcs'.length && !s.joins.isEmpty) = true then .error .internal
      else buildCore g env jenv srcs' [] (s.joins.map (fun j => (j, false))) false (namedSelects s.projs) s := by
  unfold buildScope
  split
  · rfl
  · simp [expandUsing, hm, bind, Except.bind]

/-! ### the second pass -/

theorem mkEnv_fixed (g : Gen) (σ : Schema) (outs : List (List String)) :
    ∀ (srcs srcs' : List Src) (env0 : List (Bool × String × List String)),
      mkEnv g σ outs srcs = some (srcs', env0) → mkEnv g σ outs srcs' = some (srcs', env0) := by
  intro srcs
  induction srcs with
  | nil => intro srcs' env0 h; simp [mkEnv] at h; obtain ⟨rfl, rfl⟩ := h; rfl
  | cons s rest ih =>
    intro srcs' env0 h
    simp only [mkEnv] at h
    split at h
    · rename_i a cols rs env hn hc hr
      simp at h
      obtain ⟨rfl, rfl⟩ := h
      have h1 : srcName g { s with alias := some a } = some a := rfl
      have h2 : srcCols σ outs { s with alias := some a } = some cols := by simpa [srcCols] using hc
      have h3 : isDerived { s with alias := some a } = isDerived s := rfl
      simp only [mkEnv, h1, h2, ih rs env hr, h3]
    · simp at h

theorem visible_noBare (names : List String) : ∀ e : Expr, visible names [] e = true → noBare e = true := by
  intro e
  induction e with
  | col t n =>
    intro h
    cases t with
    | none => simp [visible] at h
    | some t => rfl
  | lit k => intro _; rfl
  | bin op l r ihl ihr =>
    intro h
    simp only [visible, Bool.and_eq_true] at h
    simp [noBare, ihl h.1, ihr h.2]
  | paren e ih =>
    intro h
    simp only [visible] at h
    simp [noBare, ih h]
  | coalesce args => intro _; rfl

theorem buildCore_fixed (g : Gen) (env jenv : Env) (names : List String) (srcs' : List Src) (s' : Scope)
    (hinv : ScopeInv env s') (hv : validate names s' = true) (hstar : hasStar s'.projs = false)
    (hh : ∀ e, s'.having = some e → visible names [] e = true) (ho : s'.outer = []) (hs : s'.srcs = srcs') :
    buildCore g env jenv srcs' [] (s'.joins.map (fun j => (j, false))) false (namedSelects s'.projs) s' = .ok s' := by
  obtain ⟨outer, srcs, joins, projs, whr, group, having, order⟩ := s'
  simp only at ho hs hstar hh
  subst ho hs
  obtain ⟨iP, iW, iG, iH, iO, iJ, iGF, iON, iOF, iA⟩ := hinv
  simp only at iP iW iG iH iO iJ iGF iON iOF iA
  have hAll := iA hstar
  simp only [validate, Bool.and_eq_true, List.all_eq_true] at hv
  obtain ⟨⟨⟨⟨⟨v1, v2⟩, v3⟩, _⟩, v5⟩, v6⟩ := hv
  have hB1 : mapE (qcolProj env) projs = .ok projs := by
    apply mapE_fixed
    intro p hp
    cases p with
    | star t exc => rfl
    | item e a =>
      have hc : ColOk env e = true := by simpa [ProjOk] using iP _ hp
      have hvis : visible names [] e = true := by simpa [projVisible] using v1 _ hp
      simp [qcolProj, qcol_fixed env names [] e hc hvis, bind, Except.bind, pure, Except.pure]
  have hB2 : optE (qcol env []) whr = .ok whr := by
    apply optE_fixed
    intro x hx
    subst hx
    exact qcol_fixed env names [] x (iW x rfl) (by simpa using v2)
  have hB3 : mapE (qcol env []) group = .ok group :=
    mapE_fixed _ _ (fun x hx => qcol_fixed env names [] x (iG x hx) (v3 x hx))
  have hB4 : optE (qcolHaving env) having = .ok having :=
    optE_fixed _ _ (fun x hx => qcolHaving_fixed env x (iH x hx))
  have hB5 : mapE (qcol env (namedSelects projs)) order = .ok order :=
    mapE_fixed _ _ (fun x hx => qcol_fixed env names _ x (iO x hx) (v5 x hx))
  have hB6 : qcolJoins env jenv false 0 (joins.map (fun j => (j, false))) = .ok joins := by
    have : ∀ (l : List Join) (i : Nat), (∀ j ∈ l, j ∈ joins) →
        qcolJoins env jenv false i (l.map (fun j => (j, false))) = .ok l := by
      intro l
      induction l with
      | nil => intro _ _; rfl
      | cons j rest ih =>
        intro i hl
        have hj := hl j (by simp)
        have hfix : ∀ pre, qcolJoin env pre false (j, false) = .ok j := by
          intro pre
          unfold qcolJoin
          cases hon : j.on with
          | none => simp [hon]
          | some e =>
            have hvis : visible names [] e = true := by simpa [hon] using v6 j hj
            have hnb := visible_noBare names e hvis
            simp only [hon, Bool.false_and, Bool.false_eq_true, if_false, hnb, if_true]
            rw [qcol_fixed env names [] e (iJ j hj e hon) hvis]
            simp only [bind, Except.bind, pure, Except.pure]
            congr 1
            cases j
            simp_all
        simp [qcolJoins, hfix, ih (i + 1) (fun x hx => hl x (by simp [hx])), bind, Except.bind, pure, Except.pure]
    exact this joins 0 (fun j hj => hj)
  have hC1 : ∀ m i, (expandProjs env m i projs).1 = projs := fun m i => expandProjs_fixed env names projs m i v1 hAll
  have hC2 : ∀ m, whr.map (expand env m .plain .root) = whr := by
    intro m
    cases whr with
    | none => rfl
    | some w => simp [expand_fixed env m .plain names w .root (by simpa using v2)]
  have hC3 : ∀ m, group.map (expand env m .group .root) = group := by
    intro m
    have : ∀ l : List Expr, (∀ x ∈ l, visible names [] x = true) → l.map (expand env m .group .root) = l := by
      intro l
      induction l with
      | nil => intro _; rfl
      | cons x xs ih =>
        intro hl
        simp [expand_fixed env m .group names x .root (hl x (by simp)), ih (fun y hy => hl y (by simp [hy]))]
    exact this group v3
  have hC4 : ∀ m, having.map (expand env m .having .root) = having := by
    intro m
    cases having with
    | none => rfl
    | some w => simp [expand_fixed env m .having names w .root (hh w rfl)]
  have hD : applyStarsU env [] projs = .ok projs := by
    simp [applyStarsU, applyStars, expandStars_fixed env projs hAll]
  have hE : qualifyOutputs g.colName 0 [] projs = projs := qualifyOutputs_fixed g.colName projs 0 hAll
  have hF1 : mapE (groupPos projs) group = .ok group := mapE_fixed _ _ iGF
  have hF2 : mapE (orderPos projs) order = .ok order :=
    mapE_fixed _ _ (fun x hx => orderPos_fixed projs x (iON x hx))
  have hF3 : (if group.isEmpty then order else order.map (orderByAlias projs)) = order := by
    rcases iOF with hg | hf
    · simp [hg]
    · split
      · rfl
      · have : ∀ l : List Expr, (∀ e ∈ l, ∃ x, e = orderByAlias projs x) → l.map (orderByAlias projs) = l := by
          intro l
          induction l with
          | nil => intro _; rfl
          | cons y ys ih =>
            intro hl
            obtain ⟨x, rfl⟩ := hl y (by simp)
            simp [orderByAlias_idem names projs v1 x, ih (fun z hz => hl z (by simp [hz]))]
        exact this order hf
  have hF3' : ¬ group = [] → order.map (orderByAlias projs) = order := by
    intro hne
    have hie : group.isEmpty = false := by
      cases group with
      | nil => exact absurd rfl hne
      | cons x xs => rfl
    simpa [hie] using hF3
  simp [buildCore, hB1, hB2, hB3, hB4, hB5, hB6, hC1, hC2, hC3, hC4, hD, hstar, hE, hF1, hF2,
    bind, Except.bind, pure, Except.pure]
  exact hF3'

theorem visible_of_having (names : List String) :
    ∀ e : Expr, visibleHaving names e = true → noBare e = true → visible names [] e = true := by
  intro e
  induction e with
  | col t n =>
    intro h hb
    cases t with
    | none => simp [noBare] at hb
    | some t => simpa [visible, visibleHaving] using h
  | lit k => intro _ _; rfl
  | bin op l r ihl ihr =>
    intro h hb
    simp only [visibleHaving, noBare, Bool.and_eq_true] at h hb
    simp [visible, ihl h.1 hb.1, ihr h.2 hb.2]
  | paren e ih =>
    intro h hb
    simp only [visibleHaving, noBare] at h hb
    simp [visible, ih h hb]
  | coalesce args => intro h _; simpa [visible, visibleHaving] using h

/-- the premise of pipeline idempotence, stated on the RESULT of the first pass: its stars were expanded (not the
    "source with unknown / duplicate columns" abandonment) and no bare name is left under HAVING (the complement of
    known findings C10-having-bare-name-unvalidated / -not-idempotent) -/
def Resolved (s' : Scope) : Prop :=
  hasStar s'.projs = false ∧ ∀ e, s'.having = some e → noBare e = true

theorem joinEnv_sub (g : Gen) (env0 : List (Bool × String × List String)) :
    ∀ e ∈ joinEnv g env0, e ∈ refOrder env0 := by
  intro e he
  unfold joinEnv at he
  split at he
  · obtain ⟨x, hx, rfl⟩ := List.mem_map.mp he
    simp only [refOrder, List.mem_append, List.mem_map, List.mem_filter]
    cases hb : x.1
    · exact Or.inl ⟨x, ⟨hx, by simp [hb]⟩, rfl⟩
    · exact Or.inr ⟨x, ⟨hx, by simp [hb]⟩, rfl⟩
  · exact he

theorem qualifyScope_fixed (g : Gen) (σ : Schema) (outs : List (List String)) (s s' : Scope)
    (h : qualifyScope g σ outs s = .ok s') (hm : hasMerge s.joins = false) (hr : Resolved s') :
    qualifyScope g σ outs s' = .ok s' ∧ hasMerge s'.joins = false := by
  obtain ⟨srcs', env0, hme, hdup, hb, hv⟩ := qualifyScope_ok g σ outs s s' h
  obtain ⟨hs, ho⟩ := buildScope_shape g _ _ srcs' s s' hb
  rw [buildScope_noMerge g _ _ srcs' s hm] at hb
  split at hb
  · simp at hb
  · rename_i hal
    obtain ⟨hinv, hlen, hmerge⟩ := buildCore_inv g _ _ srcs' s.joins _ s s' hdup (joinEnv_sub g env0) hb
    have hh' : ∀ e, s'.having = some e → visible (envNames (refOrder env0)) [] e = true := by
      intro e he
      have hv' := hv
      simp only [validate, Bool.and_eq_true] at hv'
      have v4 := hv'.1.1.2
      rw [he] at v4
      exact visible_of_having _ e v4 (hr.2 e he)
    have hfix := buildCore_fixed g (refOrder env0) (joinEnv g env0) (envNames (refOrder env0)) srcs' s' hinv hv hr.1 hh' ho hs
    have hm2 : hasMerge s'.joins = false := by rw [hmerge]; exact hm
    have hme' : mkEnv g σ outs s'.srcs = some (srcs', env0) := by
      rw [hs]; exact mkEnv_fixed g σ outs s.srcs srcs' env0 hme
    have hal' : (s'.joins.length + 1 != srcs'.length && !s'.joins.isEmpty) = false := by
      have : s'.joins.isEmpty = s.joins.isEmpty := by
        cases hj : s'.joins <;> cases hj0 : s.joins <;> simp_all
      rw [hlen, this]
      simpa using hal
    refine ⟨?_, hm2⟩
    have hb2 : buildScope g (refOrder env0) (joinEnv g env0) srcs' s' = .ok s' := by
      rw [buildScope_noMerge g _ _ srcs' s' hm2, hal']
      simpa using hfix
    simp [qualifyScope, hme', hdup, hb2, check, hv]

theorem qualifyFrom_fixed (g : Gen) (σ : Schema) :
    ∀ (q : List Scope) (outs : List (List String)) (q' : List Scope),
      qualifyFrom g σ outs q = .ok q' → (∀ s ∈ q, hasMerge s.joins = false) → (∀ s' ∈ q', Resolved s') →
      qualifyFrom g σ outs q' = .ok q' := by
  intro q
  induction q with
  | nil => intro outs q' h _ _; simp [qualifyFrom] at h; subst h; rfl
  | cons s rest ih =>
    intro outs q' h hm hr
    unfold qualifyFrom at h
    obtain ⟨s', hs', h⟩ := bind_ok h
    obtain ⟨rest', hrest, h⟩ := bind_ok h
    simp [pure, Except.pure] at h
    subst h
    have h1 := (qualifyScope_fixed g σ outs s s' hs' (hm s (by simp)) (hr s' (by simp))).1
    have h2 := ih _ rest' hrest (fun x hx => hm x (by simp [hx])) (fun x hx => hr x (by simp [hx]))
    simp [qualifyFrom, h1, h2, bind, Except.bind, pure, Except.pure]

/-! ### stars over USING joins: the merge-membership test -/

/-- a table that takes no part in the merge of any of its columns, none of which has been coalesced by an earlier
    star of the same select, expands to exactly its own columns -/
theorem starColsU_outside (ct : ColTables) (t : String) (exc : List String) :
    ∀ (cols coal : List String),
      (∀ c ∈ cols, ∀ e, ct.find? (fun e => e.1 == c) = some e → e.2.contains t = false) →
      (∀ c ∈ cols, coal.contains c = false) →
      starColsU ct t exc coal cols = (starCols t exc cols, coal) := by
  intro cols
  induction cols with
  | nil => intro coal _ _; rfl
  | cons c cs ih =>
    intro coal hout hco
    have ih' := ih coal (fun x hx => hout x (by simp [hx])) (fun x hx => hco x (by simp [hx]))
    have hc := hco c (by simp)
    have hcm : ¬ c ∈ coal := by simpa using hc
    unfold starColsU
    by_cases hx : c ∈ exc
    · simp [hx, ih', starCols, List.filter_cons]
    · simp only [List.contains_eq_mem, hx, hcm, decide_false, Bool.or_self, Bool.false_eq_true, if_false]
      cases hf : ct.find? (fun e => e.1 == c) with
      | none => simp [ih', starCols, List.filter_cons, hx]
      | some e =>
        have ht : ¬ t ∈ e.2 := by simpa using hout c (by simp) e hf
        simp [ht, ih', starCols, List.filter_cons, hx]

/-! ## output names through the whole pipeline -/

def nameOpt (c : String) : Option String := if c == "" then none else some c

/-- SPEC: the optional output names of a projection list, stars replaced by their sources' columns -/
def expandSpec (env : Env) : List Proj → List (Option String)
  | [] => []
  | .star none exc :: ps => (env.flatMap (fun e => (e.2.filter (fun c => !exc.contains c)).map nameOpt)) ++ expandSpec env ps
  | .star (some t) exc :: ps => (((colsOf env t).filter (fun c => !exc.contains c)).map nameOpt) ++ expandSpec env ps
  | .item _ (some a) :: ps => some a :: expandSpec env ps
  | .item e none :: ps => nameOpt (exprName e) :: expandSpec env ps

/-- SPEC: anonymous positions are called `_col_i` -/
def nameAll (cn : Nat → String) : Nat → List (Option String) → List String
  | _, [] => []
  | i, some n :: l => n :: nameAll cn (i + 1) l
  | i, none :: l => cn i :: nameAll cn (i + 1) l

/-- SPEC: an outer column list (CTE / derived-table alias columns) overrides position by position -/
def overlay : List String → List String → List String
  | _, [] => []
  | [], ns => ns
  | o :: os, _ :: ns => o :: overlay os ns

def optNames : List Proj → List (Option String)
  | [] => []
  | .star _ _ :: ps => some "*" :: optNames ps
  | .item _ (some a) :: ps => some a :: optNames ps
  | .item e none :: ps => nameOpt (exprName e) :: optNames ps

def headBare : Expr → Bool
  | .col none _ => true
  | .paren e => headBare e
  | _ => false

/-- the name-giving head of an unaliased projection, if it is a bare name, resolves to a source -/
def headResolves (env : Env) : Expr → Bool
  | .col none n => (unique env n).isSome
  | .paren e => headResolves env e
  | _ => true

def NamesStable (env : Env) (ps : List Proj) : Prop := ∀ e, Proj.item e none ∈ ps → headResolves env e = true

@[simp] theorem overlay_nil (l : List String) : overlay [] l = l := by cases l <;> rfl

theorem qualifyOutputs_names (cn : Nat → String) :
    ∀ (ps : List Proj) (i : Nat) (outer : List String), hasStar ps = false →
      outNames (qualifyOutputs cn i outer ps) = overlay outer (nameAll cn i (optNames ps)) := by
  intro ps
  induction ps with
  | nil => intro i outer _; cases outer <;> rfl
  | cons p rest ih =>
    intro i outer hs
    cases p with
    | star t exc => simp [hasStar] at hs
    | item e a =>
      simp only [hasStar] at hs
      have ih' := ih (i + 1) outer.tail hs
      cases a with
      | some a =>
        cases outer with
        | nil => simpa [qualifyOutputs, outNames, optNames, nameAll, overlay] using ih'
        | cons o os => simpa [qualifyOutputs, outNames, optNames, nameAll, overlay] using ih'
      | none =>
        by_cases hn : exprName e = ""
        · cases outer with
          | nil => simpa [qualifyOutputs, outNames, optNames, nameAll, overlay, outAlias, nameOpt, hn] using ih'
          | cons o os => simpa [qualifyOutputs, outNames, optNames, nameAll, overlay, outAlias, nameOpt, hn] using ih'
        · cases outer with
          | nil => simpa [qualifyOutputs, outNames, optNames, nameAll, overlay, outAlias, nameOpt, hn] using ih'
          | cons o os => simpa [qualifyOutputs, outNames, optNames, nameAll, overlay, outAlias, nameOpt, hn] using ih'

theorem expandSpec_noStar (env : Env) : ∀ ps : List Proj, hasStar ps = false → expandSpec env ps = optNames ps := by
  intro ps
  induction ps with
  | nil => intro _; rfl
  | cons p rest ih =>
    intro hs
    cases p with
    | star t exc => simp [hasStar] at hs
    | item e a =>
      simp only [hasStar] at hs
      cases a <;> simp [expandSpec, optNames, ih hs]

theorem optNames_append (a b : List Proj) : optNames (a ++ b) = optNames a ++ optNames b := by
  induction a with
  | nil => rfl
  | cons p rest ih =>
    cases p with
    | star t exc => simp [optNames, ih]
    | item e al => cases al <;> simp [optNames, ih]

theorem optNames_starCols (t : String) (exc cols : List String) :
    optNames (starCols t exc cols) = (cols.filter (fun c => !exc.contains c)).map nameOpt := by
  unfold starCols
  induction cols.filter (fun c => !exc.contains c) with
  | nil => rfl
  | cons c cs ih => simp [optNames, exprName, ih]

theorem expandStarTables_names (exc : List String) :
    ∀ (l : Env) (qs : List Proj), expandStarTables exc l = .ok qs →
      optNames qs = l.flatMap (fun e => (e.2.filter (fun c => !exc.contains c)).map nameOpt) := by
  intro l
  induction l with
  | nil => intro qs h; simp [expandStarTables] at h; subst h; rfl
  | cons e rest ih =>
    intro qs h
    obtain ⟨t, cols⟩ := e
    simp only [expandStarTables] at h
    split at h
    · simp at h
    · split at h
      · rename_i ps hps
        simp at h
        subst h
        simp [optNames_append, optNames_starCols, ih ps hps]
      · rename_i hr
        exact absurd h (hr _)

theorem expandStars_names (env : Env) :
    ∀ (ps qs : List Proj), expandStars env ps = .ok qs → optNames qs = expandSpec env ps := by
  intro ps
  induction ps with
  | nil => intro qs h; simp [expandStars] at h; subst h; rfl
  | cons p rest ih =>
    intro qs h
    cases p with
    | item e a =>
      simp only [expandStars] at h
      split at h
      · rename_i rs hrs
        simp at h
        subst h
        cases a <;> simp [optNames, expandSpec, ih rs hrs]
      · rename_i hr
        exact absurd h (hr _)
    | star t exc =>
      cases t with
      | none =>
        simp only [expandStars] at h
        split at h
        · rename_i q1 hq1
          split at h
          · rename_i rs hrs
            simp at h
            subst h
            simp [optNames_append, expandSpec, expandStarTables_names exc env q1 hq1, ih rs hrs]
          · rename_i hr
            exact absurd h (hr _)
        · rename_i hr
          exact absurd h (hr _)
      | some t =>
        simp only [expandStars] at h
        split at h
        · simp at h
        · rename_i cols hc
          split at h
          · rename_i q1 hq1
            split at h
            · rename_i rs hrs
              simp at h
              subst h
              have := expandStarTables_names exc [(t, cols)] q1 hq1
              simp [optNames_append, expandSpec, this, ih rs hrs, colsOf, hc]
            · rename_i hr
              exact absurd h (hr _)
          · rename_i hr
            exact absurd h (hr _)

theorem hasStar_of_abandon (env : Env) : ∀ ps : List Proj, expandStars env ps = .abandon → hasStar ps = true := by
  intro ps
  induction ps with
  | nil => intro h; simp [expandStars] at h
  | cons p rest ih =>
    intro h
    cases p with
    | star t exc => rfl
    | item e a =>
      simp only [expandStars] at h
      split at h
      · simp at h
      · simpa [hasStar] using ih h

theorem applyStars_names (env : Env) (ps qs : List Proj) (h : applyStars env ps = .ok qs) (hs : hasStar qs = false) :
    optNames qs = expandSpec env ps := by
  unfold applyStars at h
  split at h
  · rename_i q1 hq1
    split at h
    · have hq : ps = qs := by simpa using h
      rw [← hq] at hs ⊢
      exact (expandSpec_noStar env ps hs).symm
    · have hq : q1 = qs := by simpa using h
      rw [← hq]
      exact expandStars_names env ps q1 hq1
  · rename_i ha
    have hq : ps = qs := by simpa using h
    rw [← hq] at hs
    rw [hasStar_of_abandon env ps ha] at hs
    simp at hs
  · simp at h

theorem qcol_name (env : Env) :
    ∀ e e' : Expr, qcol env [] e = .ok e' → exprName e' = exprName e ∧ (headResolves env e = true → headBare e' = false) := by
  intro e
  induction e with
  | col t n =>
    intro e' h
    cases t with
    | some t =>
      rw [qcol_some] at h
      split at h
      · simp at h; subst h; exact ⟨rfl, fun _ => rfl⟩
      · simp at h
    | none =>
      simp only [qcol, List.contains_nil, Bool.false_eq_true, if_false] at h
      split at h
      · simp at h; subst h; exact ⟨rfl, fun _ => rfl⟩
      · rename_i hu
        simp at h; subst h
        refine ⟨rfl, ?_⟩
        intro hr
        simp [headResolves, hu] at hr
  | lit k => intro e' h; simp [qcol] at h; subst h; exact ⟨rfl, fun _ => rfl⟩
  | bin op l r _ _ =>
    intro e' h
    simp only [qcol] at h
    obtain ⟨l', _, h⟩ := bind_ok h
    obtain ⟨r', _, h⟩ := bind_ok h
    simp [pure, Except.pure] at h
    subst h
    exact ⟨rfl, fun _ => rfl⟩
  | paren e ih =>
    intro e' h
    simp only [qcol] at h
    obtain ⟨x, hx, h⟩ := bind_ok h
    simp [pure, Except.pure] at h
    subst h
    obtain ⟨h1, h2⟩ := ih x hx
    exact ⟨by simpa [exprName] using h1, by simpa [headResolves, headBare] using h2⟩
  | coalesce args =>
    intro e' h
    simp only [qcol] at h
    split at h
    · simp at h; subst h; exact ⟨rfl, fun _ => rfl⟩
    · simp at h

theorem expand_name (env : Env) (m : AMap) (cl : Clause) :
    ∀ (e : Expr) (ctx : Ctx), headBare e = false → exprName (expand env m cl ctx e) = exprName e := by
  intro e
  induction e with
  | col t n =>
    intro ctx h
    cases t with
    | some t => rfl
    | none => simp [headBare] at h
  | lit k => intro _ _; rfl
  | bin op l r _ _ => intro _ _; rfl
  | paren e ih => intro ctx h; simpa [expand, exprName] using ih .paren (by simpa [headBare] using h)
  | coalesce args => intro _ _; rfl

/-- steps B and C do not change the name-giving data of a projection list -/
theorem qcolProjs_spec (env : Env) :
    ∀ (ps psB : List Proj), mapE (qcolProj env) ps = .ok psB → NamesStable env ps →
      expandSpec env psB = expandSpec env ps ∧ (∀ e, Proj.item e none ∈ psB → headBare e = false) := by
  intro ps
  induction ps with
  | nil => intro psB h _; simp [mapE] at h; subst h; exact ⟨rfl, by intro e he; simp at he⟩
  | cons p rest ih =>
    intro psB h hst
    simp only [mapE] at h
    obtain ⟨q, hq, h⟩ := bind_ok h
    obtain ⟨qs, hqs, h⟩ := bind_ok h
    simp [pure, Except.pure] at h
    subst h
    obtain ⟨h1, h2⟩ := ih qs hqs (fun e he => hst e (by simp [he]))
    cases p with
    | star t exc =>
      simp [qcolProj] at hq
      subst hq
      refine ⟨by cases t <;> simp [expandSpec, h1], ?_⟩
      intro e he
      simp at he
      exact h2 e he
    | item e a =>
      simp only [qcolProj] at hq
      obtain ⟨e', he', hq⟩ := bind_ok hq
      simp [pure, Except.pure] at hq
      subst hq
      obtain ⟨hn, hb⟩ := qcol_name env e e' he'
      cases a with
      | some a =>
        refine ⟨by simp [expandSpec, h1], ?_⟩
        intro x hx
        simp at hx
        exact h2 x hx
      | none =>
        refine ⟨by simp [expandSpec, h1, hn], ?_⟩
        intro x hx
        simp at hx
        rcases hx with rfl | hx
        · exact hb (hst e (by simp))
        · exact h2 x hx

theorem expandProjs_spec (env : Env) :
    ∀ (ps : List Proj) (m : AMap) (i : Nat), (∀ e, Proj.item e none ∈ ps → headBare e = false) →
      expandSpec env (expandProjs env m i ps).1 = expandSpec env ps := by
  intro ps
  induction ps with
  | nil => intro _ _ _; rfl
  | cons p rest ih =>
    intro m i hb
    cases p with
    | star t exc =>
      have := ih m (i + 1) (fun e he => hb e (by simp [he]))
      cases t <;> simp [expandProjs, expandSpec, this]
    | item e a =>
      cases a with
      | some a =>
        have := ih ((a, expand env m .plain .root e, i + 1) :: m) (i + 1) (fun x hx => hb x (by simp [hx]))
        simp [expandProjs, expandSpec, this]
      | none =>
        have := ih m (i + 1) (fun x hx => hb x (by simp [hx]))
        simp [expandProjs, expandSpec, this, expand_name env m .plain e .root (hb e (by simp))]

theorem buildCore_names (g : Gen) (env jenv : Env) (srcs' : List Src) (jgs : List (Join × Bool)) (replaced : Bool)
    (skip : List String) (s s' : Scope) (h : buildCore g env jenv srcs' [] jgs replaced skip s = .ok s')
    (hstar : hasStar s'.projs = false) (hst : NamesStable env s.projs) :
    outNames s'.projs = overlay s.outer (nameAll g.colName 0 (expandSpec env s.projs)) := by
  unfold buildCore at h
  obtain ⟨projsB, hB1, h⟩ := bind_ok h
  obtain ⟨_, _, h⟩ := bind_ok h
  obtain ⟨_, _, h⟩ := bind_ok h
  obtain ⟨_, _, h⟩ := bind_ok h
  obtain ⟨_, _, h⟩ := bind_ok h
  obtain ⟨_, _, h⟩ := bind_ok h
  obtain ⟨projsD, hD, h⟩ := bind_ok h
  split at h
  · simp at h
  · obtain ⟨_, _, h⟩ := bind_ok h
    obtain ⟨_, _, h⟩ := bind_ok h
    simp only [pure, Except.pure, Except.ok.injEq] at h
    subst h
    simp only at hstar ⊢
    rw [hasStar_qualifyOutputs] at hstar
    obtain ⟨hs1, hs2⟩ := qcolProjs_spec env s.projs projsB hB1 hst
    have hs3 := expandProjs_spec env projsB [] 0 hs2
    have hD' : applyStars env (expandProjs env [] 0 projsB).1 = .ok projsD := by simpa [applyStarsU] using hD
    have hs4 := applyStars_names env _ projsD hD' hstar
    rw [qualifyOutputs_names g.colName projsD 0 s.outer hstar, hs4, hs3, hs1]

/-! ## lexical CTE visibility: siblings are independent when `branch` copies -/

theorem cbranch_copy (st : CState) (p : Nat) (extra : CteEnv) (ps : CScope) (hp : st.scopes[p]? = some ps) :
    cbranch true st p extra =
      { envs := st.envs ++ [extra ++ st.env ps.ref],
        scopes := st.scopes ++ [⟨st.envs.length, extra ++ st.env ps.ref⟩] } := by
  simp [cbranch, hp]

/-- a sibling branched after another sibling's nested WITH was processed sees exactly what the parent saw before -/
theorem sibling_independent (st : CState) (p : Nat) (extra defs : CteEnv) (n : String) (ps : CScope)
    (hp : st.scopes[p]? = some ps) (href : ps.ref < st.envs.length) :
    cresolve (cbranch true (cupdate (cbranch true st p extra) st.scopes.length defs) p []) (st.scopes.length + 1) n
      = (st.env ps.ref).lookup n := by
  have hplt : p < st.scopes.length := by
    rcases Nat.lt_or_ge p st.scopes.length with h | h
    · exact h
    · rw [List.getElem?_eq_none h] at hp; simp at hp
  rw [cbranch_copy st p extra ps hp]
  have hc1 : (st.scopes ++ [(⟨st.envs.length, extra ++ st.env ps.ref⟩ : CScope)])[st.scopes.length]?
      = some ⟨st.envs.length, extra ++ st.env ps.ref⟩ := by simp
  simp only [cupdate, hc1]
  have hp2 : ((st.scopes ++ [(⟨st.envs.length, extra ++ st.env ps.ref⟩ : CScope)]).set st.scopes.length
      ⟨st.envs.length, defs ++ (extra ++ st.env ps.ref)⟩)[p]? = some ps := by
    rw [List.getElem?_set_ne (by omega)]
    rw [List.getElem?_append_left hplt]
    exact hp
  rw [cbranch_copy _ p [] ps hp2]
  have henv : ∀ (x : CteEnv) (sc : List CScope),
      CState.env { envs := (st.envs ++ [extra ++ st.env ps.ref]).set st.envs.length x, scopes := sc } ps.ref
        = st.env ps.ref := by
    intro x sc
    simp only [CState.env, List.getD_eq_getElem?_getD]
    rw [List.getElem?_set_ne (by omega), List.getElem?_append_left href]
  simp only [cresolve, List.nil_append, henv, List.length_set, List.length_append, List.length_cons, List.length_nil]
  simp

/-! ## the schema's name memo -/

/-- every entry answers correctly for EVERY call that maps to its key -/
def MemoOk (hasRole : Bool) (f : CaseFns) (ts : Bool) (s : Strategy) (memo : NameMemo) : Prop :=
  ∀ e ∈ memo, ∀ k : NKey, memoKey hasRole k = e.1 → e.2 = normName f ts s k

theorem normName_role_insensitive (f : CaseFns) (s : Strategy) (n : String) (q a b : Bool) :
    normName f false s ⟨n, q, a⟩ = normName f false s ⟨n, q, b⟩ := by
  simp [normName, normalizeT]

theorem sameKey_sameNorm (hasRole : Bool) (f : CaseFns) (ts : Bool) (s : Strategy)
    (h : hasRole = true ∨ ts = false) (a b : NKey) (hk : memoKey hasRole a = memoKey hasRole b) :
    normName f ts s a = normName f ts s b := by
  obtain ⟨an, aq, at_⟩ := a
  obtain ⟨bn, bq, bt⟩ := b
  simp only [memoKey, Prod.mk.injEq] at hk
  obtain ⟨rfl, rfl, hr⟩ := hk
  rcases h with h | h
  · subst h
    simp at hr
    subst hr
    rfl
  · subst h
    exact normName_role_insensitive f s an aq at_ bt

theorem lookup_mem {α β} [BEq α] [LawfulBEq α] (l : List (α × β)) (k : α) (v : β) (h : l.lookup k = some v) :
    (k, v) ∈ l := by
  induction l with
  | nil => simp [List.lookup] at h
  | cons x xs ih =>
    obtain ⟨a, b⟩ := x
    simp only [List.lookup] at h
    by_cases hk : k == a
    · simp [hk] at h
      have : k = a := by simpa using hk
      subst this; subst h
      simp
    · simp [hk] at h
      exact List.mem_cons_of_mem _ (ih h)

theorem normMemo_sound (hasRole : Bool) (f : CaseFns) (ts : Bool) (s : Strategy) (h : hasRole = true ∨ ts = false)
    (memo : NameMemo) (hm : MemoOk hasRole f ts s memo) (k : NKey) :
    (normMemo hasRole f ts s memo k).1 = normName f ts s k ∧ MemoOk hasRole f ts s (normMemo hasRole f ts s memo k).2 := by
  unfold normMemo
  cases hl : memo.lookup (memoKey hasRole k) with
  | some v =>
    simp only
    exact ⟨hm _ (lookup_mem memo _ v hl) k rfl, hm⟩
  | none =>
    simp only [true_and]
    intro e he k' hk'
    simp only [List.mem_cons] at he
    rcases he with rfl | he
    · exact sameKey_sameNorm hasRole f ts s h k k' (by simpa using hk'.symm)
    · exact hm e he k' hk'

end SqlglotModel.Qualify
