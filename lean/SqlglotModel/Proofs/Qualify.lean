/- Helper lemmas for C10 (identifier rules and the scope model). -/
import SqlglotModel.Model.Qualify

namespace SqlglotModel.Qualify
open SqlglotModel.Ident

theorem normalize_idem (f : CaseFns) (hf : f.Ok) (s : Strategy) (i : Ident) :
    normalize f s (normalize f s i) = normalize f s i := by
  unfold normalize
  by_cases h : folds s i.quoted = true
  · simp only [h, if_true]
    by_cases hu : foldsUpper s = true
    · simp [hu, hf.upper_idem]
    · simp [hu, hf.lower_idem]
  · simp [h]

/-! ### sources -/

theorem mkEnv_aliased (g : Gen) (σ : Schema) (outs : List (List String)) :
    ∀ (srcs srcs' : List Src) (env0 : List (Bool × String × List String)),
      mkEnv g σ outs srcs = some (srcs', env0) →
      srcs'.map (·.alias) = env0.map (fun e => some e.2.1) := by
  intro srcs
  induction srcs with
  | nil => intro srcs' env0 h; simp [mkEnv] at h; obtain ⟨rfl, rfl⟩ := h; rfl
  | cons s rest ih =>
    intro srcs' env0 h
    simp only [mkEnv] at h
    split at h
    · rename_i a cols rs env hn hc hr
      simp at h
      obtain ⟨rfl, rfl⟩ := h
      simp [ih rs env hr]
    · simp at h

/-! ### the pipeline reaches `check` -/

theorem qualifyScope_ok (g : Gen) (σ : Schema) (outs : List (List String)) (s s' : Scope)
    (h : qualifyScope g σ outs s = .ok s') :
    ∃ srcs' env0, mkEnv g σ outs s.srcs = some (srcs', env0)
      ∧ hasDup (envNames (refOrder env0)) = false
      ∧ buildScope g (refOrder env0) srcs' s = .ok s'
      ∧ validate (envNames (refOrder env0)) s' = true := by
  unfold qualifyScope at h
  split at h
  · simp at h
  · rename_i srcs' env0 hm
    split at h
    · simp at h
    · rename_i hd
      split at h
      · rename_i s'' hb
        unfold check at h
        split at h
        · rename_i hv
          simp at h
          subst h
          exact ⟨srcs', env0, hm, by simpa using hd, hb, hv⟩
        · simp at h
      · simp at h

theorem bind_ok {ε α β} {x : Except ε α} {f : α → Except ε β} {b : β}
    (h : (x >>= f) = .ok b) : ∃ a, x = .ok a ∧ f a = .ok b := by
  cases x with
  | error e => simp [bind, Except.bind] at h
  | ok a => exact ⟨a, rfl, by simpa [bind, Except.bind] using h⟩

theorem buildScope_shape (g : Gen) (env : Env) (srcs' : List Src) (s s' : Scope)
    (h : buildScope g env srcs' s = .ok s') : s'.srcs = srcs' ∧ s'.outer = [] := by
  unfold buildScope at h
  obtain ⟨_, _, h⟩ := bind_ok h
  obtain ⟨_, _, h⟩ := bind_ok h
  obtain ⟨_, _, h⟩ := bind_ok h
  obtain ⟨_, _, h⟩ := bind_ok h
  obtain ⟨_, _, h⟩ := bind_ok h
  obtain ⟨_, _, h⟩ := bind_ok h
  split at h
  · simp at h
  · obtain ⟨_, _, h⟩ := bind_ok h
    obtain ⟨_, _, h⟩ := bind_ok h
    simp [pure, Except.pure] at h
    subst h
    exact ⟨rfl, rfl⟩

/-! ### stars -/

def GoodSrc (e : String × List String) : Prop :=
  e.2.isEmpty = false ∧ e.2.contains "*" = false ∧ hasDup e.2 = false

theorem expandStarTables_ok (exc : List String) :
    ∀ env : Env, (∀ e ∈ env, GoodSrc e) →
      expandStarTables exc env = .ok (env.flatMap (fun e => starCols e.1 exc e.2)) := by
  intro env
  induction env with
  | nil => intro _; rfl
  | cons e rest ih =>
    intro hg
    obtain ⟨t, cols⟩ := e
    have h1 := hg (t, cols) (by simp)
    obtain ⟨ha, hb, hc⟩ := h1
    simp only at ha hb hc
    have := ih (fun e he => hg e (by simp [he]))
    have hb' : ¬ "*" ∈ cols := by simpa using hb
    simp [expandStarTables, ha, hb', hc, this]

theorem qualifyOutputs_cols (cn : Nat → String) :
    ∀ (l : List (String × String)) (i : Nat), (∀ p ∈ l, p.2 ≠ "") →
      qualifyOutputs cn i [] (l.map (fun p => Proj.item (.col (some p.1) p.2) none))
        = l.map (fun p => Proj.item (.col (some p.1) p.2) (some p.2)) := by
  intro l
  induction l with
  | nil => intro i _; rfl
  | cons p rest ih =>
    intro i hne
    have hp : p.2 ≠ "" := hne p (by simp)
    have := ih (i + 1) (fun q hq => hne q (by simp [hq]))
    simp [List.map, qualifyOutputs, outAlias, exprName, this, hp]

theorem refOrder_names (l : List (Bool × String × List String)) (n : String) :
    n ∈ envNames (refOrder l) ↔ ∃ e ∈ l, e.2.1 = n := by
  simp only [envNames, refOrder, List.map_append, List.map_map, List.mem_append, List.mem_map, List.mem_filter,
    Function.comp]
  constructor
  · rintro (⟨e, ⟨he, _⟩, rfl⟩ | ⟨e, ⟨he, _⟩, rfl⟩) <;> exact ⟨e, he, rfl⟩
  · rintro ⟨e, he, rfl⟩
    cases hb : e.1
    · exact Or.inl ⟨e, ⟨he, by simp [hb]⟩, rfl⟩
    · exact Or.inr ⟨e, ⟨he, by simp [hb]⟩, rfl⟩

/-- what `qualify_complete` promises about one qualified scope -/
def Complete (s' : Scope) : Prop :=
  (∀ src ∈ s'.srcs, src.alias.isSome = true) ∧ s'.outer = []
  ∧ ∃ names : List String, validate names s' = true ∧ ∀ n ∈ names, some n ∈ s'.srcs.map (·.alias)

theorem qualifyScope_complete (g : Gen) (σ : Schema) (outs : List (List String)) (s s' : Scope)
    (h : qualifyScope g σ outs s = .ok s') : Complete s' := by
  obtain ⟨srcs', env0, hm, _, hb, hv⟩ := qualifyScope_ok g σ outs s s' h
  obtain ⟨hs, ho⟩ := buildScope_shape g _ srcs' s s' hb
  have ha := mkEnv_aliased g σ outs s.srcs srcs' env0 hm
  refine ⟨?_, ho, envNames (refOrder env0), hv, ?_⟩
  · intro src hsrc
    rw [hs] at hsrc
    have : src.alias ∈ srcs'.map (·.alias) := List.mem_map.mpr ⟨src, hsrc, rfl⟩
    rw [ha] at this
    obtain ⟨e, _, he⟩ := List.mem_map.mp this
    rw [← he]; rfl
  · intro n hn
    obtain ⟨e, he, rfl⟩ := (refOrder_names env0 n).mp hn
    rw [hs, ha]
    exact List.mem_map.mpr ⟨e, he, rfl⟩

theorem qualifyFrom_complete (g : Gen) (σ : Schema) :
    ∀ (q : List Scope) (outs : List (List String)) (q' : List Scope),
      qualifyFrom g σ outs q = .ok q' → q'.length = q.length ∧ ∀ s' ∈ q', Complete s' := by
  intro q
  induction q with
  | nil => intro outs q' h; simp [qualifyFrom] at h; subst h; simp
  | cons s rest ih =>
    intro outs q' h
    unfold qualifyFrom at h
    obtain ⟨s', hs', h⟩ := bind_ok h
    obtain ⟨rest', hr, h⟩ := bind_ok h
    simp [pure, Except.pure] at h
    subst h
    obtain ⟨hl, hc⟩ := ih _ _ hr
    refine ⟨by simp [hl], ?_⟩
    intro x hx
    simp at hx
    rcases hx with rfl | hx
    · exact qualifyScope_complete g σ outs s x hs'
    · exact hc x hx

/-! ### second-pass identities of the stages C, D, E -/

theorem expand_fixed (env : Env) (m : AMap) (cl : Clause) (names : List String) :
    ∀ (e : Expr) (ctx : Ctx), visible names [] e = true → expand env m cl ctx e = e := by
  intro e
  induction e with
  | col t n =>
    intro ctx h
    cases t with
    | none => simp [visible] at h
    | some t => rfl
  | lit k => intro _ _; rfl
  | bin op l r ihl ihr =>
    intro ctx h
    simp only [visible, Bool.and_eq_true] at h
    simp [expand, ihl _ h.1, ihr _ h.2]
  | paren e ih =>
    intro ctx h
    simp only [visible] at h
    simp [expand, ih _ h]

def AllAliased : List Proj → Prop
  | [] => True
  | .item _ (some _) :: ps => AllAliased ps
  | _ :: _ => False

theorem qualifyOutputs_fixed (cn : Nat → String) :
    ∀ (ps : List Proj) (i : Nat), AllAliased ps → qualifyOutputs cn i [] ps = ps := by
  intro ps
  induction ps with
  | nil => intro _ _; rfl
  | cons p rest ih =>
    intro i h
    cases p with
    | star t exc => simp [AllAliased] at h
    | item e a =>
      cases a with
      | none => simp [AllAliased] at h
      | some a =>
        simp only [AllAliased] at h
        simp [qualifyOutputs, ih _ h]

theorem allAliased_noStar : ∀ ps : List Proj, AllAliased ps → hasStar ps = false := by
  intro ps
  induction ps with
  | nil => intro _; rfl
  | cons p rest ih =>
    intro h
    cases p with
    | star t exc => simp [AllAliased] at h
    | item e a =>
      cases a with
      | none => simp [AllAliased] at h
      | some a => simp only [AllAliased] at h; simp [hasStar, ih h]

theorem expandStars_fixed (env : Env) :
    ∀ ps : List Proj, AllAliased ps → expandStars env ps = .ok ps := by
  intro ps
  induction ps with
  | nil => intro _; rfl
  | cons p rest ih =>
    intro h
    cases p with
    | star t exc => simp [AllAliased] at h
    | item e a =>
      cases a with
      | none => simp [AllAliased] at h
      | some a => simp only [AllAliased] at h; simp [expandStars, ih h]

/-- `qualify_outputs` always produces fully aliased projections when no star is left -/
theorem qualifyOutputs_allAliased (cn : Nat → String) :
    ∀ (ps : List Proj) (i : Nat) (outer : List String), hasStar ps = false →
      AllAliased (qualifyOutputs cn i outer ps) := by
  intro ps
  induction ps with
  | nil => intro _ _ _; trivial
  | cons p rest ih =>
    intro i outer h
    cases p with
    | star t exc => simp [hasStar] at h
    | item e a =>
      simp only [hasStar] at h
      simp only [qualifyOutputs, AllAliased]
      exact ih _ _ h

end SqlglotModel.Qualify
